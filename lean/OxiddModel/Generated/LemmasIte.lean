import OxiddModel.Generated.RulesIte
import OxiddModel.Bdd.Ite
import OxiddModel.Bcdd.Ite

/-!
# Meaning of the `apply_ite` shortcut tables and their general soundness (C02)

* `rowsOK`: a finite check on a list of shortcut rows — for each row and each of the 8 Boolean
  values of `(f, g, h)` at one assignment that are compatible with the row's condition (and with
  "an earlier row `[same a b]` did not fire although both are terminals": the values differ), the
  returned expression has the value `if f then g else h`.
* `Sem E`: what a diagram kind must provide (evaluation, structural truth of a condition atom,
  interpretation of a result expression by the model's own `applyNot` / `applyBin`), with the
  two soundness facts relating structure to values.
* `rows_sound`: for **every** list passing `rowsOK`, every operand triple and every assignment, the
  first row that fires returns a diagram whose value is `ite`.
* instances `bddSem` (`Bdd.BDD`), `bcddSem` (`Bcdd.Edge`);
* `bdd_applyIte_unfold`, `bcdd_applyIte_unfold`: the models' `applyIte` *is* "first matching row of
  `modelRowsBdd` / `modelRowsBcdd`, else the recursive case" — for all operands.
-/
namespace OxiddModel.Generated.It

def V.pick {α : Type} (v : V) (f g h : α) : α :=
  match v with
  | .f => f | .g => g | .h => h

def IOp.sem : IOp → Bool → Bool → Bool
  | .and, a, b => a && b
  | .or, a, b => a || b
  | .nand, a, b => !(a && b)
  | .nor, a, b => !(a || b)
  | .xor, a, b => a != b
  | .equiv, a, b => a == b
  | .imp, a, b => !a || b
  | .impStrict, a, b => !a && b

def IExpr.sem (vf vg vh : Bool) : IExpr → Bool
  | .opnd v => v.pick vf vg vh
  | .neg e => !e.sem vf vg vh
  | .bin op a b => op.sem (a.sem vf vg vh) (b.sem vf vg vh)

def iteB (vf vg vh : Bool) : Bool := if vf then vg else vh

/-- what an atom implies for the operands' values at one assignment -/
def Atom.holdsB (vf vg vh : Bool) : Atom → Bool
  | .same a b => a.pick vf vg vh == b.pick vf vg vh
  | .sameNode a b eq => (a.pick vf vg vh == b.pick vf vg vh) == eq
  | .term a v => a.pick vf vg vh == v
  | .termAny _ => true
  | .inner _ => true

def Atom.pinsTerm (x : V) : Atom → Bool
  | .term a _ => a == x
  | .termAny a => a == x
  | _ => false

/-- in this row both `a` and `b` are terminals, and an earlier row `[same a b]` did not fire -/
def differ (earlier : List (List Atom)) (cond : List Atom) (a b : V) : Bool :=
  cond.any (·.pinsTerm a) && cond.any (·.pinsTerm b) && earlier.contains [.same a b]

def pairs : List (V × V) := [(.f, .g), (.f, .h), (.g, .h)]

def bools : List Bool := [false, true]

def rowOKB (earlier : List (List Atom)) (r : Row) : Bool :=
  bools.all fun vf => bools.all fun vg => bools.all fun vh =>
    !(r.cond.all (·.holdsB vf vg vh) &&
        pairs.all (fun p => !differ earlier r.cond p.1 p.2 || (p.1.pick vf vg vh != p.2.pick vf vg vh)))
      || (r.res.sem vf vg vh == iteB vf vg vh)

def rowsOKAux (earlier : List (List Atom)) : List Row → Bool
  | [] => true
  | r :: rs => rowOKB earlier r && rowsOKAux (r.cond :: earlier) rs

/-- every row, in the context of the rows before it, is an identity of `ite` -/
def rowsOK (rows : List Row) : Bool := rowsOKAux [] rows

/-- what a diagram kind provides -/
structure Sem (E : Type) where
  eval : E → (Nat → Bool) → Bool
  holds : Atom → E → E → E → Bool
  interp : IExpr → E → E → E → E
  holds_sound : ∀ a f g h σ, holds a f g h = true → a.holdsB (eval f σ) (eval g σ) (eval h σ) = true
  differ_sound : ∀ (a b : V) (c : List Atom) f g h σ, c.any (·.pinsTerm a) = true →
    c.any (·.pinsTerm b) = true → c.all (holds · f g h) = true → holds (.same a b) f g h = false →
    a.pick (eval f σ) (eval g σ) (eval h σ) ≠ b.pick (eval f σ) (eval g σ) (eval h σ)
  interp_eval : ∀ e f g h σ, eval (interp e f g h) σ = e.sem (eval f σ) (eval g σ) (eval h σ)

def Sem.fires {E : Type} (S : Sem E) (r : Row) (f g h : E) : Bool := r.cond.all (S.holds · f g h)

/-- the first row that fires -/
def Sem.run {E : Type} (S : Sem E) : List Row → E → E → E → Option IExpr
  | [], _, _, _ => none
  | r :: rs, f, g, h => if S.fires r f g h then some r.res else S.run rs f g h

theorem bools_all {p : Bool → Bool} (h : bools.all p = true) (b : Bool) : p b = true := by
  simp only [bools, List.all_cons, List.all_nil, Bool.and_true, Bool.and_eq_true] at h
  cases b; exact h.1; exact h.2

theorem rows_sound_aux {E : Type} (S : Sem E) (rows : List Row) (earlier : List (List Atom))
    (hok : rowsOKAux earlier rows = true) (f g h : E)
    (hearlier : ∀ c ∈ earlier, c.all (S.holds · f g h) = false)
    (e : IExpr) (hrun : S.run rows f g h = some e) (σ : Nat → Bool) :
    S.eval (S.interp e f g h) σ = iteB (S.eval f σ) (S.eval g σ) (S.eval h σ) := by
  induction rows generalizing earlier with
  | nil => simp [Sem.run] at hrun
  | cons r rs ih =>
    simp only [rowsOKAux, Bool.and_eq_true] at hok
    simp only [Sem.run] at hrun
    by_cases hf : S.fires r f g h = true
    · rw [if_pos hf] at hrun
      cases hrun
      have h1 := bools_all (bools_all (bools_all hok.1 (S.eval f σ)) (S.eval g σ)) (S.eval h σ)
      rw [S.interp_eval]
      have hc : r.cond.all (·.holdsB (S.eval f σ) (S.eval g σ) (S.eval h σ)) = true := by
        simp only [Sem.fires, List.all_eq_true] at hf ⊢
        intro a ha; exact S.holds_sound a f g h σ (hf a ha)
      have hp : pairs.all (fun p => !differ earlier r.cond p.1 p.2 ||
          (p.1.pick (S.eval f σ) (S.eval g σ) (S.eval h σ) != p.2.pick (S.eval f σ) (S.eval g σ) (S.eval h σ))) = true := by
        simp only [List.all_eq_true]
        intro p _
        cases hd : differ earlier r.cond p.1 p.2
        · rfl
        · simp only [differ, Bool.and_eq_true, List.contains_iff_mem] at hd
          have hs := hearlier _ hd.2
          simp only [List.all_cons, List.all_nil, Bool.and_true] at hs
          have := S.differ_sound p.1 p.2 r.cond f g h σ hd.1.1 hd.1.2 hf hs
          simp only [Bool.not_true, Bool.false_or, bne_iff_ne, ne_eq]; exact this
      rw [hc, hp] at h1
      simpa using h1
    · rw [if_neg hf] at hrun
      refine ih (r.cond :: earlier) hok.2 ?_ hrun
      intro c hc
      rcases List.mem_cons.1 hc with rfl | hc
      · simpa [Sem.fires] using hf
      · exact hearlier c hc

/-- **Soundness of a checked shortcut list, for all operands and assignments.** -/
theorem rows_sound {E : Type} (S : Sem E) (rows : List Row) (hok : rowsOK rows = true) (f g h : E)
    (e : IExpr) (hrun : S.run rows f g h = some e) (σ : Nat → Bool) :
    S.eval (S.interp e f g h) σ = if S.eval f σ then S.eval g σ else S.eval h σ :=
  rows_sound_aux S rows [] hok f g h (fun _ hc => absurd hc (List.not_mem_nil)) e hrun σ

end OxiddModel.Generated.It
