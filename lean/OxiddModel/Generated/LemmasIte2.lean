import OxiddModel.Generated.RulesIte2
import OxiddModel.Mtbdd.Model
import OxiddModel.Tdd.Model
import OxiddModel.Zbdd.Model

/-!
# The `apply_ite` prologues of MTBDD / TDD / ZBDD are the models'

For each kind: the interpretation of a row list on the model's diagrams (`run`: the first row all
of whose atoms hold returns its result) and a general theorem — for **all** operands — that the
model's `applyIte` agrees with "run the rows the model assumes" (TDD, MTBDD: an equation; ZBDD: whenever a row fires).
`ObIte2.lean` proves that the extracted lists are these lists.  Soundness of the shortcuts then is
the models' own `applyIte_sem` (`Tdd/Lemmas.lean`, `Mtbdd/Lemmas*.lean`, `Zbdd/Ite.lean`).
-/
namespace OxiddModel.Generated.I2

/-! ## TDD -/
section tdd
open OxiddModel.Tdd OxiddModel.Tdd.TD

def triOf : String → Option Tri
  | "True" => some .t | "Unknown" => some .u | "False" => some .f | _ => none

def tddOp : String → Option BinOp
  | "And" => some .and | "Or" => some .or | "Nand" => some .nand | "Nor" => some .nor
  | "Xor" => some .xor | "Equiv" => some .equiv | "Imp" => some .imp | "ImpStrict" => some .impStrict
  | _ => none

def tddVal (f g h : TD) : V → TD
  | .f => f | .g => g | .h => h

def tddAtom (f g h : TD) : Atom → Bool
  | .same a b => decide (tddVal f g h a = tddVal f g h b)
  | .termIs a v => match triOf v with
    | some t => decide (tddVal f g h a = leaf t)
    | none => false
  | .termAny a => (tddVal f g h a).isLeaf
  | .inner a => !(tddVal f g h a).isLeaf
  | .taut _ => false

def tddRes (gt : TD → TD → Bool) (f g h : TD) : Res → Option TD
  | .opnd v => some (tddVal f g h v)
  | .const s => (triOf s).map leaf
  | .un fn a => if fn = "apply_not" then some (applyNot (tddVal f g h a)) else none
  | .bin fn op a b =>
    if fn = "apply_bin" then (tddOp op).map (fun o => applyBin gt o (tddVal f g h a) (tddVal f g h b)) else none

def tddRun (gt : TD → TD → Bool) (f g h : TD) : List Row → Option TD
  | [] => none
  | r :: rs => if r.cond.all (tddAtom f g h) then tddRes gt f g h r.res else tddRun gt f g h rs

/-- the prologue `Tdd.iteShortcut` mirrors -/
def modelRowsTdd : List Row :=
  [⟨[.same .g .h], .opnd .g⟩,
   ⟨[.same .f .g], .bin "apply_bin" "Or" .f .h⟩,
   ⟨[.same .f .h], .bin "apply_bin" "And" .f .g⟩,
   ⟨[.termIs .f "True"], .opnd .g⟩,
   ⟨[.termIs .f "False"], .opnd .h⟩,
   ⟨[.termIs .f "Unknown", .termAny .g, .termAny .h], .const "Unknown"⟩,
   ⟨[.termIs .g "True", .inner .h], .bin "apply_bin" "Or" .f .h⟩,
   ⟨[.termIs .g "False", .inner .h], .bin "apply_bin" "ImpStrict" .f .h⟩,
   ⟨[.termIs .h "True", .inner .g], .bin "apply_bin" "Imp" .f .g⟩,
   ⟨[.termIs .h "False", .inner .g], .bin "apply_bin" "And" .f .g⟩,
   ⟨[.termIs .g "False", .termIs .h "True"], .un "apply_not" .f⟩,
   ⟨[.termIs .g "True", .termIs .h "False"], .opnd .f⟩]

/-- **the early returns of the TDD `apply_ite_rec` as modelled are this decision list** — for all
operands (and any edge order `gt`) -/
theorem tdd_iteShortcut_eq_rows (gt : TD → TD → Bool) (f g h : TD) :
    iteShortcut gt f g h = tddRun gt f g h modelRowsTdd := by
  unfold iteShortcut
  by_cases h1 : g = h
  · simp [modelRowsTdd, tddRun, tddAtom, tddVal, tddRes, h1]
  by_cases h2 : f = g
  · subst h2; simp [modelRowsTdd, tddRun, tddAtom, tddVal, tddRes, h1, tddOp]
  by_cases h3 : f = h
  · subst h3; simp [modelRowsTdd, tddRun, tddAtom, tddVal, tddRes, h1, h2, tddOp]
  rcases f with ft | ⟨lf, f0, f1, f2⟩ <;> rcases g with gv | ⟨lg, g0, g1, g2⟩ <;> rcases h with hv | ⟨lh, h0, h1', h2'⟩
  all_goals (try cases ft) <;> (try cases gv) <;> (try cases hv)
  all_goals simp_all [modelRowsTdd, tddRun, tddAtom, tddVal, tddRes, tddOp, triOf, TD.isLeaf]

end tdd

/-! ## MTBDD -/
section mtbdd
open OxiddModel.Mtbdd OxiddModel.Mtbdd.MT
variable {T : Type} [DecidableEq T]

def mtVal (f g h : MT T) : V → MT T
  | .f => f | .g => g | .h => h

def mtAtom (L : TermOps T) (f g h : MT T) : Atom → Bool
  | .same a b => decide (mtVal f g h a = mtVal f g h b)
  | .termIs a v => if v = "Zero" then decide (mtVal f g h a = .leaf L.zero) else false
  | .termAny a => match mtVal f g h a with | .leaf _ => true | .node .. => false
  | .inner a => match mtVal f g h a with | .leaf _ => false | .node .. => true
  | .taut _ => false

def mtRes (f g h : MT T) : Res → Option (MT T)
  | .opnd v => some (mtVal f g h v)
  | _ => none

def mtRun (L : TermOps T) (f g h : MT T) : List Row → Option (MT T)
  | [] => none
  | r :: rs => if r.cond.all (mtAtom L f g h) then mtRes f g h r.res else mtRun L f g h rs

def modelRowsMtbdd : List Row :=
  [⟨[.same .g .h], .opnd .g⟩, ⟨[.termIs .f "Zero"], .opnd .h⟩, ⟨[.termAny .f], .opnd .g⟩]

/-- **`Mtbdd.applyIte` is "the rows, else the Shannon expansion at the minimum level"** — for all
operands and any terminal type -/
theorem mtbdd_applyIte_unfold (L : TermOps T) (f g h : MT T) :
    applyIte L f g h =
      match mtRun L f g h modelRowsMtbdd with
      | some r => r
      | none =>
        match f with
        | .leaf _ => g
        | .node lf ft fe =>
          let level := minLevel (minLevel lf g) h
          mk level
            (applyIte L (cof level (.node lf ft fe)).1 (cof level g).1 (cof level h).1)
            (applyIte L (cof level (.node lf ft fe)).2 (cof level g).2 (cof level h).2) := by
  rw [applyIte.eq_def]
  by_cases h1 : g = h
  · simp [modelRowsMtbdd, mtRun, mtAtom, mtVal, mtRes, h1]
  · cases f with
    | leaf t =>
      by_cases h2 : t = L.zero <;> simp [modelRowsMtbdd, mtRun, mtAtom, mtVal, mtRes, h1, h2]
    | node lf ft fe => simp [modelRowsMtbdd, mtRun, mtAtom, mtVal, mtRes, h1]

end mtbdd

/-! ## ZBDD -/
section zbdd
open OxiddModel.Zbdd OxiddModel.Zbdd.ZDD

def zVal (f g h : ZDD) : V → ZDD
  | .f => f | .g => g | .h => h

/-- `n`: the number of levels -/
def zAtom (n : Nat) (f g h : ZDD) : Atom → Prop
  | .same a b => zVal f g h a = zVal f g h b
  | .termIs a v => v = "Empty" ∧ zVal f g h a = .empty
  | .taut a => zVal f g h a = taut n (min f.level (min g.level h.level))
  | _ => False

instance (n : Nat) (f g h : ZDD) (a : Atom) : Decidable (zAtom n f g h a) := by
  cases a <;> simp only [zAtom] <;> exact inferInstance

def zRes (f g h : ZDD) : Res → Option ZDD
  | .opnd v => some (zVal f g h v)
  | .bin fn op a b =>
    if op ≠ "" then none
    else if fn = "apply_union" then some (union (zVal f g h a) (zVal f g h b))
    else if fn = "apply_intsec" then some (intsec (zVal f g h a) (zVal f g h b))
    else if fn = "apply_diff" then some (diff (zVal f g h a) (zVal f g h b))
    else none
  | _ => none

def zRun (n : Nat) (f g h : ZDD) : List Row → Option ZDD
  | [] => none
  | r :: rs => if (∀ a ∈ r.cond, zAtom n f g h a) then zRes f g h r.res else zRun n f g h rs

def modelRowsZbdd : List Row :=
  [⟨[.same .g .h], .opnd .g⟩,
   ⟨[.same .f .g], .bin "apply_union" "" .f .h⟩,
   ⟨[.same .f .h], .bin "apply_intsec" "" .f .g⟩,
   ⟨[.termIs .f "Empty"], .opnd .h⟩,
   ⟨[.termIs .g "Empty"], .bin "apply_diff" "" .h .f⟩,
   ⟨[.termIs .h "Empty"], .bin "apply_intsec" "" .f .g⟩,
   ⟨[.taut .f], .opnd .g⟩,
   ⟨[.taut .g], .bin "apply_union" "" .f .h⟩]

/-- the decision list, spelled out -/
theorem zRun_model (n : Nat) (f g h : ZDD) :
    zRun n f g h modelRowsZbdd =
      if g = h then some g else if f = g then some (union f h) else if f = h then some (intsec f g)
      else if f = .empty then some h else if g = .empty then some (diff h f)
      else if h = .empty then some (intsec f g)
      else if f = taut n (min f.level (min g.level h.level)) then some g
      else if g = taut n (min f.level (min g.level h.level)) then some (union f h) else none := by
  simp [modelRowsZbdd, zRun, zAtom, zVal, zRes]

/-- **`Zbdd.applyIte` is "the first row that fires, else the recursive case"**: whenever a row
fires, `applyIte` returns that row's result — for all operands and numbers of levels -/
theorem zbdd_applyIte_shortcut (n : Nat) (f g h r : ZDD) (hr : zRun n f g h modelRowsZbdd = some r) :
    applyIte n f g h = r := by
  rw [zRun_model] at hr
  rw [applyIte.eq_def]
  by_cases h1 : g = h
  · rw [if_pos h1] at hr ⊢; exact Option.some.inj hr
  rw [if_neg h1] at hr ⊢
  by_cases h2 : f = g
  · rw [if_pos h2] at hr ⊢; exact Option.some.inj hr
  rw [if_neg h2] at hr ⊢
  by_cases h3 : f = h
  · rw [if_pos h3] at hr ⊢; exact Option.some.inj hr
  rw [if_neg h3] at hr ⊢
  by_cases h4 : f = .empty
  · rw [if_pos h4] at hr ⊢; exact Option.some.inj hr
  rw [if_neg h4] at hr ⊢
  by_cases h5 : g = .empty
  · rw [if_pos h5] at hr ⊢; exact Option.some.inj hr
  rw [if_neg h5] at hr ⊢
  by_cases h6 : h = .empty
  · rw [if_pos h6] at hr ⊢; exact Option.some.inj hr
  rw [if_neg h6] at hr ⊢
  by_cases h7 : f = taut n (min f.level (min g.level h.level))
  · rw [if_pos h7] at hr; dsimp only; rw [if_pos h7]; exact Option.some.inj hr
  rw [if_neg h7] at hr
  by_cases h8 : g = taut n (min f.level (min g.level h.level))
  · rw [if_pos h8] at hr; dsimp only; rw [if_neg h7, if_pos h8]; exact Option.some.inj hr
  · rw [if_neg h8] at hr; cases hr

end zbdd

end OxiddModel.Generated.I2
