import OxiddModel.Generated.LemmasIte

/-! # The BCDD instance of the `apply_ite` shortcut semantics, and the model's unfolding -/
set_option linter.unusedSimpArgs false
namespace OxiddModel.Generated.It
open OxiddModel.Bcdd

/-- structural truth of an atom on BCDD edges; the single terminal `⊤` is `⟨false, .top⟩`,
`⊥` its complement -/
def bcddHolds (a : Atom) (f g h : Edge) : Bool :=
  match a with
  | .same a b => a.pick f g h == b.pick f g h
  | .sameNode a b eq =>
    (a.pick f g h).n == (b.pick f g h).n && (((a.pick f g h).neg == (b.pick f g h).neg) == eq)
  | .term a v => (a.pick f g h).n == .top && ((a.pick f g h).neg == !v)
  | .termAny a => (a.pick f g h).n == .top
  | .inner a => (a.pick f g h).n != .top

/-- results: `and` / `xor` through the kernels (`Bcdd.applyAnd`, `Bcdd.applyBin .xor`), negation by
`Bcdd.applyNot`; the six other operators by their derivation from `and` (not used by the BCDD
shortcuts, present so that the interpretation is total) -/
def bcddInterp (e : IExpr) (f g h : Edge) : Edge :=
  match e with
  | .opnd v => v.pick f g h
  | .neg e => applyNot (bcddInterp e f g h)
  | .bin .and a b => applyAnd (bcddInterp a f g h) (bcddInterp b f g h)
  | .bin .xor a b => applyBin .xor (bcddInterp a f g h) (bcddInterp b f g h)
  | .bin .or a b => applyNot (applyAnd (applyNot (bcddInterp a f g h)) (applyNot (bcddInterp b f g h)))
  | .bin .nand a b => applyNot (applyAnd (bcddInterp a f g h) (bcddInterp b f g h))
  | .bin .nor a b => applyAnd (applyNot (bcddInterp a f g h)) (applyNot (bcddInterp b f g h))
  | .bin .equiv a b => applyNot (applyBin .xor (bcddInterp a f g h) (bcddInterp b f g h))
  | .bin .imp a b => applyNot (applyAnd (bcddInterp a f g h) (applyNot (bcddInterp b f g h)))
  | .bin .impStrict a b => applyAnd (applyNot (bcddInterp a f g h)) (bcddInterp b f g h)

theorem pick_evalC (v : V) (f g h : Edge) (σ : Nat → Bool) :
    (v.pick f g h).eval σ = v.pick (f.eval σ) (g.eval σ) (h.eval σ) := by cases v <;> rfl

theorem top_eval (e : Edge) (σ : Nat → Bool) (h : e.n = .top) : e.eval σ = !e.neg := by
  obtain ⟨neg, n⟩ := e
  simp only at h; subst h
  cases neg <;> rfl

theorem bcdd_pinned_top (x : V) (c : List Atom) (f g h : Edge) (hp : c.any (·.pinsTerm x) = true)
    (hc : c.all (bcddHolds · f g h) = true) : (x.pick f g h).n = .top := by
  obtain ⟨a, ha, hx⟩ := List.any_eq_true.1 hp
  have hh := List.all_eq_true.1 hc a ha
  cases a with
  | term y v =>
    simp only [Atom.pinsTerm, beq_iff_eq] at hx; subst hx
    simp only [bcddHolds, Bool.and_eq_true, beq_iff_eq] at hh; exact hh.1
  | termAny y =>
    simp only [Atom.pinsTerm, beq_iff_eq] at hx; subst hx
    simpa only [bcddHolds, beq_iff_eq] using hh
  | same _ _ => simp [Atom.pinsTerm] at hx
  | sameNode _ _ _ => simp [Atom.pinsTerm] at hx
  | inner _ => simp [Atom.pinsTerm] at hx

theorem bcdd_interp_eval (e : IExpr) (f g h : Edge) (σ : Nat → Bool) :
    (bcddInterp e f g h).eval σ = e.sem (f.eval σ) (g.eval σ) (h.eval σ) := by
  induction e with
  | opnd v => exact pick_evalC v f g h σ
  | neg e ih => simp only [bcddInterp, applyNot_eval, IExpr.sem, ih]
  | bin op a b iha ihb =>
    cases op <;>
      simp only [bcddInterp, applyAnd_eval, applyBin_eval, applyNot_eval, IExpr.sem, iha, ihb, IOp.sem, BOp.sem] <;>
      cases a.sem (f.eval σ) (g.eval σ) (h.eval σ) <;> cases b.sem (f.eval σ) (g.eval σ) (h.eval σ) <;> rfl

def bcddSem : Sem Edge where
  eval := fun f σ => f.eval σ
  holds := bcddHolds
  interp := bcddInterp
  holds_sound := by
    intro a f g h σ hh
    cases a with
    | same a b =>
      simp only [bcddHolds, beq_iff_eq] at hh
      simp only [Atom.holdsB, beq_iff_eq, ← pick_evalC, hh]
    | sameNode a b eq =>
      simp only [bcddHolds, Bool.and_eq_true, beq_iff_eq] at hh
      simp only [Atom.holdsB, ← pick_evalC]
      rw [eval_same_node hh.1 σ]
      rw [← hh.2]
      cases (a.pick f g h).neg <;> cases (b.pick f g h).neg <;> cases (b.pick f g h).eval σ <;> rfl
    | term a v =>
      simp only [bcddHolds, Bool.and_eq_true, beq_iff_eq] at hh
      simp only [Atom.holdsB, beq_iff_eq, ← pick_evalC]
      rw [top_eval _ σ hh.1, hh.2]; cases v <;> rfl
    | termAny a => rfl
    | inner a => rfl
  differ_sound := by
    intro a b c f g h σ ha hb hc hs
    have hta := bcdd_pinned_top a c f g h ha hc
    have htb := bcdd_pinned_top b c f g h hb hc
    rw [← pick_evalC, ← pick_evalC, top_eval _ σ hta, top_eval _ σ htb]
    simp only [bcddHolds, beq_eq_false_iff_ne, ne_eq] at hs
    intro hn
    apply hs
    have : (a.pick f g h).neg = (b.pick f g h).neg := by
      cases h1 : (a.pick f g h).neg <;> cases h2 : (b.pick f g h).neg <;> simp_all
    cases ha' : a.pick f g h; cases hb' : b.pick f g h
    simp_all
  interp_eval := bcdd_interp_eval

/-- the shortcut list of the model `Bcdd.applyIte` (`Bcdd/Model.lean`), in the model's order
(the model's `match` lists the recursive case second; it is disjoint from the others) -/
def modelRowsBcdd : List Row :=
  [⟨[.sameNode .g .h true], .opnd .g⟩,
   ⟨[.sameNode .g .h false], .neg (.bin .xor (.opnd .f) (.opnd .g))⟩,
   ⟨[.sameNode .f .g true], .neg (.bin .and (.neg (.opnd .f)) (.neg (.opnd .h)))⟩,
   ⟨[.sameNode .f .g false], .bin .and (.neg (.opnd .f)) (.opnd .h)⟩,
   ⟨[.sameNode .f .h true], .bin .and (.opnd .f) (.opnd .g)⟩,
   ⟨[.sameNode .f .h false], .neg (.bin .and (.opnd .f) (.neg (.opnd .g)))⟩,
   ⟨[.term .f true], .opnd .g⟩,
   ⟨[.term .f false], .opnd .h⟩,
   ⟨[.term .g true, .inner .h], .neg (.bin .and (.neg (.opnd .f)) (.neg (.opnd .h)))⟩,
   ⟨[.term .g false, .inner .h], .bin .and (.neg (.opnd .f)) (.opnd .h)⟩,
   ⟨[.term .h true], .neg (.bin .and (.opnd .f) (.neg (.opnd .g)))⟩,
   ⟨[.term .h false], .bin .and (.opnd .f) (.opnd .g)⟩]

/-- the recursive case of `Bcdd.applyIte` (three inner nodes) -/
def bcddIteRec (f g h : Edge) : Edge :=
  match f, g, h with
  | ⟨fneg, .node fl ft fen fe⟩, ⟨gneg, .node gl gt gen ge⟩, ⟨hneg, .node hl ht hen he⟩ =>
    let l := min (min fl gl) hl
    mk l
      (applyIte (if fl = l then ⟨fneg, ft⟩ else ⟨fneg, .node fl ft fen fe⟩)
        (if gl = l then ⟨gneg, gt⟩ else ⟨gneg, .node gl gt gen ge⟩)
        (if hl = l then ⟨hneg, ht⟩ else ⟨hneg, .node hl ht hen he⟩))
      (applyIte (if fl = l then ⟨fneg != fen, fe⟩ else ⟨fneg, .node fl ft fen fe⟩)
        (if gl = l then ⟨gneg != gen, ge⟩ else ⟨gneg, .node gl gt gen ge⟩)
        (if hl = l then ⟨hneg != hen, he⟩ else ⟨hneg, .node hl ht hen he⟩))
  | _, _, _ => f

/-- **The model's `applyIte` is: first row of `modelRowsBcdd` that fires, else the recursive case.** -/
theorem bcdd_applyIte_unfold (f g h : Edge) :
    applyIte f g h =
      match bcddSem.run modelRowsBcdd f g h with
      | some e => bcddInterp e f g h
      | none => bcddIteRec f g h := by
  rw [applyIte.eq_def]
  by_cases h1 : g.n = h.n
  · by_cases t1 : g.neg = h.neg <;>
      simp [h1, t1, Sem.run, modelRowsBcdd, Sem.fires, bcddSem, bcddHolds, V.pick, bcddInterp]
  by_cases h2 : f.n = g.n
  · by_cases t2 : f.neg = g.neg <;>
      simp [h1, h2, t2, Sem.run, modelRowsBcdd, Sem.fires, bcddSem, bcddHolds, V.pick, bcddInterp]
  by_cases h3 : f.n = h.n
  · have h2' : ¬h.n = g.n := h3 ▸ h2
    by_cases t3 : f.neg = h.neg <;>
      simp [h1, h2, h2', h3, t3, Sem.run, modelRowsBcdd, Sem.fires, bcddSem, bcddHolds, V.pick, bcddInterp]
  rw [if_neg h1, if_neg h2, if_neg h3]
  have hrun : bcddSem.run modelRowsBcdd f g h = bcddSem.run (modelRowsBcdd.drop 6) f g h := by
    simp [Sem.run, modelRowsBcdd, Sem.fires, bcddSem, bcddHolds, V.pick, h1, h2, h3]
  rw [hrun]
  clear hrun
  obtain ⟨fneg, fn⟩ := f
  obtain ⟨gneg, gn⟩ := g
  obtain ⟨hneg, hn⟩ := h
  simp only at h1 h2 h3
  cases fn with
  | top =>
    cases fneg <;> simp [Sem.run, modelRowsBcdd, Sem.fires, bcddSem, bcddHolds, V.pick, bcddInterp]
  | node fl ft fen fe =>
    cases gn with
    | top =>
      cases hn with
      | top => exact absurd rfl h1
      | node hl ht hen he =>
        cases gneg <;>
          simp [Sem.run, modelRowsBcdd, Sem.fires, bcddSem, bcddHolds, V.pick, bcddInterp]
    | node gl gt gen ge =>
      cases hn with
      | top =>
        cases hneg <;>
          simp [Sem.run, modelRowsBcdd, Sem.fires, bcddSem, bcddHolds, V.pick, bcddInterp]
      | node hl ht hen he =>
        simp [Sem.run, modelRowsBcdd, Sem.fires, bcddSem, bcddHolds, V.pick, bcddInterp, bcddIteRec]

end OxiddModel.Generated.It
