import OxiddModel.Generated.LemmasIte

/-! # The simple-BDD instance of the `apply_ite` shortcut semantics, and the model's unfolding -/
set_option linter.unusedSimpArgs false
namespace OxiddModel.Generated.It
open OxiddModel.Bdd OxiddModel.Bdd.BDD

def IOp.toBdd : IOp → Bdd.Op
  | .and => .and | .or => .or | .nand => .nand | .nor => .nor
  | .xor => .xor | .equiv => .equiv | .imp => .imp | .impStrict => .impStrict

def isLeaf : BDD → Bool
  | .leaf _ => true
  | .node .. => false

/-- structural truth of an atom on BDD operands (`sameNode` is not a notion of the simple BDDs) -/
def bddHolds (a : Atom) (f g h : BDD) : Bool :=
  match a with
  | .same a b => a.pick f g h == b.pick f g h
  | .sameNode _ _ _ => false
  | .term a v => a.pick f g h == .leaf v
  | .termAny a => isLeaf (a.pick f g h)
  | .inner a => !isLeaf (a.pick f g h)

def bddInterp (e : IExpr) (f g h : BDD) : BDD :=
  match e with
  | .opnd v => v.pick f g h
  | .neg e => applyNot (bddInterp e f g h)
  | .bin op a b => applyBin op.toBdd (bddInterp a f g h) (bddInterp b f g h)

theorem pick_eval (v : V) (f g h : BDD) (σ : Nat → Bool) :
    (v.pick f g h).eval σ = v.pick (f.eval σ) (g.eval σ) (h.eval σ) := by cases v <;> rfl

theorem toBdd_sem (op : IOp) (a b : Bool) : op.toBdd.sem a b = op.sem a b := by cases op <;> rfl

theorem bdd_pinned_leaf (x : V) (c : List Atom) (f g h : BDD) (hp : c.any (·.pinsTerm x) = true)
    (hc : c.all (bddHolds · f g h) = true) : ∃ v, x.pick f g h = .leaf v := by
  obtain ⟨a, ha, hx⟩ := List.any_eq_true.1 hp
  have hh := List.all_eq_true.1 hc a ha
  cases a with
  | term y v =>
    simp only [Atom.pinsTerm, beq_iff_eq] at hx; subst hx
    simp only [bddHolds, beq_iff_eq] at hh; exact ⟨v, hh⟩
  | termAny y =>
    simp only [Atom.pinsTerm, beq_iff_eq] at hx; subst hx
    simp only [bddHolds] at hh
    cases hy : y.pick f g h with
    | leaf v => exact ⟨v, rfl⟩
    | node l t e => rw [hy] at hh; simp [isLeaf] at hh
  | same _ _ => simp [Atom.pinsTerm] at hx
  | sameNode _ _ _ => simp [Atom.pinsTerm] at hx
  | inner _ => simp [Atom.pinsTerm] at hx

def bddSem : Sem BDD where
  eval := fun f σ => f.eval σ
  holds := bddHolds
  interp := bddInterp
  holds_sound := by
    intro a f g h σ hh
    cases a with
    | same a b =>
      simp only [bddHolds, beq_iff_eq] at hh
      simp only [Atom.holdsB, beq_iff_eq, ← pick_eval, hh]
    | sameNode a b eq => simp [bddHolds] at hh
    | term a v =>
      simp only [bddHolds, beq_iff_eq] at hh
      simp only [Atom.holdsB, beq_iff_eq, ← pick_eval, hh, eval]
    | termAny a => rfl
    | inner a => rfl
  differ_sound := by
    intro a b c f g h σ ha hb hc hs
    obtain ⟨va, hva⟩ := bdd_pinned_leaf a c f g h ha hc
    obtain ⟨vb, hvb⟩ := bdd_pinned_leaf b c f g h hb hc
    simp only [bddHolds, hva, hvb, beq_eq_false_iff_ne, ne_eq, leaf.injEq] at hs
    rw [← pick_eval, ← pick_eval, hva, hvb]; simpa [eval] using hs
  interp_eval := by
    intro e f g h σ
    induction e with
    | opnd v => exact pick_eval v f g h σ
    | neg e ih => simp only [bddInterp, applyNot_eval, IExpr.sem, ih]
    | bin op a b iha ihb => simp only [bddInterp, applyBin_eval, IExpr.sem, iha, ihb, toBdd_sem]

/-- the shortcut list of the model `Bdd.applyIte` (`Bdd/Model.lean`), in the model's order -/
def modelRowsBdd : List Row :=
  [⟨[.same .g .h], .opnd .g⟩,
   ⟨[.same .f .g], .bin .or (.opnd .f) (.opnd .h)⟩,
   ⟨[.same .f .h], .bin .and (.opnd .f) (.opnd .g)⟩,
   ⟨[.term .f true], .opnd .g⟩,
   ⟨[.term .f false], .opnd .h⟩,
   ⟨[.term .g true, .inner .h], .bin .or (.opnd .f) (.opnd .h)⟩,
   ⟨[.term .g false, .inner .h], .bin .impStrict (.opnd .f) (.opnd .h)⟩,
   ⟨[.inner .g, .term .h true], .bin .imp (.opnd .f) (.opnd .g)⟩,
   ⟨[.inner .g, .term .h false], .bin .and (.opnd .f) (.opnd .g)⟩,
   ⟨[.term .g true, .termAny .h], .opnd .f⟩,
   ⟨[.term .g false, .termAny .h], .neg (.opnd .f)⟩]

/-- the recursive case of `Bdd.applyIte` (three inner nodes) -/
def bddIteRec (f g h : BDD) : BDD :=
  match f, g, h with
  | .node lf ft fe, .node lg gt ge, .node lh ht he =>
    let l := min (min lf lg) lh
    mk l
      (applyIte (if lf = l then ft else .node lf ft fe) (if lg = l then gt else .node lg gt ge)
        (if lh = l then ht else .node lh ht he))
      (applyIte (if lf = l then fe else .node lf ft fe) (if lg = l then ge else .node lg gt ge)
        (if lh = l then he else .node lh ht he))
  | _, _, _ => f

/-- **The model's `applyIte` is: first row of `modelRowsBdd` that fires, else the recursive case.** -/
theorem bdd_applyIte_unfold (f g h : BDD) :
    applyIte f g h =
      match bddSem.run modelRowsBdd f g h with
      | some e => bddInterp e f g h
      | none => bddIteRec f g h := by
  rw [applyIte.eq_def]
  by_cases h1 : g = h
  · simp [h1, Sem.run, modelRowsBdd, Sem.fires, bddSem, bddHolds, V.pick, bddInterp]
  by_cases h2 : f = g
  · simp [h1, h2, Sem.run, modelRowsBdd, Sem.fires, bddSem, bddHolds, V.pick, bddInterp, IOp.toBdd]
  by_cases h3 : f = h
  · subst h3
    simp [h1, h2, Sem.run, modelRowsBdd, Sem.fires, bddSem, bddHolds, V.pick, bddInterp, IOp.toBdd]
  rw [if_neg h1, if_neg h2, if_neg h3]
  have hrun : bddSem.run modelRowsBdd f g h = bddSem.run (modelRowsBdd.drop 3) f g h := by
    simp [Sem.run, modelRowsBdd, Sem.fires, bddSem, bddHolds, V.pick, h1, h2, h3]
  rw [hrun]
  clear hrun h1 h2 h3
  cases f with
  | leaf b =>
    cases b <;> simp [Sem.run, modelRowsBdd, Sem.fires, bddSem, bddHolds, V.pick, bddInterp]
  | node lf ft fe =>
    cases g with
    | leaf gb =>
      cases h with
      | leaf hb =>
        cases gb <;> cases hb <;>
          simp [Sem.run, modelRowsBdd, Sem.fires, bddSem, bddHolds, V.pick, bddInterp, isLeaf, IOp.toBdd]
      | node lh ht he =>
        cases gb <;>
          simp [Sem.run, modelRowsBdd, Sem.fires, bddSem, bddHolds, V.pick, bddInterp, isLeaf, IOp.toBdd]
    | node lg gt ge =>
      cases h with
      | leaf hb =>
        cases hb <;>
          simp [Sem.run, modelRowsBdd, Sem.fires, bddSem, bddHolds, V.pick, bddInterp, isLeaf, IOp.toBdd]
      | node lh ht he =>
        simp [Sem.run, modelRowsBdd, Sem.fires, bddSem, bddHolds, V.pick, bddInterp, isLeaf, bddIteRec]

end OxiddModel.Generated.It
