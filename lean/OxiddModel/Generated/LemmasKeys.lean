import OxiddModel.Generated.RulesKeys
import OxiddModel.Bdd.KeysX

/-!
# The keys the extracted cache accesses build, in the model's terms (C04, C06)

`KeyRow.xkey`: given the values of the variables (`f`, `g`, `vars`, `cache_id`) and the operator the
tag resolves to, the `XKey` of `Bdd/CacheX.lean` a row denotes.  `keyModel`: for each of `quant`,
`apply_quant`, `restrict`, `substitute` the row shape under which the model's key function
(`quantKey`, `applyQuantKey`, `restrictKey`, `substKey`) is exactly `xkey` — for all operands.
-/
namespace OxiddModel.Generated.Ky
open OxiddModel.Bdd OxiddModel.Bdd.Refine

/-- values of the variables at the access -/
structure Env where
  f : Edge
  g : Edge
  h : Edge
  vars : Edge
  cacheId : Nat

def KOpd.val (ρ : Env) : KOpd → Option Edge
  | .f => some ρ.f
  | .g => some ρ.g
  | .h => some ρ.h
  | .vars => some ρ.vars
  | .other _ => none

def KNum.val (ρ : Env) : KNum → Option Nat
  | .cacheId => some ρ.cacheId
  | .other _ => none

def KOp.toOp : KOp → Op
  | .and => .and | .or => .or | .nand => .nand | .nor => .nor
  | .xor => .xor | .equiv => .equiv | .imp => .imp | .impStrict => .impStrict

/-- the quantifier whose combining operator is `Q` (`Quant.op`) -/
def KOp.toQuant : KOp → Option Quant
  | .and => some .forall_
  | .or => some .exists_
  | .xor => some .unique
  | _ => none

/-- the operator a tag stands for, when the function runs with quantifier `q` and operator `op` -/
def KTag.resolve (q : Quant) (op : Op) : KTag → Option XOp
  | .lit "Restrict" => some .restrict
  | .lit "Substitute" => some .substitute
  | .quantVar => some (.quant q)
  | .applyQuantVar => some (.applyQuant q op)
  | _ => none

/-- the key a row denotes -/
def KeyRow.xkey (r : KeyRow) (q : Quant) (op : Op) (ρ : Env) : Option XKey :=
  match r.tag.resolve q op, r.edges.mapM (·.val ρ), r.nums.mapM (·.val ρ) with
  | some x, some es, some ns => some ⟨x, es, ns⟩
  | _, _, _ => none

/-- the shapes under which the model's key functions are the denoted keys -/
def modelRows : List KeyRow :=
  [⟨"substitute", false, .lit "Substitute", [.f], [.cacheId], ""⟩,
   ⟨"substitute", true, .lit "Substitute", [.f], [.cacheId], "result"⟩,
   ⟨"restrict", false, .lit "Restrict", [.f, .vars], [], ""⟩,
   ⟨"restrict", true, .lit "Restrict", [.f, .vars], [], "result"⟩,
   ⟨"quant", false, .quantVar, [.f, .vars], [], ""⟩,
   ⟨"quant", true, .quantVar, [.f, .vars], [], "result"⟩,
   ⟨"apply_quant", false, .applyQuantVar, [.f, .g, .vars], [], ""⟩,
   ⟨"apply_quant", true, .applyQuantVar, [.f, .g, .vars], [], "result"⟩]

/-- the model's key of a function, for the operands in `ρ` -/
def modelKey (fn : String) (q : Quant) (op : Op) (ρ : Env) : Option XKey :=
  if fn = "quant" then some (quantKey q ρ.f ρ.vars)
  else if fn = "apply_quant" then some (applyQuantKey q op ρ.f ρ.g ρ.vars)
  else if fn = "restrict" then some (restrictKey ρ.f ρ.vars)
  else if fn = "substitute" then some (substKey ρ.f ρ.cacheId)
  else none

/-- **every modelled row denotes the model's key, for all operands, quantifiers and operators** -/
theorem modelRows_key (r : KeyRow) (hr : r ∈ modelRows) (q : Quant) (op : Op) (ρ : Env) :
    r.xkey q op ρ = modelKey r.fn q op ρ := by
  simp only [modelRows, List.mem_cons, List.not_mem_nil, or_false] at hr
  rcases hr with rfl | rfl | rfl | rfl | rfl | rfl | rfl | rfl <;> rfl

/-- position of a variant in `BDDOp` -/
def idx (enum : List String) (name : String) : Nat := enum.idxOf name

/-- a row of `from_apply_quant`: its variant's discriminant is the model's `XOp.code` -/
def faqRowOK (enum : List String) (r : KOp × KOp × String) : Bool :=
  match r.1.toQuant with
  | some q => r.2.2 ∈ enum && idx enum r.2.2 == (XOp.applyQuant q r.2.1.toOp).code
  | none => false

def quantRowOK (enum : List String) (r : KOp × String) : Bool :=
  match r.1.toQuant with
  | some q => r.2 ∈ enum && idx enum r.2 == (XOp.quant q).code && q.op == r.1.toOp
  | none => false

end OxiddModel.Generated.Ky
