import OxiddModel.Generated.RulesKeys2
import OxiddModel.Zbdd.SetOpsS
import OxiddModel.Zbdd.RestrictS
import OxiddModel.Bcdd.ApplyS

/-!
# Meaning of the extracted key rows

* `Ky2.same_key`: a lookup row and an insertion row with the same `Row.key` denote the same cache
  key under **every** valuation of operator variables, edge operands and numeric operands.
* `Ky2.Row.zkey`: the `Zbdd.Refine.ZKey` a ZBDD row denotes; `Ky2.Row.ckey`: the cache key of
  `Bcdd/ApplyS.lean` a BCDD `apply_bin` row denotes.
-/
namespace OxiddModel.Generated.Ky2

/-- a valuation: what the operator variables / literals, the edge operands and the numeric
operands evaluate to at run time -/
structure Val (τ ε : Type) where
  tag : Tag → τ
  edge : Opd → ε
  num : Opd → Nat

def Row.eval {τ ε : Type} (v : Val τ ε) (r : Row) : τ × List ε × List Nat :=
  (v.tag r.tag, r.edges.map v.edge, r.nums.map v.num)

/-- equal rows-as-keys denote equal run-time keys, whatever the values of the variables -/
theorem same_key {τ ε : Type} (v : Val τ ε) {g a : Row} (h : g.key = a.key) : g.eval v = a.eval v := by
  unfold Row.key at h
  simp only [Prod.mk.injEq] at h
  obtain ⟨h1, h2, h3⟩ := h
  simp [Row.eval, h1, h2, h3]

/-- **lookup and insertion of one function use the same key** — for all values of the operands:
if the table passes `pairsOK`, any lookup row and insertion row of the same function evaluate to
the same key under every valuation -/
theorem get_add_same_key {τ ε : Type} (v : Val τ ε) (rows : List Row) (hok : pairsOK rows = true)
    (g a : Row) (hg : g ∈ rows) (ha : a ∈ rows) (hk : a.kind = g.kind) (hf : a.fn = g.fn)
    (hgi : g.isAdd = false) (hai : a.isAdd = true) : g.eval v = a.eval v := by
  have hmem : (g.kind, g.fn) ∈ fns rows := by
    unfold fns
    rw [List.mem_eraseDups]
    exact List.mem_map.2 ⟨g, hg, rfl⟩
  have hp := List.all_eq_true.1 hok _ hmem
  unfold pairOK at hp
  simp only at hp
  have hg' : g ∈ (rows.filter (fun r => r.kind == g.kind && r.fn == g.fn)).filter (fun r => !r.isAdd) := by
    simp [List.mem_filter, hg, hgi]
  have ha' : a ∈ (rows.filter (fun r => r.kind == g.kind && r.fn == g.fn)).filter (fun r => r.isAdd) := by
    simp [List.mem_filter, ha, hai, hk, hf]
  split at hp
  · rename_i g0 a0 e1 e2
    rw [e1] at hg'; rw [e2] at ha'
    simp only [List.mem_singleton] at hg' ha'
    subst hg'; subst ha'
    simp only [Bool.and_eq_true, beq_iff_eq] at hp
    exact same_key v hp.1
  · exact absurd hp (by simp)

/-! ## ZBDD: the keys of `Zbdd/SetOpsS.lean`, `Zbdd/RestrictS.lean`, `Zbdd/IteS.lean` -/

open OxiddModel.Zbdd OxiddModel.Zbdd.Refine in
/-- the run-time values of a ZBDD kernel's variables: the parameters, the ordered pair
`let (f, g) = if f > g { (g, f) } else { (f, g) }`, `var`, `manager.num_levels()` -/
structure ZEnv where
  f : ZEdge
  g : ZEdge
  h : ZEdge
  vars : ZEdge
  fs : ZEdge
  gs : ZEdge
  var : Nat
  numLevels : Nat

open OxiddModel.Zbdd OxiddModel.Zbdd.Refine in
def zEdge (ρ : ZEnv) (o : Opd) : Option ZEdge :=
  if o = ("f", 0) then some ρ.f else if o = ("g", 0) then some ρ.g else if o = ("h", 0) then some ρ.h
  else if o = ("vars", 0) then some ρ.vars else if o = ("f", 1) then some ρ.fs
  else if o = ("g", 1) then some ρ.gs else none

def zNum (ρ : ZEnv) (o : Opd) : Option Nat :=
  if o = ("var", 0) then some ρ.var else if o = ("num_levels", 1) then some ρ.numLevels else none

open OxiddModel.Zbdd OxiddModel.Zbdd.Refine in
/-- the operator: a literal `ZBDDOp::<X>`, or `subset`'s `op` (the table `VAL ↦ operator`) -/
def zOp (sop : SubsetOp) : Tag → Option ZOp
  | .lit s =>
    if s = "Restrict" then some .restrict else if s = "Union" then some .union
    else if s = "Intsec" then some .intsec else if s = "Diff" then some .diff
    else if s = "SymmDiff" then some .symmDiff else if s = "Ite" then some .ite else none
  | .var s k => if s = "op" ∧ k = 1 then some (subsetTag sop) else none
  | .other _ => none

def allSome {α : Type} : List (Option α) → Option (List α)
  | [] => some []
  | some x :: r => (allSome r).map (x :: ·)
  | none :: _ => none

open OxiddModel.Zbdd OxiddModel.Zbdd.Refine in
/-- the `ZKey` a ZBDD row denotes -/
def Row.zkey (ρ : ZEnv) (sop : SubsetOp) (r : Row) : Option ZKey :=
  match zOp sop r.tag, allSome (r.edges.map (zEdge ρ)), allSome (r.nums.map (zNum ρ)) with
  | some o, some es, some ns => some ⟨o, es, ns⟩
  | _, _, _ => none

/-! ## BCDD: the key of `Bcdd/ApplyS.lean` -/

open OxiddModel.Bcdd OxiddModel.Bcdd.Refine in
/-- an `apply_bin` row of the BCDD rules: operator from the kernel's tuple, the operands ordered by
the `f < g` arms -/
def Row.ckey (op : BOp) (fs gs : EdgeC) (r : Row) : Option OxiddModel.Bdd.Refine.Key :=
  if r.tag = .var "op" 1 ∧ r.edges = [("f", 1), ("g", 1)] ∧ r.nums = [] then some (keyOf op fs gs) else none

end OxiddModel.Generated.Ky2
