import OxiddModel.Generated.RulesMtbdd
import OxiddModel.Mtbdd.LemmasI64

/-!
# Semantics of an extracted MTBDD `terminal_bin` decision list, and the proven shapes of shortcuts

`SrcMtbdd.termRules_mtbdd` is the decision list of every operator block of the Rust `terminal_bin`
(`crates/oxidd-rules-mtbdd/src/lib.rs`), arm by arm in source order.  Here (hand-written, fixed):

* `patMatches` / `firstMatch` / `resValue`: what an arm means, for an arbitrary terminal type with
  operations `L : Mtbdd.TermOps T` — the same record the model `Mtbdd.terminalBin`/`applyBin` and the
  theorems of C10 are stated over;
* `shapeOK op r`: the (decidable) list of *proven shapes* of an arm for operator `op`
  (neutral element on the correct side, NaN absorption, equal operands for `min/max`, computing on
  two terminals with the operator's own function, recursing under the operator's own tag, operand
  swap only for the commutative operators);
* `rule_sound`: every arm of a proven shape is an identity of `L.sem op` **for all values**
  (given the laws `Mtbdd.TerminalLaws` — proved for `I64` in `Mtbdd/LemmasI64.lean` — and
  commutativity `TerminalComm`, proved for `I64` below);
* `rules_sound`: a list that passes `listOK` (all arms of proven shape, a catch-all arm exists, two
  terminals never lead to a recursion) computes `L.sem op x y` at every assignment, whatever
  the operand classes and the outcomes of `f == g`, `f > g`.

The generated obligation (`ObTerminalMtbdd.lean`) only evaluates `listOK` on the extracted lists by
`decide`.
-/
namespace OxiddModel.Generated.Mt

open OxiddModel.Mtbdd

def MOp.toOp : MOp → Op
  | .add => .add | .sub => .sub | .mul => .mul | .div => .div | .min => .min | .max => .max

/-- `Add`, `Mul`, `Min`, `Max` -/
def MOp.comm : MOp → Bool
  | .add | .mul | .min | .max => true
  | _ => false

/-- the operators computed by a `NumberBase` method on two terminals -/
def MOp.arith : MOp → Bool
  | .add | .sub | .mul | .div => true
  | _ => false

/-- `c ∘ x = x`: the left-neutral constant of an operator -/
def leftNeutral : MOp → Option Pred
  | .add => some .zero
  | .mul => some .one
  | _ => none

/-- `x ∘ c = x` -/
def rightNeutral : MOp → Option Pred
  | .add | .sub => some .zero
  | .mul | .div => some .one
  | _ => none

/-- the arms of `match tf.partial_cmp(tg)` that define `min` / `max` (`Mtbdd.TermOps.min/max`) -/
def selTable : MOp → Option (Sel × Sel × Sel × Sel)
  | .min => some (.f, .f, .g, .nan)
  | .max => some (.g, .f, .f, .nan)
  | _ => none

def Res.isBin : Res → Bool
  | .bin .. => true
  | _ => false

/-- the proven shapes -/
def shapeOK (op : MOp) (r : MRule) : Bool :=
  match r.pat, r.res with
  | .tt, .compute m => m == op && op.arith
  | .tt, .select lt eq gt un => selTable op == some (lt, eq, gt, un)
  | .eq, .clone _ => op == .min || op == .max
  | .fIs p, .clone .g => leftNeutral op == some p
  | .gIs p, .clone .f => rightNeutral op == some p
  | .fIs .nan, .nan => true
  | .gIs .nan, .nan => true
  | .eitherIs .nan, .nan => true
  | .anyGt, .bin tag .f .g => tag == op
  | .any, .bin tag .f .g => tag == op
  | .anyGt, .bin tag .g .f => tag == op && op.comm
  | .any, .bin tag .g .f => tag == op && op.comm
  | _, _ => false

/-- all arms of proven shape; a catch-all arm exists (total); the arm `(Terminal, Terminal)` exists
and no arm before it can recurse (so `apply_bin` never looks for the children of a terminal) -/
def listOK (op : MOp) (rs : List MRule) : Bool :=
  rs.all (shapeOK op) && rs.any (·.pat == .any) && rs.any (·.pat == .tt) &&
    (rs.takeWhile (·.pat != .tt)).all (fun r => !r.res.isBin)

section Sem
variable {T : Type} [DecidableEq T] (L : TermOps T)

def predHolds : Pred → T → Bool
  | .zero, x => x = L.zero
  | .one, x => x = L.one
  | .nan, x => x = L.nan

/-- does the arm apply?  `tf`/`tg`: the operand is a terminal; `x`/`y`: the operands' values at the
assignment under consideration (for a terminal: its value); `eq`: `f == g`; `gt`: `f > g` -/
def patMatches (p : Pat) (tf tg : Bool) (x y : T) (eq gt : Bool) : Bool :=
  match p with
  | .eq => eq
  | .tt => tf && tg
  | .fIs p => tf && predHolds L p x
  | .gIs p => tg && predHolds L p y
  | .eitherIs p => (tf && predHolds L p x) || (tg && predHolds L p y)
  | .anyGt => gt
  | .any => true

def firstMatch (rs : List MRule) (tf tg : Bool) (x y : T) (eq gt : Bool) : Option MRule :=
  rs.find? (fun r => patMatches L r.pat tf tg x y eq gt)

def pick (x y : T) : Side → T
  | .f => x
  | .g => y

def sel (x y : T) : Sel → T
  | .f => x
  | .g => y
  | .nan => L.nan

/-- value of an arm's result at the assignment (a `bin` result stands for the recursion, whose value
is, by induction, the tagged operator applied to the operands it is given) -/
def resValue (r : Res) (x y : T) : T :=
  match r with
  | .compute m => L.sem m.toOp x y
  | .select lt eq gt un =>
    match L.pcmp x y with
    | some .lt => sel L x y lt
    | some .eq => sel L x y eq
    | some .gt => sel L x y gt
    | none => sel L x y un
  | .clone s => pick x y s
  | .nan => L.nan
  | .bin tag a b => L.sem tag.toOp (pick x y a) (pick x y b)

end Sem

/-- commutativity of the operators whose operands `terminal_bin` sorts (the cache key `{f, g}`) -/
structure TerminalComm {T : Type} (L : TermOps T) (ok : T → Prop) : Prop where
  add_comm : ∀ x y, ok x → ok y → L.add x y = L.add y x
  mul_comm : ∀ x y, ok x → ok y → L.mul x y = L.mul y x
  min_comm : ∀ x y, ok x → ok y → L.min x y = L.min y x
  max_comm : ∀ x y, ok x → ok y → L.max x y = L.max y x

theorem sem_comm {T : Type} {L : TermOps T} {ok : T → Prop} (C : TerminalComm L ok) (op : MOp)
    (h : op.comm = true) (x y : T) (hx : ok x) (hy : ok y) :
    L.sem op.toOp y x = L.sem op.toOp x y := by
  cases op <;> simp only [MOp.comm, Bool.false_eq_true] at h <;> simp only [MOp.toOp, TermOps.sem]
  · exact C.add_comm y x hy hx
  · exact C.mul_comm y x hy hx
  · exact C.min_comm y x hy hx
  · exact C.max_comm y x hy hx

section Sound
variable {T : Type} [DecidableEq T] {L : TermOps T} {ok : T → Prop}

omit [DecidableEq T] in
theorem select_min (x y : T) : resValue L (.select .f .f .g .nan) x y = L.min x y := by
  simp only [resValue, TermOps.min, sel]; split <;> simp_all

omit [DecidableEq T] in
theorem select_max (x y : T) : resValue L (.select .g .f .f .nan) x y = L.max x y := by
  simp only [resValue, TermOps.max, sel]; split <;> simp_all

/-- every arm of a proven shape is an identity of the operator, for all values -/
theorem rule_sound (H : TerminalLaws L ok) (C : TerminalComm L ok) (op : MOp) (r : MRule)
    (hs : shapeOK op r = true) (tf tg : Bool) (x y : T) (eq gt : Bool) (hx : ok x) (hy : ok y)
    (heq : eq = true → x = y)
    (hm : patMatches L r.pat tf tg x y eq gt = true) :
    resValue L r.res x y = L.sem op.toOp x y := by
  obtain ⟨pat, res⟩ := r
  cases pat with
  | eq =>
    cases res <;> simp only [shapeOK, Bool.false_eq_true, Bool.or_eq_true, beq_iff_eq] at hs
    rename_i s
    have hxy : x = y := heq (by simpa [patMatches] using hm)
    subst hxy
    rcases hs with rfl | rfl <;> cases s <;> simp only [resValue, pick, MOp.toOp, TermOps.sem]
    · exact (H.min_self x hx).symm
    · exact (H.min_self x hx).symm
    · exact (H.max_self x hx).symm
    · exact (H.max_self x hx).symm
  | tt =>
    cases res <;> simp only [shapeOK, Bool.false_eq_true, Bool.and_eq_true, beq_iff_eq] at hs
    · rename_i m; obtain ⟨rfl, _⟩ := hs; rfl
    · rename_i lt eq' gt' un
      cases op <;> simp only [selTable, Option.some.injEq, Prod.mk.injEq, reduceCtorEq] at hs
      · obtain ⟨rfl, rfl, rfl, rfl⟩ := hs; exact select_min x y
      · obtain ⟨rfl, rfl, rfl, rfl⟩ := hs; exact select_max x y
  | fIs p =>
    simp only [patMatches, Bool.and_eq_true] at hm
    obtain ⟨_, hp⟩ := hm
    cases res with
    | clone s =>
      cases s <;> simp only [shapeOK, Bool.false_eq_true, beq_iff_eq] at hs
      cases op <;> simp only [leftNeutral, Option.some.injEq, reduceCtorEq] at hs <;> subst hs <;>
        simp only [predHolds, decide_eq_true_eq] at hp <;> subst hp <;>
        simp only [resValue, pick, MOp.toOp, TermOps.sem]
      · exact (H.zero_add y hy).symm
      · exact (H.one_mul y hy).symm
    | nan =>
      cases p <;> simp only [shapeOK, Bool.false_eq_true] at hs
      simp only [predHolds, decide_eq_true_eq] at hp; subst hp
      cases op <;> simp only [resValue, MOp.toOp, TermOps.sem]
      · exact (H.nan_add y hy).symm
      · exact (H.nan_sub y hy).symm
      · exact (H.nan_mul y hy).symm
      · exact (H.nan_div y hy).symm
      · exact (H.nan_min y hy).symm
      · exact (H.nan_max y hy).symm
    | _ => simp [shapeOK] at hs
  | gIs p =>
    simp only [patMatches, Bool.and_eq_true] at hm
    obtain ⟨_, hp⟩ := hm
    cases res with
    | clone s =>
      cases s <;> simp only [shapeOK, Bool.false_eq_true, beq_iff_eq] at hs
      cases op <;> simp only [rightNeutral, Option.some.injEq, reduceCtorEq] at hs <;> subst hs <;>
        simp only [predHolds, decide_eq_true_eq] at hp <;> subst hp <;>
        simp only [resValue, pick, MOp.toOp, TermOps.sem]
      · exact (H.add_zero x hx).symm
      · exact (H.sub_zero x hx).symm
      · exact (H.mul_one x hx).symm
      · exact (H.div_one x hx).symm
    | nan =>
      cases p <;> simp only [shapeOK, Bool.false_eq_true] at hs
      simp only [predHolds, decide_eq_true_eq] at hp; subst hp
      cases op <;> simp only [resValue, MOp.toOp, TermOps.sem]
      · exact (H.add_nan x hx).symm
      · exact (H.sub_nan x hx).symm
      · exact (H.mul_nan x hx).symm
      · exact (H.div_nan x hx).symm
      · exact (H.min_nan x hx).symm
      · exact (H.max_nan x hx).symm
    | _ => simp [shapeOK] at hs
  | eitherIs p =>
    cases res with
    | nan =>
      cases p <;> simp only [shapeOK, Bool.false_eq_true] at hs
      simp only [patMatches, predHolds, Bool.or_eq_true, Bool.and_eq_true, decide_eq_true_eq] at hm
      rcases hm with ⟨_, hp⟩ | ⟨_, hp⟩ <;> subst hp <;>
        cases op <;> simp only [resValue, MOp.toOp, TermOps.sem]
      · exact (H.nan_add y hy).symm
      · exact (H.nan_sub y hy).symm
      · exact (H.nan_mul y hy).symm
      · exact (H.nan_div y hy).symm
      · exact (H.nan_min y hy).symm
      · exact (H.nan_max y hy).symm
      · exact (H.add_nan x hx).symm
      · exact (H.sub_nan x hx).symm
      · exact (H.mul_nan x hx).symm
      · exact (H.div_nan x hx).symm
      · exact (H.min_nan x hx).symm
      · exact (H.max_nan x hx).symm
    | _ => simp [shapeOK] at hs
  | anyGt =>
    cases res with
    | bin tag a b =>
      cases a <;> cases b <;> simp only [shapeOK, Bool.false_eq_true, Bool.and_eq_true, beq_iff_eq] at hs
      · subst hs; rfl
      · obtain ⟨rfl, hc⟩ := hs; exact sem_comm C tag hc x y hx hy
    | _ => simp [shapeOK] at hs
  | any =>
    cases res with
    | bin tag a b =>
      cases a <;> cases b <;> simp only [shapeOK, Bool.false_eq_true, Bool.and_eq_true, beq_iff_eq] at hs
      · subst hs; rfl
      · obtain ⟨rfl, hc⟩ := hs; exact sem_comm C tag hc x y hx hy
    | _ => simp [shapeOK] at hs

/-- a list that passes `listOK` computes the operator, at every assignment, for all operand classes
and all outcomes of the tests `f == g` (consistent: equal edges have equal values) and `f > g` -/
theorem rules_sound (H : TerminalLaws L ok) (C : TerminalComm L ok) (op : MOp) (rs : List MRule)
    (h : listOK op rs = true) (tf tg : Bool) (x y : T) (eq gt : Bool) (hx : ok x) (hy : ok y)
    (heq : eq = true → x = y) :
    ∃ r, firstMatch L rs tf tg x y eq gt = some r ∧ resValue L r.res x y = L.sem op.toOp x y := by
  simp only [listOK, Bool.and_eq_true] at h
  obtain ⟨⟨⟨hall, hany⟩, _⟩, _⟩ := h
  have hex : ∃ r, firstMatch L rs tf tg x y eq gt = some r := by
    cases hf : firstMatch L rs tf tg x y eq gt with
    | some r => exact ⟨r, rfl⟩
    | none =>
      exfalso
      simp only [firstMatch, List.find?_eq_none] at hf
      simp only [List.any_eq_true, beq_iff_eq] at hany
      obtain ⟨r, hr, hp⟩ := hany
      have := hf r hr
      simp [hp, patMatches] at this
  obtain ⟨r, hr⟩ := hex
  refine ⟨r, hr, ?_⟩
  have hmem : r ∈ rs := List.mem_of_find?_eq_some hr
  have hmt : patMatches L r.pat tf tg x y eq gt = true := by
    have := List.find?_some hr; simpa using this
  exact rule_sound H C op r (List.all_eq_true.1 hall r hmem) tf tg x y eq gt hx hy heq hmt

theorem done_aux (op : MOp) (x y : T) (eq gt : Bool) (r : MRule) : ∀ (rs : List MRule),
    rs.all (shapeOK op) = true →
    (rs.takeWhile (·.pat != .tt)).all (fun r => !r.res.isBin) = true →
    firstMatch L rs true true x y eq gt = some r → r.res.isBin = false
  | [], _, _, hr => by simp [firstMatch] at hr
  | a :: rs, hall, hpre, hr => by
    simp only [List.all_cons, Bool.and_eq_true] at hall
    simp only [firstMatch, List.find?_cons] at hr
    by_cases hpa : a.pat = .tt
    · have hm : patMatches L a.pat true true x y eq gt = true := by rw [hpa]; rfl
      simp only [hm, Option.some.injEq] at hr
      subst hr
      have hs := hall.1
      obtain ⟨pat, res⟩ := a
      simp only at hpa; subst hpa
      cases res <;> simp [shapeOK, Res.isBin] at hs ⊢
    · have hne : (a.pat != .tt) = true := by simpa using hpa
      simp only [List.takeWhile_cons, hne, if_true, List.all_cons, Bool.and_eq_true] at hpre
      split at hr
      · simp only [Option.some.injEq] at hr; subst hr; simpa using hpre.1
      · exact done_aux op x y eq gt r rs hall.2 hpre.2 hr

/-- … and on two terminals the first matching arm is never a recursion (`Binary`) -/
theorem rules_done_on_terminals (op : MOp) (rs : List MRule) (h : listOK op rs = true)
    (x y : T) (eq gt : Bool) (r : MRule) (hr : firstMatch L rs true true x y eq gt = some r) :
    r.res.isBin = false := by
  simp only [listOK, Bool.and_eq_true] at h
  exact done_aux op x y eq gt r rs h.1.1.1 h.2 hr

end Sound

/-! ## `I64` satisfies the laws -/

namespace I64Comm
open OxiddModel.Mtbdd.I64

theorem add_comm (x y : I64) (hx : x.Valid) (hy : y.Valid) : I64.add x y = I64.add y x := by
  cases x <;> cases y <;> try rfl
  rename_i a b
  rw [add_num a b hx hy, add_num b a hy hx, Int.add_comm]

theorem mul_comm (x y : I64) : I64.mul x y = I64.mul y x := by
  cases x <;> cases y <;> try rfl
  case num.num a b => rw [mul_num a b, mul_num b a, Int.mul_comm]
  all_goals (simp only [I64.mul, signum, Int.mul_comm])

theorem partialCmp_swap (x y : I64) : partialCmp y x = (partialCmp x y).map Ordering.swap := by
  cases x <;> cases y <;> try rfl
  rename_i a b
  simp only [partialCmp, Option.map_some, Option.some.injEq]
  exact (Int.compare_swap a b).symm ▸ rfl

theorem min_comm (x y : I64) : i64Ops.min x y = i64Ops.min y x := by
  have hs := partialCmp_swap x y
  simp only [TermOps.min, i64Ops]
  rw [hs]
  cases h : partialCmp x y with
  | none => rfl
  | some o =>
    cases o <;> simp only [Option.map_some, Ordering.swap]
    exact (partialCmp_eq_iff x y).1 h

theorem max_comm (x y : I64) : i64Ops.max x y = i64Ops.max y x := by
  have hs := partialCmp_swap x y
  simp only [TermOps.max, i64Ops]
  rw [hs]
  cases h : partialCmp x y with
  | none => rfl
  | some o =>
    cases o <;> simp only [Option.map_some, Ordering.swap]
    exact (partialCmp_eq_iff x y).1 h

end I64Comm

/-- `I64` addition, multiplication, `min`, `max` are commutative on run-time values -/
theorem i64_terminalComm : TerminalComm i64Ops I64.Valid where
  add_comm := I64Comm.add_comm
  mul_comm := fun x y _ _ => I64Comm.mul_comm x y
  min_comm := fun x y _ _ => I64Comm.min_comm x y
  max_comm := fun x y _ _ => I64Comm.max_comm x y

/-- the soundness theorem at `I64`: a decision list passing `listOK` computes exactly the model's
scalar operation `i64Ops.sem op` (the `I64` arithmetic of `Mtbdd/Model.lean`) for all `i64` payloads -/
theorem rules_sound_i64 (op : MOp) (rs : List MRule) (h : listOK op rs = true) (tf tg : Bool)
    (x y : I64) (eq gt : Bool) (hx : x.Valid) (hy : y.Valid) (heq : eq = true → x = y) :
    ∃ r, firstMatch i64Ops rs tf tg x y eq gt = some r ∧
      resValue i64Ops r.res x y = i64Ops.sem op.toOp x y :=
  rules_sound i64_terminalLaws i64_terminalComm op rs h tf tg x y eq gt hx hy heq

/-- the historic defect `0 − g ⇒ g` is not a proven shape (and indeed false: `0 − 1 ≠ 1`) -/
example : shapeOK .sub ⟨.fIs .zero, .clone .g⟩ = false := by decide
example : I64.sub (.num 0) (.num 1) ≠ .num 1 := by decide

end OxiddModel.Generated.Mt
