import OxiddModel.Generated.RulesReduce
import OxiddModel.Bdd.Model
import OxiddModel.Bcdd.Model
import OxiddModel.Zbdd.Model
import OxiddModel.Mtbdd.Model
import OxiddModel.Tdd.Model

/-!
# Meaning of an extracted reduction rule, and the rules the models' `mk` functions are

`RedRow.eval`: a reduction function described by a row, on a list of children of an arbitrary node
type: if the row's condition holds return the designated child, else build the node from the
children in the row's order.  `modelRow kind fn` is the rule each model is built on, and the
`*_mk_eq` theorems show (for all levels and children) that interpreting it gives exactly
`Bdd.mk`, `Zbdd.mk`, `Zbdd.mk1`, `Mtbdd.mk`, `Tdd.TD.mk`; likewise `BcddRed.eval` / `modelBcdd` /
`bcdd_mk_eq` for `Bcdd.mk` with its tag normalisation.  The obligation module compares the
extracted rows with `modelRow` by `decide`.
-/
namespace OxiddModel.Generated.Rd

section Generic
variable {D : Type} [DecidableEq D]

def RCond.holds (isEmpty : D → Bool) (cs : List D) : RCond → Bool
  | .allEq [] => false
  | .allEq (i :: rest) => (cs[i]?).isSome && rest.all fun j => cs[i]? == cs[j]?
  | .isEmpty i => ((cs[i]?).map isEmpty).getD false

/-- the reduction function a row describes -/
def RedRow.eval (isEmpty : D → Bool) (node : Nat → List D → Option D) (r : RedRow) (l : Nat)
    (cs : List D) : Option D :=
  if cs.length != r.arity then none
  else if r.cond.holds isEmpty cs then cs[r.ret]?
  else node l (r.children.filterMap (cs[·]?))

/-- two rows describe the same rule (name of the function and delegation aside) -/
def sameRule (a b : RedRow) : Bool :=
  a.arity == b.arity && a.cond == b.cond && a.ret == b.ret && a.children == b.children

theorem eval_congr (isEmpty : D → Bool) (node : Nat → List D → Option D) (a b : RedRow)
    (h : sameRule a b = true) (l : Nat) (cs : List D) :
    a.eval isEmpty node l cs = b.eval isEmpty node l cs := by
  simp only [sameRule, Bool.and_eq_true, beq_iff_eq] at h
  obtain ⟨⟨⟨h1, h2⟩, h3⟩, h4⟩ := h
  simp only [RedRow.eval, h1, h2, h3, h4]

end Generic

/-- the rule of each kind, as the models have it -/
def modelRow (kind fn : String) : Option RedRow :=
  match kind, fn with
  | "bdd", _ => some ⟨"bdd", fn, 2, .allEq [0, 1], 0, [0, 1], false⟩
  | "mtbdd", _ => some ⟨"mtbdd", fn, 2, .allEq [0, 1], 0, [0, 1], false⟩
  | "tdd", _ => some ⟨"tdd", fn, 3, .allEq [0, 1, 2], 0, [0, 1, 2], false⟩
  | "zbdd", "reduce1" => some ⟨"zbdd", fn, 1, .isEmpty 0, 0, [0, 0], false⟩
  | "zbdd", _ => some ⟨"zbdd", fn, 2, .isEmpty 0, 1, [0, 1], false⟩
  | _, _ => none

/-- a row agrees with the model's rule for its kind and function -/
def rowAsModelled (r : RedRow) : Bool :=
  match modelRow r.kind r.fn with
  | some m => sameRule r m
  | none => false

def node2 {D : Type} (mkNode : Nat → D → D → D) (l : Nat) : List D → Option D
  | [a, b] => some (mkNode l a b)
  | _ => none

def node3 {D : Type} (mkNode : Nat → D → D → D → D) (l : Nat) : List D → Option D
  | [a, b, c] => some (mkNode l a b c)
  | _ => none

theorem bdd_mk_eq (fn : String) (l : Nat) (t e : Bdd.BDD) :
    (RedRow.mk "bdd" fn 2 (.allEq [0, 1]) 0 [0, 1] false).eval (fun _ => false) (node2 Bdd.BDD.node) l [t, e]
      = some (Bdd.mk l t e) := by
  by_cases h : t = e <;> simp [RedRow.eval, RCond.holds, node2, Bdd.mk, h]

theorem mtbdd_mk_eq {T : Type} [DecidableEq T] (fn : String) (l : Nat) (t e : Mtbdd.MT T) :
    (RedRow.mk "mtbdd" fn 2 (.allEq [0, 1]) 0 [0, 1] false).eval (fun _ => false) (node2 Mtbdd.MT.node) l [t, e]
      = some (Mtbdd.mk l t e) := by
  by_cases h : t = e <;> simp [RedRow.eval, RCond.holds, node2, Mtbdd.mk, h]

theorem tdd_mk_eq (fn : String) (l : Nat) (t u e : Tdd.TD) :
    (RedRow.mk "tdd" fn 3 (.allEq [0, 1, 2]) 0 [0, 1, 2] false).eval (fun _ => false) (node3 Tdd.TD.node) l [t, u, e]
      = some (Tdd.TD.mk l t u e) := by
  by_cases h1 : t = u
  · subst h1
    by_cases h2 : t = e <;> simp [RedRow.eval, RCond.holds, node3, Tdd.TD.mk, h2]
  · have h3 : ¬(t = u ∧ u = e) := fun h => h1 h.1
    simp only [Tdd.TD.mk, h3, if_false]
    simp [RedRow.eval, RCond.holds, node3, h1]

def zEmpty (d : Zbdd.ZDD) : Bool := d = .empty

theorem zbdd_mk_eq (fn : String) (l : Nat) (hi lo : Zbdd.ZDD) :
    (RedRow.mk "zbdd" fn 2 (.isEmpty 0) 1 [0, 1] false).eval zEmpty (node2 Zbdd.ZDD.node) l [hi, lo]
      = some (Zbdd.mk l hi lo) := by
  by_cases h : hi = .empty <;> simp [RedRow.eval, RCond.holds, node2, Zbdd.mk, zEmpty, h]

theorem zbdd_mk1_eq (fn : String) (l : Nat) (c : Zbdd.ZDD) :
    (RedRow.mk "zbdd" fn 1 (.isEmpty 0) 0 [0, 0] false).eval zEmpty (node2 Zbdd.ZDD.node) l [c]
      = some (Zbdd.mk1 l c) := by
  by_cases h : c = .empty <;> simp [RedRow.eval, RCond.holds, node2, Zbdd.mk1, zEmpty, h]

/-! ## BCDD -/

def TagOp.ap : TagOp → Bool → Bool
  | .keep, b => b
  | .setNone, _ => false
  | .setCompl, _ => true
  | .flip, b => !b

open OxiddModel.Bcdd in
/-- the BCDD reduction function a row describes, on model edges (`neg` = `Complemented`); the
model's node type has no tag on the then-edge, so a row that would create a node with a
complemented then-edge has no meaning (`none`) -/
def BcddRed.eval (r : BcddRed) (l : Nat) (t e : Edge) : Option Edge :=
  let cs := [t, e]
  if t = e then cs[r.eqRet]?
  else
    let compl := ((cs[r.tested]?).map (·.neg)) == some true
    let ch := if compl then r.complChildren else r.plainChildren
    let out := if compl then r.complOut else r.plainOut
    match ch.filterMap (fun p => (cs[p.1]?).map fun c => (⟨p.2.ap c.neg, c.n⟩ : Edge)) with
    | [a, b] =>
      if a.neg then none
      else if out == "Complemented" then some ⟨true, .node l a.n b.neg b.n⟩
      else if out == "None" then some ⟨false, .node l a.n b.neg b.n⟩
      else none
    | _ => none

def modelBcdd (fn : String) : BcddRed :=
  ⟨fn, 0, 0, [(0, .setNone), (1, .flip)], "Complemented", [(0, .keep), (1, .keep)], "None"⟩

def bcddAsModelled (r : BcddRed) : Bool := r == modelBcdd r.fn

theorem bcdd_mk_eq (fn : String) (l : Nat) (t e : Bcdd.Edge) :
    (modelBcdd fn).eval l t e = some (Bcdd.mk l t e) := by
  obtain ⟨tn, tnode⟩ := t
  obtain ⟨en, enode⟩ := e
  by_cases h : (⟨tn, tnode⟩ : Bcdd.Edge) = ⟨en, enode⟩
  · simp [BcddRed.eval, modelBcdd, Bcdd.mk, h]
  · cases tn <;> simp [BcddRed.eval, modelBcdd, Bcdd.mk, h, TagOp.ap]

end OxiddModel.Generated.Rd
