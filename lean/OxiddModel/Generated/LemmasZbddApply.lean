import OxiddModel.Generated.RulesZbdd
import OxiddModel.Zbdd.SetOps

/-!
# Meaning of the extracted ZBDD `apply_union/intsec/diff/symm_diff` descriptions, tied to `Zbdd/Model.lean`

* `evalTerm rows f g`: the terminal cases as a function on model diagrams (`Zbdd.ZDD`);
* `trowOK op r` (finite) and `trow_sound`: a terminal case that passes is an identity of the set
  operation for ALL families: with `f == g` read as equal diagrams and `*f == *empty` as the `Empty`
  terminal, the returned diagram's characteristic function (`ZDD.eval`) is `op.sem` of the
  operands' — pointwise `∨`, `∧`, `∧¬`, `⊕`, i.e. `∪`, `∩`, `∖`, `△` on families;
* `step F d f g`: one unfolding of the recursive function described by an extracted record `d`
  (terminal cases, else the arm selected by comparing the levels, building nodes with the model's
  `Zbdd.mk` = `reduce`/`reduce_borrowed`).  The obligation module proves `op f g = step op d f g`
  for the model's `Zbdd.union/intsec/diff/symmDiff` and the extracted `d`: the source, interpreted,
  unfolds exactly like the model;
* `covers`: the terminal cases leave no pair of terminals (the recursive part calls
  `unwrap_inner()` on the operand with the smaller level).
-/
namespace OxiddModel.Generated.Zb

open OxiddModel.Zbdd OxiddModel.Zbdd.ZDD

def ZOp.sem : ZOp → Bool → Bool → Bool
  | .union, a, b => a || b
  | .intsec, a, b => a && b
  | .diff, a, b => a && !b
  | .symmDiff, a, b => a != b

def ZOp.comm : ZOp → Bool
  | .diff => false
  | _ => true

def ZOp.tag : ZOp → String
  | .union => "Union" | .intsec => "Intsec" | .diff => "Diff" | .symmDiff => "SymmDiff"

def Atom.holds (f g : ZDD) : Atom → Bool
  | .fEqG => f = g
  | .fEmpty => f = .empty
  | .gEmpty => g = .empty

def TRes.inst (f g : ZDD) : TRes → ZDD
  | .cloneF => f
  | .cloneG => g
  | .empty => .empty

def TRow.holds (r : TRow) (f g : ZDD) : Bool := r.cond.any (·.holds f g)

/-- the terminal cases: result of the first row whose condition holds -/
def evalTerm (rows : List TRow) (f g : ZDD) : Option ZDD :=
  (rows.find? (·.holds f g)).map (·.res.inst f g)

/-- is the pair of membership values `(x, y)` possible under the atom? -/
def Atom.okA (x y : Bool) : Atom → Bool
  | .fEqG => x == y
  | .fEmpty => !x
  | .gEmpty => !y

def TRes.valA (x y : Bool) : TRes → Bool
  | .cloneF => x
  | .cloneG => y
  | .empty => false

def bools : List Bool := [false, true]

def trowOK (op : ZOp) (r : TRow) : Bool :=
  r.cond.all fun a => bools.all fun x => bools.all fun y => !a.okA x y || r.res.valA x y == op.sem x y

theorem all_bools {p : Bool → Bool} (h : bools.all p = true) (b : Bool) : p b = true := by
  simp only [bools, List.all_cons, List.all_nil, Bool.and_true, Bool.and_eq_true] at h
  cases b
  · exact h.1
  · exact h.2

/-- a terminal case that passes `trowOK` is a set identity, for all diagrams, at every level offset -/
theorem trow_sound (op : ZOp) (r : TRow) (hok : trowOK op r = true) (f g : ZDD)
    (hh : r.holds f g = true) (n : Nat) (σ : Nat → Bool) (k : Nat) :
    eval n σ k (r.res.inst f g) = op.sem (eval n σ k f) (eval n σ k g) := by
  simp only [TRow.holds, List.any_eq_true] at hh
  obtain ⟨a, ha, hholds⟩ := hh
  simp only [trowOK, List.all_eq_true] at hok
  have mem : ∀ b : Bool, b ∈ bools := by intro b; cases b <;> simp [bools]
  have h1 := hok a ha (eval n σ k f) (mem _) (eval n σ k g) (mem _)
  have hc : a.okA (eval n σ k f) (eval n σ k g) = true := by
    cases a <;> simp only [Atom.holds, decide_eq_true_eq] at hholds <;> subst hholds <;>
      simp [Atom.okA, eval]
  rw [hc] at h1
  simp only [Bool.not_true, Bool.false_or, beq_iff_eq] at h1
  rw [← h1]
  cases r.res <;> simp [TRes.inst, TRes.valA, eval]

/-- the terminal cases mention all three atoms … -/
def covers (rows : List TRow) : Bool :=
  [Atom.fEqG, .fEmpty, .gEmpty].all fun a => rows.any fun r => r.cond.contains a

/-- … so that no pair of terminals is left for the recursive part -/
theorem covers_sound (rows : List TRow) (hc : covers rows = true) (f g : ZDD)
    (hn : evalTerm rows f g = none) : ¬(f.isTerminal = true ∧ g.isTerminal = true) := by
  intro ⟨hf, hg⟩
  simp only [evalTerm, Option.map_eq_none_iff, List.find?_eq_none] at hn
  simp only [covers, List.all_cons, List.all_nil, Bool.and_true, Bool.and_eq_true, List.any_eq_true,
    List.contains_iff_mem] at hc
  obtain ⟨⟨r1, hr1, ha1⟩, ⟨r2, hr2, ha2⟩, ⟨r3, hr3, ha3⟩⟩ := hc
  have n1 := hn r1 hr1
  have n2 := hn r2 hr2
  have n3 := hn r3 hr3
  simp only [TRow.holds, List.any_eq_true, not_exists, not_and, Bool.not_eq_true] at n1 n2 n3
  have e1 := n1 _ ha1
  have e2 := n2 _ ha2
  have e3 := n3 _ ha3
  simp only [Atom.holds, decide_eq_false_iff_not] at e1 e2 e3
  cases f <;> cases g <;> simp_all [isTerminal]

/-! ## the recursive part -/

def Opnd.get (f g : ZDD) : Opnd → ZDD
  | .f => f | .g => g
  | .fhi => f.hi | .flo => f.lo | .ghi => g.hi | .glo => g.lo

def CExpr.eval (F : ZDD → ZDD → ZDD) (f g : ZDD) : CExpr → ZDD
  | .thru o => o.get f g
  | .call a b => F (a.get f g) (b.get f g)

/-- `reduce`/`reduce_borrowed` are the model's `Zbdd.mk` -/
def RArm.eval (F : ZDD → ZDD → ZDD) (f g : ZDD) : RArm → ZDD
  | .node atF hi lo => mk (if atF then f.level else g.level) (hi.eval F f g) (lo.eval F f g)
  | .direct a b => F (a.get f g) (b.get f g)

/-- the arm chosen by `flevel.cmp(&glevel)`; a terminal has level `LevelNo::MAX`, above which no
inner node lies, so a terminal operand always is the "greater" one -/
def armsStep (F : ZDD → ZDD → ZDD) (d : ZFn) (f g : ZDD) : ZDD :=
  match f, g with
  | .node fl _ _, .node gl _ _ =>
    if fl < gl then d.less.eval F f g else if fl = gl then d.equal.eval F f g else d.greater.eval F f g
  | .node .., _ => d.less.eval F f g
  | _, .node .. => d.greater.eval F f g
  | _, _ => f

/-- one unfolding of the function described by `d`, with `F` for the recursive calls -/
def step (F : ZDD → ZDD → ZDD) (d : ZFn) (f g : ZDD) : ZDD :=
  match evalTerm d.term f g with
  | some h => h
  | none => armsStep F d f g

/-- bookkeeping of one function: cache tag is the operator's own in `get` and `add`, key `[f, g]`,
operands are sorted only if the operation is commutative, terminal cases sound and covering -/
def fnOK (d : ZFn) : Bool :=
  d.getTag == d.op.tag && d.addTag == d.op.tag && d.keyInOrder && (!d.swapIfGt || d.op.comm) &&
    d.term.all (trowOK d.op) && covers d.term

end OxiddModel.Generated.Zb
