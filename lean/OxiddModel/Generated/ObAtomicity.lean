import OxiddModel.Generated.SrcAtomicity
import OxiddModel.Generated.LemmasAtomicity
import OxiddModel.Generated.ObOrderings

/-!
# Obligations: every reference-count update is ONE atomic read-modify-write (C05, C07)

`SrcAtomicity.lean` is regenerated on every run from every use of a field `rc` in
`crates/oxidd-manager-index/src/{node,terminal_manager}/*.rs`,
`crates/oxidd-manager-pointer/src/{node,terminal_manager}/*.rs` and `crates/arcslab/src/lib.rs`.
The interleaving models (`Bdd/Threads*`, `Bdd/RcS*`, `Alloc`) perform a `clone_edge` / `drop_edge` as one
atomic step on the count.  `ObOrderings.lean` checks the *orderings* of the decrements; here the
*operations* are checked: every increment is a `fetch_add(1, _)` guarded by an overflow `abort()`,
every decrement a `fetch_sub(1, _)`, no counter is ever written by `store`/`swap`, nothing else
writes a counter, and every file that declares a counter is covered.
`LemmasAtomicity.lean` says what this buys (`At.rmw_exact`) and what goes wrong otherwise
(`At.split_increment_loses_update`).
-/
namespace OxiddModel.Generated

/-- the increment sites: (file, `impl` owner or `*`, function) -/
def incSites : List (String × String × String) :=
  [("index:node/fixed_arity", "NodeWithLevel", "retain"),
   ("index:terminal_manager/dynamic", "*", "retain"),
   ("pointer:node/fixed_arity", "NodeWithLevel", "retain"),
   ("arcslab:lib", "ArcItem", "retain"),
   ("arcslab:lib", "ArcSlab", "retain")]

/-- the decrement sites -/
def decSites : List (String × String × String) :=
  [("index:node/fixed_arity", "NodeWithLevel", "release"),
   ("index:terminal_manager/dynamic", "*", "release"),
   ("pointer:node/fixed_arity", "NodeWithLevel", "release"),
   ("arcslab:lib", "ArcItem", "release"),
   ("arcslab:lib", "ArcSlab", "release")]

/-- nothing the extractor could not classify (an alias of a counter, a counter passed on, …) -/
theorem atomicity_nothing_unparsed : atomicityUnparsed = [] := by decide

/-- every `retain` is exactly one `fetch_add(1, _)` on the counter — no separate load and store —
and its function aborts on overflow -/
theorem rc_increments_atomic : incSites.all (At.isInc rcOps) = true := by decide

/-- every `release` is exactly one `fetch_sub(1, _)` on the counter -/
theorem rc_decrements_atomic : decSites.all (At.isDec rcOps) = true := by decide

/-- counters are touched by `fetch_add`, `fetch_sub` and `load` only; every write happens at one of
the sites above; every file that declares a counter has an increment and a decrement site -/
theorem rc_no_other_writes :
    rcOps.all (fun o => o.op.allowed) = true ∧
    rcOps.all (fun o => !o.op.isWrite || (incSites ++ decSites).any (o.at ·)) = true ∧
    rcFields.all (fun f => incSites.any (·.1 == f.1) && decSites.any (·.1 == f.1)) = true ∧
    rcFields.length = 5 := by
  decide

/-- initial values: inner nodes of both managers and dynamic terminals are born with count 2 (the
unique table's own reference + the edge returned to the caller, as in `Bdd/RcS.lean`), `arcslab`
items and the slab itself with 1 -/
theorem rc_initial_counts :
    rcInits =
      [("index:node/fixed_arity", "NodeWithLevel", "new", "2"),
       ("index:terminal_manager/dynamic", "DynamicTerminalManager", "get_edge", "2"),
       ("pointer:node/fixed_arity", "NodeWithLevel", "new", "2"),
       ("arcslab:lib", "ArcItem", "new", "1"),
       ("arcslab:lib", "ArcSlab", "new_with", "1")] := by
  decide

/-- `DynamicTerminalManager::get_edge`: a terminal that is found is retained (once), a new one starts at 2 -/
theorem get_edge_counts : getEdgeArms = [("Ok", ["retain"]), ("Err", ["init 2"])] := by decide

/-- every decrement — now including `arcslab` — is at least `Release`; the decrements of the node
types agree with the table `rcDecrements` that `ObOrderings.lean` judges -/
theorem rc_decrement_orderings :
    (rcOps.filter (·.op == .fetchSub)).all (fun o => relOK o.ordering) = true ∧
    ((rcOps.filter (fun o => o.op == .fetchSub && o.file != "arcslab:lib")).map (·.ordering)) =
      rcDecrements.map (·.2.2) := by
  decide

/-- **What the table buys**: let any number of threads each run the extracted program of any
`retain` / `release` site, in any interleaving; then the counter plus the increments still pending is
always the initial counter plus all increments — no update is lost.  (`At.rmw_exact` instantiated
with the programs read off the source.) -/
theorem rc_exact_all_interleavings (ts : List At.Th)
    (hts : ∀ t ∈ ts, ∃ s ∈ incSites ++ decSites, At.prog (At.opsOf rcOps s) = some t.pc)
    (sched : List Nat) (c : Int) :
    (At.run sched c ts).1 + At.pending (At.run sched c ts).2 = c + At.pending ts := by
  apply At.rmw_exact
  simp only [At.allAtomic, List.all_eq_true]
  intro t ht
  obtain ⟨s, hs, hp⟩ := hts t ht
  rcases List.mem_append.1 hs with hi | hd
  · have := At.isInc_prog (List.all_eq_true.1 rc_increments_atomic s hi)
    rw [this] at hp; have hpc := (Option.some.inj hp).symm; simp only [At.Th.atomic, hpc]; rfl
  · have := At.isDec_prog (List.all_eq_true.1 rc_decrements_atomic s hd)
    rw [this] at hp; have hpc := (Option.some.inj hp).symm; simp only [At.Th.atomic, hpc]; rfl

/-- non-vacuity: three threads (retain on an index node, release on it, retain of a terminal) -/
example : At.run [2, 0, 1] 2 [⟨[.rmw 1], 0⟩, ⟨[.rmw (-1)], 0⟩, ⟨[.rmw 1], 0⟩] = (3, [⟨[], 0⟩, ⟨[], 0⟩, ⟨[], 0⟩]) := by
  decide

/-- the seeded shape (`load`, check, `store`) is not an increment site's program -/
example : At.isInc [⟨"f", "", "retain", .load, "", "Relaxed", true⟩, ⟨"f", "", "retain", .store, "old_rc+1", "Relaxed", true⟩]
    ("f", "*", "retain") = false := by decide

end OxiddModel.Generated
