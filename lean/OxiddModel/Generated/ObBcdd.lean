import OxiddModel.Generated.SrcFacts

/-!
# Obligations over the BCDD tables: quantifier dispatch (C04), enum prefix (C02)

`SrcFacts.lean` is regenerated from `/repo` on every run; these theorems are re-checked against it.
One module per diagram kind / concern, so that a change to an unrelated table never breaks it.
-/
namespace OxiddModel.Generated

/-- the propositional connectives of `BooleanOperator` -/
def boolOp : String → Option (Bool → Bool → Bool)
  | "And" => some (· && ·) | "Or" => some (· || ·) | "Xor" => some (· != ·) | "Equiv" => some (· == ·)
  | "Nand" => some fun a b => !(a && b) | "Nor" => some fun a b => !(a || b)
  | "Imp" => some fun a b => !a || b | "ImpStrict" => some fun a b => !a && b
  | _ => none

/-- the kernels `apply_quant` is instantiated with for BCDDs -/
def kernel : String → Option (Bool → Bool → Bool)
  | "and" => some (· && ·) | "xor" => some (· != ·) | "nand" => some fun a b => !(a && b)
  | _ => none

def bools : List Bool := [false, true]

/-- a row of `apply_quant_dispatch` is a Boolean identity:
`op a b = [¬] kernel ([¬]a) ([¬]b)`, and the quantifier is dualised exactly when the result is negated
(`Q x. ¬h = ¬ Q̄ x. h` for ∀/∃) -/
def rowOK (r : Row) : Bool :=
  match boolOp r.op, kernel r.kernel with
  | some o, some k =>
    (bools.all fun a => bools.all fun b => ((k (a != r.negF) (b != r.negG)) != r.negRes) == o a b) &&
      (r.swapped == r.negRes)
  | _, _ => false

/-- for `unique` the quantifier is invariant under negating its body (`(¬a) ⊕ (¬b) = a ⊕ b`), so a row
is correct if the kernel computes the operator or its negation -/
def rowUniqueOK (r : Row) : Bool :=
  match boolOp r.op, kernel r.kernel with
  | some o, some k =>
    ((bools.all fun a => bools.all fun b => k (a != r.negF) (b != r.negG) == o a b) ||
     (bools.all fun a => bools.all fun b => k (a != r.negF) (b != r.negG) == !(o a b))) &&
      !r.swapped && !r.negRes
  | _, _ => false

def allOps : List String := ["And", "Or", "Xor", "Equiv", "Nand", "Nor", "Imp", "ImpStrict"]

theorem dispatch_rows_ok : dispatchRows.all rowOK = true ∧ dispatchRows.map (·.op) = allOps := by decide
theorem dispatch_unique_rows_ok :
    dispatchUniqueRows.all rowUniqueOK = true ∧ dispatchUniqueRows.map (·.op) = allOps := by decide

theorem enums_bcdd : enumBCDDOp.take 2 = ["And", "Xor"] := by decide

end OxiddModel.Generated
