import OxiddModel.Generated.SrcBcddKernels
import OxiddModel.Generated.LemmasBcddKernels

/-!
# The BCDD kernels `terminal_and`/`terminal_xor`, the `apply_bin` dispatch and the derivation of the
eight connectives, as extracted from the source, against the model `Bcdd/Model.lean` (C02)

`SrcBcddKernels.lean` is regenerated from `complement_edge/mod.rs` and `apply_rec.rs` on every run.
Definitions and the general soundness theorems: `LemmasBcddKernels.lean`.
-/
set_option linter.unusedSimpArgs false

namespace OxiddModel.Generated

open OxiddModel.Bcdd

/-- finite check (128 cases each): every case of `terminal_and` / `terminal_xor` is an identity of
`and` / `xor` on the operands' denotations, the lists are total, `Nodes` only for two different inner nodes -/
theorem kernel_rows_ok_and : Bc.rowsOK .and kernelRows_and = true := by decide
theorem kernel_rows_ok_xor : Bc.rowsOK .xor kernelRows_xor = true := by decide

/-- … hence, for ALL model edges and assignments (`Bc.kernel_sound`): -/
theorem kernel_sound_and (f g : Edge) (σ : Nat → Bool) :
    match Bc.evalRows kernelRows_and f g with
    | some (.done h) => h.eval σ = (f.eval σ && g.eval σ)
    | some .nodes => f.n ≠ g.n ∧ f.n.isTop = false ∧ g.n.isTop = false
    | none => False :=
  Bc.kernel_sound .and _ kernel_rows_ok_and f g σ

theorem kernel_sound_xor (f g : Edge) (σ : Nat → Bool) :
    match Bc.evalRows kernelRows_xor f g with
    | some (.done h) => h.eval σ = (f.eval σ != g.eval σ)
    | some .nodes => f.n ≠ g.n ∧ f.n.isTop = false ∧ g.n.isTop = false
    | none => False :=
  Bc.kernel_sound .xor _ kernel_rows_ok_xor f g σ

/-- the extracted `terminal_and`, interpreted on model edges, IS the model's `Bcdd.terminalAnd`
(same answer — `Nodes` or the same edge — for all operands) -/
theorem kernel_and_as_modelled (f g : Edge) :
    Bc.evalRows kernelRows_and f g = some (terminalAnd f g) := by
  obtain ⟨fneg, fn⟩ := f
  obtain ⟨gneg, gn⟩ := g
  by_cases hn : fn = gn
  · subst hn
    cases fneg <;> cases gneg <;> cases fn <;>
      simp [Bc.evalRows, kernelRows_and, Bc.KCond.holds, Bc.KCond.holdsA, Bc.KRes.inst, Bc.pickE,
        Bc.BExpr.eval, terminalAnd, CNode.isTop]
  · cases fn <;> cases gn <;> (try exact absurd rfl hn) <;> cases fneg <;> cases gneg <;>
      simp [Bc.evalRows, kernelRows_and, Bc.KCond.holds, Bc.KCond.holdsA, Bc.KRes.inst, Bc.pickE,
        Bc.BExpr.eval, terminalAnd, CNode.isTop, hn]

theorem kernel_xor_as_modelled (f g : Edge) :
    Bc.evalRows kernelRows_xor f g = some (terminalXor f g) := by
  obtain ⟨fneg, fn⟩ := f
  obtain ⟨gneg, gn⟩ := g
  by_cases hn : fn = gn
  · subst hn
    cases fneg <;> cases gneg <;> cases fn <;>
      simp [Bc.evalRows, kernelRows_xor, Bc.KCond.holds, Bc.KCond.holdsA, Bc.KRes.inst, Bc.pickE,
        Bc.BExpr.eval, terminalXor, CNode.isTop]
  · cases fn <;> cases gn <;> (try exact absurd rfl hn) <;> cases fneg <;> cases gneg <;>
      simp [Bc.evalRows, kernelRows_xor, Bc.KCond.holds, Bc.KCond.holdsA, Bc.KRes.inst, Bc.pickE,
        Bc.BExpr.eval, terminalXor, CNode.isTop, hn]

/-- `apply_bin`: the kernel matches the operator, the result is cached under the operator's own tag,
each key operand is paired with its own node, and every operator has an unguarded `Nodes` arm -/
theorem apply_bin_rows_ok :
    applyBinRows.all (fun r => r.tag == r.op && r.nodesPaired &&
      ((r.op == "And" && r.kernel == .and) || (r.op == "Xor" && r.kernel == .xor))) = true ∧
    ["And", "Xor"].all (fun o => applyBinRows.any (fun r => r.op == o && !r.guardLt)) = true := by
  decide

/-- every `<op>_edge` of both `BooleanFunction` impls is a Boolean identity `op a b =
[¬] kernel([¬]a, [¬]b)` for its operator (`Bcdd.Op.sem`), all eight are present -/
theorem derive_rows_ok :
    deriveRows.all Bc.drowOK = true ∧ deriveRows.map (·.op) = Bc.allOps.map Bc.nameOfOp ∧
    deriveRowsMT.all Bc.drowOK = true ∧ deriveRowsMT.map (·.op) = Bc.allOps.map Bc.nameOfOp := by
  decide

/-- … and they are exactly the rows the model's `Bcdd.applyOp` is built from (`Bc.applyOp_eq_row`) -/
theorem derive_rows_as_modelled :
    deriveRows = Bc.allOps.map Bc.modelRow ∧ deriveRowsMT = Bc.allOps.map Bc.modelRow := by
  decide

/-- so the model's `applyOp op` is what the source's `<op>_edge` computes from the kernels -/
theorem derive_rows_apply (op : Op) (f g : Edge) :
    ∃ r ∈ deriveRows, r.op = Bc.nameOfOp op ∧ r.apply f g = applyOp op f g := by
  rw [derive_rows_as_modelled.1]
  exact ⟨Bc.modelRow op, List.mem_map.2 ⟨op, by cases op <;> decide, rfl⟩, by cases op <;> rfl,
    (Bc.applyOp_eq_row op f g).symm⟩

/-- the tag algebra, `get_terminal`, `not`/`not_owned` are as in the model (`Complemented` = `neg`,
`terminal val = ⟨!val, ⊤⟩`, `applyNot` flips the tag), and the extractor recognised every construct -/
theorem bcdd_tags_as_modelled :
    tagNot = [("None", "Complemented"), ("Complemented", "None")] ∧
    tagXor = [("None", "None", "None"), ("None", "Complemented", "Complemented"),
      ("Complemented", "None", "Complemented"), ("Complemented", "Complemented", "None")] ∧
    getTerminalTag = [(true, "None"), (false, "Complemented")] ∧
    tagFlippers = ["not_owned", "not"] ∧
    bcddKernelsUnparsed = [] := by
  decide

/-- non-vacuity: `x ∧ ⊥` on an inner `x` is decided by the kernel table (`Done(⊥)`) -/
example : Bc.evalRows kernelRows_and ⟨false, .node 0 .top true .top⟩ ⟨true, .top⟩ =
    some (.done (terminal false)) := kernel_and_as_modelled _ _

end OxiddModel.Generated
