import OxiddModel.Generated.ObCommon

/-!
# Obligations over the BDD tables (C02, C06)

`SrcFacts.lean` is regenerated from `/repo` on every run; these theorems are re-checked against it.
One module per diagram kind / concern, so that a change to an unrelated table never breaks it.
-/
namespace OxiddModel.Generated

theorem memo_tag_ok_bdd : memoOK memoTags_bdd = true := by decide

/-- the operator blocks of `terminal_bin` are exactly the binary operators of the enum, each once -/
theorem memo_ops_bdd : memoTags_bdd.map (·.1) = (enumBDDOp.drop 1).take 8 := by decide

/-- the models map their operators to cache tags / protocol names by position in the enum (only the
prefix the model uses is fixed: an operator added at the end breaks nothing) -/
theorem enums_bdd :
    (enumBDDOp.drop 1).take 8 = ["And", "Or", "Nand", "Nor", "Xor", "Equiv", "Imp", "ImpStrict"] ∧
    enumBDDOp.head? = some "Not" ∧ enumBDDOp[9]? = some "Ite" := by decide

end OxiddModel.Generated
