import OxiddModel.Generated.SrcFacts

/-!
# Shared definitions for the obligations over extracted tables

`SrcFacts.lean` is regenerated from `/repo` on every run; these theorems are re-checked against it.
One module per diagram kind / concern, so that a change to an unrelated table never breaks it.
-/
namespace OxiddModel.Generated

/-- every `Binary(tag, ..)` result of an operator's `terminal_bin` block carries that operator's
own tag: a result memoised for one operator is never served for another (C06) -/
def memoOK (rows : List (String × List String)) : Bool :=
  rows.all fun (op, tags) => !tags.isEmpty && tags.all (· == op)

end OxiddModel.Generated
