import OxiddModel.Generated.SrcDMCache
import OxiddModel.Cache.DMModel

/-!
# Obligations: `DMApplyCache` (`crates/oxidd-cache/src/direct.rs`) against `Cache/DMModel.lean` (C06)

`SrcDMCache.lean` is regenerated on every run by `tools/extract_tables5.py`.  Three kinds of obligations:

* **interpreter theorems** (for all states / all arguments): the extracted expression trees of
  `CountPair::{NULL, new, edge, numeric}`, `KIND_BITS`, `KIND_COUNT`, the mask and index of `bucket`,
  evaluated by `F5.Ex.eval`, are `countPair`, `cpEdge`, `cpNumeric`, `KIND_COUNT`, `bucketIdx`; the
  extracted disjuncts of the early returns of `get_extended` / `add_extended`, evaluated by
  `F5.evalGate`, are `gate`; the extracted loop bodies of `clear`, `pre_gc`, `post_gc`, run by the
  small interpreter `DMLoop.run` (lock / clear / forget-the-guard / raw unlock on one bucket), are
  `DM.clear`, `DM.preGc`, `DM.postGc` on every cache state;
* **pinned tables** (`decide`): the statement lists of `EntryGuard::{get, set, clear, is_occupied}`,
  `bucket`, `with_capacity`, `get_extended`, `add_extended`, `Entry::{lock, try_lock}`,
  `Drop for EntryGuard` equal the tables written beside the model function named in each doc comment;
* sizes (`dmcache_all_extracted`).

A partial clear in `pre_gc` (a condition, a different range, a missing `clear`) changes
`dmCache_pre_gc`: `dmcache_pre_gc_interp` and `dmcache_pre_gc_as_modelled` fail.
-/
namespace OxiddModel.Generated
open OxiddModel.Cache

/-! ## count pairs, constants, bucket index -/

/-- environment of the constants, as extracted -/
def DMEnv.consts (base : String → Nat) : String → Nat := fun s =>
  if s = "KIND_BITS" then dmConst_KIND_BITS.eval base
  else if s = "KIND_COUNT" then dmConst_KIND_COUNT.eval (fun t => if t = "KIND_BITS" then dmConst_KIND_BITS.eval base else base t)
  else base s

theorem dmcache_constants_interp (base : String → Nat) :
    DMEnv.consts base "KIND_BITS" = Cache.KIND_BITS ∧ DMEnv.consts base "KIND_COUNT" = Cache.KIND_COUNT ∧
      dmCountPairNull.eval base = 0 := by
  simp [DMEnv.consts, dmConst_KIND_BITS, dmConst_KIND_COUNT, dmCountPairNull, F5.Ex.eval, Cache.KIND_BITS, Cache.KIND_COUNT]

/-- `CountPair::new(edge, numeric)` as extracted **is** `countPair edge numeric` -/
theorem dmcache_countpair_new_interp (edge numeric : Nat) :
    dmCountPair_new.eval (DMEnv.consts fun s => if s = "edge" then edge else if s = "numeric" then numeric else 0)
      = countPair edge numeric := by
  simp [dmCountPair_new, F5.Ex.eval, DMEnv.consts, countPair]

/-- `CountPair::edge` / `CountPair::numeric` as extracted **are** `cpEdge` / `cpNumeric` -/
theorem dmcache_countpair_proj_interp (c : Nat) :
    dmCountPair_edge.eval (DMEnv.consts fun s => if s = "self.0" then c else 0) = cpEdge c ∧
    dmCountPair_numeric.eval (DMEnv.consts fun s => if s = "self.0" then c else 0) = cpNumeric c := by
  simp [dmCountPair_edge, dmCountPair_numeric, dmConst_KIND_BITS, dmConst_KIND_COUNT, F5.Ex.eval, DMEnv.consts, cpEdge, cpNumeric]

/-- `bucket`: `index = hasher.finish() & mask`, `mask = len - 1` as extracted **is** `bucketIdx len h` -/
theorem dmcache_bucket_index_interp (len h : Nat) :
    dmBucketIndex.eval (fun s => if s = "hasher.finish()" then h
      else if s = "mask" then dmBucketMask.eval (fun t => if t = "self.0.len()" then len else 0) else 0)
      = bucketIdx len h := by
  simp [dmBucketIndex, dmBucketMask, F5.Ex.eval, bucketIdx]

/-! ## the early returns of `get_extended` / `add_extended` -/

/-- the variables of the two conditions -/
def DMEnv.gate (total : F5.Ex) (cap ne nn E N : Nat) : String → Nat :=
  let base : String → Nat := DMEnv.consts fun s =>
    if s = "operands.0.len()" then ne else if s = "operands.1.len()" then nn
    else if s = "E" then E else if s = "N" then N
    else if s = "values.0.len()" then E else if s = "values.1.len()" then N
    else if s = "ENTRY_CAP" then cap else 0
  fun s => if s = "total_operands" then total.eval base else base s

/-- the extracted condition of `get_extended::<E, N>` **is** `gate` -/
theorem dmcache_gate_get_interp (cap ne nn E N : Nat) :
    F5.evalGate (DMEnv.gate dmTotal_get_extended cap ne nn E N) dmGate_get_extended = gate cap ne nn E N := by
  simp [F5.evalGate, dmGate_get_extended, dmTotal_get_extended, F5.Cmp.eval, F5.Ex.eval, DMEnv.gate, DMEnv.consts,
    dmConst_KIND_BITS, dmConst_KIND_COUNT, gate, Cache.KIND_COUNT, Bool.or_assoc]

/-- the extracted condition of `add_extended` (`E = values.0.len()`, `N = values.1.len()`) **is** `gate` -/
theorem dmcache_gate_add_interp (cap ne nn E N : Nat) :
    F5.evalGate (DMEnv.gate dmTotal_add_extended cap ne nn E N) dmGate_add_extended = gate cap ne nn E N := by
  simp [F5.evalGate, dmGate_add_extended, dmTotal_add_extended, F5.Cmp.eval, F5.Ex.eval, DMEnv.gate, DMEnv.consts,
    dmConst_KIND_BITS, dmConst_KIND_COUNT, gate, Cache.KIND_COUNT, Bool.or_assoc]
  rw [Bool.or_comm (decide (16 < E)) (decide (16 < N)), Nat.add_comm E N]

/-! ## the loops over all buckets: `clear`, `pre_gc`, `post_gc` -/

namespace DMLoop

/-- what one statement of the loop bodies does to the bucket -/
inductive Op where
  /-- `let mut entry = entry.lock();` -/
  | lockBind
  /-- `entry.clear();` -/
  | clear
  /-- `std::mem::forget(entry);` (the guard is never dropped: the bucket stays locked) -/
  | forget
  /-- `entry.lock().clear();` (temporary guard, dropped at the end of the statement) -/
  | lockClearTemp
  /-- `entry.mutex.unlock()` -/
  | rawUnlock
deriving DecidableEq, Repr

/-- the vocabulary: exactly these statements -/
def op? : List String → Option Op
  | ["let", "mut", "entry", "=", "entry", ".", "lock", "(", ")"] => some .lockBind
  | ["entry", ".", "clear", "(", ")"] => some .clear
  | ["std", "::", "mem", "::", "forget", "(", "entry", ")"] => some .forget
  | ["entry", ".", "lock", "(", ")", ".", "clear", "(", ")"] => some .lockClearTemp
  | ["entry", ".", "mutex", ".", "unlock", "(", ")"] => some .rawUnlock
  | _ => none

/-- the only admitted guard: the loop over *all* buckets -/
def hdr : List String := ["for", "entry", "in", "&", "*", "self", ".", "0"]

/-- every row must be an unconditional statement of the loop over all buckets -/
def ops (rows : List F5.Row) : Option (List Op) :=
  rows.mapM fun r => if r.guards = [hdr] ∧ r.kind = "stmt" then op? r.act else none

/-- state of one iteration: the bucket, "a live guard is bound", "a blocking `lock()` met a held
mutex" (then the iteration never returns; the bucket value is computed all the same) -/
structure St where
  e : Entry
  guard : Bool
  blocked : Bool

def step (s : St) : Op → St
  | .lockBind => ⟨{ s.e with locked := true }, true, s.blocked || s.e.locked⟩
  | .clear => { s with e := s.e.clear }
  | .forget => { s with guard := false }
  | .lockClearTemp => ⟨s.e.clear, s.guard, s.blocked || s.e.locked⟩
  | .rawUnlock => { s with e := { s.e with locked := false } }

/-- one iteration: run the body, drop a guard that is still alive at the end of the scope -/
def body (os : List Op) (e : Entry) : Entry × Bool :=
  let s := os.foldl step ⟨e, false, false⟩
  (if s.guard then { s.e with locked := false } else s.e, s.blocked)

/-- the loop: blocks for ever (`none`) if one iteration blocks, else maps the body over the buckets -/
def run (rows : List F5.Row) (d : DM) : Option DM :=
  match ops rows with
  | none => none
  | some os =>
    if d.buckets.any (fun e => (body os e).2) then none
    else some { d with buckets := d.buckets.map fun e => (body os e).1 }

end DMLoop

theorem dmcache_loop_ops :
    DMLoop.ops dmCache_pre_gc = some [.lockBind, .clear, .forget] ∧
    DMLoop.ops dmCache_clear = some [.lockClearTemp] ∧
    DMLoop.ops dmCache_post_gc = some [.rawUnlock] := by decide

/-- **`pre_gc` as extracted is `DM.preGc`** on every cache state (locks every bucket, clears every
bucket, leaves every bucket locked) -/
theorem dmcache_pre_gc_interp (d : DM) : DMLoop.run dmCache_pre_gc d = d.preGc := by
  have h : ∀ e : Entry, DMLoop.body [.lockBind, .clear, .forget] e = ({ e.clear with locked := true }, e.locked) := by
    intro e; simp [DMLoop.body, DMLoop.step, Entry.clear]
  simp only [DMLoop.run, dmcache_loop_ops.1, DM.preGc, DM.anyLocked, h]
  rfl

/-- **`clear` as extracted is `DM.clear`** -/
theorem dmcache_clear_interp (d : DM) : DMLoop.run dmCache_clear d = d.clear := by
  have h : ∀ e : Entry, DMLoop.body [.lockClearTemp] e = (e.clear, e.locked) := by
    intro e; simp [DMLoop.body, DMLoop.step]
  simp only [DMLoop.run, dmcache_loop_ops.2.1, DM.clear, DM.anyLocked, h]
  rfl

/-- **`post_gc` as extracted is `DM.postGc`** (never blocks) -/
theorem dmcache_post_gc_interp (d : DM) : DMLoop.run dmCache_post_gc d = some d.postGc := by
  have h : ∀ e : Entry, DMLoop.body [.rawUnlock] e = ({ e with locked := false }, false) := by
    intro e; simp [DMLoop.body, DMLoop.step]
  simp [DMLoop.run, dmcache_loop_ops.2.2, DM.postGc, h]

/-- non-vacuity: a `pre_gc` that clears only under a condition is outside the vocabulary, and one
that forgets the `clear` is a different function -/
example : DMLoop.ops [⟨[DMLoop.hdr, ["if", "entry", ".", "is_occupied", "(", ")"]], "stmt", ["entry", ".", "clear", "(", ")"]⟩] = none := by decide
example : (DMLoop.body [.lockBind, .forget] ⟨false, 1, 1, 7, [1, 2, 0, 0]⟩).1.operands ≠ 0 ∧
    (DMLoop.body [.lockBind, .clear, .forget] ⟨false, 1, 1, 7, [1, 2, 0, 0]⟩).1.operands = 0 := by decide

/-! ## pinned statement lists -/

/-- `Entry.occupied e = (e.operands != 0)` -/
def Exp5.dmEntry_is_occupied : List F5.Row :=
  [⟨[], "stmt", ["*", "self", ".", "0", ".", "operands", ".", "get", "(", ")", "!=", "CountPair", "::", "NULL"]⟩]

/-- `Entry.get` (`Cache/DMModel.lean`), same order of comparisons: operand count pair, edge operands (`zipCmp k.edges e.data`), numeric operands (`zipCmp k.nums d1`), `operator != k.op || values != countPair E N`, then `split_at(E)` / `[..N]` (`d2.take k.ev`, `(d2.drop k.ev).take k.nv`), the edge values are returned as clones -/
def Exp5.dmEntry_get : List F5.Row :=
  [⟨[], "stmt", ["let", "num_operands", "=", "CountPair", "::", "new", "(", "operands", ".", "0", ".", "len", "(", ")", ",", "operands", ".", "1", ".", "len", "(", ")", ")"]⟩,
   ⟨[["if", "*", "self", ".", "0", ".", "operands", ".", "get", "(", ")", "!=", "num_operands"]], "stmt", ["return", "None"]⟩,
   ⟨[], "stmt", ["let", "mut", "data", "=", "&", "*", "self", ".", "0", ".", "data", ".", "get", "(", ")", ".", "iter", "(", ")"]⟩,
   ⟨[["for", "(", "o1", ",", "o2", ")", "in", "operands", ".", "0", ".", "iter", "(", ")", ".", "zip", "(", "data", ".", "by_ref", "(", ")", ")"], ["if", "&", "*", "*", "o1", "!=", "o2", ".", "assume_edge_ref", "(", ")"]], "stmt", ["return", "None"]⟩,
   ⟨[["for", "(", "&", "o1", ",", "o2", ")", "in", "operands", ".", "1", ".", "iter", "(", ")", ".", "zip", "(", "data", ".", "by_ref", "(", ")", ")"], ["if", "o1", "!=", "o2", ".", "numeric"]], "stmt", ["return", "None"]⟩,
   ⟨[["if", "(", "*", "self", ".", "0", ".", "operator", ".", "get", "(", ")", ")", ".", "assume_init", "(", ")", "!=", "operator", "||", "*", "self", ".", "0", ".", "values", ".", "get", "(", ")", "!=", "const", "{", "CountPair", "::", "new", "(", "E", ",", "N", ")", "}"]], "stmt", ["return", "None"]⟩,
   ⟨[], "stmt", ["let", "(", "edge_values", ",", "remaining", ")", "=", "data", ".", "as_slice", "(", ")", ".", "split_at", "(", "E", ")"]⟩,
   ⟨[], "stmt", ["let", "numeric_values", "=", "&", "remaining", "[", "..", "N", "]"]⟩,
   ⟨[], "stmt", ["Some", "(", "(", "std", "::", "array", "::", "from_fn", "(", "|", "i", "|", "{", "manager", ".", "clone_edge", "(", "edge_values", "[", "i", "]", ".", "assume_edge_ref", "(", ")", ")", "}", ")", ",", "std", "::", "array", "::", "from_fn", "(", "|", "i", "|", "numeric_values", "[", "i", "]", ".", "numeric", ")", ",", ")", ")"]⟩]

/-- `Entry.set`: `clear`, operator, the four prefix writes in the order edge operands, numeric operands, edge values, numeric values (`writePrefix e.data (es ++ ns ++ ves ++ vns)`; edges are written *borrowed*), then `values`, then `operands` -/
def Exp5.dmEntry_set : List F5.Row :=
  [⟨[], "stmt", ["self", ".", "clear", "(", ")"]⟩,
   ⟨[], "stmt", ["&", "mut", "*", "self", ".", "0", ".", "operator", ".", "get", "(", ")", ".", "write", "(", "operator", ")"]⟩,
   ⟨[], "stmt", ["let", "mut", "data", "=", "&", "mut", "*", "self", ".", "0", ".", "data", ".", "get", "(", ")", ".", "iter_mut", "(", ")"]⟩,
   ⟨[["for", "(", "src", ",", "dst", ")", "in", "operands", ".", "0", ".", "iter", "(", ")", ".", "zip", "(", "data", ".", "by_ref", "(", ")", ")"]], "stmt", ["dst", ".", "write_edge", "(", "src", ".", "borrowed", "(", ")", ")"]⟩,
   ⟨[["for", "(", "&", "src", ",", "dst", ")", "in", "operands", ".", "1", ".", "iter", "(", ")", ".", "zip", "(", "data", ".", "by_ref", "(", ")", ")"]], "stmt", ["dst", ".", "numeric", "=", "src"]⟩,
   ⟨[["for", "(", "src", ",", "dst", ")", "in", "values", ".", "0", ".", "iter", "(", ")", ".", "zip", "(", "data", ".", "by_ref", "(", ")", ")"]], "stmt", ["dst", ".", "write_edge", "(", "src", ".", "borrowed", "(", ")", ")"]⟩,
   ⟨[["for", "(", "&", "src", ",", "dst", ")", "in", "values", ".", "1", ".", "iter", "(", ")", ".", "zip", "(", "data", ")"]], "stmt", ["dst", ".", "numeric", "=", "src"]⟩,
   ⟨[], "stmt", ["*", "self", ".", "0", ".", "values", ".", "get", "(", ")", "=", "CountPair", "::", "new", "(", "values", ".", "0", ".", "len", "(", ")", ",", "values", ".", "1", ".", "len", "(", ")", ")"]⟩,
   ⟨[], "stmt", ["*", "self", ".", "0", ".", "operands", ".", "get", "(", ")", "=", "CountPair", "::", "new", "(", "operands", ".", "0", ".", "len", "(", ")", ",", "operands", ".", "1", ".", "len", "(", ")", ")"]⟩]

/-- `Entry.clear e = { e with operands := 0 }`: only the operand count is reset -/
def Exp5.dmEntry_clear : List F5.Row :=
  [⟨[], "stmt", ["*", "self", ".", "0", ".", "operands", ".", "get", "(", ")", "=", "CountPair", "::", "NULL"]⟩]

/-- `DM.idx`: the hash is a function of operator, edge operands, numeric operands (`Hash := Nat → List Nat → List Nat → Nat`), `bucketIdx len h = h &&& (len - 1)` -/
def Exp5.dmBucket : List F5.Row :=
  [⟨[], "stmt", ["let", "mut", "hasher", "=", "H", "::", "default", "(", ")"]⟩,
   ⟨[], "stmt", ["operator", ".", "hash", "(", "&", "mut", "hasher", ")"]⟩,
   ⟨[["for", "o", "in", "operands", ".", "0"]], "stmt", ["o", ".", "hash", "(", "&", "mut", "hasher", ")"]⟩,
   ⟨[["for", "o", "in", "operands", ".", "1"]], "stmt", ["o", ".", "hash", "(", "&", "mut", "hasher", ")"]⟩,
   ⟨[], "stmt", ["let", "mask", "=", "(", "self", ".", "0", ".", "len", "(", ")", "-", "1", ")", "as", "u64"]⟩,
   ⟨[], "stmt", ["let", "index", "=", "(", "hasher", ".", "finish", "(", ")", "&", "mask", ")", "as", "usize"]⟩,
   ⟨[], "stmt", ["self", ".", "0", ".", "get_unchecked", "(", "index", ")"]⟩]

/-- `DM.withCapacity entryCap capacity = ⟨entryCap, replicate (nextPow2 capacity) (Entry.init entryCap)⟩` -/
def Exp5.dmWithCapacity : List F5.Row :=
  [⟨[], "stmt", ["let", "(", ")", "=", "Self", "::", "CHECK_ENTRY_CAP"]⟩,
   ⟨[], "stmt", ["let", "buckets", "=", "capacity", ".", "checked_next_power_of_two", "(", ")", ".", "expect", "(", "\"capacity is too large\"", ")"]⟩,
   ⟨[], "stmt", ["let", "mut", "vec", "=", "Vec", "::", "with_capacity", "(", "buckets", ")"]⟩,
   ⟨[], "stmt", ["vec", ".", "resize_with", "(", "buckets", ",", "||", "Entry", "::", "INIT", ")"]⟩,
   ⟨[], "stmt", ["DMApplyCache", "(", "vec", ".", "into_boxed_slice", "(", ")", ",", "PhantomData", ")"]⟩]

/-- `DM.getAt`: `gate` ⇒ `none`; `try_lock()?` (`e.locked || lockFails` ⇒ `none`); `Entry.get` -/
def Exp5.dmCache_get_extended : List F5.Row :=
  [⟨[], "stmt", ["let", "total_operands", "=", "operands", ".", "0", ".", "len", "(", ")", "+", "operands", ".", "1", ".", "len", "(", ")"]⟩,
   ⟨[["if", "total_operands", "==", "0", "||", "total_operands", "+", "(", "N", "+", "E", ")", ">", "ENTRY_CAP", "||", "operands", ".", "0", ".", "len", "(", ")", ">", "KIND_COUNT", "||", "operands", ".", "1", ".", "len", "(", ")", ">", "KIND_COUNT", "||", "N", ">", "KIND_COUNT", "||", "E", ">", "KIND_COUNT"]], "stmt", ["return", "None"]⟩,
   ⟨[], "stmt", ["self", ".", "bucket", "(", "operator", ",", "operands", ")", ".", "try_lock", "(", ")", "?", ".", "get", "(", "manager", ",", "operator", ",", "operands", ")"]⟩]

/-- `DM.addAt`: `gate` ⇒ unchanged; `try_lock` fails ⇒ unchanged; `Entry.set` -/
def Exp5.dmCache_add_extended : List F5.Row :=
  [⟨[], "stmt", ["let", "total_operands", "=", "operands", ".", "0", ".", "len", "(", ")", "+", "operands", ".", "1", ".", "len", "(", ")"]⟩,
   ⟨[["if", "total_operands", "==", "0", "||", "total_operands", "+", "(", "values", ".", "0", ".", "len", "(", ")", "+", "values", ".", "1", ".", "len", "(", ")", ")", ">", "ENTRY_CAP", "||", "operands", ".", "0", ".", "len", "(", ")", ">", "KIND_COUNT", "||", "operands", ".", "1", ".", "len", "(", ")", ">", "KIND_COUNT", "||", "values", ".", "0", ".", "len", "(", ")", ">", "KIND_COUNT", "||", "values", ".", "1", ".", "len", "(", ")", ">", "KIND_COUNT"]], "stmt", ["return"]⟩,
   ⟨[["if", "let", "Some", "(", "mut", "entry", ")", "=", "self", ".", "bucket", "(", "operator", ",", "operands", ")", ".", "try_lock", "(", ")"]], "stmt", ["entry", ".", "set", "(", "operator", ",", "operands", ",", "values", ")"]⟩]

/-- `DM.clear`: `entry.lock().clear()` for every bucket -/
def Exp5.dmCache_clear : List F5.Row :=
  [⟨[["for", "entry", "in", "&", "*", "self", ".", "0"]], "stmt", ["entry", ".", "lock", "(", ")", ".", "clear", "(", ")"]⟩]

/-- only `pre_gc` and `post_gc` are overridden -/
def Exp5.dmHooks : List String :=
  ["pre_gc", "post_gc"]

/-- `DM.preGc`: lock every bucket, clear it, `mem::forget` the guard (the bucket stays locked) -/
def Exp5.dmCache_pre_gc : List F5.Row :=
  [⟨[["for", "entry", "in", "&", "*", "self", ".", "0"]], "stmt", ["let", "mut", "entry", "=", "entry", ".", "lock", "(", ")"]⟩,
   ⟨[["for", "entry", "in", "&", "*", "self", ".", "0"]], "stmt", ["entry", ".", "clear", "(", ")"]⟩,
   ⟨[["for", "entry", "in", "&", "*", "self", ".", "0"]], "stmt", ["std", "::", "mem", "::", "forget", "(", "entry", ")"]⟩]

/-- `DM.postGc`: unlock every bucket -/
def Exp5.dmCache_post_gc : List F5.Row :=
  [⟨[["for", "entry", "in", "&", "*", "self", ".", "0"]], "stmt", ["entry", ".", "mutex", ".", "unlock", "(", ")"]⟩]

/-- blocking `lock()` (the model's `none` = never returns while `pre_gc` holds the bucket) -/
def Exp5.dmEntry_lock : List F5.Row :=
  [⟨[], "stmt", ["self", ".", "mutex", ".", "lock", "(", ")"]⟩,
   ⟨[], "stmt", ["EntryGuard", "(", "self", ")"]⟩]

/-- `try_lock` (`e.locked || lockFails` ⇒ `None`) -/
def Exp5.dmEntry_try_lock : List F5.Row :=
  [⟨[["if", "self", ".", "mutex", ".", "try_lock", "(", ")"]], "stmt", ["Some", "(", "EntryGuard", "(", "self", ")", ")"]⟩,
   ⟨[["else", "/*", "after", "*/", "if", "self", ".", "mutex", ".", "try_lock", "(", ")"]], "stmt", ["None"]⟩]

/-- dropping an `EntryGuard` unlocks the bucket -/
def Exp5.dmEntryGuard_drop : List F5.Row :=
  [⟨[], "stmt", ["self", ".", "0", ".", "mutex", ".", "unlock", "(", ")"]⟩]

theorem dmcache_Entry_is_occupied_as_modelled : dmEntry_is_occupied = Exp5.dmEntry_is_occupied := by decide
theorem dmcache_Entry_get_as_modelled : dmEntry_get = Exp5.dmEntry_get := by decide
theorem dmcache_Entry_set_as_modelled : dmEntry_set = Exp5.dmEntry_set := by decide
theorem dmcache_Entry_clear_as_modelled : dmEntry_clear = Exp5.dmEntry_clear := by decide
theorem dmcache_Bucket_as_modelled : dmBucket = Exp5.dmBucket := by decide
theorem dmcache_WithCapacity_as_modelled : dmWithCapacity = Exp5.dmWithCapacity := by decide
theorem dmcache_Cache_get_extended_as_modelled : dmCache_get_extended = Exp5.dmCache_get_extended := by decide
theorem dmcache_Cache_add_extended_as_modelled : dmCache_add_extended = Exp5.dmCache_add_extended := by decide
theorem dmcache_Cache_clear_as_modelled : dmCache_clear = Exp5.dmCache_clear := by decide
theorem dmcache_Hooks_as_modelled : dmHooks = Exp5.dmHooks := by decide
theorem dmcache_Cache_pre_gc_as_modelled : dmCache_pre_gc = Exp5.dmCache_pre_gc := by decide
theorem dmcache_Cache_post_gc_as_modelled : dmCache_post_gc = Exp5.dmCache_post_gc := by decide
theorem dmcache_Entry_lock_as_modelled : dmEntry_lock = Exp5.dmEntry_lock := by decide
theorem dmcache_Entry_try_lock_as_modelled : dmEntry_try_lock = Exp5.dmEntry_try_lock := by decide
theorem dmcache_EntryGuard_drop_as_modelled : dmEntryGuard_drop = Exp5.dmEntryGuard_drop := by decide

theorem dmcache_all_extracted :
    [dmEntry_is_occupied.length, dmEntry_get.length, dmEntry_set.length, dmEntry_clear.length, dmBucket.length,
      dmWithCapacity.length, dmCache_get_extended.length, dmCache_add_extended.length, dmCache_clear.length,
      dmCache_pre_gc.length, dmCache_post_gc.length, dmEntry_lock.length, dmEntry_try_lock.length,
      dmEntryGuard_drop.length, dmGate_get_extended.length, dmGate_add_extended.length, dmHooks.length]
      = [1, 9, 9, 1, 7, 5, 3, 3, 1, 3, 1, 2, 2, 1, 6, 6, 2] := by decide

end OxiddModel.Generated
