import OxiddModel.Generated.SrcEpoch
import OxiddModel.Generated.LemmasEpoch

/-!
# Obligations: the `gc_count` / `SatCountCache` epoch protocol of the source is the modelled one (C12, C06)

`SrcEpoch.lean` is regenerated on every run from `Manager::gc`, `Manager::reorder`,
`Manager::gc_count` of `oxidd-manager-index` and `oxidd-manager-pointer` and from
`SatCountCache::clear_if_invalid` / `default` / `with_hasher` of `oxidd-core/src/util/mod.rs`.

The model (`Bdd/CountS.lean`) is written from these facts: a collection advances `gc_count` **once,
before** the first level is swept (`HOp.gcBegin`, then `HOp.gcFree`; `HOp.gc` when nothing
interleaves), `gc` holds the manager only shared (so `count` steps of other threads may stand between
`gcBegin` and `gcFree` — `CountS.count_during_collection_wrong`, known finding
`KF-countcache-during-collection`), a reordering advances it once and is exclusive, and
`clear_if_invalid` clears when the epoch **or** the number of variables differs and then stores both.
A change to either side breaks these obligations: e.g. the proposed repair (advance at the start
*and* at the end) yields `[⟨.before, 1⟩, ⟨.after, 1⟩]`, which is the protocol of
`Bdd/PropertiesC12SFix.lean`, not of `CountS.HOp.gc`.
-/
namespace OxiddModel.Generated
open OxiddModel.Bdd.CountS

theorem epoch_nothing_unparsed : epochUnparsed = [] := by decide

/-- the manager facts the model uses -/
def modelMgrFacts : Ep.MgrFacts := ⟨Ep.modelGc, true, true, [⟨.after, 1⟩], true, "load", 0⟩

/-- both managers: `gc_count` starts at 0, is advanced once and before the sweep in `gc` (after the
failed-`try_lock` return), `gc` takes `&self`; `reorder` takes `&mut self` and advances it once
(after the closure); `gc_count()` loads it; no other function touches it -/
theorem gc_epoch_facts :
    epochManagers.map (·.1) = ["index", "pointer"] ∧
    epochManagers.all (fun m => m.2 == modelMgrFacts) = true := by
  decide

/-- **a collection of the source is the model's `gcBegin; gcFree s'; gcEnd`**, and run without
interleaving it is the model's atomic step `gc s'` -/
theorem gc_protocol_as_modelled (m : String × Ep.MgrFacts) (hm : m ∈ epochManagers)
    (s' : OxiddModel.Bdd.Refine.Store) (st : HState) :
    Ep.gcSteps m.2.gc s' = [HOp.gcBegin, HOp.gcFree s', HOp.gcEnd] ∧
    (runAll (Ep.gcSteps m.2.gc s') st).1 = ((HOp.gc s').run st).1 := by
  have h := List.all_eq_true.1 gc_epoch_facts.2 m hm
  simp only [beq_iff_eq] at h
  rw [h]; exact ⟨rfl, rfl⟩

/-- a reordering adds exactly the 1 of the model's `HOp.reorder` step and nothing can observe the
manager meanwhile (`&mut self`) -/
theorem reorder_epoch_as_modelled (m : String × Ep.MgrFacts) (hm : m ∈ epochManagers)
    (s' : OxiddModel.Bdd.Refine.Store) (hs' : List OxiddModel.Bdd.Refine.Edge) (st : HState) :
    m.2.reorderExclusive = true ∧
    ((HOp.reorder s' hs').run st).1.mgr.gcCount = st.mgr.gcCount + Ep.total m.2.reorder := by
  have h := List.all_eq_true.1 gc_epoch_facts.2 m hm
  simp only [beq_iff_eq] at h
  rw [h]; exact ⟨rfl, rfl⟩

/-- the extracted condition and actions are the model's -/
theorem clear_if_invalid_facts : clearIfInvalidFacts = Ep.modelClear := by decide

/-- **`clear_if_invalid` of the source denotes `CountCache.clearIfInvalid`** — for all caches, epochs
and variable counts -/
theorem clear_if_invalid_as_modelled (c : CountCache) (gcCount vars : Nat) :
    clearIfInvalidFacts.interp c gcCount vars = c.clearIfInvalid gcCount vars := by
  rw [clear_if_invalid_facts]; exact Ep.modelClear_interp c gcCount vars

/-- a fresh cache: no variables, epoch 0, `cache_all = false` — `CountCache.new` -/
theorem sat_count_cache_init :
    satCountCacheInits = [("default", "0", "0", "false"), ("with_hasher", "0", "0", "false")] ∧
    CountCache.new = ⟨[], 0, 0, false⟩ := by
  decide

/-- non-vacuity: a stale cache (epoch 0 at `gc_count` 1) is cleared, a current one is kept -/
example : clearIfInvalidFacts.interp ⟨[(3, 5)], 2, 0, false⟩ 1 2 = ⟨[], 2, 1, false⟩ := by decide
example : clearIfInvalidFacts.interp ⟨[(3, 5)], 2, 1, false⟩ 1 2 = ⟨[(3, 5)], 2, 1, false⟩ := by decide
/-- a condition that forgets the variable count is a different function -/
example : (⟨.any, [.ne .epoch], [.setEpoch, .setVars, .clearMap]⟩ : Ep.ClearFacts).interp ⟨[(3, 5)], 2, 1, false⟩ 1 3
    ≠ (⟨[(3, 5)], 2, 1, false⟩ : CountCache).clearIfInvalid 1 3 := by decide

end OxiddModel.Generated
