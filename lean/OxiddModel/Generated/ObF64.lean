import OxiddModel.Generated.SrcF64
import OxiddModel.Generated.LemmasF64

/-!
# Obligations: `F64` values are normalised wherever they are built (C10, C01)

`SrcF64.lean` is regenerated on every run from every construction of an `F64` in
`crates/oxidd-rules-mtbdd/src/terminal/f64.rs` (unit tests excluded).  `F64` is compared and hashed
by bit pattern, so equal numbers are equal terminals only if every value is normalised
(all NaNs ↦ `f64::NAN`, `-0.0` ↦ `0.0`): the model `Mtbdd/F64.lean` builds every arithmetic result as
`norm (a ∘ b)`.

**Finding** (`f64_parse_unnormalised`): the catch-all arm of `F64::parse` (`ParseTagged`, used by the
DDDMP importer for MTBDD terminals) is `Self(f64::from_str(s).ok()?)` — the tuple constructor on an
arbitrary parsed float.  `"-0"`, `"-0.0"`, `"-0e5"` give `-0.0` and `"-nan"` gives a NaN with the sign
bit set; both bypass the normalisation (reproduced on the real code, see REPORT.md).  The full
statement

    theorem f64_all_constructions_normalised : f64Rows.all Fx.Row.ok = true

was therefore false of the source before the repair (`/repo`, "fix: F64::parse normalises …"); it is
proved now (`f64_all_constructions_normalised`); the pre-fix row is kept as a regression witness
(`f64_parse_unnormalised_before_fix`).
-/
namespace OxiddModel.Generated

theorem f64_nothing_unparsed : f64Unparsed = [] := by decide

/-- the normalisation maps every NaN to `f64::NAN`, `-0.0` to `0.0` and leaves other values alone
(`Mtbdd.F64.norm`) -/
theorem f64_normaliser_as_modelled : f64Normaliser = (true, true, true) := by decide

/-- **Every construction of an `F64` goes through the normalisation or is a normal literal** —
the full statement. It was false of `/repo` before commit "fix: F64::parse normalises …": the
catch-all arm of `F64::parse` (`ParseTagged`, used by the DDDMP importer for MTBDD terminals) was
`Self(f64::from_str(s).ok()?)`, so `"-0"`, `"-0.0"`, `"-0e5"` gave `-0.0` and `"-nan"` a NaN with the
sign bit set (reproduced on the real code by `harness/src/bin/f64_parse.rs`). -/
theorem f64_all_constructions_normalised : f64Rows.all Fx.Row.ok = true := by decide

/-- regression witness: the row the extractor produced for the pre-fix source is rejected -/
theorem f64_parse_unnormalised_before_fix :
    (⟨"ParseTagged", "parse", .raw, .expr "f64::from_str(s).ok()?"⟩ : Fx.Row).ok = false := by decide

/-- every other construction is normalised: the constants are normal literals, and **every
arithmetic result** (`NumberBase::add/sub/mul/div` and the operator traits `Add/Sub/Mul/Div`) is
`Self::from(self.0 ∘ rhs.0)` with the operator of its own name -/
theorem f64_constructions_normalised_partial :
    (f64Rows.filter (fun r => r.owner != "ParseTagged")).all Fx.Row.ok = true ∧
    (f64Rows.filter (fun r => r.kind == .normalised)).map (fun r => (r.owner, r.fn)) =
      [("NumberBase", "add"), ("NumberBase", "sub"), ("NumberBase", "mul"), ("NumberBase", "div"),
       ("ParseTagged", "parse"), ("Add", "add"), ("Sub", "sub"), ("Mul", "mul"), ("Div", "div")] ∧
    (f64Rows.filter (fun r => r.owner == "NumberBase" && r.kind == .raw)).map (fun r => (r.fn, r.arg)) =
      [("zero", .const .zero), ("one", .const .one), ("nan", .const .nan)] := by
  decide

/-- **The arithmetic of the source is the model's**: every extracted arithmetic row denotes
`Mtbdd.F64.add / sub / mul / div` on bit patterns, for all operands. -/
theorem f64_arithmetic_as_modelled (r : Fx.Row) (hr : r ∈ f64Rows) (hk : r.kind = .normalised)
    (ho : r.owner ≠ "ParseTagged")
    (a b : UInt64) : ∃ op, Fx.BinOp.ofName r.fn = some op ∧ r.interp a b = some (op.model a b) := by
  have h : r ∈ f64Rows.filter (fun r => r.kind == .normalised && r.owner != "ParseTagged") :=
    List.mem_filter.2 ⟨hr, by simp [hk, ho]⟩
  have hall : (f64Rows.filter (fun r => r.kind == .normalised && r.owner != "ParseTagged")).all
      (fun r => match r.arg with | .binop op => Fx.BinOp.ofName r.fn == some op | _ => false) = true := by decide
  have hr' := List.all_eq_true.1 hall r h
  obtain ⟨owner, fn, kind, arg⟩ := r
  simp only at hk; subst hk
  cases arg with
  | binop op =>
    simp only [beq_iff_eq] at hr'
    exact ⟨op, hr', Fx.interp_normalised owner fn op a b⟩
  | const c => simp at hr'
  | expr s => simp at hr'

/-- non-vacuity -/
example : (⟨"NumberBase", "mul", .normalised, .binop .mul⟩ : Fx.Row) ∈ f64Rows := by decide
/-- the seeded shape (`Self(self.0 * rhs.0)` in `mul`) is not ok -/
example : (⟨"NumberBase", "mul", .raw, .binop .mul⟩ : Fx.Row).ok = false := by decide

end OxiddModel.Generated
