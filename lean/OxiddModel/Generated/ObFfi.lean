import OxiddModel.Generated.SrcFfi
import OxiddModel.Ffi.Properties

/-!
# Obligations: the C wrappers are what the ownership state machine `Ffi/Model.lean` assumes (C19)

`SrcFfi.lean` is regenerated on every run from `crates/oxidd-ffi-c/src/{bdd,bcdd,zbdd}.rs` and
`util/*.rs` by `tools/extract_ffi.py`: one row per `extern "C"` function (215 + 24) and per generic
helper / conversion.  The theorems below are `decide`d on the extracted rows:

* `ffi_classes_total`, `ffi_class_sound` — every exported function belongs to one of the call
  classes of `Ffi/Model.lean` and its body follows the class's ownership discipline: function
  arguments are only borrowed (`get()`, i.e. `ManuallyDrop`, directly or through `op1 … op3_combined`),
  results are handed out through `into()`, and only `unref`, `manager_unref`, `make_node` (`hi`, `lo`)
  and `substitution_free` take a reference over;
* `ffi_helpers_borrow`, `ffi_conversions` — the helpers and conversions these bodies rely on do what
  the class discipline assumes of them;
* `ffi_stateless` — no wrapper, helper or conversion declares or touches a `static`, `thread_local!`,
  `lazy_static!`, `OnceLock` … (a memo table in the wrapper layer shared between managers is exactly
  what `Ffi.Multi.ffi_manager_isolation` excludes);
* `ffi_forwarding_table` — a helper-shaped wrapper forwards to the Rust API method of its own name with
  the parameters in declaration order (`imp(g, f)` fails), every other wrapper calls exactly the
  expected API items; the helper-built operation sets are `opTableBdd` / `opTableZbdd`;
* `ffi_bcdd_is_bdd`, `ffi_zbdd_operation_set` — the three kinds expose the same interface modulo the
  documented differences.
-/
namespace OxiddModel.Generated
open FfiW

theorem ffi_nothing_unparsed : ffiUnparsed = [] := by decide

/-- the crate consists of the files the extractor reads -/
theorem ffi_files_known :
    ffiFiles = ["bcdd.rs", "bdd.rs", "lib.rs", "util/dddmp.rs", "util/interop.rs", "util/mod.rs",
      "util/num.rs", "zbdd.rs"] := by decide

/-- all exported functions of the three kinds -/
def ffiFns : List Fn := ffiFns_bdd ++ ffiFns_bcdd ++ ffiFns_zbdd

theorem ffi_counts : ffiFns_bdd.length = 72 ∧ ffiFns_bcdd.length = 72 ∧ ffiFns_zbdd.length = 71 ∧
    ffiUtilExtern.length = 24 := by decide

/-- **(a) every exported function belongs to a call class of the model** -/
theorem ffi_classes_total : ∀ f ∈ ffiFns, (classify f).isSome = true := by decide +kernel

/-- **(a) … and follows the ownership discipline of its class**: borrowed arguments go through
`get()` (or a helper that does), results through `into()`, only `unref` / `manager_unref` /
`make_node` / `substitution_free` consume -/
theorem ffi_class_sound :
    classifiedSound "oxidd_bdd_" ffiFns_bdd = true ∧ classifiedSound "oxidd_bcdd_" ffiFns_bcdd = true ∧
    classifiedSound "oxidd_zbdd_" ffiFns_zbdd = true := by
  refine ⟨?_, ?_, ?_⟩ <;> decide +kernel

/-- the functions that take a reference over are exactly the documented ones -/
theorem ffi_only_documented_consume :
    (ffiFns_bdd.filter (·.consumed ≠ [])).map (·.name) = ["manager_unref", "unref", "substitution_free"] ∧
    (ffiFns_bcdd.filter (·.consumed ≠ [])).map (·.name) = ["manager_unref", "unref", "substitution_free"] ∧
    (ffiFns_zbdd.filter (·.consumed ≠ [])).map (·.name) = ["manager_unref", "unref", "make_node"] ∧
    (∀ f ∈ ffiFns, f.consumed.length = f.fromRawOwned + f.intoInner) := by
  refine ⟨?_, ?_, ?_, ?_⟩ <;> decide +kernel

/-- the class of a function consumes iff the function does -/
theorem ffi_consume_iff_class : ∀ f ∈ ffiFns,
    (match classify f with | some c => c.consumes | none => false) = (f.consumed != []) := by
  decide +kernel

/-- the classes and the calls of `Ffi/Model.lean` -/
def FfiW.Class.witness : Class → Ffi.Call Nat
  | .managerNew => .managerNew
  | .managerRef => .managerRef
  | .managerUnref => .managerUnref
  | .containingManager => .containingManager (.valid 0)
  | .construct => .construct (some 0)
  | .op1 => .op1 (fun _ => none) (.valid 0)
  | .op2 => .op2 (fun _ _ => none) (.valid 0) (.valid 0)
  | .op2Var => .op2Var (fun _ _ => none) (.valid 0) 0
  | .op3 => .op3 (fun _ _ _ => none) (.valid 0) (.valid 0) (.valid 0)
  | .op3Combined => .op3 (fun _ _ _ => none) (.valid 0) (.valid 0) (.valid 0)
  | .cofactors => .cofactors (fun _ => none) (.valid 0)
  | .makeNode => .makeNode (fun _ _ _ => none) (.valid 0) (.valid 0) (.valid 0)
  | .ref => .ref (.valid 0)
  | .unref => .unref (.valid 0)
  | .query => .query [.valid 0]
  | .substNew => .substNew 0
  | .substAddPair => .substAddPair 0 0 (.valid 0)
  | .substitute => .substitute (fun _ _ => none) (.valid 0) (some 0)
  | .substFree => .substFree 0
  | .mgrQuery => .query []
  | .export => .query [.valid 0]
  | .importRoots => .construct (some 0)
  | .noHandles => .query []

/-- the classes that consume are the calls of the model that do (`Ffi.Call.consumes`, the
hypothesis of `Ffi.ffi_args_borrowed`); `manager_unref` releases a *manager* reference -/
theorem ffi_class_model_agrees (c : Class) :
    c.witness.consumes = (c.consumes && c != .managerUnref) := by
  cases c <;> rfl

/-- the generic helpers (`op1 … op3_combined`, exports, `import_into`, the provided methods of
`CManagerRef`) only borrow the handles they receive; `opN` hand their result out through `into()` -/
theorem ffi_helpers_borrow :
    (∀ f ∈ ffiUtilFns, f.borrowOnly [] = true ∧ f.allUsed = true) ∧
    (ffiUtilFns.filter (fun f => f.name.startsWith "op")).map (fun f => (f.name, f.uses.map (·.2), f.intos)) =
      [("op1", [.get], 1), ("op2", [.get, .get], 1), ("op2_var", [.get], 1),
       ("op3", [.get, .get, .get], 1), ("op3_combined", [.get, .get, .get], 1)] ∧
    (∀ g ∈ borrowingCallees, g = "run_in_worker_pool" ∨ ffiUtilFns.any (·.name = g) = true) := by
  refine ⟨?_, ?_, ?_⟩ <;> decide +kernel

/-- the conversions: `get` wraps the `from_raw` in `ManuallyDrop::new` (a borrow), `from` hands the
reference out with `into_raw` and never drops -/
theorem ffi_conversions :
    ffiConvs.length = 15 ∧
    (∀ f ∈ ffiConvs, f.name = "get" → f.fromRawBorrowed = 1 ∧ f.fromRawOwned = 0 ∧ f.drops = 0 ∧
      f.intoInner = 0 ∧ f.forgets = 0 ∧ f.clones = 0) ∧
    (∀ f ∈ ffiConvs, f.name = "from" → f.intos = 1 ∧ f.fromRawOwned = 0 ∧ f.drops = 0 ∧
      f.intoInner = 0 ∧ f.forgets = 0 ∧ f.clones = 0) ∧
    (∀ f ∈ ffiConvs, f.name = "get" ∨ f.name = "from") := by
  refine ⟨?_, ?_, ?_, ?_⟩ <;> decide +kernel

/-- the exports of `util` (errors, strings, numbers, assignments, DDDMP file handles) take no
function or manager handle -/
theorem ffi_util_extern_no_handles : ∀ f ∈ ffiUtilExtern, f.handleTys = [] ∧ f.ret.isHandle = false := by
  decide +kernel

/-- **(b) the wrapper layer is stateless**: the crate declares no `static`, `thread_local!`,
`lazy_static!`, `OnceLock` …, and no function body mentions one -/
theorem ffi_stateless :
    ffiStatics = [] ∧
    (∀ f ∈ ffiFns ++ ffiUtilExtern ++ ffiUtilFns ++ ffiConvs, f.statics = []) := by
  refine ⟨?_, ?_⟩ <;> decide +kernel

/-- **(c) forwarding**: every wrapper calls the Rust API item it is named after (exceptions:
`expectedApi`), helper-shaped wrappers with the parameters in declaration order; the helper-built
operation sets are the documented ones -/
theorem ffi_forwarding_table :
    (∀ f ∈ ffiFns, f.forwards = true ∧ f.orderOk = true) ∧
    opTable ffiFns_bdd = opTableBdd ∧ opTable ffiFns_bcdd = opTableBdd ∧
    opTable ffiFns_zbdd = opTableZbdd := by
  refine ⟨?_, ?_, ?_, ?_⟩ <;> decide +kernel

/-- **(c) the BCDD interface is the BDD interface** (same functions, signatures, shapes, facts) -/
theorem ffi_bcdd_is_bdd : ffiFns_bcdd = ffiFns_bdd.map (Fn.retag .bcdd) := by decide +kernel

/-- **(c) the ZBDD interface** offers the BDD interface without quantification / substitution,
plus the set operations; a common function has the same row, except that `false` forwards to
`empty` and `pick_cube` spells the empty assignment out -/
theorem ffi_zbdd_operation_set :
    sameSet (ffiFns_zbdd.map (·.name))
      ((ffiFns_bdd.map (·.name)).filter (fun n => !zbddLacks.contains n) ++ zbddAdds) = true ∧
    (∀ f ∈ ffiFns_zbdd, f.name = "false" ∨ f.name = "pick_cube" ∨ zbddAdds.contains f.name = true ∨
      (ffiFns_bdd.map (Fn.retag .zbdd)).contains f = true) := by
  refine ⟨?_, ?_⟩ <;> decide +kernel

/-- every exported function keeps its symbol name -/
theorem ffi_all_no_mangle : ∀ f ∈ ffiFns ++ ffiUtilExtern, f.noMangle = true := by decide +kernel

/-! ## non-vacuity: the rules reject what they are meant to reject -/

/-- `oxidd_bdd_imp` as extracted -/
def sampleImp : Fn :=
  { kind := .bdd, name := "imp", args := [("lhs", .func), ("rhs", .func)], ret := .func,
    helper := .op2, api := ["imp"], order := ["lhs", "rhs"], inner := [], consumed := [],
    uses := [("lhs", .helper "op2"), ("rhs", .helper "op2")],
    fromRawOwned := 0, fromRawBorrowed := 0, intoInner := 0, drops := 0, forgets := 0, clones := 0,
    intos := 0, invalids := 0, exclusive := false, statics := [], noMangle := true }

example : sampleImp ∈ ffiFns_bdd := by decide +kernel
example : sampleImp.forwards = true ∧ classify sampleImp = some .op2 ∧ sound [] sampleImp .op2 = true := by decide
/-- swapped operands `op2(rhs, lhs, BDDFunction::imp)` -/
example : ({ sampleImp with order := ["rhs", "lhs"], uses := [("rhs", .helper "op2"), ("lhs", .helper "op2")] }).forwards = false := by decide
/-- the wrong method `op2(lhs, rhs, BDDFunction::imp_strict)` -/
example : ({ sampleImp with api := ["imp_strict"] }).forwards = false := by decide
/-- a wrapper that consults a thread-local memo table is not stateless -/
example : ({ sampleImp with statics := ["thread_local!"] }).statics ≠ [] := by decide
/-- a query that takes its argument over (`F::from_raw` without `ManuallyDrop`) -/
example : sound []
    { sampleImp with
        name := "node_count", helper := .none, args := [("f", .func)], ret := .plain "usize",
        uses := [("f", .rawFrom)], consumed := ["f"], fromRawOwned := 1 } .query = false := by decide
/-- `ref` that forgets to `forget` the clone (the count is unchanged: the caller's second handle dangles) -/
example : sound []
    { sampleImp with
        name := "ref", helper := .none, args := [("f", .func)], uses := [("f", .get), ("f", .ret)],
        clones := 1, forgets := 0 } .ref = false := by decide
/-- `make_node` as before the fix (ownership of `hi`/`lo` taken inside the closure, after `var`) -/
example : sound []
    { sampleImp with
        name := "make_node", helper := .none, args := [("var", .func), ("hi", .func), ("lo", .func)],
        uses := [("var", .get), ("hi", .get), ("lo", .get)], consumed := ["hi", "lo"], intoInner := 2,
        order := ["var", "hi", "lo"], inner := ["var", "hi", "lo"], intos := 1 } .makeNode = false := by decide
/-- a function of an unknown signature (two managers) has no class -/
example : classify
    { sampleImp with
        name := "transfer", helper := .none,
        args := [("from", .mgr), ("to", .mgr), ("f", .func)] } = none := by decide

end OxiddModel.Generated
