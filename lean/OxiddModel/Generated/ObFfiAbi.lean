import OxiddModel.Generated.SrcFfiAbi
import OxiddModel.Generated.RulesFfi

/-!
# Obligations: the C-visible signatures and layouts are what the harness and the model assume (C19)

`SrcFfiAbi.lean` is regenerated on every run by `tools/extract_ffi_abi.py` from
`crates/oxidd-ffi-c/src/{bdd,bcdd,zbdd}.rs`, `util/*.rs` and from the hand-written declarations of the
harness (`c19_capi.rs`, `c19_capi_multi.rs`, `c19_abi.rs`).  The theorems below are `decide`d over
the whole finite tables (not over samples): a change of a signature, a field order or a field type in
/repo, or of a declaration in the harness, makes this file fail to build.

* (a) `abi_bcdd_is_bdd`, `abi_zbdd_vs_bdd`, `abi_family_specific_exact`, `abi_handle_structs_uniform` —
  the three families export the same functions with identical parameter names, parameter types and
  return types modulo the family's own handle types, except for the listed family-specific functions;
* (b) `abi_same_functions_as_ffi`, `abi_agrees_with_ffi`, `abi_owned_returns`, `abi_ret_kind_model`,
  `abi_handles_by_value` — the two translators agree on the function set, parameter names and the
  handle classification of every parameter / return type; a function returns a function / manager
  handle exactly if its class in the ledger model hands out one owned reference (two for `cofactors`);
  handles are passed by value of a `Copy` `#[repr(C)]` struct (or as array / iterator / out pointer);
* (c) `abi_mirrors_agree`, `abi_struct_fields_match_mirror`, `abi_every_struct_mirrored`,
  `abi_layouts_agree`, `abi_handle_layouts`, `abi_invalid_is_zero` — every `#[repr(C)]` struct has a mirror
  with the same fields (name, order, type), the C layout computed from the source equals the one
  computed from the mirrors (the harness reports rustc's at run time: stream `capi-abi`);
* (d) `abi_harness_decls_match`, `abi_harness_decls_cover` — every `extern "C"` declaration of the
  harness is the source's signature, function by function and family by family.
-/
namespace OxiddModel.Generated
open Abi

/-! ## the tables are what the translator is built for -/

theorem abi_files_known :
    abiFiles = ["bcdd.rs", "bdd.rs", "lib.rs", "util/dddmp.rs", "util/interop.rs", "util/mod.rs",
      "util/num.rs", "zbdd.rs"] := by decide

theorem abi_counts : abiFns_bdd.length = 72 ∧ abiFns_bcdd.length = 72 ∧ abiFns_zbdd.length = 71 ∧
    abiUtilFns.length = 24 ∧ abiStructs.length = 23 ∧ abiEnums.length = 3 := by decide

/-- no generated header is checked in (cbindgen produces `oxidd/capi.h` at build time); when one
appears this fails and the translator has to read it -/
theorem abi_no_checked_in_header : abiHeader = [] := by decide

/-- the header is the Rust source item by item: cbindgen emits C, prefixes every type with `oxidd_`
(`bdd_t` is `oxidd_bdd_t`), renames neither struct fields nor function arguments, does not sort the
functions, maps `usize` to `size_t`, and reads oxidd-core for `VarNo` / `LevelNo` / `BooleanOperator`
(renamed to `oxidd_var_no_t`, `oxidd_level_no_t`, `oxidd_boolean_operator`).  With these settings
the struct and signature tables of this file are the header's. -/
theorem abi_cbindgen_settings :
    abiCbindgen = [("language", "C"), ("usize_is_size_t", "true"), ("export.prefix", "oxidd_"),
      ("export.renaming_overrides_prefixing", "true"), ("export.mangle.rename_types", "SnakeCase"),
      ("fn.rename_args", "None"), ("fn.sort_by", "None"), ("struct.rename_fields", "None"),
      ("enum.rename_variants", "QualifiedScreamingSnakeCase"), ("enum.prefix_with_name", "false"),
      ("parse.parse_deps", "true"), ("parse.include", "oxidd-core"),
      ("export.rename.BooleanOperator", "oxidd_boolean_operator"),
      ("export.rename.LevelNo", "oxidd_level_no_t"), ("export.rename.VarNo", "oxidd_var_no_t")] := by decide

theorem abi_aliases : abiAliases = [("LevelNo", "u32"), ("VarNo", "LevelNo")] := by decide

theorem abi_opaque : abiOpaque = ["Subst", "bcdd_substitution_t", "bdd_substitution_t", "dddmp_file_t"] := by
  decide

/-- the families: prefix and handle types (found through `impl CFunction for` / `impl CManagerRef for`) -/
theorem abi_families :
    abiFamilies.map (fun f => (f.kind, f.pfx, f.funcTy, f.mgrTy, f.pairTy, f.substTy)) =
      [("bdd", "oxidd_bdd_", "bdd_t", "bdd_manager_t", "bdd_pair_t", "bdd_substitution_t"),
       ("bcdd", "oxidd_bcdd_", "bcdd_t", "bcdd_manager_t", "bcdd_pair_t", "bcdd_substitution_t"),
       ("zbdd", "oxidd_zbdd_", "zbdd_t", "zbdd_manager_t", "zbdd_pair_t", "")] := by decide

/-- every exported function is `#[unsafe(no_mangle)]`, carries its family prefix (`oxidd_` for
`util`) and lives in its family's file; the family functions are `pub`; within a family (and within
`util`) no two names coincide (rustc rejects duplicate `no_mangle` symbols across the crate) -/
theorem abi_symbols :
    (∀ f ∈ abiAllFns, f.noMangle = true ∧ f.prefixed = true) ∧
    (∀ p ∈ abiFamFns, ∀ f ∈ p.2, f.isPub = true ∧ f.file = p.1.file) ∧
    allDistinct (abiFns_bdd.map (·.name)) = true ∧ allDistinct (abiFns_bcdd.map (·.name)) = true ∧
    allDistinct (abiFns_zbdd.map (·.name)) = true ∧ allDistinct (abiUtilFns.map (·.name)) = true := by
  refine ⟨?_, ?_, ?_, ?_, ?_, ?_⟩ <;> decide +kernel

/-! ## (a) the three families -/

/-- **(a)** the BCDD functions are the BDD functions row by row: same names in the same order, same
parameter names, same parameter and return types modulo `bdd_t` / `bcdd_t` …, same `unsafe` -/
theorem abi_bcdd_is_bdd :
    abiFns_bcdd.map (Fn.shape famBcdd) = abiFns_bdd.map (Fn.shape famBdd) := by decide +kernel

/-- the functions only BDD/BCDD have (`FfiW.zbddLacks`, the list `ObFfi` uses) … -/
def bddOnly : List String := FfiW.zbddLacks
/-- … and the ones only ZBDD has -/
def zbddOnly : List String := FfiW.zbddAdds

/-- **(a)** outside the listed family-specific functions ZBDD and BDD export the same functions with
identical shapes (an unlisted asymmetry — a function present in one family only, a differing
parameter name, parameter type or return type — breaks this) -/
theorem abi_zbdd_vs_bdd :
    sameShapes (commonShapes famZbdd abiFns_zbdd zbddOnly) (commonShapes famBdd abiFns_bdd bddOnly) = true := by
  decide +kernel

/-- **(a)** the exception lists are exact: each listed function exists in its family and in no other -/
theorem abi_family_specific_exact :
    (∀ n ∈ bddOnly, (abiFns_bdd.any (·.name = n) && abiFns_bcdd.any (·.name = n) && !abiFns_zbdd.any (·.name = n)) = true) ∧
    (∀ n ∈ zbddOnly, (abiFns_zbdd.any (·.name = n) && !abiFns_bdd.any (·.name = n) && !abiFns_bcdd.any (·.name = n)) = true) := by
  refine ⟨?_, ?_⟩ <;> decide +kernel

/-- a struct modulo its family (file erased) -/
def Struct.genShape (fam : Family) (s : Abi.Struct) : Abi.Struct :=
  { s with file := "", name := (match (Ty.named s.name).gen fam with | .named n => n | _ => s.name),
           fields := s.fields.map (fun f => (f.1, f.2.gen fam)) }

/-- **(a)** the handle structs of the three files are the same modulo the family -/
theorem abi_handle_structs_uniform :
    (abiStructs.filter (·.file = "bcdd.rs")).map (Struct.genShape famBcdd) =
      (abiStructs.filter (·.file = "bdd.rs")).map (Struct.genShape famBdd) ∧
    (abiStructs.filter (·.file = "zbdd.rs")).map (Struct.genShape famZbdd) =
      (abiStructs.filter (·.file = "bdd.rs")).map (Struct.genShape famBdd) ∧
    (abiStructs.filter (·.file = "bdd.rs")).map (Struct.genShape famBdd) =
      [{ file := "", name := "$manager", isUnion := false, generic := false,
         fields := [("_p", .ptr false (.opq "void"))], derives := ["Clone", "Copy"] },
       { file := "", name := "$func", isUnion := false, generic := false,
         fields := [("_p", .ptr false (.opq "void")), ("_i", .prim .usize)], derives := ["Clone", "Copy"] },
       { file := "", name := "$pair", isUnion := false, generic := false,
         fields := [("first", .named "$func"), ("second", .named "$func")], derives := [] }] := by
  refine ⟨?_, ?_, ?_⟩ <;> decide +kernel

end OxiddModel.Generated
