import OxiddModel.Generated.SrcFfiAbi
import OxiddModel.Generated.ObFfi

/-!
# Obligations (b): the ABI tables against the ownership translator's tables and the ledger model (C19)
See `ObFfiAbi.lean` for the overview.
-/
namespace OxiddModel.Generated
open Abi

/-! ## (b) agreement with the ownership translator and the ledger model -/

/-- **(b)** both translators see the same functions, in the same order -/
theorem abi_same_functions_as_ffi :
    abiFns_bdd.map (·.name) = ffiFns_bdd.map (·.name) ∧
    abiFns_bcdd.map (·.name) = ffiFns_bcdd.map (·.name) ∧
    abiFns_zbdd.map (·.name) = ffiFns_zbdd.map (·.name) ∧
    abiUtilFns.map (·.symbol) = ffiUtilExtern.map (·.name) := by
  refine ⟨?_, ?_, ?_, ?_⟩ <;> decide +kernel

/-- the ownership-relevant classification (`FfiW.Ty`) of a canonical ABI type; everything without a
handle is `.plain ""` -/
def ffiTyOf (fam : Family) (t : Ty) : FfiW.Ty :=
  if t = .named fam.funcTy then .func
  else if t = .named fam.mgrTy then .mgr
  else if t = .named fam.pairTy then .pair
  else if t = .ptr false (.named fam.funcTy) then .funcArr
  else if t = .ptr true (.named fam.funcTy) then .funcOut
  else if t = .app "iter" (.named fam.funcTy) then .funcIter
  else if t = .app "iter" (.app "named" (.named fam.funcTy)) then .namedIter
  else if fam.substTy ≠ "" ∧ t = .ptr false (.opq fam.substTy) then .substC
  else if fam.substTy ≠ "" ∧ t = .ptr true (.opq fam.substTy) then .substM
  else if t = .unit then .unit
  else .plain ""

def FfiW.Ty.erasePlain : FfiW.Ty → FfiW.Ty
  | .plain _ => .plain ""
  | t => t

/-- the row of the ownership translator seen through the ABI translator -/
def agreesWith (fam : Family) (a : Abi.Fn) (f : FfiW.Fn) : Bool :=
  a.name = f.name &&
  a.params.map (fun p => (p.1, ffiTyOf fam p.2)) = f.args.map (fun p => (p.1, p.2.erasePlain)) &&
  ffiTyOf fam a.ret = f.ret.erasePlain && a.noMangle = f.noMangle

/-- **(b)** function by function the two translators agree on the parameter names, on which
parameters are handles of which kind (by value, array, out array, iterator, substitution object) and
on the kind of the return value -/
theorem abi_agrees_with_ffi :
    (abiFns_bdd.zip ffiFns_bdd).all (fun p => agreesWith famBdd p.1 p.2) = true ∧
    (abiFns_bcdd.zip ffiFns_bcdd).all (fun p => agreesWith famBcdd p.1 p.2) = true ∧
    (abiFns_zbdd.zip ffiFns_zbdd).all (fun p => agreesWith famZbdd p.1 p.2) = true := by
  refine ⟨?_, ?_, ?_⟩ <;> decide +kernel

/-- what a call hands out to the client -/
inductive RetKind where
  /-- one owned function reference (`oxidd_<k>_t` by value; INVALID when the operation fails) -/
  | func
  /-- one owned manager reference (`oxidd_<k>_manager_t` by value) -/
  | mgr
  /-- two owned function references (`oxidd_<k>_pair_t` by value) -/
  | pair
  /-- a fresh substitution object -/
  | subst
  /-- no reference -/
  | nothing
deriving DecidableEq, Repr

def retKindOfTy (fam : Family) (t : Ty) : RetKind :=
  if t = .named fam.funcTy then .func
  else if t = .named fam.mgrTy then .mgr
  else if t = .named fam.pairTy then .pair
  else if fam.substTy ≠ "" ∧ t = .ptr true (.opq fam.substTy) then .subst
  else .nothing

/-- what the classes of the ledger model (`Ffi/Model.lean`, `FfiW.Class`) hand out -/
def FfiW.Class.retKind : FfiW.Class → RetKind
  | .managerNew | .managerRef | .containingManager => .mgr
  | .construct | .op1 | .op2 | .op2Var | .op3 | .op3Combined | .makeNode | .ref | .substitute => .func
  | .cofactors => .pair
  | .substNew => .subst
  | _ => .nothing

def ownedOk (fam : Family) (a : Abi.Fn) (f : FfiW.Fn) : Bool :=
  match FfiW.classify f with
  | some c => retKindOfTy fam a.ret = c.retKind
  | none => false

/-- **(b)** a function returns a function handle / manager handle / pair by value exactly if its class
in the ledger model is one that hands out one owned function reference / one owned manager
reference / two owned function references; everything else returns no handle -/
theorem abi_owned_returns :
    (abiFns_bdd.zip ffiFns_bdd).all (fun p => ownedOk famBdd p.1 p.2) = true ∧
    (abiFns_bcdd.zip ffiFns_bcdd).all (fun p => ownedOk famBcdd p.1 p.2) = true ∧
    (abiFns_zbdd.zip ffiFns_zbdd).all (fun p => ownedOk famZbdd p.1 p.2) = true := by
  refine ⟨?_, ?_, ?_⟩ <;> decide +kernel

/-- **(b)** `Class.retKind` is what the ledger machine does, for every state: the call a class
stands for (`FfiW.Class.witness`) returns exactly one handle for `func`, two for `pair`, none
otherwise, and the classes of kind `mgr` add exactly one manager reference to the client's ledger
(all other classes except `manager_unref` leave the manager references unchanged).
`manager_import_dddmp` is the one class that hands references out through an out array (`funcOut`
parameter, return value `bool`): the model runs one `construct` per root, so it is excluded here. -/
theorem abi_ret_kind_model (c : FfiW.Class) (hc : c ≠ .importRoots) (cfg : Ffi.Cfg) (s s' : Ffi.State Nat)
    (r : Ffi.Ret Nat) (h : Ffi.step cfg s c.witness = some (s', r)) :
    r.handles.length = (match c.retKind with | .func => 1 | .pair => 2 | _ => 0) ∧
    s'.led.mrefs = (if c.retKind = .mgr then s.led.mrefs + 1
      else if c = .managerUnref then s.led.mrefs - 1 else s.led.mrefs) := by
  cases c <;> simp only [FfiW.Class.witness, Ffi.step] at h <;>
    (repeat' split at h) <;> (try (simp at h)) <;>
    (try (obtain ⟨rfl, rfl⟩ := h)) <;>
    simp_all [FfiW.Class.retKind, Ffi.Ret.handles, Ffi.Ledger.acquire, Ffi.Ledger.release]

/-- non-vacuity: the machine does accept the witness calls (a client holding one manager reference) -/
example : ∃ s' r, Ffi.step Ffi.Cfg.current
    ({ rc := { nodes := [], mgr := 1 }, led := { funcs := [], mrefs := 1, substIds := [], pairs := [] } } : Ffi.State Nat)
    (FfiW.Class.witness .construct) = some (s', r) ∧ r.handles.length = 1 := ⟨_, _, rfl, rfl⟩

/-- the out-array class: only `manager_import_dddmp`, in each family -/
theorem abi_out_arrays :
    ∀ p ∈ abiFamFns, (p.2.filter fun f => f.params.any fun q => q.2 = .ptr true (.named p.1.funcTy)).map (·.name) =
      ["manager_import_dddmp"] := by decide +kernel

/-- by-value handle parameters of a function -/
def byValueHandles (fam : Family) (a : Abi.Fn) : List String :=
  (a.params.filter (fun p => p.2 = .named fam.funcTy || p.2 = .named fam.mgrTy)).map (·.1)

def handlesByValueOk (fam : Family) (a : Abi.Fn) (f : FfiW.Fn) : Bool :=
  a.params.all (fun p => fam.paramShapeOk p.2) && fam.retShapeOk a.ret &&
  -- what is taken over is a by-value handle or the substitution object
  f.consumed.all (fun n => (byValueHandles fam a).contains n || n = "substitution")

/-- **(b)** handles cross the boundary by value of the `#[repr(C)]` `Copy` struct (never by pointer to a
single handle; arrays, out arrays and iterators are the only indirections), a pair only as a return
value; passing a handle does not move it (`Copy`), the functions that take a reference over are
`ObFfi.ffi_only_documented_consume`'s -/
theorem abi_handles_by_value :
    (abiFns_bdd.zip ffiFns_bdd).all (fun p => handlesByValueOk famBdd p.1 p.2) = true ∧
    (abiFns_bcdd.zip ffiFns_bcdd).all (fun p => handlesByValueOk famBcdd p.1 p.2) = true ∧
    (abiFns_zbdd.zip ffiFns_zbdd).all (fun p => handlesByValueOk famZbdd p.1 p.2) = true ∧
    (∀ fam ∈ abiFamilies, ∀ n ∈ [fam.funcTy, fam.mgrTy],
      (abiStructs.any fun s => s.name = n && !s.generic && !s.isUnion && s.derives = ["Clone", "Copy"]) = true) ∧
    (∀ f ∈ abiUtilFns, ∀ fam ∈ abiFamilies,
      (f.params.all (fun p => !p.2.mentions fam.handleNames) && !f.ret.mentions fam.handleNames) = true) := by
  refine ⟨?_, ?_, ?_, ?_, ?_⟩ <;> decide +kernel

end OxiddModel.Generated
