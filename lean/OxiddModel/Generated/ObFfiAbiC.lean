import OxiddModel.Generated.SrcFfiAbi

/-!
# Obligations (c), (d): structs against mirrors, layouts, the harness's declarations (C19)
See `ObFfiAbi.lean` for the overview.
-/
namespace OxiddModel.Generated
open Abi

/-! ## (c) structs, mirrors, layouts -/

def Struct.core (s : Abi.Struct) : String × Bool × Bool × List (String × Ty) :=
  (s.name, s.isUnion, s.generic, s.fields)

/-- **(c)** the three harness files declare the same mirrors (c19_abi.rs adds `CSlice`) -/
theorem abi_mirrors_agree :
    hMirrors_multi.map Struct.core = hMirrors_capi.map Struct.core ∧
    hMirrors_abi.map Struct.core = hMirrors_capi.map Struct.core ++
      [("CSlice", false, true, [("ptr", .ptr false .param), ("len", .prim .usize)])] := by
  refine ⟨?_, ?_⟩ <;> decide +kernel

def mirrorGeneric (n : String) : Bool := hMirrors_abi.any fun s => s.name = n && s.generic

/-- field renamings of the mirrors beyond a dropped leading underscore -/
def mirrorRenamed : List (String × String) := [("added_vars", "added")]

/-- head and argument of a struct type -/
def Ty.headArg : Ty → Option (String × Option Ty)
  | .named n => some (n, none)
  | .app n a => some (n, some a)
  | _ => none

/-- the fields of a struct type instance -/
def fieldsOf (ss : List Abi.Struct) (t : Ty) : Option (List (String × Ty)) :=
  match Ty.headArg t with
  | some (n, arg) =>
    match ss.find? (·.name = n), arg with
    | some s, none => if s.generic then none else some s.fields
    | some s, some a => if s.generic then some (s.fields.map fun f => (f.1, f.2.subst a)) else none
    | none, _ => none
  | none => none

/-- one row of the mirror table: the source struct and the mirror have the same fields — same
number, same order, names equal modulo a leading underscore (and `mirrorRenamed`), types equal after
translating source names to mirror names — and the row lists the mirror's fields for `offset_of!` -/
def rowOk (r : MirrorRow) : Bool :=
  match fieldsOf abiStructs r.cty, fieldsOf hMirrors_abi r.mirror with
  | some sf, some mf =>
    sf.length = mf.length && r.fields = mf.map (·.1) &&
    (sf.zip mf).all fun p =>
      sameFieldName mirrorRenamed p.1.1 p.2.1 &&
      p.1.2.toMirror abiMirrorOf abiEnums mirrorGeneric = some p.2.2
  | none, none =>
    -- an enum against its integer type
    (match r.cty, r.mirror with
     | .named n, .prim p => (abiEnums.any fun e => e.name = n && e.repr = p) && r.fields = []
     | _, _ => false)
  | _, _ => false

/-- **(c)** every `#[repr(C)]` struct of the source has exactly the fields its mirror declares: name,
order, type (a field reorder or type change in /repo breaks this) -/
theorem abi_struct_fields_match_mirror : ∀ r ∈ abiMirrorTable, rowOk r = true := by decide +kernel

/-- the handle structs: field names agree modulo the leading underscore only -/
theorem abi_handle_fields_exact :
    ∀ r ∈ abiMirrorTable, ∀ fam ∈ abiFamilies, r.cty = .named fam.funcTy →
      r.mirror = .named "CF" ∧ r.fields = ["p", "i"] ∧
      fieldsOf abiStructs r.cty = some [("_p", .ptr false (.opq "void")), ("_i", .prim .usize)] := by
  decide +kernel

/-- **(c)** every `#[repr(C)]` struct and every enum of the source is in the mirror table (a new struct
in /repo needs a mirror), and the table maps each source name to one mirror -/
theorem abi_every_struct_mirrored :
    (∀ s ∈ abiStructs, (abiMirrorTable.any fun r => (Ty.headArg r.cty).map (·.1) = some s.name) = true) ∧
    (∀ e ∈ abiEnums, (abiMirrorTable.any fun r => r.cty = .named e.name) = true) ∧
    allDistinct (abiMirrorOf.map (·.1)) = true := by
  refine ⟨?_, ?_, ?_⟩ <;> decide +kernel

/-- **(c)** for every row the C layout (size, alignment, field offsets) computed from the *source*
field types equals the one computed from the *mirror* field types — which is what `size_of`,
`align_of`, `offset_of!` of the mirrors report at run time (stream `capi-abi`, line by line) -/
theorem abi_layouts_agree :
    ∀ r ∈ abiMirrorTable,
      (layoutOf abiStructs abiEnums r.cty).isSome = true ∧
      layoutOf abiStructs abiEnums r.cty = layoutOf hMirrors_abi [] r.mirror := by decide +kernel

/-- **(c)** the handle types: 16 bytes / 8 bytes / 32 bytes, 8-aligned, `_p` at 0, `_i` at 8,
`first` at 0, `second` at 16, in each family -/
theorem abi_handle_layouts :
    ∀ fam ∈ abiFamilies,
      layoutOf abiStructs abiEnums (.named fam.funcTy) = some (⟨16, 8⟩, [0, 8]) ∧
      layoutOf abiStructs abiEnums (.named fam.mgrTy) = some (⟨8, 8⟩, [0]) ∧
      layoutOf abiStructs abiEnums (.named fam.pairTy) = some (⟨32, 8⟩, [0, 16]) := by decide +kernel

/-- **(c)** the INVALID handle is the all-zero struct: `_p = null()`, `_i = 0`, initialised in field order -/
theorem abi_invalid_is_zero :
    ∀ fam ∈ abiFamilies, fam.invalid = [("_p", 0), ("_i", 0)] ∧
      (fieldsOf abiStructs (.named fam.funcTy)).map (·.map (·.1)) = some (fam.invalid.map (·.1)) := by
  decide +kernel

/-- the enums that cross the boundary have the discriminants the C side relies on -/
theorem abi_enums :
    abiEnums.map (fun e => (e.name, e.repr, e.variants.map (·.2))) =
      [("partial_ordering", .i8, [-1, 0, 1, -128]), ("dddmp_version", .u8, [0, 1]),
       ("BooleanOperator", .u8, [0, 1, 2, 3, 4, 5, 6, 7])] := by decide +kernel

/-! ## (d) the harness's `extern "C"` declarations -/

/-- one declaration against the source: a per-family symbol must match in every family that exports
it and may be missing only if declared optional; a common symbol must exist -/
def declOk (d : HDecl) : Bool :=
  if d.perFamily then
    abiFamFns.all fun p =>
      match p.2.find? (·.name = d.symbol) with
      | some f => f.mirrorTy abiMirrorOf abiEnums mirrorGeneric = some d.ty
      | none => d.optional
  else
    match abiUtilFns.find? (·.symbol = d.symbol) with
    | some f => !d.optional && f.mirrorTy abiMirrorOf abiEnums mirrorGeneric = some d.ty
    | none => false

/-- **(d)** every `extern "C"` declaration of the harness is the source's signature (parameter types in
order and return type, through the mirror correspondence, constness of pointers included), in every
family; an optional symbol is one that some family does not export, a required one is exported by
all three; both call-sequence scenarios declare the same, the layout scenario c19_abi.rs a subset -/
theorem abi_harness_decls_match :
    (∀ d ∈ hDecls_capi, declOk d = true) ∧ hDecls_multi = hDecls_capi ∧
    (∀ d ∈ hDecls_abi, declOk d = true ∧ d.optional = false) ∧
    (∀ d ∈ hDecls_capi, d.perFamily = true →
      d.optional = !(abiFamFns.all fun p => p.2.any (·.name = d.symbol))) := by
  refine ⟨?_, ?_, ?_, ?_⟩ <;> decide +kernel

/-- the exported functions the harness does not declare (and hence never calls) -/
def undeclaredFamily (fs : List Abi.Fn) : List String :=
  fs.filterMap fun f =>
    if hDecls_capi.any (fun d => d.perFamily && d.symbol = f.name) then none else some f.name

def undeclaredUtil : List String :=
  abiUtilFns.filterMap fun f =>
    if hDecls_capi.any (fun d => !d.perFamily && d.symbol = f.symbol) then none else some f.symbol

/-- **(d)** coverage: the exported functions without a harness declaration are exactly the listed ones
(a new function in /repo lands here and breaks the obligation until it is declared or listed), and
even those use only types that have a mirror (their signature can be written down in the harness) -/
theorem abi_harness_decls_cover :
    undeclaredFamily abiFns_bdd = ["manager_visualize", "manager_visualize_iter",
      "manager_visualize_with_names_iter", "print_stats"] ∧
    undeclaredFamily abiFns_bcdd = undeclaredFamily abiFns_bdd ∧
    undeclaredFamily abiFns_zbdd = undeclaredFamily abiFns_bdd ∧
    undeclaredUtil = ["oxidd_error_clone", "oxidd_string_clone", "oxidd_dddmp_diagram_name",
      "oxidd_dddmp_num_nodes", "oxidd_dddmp_num_vars", "oxidd_dddmp_num_support_vars",
      "oxidd_dddmp_support_vars", "oxidd_dddmp_support_var_order", "oxidd_dddmp_support_var_to_level",
      "oxidd_dddmp_has_var_names", "oxidd_dddmp_var_name", "oxidd_dddmp_has_root_names",
      "oxidd_dddmp_root_name", "oxidd_natural_eq", "oxidd_natural_cmp", "oxidd_natural_clone"] ∧
    (∀ f ∈ abiAllFns, (f.mirrorTy abiMirrorOf abiEnums mirrorGeneric).isSome = true) := by
  refine ⟨?_, ?_, ?_, ?_, ?_⟩ <;> decide +kernel

/-! ## non-vacuity: the rules reject what they are meant to reject -/

/-- `oxidd_bdd_t` with its fields swapped is laid out differently … -/
example : layoutOf
    [{ file := "bdd.rs", name := "bdd_t", isUnion := false, generic := false,
       fields := [("_i", .prim .u32), ("_p", .ptr false (.opq "void"))], derives := [] }] []
    (.named "bdd_t") = some (⟨16, 8⟩, [0, 8]) := by decide
/-- … padding is inserted where C inserts it (`bool` then `u32`; `u32` then pointer; trailing) -/
example : layoutOf
    [{ file := "", name := "s", isUnion := false, generic := false,
       fields := [("a", .prim .bool), ("b", .prim .u32), ("c", .ptr true (.prim .u8)), ("d", .prim .u16)], derives := [] }] []
    (.named "s") = some (⟨24, 8⟩, [0, 4, 8, 16]) := by decide
/-- a union overlays its fields -/
example : layoutOf
    [{ file := "", name := "u", isUnion := true, generic := false,
       fields := [("a", .prim .u8), ("b", .prim .u64), ("c", .prim .u16)], derives := [] }] []
    (.named "u") = some (⟨8, 8⟩, [0, 0, 0]) := by decide
/-- a row whose mirror has the fields in the other order is rejected -/
example : rowOk { cname := "bdd_t", cty := .named "bdd_t", mirror := .named "CStr", fields := ["ptr", "len"] } = false := by
  decide +kernel
/-- a declaration with one parameter of the wrong width is rejected (`manager_new(usize, usize, u64)`) -/
example : declOk
    { field := "manager_new", symbol := "manager_new", perFamily := true, ty := .fnptr false (.acons (.prim .usize) (.acons (.prim .usize) (.acons (.prim .u64) .anil))) (.named "CM"), optional := false } = false := by
  decide +kernel
/-- … the real one is accepted -/
example : declOk
    { field := "manager_new", symbol := "manager_new", perFamily := true, ty := .fnptr false (.acons (.prim .usize) (.acons (.prim .usize) (.acons (.prim .u32) .anil))) (.named "CM"), optional := false } = true := by
  decide +kernel
/-- a required declaration of a function that ZBDD does not export is rejected -/
example : declOk
    { field := "forall", symbol := "forall", perFamily := true, ty := .fnptr false (.acons (.named "CF") (.acons (.named "CF") .anil)) (.named "CF"), optional := false } = false := by
  decide +kernel

end OxiddModel.Generated
