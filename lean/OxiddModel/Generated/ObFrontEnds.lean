import OxiddModel.Generated.SrcFrontEnds
import OxiddModel.Generated.LemmasFrontEnds

/-!
# Obligations: the sequential and the multi-threaded front ends compute the same functions (C20)

`SrcFrontEnds.lean` is regenerated on every run from every trait method of `BDDFunction` /
`BDDFunctionMT` (`oxidd-rules-bdd/src/simple/apply_rec.rs`), `BCDDFunction` / `BCDDFunctionMT`
(`complement_edge/apply_rec.rs`), `ZBDDFunction` / `ZBDDFunctionMT` (`oxidd-rules-zbdd`),
`MTBDDFunction`, `TDDFunction`, from `apply_quant_dispatch` of the simple BDD rules, from the
`type FunctionInner = …` selections of the crate `oxidd` and from `ParallelRecursor::new`.

The two copies of a front end are separate code; a defect in one of them is invisible to every
check that runs one build configuration.  Here:

* `frontends_agree` (`decide`): every method of the multi-threaded front end evaluates to the same
  expression as the sequential one — same kernel, same operator constant, same operand order, same
  negations — up to the recursor; `frontends_recursors`: the sequential copy passes only
  `SequentialRecursor`, the other only `ParallelRecursor::new(manager)`, whose split depth is
  `manager.workers().split_depth()` and which switches to the sequential recursor at depth 0;
  MTBDD and TDD have a single front end (`frontends_single`), selected under every configuration
  (`frontend_selection`).
* `frontend_*_as_modelled` (general, for all operands): the extracted body of each connective /
  quantifier / set operation, with the kernels read as the model's functions, **is** the model's
  operator table (`Bdd.applyBin op`, `Bcdd.applyOp op`, `Zbdd.applyBin n op`, `Mtbdd.applyBin L op`,
  `Tdd.applyBin gt op`, `Bdd.quant`, `Bdd.applyQuant`, `Bcdd.applyQuantOp`, `Zbdd.union / intsec /
  diff / subset / restrict`, the `ite`s).  With `frontends_agree` this holds for both builds.
-/
namespace OxiddModel.Generated
open Fe

theorem frontends_nothing_unparsed : frontEndsUnparsed = [] := by decide

/-- **Both front ends of BDD, BCDD and ZBDD evaluate every method to the same kernel call** (same
kernel, operator constants, operand order, negations, numeric operands), up to the recursor. -/
theorem frontends_agree :
    Fe.agree frontEnd_bdd frontEnd_bddMT = true ∧
    Fe.agree frontEnd_bcdd frontEnd_bcddMT = true ∧
    Fe.agree frontEnd_zbdd frontEnd_zbddMT = true := by decide

/-- MTBDD and TDD have one front end only: both build configurations run the same code -/
theorem frontends_single : frontEnd_mtbddMT = none ∧ frontEnd_tddMT = none ∧
    frontEnd_mtbdd.isSome = true ∧ frontEnd_tdd.isSome = true := by decide

/-- the sequential copies pass `SequentialRecursor` everywhere, the multi-threaded copies
`ParallelRecursor::new(manager)`; MTBDD / TDD kernels take no recursor -/
theorem frontends_recursors :
    Fe.recsOK .seq frontEnd_bdd = true ∧ Fe.recsOK .par frontEnd_bddMT = true ∧
    Fe.recsOK .seq frontEnd_bcdd = true ∧ Fe.recsOK .par frontEnd_bcddMT = true ∧
    Fe.recsOK .seq frontEnd_zbdd = true ∧ Fe.recsOK .par frontEnd_zbddMT = true ∧
    Fe.recsOK .none frontEnd_mtbdd = true ∧ Fe.recsOK .none frontEnd_tdd = true := by decide

/-- the parallel recursor starts with the worker pool's split depth and hands over to the
sequential recursor (which never switches) when the depth is used up -/
theorem frontend_recursor_depth :
    frontEndRecursor =
      [("oxidd-rules-bdd", "manager.workers().split_depth()"),
       ("oxidd-rules-bdd switch", "false | self.remaining_depth==0"),
       ("oxidd-rules-zbdd", "manager.workers().split_depth()"),
       ("oxidd-rules-zbdd switch", "false | self.remaining_depth==0")] := by decide

/-- the crate `oxidd` selects the sequential front end without the feature `multi-threading`, the
multi-threaded one with it, for both manager flavours; MTBDD / TDD: always the single one -/
theorem frontend_selection :
    frontEndSelection =
      [("bdd", "index", "seq", "BDDFunction"), ("bdd", "index", "mt", "BDDFunctionMT"),
       ("bdd", "pointer", "seq", "BDDFunction"), ("bdd", "pointer", "mt", "BDDFunctionMT"),
       ("bcdd", "index", "seq", "BCDDFunction"), ("bcdd", "index", "mt", "BCDDFunctionMT"),
       ("bcdd", "pointer", "seq", "BCDDFunction"), ("bcdd", "pointer", "mt", "BCDDFunctionMT"),
       ("zbdd", "index", "seq", "ZBDDFunction"), ("zbdd", "index", "mt", "ZBDDFunctionMT"),
       ("zbdd", "pointer", "seq", "ZBDDFunction"), ("zbdd", "pointer", "mt", "ZBDDFunctionMT"),
       ("mtbdd", "index", "always", "MTBDDFunction"),
       ("tdd", "index", "always", "TDDFunction"), ("tdd", "pointer", "always", "TDDFunction")] := by decide

/-- the methods with a body of their own (not a kernel call) in the sequential front ends -/
theorem frontend_own_methods :
    ((frontEnd_bdd.getD []).filter (·.body == .own)).map (·.method) =
      ["var_edge", "not_var_edge", "sat_count_edge", "pick_cube_edge", "pick_cube_dd_edge",
       "pick_cube_dd_set_edge", "eval_edge"] ∧
    ((frontEnd_bcdd.getD []).filter (·.body == .own)).map (·.method) =
      ["var_edge", "sat_count_edge", "pick_cube_edge", "pick_cube_dd_edge", "pick_cube_dd_set_edge", "eval_edge"] ∧
    ((frontEnd_zbdd.getD []).filter (·.body == .own)).map (·.method) =
      ["singleton_edge", "var_edge", "sat_count_edge", "pick_cube_edge", "pick_cube_dd_edge",
       "pick_cube_dd_set_edge", "eval_edge"] ∧
    ((frontEnd_mtbdd.getD []).filter (·.body == .own)).map (·.method) = ["var_edge", "eval_edge"] ∧
    ((frontEnd_tdd.getD []).filter (·.body == .own)).map (·.method) = ["var_edge", "eval_edge"] := by decide

/-! ## simple BDDs -/

/-- **`and_edge … imp_strict_edge` are `Bdd.applyBin op lhs rhs`** — for all operands -/
theorem frontend_bdd_binary (o : BOp8) (ps : Nat → Bdd.BDD) (op : Bdd.Op) :
    Fe.denBdd ps op (Fe.body frontEnd_bdd o.method) = some (Bdd.applyBin o.bdd (ps 0) (ps 1)) := by
  cases o <;> rfl

theorem frontend_bdd_not_ite_restrict (ps : Nat → Bdd.BDD) (op : Bdd.Op) :
    Fe.denBdd ps op (Fe.body frontEnd_bdd "not_edge") = some (Bdd.applyNot (ps 0)) ∧
    Fe.denBdd ps op (Fe.body frontEnd_bdd "ite_edge") = some (Bdd.applyIte (ps 0) (ps 1) (ps 2)) ∧
    Fe.denBdd ps op (Fe.body frontEnd_bdd "restrict_edge") = some (Bdd.restrict (ps 0) (ps 1)) ∧
    Fe.denBdd ps op (Fe.body frontEnd_bdd "t_edge") = some (.leaf true) ∧
    Fe.denBdd ps op (Fe.body frontEnd_bdd "f_edge") = some (.leaf false) :=
  ⟨rfl, rfl, rfl, rfl, rfl⟩

/-- `forall_edge / exists_edge / unique_edge` are `Bdd.quant q root vars` -/
theorem frontend_bdd_quant (q : Q3) (ps : Nat → Bdd.BDD) (op : Bdd.Op) :
    Fe.denBdd ps op (Fe.body frontEnd_bdd q.method) = some (Bdd.quant q.bdd (ps 0) (ps 1)) := by
  cases q <;> rfl

/-- `apply_forall_edge / apply_exists_edge / apply_unique_edge(op, lhs, rhs, vars)` are
`Bdd.applyQuant q op lhs rhs vars` (the dispatcher is `frontend_bdd_dispatch`) -/
theorem frontend_bdd_apply_quant (q : Q3) (ps : Nat → Bdd.BDD) (op : Bdd.Op) :
    Fe.denBdd ps op (Fe.body frontEnd_bdd q.applyMethod) = some (Bdd.applyQuant q.bdd op (ps 1) (ps 2) (ps 3)) := by
  cases q <;> rfl

/-- `apply_quant_dispatch`: the arm of each `BooleanOperator` calls `apply_quant::<Q, that operator>(f, g, vars)` -/
theorem frontend_bdd_dispatch (o : BOp8) (q : Bdd.Quant) (f g vars : Bdd.BDD) :
    (frontEndDispatch_bdd.lookup (match o with
        | .and => "And" | .or => "Or" | .nand => "Nand" | .nor => "Nor" | .xor => "Xor"
        | .equiv => "Equiv" | .imp => "Imp" | .impStrict => "ImpStrict")).bind (Fe.denBddDispatch q f g vars) =
      some (Bdd.applyQuant q o.bdd f g vars) ∧ frontEndDispatch_bdd.length = 8 := by
  cases o <;> exact ⟨rfl, rfl⟩

/-! ## BCDDs -/

/-- **`and_edge … imp_strict_edge` are `Bcdd.applyOp op lhs rhs`** (`apply_and` / `apply_bin::<Xor>`
plus complement tags) — for all operands -/
theorem frontend_bcdd_binary (o : BOp8) (ps : Nat → Bcdd.Edge) (op : Bcdd.Op) :
    Fe.denBcdd ps op (Fe.body frontEnd_bcdd o.method) = some (Bcdd.applyOp o.bcdd (ps 0) (ps 1)) := by
  cases o <;> rfl

theorem frontend_bcdd_not_ite_restrict (ps : Nat → Bcdd.Edge) (op : Bcdd.Op) :
    Fe.denBcdd ps op (Fe.body frontEnd_bcdd "not_edge") = some (Bcdd.applyNot (ps 0)) ∧
    Fe.denBcdd ps op (Fe.body frontEnd_bcdd "not_edge_owned") = some (Bcdd.applyNot (ps 0)) ∧
    Fe.denBcdd ps op (Fe.body frontEnd_bcdd "ite_edge") = some (Bcdd.applyIte (ps 0) (ps 1) (ps 2)) ∧
    Fe.denBcdd ps op (Fe.body frontEnd_bcdd "restrict_edge") = some (Bcdd.restrict (ps 0) (ps 1)) ∧
    Fe.denBcdd ps op (Fe.body frontEnd_bcdd "t_edge") = some (Bcdd.terminal true) ∧
    Fe.denBcdd ps op (Fe.body frontEnd_bcdd "f_edge") = some (Bcdd.terminal false) :=
  ⟨rfl, rfl, rfl, rfl, rfl, rfl⟩

theorem frontend_bcdd_quant (q : Q3) (ps : Nat → Bcdd.Edge) (op : Bcdd.Op) :
    Fe.denBcdd ps op (Fe.body frontEnd_bcdd q.method) = some (Bcdd.quant q.bcdd (ps 0) (ps 1)) := by
  cases q <;> rfl

/-- `apply_forall_edge / apply_exists_edge / apply_unique_edge` are `Bcdd.applyQuantOp q op` (the
dispatch tables themselves are `dispatchRows` / `dispatchUniqueRows` of `SrcFacts.lean`) -/
theorem frontend_bcdd_apply_quant (q : Q3) (ps : Nat → Bcdd.Edge) (op : Bcdd.Op) :
    Fe.denBcdd ps op (Fe.body frontEnd_bcdd q.applyMethod) = some (Bcdd.applyQuantOp q.bcdd op (ps 1) (ps 2) (ps 3)) := by
  cases q <;> rfl

/-! ## ZBDDs -/

/-- **`and_edge … imp_strict_edge` are `Zbdd.applyBin n op lhs rhs`** (intersection, union, symmetric
difference, `rhs ∖ lhs`, complements against the tautology, `ite(lhs, rhs, ⊤)`) — for all operands -/
theorem frontend_zbdd_binary (o : BOp8) (n : Nat) (ps : Nat → Zbdd.ZDD) (v2l : Nat → Nat) (var : Nat) :
    Fe.denZbdd n ps v2l var (Fe.body frontEnd_zbdd o.method) = some (Zbdd.applyBin n o.zbdd (ps 0) (ps 1)) := by
  cases o <;> rfl

/-- the set operations of `BooleanVecSet`: `union / intsec / diff` in this operand order,
`subset0 / subset1 / change` on the level of the variable -/
theorem frontend_zbdd_set_ops (n : Nat) (ps : Nat → Zbdd.ZDD) (v2l : Nat → Nat) (var : Nat) :
    Fe.denZbdd n ps v2l var (Fe.body frontEnd_zbdd "union_edge") = some (Zbdd.union (ps 0) (ps 1)) ∧
    Fe.denZbdd n ps v2l var (Fe.body frontEnd_zbdd "intsec_edge") = some (Zbdd.intsec (ps 0) (ps 1)) ∧
    Fe.denZbdd n ps v2l var (Fe.body frontEnd_zbdd "diff_edge") = some (Zbdd.diff (ps 0) (ps 1)) ∧
    Fe.denZbdd n ps v2l var (Fe.body frontEnd_zbdd "subset0_edge") = some (Zbdd.subset .subset0 (v2l var) (ps 0)) ∧
    Fe.denZbdd n ps v2l var (Fe.body frontEnd_zbdd "subset1_edge") = some (Zbdd.subset .subset1 (v2l var) (ps 0)) ∧
    Fe.denZbdd n ps v2l var (Fe.body frontEnd_zbdd "change_edge") = some (Zbdd.subset .change (v2l var) (ps 0)) :=
  ⟨rfl, rfl, rfl, rfl, rfl, rfl⟩

theorem frontend_zbdd_not_ite_restrict (n : Nat) (ps : Nat → Zbdd.ZDD) (v2l : Nat → Nat) (var : Nat) :
    Fe.denZbdd n ps v2l var (Fe.body frontEnd_zbdd "not_edge") = some (Zbdd.applyNot n (ps 0)) ∧
    Fe.denZbdd n ps v2l var (Fe.body frontEnd_zbdd "ite_edge") = some (Zbdd.applyIte n (ps 0) (ps 1) (ps 2)) ∧
    Fe.denZbdd n ps v2l var (Fe.body frontEnd_zbdd "restrict_edge") = some (Zbdd.restrictTop n (ps 0) (ps 1)) ∧
    Fe.denZbdd n ps v2l var (Fe.body frontEnd_zbdd "t_edge") = some (Zbdd.taut n 0) ∧
    Fe.denZbdd n ps v2l var (Fe.body frontEnd_zbdd "f_edge") = some .empty ∧
    Fe.denZbdd n ps v2l var (Fe.body frontEnd_zbdd "empty_edge") = some .empty ∧
    Fe.denZbdd n ps v2l var (Fe.body frontEnd_zbdd "base_edge") = some .base :=
  ⟨rfl, rfl, rfl, rfl, rfl, rfl, rfl⟩

/-! ## MTBDDs, TDDs -/

/-- `add_edge … max_edge` are `Mtbdd.applyBin L op lhs rhs`, for any terminal type -/
theorem frontend_mtbdd_binary {T : Type} [DecidableEq T] (L : Mtbdd.TermOps T) (o : AOp6) (ps : Nat → Mtbdd.MT T) :
    Fe.denMtbdd L ps (Fe.body frontEnd_mtbdd o.method) = some (Mtbdd.applyBin L o.mtbdd (ps 0) (ps 1)) := by
  cases o <;> rfl

theorem frontend_mtbdd_ite_restrict {T : Type} [DecidableEq T] (L : Mtbdd.TermOps T) (ps : Nat → Mtbdd.MT T) :
    Fe.denMtbdd L ps (Fe.body frontEnd_mtbdd "ite_edge") = some (Mtbdd.applyIte L (ps 0) (ps 1) (ps 2)) ∧
    Fe.denMtbdd L ps (Fe.body frontEnd_mtbdd "restrict_edge") = some (Mtbdd.restrict L (ps 0) (ps 1)) :=
  ⟨rfl, rfl⟩

/-- the TDD connectives are `Tdd.applyBin gt op lhs rhs` -/
theorem frontend_tdd_binary (gt : Tdd.TD → Tdd.TD → Bool) (o : BOp8) (ps : Nat → Tdd.TD) :
    Fe.denTdd gt ps (Fe.body frontEnd_tdd o.method) = some (Tdd.applyBin gt o.tdd (ps 0) (ps 1)) := by
  cases o <;> rfl

theorem frontend_tdd_not_ite (gt : Tdd.TD → Tdd.TD → Bool) (ps : Nat → Tdd.TD) :
    Fe.denTdd gt ps (Fe.body frontEnd_tdd "not_edge") = some (Tdd.applyNot (ps 0)) ∧
    Fe.denTdd gt ps (Fe.body frontEnd_tdd "ite_edge") = some (Tdd.applyIte gt (ps 0) (ps 1) (ps 2)) ∧
    Fe.denTdd gt ps (Fe.body frontEnd_tdd "t_edge") = some (.leaf .t) ∧
    Fe.denTdd gt ps (Fe.body frontEnd_tdd "u_edge") = some (.leaf .u) ∧
    Fe.denTdd gt ps (Fe.body frontEnd_tdd "f_edge") = some (.leaf .f) :=
  ⟨rfl, rfl, rfl, rfl, rfl⟩

/-! ## both builds -/

/-- **the multi-threaded front end denotes the same function as the sequential one** (the
denotations do not look at the recursor): stated for the binary connectives of the three kinds
with two front ends -/
theorem frontend_mt_binary (o : BOp8) :
    (∀ ps op, Fe.denBdd ps op (Fe.body frontEnd_bddMT o.method) = some (Bdd.applyBin o.bdd (ps 0) (ps 1))) ∧
    (∀ ps op, Fe.denBcdd ps op (Fe.body frontEnd_bcddMT o.method) = some (Bcdd.applyOp o.bcdd (ps 0) (ps 1))) ∧
    (∀ n ps v2l var, Fe.denZbdd n ps v2l var (Fe.body frontEnd_zbddMT o.method) = some (Zbdd.applyBin n o.zbdd (ps 0) (ps 1))) := by
  cases o <;> exact ⟨fun _ _ => rfl, fun _ _ => rfl, fun _ _ _ _ => rfl⟩

/-- non-vacuity: the tables are populated and the checks discriminate -/
example : (frontEnd_bdd.getD []).length = 27 ∧ (frontEnd_zbddMT.getD []).length = 28 := by decide
/-- the seeded shapes: an operand swap / an exchanged operator in one copy only is a disagreement -/
example : Fe.agree
    (some [⟨"BooleanFunction", "imp_strict_edge", 2, .call "apply_bin" ["And"] .seq (.cons (.p 1) (.cons (.neg (.p 0)) .nil))⟩])
    (some [⟨"BooleanFunction", "imp_strict_edge", 2, .call "apply_bin" ["And"] .par (.cons (.neg (.p 0)) (.cons (.p 1) .nil))⟩]) = false := by decide
example : Fe.agree
    (some [⟨"BooleanVecSet", "diff_edge", 2, .call "apply_diff" [] .seq (.cons (.p 1) (.cons (.p 0) .nil))⟩])
    (some [⟨"BooleanVecSet", "diff_edge", 2, .call "apply_diff" [] .par (.cons (.p 0) (.cons (.p 1) .nil))⟩]) = false := by decide
/-- … and with the operands exchanged the body denotes `rhs ∖ lhs`, not the model's `diff lhs rhs` -/
example (n : Nat) (ps : Nat → Zbdd.ZDD) (v2l : Nat → Nat) (var : Nat) :
    Fe.denZbdd n ps v2l var (.call "apply_diff" [] .seq (.cons (.p 1) (.cons (.p 0) .nil))) = some (Zbdd.diff (ps 1) (ps 0)) := rfl

end OxiddModel.Generated
