import OxiddModel.Generated.SrcFacts

/-!
# Obligation over the GC water marks (C05)

No model uses the values; the collector is free to choose them, so only their sanity is required.

`SrcFacts.lean` is regenerated from `/repo` on every run; these theorems are re-checked against it.
One module per diagram kind / concern, so that a change to an unrelated table never breaks it.
-/
namespace OxiddModel.Generated

/-- low water mark ≤ high water mark ≤ 100 % -/
theorem gc_water_marks_sane : gcLwmPercent ≤ gcHwmPercent ∧ gcHwmPercent ≤ 100 := by decide

end OxiddModel.Generated
