import OxiddModel.Generated.SrcGcProto
import OxiddModel.Bdd.RcS

/-!
# Obligations: `Manager::gc` and the reference-count protocol of the index manager against `Bdd/RcS.lean` (C05)

`SrcGcProto.lean` is regenerated on every run by `tools/extract_tables5.py` from
`crates/oxidd-manager-index/src/manager.rs`.  The header of `Bdd/RcS.lean` lists what the counter
model assumes of the code; each assumption is an obligation here:

* `Manager::gc`: the phases and their order — `gc_ongoing.try_lock` · `gc_count += 1` · `pre_gc`
  (unless a reordering prepared it) · every unique table, in the order of `self.unique_table`
  (top level first) · **then** the terminal manager · `post_gc` · unlock
  (`gcproto_phase_order`; `gcproto_phases_interp`: running the extracted phase list **is** `Rc.gcR`
  on every state);
* `LevelViewSet::gc`: a node is removed iff `load_rc(Acquire) == 1` (retain predicate `!= 1`), the
  table's edge is forgotten and `free_slot` drops the children (`gcproto_retain_predicate`);
* `clone_edge` ↦ `retain()`, `drop_edge` ↦ `release()` on inner nodes, the terminal manager's
  `retain` / `release` on terminals (`gcproto_clone_drop`);
* `add_node`: on `Err(OutOfMemory)` the children of the rejected node are dropped
  (`gcproto_add_node_failure_drops_children`); `get_or_insert`: a hit drops the rejected node and
  clones the found edge.
The atomic orderings of `retain` / `release` themselves are in `SrcAtomicity` (`ObAtomicity`, `ObOrderings`).
-/
namespace OxiddModel.Generated
open OxiddModel.Bdd.Rc

namespace GcPhase

inductive Phase where
  | tryLock | countInc | preGc | levelsTopDown | terminals | postGc | unlock
deriving DecidableEq, Repr

def notPrepared : List String := ["if", "!", "self", ".", "reorder_gc_prepared"]
def levelLoop : List String := ["for", "level", "in", "&", "self", ".", "unique_table"]

/-- the phase a statement of `Manager::gc` stands for (with the guard it must be under) -/
def phase? (r : F5.Row) : Option Phase :=
  if r.guards = [["if", "!", "self", ".", "gc_ongoing", ".", "try_lock", "(", ")"]] ∧ r.act = ["return", "0"] then some .tryLock
  else if r.guards = [] ∧ r.act = ["self", ".", "gc_count", ".", "fetch_add", "(", "1", ",", "Relaxed", ")"] then some .countInc
  else if r.guards = [notPrepared] ∧ r.act = ["self", ".", "data", ".", "pre_gc", "(", "self", ")"] then some .preGc
  else if r.guards = [levelLoop] ∧ r.act = ["level", ".", "gc", "(", "store", ")"] then some .levelsTopDown
  else if r.guards = [] ∧ r.act = ["collected", "+=", "store", ".", "terminal_manager", ".", "gc", "(", ")"] then some .terminals
  else if r.guards = [notPrepared] ∧ r.act = ["self", ".", "data", ".", "post_gc", "(", "self", ")"] then some .postGc
  else if r.guards = [] ∧ r.act = ["self", ".", "gc_ongoing", ".", "unlock", "(", ")"] then some .unlock
  else none

/-- what a phase does to the counter model of the simple BDD (`Bdd/RcS.lean`): `pre_gc` clears the apply
cache, the level loop is `gcLevel` for `0, 1, …, numLevels-1`; the BDD's terminals are static, the
lock, the count and `post_gc` do not touch store, cache or counters -/
def run (numLevels : Nat) (r : RSt) : Phase → RSt
  | .preGc => { r with st := { r.st with cache := [] } }
  | .levelsTopDown => (List.range numLevels).foldl gcLevel r
  | _ => r

end GcPhase

/-- **the phase order of `Manager::gc`** (a collection that sweeps the terminals before the inner
nodes — seeded change `R5-C14-gc-terminals-before-inner` — gives a different list) -/
theorem gcproto_phase_order :
    gc5Manager_gc.filterMap GcPhase.phase? =
      [.tryLock, .countInc, .preGc, .levelsTopDown, .terminals, .postGc, .unlock] := by decide

/-- **running the extracted phases is `Rc.gcR`**, for every number of levels and every state -/
theorem gcproto_phases_interp (numLevels : Nat) (r : RSt) :
    (gc5Manager_gc.filterMap GcPhase.phase?).foldl (GcPhase.run numLevels) r = gcR numLevels r := by
  rw [gcproto_phase_order]; rfl

/-- the level loop locks the level, then collects it, and nothing else touches the unique tables -/
theorem gcproto_level_loop :
    (gc5Manager_gc.filter fun r => r.guards = [GcPhase.levelLoop]).map (·.act) =
      [["let", "mut", "level", "=", "level", ".", "lock", "(", ")"],
       ["collected", "+=", "level", ".", "len", "(", ")", "as", "u32"],
       ["level", ".", "gc", "(", "store", ")"],
       ["collected", "-=", "level", ".", "len", "(", ")", "as", "u32"]] := by decide

/-- `LevelViewSet::gc`: retain predicate `rc != 1` read with `Acquire` (`gcSlot`: removed iff `rcGet r.rc i = 1`);
the removed edge is forgotten (no `release`) and `free_slot` is called -/
theorem gcproto_retain_predicate :
    (gc5LevelViewSet_gc.filter fun r => r.kind = "tail" ∨ r.kind = "stmt").map (·.act) =
      [["inner_nodes", ".", "inner_node_unchecked", "(", "edge", ")", ".", "load_rc", "(", "Acquire", ")", "!=", "1"],
       ["std", "::", "mem", "::", "forget", "(", "edge", ")"],
       ["store", ".", "free_slot", "(", "&", "mut", "*", "slot_ptr", ",", "id", ")"]] := by decide

/-- `clone_edge` ↦ `retain`, `drop_edge` ↦ `release` (inner nodes: ids `>= TERMINALS`) -/
theorem gcproto_clone_drop :
    (gc5Store_clone_edge.filter fun r => r.guards = [["if", "id", ">=", "TERMINALS"]]).map (·.act) =
      [["self", ".", "inner_nodes", ".", "inner_node", "(", "edge", ")", ".", "retain", "(", ")"]] ∧
    (gc5Store_drop_edge.filter fun r => r.guards = [["if", "id", ">=", "TERMINALS"]]).map (·.act) =
      [["let", "node", "=", "self", ".", "inner_nodes", ".", "inner_node", "(", "&", "edge", ")"],
       ["std", "::", "mem", "::", "forget", "(", "edge", ")"],
       ["let", "_old_rc", "=", "node", ".", "release", "(", ")"]] ∧
    gc5Manager_clone_edge.map (·.act) = [["self", ".", "store", "(", ")", ".", "clone_edge", "(", "edge", ")"]] ∧
    gc5Manager_drop_edge.map (·.act) = [["self", ".", "store", "(", ")", ".", "drop_edge", "(", "edge", ")"]] := by decide

/-- `add_node`, arm `Err(OutOfMemory)`: the children are dropped, then the error is returned
(`mkNodeR … = (none, dropEdge (dropEdge r t) e)`; without the first row the code is `mkNodeLeak`) -/
theorem gcproto_add_node_failure_drops_children :
    (gc5Store_add_node.filter fun r => r.guards = [["match", "res"], ["=>", "Err", "(", "OutOfMemory", ")"]]).map (fun r => (r.kind, r.act)) =
      [("stmt", ["node", ".", "drop_with", "(", "|", "e", "|", "self", ".", "drop_edge", "(", "e", ")", ")"]),
       ("tail", ["Err", "(", "OutOfMemory", ")"])] := by decide

/-- the model's failure path is exactly these drops; the seeded `mkNodeLeak` has none (non-vacuity) -/
example (r : RSt) (l : Nat) (t e : OxiddModel.Bdd.Refine.Edge) (h : t ≠ e) (hf : r.st.store.find? ⟨l, t, e⟩ = none) :
    mkNodeR 0 r l t e = (none, dropEdge (dropEdge r t) e) ∧ mkNodeLeak 0 r l t e = (none, r) := by
  simp [mkNodeR, mkNodeLeak, h, hf]

/-- non-vacuity of `gcproto_phase_order`: terminals swept before the levels is a different phase list -/
example : ([⟨[], "stmt", ["collected", "+=", "store", ".", "terminal_manager", ".", "gc", "(", ")"]⟩,
    ⟨[GcPhase.levelLoop], "stmt", ["level", ".", "gc", "(", "store", ")"]⟩] : List F5.Row).filterMap GcPhase.phase?
    = [.terminals, .levelsTopDown] := by decide

/-! ## pinned statement lists -/

/-- `Rc.gcR` (`Bdd/RcS.lean`): `gc_ongoing.try_lock` fails ⇒ return 0; count += 1; `pre_gc` (apply cache cleared: `cache := []`) unless a reordering prepared it; the unique tables in level order (`for level in &self.unique_table`: `(List.range numLevels).foldl gcLevel`); THEN the terminals; `post_gc`; unlock -/
def Exp5.gc5Manager_gc : List F5.Row :=
  [⟨[["if", "!", "self", ".", "gc_ongoing", ".", "try_lock", "(", ")"]], "stmt", ["return", "0"]⟩,
   ⟨[], "stmt", ["self", ".", "gc_count", ".", "fetch_add", "(", "1", ",", "Relaxed", ")"]⟩,
   ⟨[], "stmt", ["let", "guard", "=", "AbortOnDrop", "(", "\"Garbage collection panicked.\"", ")"]⟩,
   ⟨[["if", "!", "self", ".", "reorder_gc_prepared"]], "stmt", ["self", ".", "data", ".", "pre_gc", "(", "self", ")"]⟩,
   ⟨[], "stmt", ["let", "store", "=", "self", ".", "store", "(", ")"]⟩,
   ⟨[], "stmt", ["let", "mut", "collected", "=", "0"]⟩,
   ⟨[["for", "level", "in", "&", "self", ".", "unique_table"]], "stmt", ["let", "mut", "level", "=", "level", ".", "lock", "(", ")"]⟩,
   ⟨[["for", "level", "in", "&", "self", ".", "unique_table"]], "stmt", ["collected", "+=", "level", ".", "len", "(", ")", "as", "u32"]⟩,
   ⟨[["for", "level", "in", "&", "self", ".", "unique_table"]], "stmt", ["level", ".", "gc", "(", "store", ")"]⟩,
   ⟨[["for", "level", "in", "&", "self", ".", "unique_table"]], "stmt", ["collected", "-=", "level", ".", "len", "(", ")", "as", "u32"]⟩,
   ⟨[], "stmt", ["collected", "+=", "store", ".", "terminal_manager", ".", "gc", "(", ")"]⟩,
   ⟨[["if", "!", "self", ".", "reorder_gc_prepared"]], "stmt", ["self", ".", "data", ".", "post_gc", "(", "self", ")"]⟩,
   ⟨[], "stmt", ["self", ".", "gc_ongoing", ".", "unlock", "(", ")"]⟩,
   ⟨[], "stmt", ["guard", ".", "defuse", "(", ")"]⟩,
   ⟨[], "stmt", ["collected", "as", "usize"]⟩]

/-- nested `reorder` returns at once; `pre_gc` … `post_gc` bracket the closure; `gc_count` and `reorder_count` are incremented once -/
def Exp5.gc5Manager_reorder : List F5.Row :=
  [⟨[["if", "self", ".", "reorder_gc_prepared"]], "stmt", ["return", "f", "(", "self", ")"]⟩,
   ⟨[], "stmt", ["let", "guard", "=", "AbortOnDrop", "(", "\"Reordering panicked.\"", ")"]⟩,
   ⟨[], "stmt", ["self", ".", "data", ".", "pre_gc", "(", "self", ")"]⟩,
   ⟨[], "stmt", ["self", ".", "reorder_gc_prepared", "=", "true"]⟩,
   ⟨[], "stmt", ["self", ".", "data", ".", "pre_reorder", "(", "self", ")"]⟩,
   ⟨[], "stmt", ["MD", "::", "pre_reorder_mut", "(", "self", ")"]⟩,
   ⟨[], "stmt", ["let", "res", "=", "f", "(", "self", ")"]⟩,
   ⟨[], "stmt", ["self", ".", "data", ".", "post_reorder", "(", "self", ")"]⟩,
   ⟨[], "stmt", ["MD", "::", "post_reorder_mut", "(", "self", ")"]⟩,
   ⟨[], "stmt", ["self", ".", "reorder_gc_prepared", "=", "false"]⟩,
   ⟨[], "stmt", ["self", ".", "data", ".", "post_gc", "(", "self", ")"]⟩,
   ⟨[], "stmt", ["guard", ".", "defuse", "(", ")"]⟩,
   ⟨[], "stmt", ["*", "self", ".", "gc_count", ".", "get_mut", "(", ")", "+=", "1"]⟩,
   ⟨[], "stmt", ["self", ".", "reorder_count", "+=", "1"]⟩,
   ⟨[], "stmt", ["res"]⟩]

/-- forwards to `Store::clone_edge` -/
def Exp5.gc5Manager_clone_edge : List F5.Row :=
  [⟨[], "stmt", ["self", ".", "store", "(", ")", ".", "clone_edge", "(", "edge", ")"]⟩]

/-- forwards to `Store::drop_edge` -/
def Exp5.gc5Manager_drop_edge : List F5.Row :=
  [⟨[], "stmt", ["self", ".", "store", "(", ")", ".", "drop_edge", "(", "edge", ")"]⟩]

/-- `Rc.dropEdge`: inner node (`id >= TERMINALS`) ⇒ `release()` (the edge is forgotten, never frees: the unique table keeps its reference); terminal ⇒ `terminal_manager.release(id)` -/
def Exp5.gc5Store_drop_edge : List F5.Row :=
  [⟨[], "stmt", ["let", "id", "=", "edge", ".", "node_id", "(", ")"]⟩,
   ⟨[["if", "id", ">=", "TERMINALS"]], "stmt", ["let", "node", "=", "self", ".", "inner_nodes", ".", "inner_node", "(", "&", "edge", ")"]⟩,
   ⟨[["if", "id", ">=", "TERMINALS"]], "stmt", ["std", "::", "mem", "::", "forget", "(", "edge", ")"]⟩,
   ⟨[["if", "id", ">=", "TERMINALS"]], "stmt", ["let", "_old_rc", "=", "node", ".", "release", "(", ")"]⟩,
   ⟨[["else", "/*", "after", "*/", "if", "id", ">=", "TERMINALS"]], "stmt", ["std", "::", "mem", "::", "forget", "(", "edge", ")"]⟩,
   ⟨[["else", "/*", "after", "*/", "if", "id", ">=", "TERMINALS"]], "stmt", ["self", ".", "terminal_manager", ".", "release", "(", "id", ")"]⟩]

/-- `Rc.cloneEdge`: inner node ⇒ `retain()`; terminal ⇒ `terminal_manager.retain(id)`; the same edge value is returned -/
def Exp5.gc5Store_clone_edge : List F5.Row :=
  [⟨[], "stmt", ["let", "id", "=", "edge", ".", "node_id", "(", ")"]⟩,
   ⟨[["if", "id", ">=", "TERMINALS"]], "stmt", ["self", ".", "inner_nodes", ".", "inner_node", "(", "edge", ")", ".", "retain", "(", ")"]⟩,
   ⟨[["else", "/*", "after", "*/", "if", "id", ">=", "TERMINALS"]], "stmt", ["self", ".", "terminal_manager", ".", "retain", "(", "id", ")"]⟩,
   ⟨[], "stmt", ["Edge", "(", "edge", ".", "0", ",", "PhantomData", ")"]⟩]

/-- `Rc.gcSlot`: `free_slot` drops the children of the freed node (`dropEdge (dropEdge … n.t) n.e`) -/
def Exp5.gc5Store_free_slot_head : List F5.Row :=
  [⟨[], "stmt", ["ManuallyDrop", "::", "take", "(", "&", "mut", "slot", ".", "node", ")", ".", "drop_with", "(", "|", "edge", "|", "self", ".", "drop_edge", "(", "edge", ")", ")"]⟩]

/-- `Rc.mkNodeR`: slot from the local free list / the initialised chunk / the shared state; `Ok` ⇒ the node (with its children, `rc = 2`) is moved into the slot and two edges are returned; `Err(OutOfMemory)` ⇒ `node.drop_with(|e| self.drop_edge(e))` (model: `(none, dropEdge (dropEdge r t) e)`; the seeded defect `mkNodeLeak` omits it) -/
def Exp5.gc5Store_add_node : List F5.Row :=
  [⟨[], "let", ["res", "=", "LOCAL_STORE_STATE", ".", "with", "(", "|", "state", "|"]⟩,
   ⟨[["let", "res", "=", "LOCAL_STORE_STATE", ".", "with", "(", "|", "state", "|"]], "let", ["node_count_delta", "=", "if", "state", ".", "current_store", ".", "get", "(", ")", "==", "addr", "(", "self", ")"]⟩,
   ⟨[["let", "res", "=", "LOCAL_STORE_STATE", ".", "with", "(", "|", "state", "|"], ["let", "node_count_delta", "=", "if", "state", ".", "current_store", ".", "get", "(", ")", "==", "addr", "(", "self", ")"]], "let", ["delta", "=", "state", ".", "node_count_delta", ".", "get", "(", ")", "+", "1"]⟩,
   ⟨[["let", "res", "=", "LOCAL_STORE_STATE", ".", "with", "(", "|", "state", "|"], ["let", "node_count_delta", "=", "if", "state", ".", "current_store", ".", "get", "(", ")", "==", "addr", "(", "self", ")"]], "let", ["id", "=", "state", ".", "next_free", ".", "get", "(", ")"]⟩,
   ⟨[["let", "res", "=", "LOCAL_STORE_STATE", ".", "with", "(", "|", "state", "|"], ["let", "node_count_delta", "=", "if", "state", ".", "current_store", ".", "get", "(", ")", "==", "addr", "(", "self", ")"], ["if", "id", "!=", "0"]], "let", ["(", "next_free", ",", "slot", ")", "=", "self", ".", "use_free_slot", "(", "id", ")"]⟩,
   ⟨[["let", "res", "=", "LOCAL_STORE_STATE", ".", "with", "(", "|", "state", "|"], ["let", "node_count_delta", "=", "if", "state", ".", "current_store", ".", "get", "(", ")", "==", "addr", "(", "self", ")"], ["if", "id", "!=", "0"]], "stmt", ["state", ".", "next_free", ".", "set", "(", "next_free", ")"]⟩,
   ⟨[["let", "res", "=", "LOCAL_STORE_STATE", ".", "with", "(", "|", "state", "|"], ["let", "node_count_delta", "=", "if", "state", ".", "current_store", ".", "get", "(", ")", "==", "addr", "(", "self", ")"], ["if", "id", "!=", "0"]], "stmt", ["state", ".", "node_count_delta", ".", "set", "(", "delta", ")"]⟩,
   ⟨[["let", "res", "=", "LOCAL_STORE_STATE", ".", "with", "(", "|", "state", "|"], ["let", "node_count_delta", "=", "if", "state", ".", "current_store", ".", "get", "(", ")", "==", "addr", "(", "self", ")"], ["if", "id", "!=", "0"]], "return", ["Ok", "(", "(", "id", ",", "slot", ")", ")"]⟩,
   ⟨[["let", "res", "=", "LOCAL_STORE_STATE", ".", "with", "(", "|", "state", "|"], ["let", "node_count_delta", "=", "if", "state", ".", "current_store", ".", "get", "(", ")", "==", "addr", "(", "self", ")"]], "let", ["index", "=", "state", ".", "initialized", ".", "get", "(", ")"]⟩,
   ⟨[["let", "res", "=", "LOCAL_STORE_STATE", ".", "with", "(", "|", "state", "|"], ["let", "node_count_delta", "=", "if", "state", ".", "current_store", ".", "get", "(", ")", "==", "addr", "(", "self", ")"], ["if", "index", "%", "CHUNK_SIZE", "!=", "0"]], "let", ["slots", "=", "&", "self", ".", "inner_nodes", ".", "slots"]⟩,
   ⟨[["let", "res", "=", "LOCAL_STORE_STATE", ".", "with", "(", "|", "state", "|"], ["let", "node_count_delta", "=", "if", "state", ".", "current_store", ".", "get", "(", ")", "==", "addr", "(", "self", ")"], ["if", "index", "%", "CHUNK_SIZE", "!=", "0"]], "let", ["slot", "=", "&", "mut", "*", "slots", ".", "get_unchecked", "(", "index", "as", "usize", ")", ".", "get", "(", ")"]⟩,
   ⟨[["let", "res", "=", "LOCAL_STORE_STATE", ".", "with", "(", "|", "state", "|"], ["let", "node_count_delta", "=", "if", "state", ".", "current_store", ".", "get", "(", ")", "==", "addr", "(", "self", ")"], ["if", "index", "%", "CHUNK_SIZE", "!=", "0"]], "stmt", ["state", ".", "initialized", ".", "set", "(", "index", "+", "1", ")"]⟩,
   ⟨[["let", "res", "=", "LOCAL_STORE_STATE", ".", "with", "(", "|", "state", "|"], ["let", "node_count_delta", "=", "if", "state", ".", "current_store", ".", "get", "(", ")", "==", "addr", "(", "self", ")"], ["if", "index", "%", "CHUNK_SIZE", "!=", "0"]], "stmt", ["state", ".", "node_count_delta", ".", "set", "(", "delta", ")"]⟩,
   ⟨[["let", "res", "=", "LOCAL_STORE_STATE", ".", "with", "(", "|", "state", "|"], ["let", "node_count_delta", "=", "if", "state", ".", "current_store", ".", "get", "(", ")", "==", "addr", "(", "self", ")"], ["if", "index", "%", "CHUNK_SIZE", "!=", "0"]], "return", ["Ok", "(", "(", "index", "+", "TERMINALS", "as", "u32", ",", "slot", ")", ")"]⟩,
   ⟨[["let", "res", "=", "LOCAL_STORE_STATE", ".", "with", "(", "|", "state", "|"], ["let", "node_count_delta", "=", "if", "state", ".", "current_store", ".", "get", "(", ")", "==", "addr", "(", "self", ")"]], "stmt", ["state", ".", "node_count_delta", ".", "set", "(", "0", ")"]⟩,
   ⟨[["let", "res", "=", "LOCAL_STORE_STATE", ".", "with", "(", "|", "state", "|"], ["let", "node_count_delta", "=", "if", "state", ".", "current_store", ".", "get", "(", ")", "==", "addr", "(", "self", ")"]], "tail", ["delta"]⟩,
   ⟨[["let", "res", "=", "LOCAL_STORE_STATE", ".", "with", "(", "|", "state", "|"], ["else", "/*", "after", "*/", "let", "node_count_delta", "=", "if", "state", ".", "current_store", ".", "get", "(", ")", "==", "addr", "(", "self", ")"]], "tail", ["1"]⟩,
   ⟨[["let", "res", "=", "LOCAL_STORE_STATE", ".", "with", "(", "|", "state", "|"]], "tail", ["self", ".", "get_slot_from_shared", "(", "state", ",", "node_count_delta", ")"]⟩,
   ⟨[["match", "res"], ["=>", "Ok", "(", "(", "id", ",", "slot", ")", ")"]], "stmt", ["slot", ".", "node", "=", "ManuallyDrop", "::", "new", "(", "node", ")"]⟩,
   ⟨[["match", "res"], ["=>", "Ok", "(", "(", "id", ",", "slot", ")", ")"]], "tail", ["Ok", "(", "[", "Edge", "(", "id", ",", "PhantomData", ")", ",", "Edge", "(", "id", ",", "PhantomData", ")", "]", ")"]⟩,
   ⟨[["match", "res"], ["=>", "Err", "(", "OutOfMemory", ")"]], "stmt", ["node", ".", "drop_with", "(", "|", "e", "|", "self", ".", "drop_edge", "(", "e", ")", ")"]⟩,
   ⟨[["match", "res"], ["=>", "Err", "(", "OutOfMemory", ")"]], "tail", ["Err", "(", "OutOfMemory", ")"]⟩]

/-- `Rc.mkNodeR`: hit (`Ok(slot)`) ⇒ `drop(node)` (children `t`, `e` dropped) then `clone_edge_unchecked(found)`; miss ⇒ `insert(node)?` (= `add_node`), first edge into the table, second returned -/
def Exp5.gc5LevelViewSet_get_or_insert : List F5.Row :=
  [⟨[], "let", ["hash", "=", "hash_node", "(", "&", "node", ")"]⟩,
   ⟨[["match", "self", ".", "0", ".", "find_or_find_insert_slot", "(", "hash", ",", "Self", "::", "eq", "(", "nodes", ",", "&", "node", ")", ")"], ["=>", "Ok", "(", "slot", ")"]], "stmt", ["drop", "(", "node", ")"]⟩,
   ⟨[["match", "self", ".", "0", ".", "find_or_find_insert_slot", "(", "hash", ",", "Self", "::", "eq", "(", "nodes", ",", "&", "node", ")", ")"], ["=>", "Ok", "(", "slot", ")"]], "tail", ["Ok", "(", "nodes", ".", "clone_edge_unchecked", "(", "self", ".", "0", ".", "get_at_slot_unchecked", "(", "slot", ")", ")", ")"]⟩,
   ⟨[["match", "self", ".", "0", ".", "find_or_find_insert_slot", "(", "hash", ",", "Self", "::", "eq", "(", "nodes", ",", "&", "node", ")", ")"], ["=>", "Err", "(", "slot", ")"]], "let", ["[", "e1", ",", "e2", "]", "=", "insert", "(", "node", ")", "?"]⟩,
   ⟨[["match", "self", ".", "0", ".", "find_or_find_insert_slot", "(", "hash", ",", "Self", "::", "eq", "(", "nodes", ",", "&", "node", ")", ")"], ["=>", "Err", "(", "slot", ")"]], "stmt", ["self", ".", "0", ".", "insert_in_slot_unchecked", "(", "hash", ",", "slot", ",", "e1", ")"]⟩,
   ⟨[["match", "self", ".", "0", ".", "find_or_find_insert_slot", "(", "hash", ",", "Self", "::", "eq", "(", "nodes", ",", "&", "node", ")", ")"], ["=>", "Err", "(", "slot", ")"]], "tail", ["Ok", "(", "e2", ")"]⟩]

/-- `Rc.gcSlot`: retain predicate `load_rc(Acquire) != 1` (a node whose only reference is the unique table's is removed), the removed edge is forgotten and `free_slot` is called -/
def Exp5.gc5LevelViewSet_gc : List F5.Row :=
  [⟨[], "let", ["inner_nodes", "=", "&", "*", "store", ".", "inner_nodes"]⟩,
   ⟨[["self", ".", "0", ".", "retain", "(", "|", "edge", "|"]], "tail", ["inner_nodes", ".", "inner_node_unchecked", "(", "edge", ")", ".", "load_rc", "(", "Acquire", ")", "!=", "1"]⟩,
   ⟨[[",", "|", "edge", "|"]], "let", ["slot_ptr", "=", "inner_nodes", ".", "slot_pointer_unchecked", "(", "&", "edge", ")"]⟩,
   ⟨[[",", "|", "edge", "|"]], "let", ["id", "=", "edge", ".", "node_id_unchecked", "(", ")"]⟩,
   ⟨[[",", "|", "edge", "|"]], "stmt", ["std", "::", "mem", "::", "forget", "(", "edge", ")"]⟩,
   ⟨[[",", "|", "edge", "|"]], "stmt", ["store", ".", "free_slot", "(", "&", "mut", "*", "slot_ptr", ",", "id", ")"]⟩]

/-- the two closures: `insert = add_node`, `drop = node.drop_with(|edge| drop_edge(edge))` -/
def Exp5.gc5LevelView_get_or_insert : List F5.Row :=
  [⟨[], "stmt", ["node", ".", "assert_level_matches", "(", "self", ".", "level", ")"]⟩,
   ⟨[], "stmt", ["self", ".", "set", ".", "get_or_insert", "(", "&", "self", ".", "store", ".", "inner_nodes", ",", "node", ",", "|", "node", "|", "self", ".", "store", ".", "add_node", "(", "node", ")", ",", "|", "node", "|", "node", ".", "drop_with", "(", "|", "edge", "|", "self", ".", "store", ".", "drop_edge", "(", "edge", ")", ")", ",", ")"]⟩]

theorem gcproto_Manager_gc_as_modelled : gc5Manager_gc = Exp5.gc5Manager_gc := by decide
theorem gcproto_Manager_reorder_as_modelled : gc5Manager_reorder = Exp5.gc5Manager_reorder := by decide
theorem gcproto_Manager_clone_edge_as_modelled : gc5Manager_clone_edge = Exp5.gc5Manager_clone_edge := by decide
theorem gcproto_Manager_drop_edge_as_modelled : gc5Manager_drop_edge = Exp5.gc5Manager_drop_edge := by decide
theorem gcproto_Store_drop_edge_as_modelled : gc5Store_drop_edge = Exp5.gc5Store_drop_edge := by decide
theorem gcproto_Store_clone_edge_as_modelled : gc5Store_clone_edge = Exp5.gc5Store_clone_edge := by decide
theorem gcproto_Store_free_slot_head_as_modelled : gc5Store_free_slot_head = Exp5.gc5Store_free_slot_head := by decide
theorem gcproto_Store_add_node_as_modelled : gc5Store_add_node = Exp5.gc5Store_add_node := by decide
theorem gcproto_LevelViewSet_get_or_insert_as_modelled : gc5LevelViewSet_get_or_insert = Exp5.gc5LevelViewSet_get_or_insert := by decide
theorem gcproto_LevelViewSet_gc_as_modelled : gc5LevelViewSet_gc = Exp5.gc5LevelViewSet_gc := by decide
theorem gcproto_LevelView_get_or_insert_as_modelled : gc5LevelView_get_or_insert = Exp5.gc5LevelView_get_or_insert := by decide

theorem gcproto_all_extracted :
    [gc5Manager_gc.length, gc5Manager_reorder.length, gc5Manager_clone_edge.length, gc5Manager_drop_edge.length,
      gc5Store_drop_edge.length, gc5Store_clone_edge.length, gc5Store_free_slot_head.length, gc5Store_add_node.length,
      gc5LevelViewSet_get_or_insert.length, gc5LevelViewSet_gc.length, gc5LevelView_get_or_insert.length]
      = [15, 15, 1, 1, 6, 4, 1, 22, 6, 6, 2] := by decide

end OxiddModel.Generated
