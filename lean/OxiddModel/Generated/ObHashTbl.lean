import OxiddModel.Generated.SrcHashTbl
import OxiddModel.HashTbl.SrcShape

/-!
# Obligations: `linear-hashtbl/src/raw.rs` has the statement structure the C17 model mirrors

`SrcHashTbl.lean` is regenerated on every run by `tools/extract_tables4.py` from
`crates/linear-hashtbl/src/raw.rs`.  Each obligation below says that what the source contains
*now* is what `HashTbl/Model.lean` was written against:

* `hashtbl_constants_as_modelled`: `RATIO_N`, `RATIO_D`, `MIN_CAP` are `HashTbl.RATIO_N`, … (the
  definitions the model computes with), and the two `Status` impls (`FREE`, `TOMBSTONE`,
  `from_hash`, `check_capacity`, `is_hash`) are the ones `fromHash` / `checkCapacity` / the
  constructors of `Slot` stand for;
* `hashtbl_<fn>_as_modelled` (`decide`, one per function): the extracted statement list — every
  update of `len`, `free` and of a slot status with the `if` / `else` / loop it is under, every
  return, call and binding, in source order — equals the table written beside the model in
  `HashTbl/SrcShape.lean`;
* `hashtbl_extracted_*` (general): the *extracted* table of `insert_in_slot_unchecked`,
  `remove_at_slot_unchecked`, `reset_no_drop`, `reserve`, `drain`, run by `Shape.exec`, **is**
  the model function for every state (from `Shape.*_as_modelled`).
-/
namespace OxiddModel.Generated
open OxiddModel.HashTbl OxiddModel.HashTbl.Shape

/-- the constants of the source are the constants the model computes with -/
theorem hashtbl_constants_as_modelled :
    htRatioN = RATIO_N ∧ htRatioD = RATIO_D ∧ htMinCap = MIN_CAP ∧
    htStatus_u32 = status_u32 ∧ htStatus_usize = status_usize := by decide

/-- load factor: 3/4 of the slots are usable, the minimal array has 16 slots (non-vacuity: the
numbers are what the capacity theorems of `HashTbl/Properties.lean` are stated with) -/
example : htRatioN < htRatioD ∧ htMinCap / htRatioD * htRatioN = 12 := by decide

theorem hashtbl_next_capacity_as_modelled : htRows_next_capacity = rows_next_capacity := by decide
theorem hashtbl_capacity_as_modelled : htRows_capacity = rows_capacity := by decide
theorem hashtbl_reserve_as_modelled : htRows_reserve = rows_reserve := by decide
theorem hashtbl_reserve_rehash_as_modelled : htRows_reserve_rehash = rows_reserve_rehash := by decide
theorem hashtbl_clear_as_modelled : htRows_clear = rows_clear ∧ htRows_clear_no_drop = rows_clear_no_drop := by
  constructor <;> decide
theorem hashtbl_reset_as_modelled : htRows_reset_no_drop = rows_reset_no_drop := by decide
theorem hashtbl_find_as_modelled : htRows_find = rows_find := by decide
theorem hashtbl_find_or_find_insert_slot_as_modelled :
    htRows_find_or_find_insert_slot = rows_find_or_find_insert_slot := by decide
theorem hashtbl_insert_in_slot_as_modelled : htRows_insert_in_slot_unchecked = rows_insert_in_slot_unchecked := by decide
theorem hashtbl_remove_as_modelled :
    htRows_remove_entry = rows_remove_entry ∧ htRows_remove_at_slot_unchecked = rows_remove_at_slot_unchecked := by
  constructor <;> decide
theorem hashtbl_drain_as_modelled :
    htRows_drain = rows_drain ∧ htRows_drain_next = rows_drain_next ∧ htRows_drain_drop = rows_drain_drop := by
  refine ⟨?_, ?_, ?_⟩ <;> decide
theorem hashtbl_retain_as_modelled : htRows_retain = rows_retain := by decide
theorem hashtbl_new_as_modelled :
    htRows_new = rows_new ∧ htRows_with_capacity = rows_with_capacity ∧ htRows_table_drop = rows_table_drop := by
  refine ⟨?_, ?_, ?_⟩ <;> decide

/-- every function was extracted (no table is missing or empty), under the expected names -/
theorem hashtbl_all_extracted :
    htAll.map (·.1) = Shape.all.map (·.1) ∧ htAll.all (fun p => !p.2.isEmpty) = true ∧
    htCfgAlternativesDropped = ["reserve_rehash", "reset_no_drop"] := by
  refine ⟨?_, ?_, ?_⟩ <;> decide

/-- `clear_no_drop` is `clear` without the `assume_init_drop` (why the model has one function) -/
theorem hashtbl_clear_no_drop_is_clear :
    (htRows_clear.filter (fun r => r.act != .bind "slot . data . assume_init_drop ( )")).map (fun r => (r.guards, r.act))
      = htRows_clear_no_drop.map (fun r => (r.guards, r.act)) := by decide

/-- **the extracted `insert_in_slot_unchecked` is `Tbl.insertInSlot`** (all tables, slots, hashes, keys) -/
theorem hashtbl_extracted_insert_in_slot (t : Tbl) (h slot key : Nat) :
    exec { cond := fun c => c == "slot . status != S :: TOMBSTONE" && decide (t.get slot ≠ .tomb),
           slot := slot, st := fromHash h, key := key } htRows_insert_in_slot_unchecked t
      = t.insertInSlot h slot key := by
  rw [hashtbl_insert_in_slot_as_modelled]; exact insertInSlot_as_modelled t h slot key

/-- **the extracted `remove_at_slot_unchecked` is `Tbl.removeAtSlot`**: the tombstone rule -/
theorem hashtbl_extracted_remove_at_slot (t : Tbl) (slot : Nat) :
    exec { cond := fun c => c == "next_slot_status == S :: FREE" && (t.get (Tbl.nextIdx t.cap slot)).isFree,
           slot := slot } htRows_remove_at_slot_unchecked t
      = t.removeAtSlot slot := by
  rw [hashtbl_remove_as_modelled.2]; exact removeAtSlot_as_modelled t slot

/-- **the extracted `reset_no_drop` is `Tbl.resetNoDrop`** -/
theorem hashtbl_extracted_reset (t : Tbl) :
    exec { cond := fun _ => false, val := fun v => if v = "0" then 0 else 1 } htRows_reset_no_drop t
      = .ok t.resetNoDrop := by
  rw [hashtbl_reset_as_modelled]; exact resetNoDrop_as_modelled t

/-- **the extracted `reserve` is `Tbl.reserve`** -/
theorem hashtbl_extracted_reserve (t : Tbl) (additional : Nat) :
    exec { cond := fun c => c == "self . free < spare" && decide (t.free < additional + t.cap / RATIO_D * (RATIO_D - RATIO_N)),
           call := fun f a t => if f = "reserve_rehash" ∧ a = "additional" then t.reserveRehash additional else .error .panic }
      htRows_reserve t = t.reserve additional := by
  rw [hashtbl_reserve_as_modelled]; exact (reserve_as_modelled t additional).2

/-- **the extracted `drain` sets the counters every `Tbl.drainTake` result has** (`len = 0`, `free = slots`) -/
theorem hashtbl_extracted_drain (t t' : Tbl) (take : Nat) (ks : List Nat) (h : t.drainTake take = .ok (t', ks)) :
    ∃ t0, exec { cond := fun _ => false, val := fun v => if v = "0" then 0 else t.cap } htRows_drain t = .ok t0 ∧
      t'.len = t0.len ∧ t'.free = t0.free := by
  rw [hashtbl_drain_as_modelled.1]; exact drain_counters_as_modelled t t' take ks h

end OxiddModel.Generated
