import OxiddModel.Generated.SrcHooks
import OxiddModel.Generated.LemmasHooks

/-!
# Obligations: both managers call the hooks in the order the manager model assumes (C05, C06)

`SrcHooks.lean` is regenerated on every run from `add_vars`, `add_named_vars`,
`add_named_vars_from_map`, `gc` and `reorder` of `oxidd-manager-index/src/manager.rs` and
`oxidd-manager-pointer/src/manager.rs`: the calls of `pre_gc` / `post_gc` / `pre_reorder(_mut)` /
`post_reorder(_mut)`, the resize of the unique-table vector and of the variable↔level and name
maps, the writes of `reorder_gc_prepared`, the counters — in execution order, each with the
condition it is under.  The manager data (apply cache, ZBDD tautology chain) relies on this order:
the cache is cleared in `pre_gc`, so that no entry refers to a collected node (C05, C06); the chain
is torn down in `pre_reorder_mut` and rebuilt in `post_reorder_mut`, which must see the level
table already resized.

* `hooks_identical_in_both_managers`, `hooks_as_modelled` (`decide`): the two managers have the same
  sequences, and they are `Hk.modelRows`;
* `Hk.addVars_as_modelled … Hk.reorderEnd_as_modelled` (general, `LemmasHooks.lean`): run on the
  bookkeeping state, these sequences **are** `PMgr.addVars`, `PMgr.addNamedVars`,
  `PMgr.addNamedVarsFromMap`, `PMgr.gc`, `PMgr.reorderBegin`, `PMgr.reorderEnd` of
  `Pointer/Model.lean` — the functions `Pointer.level_change_hooks` and `Pointer.hooks_order` are
  proved about.  Restated here for the *extracted* tables: `hooks_extracted_*`.
-/
namespace OxiddModel.Generated
open OxiddModel.Pointer OxiddModel.VarNames

theorem hooks_nothing_unparsed : hooksUnparsed = [] := by decide

/-- the index-based and the pointer-based manager call the hooks, resize the tables and set the flag
in the same order under the same conditions -/
theorem hooks_identical_in_both_managers : hookRows_index = hookRows_pointer := by decide

/-- … which is the order `Pointer/Model.lean` assumes -/
theorem hooks_as_modelled : hookRows_pointer = Hk.modelRows ∧ hookRows_index = Hk.modelRows := by
  constructor <;> decide

/-- `pre_reorder` / `pre_reorder_mut` and `post_reorder` / `post_reorder_mut` always come as a pair -/
theorem hooks_paired : Hk.paired hookRows_index = true ∧ Hk.paired hookRows_pointer = true := by
  constructor <;> decide

/-- the rows of one function of a manager that are not under an early-return condition -/
def hookBody (rows : List Hk.Row) (fn : String) : List Hk.Row :=
  rows.filter (fun r => r.fn == fn && r.ctx != .ifPrepared && r.ctx != .ifTryLockFails && r.ctx != .ifNamesNonEmpty)

theorem hookBody_eq (fn : String) : hookBody hookRows_index fn = Hk.body fn ∧ hookBody hookRows_pointer fn = Hk.body fn := by
  rw [hooks_as_modelled.1, hooks_as_modelled.2]; exact ⟨rfl, rfl⟩

/-- **the extracted `add_vars` of either manager is `PMgr.addVars`**: `pre_reorder`, *then* the
resize of all three tables to the final size, *then* `post_reorder` — what `level_change_hooks` needs -/
theorem hooks_extracted_add_vars (g : PMgr) (k : Nat) :
    Hk.exec { val := fun s _ => if s = "new_len" then g.tables + k else k } (hookBody hookRows_index "add_vars") g = (g.addVars k).1 ∧
    Hk.exec { val := fun s _ => if s = "new_len" then g.tables + k else k } (hookBody hookRows_pointer "add_vars") g = (g.addVars k).1 := by
  rw [(hookBody_eq "add_vars").1, (hookBody_eq "add_vars").2]
  exact ⟨Hk.addVars_as_modelled g k, Hk.addVars_as_modelled g k⟩

theorem hooks_extracted_add_named_vars (g : PMgr) (names : List String) :
    Hk.exec { val := fun s g' => if s = "new_len" then g'.map.len else g'.map.len - g.map.len, names := names }
      (hookBody hookRows_index "add_named_vars") g = (g.addNamedVars names).1 ∧
    Hk.exec { val := fun s g' => if s = "new_len" then g'.map.len else g'.map.len - g.map.len, names := names }
      (hookBody hookRows_pointer "add_named_vars") g = (g.addNamedVars names).1 := by
  rw [(hookBody_eq "add_named_vars").1, (hookBody_eq "add_named_vars").2]
  exact ⟨Hk.addNamedVars_as_modelled g names, Hk.addNamedVars_as_modelled g names⟩

theorem hooks_extracted_add_named_vars_from_map (g : PMgr) (map : VarNameMap) (h : g.map.isEmpty = true) :
    Hk.exec { val := fun _ _ => map.len, map := map } (hookBody hookRows_index "add_named_vars_from_map") g = (g.addNamedVarsFromMap map).1 ∧
    Hk.exec { val := fun _ _ => map.len, map := map } (hookBody hookRows_pointer "add_named_vars_from_map") g = (g.addNamedVarsFromMap map).1 := by
  rw [(hookBody_eq "add_named_vars_from_map").1, (hookBody_eq "add_named_vars_from_map").2]
  exact ⟨Hk.addNamedVarsFromMap_as_modelled g map h, Hk.addNamedVarsFromMap_as_modelled g map h⟩

/-- **the extracted `gc` is `PMgr.gc`**: `pre_gc` before and `post_gc` after the sweep, both
skipped while a reordering has prepared the collection -/
theorem hooks_extracted_gc (g : PMgr) (h : g.gcOngoing = false) :
    Hk.exec { val := fun _ _ => 0 } (hookBody hookRows_index "gc") { g with gcOngoing := true } = g.gc.1 ∧
    Hk.exec { val := fun _ _ => 0 } (hookBody hookRows_pointer "gc") { g with gcOngoing := true } = g.gc.1 := by
  rw [(hookBody_eq "gc").1, (hookBody_eq "gc").2]
  exact ⟨Hk.gc_as_modelled g h, Hk.gc_as_modelled g h⟩

/-- **the extracted `reorder` is `PMgr.reorderBegin … f(self) … PMgr.reorderEnd`** -/
theorem hooks_extracted_reorder (g : PMgr) :
    (g.prepared = false →
      g.reorderBegin = { Hk.exec { val := fun _ _ => 0 } (Hk.beforeF (hookBody hookRows_index "reorder")) g with stack := true :: g.stack } ∧
      g.reorderBegin = { Hk.exec { val := fun _ _ => 0 } (Hk.beforeF (hookBody hookRows_pointer "reorder")) g with stack := true :: g.stack }) ∧
    (∀ st, g.stack = true :: st → g.prepared = true →
      g.reorderEnd = some { Hk.exec { val := fun _ _ => 0 } (Hk.afterF (hookBody hookRows_index "reorder")) g with stack := st } ∧
      g.reorderEnd = some { Hk.exec { val := fun _ _ => 0 } (Hk.afterF (hookBody hookRows_pointer "reorder")) g with stack := st }) := by
  rw [(hookBody_eq "reorder").1, (hookBody_eq "reorder").2]
  exact ⟨fun h => ⟨Hk.reorderBegin_as_modelled g h, Hk.reorderBegin_as_modelled g h⟩,
         fun st h hp => ⟨Hk.reorderEnd_as_modelled g st h hp, Hk.reorderEnd_as_modelled g st h hp⟩⟩

/-- the early returns: a nested `reorder` only runs `f(self)`; a failed `try_lock` returns before
the counter; `add_named_vars_from_map` on a non-empty manager forwards to `add_named_vars` -/
theorem hooks_early_returns :
    hookRows_index.filter (fun r => r.ctx == .ifPrepared || r.ctx == .ifTryLockFails || r.ctx == .ifNamesNonEmpty) =
      [⟨"add_named_vars_from_map", .ifNamesNonEmpty, .ret, ""⟩,
       ⟨"add_named_vars_from_map", .ifNamesNonEmpty, .callAddNamedVars, ""⟩,
       ⟨"gc", .ifTryLockFails, .ret, ""⟩,
       ⟨"reorder", .ifPrepared, .ret, ""⟩, ⟨"reorder", .ifPrepared, .callF, ""⟩] := by decide

/-- non-vacuity: on the initial manager the extracted `add_vars 2` leaves a log that brackets the
resize, and a sequence with `post_reorder` before the resize does not -/
example : (Hk.exec { val := fun s _ => if s = "new_len" then 2 else 2 } (hookBody hookRows_index "add_vars") PMgr.init).log =
    [.preReorder, .resize 2, .postReorder 2 2 2] := by decide
example : (Hk.exec { val := fun _ _ => 2 }
    [⟨"add_vars", .top, .preReorder, ""⟩, ⟨"add_vars", .top, .postReorder, ""⟩, ⟨"add_vars", .top, .resize, "new_len"⟩] PMgr.init).log =
    [.preReorder, .postReorder 0 0 0, .resize 2] := by decide

end OxiddModel.Generated
