import OxiddModel.Generated.SrcI64
import OxiddModel.Generated.LemmasI64Table

/-!
# The `I64` terminal arithmetic of the source is the arithmetic of the model (C10, C06)

`SrcI64.lean` is regenerated from `crates/oxidd-rules-mtbdd/src/terminal/i64.rs` on every run: the
arms of `match (self, rhs)` of `add/sub/mul/div` and `partial_cmp`, `signum`, and the `NumberBase`
constants.  The obligations (by `decide`, finite) are `I6.tableOKAbs` (agreement with
`Mtbdd.I64.<op>` on the 32 abstract operand pairs that are not both `Num`: constructor and sign of
the payload) and `I6.tableOKNum` (the `(Num, Num)` arm — `checked_*` call, overflow condition and
overflow results, the division special cases — is literally the model's).  The theorems
`i64_<op>_as_modelled` lift this, with the general lemmas of `LemmasI64Table.lean`, to all operand
values: the source table, interpreted, *is* `Mtbdd.I64.<op>`.  What the model's arithmetic means
(exact when representable, correctly signed infinity on overflow, …) is proved once and for all in
`Mtbdd/Properties.lean` (`i64_add_exact` …).
-/
namespace OxiddModel.Generated

open OxiddModel.Mtbdd

theorem i64_add_table_ok : I6.tableOKAbs I64.add i64Arms_add = true ∧ I6.tableOKNum .add i64Arms_add = true := by decide
theorem i64_sub_table_ok : I6.tableOKAbs I64.sub i64Arms_sub = true ∧ I6.tableOKNum .sub i64Arms_sub = true := by decide
theorem i64_mul_table_ok : I6.tableOKAbs I64.mul i64Arms_mul = true ∧ I6.tableOKNum .mul i64Arms_mul = true := by decide
theorem i64_div_table_ok : I6.tableOKAbs I64.div i64Arms_div = true ∧ I6.tableOKNum .div i64Arms_div = true := by decide
theorem i64_cmp_table_ok : I6.cmpOKAbs i64Arms_partialCmp = true ∧ I6.cmpOKNum i64Arms_partialCmp = true := by decide

/-- `signum`, the constants `zero/one/nan` and the forwarding of the `NumberBase` methods are as in
the model (`I64.signum`, `i64Ops`), and the extractor recognised every construct -/
theorem i64_consts_as_modelled :
    i64Signum = [(.nan, .none), (.ninf, .lit (-1)), (.num, .ofNum), (.pinf, .lit 1)] ∧
    i64Consts = [("zero", .numLit 0), ("one", .numLit 1), ("nan", .nan)] ∧
    i64Methods = [("add", "+"), ("sub", "-"), ("mul", "*"), ("div", "/")] ∧
    i64Unparsed = [] := by decide

/-- the extracted table of an operator, interpreted, is the model's function — for all operands -/
theorem i64_ops_as_modelled (op : I6.AOp) :
    let tbl := match op with
      | .add => i64Arms_add | .sub => i64Arms_sub | .mul => i64Arms_mul | .div => i64Arms_div
    (∀ x y : I64, I6.notBothNum x y → I6.evalArmsAbs (I6.abs x) (I6.abs y) tbl = some (op.fn x y)) ∧
    (∀ a b : Int, I6.evalArmsNum a b tbl = some (op.fn (.num a) (.num b))) := by
  cases op
  · exact ⟨I6.table_sound_nonnum .add _ i64_add_table_ok.1, I6.table_sound_num .add _ i64_add_table_ok.2⟩
  · exact ⟨I6.table_sound_nonnum .sub _ i64_sub_table_ok.1, I6.table_sound_num .sub _ i64_sub_table_ok.2⟩
  · exact ⟨I6.table_sound_nonnum .mul _ i64_mul_table_ok.1, I6.table_sound_num .mul _ i64_mul_table_ok.2⟩
  · exact ⟨I6.table_sound_nonnum .div _ i64_div_table_ok.1, I6.table_sound_num .div _ i64_div_table_ok.2⟩

/-- … and likewise `partial_cmp` (on two `Num`s both are `compare` of the payloads) -/
theorem i64_cmp_as_modelled (x y : I64) (h : I6.notBothNum x y) :
    I6.evalCArmsAbs (I6.abs x) (I6.abs y) i64Arms_partialCmp = some (I64.partialCmp x y) :=
  I6.cmp_sound_nonnum _ i64_cmp_table_ok.1 x y h

/-- non-vacuity: `+∞ / Num(-3)` goes through the guarded arm of the extracted table -/
example : I6.evalArmsAbs (I6.abs .pinf) (I6.abs (.num (-3))) i64Arms_div = some .ninf := by decide
example : I6.evalArmsNum 9223372036854775807 1 i64Arms_add = some .pinf := by decide

end OxiddModel.Generated
