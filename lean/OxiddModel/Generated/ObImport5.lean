import OxiddModel.Generated.SrcImport5
import OxiddModel.Dddmp.Model

/-!
# Obligations: the per-node checks of the DDDMP importer against `Dddmp/Model.lean` (C15 / C14)

`SrcImport5.lean` (regenerated on every run by `tools/extract_tables5.py`) lists every `return` of
`import_ascii` and `import_bin` (`crates/oxidd-dump/src/dddmp/import.rs`) in source order with the
headers of all enclosing blocks and match arms (`err(<message>)` shortened to `err`), the places where
an edge is complemented, and — as comparison trees — the conditions of the range and level checks.
`Dddmp.importNodes` runs `importAscii` (`importAsciiLine`, `asciiChildren`) or `importBin`
(`importBinStep`, `readIdx`, `idFinish`); the obligations:

* **interpreter theorems**: the extracted conditions of `idx` (`id == 0`, `id >= node_id`) evaluate to
  "`idFinish` is an error" for all `id`, `node_id`; the level condition of `import_bin` evaluates to
  the test of `importBinStep`; the two conditions of the child loop of `import_ascii` evaluate to the
  tests of `asciiChildren` (child id below own id, level strictly above the child's level);
* **pinned tables**: the ordered guard lists (a check that is removed, added or moved — e.g. the
  level comparison in front of the complement — changes the table).
-/
namespace OxiddModel.Generated
open OxiddModel.Dddmp

/-- `idx` of `import_bin`: one of the extracted error conditions holds iff `idFinish` is an error -/
theorem import5_bin_idx_interp (nodeId id : Nat) (r : List Nat) :
    (imp5BinIdxGuards.any (F5.evalGate fun s => if s = "id" then id else if s = "node_id" then nodeId else 0)) =
      (match idFinish nodeId id r with | .err => true | _ => false) := by
  simp only [imp5BinIdxGuards, idFinish, List.any, F5.evalGate, F5.Cmp.eval, F5.Ex.eval]
  by_cases h0 : id = 0
  · simp [h0]
  · by_cases h1 : id ≥ nodeId <;> simp [h0, h1]

/-- the level check of `import_bin` **is** the test of `importBinStep` (`level ≥ A.level t || level ≥ A.level e`) -/
theorem import5_bin_level_interp (level tl el : Nat) :
    (imp5BinNodeGuards.any (F5.evalGate fun s => if s = "level" then level else if s = "t_level" then tl else if s = "e_level" then el else 0)) =
      (decide (level ≥ tl) || decide (level ≥ el)) := by
  simp [imp5BinNodeGuards, F5.evalGate, F5.Cmp.eval, F5.Ex.eval]

/-- the two checks of the child loop of `import_ascii` **are** the tests of `asciiChildren`, in this order -/
theorem import5_ascii_child_interp (childId nodeId level childLevel : Nat) :
    imp5AsciiChildGuards.map (F5.evalGate fun s => if s = "child_id" then childId else if s = "node_id" then nodeId
      else if s = "level" then level else if s = "child_level" then childLevel else 0) =
      [decide (childId ≥ nodeId), decide (level ≥ childLevel)] := by
  simp [imp5AsciiChildGuards, F5.evalGate, F5.Cmp.eval, F5.Ex.eval]

/-- the line checks of `import_ascii`: the id on the line is the expected one, the number of children is the arity -/
theorem import5_ascii_line_interp (lineId nodeId nchildren arity : Nat) :
    imp5AsciiLineGuards.map (F5.evalGate fun s => if s = "node_id_lineno" then lineId else if s = "node_id" then nodeId
      else if s = "children.len()" then nchildren else if s = "M::InnerNode::ARITY" then arity else 0) =
      [lineId != nodeId, nchildren != arity] := by
  simp [imp5AsciiLineGuards, F5.evalGate, F5.Cmp.eval, F5.Ex.eval]

/-- non-vacuity: the model rejects a child that is not below the node and a level that is not above the children's -/
example : idFinish 3 3 [] = .err ∧ idFinish 3 0 [] = .err ∧ idFinish 3 2 [] = .ok (1, []) := by decide

/-! ## pinned guard lists -/

/-- `Dddmp.importAsciiLine` / `asciiChildren` (`Dddmp/Model.lean`): per line: end of file, read error, id ≠ expected id, missing separators, arity, terminal parse errors; per inner node: variable in range (`suppvar_level_map.get`), per child: `child_id >= node_id` ⇒ error, complement (may fail with out-of-memory), `level >= child_level` ⇒ error — in this order -/
def Exp5.imp5Returns_import_ascii : List F5.Row :=
  [⟨[["for", "node_id", "in", "1", "..=", "header", ".", "nnodes"], ["match", "input", ".", "read_until", "(", "b", "'\\n'", ",", "&", "mut", "line", ")"], ["=>", "Ok", "(", "0", ")"]], "return", ["err"]⟩,
   ⟨[["for", "node_id", "in", "1", "..=", "header", ".", "nnodes"], ["match", "input", ".", "read_until", "(", "b", "'\\n'", ",", "&", "mut", "line", ")"], ["=>", "Err", "(", "e", ")"]], "return", ["Err", "(", "e", ")"]⟩,
   ⟨[["for", "node_id", "in", "1", "..=", "header", ".", "nnodes"], ["if", "node_id_lineno", "!=", "node_id"]], "return", ["err"]⟩,
   ⟨[["for", "node_id", "in", "1", "..=", "header", ".", "nnodes"], ["let", "rest", "=", "match", "header", ".", "varinfo"], ["=>", "VarInfo", "::", "VariableID", "|", "VarInfo", "::", "PermutationID", "|", "VarInfo", "::", "AuxiliaryID", "|", "VarInfo", "::", "VariableName"], ["match", "memchr", "::", "memchr2", "(", "b", "'", "'", ",", "b", "'\\t'", ",", "rest", ")"], ["=>", "None"]], "return", ["err"]⟩,
   ⟨[["for", "node_id", "in", "1", "..=", "header", ".", "nnodes"], ["let", "(", "rest", ",", "var_id", ")", "=", "match", "memchr", "::", "memchr2", "(", "b", "'", "'", ",", "b", "'\\t'", ",", "rest", ")"], ["=>", "None"]], "return", ["err"]⟩,
   ⟨[["for", "node_id", "in", "1", "..=", "header", ".", "nnodes"], ["if", "children", ".", "len", "(", ")", "!=", "M", "::", "InnerNode", "::", "ARITY"]], "return", ["err"]⟩,
   ⟨[["for", "node_id", "in", "1", "..=", "header", ".", "nnodes"], ["let", "node", "=", "if", "children", ".", "contains", "(", "&", "0", ")"], ["let", "string", "=", "match", "std", "::", "str", "::", "from_utf8", "(", "var_id", ")"], ["=>", "Err", "(", "_", ")"]], "return", ["err"]⟩,
   ⟨[["for", "node_id", "in", "1", "..=", "header", ".", "nnodes"], ["let", "node", "=", "if", "children", ".", "contains", "(", "&", "0", ")"], ["let", "Some", "(", "(", "terminal", ",", "tag", ")", ")", "=", "M", "::", "Terminal", "::", "parse", "(", "string", ")", "else"]], "return", ["err"]⟩,
   ⟨[["for", "node_id", "in", "1", "..=", "header", ".", "nnodes"], ["else", "/*", "after", "*/", "let", "node", "=", "if", "children", ".", "contains", "(", "&", "0", ")"], ["let", "Some", "(", "&", "level", ")", "=", "suppvar_level_map", ".", "get", "(", "var_id", "as", "usize", ")", "else"]], "return", ["err"]⟩,
   ⟨[["for", "node_id", "in", "1", "..=", "header", ".", "nnodes"], ["else", "/*", "after", "*/", "let", "node", "=", "if", "children", ".", "contains", "(", "&", "0", ")"], ["for", "&", "child", "in", "&", "children"], ["if", "child_id", ">=", "node_id"]], "return", ["err"]⟩,
   ⟨[["for", "node_id", "in", "1", "..=", "header", ".", "nnodes"], ["else", "/*", "after", "*/", "let", "node", "=", "if", "children", ".", "contains", "(", "&", "0", ")"], ["for", "&", "child", "in", "&", "children"], ["let", "e", "=", "if", "child", "<", "0"], ["match", "complement", "(", "manager", ",", "e", ")"], ["=>", "Err", "(", "OutOfMemory", ")"]], "return", ["Err", "(", "io", "::", "ErrorKind", "::", "OutOfMemory", ".", "into", "(", ")", ")"]⟩,
   ⟨[["for", "node_id", "in", "1", "..=", "header", ".", "nnodes"], ["else", "/*", "after", "*/", "let", "node", "=", "if", "children", ".", "contains", "(", "&", "0", ")"], ["for", "&", "child", "in", "&", "children"], ["if", "level", ">=", "child_level"]], "return", ["err"]⟩]

/-- the complement of a negative child id is taken before its level is compared (fix 16c2a8d; model: `let ce := if c < 0 then A.complement ce0 else ce0; if level ≥ A.level ce then .err`) -/
def Exp5.imp5Calls_import_ascii : List F5.Row :=
  [⟨[["for", "node_id", "in", "1", "..=", "header", ".", "nnodes"], ["else", "/*", "after", "*/", "let", "node", "=", "if", "children", ".", "contains", "(", "&", "0", ")"], ["for", "&", "child", "in", "&", "children"], ["let", "e", "=", "if", "child", "<", "0"]], "call", ["complement", "(", "manager", ",", "e", ")"]⟩]

/-- `Dddmp.importBinStep` / `readIdx` / `idFinish`: no terminal `T` ⇒ error (`Guards.noT`); `idx`: relative id underflow ⇒ error (`Guards.relId`), `id == 0`, `id >= node_id`; complement out-of-memory; absolute variable id out of range; relative variable id underflow (`Guards.relVar`); `suppvar_level_map.get(vid)`; `level >= t_level || level >= e_level`; `reduce`/insert out-of-memory -/
def Exp5.imp5Returns_import_bin : List F5.Row :=
  [⟨[["let", "Some", "(", "(", "terminal", ",", "tag", ")", ")", "=", "M", "::", "Terminal", "::", "parse", "(", "\"T\"", ")", "else"]], "return", ["err"]⟩,
   ⟨[["fn", "idx", "(", "input", ":", "impl", "io", "::", "BufRead", ",", "node_id", ":", "usize", ",", "code", ":", "Code", ")", "->", "io", "::", "Result", "<", "usize", ">"], ["let", "id", "=", "match", "code"], ["=>", "Code", "::", "RelativeID"], ["match", "node_id", ".", "checked_sub", "(", "decode_7bit", "(", "input", ")", "?", ")"], ["=>", "None"]], "return", ["err"]⟩,
   ⟨[["fn", "idx", "(", "input", ":", "impl", "io", "::", "BufRead", ",", "node_id", ":", "usize", ",", "code", ":", "Code", ")", "->", "io", "::", "Result", "<", "usize", ">"], ["if", "id", "==", "0"]], "return", ["err"]⟩,
   ⟨[["fn", "idx", "(", "input", ":", "impl", "io", "::", "BufRead", ",", "node_id", ":", "usize", ",", "code", ":", "Code", ")", "->", "io", "::", "Result", "<", "usize", ">"], ["if", "id", ">=", "node_id"]], "return", ["err"]⟩,
   ⟨[["for", "node_id", "in", "1", "..=", "header", ".", "nnodes"], ["let", "e", "=", "if", "e_complement"], ["match", "complement", "(", "manager", ",", "e", ".", "into_edge", "(", ")", ")"], ["=>", "Err", "(", "OutOfMemory", ")"]], "return", ["Err", "(", "io", "::", "ErrorKind", "::", "OutOfMemory", ".", "into", "(", ")", ")"]⟩,
   ⟨[["for", "node_id", "in", "1", "..=", "header", ".", "nnodes"], ["let", "vid", "=", "match", "var_code"], ["=>", "Code", "::", "AbsoluteID", "if", "vid", ">=", "suppvar_level_map", ".", "len", "(", ")"]], "return", ["err"]⟩,
   ⟨[["for", "node_id", "in", "1", "..=", "header", ".", "nnodes"], ["let", "vid", "=", "match", "var_code"], ["=>", "Code", "::", "RelativeID", "|", "Code", "::", "Relative1"], ["match", "child_min_suppvar", ".", "checked_sub", "(", "vid", ")"], ["=>", "None"]], "return", ["err"]⟩,
   ⟨[["for", "node_id", "in", "1", "..=", "header", ".", "nnodes"], ["let", "Some", "(", "&", "level", ")", "=", "suppvar_level_map", ".", "get", "(", "vid", ")", "else"]], "return", ["err"]⟩,
   ⟨[["for", "node_id", "in", "1", "..=", "header", ".", "nnodes"], ["if", "level", ">=", "t_level", "||", "level", ">=", "e_level"]], "return", ["err"]⟩,
   ⟨[["for", "node_id", "in", "1", "..=", "header", ".", "nnodes"], ["match", "<", "M", "::", "Rules", "as", "DiagramRules", "<", "_", ",", "_", ",", "_", ">>", "::", "reduce", "(", "manager", ",", "level", ",", "children", ")", ".", "then_insert", "(", "manager", ",", "level", ")"], ["=>", "Err", "(", "OutOfMemory", ")"]], "return", ["Err", "(", "io", "::", "ErrorKind", "::", "OutOfMemory", ".", "into", "(", ")", ")"]⟩]

/-- the else edge is complemented before `e_level` is read -/
def Exp5.imp5Calls_import_bin : List F5.Row :=
  [⟨[["for", "node_id", "in", "1", "..=", "header", ".", "nnodes"], ["let", "e", "=", "if", "e_complement"]], "call", ["complement", "(", "manager", ",", "e", ".", "into_edge", "(", ")", ")"]⟩]

theorem import5_Returns_import_ascii_as_modelled : imp5Returns_import_ascii = Exp5.imp5Returns_import_ascii := by decide
theorem import5_Calls_import_ascii_as_modelled : imp5Calls_import_ascii = Exp5.imp5Calls_import_ascii := by decide
theorem import5_Returns_import_bin_as_modelled : imp5Returns_import_bin = Exp5.imp5Returns_import_bin := by decide
theorem import5_Calls_import_bin_as_modelled : imp5Calls_import_bin = Exp5.imp5Calls_import_bin := by decide

/-- in `import_ascii` the complement of a child is taken *before* its level is compared (fix 16c2a8d):
the out-of-memory return of `complement` precedes the level check -/
theorem import5_ascii_complement_before_level :
    ((imp5Returns_import_ascii.filter fun r => r.guards.any (· = ["for", "&", "child", "in", "&", "children"])).map fun r => r.guards.getLast?) =
      [some ["if", "child_id", ">=", "node_id"], some ["=>", "Err", "(", "OutOfMemory", ")"], some ["if", "level", ">=", "child_level"]] := by decide

theorem import5_counts :
    [imp5Returns_import_ascii.length, imp5Returns_import_bin.length, imp5Calls_import_ascii.length, imp5Calls_import_bin.length,
      imp5BinIdxGuards.length, imp5BinNodeGuards.length, imp5AsciiLineGuards.length, imp5AsciiChildGuards.length]
      = [12, 10, 1, 1, 2, 1, 2, 2] := by decide

end OxiddModel.Generated
