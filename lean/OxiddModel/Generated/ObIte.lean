import OxiddModel.Generated.SrcIte
import OxiddModel.Generated.LemmasIteBdd
import OxiddModel.Generated.LemmasIteBcdd

/-!
# Obligations: the `apply_ite` prologues of the source are sound and are the models' (C02, C06)

`SrcIte.lean` is regenerated on every run from `apply_ite` of
`crates/oxidd-rules-bdd/src/simple/apply_rec.rs` and `…/complement_edge/apply_rec.rs`: the chain of
shortcut tests before the cache lookup (operands equal / same node with equal or different tags /
terminal with a value / inner) with the operand returned or the call delegated to, then the cache
tag and key, the level, the cofactors, the recursive calls and the node.

* `ite_rows_ok_*` (`decide`) + `ite_shortcuts_sound_*` (general, from `It.rows_sound`): for **all**
  operands and assignments the first extracted shortcut that fires returns a diagram whose value is
  `if f then g else h` — whatever the list is, as long as it passes the finite check.
* `ite_rows_*_as_modelled` (`decide`) + `apply_ite_*_as_modelled` (general): the extracted list is
  the model's list, so the model's `applyIte` unfolds into exactly the extracted prologue followed
  by the recursive case.
* `ite_tail_*`: cache tag `Ite` and key `[f, g, h]` for lookup and insertion of the result, level
  = minimum of the three, cofactors of each operand at that level, `(ft, gt, ht)` / `(fe, ge, he)`.
-/
namespace OxiddModel.Generated

theorem ite_nothing_unparsed : iteUnparsed = [] := by decide

/-- every extracted shortcut of the simple BDDs, in the context of the ones before it, is an
identity of `ite` on the 8 operand values compatible with its condition -/
theorem ite_rows_ok_bdd : It.rowsOK iteRows_bdd = true := by decide

theorem ite_rows_ok_bcdd : It.rowsOK iteRows_bcdd = true := by decide

/-- **Every extracted shortcut is an identity of `ite` in the model's semantics, for all operands**
(simple BDDs: `Bdd.BDD.eval`, results built by the model's `applyNot` / `applyBin`). -/
theorem ite_shortcuts_sound_bdd (f g h : Bdd.BDD) (e : It.IExpr)
    (hrun : It.bddSem.run iteRows_bdd f g h = some e) (σ : Nat → Bool) :
    (It.bddInterp e f g h).eval σ = if f.eval σ then g.eval σ else h.eval σ :=
  It.rows_sound It.bddSem iteRows_bdd ite_rows_ok_bdd f g h e hrun σ

/-- … and for complement edges (`Bcdd.Edge.eval`, `applyNot` / `applyAnd` / `applyBin .xor`). -/
theorem ite_shortcuts_sound_bcdd (f g h : Bcdd.Edge) (e : It.IExpr)
    (hrun : It.bcddSem.run iteRows_bcdd f g h = some e) (σ : Nat → Bool) :
    (It.bcddInterp e f g h).eval σ = if f.eval σ then g.eval σ else h.eval σ :=
  It.rows_sound It.bcddSem iteRows_bcdd ite_rows_ok_bcdd f g h e hrun σ

/-- the extracted sequences are the models' shortcut lists -/
theorem ite_rows_bdd_as_modelled : iteRows_bdd = It.modelRowsBdd := by decide

theorem ite_rows_bcdd_as_modelled : iteRows_bcdd = It.modelRowsBcdd := by decide

/-- **`Bdd.applyIte` is the extracted prologue followed by the recursive case** — for all operands. -/
theorem apply_ite_bdd_as_modelled (f g h : Bdd.BDD) :
    Bdd.applyIte f g h =
      match It.bddSem.run iteRows_bdd f g h with
      | some e => It.bddInterp e f g h
      | none => It.bddIteRec f g h := by
  rw [ite_rows_bdd_as_modelled]; exact It.bdd_applyIte_unfold f g h

theorem apply_ite_bcdd_as_modelled (f g h : Bcdd.Edge) :
    Bcdd.applyIte f g h =
      match It.bcddSem.run iteRows_bcdd f g h with
      | some e => It.bcddInterp e f g h
      | none => It.bcddIteRec f g h := by
  rw [ite_rows_bcdd_as_modelled]; exact It.bcdd_applyIte_unfold f g h

/-- what follows the prologue (both kinds): the cache is queried and filled under the tag `Ite` with
the key `[f, g, h]` and the node just built; the level is the minimum of the three operands'
levels; each operand is replaced by its cofactors exactly when it is at that level; the recursion
pairs the then-cofactors and the else-cofactors; `reduce(level, then, else)` -/
def iteTailExpected : List (String × List String) :=
  [("getTag", ["Ite"]), ("getKey", ["f", "g", "h"]), ("addTag", ["Ite"]), ("addKey", ["f", "g", "h"]),
   ("addValue", ["result"]), ("level", ["min3"]), ("cofactors", ["f", "g", "h"]),
   ("ternary", ["ft", "gt", "ht", "fe", "ge", "he"]), ("reduce", ["then", "else"])]

theorem ite_tail_bdd : iteTail_bdd = iteTailExpected := by decide
theorem ite_tail_bcdd : iteTail_bcdd = iteTailExpected := by decide

/-- non-vacuity: a shortcut fires (`ite(x0, ⊤, x1)` is delegated to `or`) and the recursive case is reached -/
example : It.bddSem.run iteRows_bdd (.node 0 (.leaf true) (.leaf false)) (.leaf true) (.node 1 (.leaf true) (.leaf false))
    = some (.bin .or (.opnd .f) (.opnd .h)) := by decide
example : It.bddSem.run iteRows_bdd (.node 0 (.leaf true) (.leaf false)) (.node 1 (.leaf true) (.leaf false))
    (.node 2 (.leaf true) (.leaf false)) = none := by decide

/-- a wrong shortcut (`f == h ⇒ f ∨ g`) is rejected by the finite check -/
example : It.rowsOK [⟨[.same .f .h], .bin .or (.opnd .f) (.opnd .g)⟩] = false := by decide
/-- the terminal/terminal row is sound only because `g == h` was tested before -/
example : It.rowsOK [⟨[.term .g true, .termAny .h], .opnd .f⟩] = false := by decide

end OxiddModel.Generated
