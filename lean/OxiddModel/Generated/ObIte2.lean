import OxiddModel.Generated.SrcIte2
import OxiddModel.Generated.LemmasIte2

/-!
# Obligations: the `apply_ite` prologues of TDD, MTBDD and ZBDD are the models' (C11, C10, C02)

`SrcIte2.lean` is regenerated on every run from `apply_ite_rec` (`oxidd-rules-tdd`), `apply_ite`
(`oxidd-rules-mtbdd`) and `apply_ite` (`oxidd-rules-zbdd`): the chain of shortcut tests before the
cache lookup with the operand returned / the kernel delegated to (operator and operand order), and
for MTBDD / TDD the level, the cofactors, the recursive calls and the node that follow.

* `ite2_rows_*_as_modelled` (`decide`): the extracted decision lists are the models' lists;
* `apply_ite_tdd_prologue`, `apply_ite_mtbdd_as_modelled`, `apply_ite_zbdd_shortcuts` (general, for
  all operands): `Tdd.iteShortcut` (the early returns of `Tdd.applyIte`) *is* the extracted list;
  `Mtbdd.applyIte` is "the extracted list, else the Shannon expansion"; whenever an extracted ZBDD
  row fires `Zbdd.applyIte` returns its result.
  The soundness of the shortcuts is then the models' own `applyIte_sem` / `applyIte_eval`.
-/
namespace OxiddModel.Generated
open I2

theorem ite2_nothing_unparsed : ite2Unparsed = [] := by decide

theorem ite2_rows_tdd_as_modelled : ite2Rows_tdd = I2.modelRowsTdd := by decide
theorem ite2_rows_mtbdd_as_modelled : ite2Rows_mtbdd = I2.modelRowsMtbdd := by decide
theorem ite2_rows_zbdd_as_modelled : ite2Rows_zbdd = I2.modelRowsZbdd := by decide

/-- **the early returns of the TDD `apply_ite_rec` as modelled (`Tdd.iteShortcut`, the prologue of
`Tdd.applyIte`) are the extracted decision list** — for all operands -/
theorem apply_ite_tdd_prologue (gt : Tdd.TD → Tdd.TD → Bool) (f g h : Tdd.TD) :
    Tdd.iteShortcut gt f g h = I2.tddRun gt f g h ite2Rows_tdd := by
  rw [ite2_rows_tdd_as_modelled]; exact I2.tdd_iteShortcut_eq_rows gt f g h

/-- **`Mtbdd.applyIte` is the extracted prologue followed by the recursive case** — for all
operands and terminal types: `g == h ⇒ g`; `f` terminal: `0 ⇒ h`, anything else `⇒ g` -/
theorem apply_ite_mtbdd_as_modelled {T : Type} [DecidableEq T] (L : Mtbdd.TermOps T) (f g h : Mtbdd.MT T) :
    Mtbdd.applyIte L f g h =
      match I2.mtRun L f g h ite2Rows_mtbdd with
      | some r => r
      | none =>
        match f with
        | .leaf _ => g
        | .node lf ft fe =>
          let level := Mtbdd.minLevel (Mtbdd.minLevel lf g) h
          Mtbdd.mk level
            (Mtbdd.applyIte L (Mtbdd.cof level (.node lf ft fe)).1 (Mtbdd.cof level g).1 (Mtbdd.cof level h).1)
            (Mtbdd.applyIte L (Mtbdd.cof level (.node lf ft fe)).2 (Mtbdd.cof level g).2 (Mtbdd.cof level h).2) := by
  rw [ite2_rows_mtbdd_as_modelled]; exact I2.mtbdd_applyIte_unfold L f g h

/-- **whenever an extracted ZBDD shortcut fires, `Zbdd.applyIte` returns its result** (the operand,
`f ∪ h`, `f ∩ g`, `h ∖ f`), for all operands and numbers of levels; the tautology the last two
rows compare with is the one at `min(flevel, min(glevel, hlevel))` -/
theorem apply_ite_zbdd_shortcuts (n : Nat) (f g h r : Zbdd.ZDD) (hr : I2.zRun n f g h ite2Rows_zbdd = some r) :
    Zbdd.applyIte n f g h = r := by
  rw [ite2_rows_zbdd_as_modelled] at hr; exact I2.zbdd_applyIte_shortcut n f g h r hr

/-- what follows the prologue: level = minimum of the three, each operand replaced by its cofactors
exactly when it is at that level, the recursion pairs like cofactors, `reduce(level, …)` in child
order; ZBDD: the tautology level -/
theorem ite2_tails :
    ite2Facts_mtbdd = [("level", "min3"), ("cofactors", "f g h"), ("recursion", "ft gt ht | fe ge he"), ("reduce", "t e")] ∧
    ite2Facts_tdd = [("level", "min3"), ("cofactors", "f g h"), ("recursion", "f0 g0 h0 | f1 g1 h1 | f2 g2 h2"), ("reduce", "t u e")] ∧
    ite2Facts_zbdd = [("tautologyLevel", "min(flevel, min(glevel, hlevel))")] := by decide

/-- non-vacuity: `ite(x0, ⊤, x1)` is delegated to `or`; three inner nodes reach the recursive case -/
example : I2.tddRun (fun _ _ => false) (Tdd.TD.node 0 (.leaf .t) (.leaf .u) (.leaf .f)) (.leaf .t) (Tdd.TD.node 1 (.leaf .t) (.leaf .u) (.leaf .f)) ite2Rows_tdd =
    some (Tdd.applyBin (fun _ _ => false) .or (Tdd.TD.node 0 (.leaf .t) (.leaf .u) (.leaf .f)) (Tdd.TD.node 1 (.leaf .t) (.leaf .u) (.leaf .f))) := by
  rw [ite2_rows_tdd_as_modelled]; simp [I2.modelRowsTdd, I2.tddRun, I2.tddAtom, I2.tddVal, I2.tddRes, I2.tddOp, I2.triOf, Tdd.TD.isLeaf]
/-- a wrong list (`f == h ⇒ f ∨ g`) is not the model's -/
example : ([⟨[.same .g .h], .opnd .g⟩, ⟨[.same .f .g], .bin "apply_bin" "Or" .f .h⟩, ⟨[.same .f .h], .bin "apply_bin" "Or" .f .g⟩] : List I2.Row)
    ≠ I2.modelRowsTdd.take 3 := by decide

end OxiddModel.Generated
