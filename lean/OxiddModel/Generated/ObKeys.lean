import OxiddModel.Generated.SrcFacts
import OxiddModel.Generated.SrcKeys
import OxiddModel.Generated.LemmasKeys

/-!
# Obligations: the cache keys of `quant` / `apply_quant` / `restrict` / `substitute` are the models' (C04, C06)

`SrcKeys.lean` is regenerated on every run from every `apply_cache().get / add / get_extended /
add_extended` of `crates/oxidd-rules-bdd/src/simple/apply_rec.rs`, from `quant`'s operator table and
from `BDDOp::from_apply_quant` (`simple/mod.rs`).

The store-level models (`Bdd/QuantS.lean`, `ApplyQuantS.lean`, `RestrictS.lean`, `SubstS.lean`) look
up and store under `quantKey q f vars`, `applyQuantKey q op f g vars`, `restrictKey f vars`,
`substKey f id` (`Bdd/CacheX.lean`); `Bdd/PropertiesC04S.lean` proves that exactly these keys make the
cache sound (`quant_key_has_vars`, `apply_quant_key_full`, `restrict_key_has_cube`, `subst_key_has_id`)
and that dropping a component does not (`quant_key_without_vars_unsound`, …).  Here: the source
builds these keys — same operator, same operands in the same order, the numeric substitution id —
for the lookup *and* for the insertion, inserts the edge it returns, and the operator values are the
discriminants the model's injective `encKey` uses (`XOp.code` = `BDDOp as u8`).
-/
namespace OxiddModel.Generated
open OxiddModel.Bdd OxiddModel.Bdd.Refine

theorem keys_nothing_unparsed : keysUnparsed = [] := by decide

/-- the four functions access the cache exactly as modelled (one lookup, one insertion each, same
operator / operands / numeric operands, the inserted value is the returned edge); the only other
functions with cache accesses are `apply_not`, `apply_bin`, `apply_ite` -/
theorem key_rows_as_modelled :
    keyRows.filter (fun r => r.fn ∈ ["substitute", "restrict", "quant", "apply_quant"]) = Ky.modelRows ∧
    (keyRows.map (·.fn)).eraseDups =
      ["apply_not", "apply_bin", "apply_ite", "substitute", "restrict", "quant", "apply_quant"] := by
  decide

/-- **The key of every extracted access of the four functions is the model's key function** — for
all operand edges, substitution ids, quantifiers and operators. -/
theorem keys_as_modelled (r : Ky.KeyRow) (hr : r ∈ keyRows)
    (hf : r.fn ∈ ["substitute", "restrict", "quant", "apply_quant"]) (q : Quant) (op : Op) (ρ : Ky.Env) :
    r.xkey q op ρ = Ky.modelKey r.fn q op ρ := by
  apply Ky.modelRows_key
  rw [← key_rows_as_modelled.1]
  exact List.mem_filter.2 ⟨hr, by simpa using hf⟩

/-- in particular (the statements `quant_key_has_vars` etc. are about): -/
theorem quant_access_key (q : Quant) (f vars : Edge) (ρ : Ky.Env) (hf : ρ.f = f) (hv : ρ.vars = vars)
    (r : Ky.KeyRow) (hr : r ∈ keyRows) (hfn : r.fn = "quant") (op : Op) :
    r.xkey q op ρ = some (quantKey q f vars) := by
  rw [keys_as_modelled r hr (by simp [hfn]), hfn, ← hf, ← hv]; rfl

theorem apply_quant_access_key (q : Quant) (op : Op) (ρ : Ky.Env)
    (r : Ky.KeyRow) (hr : r ∈ keyRows) (hfn : r.fn = "apply_quant") :
    r.xkey q op ρ = some (applyQuantKey q op ρ.f ρ.g ρ.vars) := by
  rw [keys_as_modelled r hr (by simp [hfn]), hfn]; rfl

theorem restrict_access_key (ρ : Ky.Env) (r : Ky.KeyRow) (hr : r ∈ keyRows) (hfn : r.fn = "restrict")
    (q : Quant) (op : Op) : r.xkey q op ρ = some (restrictKey ρ.f ρ.vars) := by
  rw [keys_as_modelled r hr (by simp [hfn]), hfn]; rfl

theorem substitute_access_key (ρ : Ky.Env) (r : Ky.KeyRow) (hr : r ∈ keyRows) (hfn : r.fn = "substitute")
    (q : Quant) (op : Op) : r.xkey q op ρ = some (substKey ρ.f ρ.cacheId) := by
  rw [keys_as_modelled r hr (by simp [hfn]), hfn]; rfl

/-- `quant` memoises `Q = And / Or / Xor` under `Forall / Exists / Unique`, whose discriminants are
`XOp.code (.quant q)` with `Quant.op q = Q` -/
theorem quant_operator_table :
    quantOperatorRows.all (Ky.quantRowOK enumBDDOp) = true ∧
    quantOperatorRows.map (·.1) = [.and, .or, .xor] := by
  decide

/-- `from_apply_quant(q, op)`: all 24 combinations, each mapped to the variant whose discriminant is
`XOp.code (.applyQuant q op)` — so distinct (q, op) never share a tag -/
theorem from_apply_quant_table :
    fromApplyQuantRows.all (Ky.faqRowOK enumBDDOp) = true ∧
    fromApplyQuantRows.map (fun r => (r.1, r.2.1)) =
      [Ky.KOp.and, .or, .xor].flatMap (fun q =>
        [Ky.KOp.and, .or, .nand, .nor, .xor, .equiv, .imp, .impStrict].map (fun o => (q, o))) := by
  decide

/-- the literal tags -/
theorem literal_tags :
    Ky.idx enumBDDOp "Substitute" = XOp.substitute.code ∧ Ky.idx enumBDDOp "Restrict" = XOp.restrict.code := by
  decide

/-- the variable set is shortened before the lookup, to the level the models use
(`QuantS`: `fn.level`; `ApplyQuantS`: `min fl gl`), not for `Unique` -/
theorem key_pops_as_modelled :
    keyPops = [⟨"quant", .flevel, true, true⟩, ⟨"apply_quant", .minLevel, true, true⟩] := by decide

/-- non-vacuity -/
example : (⟨"quant", false, .quantVar, [.f, .vars], [], ""⟩ : Ky.KeyRow) ∈ keyRows := by decide
/-- a key that drops `vars` is not the model's -/
example : (⟨"quant", false, .quantVar, [.f], [], ""⟩ : Ky.KeyRow).xkey .exists_ .and ⟨.inner 1, .inner 2, .inner 3, .inner 4, 5⟩
    ≠ some (quantKey .exists_ (.inner 1) (.inner 4)) := by decide

end OxiddModel.Generated
