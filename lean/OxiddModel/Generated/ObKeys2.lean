import OxiddModel.Generated.SrcFacts
import OxiddModel.Generated.SrcKeys2
import OxiddModel.Generated.LemmasKeys2

/-!
# Obligations: the cache keys of the BCDD / ZBDD / MTBDD / TDD rules (C06, C04, C09)

`SrcKeys2.lean` is regenerated on every run from every `apply_cache().get / add / get_extended /
add_extended` of `complement_edge/apply_rec.rs`, `oxidd-rules-zbdd/src/apply_rec.rs`,
`oxidd-rules-mtbdd/src/apply_rec.rs`, `oxidd-rules-tdd/src/apply_rec.rs`: operator, edge operands,
numeric operands — each operand with the *binding* it refers to, so that a key built from a
shadowed variable differs from one built from the variable of the same name — and the defining
expression of every `let`-bound operand.

* `keys2_get_add_same` (`decide`) + `Ky2.get_add_same_key` (general): in every function the lookup
  and the insertion use the same key under every valuation, and the inserted edge is the result.
* `key_complete_*`: every parameter the result depends on is in the key — ZBDD `subset0/1/change`:
  the variable; ZBDD `restrict`: `manager.num_levels()` (the historic defect); substitution: the id;
  quantification: the (popped) variable set; BCDD `restrict`: the untagged `f`, the complement is
  put back on the cached and on the computed result alike.
* `zbdd_keys_as_modelled`: each ZBDD row denotes, for all operands, the `ZKey` the store-level
  models use (`Zbdd/SetOpsS.lean`: `⟨setTag op, [f, g], []⟩`, `⟨subsetTag op, [f], [var]⟩`;
  `Zbdd/RestrictS.lean`: `⟨.restrict, [f, vars], [n]⟩`; `Zbdd/IteS.lean`: `⟨.ite, [f, g, h], []⟩`), whose
  `encKey` is injective (`encKey_inj`) and whose entries `specZ` gives a meaning to.
* `bcdd_apply_bin_key_as_modelled`: `Bcdd.Refine.keyOf op f g` of `Bcdd/ApplyS.lean`;
  `mtbdd_tdd_keys_as_modelled`: `(tag, [o1, o2])` = the triple returned by `terminal_bin`, as in
  `Mtbdd/StoreS.lean` / `Tdd/StoreS.lean` `applyS`.
-/
namespace OxiddModel.Generated
open Ky2

theorem keys2_nothing_unparsed : keys2Unparsed = [] := by decide

/-- every function with cache accesses has one lookup and one insertion under the same key
(operator, operands by name *and binding*, numeric operands) and inserts the edge it returns -/
theorem keys2_get_add_same : Ky2.pairsOK keyRows2 = true := by decide

/-- … hence, for all run-time values of the operands, lookup key = insertion key -/
theorem keys2_get_add_same_all {τ ε : Type} (v : Ky2.Val τ ε) (g a : Ky2.Row) (hg : g ∈ keyRows2) (ha : a ∈ keyRows2)
    (hk : a.kind = g.kind) (hf : a.fn = g.fn) (hgi : g.isAdd = false) (hai : a.isAdd = true) :
    g.eval v = a.eval v :=
  Ky2.get_add_same_key v keyRows2 keys2_get_add_same g a hg ha hk hf hgi hai

/-- the functions with cache accesses, per kind -/
theorem keys2_functions :
    Ky2.fns keyRows2 =
      [("bcdd", "apply_bin"), ("bcdd", "apply_ite"), ("bcdd", "substitute"), ("bcdd", "restrict"),
       ("bcdd", "quant"), ("bcdd", "apply_quant"),
       ("zbdd", "subset"), ("zbdd", "restrict"), ("zbdd", "apply_union"), ("zbdd", "apply_intsec"),
       ("zbdd", "apply_diff"), ("zbdd", "apply_symm_diff"), ("zbdd", "apply_ite"),
       ("mtbdd", "apply_bin"), ("mtbdd", "restrict"), ("mtbdd", "apply_ite"),
       ("tdd", "apply_not"), ("tdd", "apply_bin"), ("tdd", "apply_ite_rec")] := by decide

/-- the lookup keys -/
def lookups (kind : String) : List (String × Ky2.Tag × List Ky2.Opd × List Ky2.Opd) :=
  (keyRows2.filter (fun r => r.kind == kind && !r.isAdd)).map (fun r => (r.fn, r.key))

/-- the shapes of the `let`-bound operands of one function -/
def defsOf (kind fn : String) : List (String × Nat × String) :=
  (keyDefs2.filter (fun d => d.kind == kind && d.fn == fn)).map (fun d => (d.name, d.ord, d.shape))

/-! ## ZBDD (C09, C06) -/

/-- **`subset0 / subset1 / change`: the variable is in the key** — `(op, [f], [var])` with `f`, `var`
the parameters and `op` the operator of `VAL` -/
theorem key_complete_subset :
    (lookups "zbdd").lookup "subset" = some (.var "op" 1, [("f", 0)], [("var", 0)]) ∧
    defsOf "zbdd" "subset" = [("op", 1, "table")] ∧
    keyTagTables2.filter (fun t => t.1 == "zbdd") =
      [("zbdd", "subset", "-1", "Change"), ("zbdd", "subset", "0", "Subset0"), ("zbdd", "subset", "1", "Subset1")] := by
  decide

/-- **`restrict`: the number of levels is in the key** — `(Restrict, [f, vars], [manager.num_levels()])` -/
theorem key_complete_restrict_zbdd :
    (lookups "zbdd").lookup "restrict" = some (.lit "Restrict", [("f", 0), ("vars", 0)], [("num_levels", 1)]) ∧
    defsOf "zbdd" "restrict" = [("num_levels", 1, "numLevels")] := by decide

/-- the set operations: `(Op, [f, g], [])`, the operand pair made unique for the commutative ones only -/
theorem key_complete_setops :
    (lookups "zbdd").lookup "apply_union" = some (.lit "Union", [("f", 1), ("g", 1)], []) ∧
    (lookups "zbdd").lookup "apply_intsec" = some (.lit "Intsec", [("f", 1), ("g", 1)], []) ∧
    (lookups "zbdd").lookup "apply_symm_diff" = some (.lit "SymmDiff", [("f", 1), ("g", 1)], []) ∧
    (lookups "zbdd").lookup "apply_diff" = some (.lit "Diff", [("f", 0), ("g", 0)], []) ∧
    (lookups "zbdd").lookup "apply_ite" = some (.lit "Ite", [("f", 0), ("g", 0), ("h", 0)], []) ∧
    defsOf "zbdd" "apply_union" = [("f", 1, "sortedPair"), ("g", 1, "sortedPair")] ∧
    defsOf "zbdd" "apply_intsec" = [("f", 1, "sortedPair"), ("g", 1, "sortedPair")] ∧
    defsOf "zbdd" "apply_symm_diff" = [("f", 1, "sortedPair"), ("g", 1, "sortedPair")] ∧
    defsOf "zbdd" "apply_diff" = [] := by
  refine ⟨?_, ?_, ?_, ?_, ?_, ?_, ?_, ?_, ?_⟩ <;> decide

open OxiddModel.Zbdd OxiddModel.Zbdd.Refine in
/-- **every ZBDD access denotes the key of the store-level models** — for all operands, variables,
numbers of levels and subset operators, lookup and insertion alike -/
theorem zbdd_keys_as_modelled (ρ : Ky2.ZEnv) (sop : SubsetOp) (r : Ky2.Row) (hr : r ∈ keyRows2) (hk : r.kind = "zbdd") :
    r.zkey ρ sop =
      if r.fn = "subset" then some ⟨subsetTag sop, [ρ.f], [ρ.var]⟩
      else if r.fn = "restrict" then some ⟨.restrict, [ρ.f, ρ.vars], [ρ.numLevels]⟩
      else if r.fn = "apply_union" then some ⟨setTag .union, [ρ.fs, ρ.gs], []⟩
      else if r.fn = "apply_intsec" then some ⟨setTag .intsec, [ρ.fs, ρ.gs], []⟩
      else if r.fn = "apply_diff" then some ⟨setTag .diff, [ρ.f, ρ.g], []⟩
      else if r.fn = "apply_symm_diff" then some ⟨setTag .symmDiff, [ρ.fs, ρ.gs], []⟩
      else some ⟨.ite, [ρ.f, ρ.g, ρ.h], []⟩ := by
  have hmem : r ∈ keyRows2.filter (fun r => r.kind == "zbdd") := List.mem_filter.2 ⟨hr, by simp [hk]⟩
  rw [show keyRows2.filter (fun r => r.kind == "zbdd") =
    [⟨"zbdd", "subset", false, .var "op" 1, [("f", 0)], [("var", 0)], ""⟩,
     ⟨"zbdd", "subset", true, .var "op" 1, [("f", 0)], [("var", 0)], "result"⟩,
     ⟨"zbdd", "restrict", false, .lit "Restrict", [("f", 0), ("vars", 0)], [("num_levels", 1)], ""⟩,
     ⟨"zbdd", "restrict", true, .lit "Restrict", [("f", 0), ("vars", 0)], [("num_levels", 1)], "result"⟩,
     ⟨"zbdd", "apply_union", false, .lit "Union", [("f", 1), ("g", 1)], [], ""⟩,
     ⟨"zbdd", "apply_union", true, .lit "Union", [("f", 1), ("g", 1)], [], "result"⟩,
     ⟨"zbdd", "apply_intsec", false, .lit "Intsec", [("f", 1), ("g", 1)], [], ""⟩,
     ⟨"zbdd", "apply_intsec", true, .lit "Intsec", [("f", 1), ("g", 1)], [], "result"⟩,
     ⟨"zbdd", "apply_diff", false, .lit "Diff", [("f", 0), ("g", 0)], [], ""⟩,
     ⟨"zbdd", "apply_diff", true, .lit "Diff", [("f", 0), ("g", 0)], [], "result"⟩,
     ⟨"zbdd", "apply_symm_diff", false, .lit "SymmDiff", [("f", 1), ("g", 1)], [], ""⟩,
     ⟨"zbdd", "apply_symm_diff", true, .lit "SymmDiff", [("f", 1), ("g", 1)], [], "result"⟩,
     ⟨"zbdd", "apply_ite", false, .lit "Ite", [("f", 0), ("g", 0), ("h", 0)], [], ""⟩,
     ⟨"zbdd", "apply_ite", true, .lit "Ite", [("f", 0), ("g", 0), ("h", 0)], [], "result"⟩] from by decide] at hmem
  simp only [List.mem_cons, List.not_mem_nil, or_false] at hmem
  rcases hmem with rfl | rfl | rfl | rfl | rfl | rfl | rfl | rfl | rfl | rfl | rfl | rfl | rfl | rfl <;> cases sop <;> rfl

/-! ## BCDD (C04, C06) -/

/-- the BCDD keys: `apply_bin` under the kernel's operator with the ordered operands;
`substitute` with the substitution id; `restrict` with the *untagged* `f` and the cube; `quant`
with the popped-and-borrowed variable set; `apply_quant` with `f`, `g` and the popped set -/
theorem key_complete_bcdd :
    lookups "bcdd" =
      [("apply_bin", .var "op" 1, [("f", 1), ("g", 1)], []),
       ("apply_ite", .lit "Ite", [("f", 0), ("g", 0), ("h", 0)], []),
       ("substitute", .lit "Substitute", [("f", 0)], [("cache_id", 0)]),
       ("restrict", .lit "Restrict", [("f_untagged", 1), ("vars", 0)], []),
       ("quant", .var "operator" 1, [("f", 0), ("vars", 2)], []),
       ("apply_quant", .var "operator" 1, [("f", 1), ("g", 1), ("vars", 1)], [])] ∧
    defsOf "bcdd" "apply_bin" = [("op", 1, "terminalKernels"), ("f", 1, "terminalKernels"), ("g", 1, "terminalKernels")] ∧
    defsOf "bcdd" "restrict" = [("f_untagged", 1, "untag:f")] ∧
    defsOf "bcdd" "quant" = [("operator", 1, "table"), ("vars", 2, "alias:vars")] ∧
    defsOf "bcdd" "apply_quant" =
      [("operator", 1, "fromApplyQuant"), ("f", 1, "terminalKernels"), ("g", 1, "terminalKernels"),
       ("vars", 1, "pop:min_level:exceptUnique")] := by
  refine ⟨?_, ?_, ?_, ?_, ?_⟩ <;> decide

/-- BCDD `restrict` normalises the complement tag out of the key (`f.with_tag(None)`) and puts it
back (`tag(result) ^ f_tag`, `f_tag` = `Complemented` iff `f` was) on the cached result *and* on the
computed one -/
theorem bcdd_restrict_tags :
    bcddRestrictTags =
      [("f_untagged", "f.with_tag(EdgeTag::None)"),
       ("f_tag", "iff_neg{EdgeTag::Complemented}else{EdgeTag::None}"),
       ("return", "tag(res)^f_tag"), ("return", "tag(res)^f_tag")] := by decide

/-- BCDD `quant` / `apply_quant` operators: `Q ↦ Forall / Exists / Unique`, and
`from_apply_quant(q, op)` gives each admissible pair its own variant of `BCDDOp` -/
theorem bcdd_operator_tables :
    keyTagTables2.filter (fun t => t.1 == "bcdd") =
      [("bcdd", "quant", "Forall", "Forall"), ("bcdd", "quant", "Exists", "Exists"), ("bcdd", "quant", "Unique", "Unique")] ∧
    fromApplyQuantRows_bcdd =
      [("Forall", "And", "ForallAnd"), ("Forall", "Xor", "ForallXor"), ("Exists", "And", "ExistAnd"),
       ("Exists", "Xor", "ExistXor"), ("Unique", "And", "UniqueAnd"), ("Unique", "UniqueNand", "UniqueNand"),
       ("Unique", "Xor", "UniqueXor")] ∧
    (fromApplyQuantRows_bcdd.map (·.2.2)).eraseDups.length = fromApplyQuantRows_bcdd.length ∧
    fromApplyQuantRows_bcdd.all (fun r => enumBCDDOp.contains r.2.2) = true := by decide

open OxiddModel.Bcdd OxiddModel.Bcdd.Refine in
/-- the `apply_bin` accesses denote `keyOf op f g` of `Bcdd/ApplyS.lean` (`binS`), for all operands -/
theorem bcdd_apply_bin_key_as_modelled (op : BOp) (fs gs : EdgeC) (r : Ky2.Row) (hr : r ∈ keyRows2)
    (hk : r.kind = "bcdd") (hf : r.fn = "apply_bin") : r.ckey op fs gs = some (keyOf op fs gs) := by
  have hmem : r ∈ keyRows2.filter (fun r => r.kind == "bcdd" && r.fn == "apply_bin") :=
    List.mem_filter.2 ⟨hr, by simp [hk, hf]⟩
  rw [show keyRows2.filter (fun r => r.kind == "bcdd" && r.fn == "apply_bin") =
    [⟨"bcdd", "apply_bin", false, .var "op" 1, [("f", 1), ("g", 1)], [], ""⟩,
     ⟨"bcdd", "apply_bin", true, .var "op" 1, [("f", 1), ("g", 1)], [], "result"⟩] from by decide] at hmem
  simp only [List.mem_cons, List.not_mem_nil, or_false] at hmem
  rcases hmem with rfl | rfl <;> rfl

/-! ## MTBDD, TDD (C06) -/

/-- MTBDD / TDD: `apply_bin` looks up and stores under `(operator, [op1, op2])`, the triple
`terminal_bin` returned (`applyS` of `Mtbdd/StoreS.lean`, `Tdd/StoreS.lean`: `(tag, [o1, o2])`);
`restrict`, `ite`, `not` under their literal operator with their operands -/
theorem mtbdd_tdd_keys_as_modelled :
    lookups "mtbdd" =
      [("apply_bin", .var "operator" 1, [("op1", 1), ("op2", 1)], []),
       ("restrict", .lit "Restrict", [("f", 0), ("vars", 0)], []),
       ("apply_ite", .lit "Ite", [("f", 0), ("g", 0), ("h", 0)], [])] ∧
    lookups "tdd" =
      [("apply_not", .lit "Not", [("f", 0)], []),
       ("apply_bin", .var "operator" 1, [("op1", 1), ("op2", 1)], []),
       ("apply_ite_rec", .lit "Ite", [("f", 0), ("g", 0), ("h", 0)], [])] ∧
    defsOf "mtbdd" "apply_bin" = [("operator", 1, "terminalBin"), ("op1", 1, "terminalBin"), ("op2", 1, "terminalBin")] ∧
    defsOf "tdd" "apply_bin" = [("operator", 1, "terminalBin"), ("op1", 1, "terminalBin"), ("op2", 1, "terminalBin")] := by
  refine ⟨?_, ?_, ?_, ?_⟩ <;> decide

/-- the literal operators are variants of the kind's operator enum -/
theorem keys2_literal_tags :
    (keyRows2.all fun r => match r.tag with
      | .lit s => (if r.kind == "bcdd" then enumBCDDOp else if r.kind == "zbdd" then enumZBDDOp
                   else if r.kind == "mtbdd" then enumMTBDDOp else enumTDDOp).contains s
      | .var _ _ => true
      | .other _ => false) = true := by decide

/-- non-vacuity / the seeded shapes: a subset key without the variable, a restrict key without the
number of levels, a lookup and an insertion that name different bindings of `vars` -/
example : (⟨"zbdd", "subset", false, .var "op" 1, [("f", 0)], [], ""⟩ : Ky2.Row).zkey ⟨.inner 1, .inner 2, .inner 3, .inner 4, .inner 1, .inner 2, 5, 6⟩ .subset0
    ≠ some ⟨.subset0, [.inner 1], [5]⟩ := by decide
example : (⟨"zbdd", "restrict", false, .lit "Restrict", [("f", 0), ("vars", 0)], [], ""⟩ : Ky2.Row).zkey ⟨.inner 1, .inner 2, .inner 3, .inner 4, .inner 1, .inner 2, 5, 6⟩ .subset0
    ≠ some ⟨.restrict, [.inner 1, .inner 4], [6]⟩ := by decide
example : Ky2.pairsOK [⟨"bcdd", "quant", false, .var "operator" 1, [("f", 0), ("vars", 2)], [], ""⟩,
                        ⟨"bcdd", "quant", true, .var "operator" 1, [("f", 0), ("vars", 1)], [], "result"⟩] = false := by decide

end OxiddModel.Generated
