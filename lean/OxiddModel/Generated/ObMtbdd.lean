import OxiddModel.Generated.ObCommon

/-!
# Obligations over the MTBDD tables (C06, C10)

`SrcFacts.lean` is regenerated from `/repo` on every run; these theorems are re-checked against it.
One module per diagram kind / concern, so that a change to an unrelated table never breaks it.
-/
namespace OxiddModel.Generated

theorem memo_tag_ok_mtbdd : memoOK memoTags_mtbdd = true := by decide
theorem memo_ops_mtbdd : memoTags_mtbdd.map (·.1) = enumMTBDDOp.take 6 := by decide
theorem enums_mtbdd : enumMTBDDOp.take 8 = ["Add", "Sub", "Mul", "Div", "Min", "Max", "Ite", "Restrict"] := by
  decide

end OxiddModel.Generated
