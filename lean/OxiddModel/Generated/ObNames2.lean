import OxiddModel.Generated.SrcNames2

/-!
# Obligations: the variable / name / level methods of the two managers are the same text (C16, C20)

The models of the variable-name map (`VarNames/Model.lean`, C16) and of the pointer-based manager
(`Pointer/Model.lean`, C20) describe `add_vars`, `add_named_vars`, `add_named_vars_from_map`,
`set_var_name`, `var_name`, `name_to_var`, `var_to_level`, `level_to_var`, `num_levels`,
`num_named_vars`, `levels`, `reorder`, `gc_count`, `reorder_count` and `util/var_level_map.rs`
**once**, for both `oxidd-manager-index` and `oxidd-manager-pointer`.  `SrcNames2.lean`
(regenerated on every run) holds the token streams of these functions from both crates; here:

* `names2_no_substitution`: no representation-specific renaming is needed for the comparison;
* `names2_diffs_exact`: the extractor's list of differing token ranges is re-checked in Lean —
  patching the pointer-side text with the listed ranges gives the index-side text, for every
  function, signature and body;
* `names2_diffs_pinned`: that list is exactly the known one (two redundant `as VarNo` casts in the
  pointer-based `add_vars`; the verification hook `#[cfg(oxidd_verif)] _tok: …` in the index-based
  `level`) — any **new** divergence changes the list and breaks this theorem;
* `names2_same_text`: consequently all other functions have identical signatures and bodies.
-/
namespace OxiddModel.Generated

/-- the functions compared, in order -/
def Nm.expectedFns : List String :=
  ["Manager::num_levels", "Manager::num_named_vars", "Manager::add_vars", "Manager::add_named_vars",
   "Manager::add_named_vars_from_map", "Manager::var_name", "Manager::set_var_name", "Manager::name_to_var",
   "Manager::var_to_level", "Manager::level_to_var", "Manager::level", "Manager::levels", "Manager::reorder",
   "Manager::gc_count", "Manager::reorder_count",
   "VarLevelMap::new", "VarLevelMap::len", "VarLevelMap::extend", "VarLevelMap::var_to_level",
   "VarLevelMap::level_to_var", "VarLevelMap::swap_levels", "VarLevelMap(struct)"]

/-- the known textual differences between the two crates in these functions -/
def Nm.expectedDiffs : List Nm.Diff :=
  [ -- pointer: `let range = len as VarNo..new_len as VarNo;`, index: `let range = len..new_len;` (both `len`s are `VarNo` already)
    ⟨"Manager::add_vars", false, 32, 32, 32, 34, [], ["as", "VarNo"]⟩,
    ⟨"Manager::add_vars", false, 34, 34, 36, 38, [], ["as", "VarNo"]⟩,
    -- index only: the lock-order hook of the verification build in the `LevelView` literal
    ⟨"Manager::level", false, 42, 72, 42, 42,
      ["#", "[", "cfg", "(", "oxidd_verif", ")", "]", "_tok", ":", "vl", "::", "token", "(", "vl", "::", "Class", "::",
       "Level", ",", "no", ",", "vl", "::", "Mode", "::", "Excl", ",", "true", ")", ","], []⟩ ]

theorem names2_no_substitution : names2Subst = [] := by decide

/-- every expected function was found in both crates; `var_level_map.rs` of the pointer-based crate
has no function the index-based one lacks -/
theorem names2_functions :
    names2Methods.map (·.name) = Nm.expectedFns ∧
    names2VlmFnsPointer = ["new", "len", "extend", "var_to_level", "level_to_var", "swap_levels"] ∧
    names2Methods.all (fun m => !m.bodyI.isEmpty && !m.bodyP.isEmpty) = true := by
  refine ⟨?_, ?_, ?_⟩ <;> decide

/-- the listed differing ranges are exactly the differences (re-checked, not trusted) and refer to
compared functions only -/
theorem names2_diffs_exact :
    names2Methods.all (Nm.checkMethod names2Diffs) = true ∧
    names2Diffs.all (fun d => Nm.expectedFns.contains d.fn) = true := by
  constructor <;> decide +kernel

/-- **no new divergence**: the differences are the known ones -/
theorem names2_diffs_pinned : names2Diffs = Nm.expectedDiffs := by decide

/-- **same text**: every compared function other than `add_vars` and `level` has the same signature
and the same body, token for token, in `oxidd-manager-index` and `oxidd-manager-pointer`; all
signatures are the same -/
theorem names2_same_text :
    (∀ m ∈ names2Methods, m.name ≠ "Manager::add_vars" → m.name ≠ "Manager::level" →
      m.sigP = m.sigI ∧ m.bodyP = m.bodyI) ∧
    (∀ m ∈ names2Methods, m.sigP = m.sigI) := by
  constructor
  · intro m hm h1 h2
    have hc := (List.all_eq_true.mp names2_diffs_exact.1) m hm
    apply Nm.same_text_of_check hc
    rw [names2_diffs_pinned]
    simp [Nm.expectedDiffs, Ne.symm h1, Ne.symm h2]
  · have : names2Methods.all (fun m => m.sigP == m.sigI) = true := by decide +kernel
    intro m hm
    simpa using (List.all_eq_true.mp this) m hm

/-- non-vacuity: `checkText` rejects a difference that is not listed and a listed one that is not there -/
example : Nm.checkText ["a", "b"] ["a", "c"] [] = false ∧
    Nm.checkText ["a", "b"] ["a", "b"] [⟨"f", false, 1, 2, 1, 2, ["b"], ["b"]⟩] = false ∧
    Nm.checkText ["a", "b"] ["a", "c", "d"] [⟨"f", false, 1, 2, 1, 3, ["b"], ["c", "d"]⟩] = true := by decide

end OxiddModel.Generated
