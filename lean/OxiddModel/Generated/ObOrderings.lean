import OxiddModel.Generated.SrcFacts

/-!
# Obligations over the extracted memory orderings (C05, C07)

The store-level and interference models (`Bdd/Gc`, `Bdd/ApplyE`, `Locks`) treat a reference-count
update, a lock acquisition and everything done under a lock as atomic steps of an interleaving,
i.e. they assume sequentially consistent hand-over of a node between the thread that drops the last
external reference and the thread that frees the slot. In the Rust code that hand-over is the
`Arc` protocol: the decrement is a `Release` operation, and the thread that sees the count at 1
and frees the node has either loaded it with `Acquire` or issues an `Acquire` fence first; the
hand-written locks acquire with `Acquire` and release with `Release`. That these orderings suffice
is the standard argument for `Arc` and spin locks (assumed, see DESIGN §3); that the code *uses*
them is re-checked here against the source on every run. No test on x86-64 can observe a weakened
ordering (the hardware is stronger than the language model), so this is the only check that can.

`SrcFacts.lean` is regenerated from `/repo` on every run; these theorems are re-checked against it.
-/
namespace OxiddModel.Generated

/-- at least `Release` -/
def relOK (o : String) : Bool := o == "Release" || o == "AcqRel" || o == "SeqCst"
/-- at least `Acquire` -/
def acqOK (o : String) : Bool := o == "Acquire" || o == "AcqRel" || o == "SeqCst"

/-- every reference-count decrement (inner nodes of both managers, dynamic terminals) is a
`Release` operation -/
theorem rc_decrement_release :
    rcDecrements.all (fun x => relOK x.2.2) = true ∧
    ["index/node", "index/terminals", "pointer/node"].all (fun f => rcDecrements.any (·.1 == f)) = true := by
  decide

/-- every load of a reference count that licenses freeing a node (the collector's `rc == 1` test,
`try_remove_node` during reordering) is an `Acquire` load, in both managers and for terminals -/
theorem rc_free_load_acquire :
    rcFreeLoads.all (fun x => acqOK x.2.2) = true ∧
    [("index/manager", "gc"), ("index/manager", "try_remove_node"), ("index/terminals", "gc"),
     ("pointer/manager", "gc"), ("pointer/manager", "try_remove_node")].all
      (fun s => rcFreeLoads.any (fun x => x.1 == s.1 && x.2.1 == s.2)) = true := by
  decide

/-- the path that frees a slot right after its own decrement (`drop_unique_table_edge`) has an
`Acquire` fence between the decrement and the free -/
theorem free_after_release_fenced :
    fences.any (fun x => x.1 == "index/manager" && x.2.1 == "drop_unique_table_edge" && acqOK x.2.2) = true ∧
    fences.all (fun x => acqOK x.2.2) = true := by
  decide

/-- the hand-written locks (`gc_ongoing`'s `TryLock`, the apply cache's per-bucket spin mutex)
acquire with `Acquire` and release with `Release` -/
theorem lock_orderings :
    lockSwaps.all (fun x => acqOK x.2.2) = true ∧ unlockStores.all (fun x => relOK x.2.2) = true ∧
    ["index/trylock", "pointer/trylock", "cache/spinlock"].all
      (fun f => lockSwaps.any (·.1 == f) && unlockStores.any (·.1 == f)) = true := by
  decide

end OxiddModel.Generated
