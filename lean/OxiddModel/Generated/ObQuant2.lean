import OxiddModel.Generated.SrcQuant2
import OxiddModel.Bcdd.Model
import OxiddModel.Zbdd.Model

/-!
# Obligations: terminal cases and recursion shape of BCDD `quant` / `apply_quant` and ZBDD `subset` (C04)

`SrcQuant2.lean` (regenerated on every run by `tools/extract_tables4.py`) lists, for
`complement_edge/apply_rec.rs::{quant, apply_quant}` and `oxidd-rules-zbdd/src/apply_rec.rs::subset`,
every `return` in front of the cache lookup with the conditions / match arms it is under, and every
top-level `let` (set_pop, the choice of `vt`, the cofactors, the recursive call with its operand
tuples, the combination of the two sub-results).  The tables below were written against
`Bcdd.quant`, `Bcdd.applyQuant` (`Bcdd/Model.lean`) and `Zbdd.subset` (`Zbdd/Model.lean`); the
obligations say that the source still has exactly these cases in this order.  The `example`s at
the end evaluate the model functions on the same cases.

Not repeated here (already extracted): the cache keys of these functions (`SrcKeys2` / `ObKeys2`:
`key_complete_bcdd`, `key_complete_subset`, `bcdd_restrict_tags`), `terminal_and` / `terminal_xor`
(`SrcBcddKernels`), the dispatch tables (`SrcFacts`), the ZBDD set operations (`SrcZbddApply`).
-/
namespace OxiddModel.Generated

/-- as modelled by `Bcdd.quant` (`Bcdd/Model.lean`), in this order: (sequential switch: same function) · `f` terminal ⇒ `f` if `q ≠ unique ∨ vars` terminal, else `terminal false` · (after `set_pop` for `q ≠ unique`) `vars` terminal ⇒ `f` · `q = unique ∧ vl < fl` ⇒ `terminal false` -/
def Q2.expected_Returns_bcdd_quant : List Q2.Ret :=
  [⟨[["if", "rec", ".", "should_switch_to_sequential", "(", ")"]], ["quant", "::", "<", "M", ",", "_", ",", "Q", ">", "(", "manager", ",", "SequentialRecursor", ",", "f", ",", "vars", ")"]⟩,
   ⟨[["let", "fnode", "=", "match", "manager", ".", "get_node", "(", "&", "f", ")"], ["=>", "Node", "::", "Terminal", "(", "_", ")"]], ["Ok", "(", "if", "operator", "!=", "BCDDOp", "::", "Unique", "||", "manager", ".", "get_node", "(", "&", "vars", ")", ".", "is_any_terminal", "(", ")", "{", "manager", ".", "clone_edge", "(", "&", "f", ")", "}", "else", "{", "get_terminal", "(", "manager", ",", "false", ")", "}", ",", ")"]⟩,
   ⟨[["let", "vnode", "=", "match", "manager", ".", "get_node", "(", "&", "vars", ")"], ["=>", "Node", "::", "Terminal", "(", "_", ")"]], ["Ok", "(", "manager", ".", "clone_edge", "(", "&", "f", ")", ")"]⟩,
   ⟨[["if", "operator", "==", "BCDDOp", "::", "Unique", "&&", "vlevel", "<", "flevel"]], ["Ok", "(", "get_terminal", "(", "manager", ",", "false", ")", ")"]⟩]

/-- as modelled by `Bcdd.quant`: `vars := if q ≠ .unique then setPop vars fl else vars`; `vt' := if vl = fl then vnode.child(0) else vars`; recursion on the two cofactors of `f` with the same `vt'`; `if fl = vl then q.combine t e else mk fl t e` with `Quant.combine` = `and(t,e)` / `¬and(¬t,¬e)` / `xor(t,e)` -/
def Q2.expected_Lets_bcdd_quant : List Q2.Let :=
  [⟨["operator"], ["match", "(", ")", "{", "_", "if", "Q", "==", "BCDDOp", "::", "Forall", "as", "u8", "=>", "BCDDOp", "::", "Forall", ",", "_", "if", "Q", "==", "BCDDOp", "::", "Exists", "as", "u8", "=>", "BCDDOp", "::", "Exists", ",", "_", "if", "Q", "==", "BCDDOp", "::", "Unique", "as", "u8", "=>", "BCDDOp", "::", "Unique", ",", "_", "=>", "unreachable", "!", "(", "\"invalid", "quantifier\"", ")", ",", "}"]⟩,
   ⟨["fnode"], ["match", "manager", ".", "get_node", "(", "&", "f", ")", "{", "Node", "::", "Inner", "(", "n", ")", "=>", "n", ",", "Node", "::", "Terminal", "(", "_", ")", "=>", "{", "return", "Ok", "(", "if", "operator", "!=", "BCDDOp", "::", "Unique", "||", "manager", ".", "get_node", "(", "&", "vars", ")", ".", "is_any_terminal", "(", ")", "{", "manager", ".", "clone_edge", "(", "&", "f", ")", "}", "else", "{", "get_terminal", "(", "manager", ",", "false", ")", "}", ",", ")", ";", "}", "}"]⟩,
   ⟨["flevel"], ["fnode", ".", "level", "(", ")"]⟩,
   ⟨["vars"], ["if", "operator", "!=", "BCDDOp", "::", "Unique", "{", "crate", "::", "set_pop", "(", "manager", ",", "vars", ",", "flevel", ")", "}", "else", "{", "vars", "}"]⟩,
   ⟨["vnode"], ["match", "manager", ".", "get_node", "(", "&", "vars", ")", "{", "Node", "::", "Inner", "(", "n", ")", "=>", "n", ",", "Node", "::", "Terminal", "(", "_", ")", "=>", "return", "Ok", "(", "manager", ".", "clone_edge", "(", "&", "f", ")", ")", ",", "}"]⟩,
   ⟨["vlevel"], ["vnode", ".", "level", "(", ")"]⟩,
   ⟨["vars"], ["vars", ".", "borrowed", "(", ")"]⟩,
   ⟨["(", "ft", ",", "fe", ")"], ["collect_cofactors", "(", "f", ".", "tag", "(", ")", ",", "fnode", ")"]⟩,
   ⟨["vt"], ["if", "vlevel", "==", "flevel", "{", "vnode", ".", "child", "(", "0", ")", "}", "else", "{", "vars", ".", "borrowed", "(", ")", "}"]⟩,
   ⟨["(", "t", ",", "e", ")"], ["rec", ".", "binary", "(", "quant", "::", "<", "M", ",", "R", ",", "Q", ">", ",", "manager", ",", "(", "ft", ",", "vt", ".", "borrowed", "(", ")", ")", ",", "(", "fe", ",", "vt", ".", "borrowed", "(", ")", ")", ",", ")", "?"]⟩,
   ⟨["res"], ["if", "flevel", "==", "vlevel", "{", "match", "operator", "{", "BCDDOp", "::", "Forall", "=>", "apply_and", "(", "manager", ",", "rec", ",", "t", ".", "borrowed", "(", ")", ",", "e", ".", "borrowed", "(", ")", ")", "?", ",", "BCDDOp", "::", "Exists", "=>", "not_owned", "(", "apply_and", "(", "manager", ",", "rec", ",", "not", "(", "&", "t", ")", ",", "not", "(", "&", "e", ")", ")", "?", ")", ",", "BCDDOp", "::", "Unique", "=>", "{", "apply_bin", "::", "<", "M", ",", "R", ",", "{", "BCDDOp", "::", "Xor", "as", "u8", "}", ">", "(", "manager", ",", "rec", ",", "t", ".", "borrowed", "(", ")", ",", "e", ".", "borrowed", "(", ")", ")", "?", "}", "_", "=>", "unreachable", "!", "(", ")", ",", "}", "}", "else", "{", "reduce", "(", "manager", ",", "flevel", ",", "t", ".", "into_edge", "(", ")", ",", "e", ".", "into_edge", "(", ")", ",", "operator", ")", "?", "}"]⟩]

/-- as modelled by `Bcdd.applyQuant`: `terminal_and` for `And`/`UniqueNand` (`Done h` ⇒ `quant q (¬h)` for `UniqueNand`, else `quant q h`), `terminal_xor` otherwise (`Done h` ⇒ `quant q h`); `vars` terminal ⇒ `op.apply f g` (`¬and` for `UniqueNand`); `vl < minl ∧ q = unique` ⇒ `terminal false`; `minl > vl` ⇒ `op.apply f g` -/
def Q2.expected_Returns_bcdd_apply_quant : List Q2.Ret :=
  [⟨[["if", "rec", ".", "should_switch_to_sequential", "(", ")"]], ["apply_quant", "::", "<", "M", ",", "_", ",", "Q", ",", "OP", ">", "(", "manager", ",", "SequentialRecursor", ",", "f", ",", "g", ",", "vars", ")"]⟩,
   ⟨[["let", "(", "f", ",", "fnode", ",", "g", ",", "gnode", ")", "=", "if", "OP", "==", "BCDDOp", "::", "And", "as", "u8", "||", "OP", "==", "BCDDOp", "::", "UniqueNand", "as", "u8"], ["match", "super", "::", "terminal_and", "(", "manager", ",", "&", "f", ",", "&", "g", ")"], ["=>", "NodesOrDone", "::", "Done", "(", "h", ")", "if", "OP", "==", "BCDDOp", "::", "UniqueNand", "as", "u8"]], ["quant", "::", "<", "M", ",", "R", ",", "Q", ">", "(", "manager", ",", "rec", ",", "not", "(", "&", "h", ")", ",", "vars", ")"]⟩,
   ⟨[["let", "(", "f", ",", "fnode", ",", "g", ",", "gnode", ")", "=", "if", "OP", "==", "BCDDOp", "::", "And", "as", "u8", "||", "OP", "==", "BCDDOp", "::", "UniqueNand", "as", "u8"], ["match", "super", "::", "terminal_and", "(", "manager", ",", "&", "f", ",", "&", "g", ")"], ["=>", "NodesOrDone", "::", "Done", "(", "h", ")"]], ["quant", "::", "<", "M", ",", "R", ",", "Q", ">", "(", "manager", ",", "rec", ",", "h", ".", "borrowed", "(", ")", ",", "vars", ")"]⟩,
   ⟨[["else"], ["match", "super", "::", "terminal_xor", "(", "manager", ",", "&", "f", ",", "&", "g", ")"], ["=>", "NodesOrDone", "::", "Done", "(", "h", ")"]], ["quant", "::", "<", "M", ",", "R", ",", "Q", ">", "(", "manager", ",", "rec", ",", "h", ".", "borrowed", "(", ")", ",", "vars", ")"]⟩,
   ⟨[["let", "vnode", "=", "match", "manager", ".", "get_node", "(", "&", "vars", ")"], ["=>", "Node", "::", "Terminal", "(", "_", ")", "if", "OP", "==", "BCDDOp", "::", "UniqueNand", "as", "u8"]], ["Ok", "(", "not_owned", "(", "apply_and", "(", "manager", ",", "rec", ",", "f", ",", "g", ")", "?", ")", ")"]⟩,
   ⟨[["let", "vnode", "=", "match", "manager", ".", "get_node", "(", "&", "vars", ")"], ["=>", "Node", "::", "Terminal", "(", "_", ")"]], ["apply_bin", "::", "<", "M", ",", "R", ",", "OP", ">", "(", "manager", ",", "rec", ",", "f", ",", "g", ")"]⟩,
   ⟨[["if", "vlevel", "<", "min_level", "&&", "Q", "==", "BCDDOp", "::", "Unique", "as", "u8"]], ["Ok", "(", "get_terminal", "(", "manager", ",", "false", ")", ")"]⟩,
   ⟨[["if", "min_level", ">", "vlevel"], ["if", "OP", "==", "BCDDOp", "::", "UniqueNand", "as", "u8"]], ["Ok", "(", "not_owned", "(", "apply_and", "(", "manager", ",", "rec", ",", "f", ",", "g", ")", "?", ")", ")"]⟩,
   ⟨[["if", "min_level", ">", "vlevel"]], ["apply_bin", "::", "<", "M", ",", "R", ",", "OP", ">", "(", "manager", ",", "rec", ",", "f", ",", "g", ")"]⟩]

/-- as modelled by `Bcdd.applyQuant`: operands sorted (`f < g`), `minl = min fl gl`, `vars := if q ≠ .unique then setPop vars minl else vars`, `vt'`, cofactors of `f` iff `fl ≤ gl`, of `g` iff `fl ≥ gl`, `if minl = vl then q.combine t e else mk minl t e` -/
def Q2.expected_Lets_bcdd_apply_quant : List Q2.Let :=
  [⟨["operator"], ["const", "{", "BCDDOp", "::", "from_apply_quant", "(", "Q", ",", "OP", ")", "}"]⟩,
   ⟨["(", "f", ",", "fnode", ",", "g", ",", "gnode", ")"], ["if", "OP", "==", "BCDDOp", "::", "And", "as", "u8", "||", "OP", "==", "BCDDOp", "::", "UniqueNand", "as", "u8", "{", "match", "super", "::", "terminal_and", "(", "manager", ",", "&", "f", ",", "&", "g", ")", "{", "NodesOrDone", "::", "Nodes", "(", "fnode", ",", "gnode", ")", "if", "f", "<", "g", "=>", "(", "f", ".", "borrowed", "(", ")", ",", "fnode", ",", "g", ".", "borrowed", "(", ")", ",", "gnode", ")", ",", "NodesOrDone", "::", "Nodes", "(", "fnode", ",", "gnode", ")", "=>", "(", "g", ".", "borrowed", "(", ")", ",", "gnode", ",", "f", ".", "borrowed", "(", ")", ",", "fnode", ")", ",", "NodesOrDone", "::", "Done", "(", "h", ")", "if", "OP", "==", "BCDDOp", "::", "UniqueNand", "as", "u8", "=>", "{", "return", "quant", "::", "<", "M", ",", "R", ",", "Q", ">", "(", "manager", ",", "rec", ",", "not", "(", "&", "h", ")", ",", "vars", ")", ";", "}", "NodesOrDone", "::", "Done", "(", "h", ")", "=>", "return", "quant", "::", "<", "M", ",", "R", ",", "Q", ">", "(", "manager", ",", "rec", ",", "h", ".", "borrowed", "(", ")", ",", "vars", ")", ",", "}", "}", "else", "{", "assert_eq", "!", "(", "OP", ",", "BCDDOp", "::", "Xor", "as", "u8", ")", ";", "match", "super", "::", "terminal_xor", "(", "manager", ",", "&", "f", ",", "&", "g", ")", "{", "NodesOrDone", "::", "Nodes", "(", "fnode", ",", "gnode", ")", "if", "f", "<", "g", "=>", "(", "f", ".", "borrowed", "(", ")", ",", "fnode", ",", "g", ".", "borrowed", "(", ")", ",", "gnode", ")", ",", "NodesOrDone", "::", "Nodes", "(", "fnode", ",", "gnode", ")", "=>", "(", "g", ".", "borrowed", "(", ")", ",", "gnode", ",", "f", ".", "borrowed", "(", ")", ",", "fnode", ")", ",", "NodesOrDone", "::", "Done", "(", "h", ")", "=>", "return", "quant", "::", "<", "M", ",", "R", ",", "Q", ">", "(", "manager", ",", "rec", ",", "h", ".", "borrowed", "(", ")", ",", "vars", ")", ",", "}", "}"]⟩,
   ⟨["flevel"], ["fnode", ".", "level", "(", ")"]⟩,
   ⟨["glevel"], ["gnode", ".", "level", "(", ")"]⟩,
   ⟨["min_level"], ["std", "::", "cmp", "::", "min", "(", "fnode", ".", "level", "(", ")", ",", "gnode", ".", "level", "(", ")", ")"]⟩,
   ⟨["vars"], ["if", "Q", "!=", "BCDDOp", "::", "Unique", "as", "u8", "{", "crate", "::", "set_pop", "(", "manager", ",", "vars", ",", "min_level", ")", "}", "else", "{", "vars", "}"]⟩,
   ⟨["vnode"], ["match", "manager", ".", "get_node", "(", "&", "vars", ")", "{", "Node", "::", "Inner", "(", "n", ")", "=>", "n", ",", "Node", "::", "Terminal", "(", "_", ")", "if", "OP", "==", "BCDDOp", "::", "UniqueNand", "as", "u8", "=>", "{", "return", "Ok", "(", "not_owned", "(", "apply_and", "(", "manager", ",", "rec", ",", "f", ",", "g", ")", "?", ")", ")", ";", "}", "Node", "::", "Terminal", "(", "_", ")", "=>", "return", "apply_bin", "::", "<", "M", ",", "R", ",", "OP", ">", "(", "manager", ",", "rec", ",", "f", ",", "g", ")", ",", "}"]⟩,
   ⟨["vlevel"], ["vnode", ".", "level", "(", ")"]⟩,
   ⟨["vt"], ["if", "vlevel", "==", "min_level", "{", "vnode", ".", "child", "(", "0", ")", "}", "else", "{", "vars", ".", "borrowed", "(", ")", "}"]⟩,
   ⟨["(", "ft", ",", "fe", ")"], ["if", "flevel", "<=", "glevel", "{", "collect_cofactors", "(", "f", ".", "tag", "(", ")", ",", "fnode", ")", "}", "else", "{", "(", "f", ".", "borrowed", "(", ")", ",", "f", ".", "borrowed", "(", ")", ")", "}"]⟩,
   ⟨["(", "gt", ",", "ge", ")"], ["if", "flevel", ">=", "glevel", "{", "collect_cofactors", "(", "g", ".", "tag", "(", ")", ",", "gnode", ")", "}", "else", "{", "(", "g", ".", "borrowed", "(", ")", ",", "g", ".", "borrowed", "(", ")", ")", "}"]⟩,
   ⟨["(", "t", ",", "e", ")"], ["rec", ".", "ternary", "(", "apply_quant", "::", "<", "M", ",", "R", ",", "Q", ",", "OP", ">", ",", "manager", ",", "(", "ft", ",", "gt", ",", "vt", ".", "borrowed", "(", ")", ")", ",", "(", "fe", ",", "ge", ",", "vt", ".", "borrowed", "(", ")", ")", ",", ")", "?"]⟩,
   ⟨["res"], ["if", "min_level", "==", "vlevel", "{", "if", "Q", "==", "BCDDOp", "::", "Forall", "as", "u8", "{", "apply_and", "(", "manager", ",", "rec", ",", "t", ".", "borrowed", "(", ")", ",", "e", ".", "borrowed", "(", ")", ")", "?", "}", "else", "if", "Q", "==", "BCDDOp", "::", "Exists", "as", "u8", "{", "not_owned", "(", "apply_and", "(", "manager", ",", "rec", ",", "not", "(", "&", "t", ")", ",", "not", "(", "&", "e", ")", ")", "?", ")", "}", "else", "if", "Q", "==", "BCDDOp", "::", "Unique", "as", "u8", "{", "apply_bin", "::", "<", "M", ",", "R", ",", "{", "BCDDOp", "::", "Xor", "as", "u8", "}", ">", "(", "manager", ",", "rec", ",", "t", ".", "borrowed", "(", ")", ",", "e", ".", "borrowed", "(", ")", ")", "?", "}", "else", "{", "unreachable", "!", "(", ")", "}", "}", "else", "{", "reduce", "(", "manager", ",", "min_level", ",", "t", ".", "into_edge", "(", ")", ",", "e", ".", "into_edge", "(", ")", ",", "operator", ")", "?", "}"]⟩]

/-- as modelled by `Zbdd.subset` (`Zbdd/Model.lean`): level = var level ⇒ `change`: `mk l lo hi` (`reduce_borrowed(level, hi := hi-of-(lo,hi)-swapped …)`), else `child(1 - VAL)`; level below / terminal ⇒ `subset0`: `f`, `subset1`: `∅`, `change`: `mk vl f ∅` -/
def Q2.expected_Returns_zbdd_subset : List Q2.Ret :=
  [⟨[["if", "rec", ".", "should_switch_to_sequential", "(", ")"]], ["subset", "::", "<", "M", ",", "_", ",", "VAL", ">", "(", "manager", ",", "SequentialRecursor", ",", "f", ",", "var", ",", "var_level", ")"]⟩,
   ⟨[["let", "node", "=", "match", "(", "node", ",", "level", ".", "cmp", "(", "&", "var_level", ")", ")"], ["=>", "(", "Node", "::", "Inner", "(", "node", ")", ",", "Ordering", "::", "Equal", ")"], ["if", "op", "==", "ZBDDOp", "::", "Change"]], ["reduce_borrowed", "(", "manager", ",", "level", ",", "hi", ",", "manager", ".", "clone_edge", "(", "&", "lo", ")", ",", "op", ")"]⟩,
   ⟨[["let", "node", "=", "match", "(", "node", ",", "level", ".", "cmp", "(", "&", "var_level", ")", ")"], ["=>", "(", "Node", "::", "Inner", "(", "node", ")", ",", "Ordering", "::", "Equal", ")"]], ["Ok", "(", "manager", ".", "clone_edge", "(", "&", "node", ".", "child", "(", "(", "1", "-", "VAL", ")", "as", "usize", ")", ")", ")"]⟩,
   ⟨[["let", "node", "=", "match", "(", "node", ",", "level", ".", "cmp", "(", "&", "var_level", ")", ")"], ["=>", "_"]], ["match", "op", "{", "ZBDDOp", "::", "Subset0", "=>", "Ok", "(", "manager", ".", "clone_edge", "(", "&", "f", ")", ")", ",", "ZBDDOp", "::", "Subset1", "=>", "Ok", "(", "manager", ".", "get_terminal", "(", "ZBDDTerminal", "::", "Empty", ")", ".", "unwrap", "(", ")", ")", ",", "ZBDDOp", "::", "Change", "=>", "reduce", "(", "manager", ",", "var_level", ",", "manager", ".", "clone_edge", "(", "&", "f", ")", ",", "manager", ".", "get_terminal", "(", "ZBDDTerminal", "::", "Empty", ")", ".", "unwrap", "(", ")", ",", "ZBDDOp", "::", "Change", ",", ")", ",", "_", "=>", "unreachable", "!", "(", ")", ",", "}"]⟩]

/-- as modelled by `Zbdd.subset`: `op` from `VAL` (`-1/0/1 ↦ Change/Subset0/Subset1`), recursion on `hi` and `lo` with the same `var`, `mk l hi' lo'` -/
def Q2.expected_Lets_zbdd_subset : List Q2.Let :=
  [⟨["op"], ["match", "VAL", "{", "-", "1", "=>", "ZBDDOp", "::", "Change", ",", "0", "=>", "ZBDDOp", "::", "Subset0", ",", "1", "=>", "ZBDDOp", "::", "Subset1", ",", "_", "=>", "unreachable", "!", "(", ")", ",", "}"]⟩,
   ⟨["node"], ["manager", ".", "get_node", "(", "&", "f", ")"]⟩,
   ⟨["level"], ["node", ".", "level", "(", ")"]⟩,
   ⟨["node"], ["match", "(", "node", ",", "level", ".", "cmp", "(", "&", "var_level", ")", ")", "{", "(", "Node", "::", "Inner", "(", "n", ")", ",", "Ordering", "::", "Less", ")", "=>", "n", ",", "(", "Node", "::", "Inner", "(", "node", ")", ",", "Ordering", "::", "Equal", ")", "=>", "{", "if", "op", "==", "ZBDDOp", "::", "Change", "{", "let", "(", "lo", ",", "hi", ")", "=", "collect_children", "(", "node", ")", ";", "return", "reduce_borrowed", "(", "manager", ",", "level", ",", "hi", ",", "manager", ".", "clone_edge", "(", "&", "lo", ")", ",", "op", ")", ";", "}", "return", "Ok", "(", "manager", ".", "clone_edge", "(", "&", "node", ".", "child", "(", "(", "1", "-", "VAL", ")", "as", "usize", ")", ")", ")", ";", "}", "_", "=>", "{", "return", "match", "op", "{", "ZBDDOp", "::", "Subset0", "=>", "Ok", "(", "manager", ".", "clone_edge", "(", "&", "f", ")", ")", ",", "ZBDDOp", "::", "Subset1", "=>", "Ok", "(", "manager", ".", "get_terminal", "(", "ZBDDTerminal", "::", "Empty", ")", ".", "unwrap", "(", ")", ")", ",", "ZBDDOp", "::", "Change", "=>", "reduce", "(", "manager", ",", "var_level", ",", "manager", ".", "clone_edge", "(", "&", "f", ")", ",", "manager", ".", "get_terminal", "(", "ZBDDTerminal", "::", "Empty", ")", ".", "unwrap", "(", ")", ",", "ZBDDOp", "::", "Change", ",", ")", ",", "_", "=>", "unreachable", "!", "(", ")", ",", "}", ";", "}", "}"]⟩,
   ⟨["(", "fhi", ",", "flo", ")"], ["collect_children", "(", "node", ")"]⟩,
   ⟨["(", "hi", ",", "lo", ")"], ["rec", ".", "subset", "(", "subset", "::", "<", "M", ",", "R", ",", "VAL", ">", ",", "manager", ",", "(", "fhi", ",", "var", ",", "var_level", ")", ",", "(", "flo", ",", "var", ",", "var_level", ")", ",", ")", "?"]⟩,
   ⟨["h"], ["reduce", "(", "manager", ",", "level", ",", "hi", ".", "into_edge", "(", ")", ",", "lo", ".", "into_edge", "(", ")", ",", "op", ")", "?"]⟩]

theorem quant2_bcdd_quant_as_modelled :
    q2Returns_bcdd_quant = Q2.expected_Returns_bcdd_quant ∧ q2Lets_bcdd_quant = Q2.expected_Lets_bcdd_quant := by
  constructor <;> decide +kernel

theorem quant2_bcdd_apply_quant_as_modelled :
    q2Returns_bcdd_apply_quant = Q2.expected_Returns_bcdd_apply_quant ∧
    q2Lets_bcdd_apply_quant = Q2.expected_Lets_bcdd_apply_quant := by
  constructor <;> decide +kernel

theorem quant2_zbdd_subset_as_modelled :
    q2Returns_zbdd_subset = Q2.expected_Returns_zbdd_subset ∧ q2Lets_zbdd_subset = Q2.expected_Lets_zbdd_subset := by
  constructor <;> decide +kernel

/-- the numbers of terminal cases (nothing was dropped) -/
theorem quant2_counts :
    q2Returns_bcdd_quant.length = 4 ∧ q2Returns_bcdd_apply_quant.length = 9 ∧ q2Returns_zbdd_subset.length = 4 ∧
    q2Lets_bcdd_quant.length = 11 ∧ q2Lets_bcdd_apply_quant.length = 13 ∧ q2Lets_zbdd_subset.length = 7 := by decide

open OxiddModel in
/-- the model has the same terminal cases: `quant` of a terminal `f` -/
example (q : Bcdd.Quant) (neg : Bool) (vars : Bcdd.Edge) :
    Bcdd.quant q ⟨neg, .top⟩ vars = if q ≠ .unique || vars.n.isTop then ⟨neg, .top⟩ else Bcdd.terminal false := by
  unfold Bcdd.quant; rfl

open OxiddModel in
/-- the model has the same terminal cases: `subset` below the variable's level / on a terminal -/
example (vl : Nat) : Zbdd.subset .subset1 vl .base = .empty ∧ Zbdd.subset .subset0 vl .base = .base ∧
    Zbdd.subset .change vl .base = Zbdd.mk vl .base .empty := by
  refine ⟨?_, ?_, ?_⟩ <;> (unfold Zbdd.subset; rfl)

end OxiddModel.Generated
