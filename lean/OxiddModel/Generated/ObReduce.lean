import OxiddModel.Generated.SrcReduce
import OxiddModel.Generated.LemmasReduce

/-!
# The reduction rules of the source are the rules the models' `mk` functions implement (C03, C02)

`SrcReduce.lean` is regenerated on every run from `DiagramRules::reduce` and the free `reduce`
(`reduce1`, `reduce_borrowed`) functions of all five diagram kinds.  Definitions and the general
`*_mk_eq` theorems: `LemmasReduce.lean`.
-/
namespace OxiddModel.Generated

/-- every extracted reduction function has the rule of its kind's model (condition under which no
node is created, which child is returned, order of the new node's children); both implementations
(`DiagramRules::reduce` and the free function) of every kind are there; nothing unparsed -/
theorem reduce_rows_as_modelled :
    reduceRows.all Rd.rowAsModelled = true ∧
    reduceRows.map (fun r => (r.kind, r.fn)) =
      [("bdd", "DiagramRules::reduce"), ("bdd", "reduce"),
       ("zbdd", "DiagramRules::reduce"), ("zbdd", "reduce"), ("zbdd", "reduce_borrowed"), ("zbdd", "reduce1"),
       ("mtbdd", "DiagramRules::reduce"), ("mtbdd", "reduce"),
       ("tdd", "DiagramRules::reduce"), ("tdd", "reduce")] ∧
    reduceUnparsed = [] := by
  decide

/-- the BCDD functions: equal children ⇒ the then-child; a complemented then-edge is made regular,
the else-edge's tag flipped and the complement moved to the resulting edge — exactly `Bcdd.mk` -/
theorem reduce_rows_bcdd_as_modelled :
    reduceRowsBcdd.all Rd.bcddAsModelled = true ∧
    reduceRowsBcdd.map (·.fn) = ["DiagramRules::reduce", "reduce"] := by
  decide

/-- semantic reading: each extracted BDD row, interpreted, is the model's `Bdd.mk` — for all children -/
theorem reduce_bdd_is_mk (r : Rd.RedRow) (hr : r ∈ reduceRows) (hk : r.kind = "bdd") (l : Nat) (t e : Bdd.BDD) :
    r.eval (fun _ => false) (Rd.node2 Bdd.BDD.node) l [t, e] = some (Bdd.mk l t e) := by
  have h := List.all_eq_true.1 reduce_rows_as_modelled.1 r hr
  simp only [Rd.rowAsModelled, hk, Rd.modelRow] at h
  rw [Rd.eval_congr _ _ _ _ h]; exact Rd.bdd_mk_eq r.fn l t e

theorem reduce_mtbdd_is_mk {T : Type} [DecidableEq T] (r : Rd.RedRow) (hr : r ∈ reduceRows)
    (hk : r.kind = "mtbdd") (l : Nat) (t e : Mtbdd.MT T) :
    r.eval (fun _ => false) (Rd.node2 Mtbdd.MT.node) l [t, e] = some (Mtbdd.mk l t e) := by
  have h := List.all_eq_true.1 reduce_rows_as_modelled.1 r hr
  simp only [Rd.rowAsModelled, hk, Rd.modelRow] at h
  rw [Rd.eval_congr _ _ _ _ h]; exact Rd.mtbdd_mk_eq r.fn l t e

theorem reduce_tdd_is_mk (r : Rd.RedRow) (hr : r ∈ reduceRows) (hk : r.kind = "tdd") (l : Nat)
    (t u e : Tdd.TD) :
    r.eval (fun _ => false) (Rd.node3 Tdd.TD.node) l [t, u, e] = some (Tdd.TD.mk l t u e) := by
  have h := List.all_eq_true.1 reduce_rows_as_modelled.1 r hr
  simp only [Rd.rowAsModelled, hk, Rd.modelRow] at h
  rw [Rd.eval_congr _ _ _ _ h]; exact Rd.tdd_mk_eq r.fn l t u e

theorem reduce_zbdd_is_mk (r : Rd.RedRow) (hr : r ∈ reduceRows) (hk : r.kind = "zbdd")
    (hf : r.fn ≠ "reduce1") (l : Nat) (hi lo : Zbdd.ZDD) :
    r.eval Rd.zEmpty (Rd.node2 Zbdd.ZDD.node) l [hi, lo] = some (Zbdd.mk l hi lo) := by
  have h := List.all_eq_true.1 reduce_rows_as_modelled.1 r hr
  have hm : Rd.modelRow "zbdd" r.fn = some ⟨"zbdd", r.fn, 2, .isEmpty 0, 1, [0, 1], false⟩ := by
    unfold Rd.modelRow; split <;> simp_all
  simp only [Rd.rowAsModelled, hk, hm] at h
  rw [Rd.eval_congr _ _ _ _ h]; exact Rd.zbdd_mk_eq r.fn l hi lo

theorem reduce_bcdd_is_mk (r : Rd.BcddRed) (hr : r ∈ reduceRowsBcdd) (l : Nat) (t e : Bcdd.Edge) :
    r.eval l t e = some (Bcdd.mk l t e) := by
  have h := List.all_eq_true.1 reduce_rows_bcdd_as_modelled.1 r hr
  simp only [Rd.bcddAsModelled, beq_iff_eq] at h
  rw [h]; exact Rd.bcdd_mk_eq r.fn l t e

/-- non-vacuity -/
example : ∃ r ∈ reduceRowsBcdd, r.fn = "reduce" := ⟨_, List.mem_cons_of_mem _ (List.mem_cons_self ..), rfl⟩

end OxiddModel.Generated
