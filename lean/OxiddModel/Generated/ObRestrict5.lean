import OxiddModel.Generated.SrcRestrict5
import OxiddModel.Bcdd.Model
import OxiddModel.Zbdd.Model

/-!
# Obligations: BCDD `restrict` (with its tail-recursive `inner`) and ZBDD `restrict` / `restrict_base` (C04)

`SrcRestrict5.lean` (regenerated on every run by `tools/extract_tables5.py`) lists for
`complement_edge/apply_rec.rs::restrict`, its nested `fn inner` (labelled block `'ret_f`), and for
`oxidd-rules-zbdd/src/apply_rec.rs::restrict` with its nested `restrict_base` every `let`, statement,
`return`, `break` and block value in source order together with the headers of all enclosing blocks.
The tables below were written against `Bcdd.restrictGo` / `Bcdd.restrict` (`Bcdd/Model.lean`) and
`Zbdd.restrictBase` / `Zbdd.restrict` (`Zbdd/Model.lean`); each doc comment gives the reading, case
by case.  The obligations say that the source still has exactly these cases, in this order, under
these conditions.  Derived facts name the points a reader compares with the model: the five
tail calls of `inner` and their polarity updates, the three `break 'ret_f` exits, the ZBDD recursion
operands.  The cache keys of both functions are in `SrcKeys2` / `ObKeys2`
(`bcdd_restrict_tags`, `key_complete_restrict_zbdd`).
-/
namespace OxiddModel.Generated

/-- as modelled by `Bcdd.restrictGo` (`Bcdd/Model.lean`): `vl > fl` ⇒ `InnerResult::Rec` (first `if` of the model: recursion on both raw children, polarity re-applied); `vl < fl` (vars above f): `vt` inner ⇒ tail call with `vars_neg ^ tag(vt)` (model: `vt` has tag `None`, same `vneg`), else if `vars_neg`: `ve` inner ⇒ tail call with `vars_neg := tag(ve) != Complemented` (model: `!ven`), otherwise `break 'ret_f (f, f_neg)` (model: `⟨fneg, f⟩`); `vl = fl`: `vt` inner ⇒ `(fnode.child(0), vt, …)` (model: `restrictGo ft fneg … vneg`), else `!vars_neg` ⇒ `break` with `fnode.child(0)` and `f_neg ^ tag` (model: `⟨fneg, ft⟩`, the then edge is untagged), else `f = fnode.child(1)`, `ve` inner ⇒ `(f, ve, tag(ve) != Complemented, n)` (model: `restrictGo fe (fneg != fen) … (!ven)`), else `break` with `f_neg ^ tag(f)` (model: `⟨fneg != fen, fe⟩`); after the selection `f_neg ^= tag(f)` and, if the new `f` is inner, the tail call, else `(f, f_neg)`; the result edge gets the tag `complement` -/
def Exp5.r5BcddRestrictInner : List F5.Row :=
  [⟨[], "let", ["vlevel", "=", "vnode", ".", "level", "(", ")"]⟩,
   ⟨[["if", "vlevel", ">", "flevel"]], "return", ["InnerResult", "::", "Rec", "{", "vars", ":", "vars", ".", "edge_with_tag", "(", "if", "vars_neg", "{", "EdgeTag", "::", "Complemented", "}", "else", "{", "EdgeTag", "::", "None", "}", ")", ",", "f", ",", "f_neg", ",", "fnode", ",", "}"]⟩,
   ⟨[["if", "vlevel", ">", "flevel"], ["return", "InnerResult", "::", "Rec"], ["vars", ":", "vars", ".", "edge_with_tag", "(", "if", "vars_neg"]], "tail", ["EdgeTag", "::", "Complemented"]⟩,
   ⟨[["if", "vlevel", ">", "flevel"], ["return", "InnerResult", "::", "Rec"], ["else", "/*", "after", "*/", "vars", ":", "vars", ".", "edge_with_tag", "(", "if", "vars_neg"]], "tail", ["EdgeTag", "::", "None"]⟩,
   ⟨[["if", "vlevel", ">", "flevel"], ["return", "InnerResult", "::", "Rec"]], "tail", [")", ",", "f", ",", "f_neg", ",", "fnode", ","]⟩,
   ⟨[], "let", ["(", "f", ",", "complement", ")", "=", "'ret_f", ":"]⟩,
   ⟨[["let", "(", "f", ",", "complement", ")", "=", "'ret_f", ":"]], "let", ["vt", "=", "vnode", ".", "child", "(", "0", ")"]⟩,
   ⟨[["let", "(", "f", ",", "complement", ")", "=", "'ret_f", ":"], ["if", "vlevel", "<", "flevel"], ["if", "let", "Node", "::", "Inner", "(", "n", ")", "=", "manager", ".", "get_node", "(", "&", "vt", ")"]], "let", ["vars_neg", "=", "vars_neg", "^", "(", "vt", ".", "tag", "(", ")", "==", "EdgeTag", "::", "Complemented", ")"]⟩,
   ⟨[["let", "(", "f", ",", "complement", ")", "=", "'ret_f", ":"], ["if", "vlevel", "<", "flevel"], ["if", "let", "Node", "::", "Inner", "(", "n", ")", "=", "manager", ".", "get_node", "(", "&", "vt", ")"]], "return", ["inner", "(", "manager", ",", "f", ",", "f_neg", ",", "fnode", ",", "flevel", ",", "vt", ",", "vars_neg", ",", "n", ")"]⟩,
   ⟨[["let", "(", "f", ",", "complement", ")", "=", "'ret_f", ":"], ["if", "vlevel", "<", "flevel"], ["if", "vars_neg"]], "let", ["ve", "=", "vnode", ".", "child", "(", "1", ")"]⟩,
   ⟨[["let", "(", "f", ",", "complement", ")", "=", "'ret_f", ":"], ["if", "vlevel", "<", "flevel"], ["if", "vars_neg"], ["if", "let", "Node", "::", "Inner", "(", "n", ")", "=", "manager", ".", "get_node", "(", "&", "ve", ")"]], "let", ["vars_neg", "=", "ve", ".", "tag", "(", ")", "!=", "EdgeTag", "::", "Complemented"]⟩,
   ⟨[["let", "(", "f", ",", "complement", ")", "=", "'ret_f", ":"], ["if", "vlevel", "<", "flevel"], ["if", "vars_neg"], ["if", "let", "Node", "::", "Inner", "(", "n", ")", "=", "manager", ".", "get_node", "(", "&", "ve", ")"]], "return", ["inner", "(", "manager", ",", "f", ",", "f_neg", ",", "fnode", ",", "flevel", ",", "ve", ",", "vars_neg", ",", "n", ")"]⟩,
   ⟨[["let", "(", "f", ",", "complement", ")", "=", "'ret_f", ":"], ["if", "vlevel", "<", "flevel"]], "break", ["'ret_f", "(", "f", ",", "f_neg", ")"]⟩,
   ⟨[["let", "(", "f", ",", "complement", ")", "=", "'ret_f", ":"]], "let", ["(", "f", ",", "vars", ",", "vars_neg", ",", "vnode", ")", "=", "if", "let", "Node", "::", "Inner", "(", "n", ")", "=", "manager", ".", "get_node", "(", "&", "vt", ")"]⟩,
   ⟨[["let", "(", "f", ",", "complement", ")", "=", "'ret_f", ":"], ["let", "(", "f", ",", "vars", ",", "vars_neg", ",", "vnode", ")", "=", "if", "let", "Node", "::", "Inner", "(", "n", ")", "=", "manager", ".", "get_node", "(", "&", "vt", ")"]], "let", ["vars_neg", "=", "vars_neg", "^", "(", "vt", ".", "tag", "(", ")", "==", "EdgeTag", "::", "Complemented", ")"]⟩,
   ⟨[["let", "(", "f", ",", "complement", ")", "=", "'ret_f", ":"], ["let", "(", "f", ",", "vars", ",", "vars_neg", ",", "vnode", ")", "=", "if", "let", "Node", "::", "Inner", "(", "n", ")", "=", "manager", ".", "get_node", "(", "&", "vt", ")"]], "tail", ["(", "fnode", ".", "child", "(", "0", ")", ",", "vt", ",", "vars_neg", ",", "n", ")"]⟩,
   ⟨[["let", "(", "f", ",", "complement", ")", "=", "'ret_f", ":"], ["else", "/*", "after", "*/", "let", "(", "f", ",", "vars", ",", "vars_neg", ",", "vnode", ")", "=", "if", "let", "Node", "::", "Inner", "(", "n", ")", "=", "manager", ".", "get_node", "(", "&", "vt", ")"], ["if", "!", "vars_neg"]], "let", ["f", "=", "fnode", ".", "child", "(", "0", ")"]⟩,
   ⟨[["let", "(", "f", ",", "complement", ")", "=", "'ret_f", ":"], ["else", "/*", "after", "*/", "let", "(", "f", ",", "vars", ",", "vars_neg", ",", "vnode", ")", "=", "if", "let", "Node", "::", "Inner", "(", "n", ")", "=", "manager", ".", "get_node", "(", "&", "vt", ")"], ["if", "!", "vars_neg"]], "let", ["f_neg", "=", "f_neg", "^", "(", "f", ".", "tag", "(", ")", "==", "EdgeTag", "::", "Complemented", ")"]⟩,
   ⟨[["let", "(", "f", ",", "complement", ")", "=", "'ret_f", ":"], ["else", "/*", "after", "*/", "let", "(", "f", ",", "vars", ",", "vars_neg", ",", "vnode", ")", "=", "if", "let", "Node", "::", "Inner", "(", "n", ")", "=", "manager", ".", "get_node", "(", "&", "vt", ")"], ["if", "!", "vars_neg"]], "break", ["'ret_f", "(", "f", ",", "f_neg", ")"]⟩,
   ⟨[["let", "(", "f", ",", "complement", ")", "=", "'ret_f", ":"], ["else", "/*", "after", "*/", "let", "(", "f", ",", "vars", ",", "vars_neg", ",", "vnode", ")", "=", "if", "let", "Node", "::", "Inner", "(", "n", ")", "=", "manager", ".", "get_node", "(", "&", "vt", ")"]], "let", ["f", "=", "fnode", ".", "child", "(", "1", ")"]⟩,
   ⟨[["let", "(", "f", ",", "complement", ")", "=", "'ret_f", ":"], ["else", "/*", "after", "*/", "let", "(", "f", ",", "vars", ",", "vars_neg", ",", "vnode", ")", "=", "if", "let", "Node", "::", "Inner", "(", "n", ")", "=", "manager", ".", "get_node", "(", "&", "vt", ")"]], "let", ["ve", "=", "vnode", ".", "child", "(", "1", ")"]⟩,
   ⟨[["let", "(", "f", ",", "complement", ")", "=", "'ret_f", ":"], ["else", "/*", "after", "*/", "let", "(", "f", ",", "vars", ",", "vars_neg", ",", "vnode", ")", "=", "if", "let", "Node", "::", "Inner", "(", "n", ")", "=", "manager", ".", "get_node", "(", "&", "vt", ")"], ["if", "let", "Node", "::", "Inner", "(", "n", ")", "=", "manager", ".", "get_node", "(", "&", "ve", ")"]], "let", ["vars_neg", "=", "ve", ".", "tag", "(", ")", "!=", "EdgeTag", "::", "Complemented"]⟩,
   ⟨[["let", "(", "f", ",", "complement", ")", "=", "'ret_f", ":"], ["else", "/*", "after", "*/", "let", "(", "f", ",", "vars", ",", "vars_neg", ",", "vnode", ")", "=", "if", "let", "Node", "::", "Inner", "(", "n", ")", "=", "manager", ".", "get_node", "(", "&", "vt", ")"], ["if", "let", "Node", "::", "Inner", "(", "n", ")", "=", "manager", ".", "get_node", "(", "&", "ve", ")"]], "tail", ["(", "f", ",", "ve", ",", "vars_neg", ",", "n", ")"]⟩,
   ⟨[["let", "(", "f", ",", "complement", ")", "=", "'ret_f", ":"], ["else", "/*", "after", "*/", "let", "(", "f", ",", "vars", ",", "vars_neg", ",", "vnode", ")", "=", "if", "let", "Node", "::", "Inner", "(", "n", ")", "=", "manager", ".", "get_node", "(", "&", "vt", ")"], ["else", "/*", "after", "*/", "if", "let", "Node", "::", "Inner", "(", "n", ")", "=", "manager", ".", "get_node", "(", "&", "ve", ")"]], "let", ["f_neg", "=", "f_neg", "^", "(", "f", ".", "tag", "(", ")", "==", "EdgeTag", "::", "Complemented", ")"]⟩,
   ⟨[["let", "(", "f", ",", "complement", ")", "=", "'ret_f", ":"], ["else", "/*", "after", "*/", "let", "(", "f", ",", "vars", ",", "vars_neg", ",", "vnode", ")", "=", "if", "let", "Node", "::", "Inner", "(", "n", ")", "=", "manager", ".", "get_node", "(", "&", "vt", ")"], ["else", "/*", "after", "*/", "if", "let", "Node", "::", "Inner", "(", "n", ")", "=", "manager", ".", "get_node", "(", "&", "ve", ")"]], "break", ["'ret_f", "(", "f", ",", "f_neg", ")"]⟩,
   ⟨[["let", "(", "f", ",", "complement", ")", "=", "'ret_f", ":"]], "let", ["f_neg", "=", "f_neg", "^", "(", "f", ".", "tag", "(", ")", "==", "EdgeTag", "::", "Complemented", ")"]⟩,
   ⟨[["let", "(", "f", ",", "complement", ")", "=", "'ret_f", ":"], ["if", "let", "Node", "::", "Inner", "(", "fnode", ")", "=", "manager", ".", "get_node", "(", "&", "f", ")"]], "let", ["flevel", "=", "fnode", ".", "level", "(", ")"]⟩,
   ⟨[["let", "(", "f", ",", "complement", ")", "=", "'ret_f", ":"], ["if", "let", "Node", "::", "Inner", "(", "fnode", ")", "=", "manager", ".", "get_node", "(", "&", "f", ")"]], "return", ["inner", "(", "manager", ",", "f", ",", "f_neg", ",", "fnode", ",", "flevel", ",", "vars", ",", "vars_neg", ",", "vnode", ")"]⟩,
   ⟨[["let", "(", "f", ",", "complement", ")", "=", "'ret_f", ":"]], "tail", ["(", "f", ",", "f_neg", ")"]⟩,
   ⟨[["InnerResult", "::", "Done", "(", "manager", ".", "clone_edge", "(", "&", "f", ")", ".", "with_tag_owned", "(", "if", "complement"]], "tail", ["EdgeTag", "::", "Complemented"]⟩,
   ⟨[["else", "/*", "after", "*/", "InnerResult", "::", "Done", "(", "manager", ".", "clone_edge", "(", "&", "f", ")", ".", "with_tag_owned", "(", "if", "complement"]], "tail", ["EdgeTag", "::", "None"]⟩,
   ⟨[], "tail", [")", ")"]⟩]

/-- as modelled by `Bcdd.restrictGo` / `Bcdd.restrict`: a terminal `f` or `vars` returns `f` (`| _, _ => ⟨fneg, fn⟩`); `inner` is entered with `f_neg = tag(f)`, `vars_neg = tag(vars)` (`restrict f vars = restrictGo f.n f.neg vars.n vars.neg`); `InnerResult::Rec`: the cache key uses the untagged `f` (`SrcKeys2`: `bcdd_restrict_tags`), the recursion is on `(fnode.child(0), vars)`, `(fnode.child(1), vars)`, `reduce(fnode.level(), t, e)`, and the tag `f_tag` is xor-ed onto the result (`let r := mk fl t e; ⟨r.neg != fneg, r.n⟩`) -/
def Exp5.r5BcddRestrictOuter : List F5.Row :=
  [⟨[["if", "rec", ".", "should_switch_to_sequential", "(", ")"]], "return", ["restrict", "(", "manager", ",", "SequentialRecursor", ",", "f", ",", "vars", ")"]⟩,
   ⟨[], "let", ["(", "Node", "::", "Inner", "(", "fnode", ")", ",", "Node", "::", "Inner", "(", "vnode", ")", ")", "=", "(", "manager", ".", "get_node", "(", "&", "f", ")", ",", "manager", ".", "get_node", "(", "&", "vars", ")", ")", "else"]⟩,
   ⟨[["let", "(", "Node", "::", "Inner", "(", "fnode", ")", ",", "Node", "::", "Inner", "(", "vnode", ")", ")", "=", "(", "manager", ".", "get_node", "(", "&", "f", ")", ",", "manager", ".", "get_node", "(", "&", "vars", ")", ")", "else"]], "return", ["Ok", "(", "manager", ".", "clone_edge", "(", "&", "f", ")", ")"]⟩,
   ⟨[], "let", ["inner_res", "="]⟩,
   ⟨[["let", "inner_res", "="]], "let", ["f_neg", "=", "f", ".", "tag", "(", ")", "==", "EdgeTag", "::", "Complemented"]⟩,
   ⟨[["let", "inner_res", "="]], "let", ["flevel", "=", "fnode", ".", "level", "(", ")"]⟩,
   ⟨[["let", "inner_res", "="]], "let", ["vars_neg", "=", "vars", ".", "tag", "(", ")", "==", "EdgeTag", "::", "Complemented"]⟩,
   ⟨[["let", "inner_res", "="]], "tail", ["inner", "(", "manager", ",", "f", ",", "f_neg", ",", "fnode", ",", "flevel", ",", "vars", ",", "vars_neg", ",", "vnode", ")"]⟩,
   ⟨[["match", "inner_res"], ["InnerResult", "::", "Rec"]], "tail", ["vars", ",", "f", ",", "f_neg", ",", "fnode", ","]⟩,
   ⟨[["match", "inner_res"], ["=>", ""]], "let", ["f_untagged", "=", "f", ".", "with_tag", "(", "EdgeTag", "::", "None", ")"]⟩,
   ⟨[["match", "inner_res"], ["=>", ""]], "let", ["f_tag", "=", "if", "f_neg"]⟩,
   ⟨[["match", "inner_res"], ["=>", ""], ["let", "f_tag", "=", "if", "f_neg"]], "tail", ["EdgeTag", "::", "Complemented"]⟩,
   ⟨[["match", "inner_res"], ["=>", ""], ["else", "/*", "after", "*/", "let", "f_tag", "=", "if", "f_neg"]], "tail", ["EdgeTag", "::", "None"]⟩,
   ⟨[["match", "inner_res"], ["=>", ""], ["if", "let", "Some", "(", "result", ")", "=", "manager", ".", "apply_cache", "(", ")", ".", "get", "(", "manager", ",", "BCDDOp", "::", "Restrict", ",", "&", "[", "f_untagged", ".", "borrowed", "(", ")", ",", "vars", ".", "borrowed", "(", ")", "]", ",", ")"]], "let", ["result_tag", "=", "result", ".", "tag", "(", ")"]⟩,
   ⟨[["match", "inner_res"], ["=>", ""], ["if", "let", "Some", "(", "result", ")", "=", "manager", ".", "apply_cache", "(", ")", ".", "get", "(", "manager", ",", "BCDDOp", "::", "Restrict", ",", "&", "[", "f_untagged", ".", "borrowed", "(", ")", ",", "vars", ".", "borrowed", "(", ")", "]", ",", ")"]], "return", ["Ok", "(", "result", ".", "with_tag_owned", "(", "result_tag", "^", "f_tag", ")", ")"]⟩,
   ⟨[["match", "inner_res"], ["=>", ""]], "let", ["(", "t", ",", "e", ")", "=", "rec", ".", "binary", "(", "restrict", ",", "manager", ",", "(", "fnode", ".", "child", "(", "0", ")", ",", "vars", ".", "borrowed", "(", ")", ")", ",", "(", "fnode", ".", "child", "(", "1", ")", ",", "vars", ".", "borrowed", "(", ")", ")", ",", ")", "?"]⟩,
   ⟨[["match", "inner_res"], ["=>", ""]], "let", ["result", "=", "reduce", "(", "manager", ",", "fnode", ".", "level", "(", ")", ",", "t", ".", "into_edge", "(", ")", ",", "e", ".", "into_edge", "(", ")", ",", "BCDDOp", "::", "Restrict", ",", ")", "?"]⟩,
   ⟨[["match", "inner_res"], ["=>", ""]], "stmt", ["manager", ".", "apply_cache", "(", ")", ".", "add", "(", "manager", ",", "BCDDOp", "::", "Restrict", ",", "&", "[", "f_untagged", ",", "vars", "]", ",", "result", ".", "borrowed", "(", ")", ",", ")"]⟩,
   ⟨[["match", "inner_res"], ["=>", ""]], "let", ["result_tag", "=", "result", ".", "tag", "(", ")"]⟩,
   ⟨[["match", "inner_res"], ["=>", ""]], "tail", ["Ok", "(", "result", ".", "with_tag_owned", "(", "result_tag", "^", "f_tag", ")", ")"]⟩]

/-- as modelled by `Zbdd.restrictBase`: inner `vars` with `hi != lo` (a positive literal) ⇒ `Empty`; otherwise recurse on `hi` at `node_level + 1` and, if `node_level > level` and the result is not `Empty`, add the don't-care nodes `(l, res, res)` for `l = node_level-1 … level`; terminal `vars` ⇒ `tautology(level)` -/
def Exp5.r5ZbddRestrictBase : List F5.Row :=
  [⟨[["Ok", "(", "match", "manager", ".", "get_node", "(", "&", "vars", ")"], ["=>", "Node", "::", "Inner", "(", "node", ")"]], "let", ["(", "hi", ",", "lo", ")", "=", "collect_children", "(", "node", ")"]⟩,
   ⟨[["Ok", "(", "match", "manager", ".", "get_node", "(", "&", "vars", ")"], ["=>", "Node", "::", "Inner", "(", "node", ")"], ["if", "hi", "!=", "lo"]], "return", ["manager", ".", "get_terminal", "(", "Empty", ")"]⟩,
   ⟨[["Ok", "(", "match", "manager", ".", "get_node", "(", "&", "vars", ")"], ["=>", "Node", "::", "Inner", "(", "node", ")"]], "let", ["node_level", "=", "node", ".", "level", "(", ")"]⟩,
   ⟨[["Ok", "(", "match", "manager", ".", "get_node", "(", "&", "vars", ")"], ["=>", "Node", "::", "Inner", "(", "node", ")"]], "let", ["mut", "res", "=", "restrict_base", "(", "manager", ",", "hi", ",", "node_level", "+", "1", ")", "?"]⟩,
   ⟨[["Ok", "(", "match", "manager", ".", "get_node", "(", "&", "vars", ")"], ["=>", "Node", "::", "Inner", "(", "node", ")"], ["if", "node_level", ">", "level", "&&", "!", "manager", ".", "get_node", "(", "&", "res", ")", ".", "is_terminal", "(", "&", "Empty", ")"], ["for", "l", "in", "(", "level", "..", "node_level", ")", ".", "rev", "(", ")"]], "stmt", ["res", "=", "oxidd_core", "::", "LevelView", "::", "get_or_insert", "(", "&", "mut", "manager", ".", "level", "(", "l", ")", ",", "M", "::", "InnerNode", "::", "new", "(", "l", ",", "[", "manager", ".", "clone_edge", "(", "&", "res", ")", ",", "res", "]", ")", ",", ")", "?"]⟩,
   ⟨[["Ok", "(", "match", "manager", ".", "get_node", "(", "&", "vars", ")"], ["=>", "Node", "::", "Inner", "(", "node", ")"]], "tail", ["res"]⟩,
   ⟨[["Ok", "(", "match", "manager", ".", "get_node", "(", "&", "vars", ")"], ["=>", "Node", "::", "Terminal", "(", "_t", ")"]], "tail", ["manager", ".", "clone_edge", "(", "manager", ".", "zbdd_cache", "(", ")", ".", "tautology", "(", "level", ")", ")"]⟩,
   ⟨[], "tail", [")"]⟩]

/-- as modelled by `Zbdd.restrict n f vars level`: `Empty` ⇒ `f`, `Base` ⇒ `restrictBase`; `vlevel != level` ⇒ `mk1 level (restrict (if fl = level then flo else f) vars (level+1))`; `vhi != vlo` (positive literal at `level`): `flevel != level` ⇒ `Empty`, else `mk1 level (restrict fhi vhi (level+1))`; `flevel != level` ⇒ `restrict f vhi (level+1)`; else cache (key `[f, vars]` + `num_levels`: `SrcKeys2` `key_complete_restrict_zbdd`), `mk level (restrict fhi vhi (level+1)) (restrict flo vhi (level+1))` -/
def Exp5.r5ZbddRestrict : List F5.Row :=
  [⟨[["if", "rec", ".", "should_switch_to_sequential", "(", ")"]], "return", ["restrict", "(", "manager", ",", "SequentialRecursor", ",", "f", ",", "vars", ",", "level", ")"]⟩,
   ⟨[], "stmt", ["use", "ZBDDOp", "::", "Restrict"]⟩,
   ⟨[], "stmt", ["use", "ZBDDTerminal", "::", "*"]⟩,
   ⟨[], "let", ["fnode", "=", "match", "manager", ".", "get_node", "(", "&", "f", ")"]⟩,
   ⟨[["let", "fnode", "=", "match", "manager", ".", "get_node", "(", "&", "f", ")"], ["=>", "Node", "::", "Terminal", "(", "t", ")"]], "return", ["match", "t", ".", "borrow", "(", ")", "{", "Empty", "=>", "Ok", "(", "manager", ".", "clone_edge", "(", "&", "f", ")", ")", ",", "Base", "=>", "restrict_base", "(", "manager", ",", "vars", ",", "level", ")", ",", "}"]⟩,
   ⟨[], "let", ["vnode", "=", "manager", ".", "get_node", "(", "&", "vars", ")"]⟩,
   ⟨[], "let", ["flevel", "=", "fnode", ".", "level", "(", ")"]⟩,
   ⟨[], "let", ["vlevel", "=", "vnode", ".", "level", "(", ")"]⟩,
   ⟨[["if", "vlevel", "!=", "level"]], "let", ["sel", "=", "if", "flevel", "==", "level"]⟩,
   ⟨[["if", "vlevel", "!=", "level"], ["let", "sel", "=", "if", "flevel", "==", "level"]], "tail", ["fnode", ".", "child", "(", "LO", ")"]⟩,
   ⟨[["if", "vlevel", "!=", "level"], ["else", "/*", "after", "*/", "let", "sel", "=", "if", "flevel", "==", "level"]], "tail", ["f"]⟩,
   ⟨[["if", "vlevel", "!=", "level"]], "let", ["child", "=", "restrict", "(", "manager", ",", "rec", ",", "sel", ",", "vars", ",", "level", "+", "1", ")", "?"]⟩,
   ⟨[["if", "vlevel", "!=", "level"]], "return", ["reduce1", "(", "manager", ",", "level", ",", "child", ",", "Restrict", ")"]⟩,
   ⟨[], "let", ["(", "vhi", ",", "vlo", ")", "=", "collect_children", "(", "vnode", ".", "unwrap_inner", "(", ")", ")"]⟩,
   ⟨[["if", "vhi", "!=", "vlo"], ["if", "flevel", "!=", "level"]], "return", ["manager", ".", "get_terminal", "(", "Empty", ")"]⟩,
   ⟨[["if", "vhi", "!=", "vlo"]], "let", ["child", "=", "restrict", "(", "manager", ",", "rec", ",", "fnode", ".", "child", "(", "HI", ")", ",", "vhi", ",", "level", "+", "1", ")", "?"]⟩,
   ⟨[["if", "vhi", "!=", "vlo"]], "return", ["reduce1", "(", "manager", ",", "level", ",", "child", ",", "Restrict", ")"]⟩,
   ⟨[["if", "flevel", "!=", "level"]], "return", ["restrict", "(", "manager", ",", "rec", ",", "f", ",", "vhi", ",", "level", "+", "1", ")"]⟩,
   ⟨[], "let", ["num_levels", "=", "manager", ".", "num_levels", "(", ")"]⟩,
   ⟨[["if", "let", "Some", "(", "(", "[", "res", "]", ",", "[", "]", ")", ")", "=", "manager", ".", "apply_cache", "(", ")", ".", "get_extended", "(", "manager", ",", "Restrict", ",", "(", "&", "[", "f", ".", "borrowed", "(", ")", ",", "vars", ".", "borrowed", "(", ")", "]", ",", "&", "[", "num_levels", "]", ")", ",", ")"]], "return", ["Ok", "(", "res", ")"]⟩,
   ⟨[], "let", ["(", "fhi", ",", "flo", ")", "=", "collect_children", "(", "fnode", ")"]⟩,
   ⟨[], "let", ["(", "hi", ",", "lo", ")", "=", "rec", ".", "binary_with_level", "(", "restrict", ",", "manager", ",", "(", "fhi", ",", "vhi", ".", "borrowed", "(", ")", ",", "level", "+", "1", ")", ",", "(", "flo", ",", "vhi", ".", "borrowed", "(", ")", ",", "level", "+", "1", ")", ",", ")", "?"]⟩,
   ⟨[], "let", ["res", "=", "reduce", "(", "manager", ",", "level", ",", "hi", ".", "into_edge", "(", ")", ",", "lo", ".", "into_edge", "(", ")", ",", "Restrict", ")", "?"]⟩,
   ⟨[], "stmt", ["manager", ".", "apply_cache", "(", ")", ".", "add_extended", "(", "manager", ",", "Restrict", ",", "(", "&", "[", "f", ",", "vars", "]", ",", "&", "[", "num_levels", "]", ")", ",", "(", "&", "[", "res", ".", "borrowed", "(", ")", "]", ",", "&", "[", "]", ")", ",", ")"]⟩,
   ⟨[], "tail", ["Ok", "(", "res", ")"]⟩]

theorem restrict5_BcddRestrictInner_as_modelled : r5BcddRestrictInner = Exp5.r5BcddRestrictInner := by decide
theorem restrict5_BcddRestrictOuter_as_modelled : r5BcddRestrictOuter = Exp5.r5BcddRestrictOuter := by decide
theorem restrict5_ZbddRestrictBase_as_modelled : r5ZbddRestrictBase = Exp5.r5ZbddRestrictBase := by decide
theorem restrict5_ZbddRestrict_as_modelled : r5ZbddRestrict = Exp5.r5ZbddRestrict := by decide

/-- the tail calls of `inner`, in order: (vars above f) skip `x ∧ φ`, skip `¬x ∧ φ`; (same level) the
single call after the selection — `restrictGo` has the same five recursive calls (two above, three
selections merged into the last call here) with these arguments -/
theorem restrict5_bcdd_inner_tail_calls :
    (r5BcddRestrictInner.filter fun r => r.kind = "return" ∧ r.act.head? = some "inner").map (·.act) =
      [["inner", "(", "manager", ",", "f", ",", "f_neg", ",", "fnode", ",", "flevel", ",", "vt", ",", "vars_neg", ",", "n", ")"],
       ["inner", "(", "manager", ",", "f", ",", "f_neg", ",", "fnode", ",", "flevel", ",", "ve", ",", "vars_neg", ",", "n", ")"],
       ["inner", "(", "manager", ",", "f", ",", "f_neg", ",", "fnode", ",", "flevel", ",", "vars", ",", "vars_neg", ",", "vnode", ")"]] := by decide

/-- every polarity update of `inner`: `vars_neg ^ (tag(vt) == C)` when following the then edge,
`tag(ve) != C` when following the else edge of a negated cube, `f_neg ^ (tag(f) == C)` for the selected child -/
theorem restrict5_bcdd_inner_polarities :
    ((r5BcddRestrictInner.filter fun r => r.kind = "let" ∧ (r.act.head? = some "vars_neg" ∨ r.act.head? = some "f_neg")).map (·.act)).eraseDups =
      [["vars_neg", "=", "vars_neg", "^", "(", "vt", ".", "tag", "(", ")", "==", "EdgeTag", "::", "Complemented", ")"],
       ["vars_neg", "=", "ve", ".", "tag", "(", ")", "!=", "EdgeTag", "::", "Complemented"],
       ["f_neg", "=", "f_neg", "^", "(", "f", ".", "tag", "(", ")", "==", "EdgeTag", "::", "Complemented", ")"]] := by decide

/-- the exits through `break 'ret_f`: three, all with `(f, f_neg)` -/
theorem restrict5_bcdd_inner_breaks :
    (r5BcddRestrictInner.filter fun r => r.kind = "break").map (·.act) =
      [["'ret_f", "(", "f", ",", "f_neg", ")"], ["'ret_f", "(", "f", ",", "f_neg", ")"], ["'ret_f", "(", "f", ",", "f_neg", ")"]] := by decide

theorem restrict5_counts :
    [r5BcddRestrictInner.length, r5BcddRestrictOuter.length, r5ZbddRestrictBase.length, r5ZbddRestrict.length] =
      [Exp5.r5BcddRestrictInner.length, Exp5.r5BcddRestrictOuter.length, Exp5.r5ZbddRestrictBase.length, Exp5.r5ZbddRestrict.length] ∧
    0 < r5BcddRestrictInner.length ∧ 0 < r5BcddRestrictOuter.length ∧ 0 < r5ZbddRestrictBase.length ∧ 0 < r5ZbddRestrict.length := by decide

/-- the model on the cases the tables name: a single positive / negative literal at the level of `f`
selects the then / else child, a literal above `f` leaves `f` unchanged, `f` above `vars` recurses -/
example : Bcdd.restrict ⟨false, .node 0 .top true .top⟩ ⟨false, .node 0 .top true .top⟩ = ⟨false, .top⟩ ∧
    Bcdd.restrict ⟨false, .node 0 .top true .top⟩ ⟨true, .node 0 .top true .top⟩ = ⟨true, .top⟩ ∧
    Bcdd.restrict ⟨true, .node 1 .top true .top⟩ ⟨false, .node 0 .top true .top⟩ = ⟨true, .node 1 .top true .top⟩ := by
  simp [Bcdd.restrict, Bcdd.restrictGo]

end OxiddModel.Generated
