import OxiddModel.Generated.SrcFacts

/-!
# Obligation over the hash-table constants (C17)

The `HashTbl` model is written for this load factor and minimal capacity (its slot-for-slot
theorems use the numerals).

`SrcFacts.lean` is regenerated from `/repo` on every run; these theorems are re-checked against it.
One module per diagram kind / concern, so that a change to an unrelated table never breaks it.
-/
namespace OxiddModel.Generated

theorem tbl_constants_as_modelled : tblRatioN = 3 ∧ tblRatioD = 4 ∧ tblMinCap = 16 := by decide

end OxiddModel.Generated
