import OxiddModel.Generated.ObCommon

/-!
# Obligations over the TDD tables (C06, C11)

`SrcFacts.lean` is regenerated from `/repo` on every run; these theorems are re-checked against it.
One module per diagram kind / concern, so that a change to an unrelated table never breaks it.
-/
namespace OxiddModel.Generated

theorem memo_tag_ok_tdd : memoOK memoTags_tdd = true := by decide
theorem memo_ops_tdd : memoTags_tdd.map (·.1) = (enumTDDOp.drop 1).take 8 := by decide
theorem enums_tdd :
    enumTDDOp.take 10 = ["Not", "And", "Or", "Nand", "Nor", "Xor", "Equiv", "Imp", "ImpStrict", "Ite"] := by
  decide

end OxiddModel.Generated
