import OxiddModel.Generated.ObTerminalCommon
import OxiddModel.Bdd.Model

/-! # Terminal cases of the simple-BDD `terminal_bin` are identities of `Bdd.Op.sem` (C02) (definitions and explanation: `ObTerminalCommon.lean`) -/
namespace OxiddModel.Generated

/-! ## Simple BDDs -/

def bddConst : String → Option Bool
  | "False" => some false | "True" => some true | _ => none

def bddSem : String → Option (Bool → Bool → Bool)
  | "And" => some (Bdd.Op.sem .and) | "Or" => some (Bdd.Op.sem .or)
  | "Nand" => some (Bdd.Op.sem .nand) | "Nor" => some (Bdd.Op.sem .nor)
  | "Xor" => some (Bdd.Op.sem .xor) | "Equiv" => some (Bdd.Op.sem .equiv)
  | "Imp" => some (Bdd.Op.sem .imp) | "ImpStrict" => some (Bdd.Op.sem .impStrict)
  | _ => none

def bddClasses : List Cls := [.term "False", .term "True", .inner]

/-- every terminal case of the BDD `terminal_bin` is an identity of `Bdd.Op.sem`, the decision
lists are total, and the extractor recognised every operator block -/
theorem terminal_cases_sound_bdd :
    termRules_bdd.all (fun p => rulesSound bddConst (!·) bddSem [false, true] bddClasses p.1 p.2) = true ∧
    termRules_bdd.map (·.1) = ["And", "Or", "Nand", "Nor", "Xor", "Equiv", "Imp", "ImpStrict"] ∧
    termRulesUnparsed_bdd = [] := by
  decide

end OxiddModel.Generated
