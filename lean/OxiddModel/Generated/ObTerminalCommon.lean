import OxiddModel.Generated.SrcFacts

/-!
# Obligations over the extracted terminal cases of `terminal_bin` (C02, C11)

`SrcFacts.termRules_bdd` / `termRules_tdd` are the decision lists of the Rust `terminal_bin`
functions (simple BDDs, TDDs), extracted arm by arm from the source on every run: the `if f == g`
test, then the `match` arms in source order, each with the constant of its guard and its result
(`Done(clone f|g)`, `Done(terminal c)`, `Not(f|g)`, `Binary(op', a, b)`).

The theorems state that every shortcut is an identity of *the model's* logic (`Bdd.Op.sem`, the
three-valued tables `Tdd.BinOp.sem` that property C11 fixes): for every combination of operand
classes (each terminal, or an inner node with an arbitrary value at the assignment under
consideration), every consistent outcome of the tests `f == g` and `f > g`, the first matching
arm exists and its result has the value `op x y`. A `Binary(op', a, b)` result stands for the
recursion on `op' a b` and must have that value too (this is also what makes memoising it under
the tag `op'` sound). Together with the Shannon-expansion step proved in the model files this is
the pointwise correctness of `apply_bin`; here it is re-checked against what the code says now.
-/
namespace OxiddModel.Generated

/-- operand class: a terminal with the given name, or an inner node -/
inductive Cls where
  | term (c : String)
  | inner
deriving DecidableEq, Repr

/-- does the arm's pattern match? (`eq`: `f == g`; `gt`: `f > g`) -/
def patMatches (r : TRule) (cf cg : Cls) (eq gt : Bool) : Bool :=
  match r.pat with
  | "eq" => eq
  | "either" => cf == .term r.c || cg == .term r.c
  | "f" => cf == .term r.c
  | "g" => cg == .term r.c
  | "fterm" => cf != .inner
  | "gterm" => cg != .inner
  | "inner_gt" => cf == .inner && cg == .inner && gt
  | "inner" => cf == .inner && cg == .inner
  | "any_gt" => gt
  | "any" => true
  | _ => false

def firstMatch (rs : List TRule) (cf cg : Cls) (eq gt : Bool) : Option TRule :=
  rs.find? (fun r => patMatches r cf cg eq gt)

section Generic
variable {V : Type} [DecidableEq V]

/-- value of an arm's result at an assignment where `f` has value `x` and `g` has value `y` -/
def resValue (constOf : String → Option V) (neg : V → V) (semOf : String → Option (V → V → V))
    (r : TRule) (x y : V) : Option V :=
  let pick (s : String) : Option V := if s == "f" then some x else if s == "g" then some y else none
  match r.res with
  | "clone" => pick r.x
  | "const" => constOf r.x
  | "not" => (pick r.x).map neg
  | "bin" => do
    let o ← semOf r.x
    let a ← pick r.a
    let b ← pick r.b
    pure (o a b)
  | _ => none

/-- the values an operand of a class can take -/
def valuesOf (constOf : String → Option V) (all : List V) : Cls → List V
  | .term c => (constOf c).toList
  | .inner => all

/-- consistency of the test `f == g` with the classes and values: equal edges have equal classes
and values; two terminal edges with the same constant *are* equal (terminals are unique); distinct
inner nodes may well have the same value at one assignment -/
def eqConsistent (cf cg : Cls) (x y : V) (eq : Bool) : Bool :=
  if eq then cf == cg && x == y
  else !(cf != .inner && cf == cg)

/-- soundness of one operator's decision list -/
def rulesSound (constOf : String → Option V) (neg : V → V) (semOf : String → Option (V → V → V))
    (all : List V) (classes : List Cls) (op : String) (rs : List TRule) : Bool :=
  match semOf op with
  | none => false
  | some o =>
    classes.all fun cf => classes.all fun cg =>
      (valuesOf constOf all cf).all fun x => (valuesOf constOf all cg).all fun y =>
        [false, true].all fun eq => [false, true].all fun gt =>
          !eqConsistent cf cg x y eq ||
            (match firstMatch rs cf cg eq gt with
             | none => false
             | some r => resValue constOf neg semOf r x y == some (o x y))

end Generic

end OxiddModel.Generated
