import OxiddModel.Generated.SrcMtbdd
import OxiddModel.Generated.LemmasMtbdd

/-!
# Terminal cases of the MTBDD `terminal_bin` are identities of the model's scalar operations (C10, C06)

`SrcMtbdd.termRules_mtbdd` is regenerated from `crates/oxidd-rules-mtbdd/src/lib.rs` on every run.
The obligation evaluates (by `decide`) the check `Mt.listOK` of `LemmasMtbdd.lean` on every
extracted decision list: every arm is one of the proven shapes for its operator, a catch-all arm
exists, two terminals are always computed and never recursed on, the six operators are all there,
and the extractor recognised every construct.  By `Mt.rules_sound` (general, for all values) this
means that each list computes `L.sem op` at every assignment for every terminal type satisfying
`Mtbdd.TerminalLaws`/`Mt.TerminalComm`; `terminal_cases_sound_mtbdd_i64` instantiates it with the
`I64` arithmetic of `Mtbdd/Model.lean`.
-/
namespace OxiddModel.Generated

/-- every arm of the MTBDD `terminal_bin` is of a proven shape and every list is total -/
theorem terminal_cases_ok_mtbdd : termRules_mtbdd.all (fun p => Mt.listOK p.1 p.2) = true := by
  decide

/-- the six operator blocks are all there, and the extractor recognised every construct -/
theorem terminal_cases_complete_mtbdd :
    termRules_mtbdd.map (·.1) = [.add, .sub, .mul, .div, .min, .max] ∧
    termRulesUnparsed_mtbdd = [] := by
  decide

/-- semantic reading at `I64`: for every operator block, every combination of operand classes
(`tf`/`tg`: terminal or inner node), all `i64` payload values `x`, `y` of the operands at an
assignment and every consistent outcome of `f == g` / `f > g`, the first matching arm exists and
its result has the value `I64`-`op x y` of the model -/
theorem terminal_cases_sound_mtbdd_i64 (op : Mt.MOp) (rs : List Mt.MRule)
    (hmem : (op, rs) ∈ termRules_mtbdd) (tf tg : Bool) (x y : Mtbdd.I64) (eq gt : Bool)
    (hx : x.Valid) (hy : y.Valid) (heq : eq = true → x = y) :
    ∃ r, Mt.firstMatch Mtbdd.i64Ops rs tf tg x y eq gt = some r ∧
      Mt.resValue Mtbdd.i64Ops r.res x y = Mtbdd.i64Ops.sem op.toOp x y := by
  have h := List.all_eq_true.1 terminal_cases_ok_mtbdd (op, rs) hmem
  exact Mt.rules_sound_i64 op rs h tf tg x y eq gt hx hy heq

/-- non-vacuity: the `Sub` block is present and, e.g., `x − 0` on an inner `f` takes the shortcut -/
example : ∃ rs, (Mt.MOp.sub, rs) ∈ termRules_mtbdd ∧
    (Mt.firstMatch Mtbdd.i64Ops rs false true (.num 5) (.num 0) false false).map (·.res) = some (.clone .f) := by
  refine ⟨_, List.mem_cons_of_mem _ (List.mem_cons_self ..), by decide⟩

end OxiddModel.Generated
