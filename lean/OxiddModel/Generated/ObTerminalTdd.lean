import OxiddModel.Generated.ObTerminalCommon
import OxiddModel.Tdd.Model

/-! # Terminal cases of the TDD `terminal_bin` are identities of the fixed three-valued tables (C11) (definitions and explanation: `ObTerminalCommon.lean`) -/
namespace OxiddModel.Generated

/-! ## TDDs: the three-valued logic of property C11 -/

def tddConst : String → Option Tdd.Tri
  | "False" => some .f | "Unknown" => some .u | "True" => some .t | _ => none

def tddSem : String → Option (Tdd.Tri → Tdd.Tri → Tdd.Tri)
  | "And" => some (Tdd.BinOp.sem .and) | "Or" => some (Tdd.BinOp.sem .or)
  | "Nand" => some (Tdd.BinOp.sem .nand) | "Nor" => some (Tdd.BinOp.sem .nor)
  | "Xor" => some (Tdd.BinOp.sem .xor) | "Equiv" => some (Tdd.BinOp.sem .equiv)
  | "Imp" => some (Tdd.BinOp.sem .imp) | "ImpStrict" => some (Tdd.BinOp.sem .impStrict)
  | _ => none

def tddClasses : List Cls := [.term "False", .term "Unknown", .term "True", .inner]

/-- every terminal case of the TDD `terminal_bin` is an identity of the fixed three-valued tables
(Kleene / Łukasiewicz, `Tdd.BinOp.sem`), the decision lists are total, and the extractor
recognised every operator block -/
theorem terminal_cases_sound_tdd :
    termRules_tdd.all (fun p => rulesSound tddConst Tdd.Tri.not tddSem [.f, .u, .t] tddClasses p.1 p.2) = true ∧
    termRules_tdd.map (·.1) = ["And", "Or", "Nand", "Nor", "Xor", "Equiv", "Imp", "ImpStrict"] ∧
    termRulesUnparsed_tdd = [] := by
  decide

end OxiddModel.Generated
