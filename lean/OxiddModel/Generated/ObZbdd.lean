import OxiddModel.Generated.SrcFacts

/-!
# Obligations over the ZBDD operator enum (C02, C09)

`SrcFacts.lean` is regenerated from `/repo` on every run; these theorems are re-checked against it.
One module per diagram kind / concern, so that a change to an unrelated table never breaks it.
-/
namespace OxiddModel.Generated

theorem enums_zbdd :
    enumZBDDOp.take 8 = ["Subset0", "Subset1", "Change", "Restrict", "Union", "Intsec", "Diff", "SymmDiff"] := by
  decide

end OxiddModel.Generated
