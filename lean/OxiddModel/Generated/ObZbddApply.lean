import OxiddModel.Generated.SrcZbddApply
import OxiddModel.Generated.LemmasZbddApply

/-!
# `apply_union/intsec/diff/symm_diff` of the source against the model's set operations (C09)

`SrcZbddApply.lean` is regenerated from `crates/oxidd-rules-zbdd/src/apply_rec.rs` on every run.
Definitions and general theorems: `LemmasZbddApply.lean`.
-/
set_option linter.unusedSimpArgs false

namespace OxiddModel.Generated

open OxiddModel.Zbdd OxiddModel.Zbdd.ZDD

/-- per function (finite check): terminal cases are set identities and leave no two terminals, the
cache tag is the operator's own in `get` and `add`, the key is `[f, g]`, and the operands are sorted
(`f > g ⇒ swap`) only for the commutative operations -/
theorem zbdd_apply_fns_ok :
    zbddApplyFns.all Zb.fnOK = true ∧
    zbddApplyFns.map (·.op) = [.union, .intsec, .diff, .symmDiff] ∧
    zbddApplyUnparsed = [] := by
  decide

/-- semantic reading, for ALL diagrams: whenever a terminal case of an extracted function applies,
the diagram it returns has the family `op` of the operands' families -/
theorem zbdd_terminal_cases_sound (d : Zb.ZFn) (hd : d ∈ zbddApplyFns) (r : Zb.TRow) (hr : r ∈ d.term)
    (f g : ZDD) (hh : r.holds f g = true) (n : Nat) (σ : Nat → Bool) (k : Nat) :
    eval n σ k (r.res.inst f g) = d.op.sem (eval n σ k f) (eval n σ k g) := by
  have h := List.all_eq_true.1 zbdd_apply_fns_ok.1 d hd
  simp only [Zb.fnOK, Bool.and_eq_true] at h
  exact Zb.trow_sound d.op r (List.all_eq_true.1 h.1.2 r hr) f g hh n σ k

def zfn (i : Nat) : Zb.ZFn := zbddApplyFns[i]?.getD ⟨.union, [], false, "", "", false, .direct .f .g, .direct .f .g, .direct .f .g⟩

/-- proof script shared by the four functions: split on the three atoms; in a terminal case both
sides reduce to the returned operand; otherwise split on the shapes of the operands -/
macro "zbdd_step" fn:ident f:ident g:ident i:num : tactic => `(tactic| (
  by_cases h1 : $f:ident = $g:ident
  · subst h1; conv => lhs; unfold $fn:ident
    simp [Zb.step, Zb.evalTerm, zfn, zbddApplyFns, Zb.TRow.holds, Zb.Atom.holds, Zb.TRes.inst]
  · by_cases h2 : $g:ident = ZDD.empty
    · subst h2; conv => lhs; unfold $fn:ident
      by_cases h3 : $f:ident = ZDD.empty <;>
        simp [Zb.step, Zb.evalTerm, zfn, zbddApplyFns, Zb.TRow.holds, Zb.Atom.holds, Zb.TRes.inst, h1, h3]
    · by_cases h3 : $f:ident = ZDD.empty
      · subst h3; conv => lhs; unfold $fn:ident
        simp [Zb.step, Zb.evalTerm, zfn, zbddApplyFns, Zb.TRow.holds, Zb.Atom.holds, Zb.TRes.inst, h1, h2]
      · have ht : Zb.evalTerm (zfn $i).term $f:ident $g:ident = none := by
          simp [Zb.evalTerm, zfn, zbddApplyFns, Zb.TRow.holds, Zb.Atom.holds, h1, h2, h3]
        conv => lhs; unfold $fn:ident
        simp only [Zb.step, ht, h1, h2, h3, or_self, if_false]
        cases $f:ident <;> cases $g:ident <;>
          simp_all [Zb.armsStep, zfn, zbddApplyFns, Zb.RArm.eval, Zb.CExpr.eval, Zb.Opnd.get, ZDD.level,
            ZDD.hi, ZDD.lo]))

/-- the extracted description of each function, interpreted with the model's `mk`, unfolds exactly
like the model's function: terminal cases in the same order with the same results, and the same
recursive calls / node constructions in the three level cases — for all diagrams -/
theorem zbdd_union_as_modelled (f g : ZDD) : union f g = Zb.step union (zfn 0) f g := by
  zbdd_step union f g 0

theorem zbdd_intsec_as_modelled (f g : ZDD) : intsec f g = Zb.step intsec (zfn 1) f g := by
  zbdd_step intsec f g 1

theorem zbdd_diff_as_modelled (f g : ZDD) : diff f g = Zb.step diff (zfn 2) f g := by
  zbdd_step diff f g 2

theorem zbdd_symmDiff_as_modelled (f g : ZDD) : symmDiff f g = Zb.step symmDiff (zfn 3) f g := by
  zbdd_step symmDiff f g 3

/-- non-vacuity: `{∅} ∖ ∅` is decided by a terminal case of the extracted `apply_diff` -/
example : Zb.evalTerm (zfn 2).term .base .empty = some .base := by decide

end OxiddModel.Generated
