import OxiddModel.Generated.ObBdd
import OxiddModel.Generated.ObBcdd
import OxiddModel.Generated.ObZbdd
import OxiddModel.Generated.ObMtbdd
import OxiddModel.Generated.ObTdd
import OxiddModel.Generated.ObTbl
import OxiddModel.Generated.ObGc
import OxiddModel.Generated.ObOrderings
import OxiddModel.Generated.ObTerminalBdd
import OxiddModel.Generated.ObTerminalTdd

/-! All obligations over the tables extracted from `/repo` (the checks import only the modules of
their concern). -/
