import OxiddModel.Generated.SrcFacts

/-!
# Proof obligations over the tables extracted from the Rust source

`SrcFacts.lean` is regenerated from `/repo` on every run; the theorems below are re-checked against
it. If the source changes so that one of them fails, the proof obligation breaks (and the check
then searches for a concrete failing input with the harness oracles).
-/
namespace OxiddModel.Generated

/-- every `Binary(tag, ..)` result of an operator's `terminal_bin` block carries that operator's
own tag: a result memoised for one operator is never served for another (C06) -/
def memoOK (rows : List (String × List String)) : Bool :=
  rows.all fun (op, tags) => !tags.isEmpty && tags.all (· == op)

theorem memo_tag_ok_bdd : memoOK memoTags_bdd = true := by decide
theorem memo_tag_ok_mtbdd : memoOK memoTags_mtbdd = true := by decide
theorem memo_tag_ok_tdd : memoOK memoTags_tdd = true := by decide

/-- the operator blocks of `terminal_bin` are exactly the binary operators of the enum, each once -/
theorem memo_ops_bdd : memoTags_bdd.map (·.1) = (enumBDDOp.drop 1).take 8 := by decide
theorem memo_ops_mtbdd : memoTags_mtbdd.map (·.1) = enumMTBDDOp.take 6 := by decide
theorem memo_ops_tdd : memoTags_tdd.map (·.1) = (enumTDDOp.drop 1).take 8 := by decide

/-- the propositional connectives of `BooleanOperator` -/
def boolOp : String → Option (Bool → Bool → Bool)
  | "And" => some (· && ·) | "Or" => some (· || ·) | "Xor" => some (· != ·) | "Equiv" => some (· == ·)
  | "Nand" => some fun a b => !(a && b) | "Nor" => some fun a b => !(a || b)
  | "Imp" => some fun a b => !a || b | "ImpStrict" => some fun a b => !a && b
  | _ => none

/-- the kernels `apply_quant` is instantiated with for BCDDs -/
def kernel : String → Option (Bool → Bool → Bool)
  | "and" => some (· && ·) | "xor" => some (· != ·) | "nand" => some fun a b => !(a && b)
  | _ => none

def bools : List Bool := [false, true]

/-- a row of `apply_quant_dispatch` is a Boolean identity:
`op a b = [¬] kernel ([¬]a) ([¬]b)`, and the quantifier is dualised exactly when the result is negated
(`Q x. ¬h = ¬ Q̄ x. h` for ∀/∃) -/
def rowOK (r : Row) : Bool :=
  match boolOp r.op, kernel r.kernel with
  | some o, some k =>
    (bools.all fun a => bools.all fun b => ((k (a != r.negF) (b != r.negG)) != r.negRes) == o a b) &&
      (r.swapped == r.negRes)
  | _, _ => false

/-- for `unique` the quantifier is invariant under negating its body (`(¬a) ⊕ (¬b) = a ⊕ b`), so a row
is correct if the kernel computes the operator or its negation -/
def rowUniqueOK (r : Row) : Bool :=
  match boolOp r.op, kernel r.kernel with
  | some o, some k =>
    ((bools.all fun a => bools.all fun b => k (a != r.negF) (b != r.negG) == o a b) ||
     (bools.all fun a => bools.all fun b => k (a != r.negF) (b != r.negG) == !(o a b))) &&
      !r.swapped && !r.negRes
  | _, _ => false

def allOps : List String := ["And", "Or", "Xor", "Equiv", "Nand", "Nor", "Imp", "ImpStrict"]

theorem dispatch_rows_ok : dispatchRows.all rowOK = true ∧ dispatchRows.map (·.op) = allOps := by decide
theorem dispatch_unique_rows_ok :
    dispatchUniqueRows.all rowUniqueOK = true ∧ dispatchUniqueRows.map (·.op) = allOps := by decide

/-- the operator enums the models were written against (a changed enum invalidates the mapping of
model operators to cache tags) -/
theorem enums_as_modelled :
    (enumBDDOp.drop 1).take 8 = ["And", "Or", "Nand", "Nor", "Xor", "Equiv", "Imp", "ImpStrict"] ∧
    enumBDDOp.head? = some "Not" ∧ enumBDDOp[9]? = some "Ite" ∧
    enumMTBDDOp = ["Add", "Sub", "Mul", "Div", "Min", "Max", "Ite", "Restrict"] ∧
    enumTDDOp = ["Not", "And", "Or", "Nand", "Nor", "Xor", "Equiv", "Imp", "ImpStrict", "Ite"] ∧
    enumBCDDOp.take 2 = ["And", "Xor"] ∧
    enumZBDDOp.take 8 = ["Subset0", "Subset1", "Change", "Restrict", "Union", "Intsec", "Diff", "SymmDiff"] := by
  decide

/-- the hash-table constants the `HashTbl` model uses, and sane GC water marks -/
theorem constants_as_modelled :
    tblRatioN = 3 ∧ tblRatioD = 4 ∧ tblMinCap = 16 ∧ gcLwmPercent = 90 ∧ gcHwmPercent = 95 := by decide

end OxiddModel.Generated
