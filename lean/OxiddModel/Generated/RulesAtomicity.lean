/-!
# Row types of the table of reference-counter operations (`SrcAtomicity.lean`)

Hand-written and fixed; `SrcAtomicity.lean` (regenerated from the Rust source on every run by
`tools/extract_tables.py`) contains only data of these types.
-/
namespace OxiddModel.Generated.At

/-- the atomic method applied to a counter -/
inductive AOp where
  | fetchAdd | fetchSub | load | store | swap | cas | fetchUpdate
  /-- any other method of the atomic type (`fetch_max`, `get_mut`, …) -/
  | other (name : String)
deriving DecidableEq, Repr

/-- one operation on a field `rc`: file tag, owner of the `impl` block (`""` for a free function),
function, method, its value operand (source text, spaces removed), memory ordering
(`param:<name>` when the ordering is a parameter of the function), and whether the function's body
contains `abort()` (the overflow guard of an increment) -/
structure RcOp where
  file : String
  owner : String
  fn : String
  op : AOp
  operand : String
  ordering : String
  aborts : Bool
deriving DecidableEq, Repr

end OxiddModel.Generated.At
