/-!
# Row types of the tables extracted from the complement-edge BDD rules (`oxidd-rules-bdd/src/complement_edge`)

Hand-written and fixed; `SrcBcddKernels.lean` (regenerated from the Rust source on every run by
`tools/extract_tables.py`) contains only data of these types.
-/
namespace OxiddModel.Generated.Bc

/-- an operand of a kernel -/
inductive Side where
  | f | g
deriving DecidableEq, Repr

/-- a Boolean expression over the operands' tags (argument of `get_terminal`) -/
inductive BExpr where
  | lit (b : Bool)
  /-- `ft == None` (`false`: `ft == Complemented`) -/
  | tagNone (s : Side) (isNone : Bool)
  /-- `ft == gt` (`false`: `ft != gt`) -/
  | tagsEq (eq : Bool)
  | and (a b : BExpr)
  | or (a b : BExpr)
  | not (a : BExpr)
deriving DecidableEq, Repr

/-- the case a row of a kernel (`terminal_and`, `terminal_xor`) applies to, in the order the code tests them -/
inductive KCond where
  /-- `*fu == *gu` (same node) and `ft == gt` -/
  | sameEq
  /-- `*fu == *gu` and `ft != gt` -/
  | sameNe
  /-- `*fu == *gu`, no test of the tags -/
  | same
  /-- `(Inner, Inner)` -/
  | innerInner
  /-- `(Inner, Terminal)` and `gt == Complemented` (`true`) / `None` (`false`) -/
  | innerTerm (gCompl : Bool)
  /-- `(Terminal, Inner)` and `ft == Complemented` / `None` -/
  | termInner (fCompl : Bool)
  /-- `(Terminal, Terminal)` -/
  | termTerm
deriving DecidableEq, Repr

/-- what the kernel returns -/
inductive KRes where
  /-- `Nodes(fnode, gnode)`: recurse -/
  | nodes
  /-- `Done(clone_edge(s))` -/
  | clone (s : Side)
  /-- `Done(not_owned(clone_edge(s)))` -/
  | neg (s : Side)
  /-- `Done(get_terminal(e))` -/
  | const (e : BExpr)
deriving DecidableEq, Repr

structure KRow where
  cond : KCond
  res : KRes
deriving DecidableEq, Repr

/-- the two kernels -/
inductive Kern where
  | and | xor
deriving DecidableEq, Repr

/-- derivation of a `BooleanFunction::<op>_edge` from a kernel: `[¬] kernel([¬]lhs, [¬]rhs)`
(`swapped`: the kernel is called with `(rhs, lhs)`) -/
structure DRow where
  op : String
  kernel : Kern
  negF : Bool
  negG : Bool
  negRes : Bool
  swapped : Bool
deriving DecidableEq, Repr

/-- one `Nodes(..)` arm of the `match terminal_<k>(..)` in `apply_bin`: the guard (`f < g`?), the
operator tag of the cache key, which operand comes first in the key, and whether each operand is
paired with its own node -/
structure ARow where
  op : String
  kernel : Kern
  guardLt : Bool
  tag : String
  first : Side
  nodesPaired : Bool
deriving DecidableEq, Repr

end OxiddModel.Generated.Bc
