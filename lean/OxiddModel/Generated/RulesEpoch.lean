/-!
# Row types of the `gc_count` / count-cache epoch protocol (`SrcEpoch.lean`)

Hand-written and fixed; `SrcEpoch.lean` (regenerated from the Rust source on every run by
`tools/extract_tables.py`) contains only data of these types.
-/
namespace OxiddModel.Generated.Ep

/-- where an increment of `gc_count` stands: relative to the sweep of the unique table
(`for level in &self.unique_table { … level.gc(..) … }`) in `Manager::gc`, relative to the call of
the reordering closure `f(self)` in `Manager::reorder` -/
inductive Pos where
  | before | inside | after
deriving DecidableEq, Repr

/-- one unconditional increment of `gc_count` -/
structure Inc where
  pos : Pos
  amount : Nat
deriving DecidableEq, Repr

/-- the facts about one manager -/
structure MgrFacts where
  /-- increments in `gc`, in source order -/
  gc : List Inc
  /-- `fn gc(&self)`: the collector holds the manager shared, other threads run during a collection -/
  gcShared : Bool
  /-- the `if !self.gc_ongoing.try_lock() { return 0; }` precedes every increment -/
  tryLockFirst : Bool
  /-- increments in `reorder`, relative to `f(self)` -/
  reorder : List Inc
  /-- `fn reorder<T>(&mut self, …)` -/
  reorderExclusive : Bool
  /-- `"load"` when `fn gc_count(&self)` is `self.gc_count.load(_)` -/
  getter : String
  /-- initial value -/
  init : Nat
deriving DecidableEq, Repr

inductive Field where
  | epoch | vars
deriving DecidableEq, Repr

/-- a test of `clear_if_invalid`: the manager's `gc_count()` / the `vars` argument differs from
(`ne`) or equals (`eq`) the stored field -/
inductive Test where
  | ne (f : Field)
  | eq (f : Field)
deriving DecidableEq, Repr

inductive Conn where
  | any | all
deriving DecidableEq, Repr

inductive Act where
  | setEpoch | setVars | clearMap
deriving DecidableEq, Repr

/-- `if <tests joined by || (any) or && (all)> { <actions> }` -/
structure ClearFacts where
  conn : Conn
  tests : List Test
  acts : List Act
deriving DecidableEq, Repr

end OxiddModel.Generated.Ep
