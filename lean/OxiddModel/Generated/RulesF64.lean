/-!
# Row types of the table of `F64` constructions (`SrcF64.lean`)

Hand-written and fixed; `SrcF64.lean` (regenerated from the Rust source on every run by
`tools/extract_tables.py`) contains only data of these types.
-/
namespace OxiddModel.Generated.Fx

/-- how the value is built -/
inductive Kind where
  /-- `Self::from(x)` / `F64::from(x)`: through the normalisation -/
  | normalised
  /-- `Self(x)` / `F64(x)`: the tuple constructor, no normalisation -/
  | raw
  /-- the body of `impl From<f64> for F64` itself -/
  | normaliser
deriving DecidableEq, Repr

inductive Const where
  | zero | one | nan | inf | negInf | negZero
deriving DecidableEq, Repr

inductive BinOp where
  | add | sub | mul | div
deriving DecidableEq, Repr

/-- what it is built from -/
inductive Arg where
  /-- a literal -/
  | const (c : Const)
  /-- `self.0 <op> rhs.0` -/
  | binop (op : BinOp)
  /-- any other expression (source text) -/
  | expr (s : String)
deriving DecidableEq, Repr

structure Row where
  /-- trait of the `impl` block (type name for an inherent `impl`) -/
  owner : String
  fn : String
  kind : Kind
  arg : Arg
deriving DecidableEq, Repr

end OxiddModel.Generated.Fx
