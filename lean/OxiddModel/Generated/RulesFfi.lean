/-!
# The wrapper layer `crates/oxidd-ffi-c` as a table (C19) — vocabulary and rules

`tools/extract_ffi.py` turns every `extern "C"` function of `bdd.rs`, `bcdd.rs`, `zbdd.rs` (and the
helpers of `util/*.rs`) into one row `FfiW.Fn` of `SrcFfi.lean`.  This file is hand-written: the
row type, the *call classes* (the constructors of `Ffi.Call` in `Ffi/Model.lean`, plus the classes of
manager-only functions, which the model treats as `Call.query []`), the ownership discipline of each
class as a decidable predicate on the extracted facts, and the expected operation tables.
`ObFfi.lean` proves that the extracted rows satisfy them.
-/
namespace OxiddModel.Generated.FfiW

/-- the file a row comes from -/
inductive DK where
  | bdd | bcdd | zbdd | util
deriving DecidableEq, Repr

/-- C types as far as ownership is concerned -/
inductive Ty where
  /-- `oxidd_<k>_t` -/
  | func
  /-- `oxidd_<k>_manager_t` -/
  | mgr
  /-- `oxidd_<k>_pair_t` -/
  | pair
  /-- `*const <k>_t`: borrowed array -/
  | funcArr
  /-- `*mut <k>_t`: out-parameter, written with owned handles -/
  | funcOut
  /-- `util::iter<<k>_t>` -/
  | funcIter
  /-- `util::iter<util::named<<k>_t>>` -/
  | namedIter
  /-- `*const <k>_substitution_t` -/
  | substC
  /-- `*mut <k>_substitution_t` -/
  | substM
  | unit
  /-- anything without a handle in it (normalised source text) -/
  | plain (c : String)
deriving DecidableEq, Repr

def Ty.isHandle : Ty → Bool
  | .func | .mgr | .funcArr | .funcOut | .funcIter | .namedIter | .substC | .substM => true
  | _ => false

/-- the helper of `util/mod.rs` a body consists of -/
inductive Helper where
  | none | op1 | op2 | op2Var | op3 | op3Combined
deriving DecidableEq, Repr

def Helper.src : Helper → String
  | .none => "" | .op1 => "op1" | .op2 => "op2" | .op2Var => "op2_var" | .op3 => "op3"
  | .op3Combined => "op3_combined"

/-- one occurrence of a handle-typed parameter in a body -/
inductive Use where
  /-- `p.get()`: `ManuallyDrop` borrow -/
  | get
  /-- argument of `op1 … op3_combined` (which `get()` it) -/
  | helper (h : String)
  /-- `p._p.is_null()` / `p.is_null()` -/
  | rawNull
  /-- raw parts inside the argument list of a `from_raw(..)` -/
  | rawFrom
  /-- returned unchanged (tail expression) -/
  | ret
  /-- `&*p` / `&mut *p` (substitution objects) -/
  | deref
  /-- passed to a function of the crate / a provided trait method -/
  | call (f : String)
  /-- iterator adaptors, `write`/`add` on an out pointer -/
  | iter (m : String)
  | other (s : String)
deriving DecidableEq, Repr

/-- the extracted facts of one function -/
structure Fn where
  kind : DK
  /-- without the prefix `oxidd_<kind>_` -/
  name : String
  args : List (String × Ty)
  ret : Ty
  helper : Helper
  /-- Rust API items called (plumbing removed); for a helper shape the forwarded method -/
  api : List String
  /-- parameters in the order in which they are passed on (helper shape) / first mentioned -/
  order : List String
  /-- parameters inside the call of the API item of the same name -/
  inner : List String
  /-- parameters taken over (owning `from_raw`, `ManuallyDrop::into_inner`) -/
  consumed : List String
  uses : List (String × Use)
  fromRawOwned : Nat
  fromRawBorrowed : Nat
  intoInner : Nat
  drops : Nat
  forgets : Nat
  clones : Nat
  /-- `.into()` / `.into_raw()`: values handed out -/
  intos : Nat
  invalids : Nat
  exclusive : Bool
  statics : List String
  noMangle : Bool
deriving DecidableEq, Repr

def Fn.handleTys (f : Fn) : List Ty := (f.args.map (·.2)).filter Ty.isHandle
def Fn.handleArgs (f : Fn) : List String := (f.args.filter (·.2.isHandle)).map (·.1)
def Fn.argNames (f : Fn) : List String := f.args.map (·.1)
def Fn.retag (k : DK) (f : Fn) : Fn := { f with kind := k }

/-! ## call classes -/

/-- the call classes of `Ffi/Model.lean` (`Ffi.Call`), refined by what the manager-only functions
look like (`Ffi.Call.query []` for the model: they neither take nor return function handles) -/
inductive Class where
  | managerNew | managerRef | managerUnref | containingManager
  | construct
  | op1 | op2 | op2Var | op3 | op3Combined
  | cofactors | makeNode
  | ref | unref
  /-- function handles in, plain value out: `node_count`, `sat_count`, `eval`, `pick_cube`, … -/
  | query
  | substNew | substAddPair | substitute | substFree
  /-- manager in, plain value out: `num_vars`, `gc`, `add_vars`, `set_var_order`, names, … -/
  | mgrQuery
  /-- manager and a borrowed array / iterator of functions in: DDDMP / DOT export, visualisation -/
  | export
  /-- manager in, owned handles written to an out array: DDDMP import (one `construct` per root) -/
  | importRoots
  /-- `print_stats` -/
  | noHandles
deriving DecidableEq, Repr

def isPlain : Ty → Bool
  | .plain _ | .unit => true
  | _ => false

/-- The class of an exported function: by its documented name where the name is one of the
reference-counting / substitution entry points, by helper and signature otherwise.  `none`: the
function does not fit any class of the model (the model has to be extended first). -/
def classify (f : Fn) : Option Class :=
  let hs := f.handleTys
  match f.helper with
  | .op1 => if hs = [.func] ∧ f.args.length = 1 ∧ f.ret = .func then some .op1 else none
  | .op2 => if hs = [.func, .func] ∧ f.args.length = 2 ∧ f.ret = .func then some .op2 else none
  | .op2Var => if hs = [.func] ∧ f.args.length = 2 ∧ f.ret = .func then some .op2Var else none
  | .op3 => if hs = [.func, .func, .func] ∧ f.args.length = 3 ∧ f.ret = .func then some .op3 else none
  | .op3Combined =>
    if hs = [.func, .func, .func] ∧ f.args.length = 4 ∧ f.ret = .func then some .op3Combined else none
  | .none =>
    if f.name = "manager_new" then (if hs = [] ∧ f.ret = .mgr then some .managerNew else none)
    else if f.name = "manager_ref" then (if hs = [.mgr] ∧ f.ret = .mgr then some .managerRef else none)
    else if f.name = "manager_unref" then (if hs = [.mgr] ∧ f.ret = .unit then some .managerUnref else none)
    else if f.name = "containing_manager" then (if hs = [.func] ∧ f.ret = .mgr then some .containingManager else none)
    else if f.name = "ref" then (if hs = [.func] ∧ f.ret = .func then some .ref else none)
    else if f.name = "unref" then (if hs = [.func] ∧ f.ret = .unit then some .unref else none)
    else if f.name = "cofactors" then (if hs = [.func] ∧ f.ret = .pair then some .cofactors else none)
    else if f.name = "make_node" then (if hs = [.func, .func, .func] ∧ f.ret = .func then some .makeNode else none)
    else if f.name = "substitute" then (if hs = [.func, .substC] ∧ f.ret = .func then some .substitute else none)
    else if f.name = "substitution_new" then (if hs = [] ∧ f.ret = .substM then some .substNew else none)
    else if f.name = "substitution_add_pair" then (if hs = [.substM, .func] ∧ f.ret = .unit then some .substAddPair else none)
    else if f.name = "substitution_free" then (if hs = [.substM] ∧ f.ret = .unit then some .substFree else none)
    else if f.name = "manager_import_dddmp" then (if hs = [.mgr, .funcOut] ∧ isPlain f.ret then some .importRoots else none)
    else if hs = [.mgr] ∧ f.ret = .func then some .construct
    else if hs = [.func] ∧ f.ret = .func then some .op1
    else if hs = [.func] ∧ isPlain f.ret ∧ f.ret ≠ .unit then some .query
    else if hs = [.mgr] ∧ isPlain f.ret then some .mgrQuery
    else if (hs = [.mgr, .funcArr] ∨ hs = [.mgr, .funcIter] ∨ hs = [.mgr, .namedIter]) ∧ isPlain f.ret then some .export
    else if f.args = [] ∧ f.ret = .unit then some .noHandles
    else none

/-! ## ownership discipline -/

/-- crate-local functions a handle may be passed on to: the generic helpers of `util` (rows of
`ffiUtilFns`, each checked to borrow) and another exported function of the same file -/
def borrowingCallees : List String :=
  ["set_var_name", "add_named_vars", "dump_all_dot_path", "dump_all_dot_path_iter", "import_into",
   "export", "export_iter", "export_with_names_iter", "visualize", "visualize_iter",
   "visualize_with_names_iter", "run_in_worker_pool"]

/-- a use that leaves the reference with the caller -/
def Use.borrows (delegates : List String) : Use → Bool
  | .get => true
  | .helper _ => true
  | .rawNull => true
  | .deref => true
  | .iter _ => true
  | .call g => borrowingCallees.contains g || delegates.contains g
  | .rawFrom => false
  | .ret => false
  | .other _ => false

/-- nothing in the body can release or duplicate a reference -/
def Fn.borrowOnly (delegates : List String) (f : Fn) : Bool :=
  f.uses.all (fun u => u.2.borrows delegates) && f.consumed = [] && f.fromRawOwned = 0 &&
    f.intoInner = 0 && f.drops = 0 && f.forgets = 0 && f.clones = 0

/-- every handle-typed parameter is mentioned (a parameter that is never used is suspicious, and
the use list of an unused parameter says nothing) -/
def Fn.allUsed (f : Fn) : Bool := f.handleArgs.all fun p => f.uses.any (·.1 = p)

/-- The ownership discipline of a class as a predicate on the extracted facts.
`delegates`: names `oxidd_<k>_<name>` of the exported functions of the same file with class
`construct` (a constructor may forward to another one: `oxidd_zbdd_false` is `oxidd_zbdd_empty`). -/
def sound (delegates : List String) (f : Fn) : Class → Bool
  -- `opN(args…, XFunction::method)`: every function argument goes to the helper exactly once, in
  -- order; the helper borrows (`get()`) and hands the result out (`into()`), see `ffiUtilFns`
  | .op1 | .op2 | .op2Var | .op3 | .op3Combined =>
    if f.helper ≠ .none then
      f.uses = f.handleArgs.map (fun p => (p, .helper f.helper.src)) && f.borrowOnly [] &&
        f.intos = 0 && f.invalids = 0
    else
      -- `cofactor_true/false`, `pick_cube_dd`: `get()` and `into()` spelled out
      f.uses = f.handleArgs.map (fun p => (p, .get)) && f.borrowOnly [] && f.intos = 1
  | .construct => f.allUsed && f.borrowOnly delegates &&
      (f.intos = 1 || f.uses.any (fun u => match u.2 with | .call g => delegates.contains g | _ => false))
  | .cofactors => f.uses = f.handleArgs.map (fun p => (p, .get)) && f.borrowOnly [] &&
      f.intos = 2 && f.invalids = 2
  | .makeNode =>
    -- `hi` and `lo` are taken over (`get().map(ManuallyDrop::into_inner)`) before `var` is looked
    -- at, so that they are released on every path; `var` is borrowed
    f.uses = [("var", .get), ("hi", .get), ("lo", .get)] && f.consumed = ["hi", "lo"] &&
      f.intoInner = 2 && f.fromRawOwned = 0 && f.order = ["hi", "lo", "var"] &&
      f.inner = ["var", "hi", "lo"] && f.drops = 0 && f.forgets = 0 && f.clones = 0 && f.intos = 1
  | .ref =>
    -- `forget(f.get().clone()); f`
    f.uses = [("f", .get), ("f", .ret)] && f.clones = 1 && f.forgets = 1 && f.consumed = [] &&
      f.fromRawOwned = 0 && f.intoInner = 0 && f.drops = 0
  | .managerRef =>
    f.uses = [("manager", .rawNull), ("manager", .get), ("manager", .ret)] && f.clones = 1 &&
      f.forgets = 1 && f.consumed = [] && f.fromRawOwned = 0 && f.intoInner = 0 && f.drops = 0
  | .unref =>
    -- `if !f._p.is_null() { drop(F::from_raw(f._p, f._i)) }`
    f.uses = [("f", .rawNull), ("f", .rawFrom), ("f", .rawFrom)] && f.consumed = ["f"] &&
      f.fromRawOwned = 1 && f.intoInner = 0 && f.drops = 1 && f.forgets = 0 && f.clones = 0
  | .managerUnref =>
    f.uses = [("manager", .rawNull), ("manager", .rawFrom)] && f.consumed = ["manager"] &&
      f.fromRawOwned = 1 && f.intoInner = 0 && f.drops = 1 && f.forgets = 0 && f.clones = 0
  | .managerNew => f.uses = [] && f.borrowOnly [] && f.intos = 1
  | .containingManager => f.uses = [("f", .get)] && f.borrowOnly [] && f.intos = 1
  | .query => f.allUsed && f.uses.all (fun u => u.2 = .get) && f.borrowOnly []
  | .mgrQuery => f.allUsed && f.borrowOnly []
  | .export => f.allUsed && f.borrowOnly []
  | .importRoots => f.allUsed && f.borrowOnly []
  | .substNew => f.uses = [] && f.borrowOnly []
  | .substAddPair =>
    -- the replacement is borrowed and *cloned* into the object
    f.uses = [("substitution", .rawNull), ("substitution", .deref), ("replacement", .get)] &&
      f.clones = 1 && f.consumed = [] && f.fromRawOwned = 0 && f.intoInner = 0 && f.drops = 0 &&
      f.forgets = 0
  | .substitute =>
    f.uses = [("f", .get), ("substitution", .rawNull), ("substitution", .deref)] && f.borrowOnly [] &&
      f.intos = 1 && f.invalids = 1
  | .substFree =>
    f.uses = [("substitution", .rawNull), ("substitution", .rawFrom)] && f.consumed = ["substitution"] &&
      f.fromRawOwned = 1 && f.intoInner = 0 && f.drops = 1 && f.forgets = 0 && f.clones = 0
  | .noHandles => f.uses = [] && f.borrowOnly []

/-- classes whose functions release a reference they were given (`Ffi.Call.consumes` plus the
manager reference) -/
def Class.consumes : Class → Bool
  | .unref | .managerUnref | .makeNode | .substFree => true
  | _ => false

/-- the exported constructors of a file (possible targets of a delegating constructor) -/
def delegatesOf (pre : String) (fs : List Fn) : List String :=
  (fs.filter fun f => f.helper = .none ∧ f.handleTys = [.mgr] ∧ f.ret = .func ∧
      f.uses.all (fun u => u.2 = .get)).map fun f => pre ++ f.name

def classifiedSound (pre : String) (fs : List Fn) : Bool :=
  fs.all fun f => match classify f with
    | some c => sound (delegatesOf pre fs) f c
    | none => false

/-! ## the expected operation tables -/

def connectives : List String := ["and", "or", "nand", "nor", "xor", "equiv", "imp", "imp_strict"]

/-- the functions built from a helper, BDD and BCDD -/
def opTableBdd : List (String × Helper) :=
  [("not", .op1)] ++ connectives.map (·, .op2) ++ [("ite", .op3), ("restrict", .op2),
   ("forall", .op2), ("exists", .op2), ("unique", .op2),
   ("apply_forall", .op3Combined), ("apply_exists", .op3Combined), ("apply_unique", .op3Combined),
   ("pick_cube_dd_set", .op2)]

/-- … ZBDD -/
def opTableZbdd : List (String × Helper) :=
  [("subset0", .op2Var), ("subset1", .op2Var), ("change", .op2Var),
   ("union", .op2), ("intsec", .op2), ("diff", .op2), ("not", .op1)] ++ connectives.map (·, .op2) ++
   [("ite", .op3), ("pick_cube_dd_set", .op2)]

def opTable (fs : List Fn) : List (String × Helper) :=
  (fs.filter (·.helper ≠ .none)).map fun f => (f.name, f.helper)

/-- documented differences of the ZBDD interface: not offered … -/
def zbddLacks : List String :=
  ["apply_exists", "apply_forall", "apply_unique", "exists", "forall", "unique", "restrict",
   "substitute", "substitution_add_pair", "substitution_free", "substitution_new"]
/-- … offered in addition -/
def zbddAdds : List String :=
  ["singleton", "make_node", "empty", "base", "subset0", "subset1", "change", "union", "intsec", "diff"]

def strip (pre s : String) : String := if s.startsWith pre then (s.drop pre.length).toString else s

/-- the Rust API items a non-helper function is expected to call: by default the method of the same
name (without `manager_`); the exceptions are listed -/
def expectedApi (k : DK) (name : String) : List String :=
  match name with
  | "manager_new" => ["new_manager"]
  | "manager_ref" | "manager_unref" | "ref" | "unref" => []
  | "containing_manager" => ["manager_ref"]
  | "manager_add_named_vars_iter" => ["add_named_vars"]
  | "manager_with_var_name" => ["var_name"]
  | "manager_import_dddmp" => ["import_into"]
  | "manager_export_dddmp" => ["export"]
  | "manager_export_dddmp_iter" => ["export_iter"]
  | "manager_export_dddmp_with_names_iter" => ["export_with_names_iter"]
  | "true" => ["t"]
  | "false" => if k = .zbdd then ["oxidd_zbdd_empty"] else ["f"]
  | "node_level" => ["get_node", "level"]
  | "node_var" => ["get_node", "level_to_var", "level"]
  | "substitution_new" => ["new_substitution_id"]
  | "substitution_add_pair" | "substitution_free" => []
  | "sat_count_double" => ["sat_count"]
  | "eval" => ["eval_edge"]
  | "make_node" => ["make_node", "into_edge", "into_edge", "from_edge"]
  | _ => [strip "manager_" name]

/-- a helper-shaped function forwards to the method of its own name with the parameters in
declaration order; any other function calls exactly the expected API items -/
def Fn.forwards (f : Fn) : Bool :=
  if f.helper ≠ .none then f.api = [f.name] && f.order = f.argNames
  else f.api = expectedApi f.kind f.name

/-- in functions with at least two function handles the order matters: they are passed on in
declaration order (helper shape), `make_node(var, hi, lo)` -/
def Fn.orderOk (f : Fn) : Bool :=
  if f.helper ≠ .none then f.order = f.argNames
  else if f.name = "make_node" then f.inner = f.argNames
  else (f.handleTys.filter (· = .func)).length ≤ 1

def sameSet (a b : List String) : Bool := a.all b.contains && b.all a.contains

end OxiddModel.Generated.FfiW
