/-!
# The C-visible signatures and layouts of `crates/oxidd-ffi-c` as tables (C19) — vocabulary and rules

`tools/extract_ffi_abi.py` turns every `extern "C" fn` item, every `#[repr(C)]` struct and every
`#[repr(<int>)]` enum of the crate, and the hand-written `extern "C"` declarations and `#[repr(C)]`
mirrors of the harness (`c19_capi.rs`, `c19_capi_multi.rs`, `c19_abi.rs`), into rows of
`SrcFfiAbi.lean`.  This file is hand-written: the row types, the C layout algorithm (size, alignment,
field offsets from the field types; x86-64 / LP64: pointer = `usize` = 8), and the comparison
functions the obligations of `ObFfiAbi.lean` are stated with.
-/
namespace OxiddModel.Generated.Abi

inductive Prim where
  | u8 | u16 | u32 | u64 | usize | i8 | i16 | i32 | i64 | isize | bool | f32 | f64
  /-- `c_char` -/
  | char
deriving DecidableEq, Repr

/-- size = alignment of a primitive type (LP64) -/
def Prim.size : Prim → Nat
  | .u8 | .i8 | .bool | .char => 1
  | .u16 | .i16 => 2
  | .u32 | .i32 | .f32 => 4
  | .u64 | .i64 | .f64 | .usize | .isize => 8

def Prim.name : Prim → String
  | .u8 => "u8" | .u16 => "u16" | .u32 => "u32" | .u64 => "u64" | .usize => "usize"
  | .i8 => "i8" | .i16 => "i16" | .i32 => "i32" | .i64 => "i64" | .isize => "isize"
  | .bool => "bool" | .f32 => "f32" | .f64 => "f64" | .char => "c_char"

/-- canonical ABI types.  `&T`, `&mut T`, `Option<&T>`, `Box<T>`, `Option<Box<T>>` are `ptr`;
`MaybeUninit<T>` is `T`; the argument list of a function pointer is a cons list (`acons`/`anil`) so
that the type is not nested (derivable `DecidableEq`). -/
inductive Ty where
  | prim (p : Prim)
  | unit
  | ptr (isMut : Bool) (to : Ty)
  /-- `c_void` (`"void"`) or a struct without `#[repr(..)]`: legal only behind `ptr` -/
  | opq (name : String)
  | fnptr (nullable : Bool) (args : Ty) (ret : Ty)
  | anil
  | acons (a : Ty) (rest : Ty)
  /-- a `#[repr(C)]` struct or `#[repr(int)]` enum, by name -/
  | named (name : String)
  /-- instance of a generic `#[repr(C)]` struct -/
  | app (name : String) (arg : Ty)
  /-- the type parameter inside a generic struct definition -/
  | param
deriving DecidableEq, Repr

structure Fn where
  file : String
  symbol : String
  /-- without the prefix `oxidd_<kind>_` (`oxidd_` for `util`) -/
  name : String
  prefixed : Bool
  params : List (String × Ty)
  ret : Ty
  noMangle : Bool
  isUnsafe : Bool
  isPub : Bool
deriving DecidableEq, Repr

structure Struct where
  file : String
  name : String
  isUnion : Bool
  generic : Bool
  fields : List (String × Ty)
  derives : List String
deriving DecidableEq, Repr

structure Enum where
  file : String
  name : String
  repr : Prim
  variants : List (String × Int)
deriving DecidableEq, Repr

structure Family where
  kind : String
  file : String
  pfx : String
  funcTy : String
  mgrTy : String
  pairTy : String
  /-- `""`: the family has no substitution type -/
  substTy : String
  /-- field initialisers of `const INVALID` (`null()` = 0) -/
  invalid : List (String × Nat)
deriving DecidableEq, Repr

/-- one symbol the harness loads with `dlsym`, with the function pointer type it is cast to -/
structure HDecl where
  field : String
  /-- `perFamily`: the suffix after `oxidd_<kind>_`; otherwise the full symbol -/
  symbol : String
  perFamily : Bool
  optional : Bool
  ty : Ty
deriving DecidableEq, Repr

structure MirrorRow where
  cname : String
  cty : Ty
  mirror : Ty
  fields : List String
deriving DecidableEq, Repr

/-! ## the C layout algorithm -/

def roundUp (n a : Nat) : Nat := if a = 0 then n else (n + a - 1) / a * a

/-- size and alignment -/
structure Lay where
  size : Nat
  align : Nat
deriving DecidableEq, Repr

def ptrLay : Lay := ⟨8, 8⟩

/-- substitute the type parameter -/
def Ty.subst : Ty → Ty → Ty
  | .param, arg => arg
  | .ptr m t, arg => .ptr m (t.subst arg)
  | .fnptr n a r, arg => .fnptr n (a.subst arg) (r.subst arg)
  | .acons a r, arg => .acons (a.subst arg) (r.subst arg)
  | .app n a, arg => .app n (a.subst arg)
  | t, _ => t

/-- lay the fields out one after the other: offsets, end offset, maximal alignment (`isUnion`: all at 0) -/
def layFields (isUnion : Bool) : List Lay → Nat → Nat → List Nat → (List Nat × Nat × Nat)
  | [], off, al, offs => (offs.reverse, off, al)
  | l :: ls, off, al, offs =>
    if isUnion then layFields isUnion ls (max off l.size) (max al l.align) (0 :: offs)
    else
      let o := roundUp off l.align
      layFields isUnion ls (o + l.size) (max al l.align) (o :: offs)

mutual
/-- layout of a type w.r.t. the struct / enum tables; `none`: unknown name, a type that has no size
(`opaque`, `unit`, an unsubstituted `param`), or the fuel (nesting depth) ran out -/
def layTy (ss : List Struct) (es : List Enum) : Nat → Ty → Option Lay
  | 0, _ => none
  | fuel + 1, t =>
    match t with
    | .prim p => some ⟨p.size, p.size⟩
    | .ptr _ _ => some ptrLay
    | .fnptr _ _ _ => some ptrLay
    | .named n =>
      match es.find? (·.name = n) with
      | some e => some ⟨e.repr.size, e.repr.size⟩
      | none =>
        match ss.find? (·.name = n) with
        | some s => if s.generic then none else (layStruct ss es fuel s.isUnion (s.fields.map (·.2))).map (·.1)
        | none => none
    | .app n a =>
      match ss.find? (·.name = n) with
      | some s =>
        if s.generic then (layStruct ss es fuel s.isUnion (s.fields.map (·.2.subst a))).map (·.1) else none
      | none => none
    | _ => none
/-- layout of a struct given its field types, with the field offsets -/
def layStruct (ss : List Struct) (es : List Enum) : Nat → Bool → List Ty → Option (Lay × List Nat)
  | 0, _, _ => none
  | fuel + 1, isUnion, tys =>
    match layList ss es fuel tys with
    | none => none
    | some ls =>
      let (offs, e, al) := layFields isUnion ls 0 1 []
      some (⟨roundUp e al, al⟩, offs)
def layList (ss : List Struct) (es : List Enum) : Nat → List Ty → Option (List Lay)
  | 0, _ => none
  | _ + 1, [] => some []
  | fuel + 1, t :: ts =>
    match layTy ss es fuel t, layList ss es fuel ts with
    | some l, some ls => some (l :: ls)
    | _, _ => none
end

/-- enough for every type of the tables (nesting depth of the structs ≤ 4, field lists ≤ 4) -/
def layFuel : Nat := 24

/-- size, alignment and field offsets of a C type (a struct by name / an instance of a generic one;
a primitive or enum has no fields) -/
def layoutOf (ss : List Struct) (es : List Enum) (t : Ty) : Option (Lay × List Nat) :=
  match t with
  | .named n =>
    match ss.find? (·.name = n) with
    | some s => if s.generic then none else layStruct ss es layFuel s.isUnion (s.fields.map (·.2))
    | none => (layTy ss es layFuel t).map (·, [])
  | .app n a =>
    match ss.find? (·.name = n) with
    | some s => if s.generic then layStruct ss es layFuel s.isUnion (s.fields.map (·.2.subst a)) else none
    | none => none
  | _ => (layTy ss es layFuel t).map (·, [])

def allDistinct : List String → Bool
  | [] => true
  | x :: xs => !xs.contains x && allDistinct xs

/-! ## comparison of the families (obligation a) -/

/-- the family's own handle types replaced by family-independent names -/
def Ty.gen (fam : Family) : Ty → Ty
  | .named n =>
    if n = fam.funcTy then .named "$func" else if n = fam.mgrTy then .named "$manager"
    else if n = fam.pairTy then .named "$pair" else .named n
  | .opq n => if n = fam.substTy ∧ n ≠ "" then .opq "$substitution" else .opq n
  | .ptr m t => .ptr m (t.gen fam)
  | .fnptr n a r => .fnptr n (a.gen fam) (r.gen fam)
  | .acons a r => .acons (a.gen fam) (r.gen fam)
  | .app n a => .app n (a.gen fam)
  | t => t

/-- the shape of a function modulo its family: name, parameters (names and types), return type,
`unsafe`, `#[no_mangle]`, `pub` -/
structure Shape where
  name : String
  params : List (String × Ty)
  ret : Ty
  isUnsafe : Bool
  noMangle : Bool
  isPub : Bool
deriving DecidableEq, Repr

def Fn.shape (fam : Family) (f : Fn) : Shape :=
  ⟨f.name, f.params.map (fun p => (p.1, p.2.gen fam)), f.ret.gen fam, f.isUnsafe, f.noMangle, f.isPub⟩

/-- the shapes of a family's functions except the listed family-specific ones -/
def commonShapes (fam : Family) (fs : List Fn) (except : List String) : List Shape :=
  (fs.filter (fun f => !except.contains f.name)).map (Fn.shape fam)

def sameShapes (a b : List Shape) : Bool := a.all b.contains && b.all a.contains

/-- does a type mention a family handle type (function, manager, pair, substitution)? -/
def Ty.mentions (names : List String) : Ty → Bool
  | .named n => names.contains n
  | .opq n => names.contains n
  | .ptr _ t => t.mentions names
  | .fnptr _ a r => a.mentions names || r.mentions names
  | .acons a r => a.mentions names || r.mentions names
  | .app _ a => a.mentions names
  | _ => false

def Family.handleNames (fam : Family) : List String :=
  [fam.funcTy, fam.mgrTy, fam.pairTy] ++ (if fam.substTy = "" then [] else [fam.substTy])

/-- the shapes in which a handle may occur in a parameter: by value, as a borrowed array
(`*const f`), as an out array (`*mut f`), inside an iterator (`iter<f>`, `iter<named<f>>`), the
substitution object by pointer -/
def Family.paramShapeOk (fam : Family) (t : Ty) : Bool :=
  !t.mentions fam.handleNames ||
  t = .named fam.funcTy || t = .named fam.mgrTy ||
  t = .ptr false (.named fam.funcTy) || t = .ptr true (.named fam.funcTy) ||
  t = .app "iter" (.named fam.funcTy) || t = .app "iter" (.app "named" (.named fam.funcTy)) ||
  (fam.substTy ≠ "" && (t = .ptr false (.opq fam.substTy) || t = .ptr true (.opq fam.substTy)))

/-- … in a return type: by value (function, manager, pair) or the fresh substitution object -/
def Family.retShapeOk (fam : Family) (t : Ty) : Bool :=
  !t.mentions fam.handleNames ||
  t = .named fam.funcTy || t = .named fam.mgrTy || t = .named fam.pairTy ||
  (fam.substTy ≠ "" && t = .ptr true (.opq fam.substTy))

/-! ## comparison with the harness (obligations c, d) -/

def lookup (tbl : List (String × String)) (n : String) : Option String := (tbl.find? (·.1 = n)).map (·.2)

/-- a source type as the harness has to declare it: struct names through the mirror table, enums as
their integer type, opaque pointees as `c_void`, an instance of a generic struct whose mirror is
monomorphic (`named<bdd_t>` ~ `CNamed`) by the mirror's name.  `none`: a name without mirror. -/
def Ty.toMirror (mirrorOf : List (String × String)) (es : List Enum) (generic : String → Bool) : Ty → Option Ty
  | .prim p => some (.prim p)
  | .unit => some .unit
  | .param => some .param
  | .anil => some .anil
  | .opq _ => some (.opq "void")
  | .ptr m t => (t.toMirror mirrorOf es generic).map (.ptr m)
  | .fnptr n a r =>
    match a.toMirror mirrorOf es generic, r.toMirror mirrorOf es generic with
    | some a', some r' => some (.fnptr n a' r')
    | _, _ => none
  | .acons a r =>
    match a.toMirror mirrorOf es generic, r.toMirror mirrorOf es generic with
    | some a', some r' => some (.acons a' r')
    | _, _ => none
  | .named n =>
    match es.find? (·.name = n) with
    | some e => some (.prim e.repr)
    | none => (lookup mirrorOf n).map .named
  | .app n a =>
    match lookup mirrorOf n with
    | none => none
    | some m =>
      if generic m then (a.toMirror mirrorOf es generic).map (.app m) else some (.named m)

/-- constness of pointers erased (not part of the ABI; the harness declares `*mut usize` where the
source has `Option<&mut MaybeUninit<usize>>`, both mutable — kept as extracted — but `&natural_t`
against `*const CNatural` only agree modulo nothing: constness is compared, see `ObFfiAbi`) -/
def Ty.eraseConst : Ty → Ty
  | .ptr _ t => .ptr false t.eraseConst
  | .fnptr n a r => .fnptr n a.eraseConst r.eraseConst
  | .acons a r => .acons a.eraseConst r.eraseConst
  | .app n a => .app n a.eraseConst
  | t => t

/-- the function pointer type of a source function, in mirror vocabulary -/
def Fn.mirrorTy (mirrorOf : List (String × String)) (es : List Enum) (generic : String → Bool) (f : Fn) : Option Ty :=
  let rec args : List (String × Ty) → Option Ty
    | [] => some .anil
    | p :: ps =>
      match p.2.toMirror mirrorOf es generic, args ps with
      | some a, some r => some (.acons a r)
      | _, _ => none
  match args f.params, f.ret.toMirror mirrorOf es generic with
  | some a, some r => some (.fnptr false a r)
  | _, _ => none

/-- field names agree modulo a leading underscore (`_p` ~ `p`, `_cap` ~ `cap`) and the listed renamings -/
def sameFieldName (renamed : List (String × String)) (src mir : String) : Bool :=
  src = mir || src = "_" ++ mir || renamed.contains (src, mir)

end OxiddModel.Generated.Abi
