/-!
# Row and expression types of `Src{Restrict5,DMCache,GcProto,Import5}.lean`

Hand-written and fixed; the `Src*` files are regenerated on every run by `tools/extract_tables5.py`.
Source text is given as its token list (comments, `debug_assert*!`, `stat!`, statistics and
verification-hook statements removed; `unsafe { e }` ↦ `e`).
-/
namespace OxiddModel.Generated.F5

/-- one event of a function body. `guards`: the headers of the enclosing blocks, outermost first
(`if c`, `for … in …`, `match e`, a match arm as `=> pattern`, `else /* after */ <header of the block
it follows>`, a `let … =` whose initialiser is the block); `kind`: `stmt`, `let`, `return`, `break`,
`continue`, `tail` (value of a block), `call`; `act`: the tokens. -/
structure Row where
  guards : List (List String)
  kind : String
  act : List String
deriving DecidableEq, Repr

/-- integer expressions of the cache code -/
inductive Ex where
  | var (s : String)
  | lit (n : Nat)
  | add (a b : Ex)
  | sub (a b : Ex)
  | shl (a b : Ex)
  | shr (a b : Ex)
  | band (a b : Ex)
  | bor (a b : Ex)
  /-- `e as u8` -/
  | cast8 (a : Ex)
  /-- `e as usize` / `as u64` / `as u32` on a value that fits -/
  | castId (a : Ex)
deriving DecidableEq, Repr

/-- value over the naturals (`-` is the truncated subtraction: the operands of the extracted `-` are
`len - 1` with `len ≥ 1` and `KIND_COUNT - 1`) -/
def Ex.eval (env : String → Nat) : Ex → Nat
  | .var s => env s
  | .lit n => n
  | .add a b => a.eval env + b.eval env
  | .sub a b => a.eval env - b.eval env
  | .shl a b => a.eval env <<< b.eval env
  | .shr a b => a.eval env >>> b.eval env
  | .band a b => a.eval env &&& b.eval env
  | .bor a b => a.eval env ||| b.eval env
  | .cast8 a => a.eval env % 256
  | .castId a => a.eval env

/-- `lhs <op> rhs` -/
structure Cmp where
  lhs : Ex
  op : String
  rhs : Ex
deriving DecidableEq, Repr

def Cmp.eval (env : String → Nat) (c : Cmp) : Bool :=
  let a := c.lhs.eval env
  let b := c.rhs.eval env
  if c.op = "==" then a == b
  else if c.op = "!=" then a != b
  else if c.op = "<" then decide (a < b)
  else if c.op = ">" then decide (a > b)
  else if c.op = "<=" then decide (a ≤ b)
  else if c.op = ">=" then decide (a ≥ b)
  else false

/-- `c₁ || c₂ || …` -/
def evalGate (env : String → Nat) (g : List Cmp) : Bool := g.any (·.eval env)

end OxiddModel.Generated.F5
