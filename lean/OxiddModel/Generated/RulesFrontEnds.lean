/-!
# Row types of the front-end tables (`SrcFrontEnds.lean`)

Hand-written and fixed; `SrcFrontEnds.lean` (regenerated from the Rust source on every run by
`tools/extract_tables.py`) contains only data of these types.

Every rules crate has a sequential `Function` front end (`BDDFunction`, …) and — for BDD, BCDD and
ZBDD — a second, multi-threaded copy with separate code (`BDDFunctionMT`, …); the crate `oxidd`
selects one of them by the feature `multi-threading`.  A row describes one trait method of one
front end: what its body evaluates to, as an expression over the method's own parameters, with the
calls of wrapper functions (`apply_and`, ZBDD `apply_not`) and of other methods
(`Self::nor_edge(..)`, `BDDFunction::<F>::sat_count_edge(..)`) followed.
-/
namespace OxiddModel.Generated.Fe

/-- the recursor a kernel is called with -/
inductive Rec where
  /-- `SequentialRecursor` -/
  | seq
  /-- `ParallelRecursor::new(manager)` -/
  | par
  /-- the kernel takes no recursor (MTBDD, TDD, `substitute_prepare`) -/
  | none
deriving DecidableEq, Repr

/-- what a front-end method evaluates to.  Argument lists are `cons`/`nil` chains. -/
inductive Expr where
  /-- the `i`-th parameter of the method after `manager` (borrowed / cloned: the same edge) -/
  | p (i : Nat)
  /-- `not(&e)` / `not_owned(e)` (BCDD: flip the complement tag) -/
  | neg (e : Expr)
  /-- `manager.zbdd_cache().tautology(k)` -/
  | taut (k : Nat)
  /-- an integer literal -/
  | num (k : Int)
  /-- `manager.get_terminal(<Terminal>::<name>)` -/
  | term (name : String)
  /-- BCDD `get_terminal(manager, b)` -/
  | bterm (b : Bool)
  /-- `manager.get_terminal(e)` for a value parameter -/
  | termOf (e : Expr)
  /-- `manager.var_to_level(e)` -/
  | varLevel (e : Expr)
  /-- `e.pairs()` / `e.id()` of a `Substitution` -/
  | substPairs (e : Expr)
  | substId (e : Expr)
  /-- `fn::<.., consts>(manager, rec, args…)`: const arguments `{ BDDOp::And as u8 }` ↦ `"And"`, `-1` ↦ `"-1"` -/
  | call (fn : String) (consts : List String) (rec : Rec) (args : Expr)
  | nil
  | cons (a : Expr) (rest : Expr)
  /-- (sequential front end) the method has a body of its own — loops, matches, nested functions;
  (multi-threaded front end) it forwards its parameters unchanged to such a method -/
  | own
  /-- not recognised (also listed in `frontEndsUnparsed`) -/
  | other (s : String)
deriving DecidableEq, Repr

structure Row where
  trait_ : String
  method : String
  /-- number of parameters after `manager` -/
  arity : Nat
  body : Expr
deriving DecidableEq, Repr

/-- forget which recursor is passed (but not whether one is passed) -/
def Expr.eraseRec : Expr → Expr
  | .neg e => .neg e.eraseRec
  | .termOf e => .termOf e.eraseRec
  | .varLevel e => .varLevel e.eraseRec
  | .substPairs e => .substPairs e.eraseRec
  | .substId e => .substId e.eraseRec
  | .call f cs r a => .call f cs (match r with | .none => .none | _ => .seq) a.eraseRec
  | .cons a r => .cons a.eraseRec r.eraseRec
  | e => e

/-- every recursor passed anywhere in the expression is `.none` or `r` -/
def Expr.recsAre (r : Rec) : Expr → Bool
  | .neg e | .termOf e | .varLevel e | .substPairs e | .substId e => e.recsAre r
  | .call _ _ r' a => (r' == .none || r' == r) && a.recsAre r
  | .cons a t => a.recsAre r && t.recsAre r
  | _ => true

def Expr.hasOther : Expr → Bool
  | .neg e | .termOf e | .varLevel e | .substPairs e | .substId e => e.hasOther
  | .call _ _ _ a => a.hasOther
  | .cons a t => a.hasOther || t.hasOther
  | .other _ => true
  | _ => false

def Row.erase (r : Row) : Row := { r with body := r.body.eraseRec }

def lookup (rows : List Row) (m : String) : Option Row := rows.find? (·.method == m)

/-- the two front ends have the same methods, and each method evaluates to the same expression up
to the recursor passed to the kernels -/
def agree (s m : Option (List Row)) : Bool :=
  match s, m with
  | some s, some m =>
    s.length == m.length && s.all (fun r => (lookup m r.method).map Row.erase == some r.erase)
  | _, _ => false

/-- the sequential front end passes only `SequentialRecursor`, the multi-threaded one only
`ParallelRecursor::new(manager)`; nothing unrecognised -/
def recsOK (r : Rec) : Option (List Row) → Bool
  | some rows => rows.all (fun x => x.body.recsAre r && !x.body.hasOther)
  | none => false

/-- the body of a method (`.other` if absent) -/
def body (t : Option (List Row)) (m : String) : Expr :=
  match t with
  | some rows => match lookup rows m with | some r => r.body | none => .other "no such method"
  | none => .other "no such front end"

end OxiddModel.Generated.Fe
