/-!
# Row types of the hash-table tables (`SrcHashTbl.lean`)

Hand-written and fixed; `SrcHashTbl.lean` (regenerated from `crates/linear-hashtbl/src/raw.rs` on
every run by `tools/extract_tables4.py`) contains only data of these types.  Source text (guards,
right-hand sides, bindings) is the token stream joined by single blanks, comments removed,
blocks marked un-safe replaced by their content.
-/
namespace OxiddModel.Generated.Ht

/-- what a slot status is set to -/
inductive Mark where
  /-- `S::FREE` -/
  | free
  /-- `S::TOMBSTONE` -/
  | tomb
  /-- `S::from_hash(hash)` -/
  | fromHash
  /-- `status`: the status read from the old slot (rehash) -/
  | saved
deriving DecidableEq, Repr

/-- the counters -/
inductive Fld where
  /-- `self.len` of the table -/
  | len
  /-- `self.free` of the table -/
  | free
  /-- `self.len` of an iterator (`Drain`) -/
  | iterLen
  /-- `i` of `retain` -/
  | i
deriving DecidableEq, Repr

/-- one enclosing construct of a statement, outermost first -/
inductive Guard where
  /-- in the `then` branch of `if c` -/
  | when (c : String)
  /-- in the `else` branch of `if c` -/
  | unless (c : String)
  /-- in the body of `loop` / `for … in …` / `while …` -/
  | loop (header : String)
deriving DecidableEq, Repr

inductive Act where
  /-- `f += n` -/
  | add (f : Fld) (n : Nat)
  /-- `f -= n` -/
  | sub (f : Fld) (n : Nat)
  /-- `f = v` -/
  | set (f : Fld) (v : String)
  /-- `<slot>.status = m` -/
  | status (slot : String) (m : Mark)
  /-- `return v` or the tail expression `v` of the function -/
  | ret (v : String)
  | brk
  | cont
  /-- `core::hint::unreachable_unchecked()` -/
  | unreachable
  /-- `self.reserve(a)`, `self.reserve_rehash(a)`, `self.clear()`, `S::check_capacity(a)` as a statement -/
  | call (f : String) (args : String)
  /-- assignment to a local variable or to `self.data` -/
  | assign (v : String) (e : String)
  /-- a `let`, or a statement that moves element data / fills the new slot array (explicit list in the extractor) -/
  | bind (text : String)
  /-- `debug_assert!` / `debug_assert_ne!` / `debug_assert_eq!` -/
  | dbg (text : String)
deriving DecidableEq, Repr

structure Row where
  fn : String
  guards : List Guard
  act : Act
deriving DecidableEq, Repr

/-- one `impl Status for <int>` -/
structure StatusImpl where
  free : String
  tombstone : String
  fromHash : String
  checkCapacity : String
  isHash : String
deriving DecidableEq, Repr

end OxiddModel.Generated.Ht
