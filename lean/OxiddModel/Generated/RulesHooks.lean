/-!
# Row types of the manager-hook tables (`SrcHooks.lean`)

Hand-written and fixed; `SrcHooks.lean` (regenerated from the Rust source on every run by
`tools/extract_tables.py`) contains only data of these types.
-/
namespace OxiddModel.Generated.Hk

/-- the condition a call is under -/
inductive Ctx where
  | top
  /-- `if !self.reorder_gc_prepared { .. }` -/
  | ifNotPrepared
  /-- `if self.reorder_gc_prepared { .. }` (the nested-`reorder` early return) -/
  | ifPrepared
  /-- `if !self.gc_ongoing.try_lock() { .. }` -/
  | ifTryLockFails
  /-- `if !self.var_name_map.is_empty() { .. }` -/
  | ifNamesNonEmpty
  /-- inside the `scopeguard` of `add_named_vars`; listed where the guard is dropped -/
  | guard
  /-- inside `for level in &self.unique_table { .. }` -/
  | sweepLoop
deriving DecidableEq, Repr

inductive Ev where
  /-- `self.data.pre_reorder(self)` / `MD::pre_reorder_mut(self)` … -/
  | preReorder | preReorderMut | postReorder | postReorderMut | preGc | postGc
  /-- `unique_table.resize_with(<arg> as usize, ..)` -/
  | resize
  /-- `var_level_map.extend(<arg>)` -/
  | vlmExtend
  /-- `var_name_map.add_unnamed(<arg>)`, `.add_named(..)`, `self.var_name_map = <arg>` -/
  | namesAddUnnamed | namesAddNamed | namesSet
  /-- `self.reorder_gc_prepared = <arg>` -/
  | setPrepared
  /-- `f(self)` -/
  | callF
  /-- `self.gc_ongoing.unlock()` -/
  | unlock
  | gcCountInc | reorderCountInc
  /-- `level.gc(..)` / `terminal_manager.gc()` -/
  | sweepLevel | sweepTerminals
  /-- `drop(guard)` -/
  | dropGuard
  | ret
  /-- `self.add_named_vars(..)` -/
  | callAddNamedVars
deriving DecidableEq, Repr

structure Row where
  fn : String
  ctx : Ctx
  ev : Ev
  arg : String
deriving DecidableEq, Repr

end OxiddModel.Generated.Hk
