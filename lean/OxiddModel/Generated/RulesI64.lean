/-!
# Row types of the tables extracted from the `I64` terminal arithmetic (`oxidd-rules-mtbdd/src/terminal/i64.rs`)

Hand-written and fixed; `SrcI64.lean` (regenerated from the Rust source on every run by
`tools/extract_tables.py`) contains only data of these types.
-/
namespace OxiddModel.Generated.I6

/-- the constructors of `enum I64 { NaN, MinusInf, Num(i64), PlusInf }` -/
inductive Cls where
  | nan | ninf | num | pinf
deriving DecidableEq, Repr

/-- pattern for one operand: a constructor, or `_` -/
inductive CPat where
  | is (c : Cls)
  | any
deriving DecidableEq, Repr

/-- the payload of the left (`self`) / right (`rhs`, `other`) operand when it is `Num(_)` -/
inductive Var where
  | lhs | rhs
deriving DecidableEq, Repr

inductive Rel where
  | lt | le | gt | ge | eq | ne
deriving DecidableEq, Repr

/-- a condition over the payloads: comparisons of a payload with an integer constant, `&&`, `||`, `!` -/
inductive Cond where
  | cmp (v : Var) (r : Rel) (k : Int)
  | and (a b : Cond)
  | or (a b : Cond)
  | not (a : Cond)
deriving DecidableEq, Repr

/-- the `checked_*` methods of `i64` -/
inductive Meth where
  | add | sub | mul
deriving DecidableEq, Repr

/-- result expression of an arm of `add/sub/mul/div` -/
inductive Expr where
  | nan | ninf | pinf
  /-- `Num(k)` -/
  | numLit (k : Int)
  /-- `match lhs.checked_<m>(rhs) { Some(n) => Num(n), None => ovf }` -/
  | checked (m : Meth) (ovf : Expr)
  /-- `if c { t } else { e }` -/
  | ite (c : Cond) (t e : Expr)
  /-- `Num(lhs / rhs)` -/
  | tdiv
  /-- `match v.cmp(&k) { Less => lt, Equal => eq, Greater => gt }` -/
  | cmp3 (v : Var) (k : Int) (lt eq gt : Expr)
  /-- `match self.signum().unwrap() * rhs.signum().unwrap() { 1 => pos, -1 => neg, _ => other }` -/
  | signProd (pos neg other : Expr)
deriving DecidableEq, Repr

/-- one arm of `match (self, rhs)`: alternatives `(p, q) | (p', q') | …`, optional guard, result -/
structure Arm where
  pats : List (CPat × CPat)
  guard : Option Cond
  res : Expr
deriving DecidableEq, Repr

/-- result of an arm of `partial_cmp` -/
inductive CRes where
  /-- `Some(lhs.cmp(rhs))` -/
  | numCmp
  | less | equal | greater
  /-- `None` -/
  | unordered
deriving DecidableEq, Repr

structure CArm where
  pats : List (CPat × CPat)
  res : CRes
deriving DecidableEq, Repr

/-- an arm of `I64::signum`: `None` (via `return None`), a literal, or `n.signum()` -/
inductive SRes where
  | none
  | lit (k : Int)
  | ofNum
deriving DecidableEq, Repr

end OxiddModel.Generated.I6
