/-!
# Row types of the `apply_ite` shortcut tables (`SrcIte.lean`)

Hand-written and fixed; `SrcIte.lean` (regenerated from the Rust source on every run by
`tools/extract_tables.py`) contains only data of these types.
-/
namespace OxiddModel.Generated.It

/-- the three operands of `apply_ite(f, g, h)` -/
inductive V where
  | f | g | h
deriving DecidableEq, Repr

/-- binary operators a shortcut may delegate to (`apply_bin::<_, _, {Op}>`, `apply_and`) -/
inductive IOp where
  | and | or | nand | nor | xor | equiv | imp | impStrict
deriving DecidableEq, Repr

/-- the value a shortcut returns: an operand (`clone_edge`), a negation (`apply_not`, `not_owned`,
`not(&x)`), a delegated binary operation -/
inductive IExpr where
  | opnd (v : V)
  | neg (e : IExpr)
  | bin (op : IOp) (a b : IExpr)
deriving DecidableEq, Repr

/-- one conjunct of a shortcut's condition -/
inductive Atom where
  /-- the two edges are equal (`g == h`) -/
  | same (a b : V)
  /-- the two edges point to the same node (`gu == hu`, tags stripped) and their tags are equal /
  different (BCDD) -/
  | sameNode (a b : V) (eqTags : Bool)
  /-- the operand is the terminal with this value (BCDD: the terminal edge without / with complement) -/
  | term (a : V) (v : Bool)
  /-- the operand is a terminal, value not tested -/
  | termAny (a : V)
  /-- the operand is an inner node -/
  | inner (a : V)
deriving DecidableEq, Repr

/-- a shortcut: condition (conjunction) and returned value -/
structure Row where
  cond : List Atom
  res : IExpr
deriving DecidableEq, Repr

end OxiddModel.Generated.It
