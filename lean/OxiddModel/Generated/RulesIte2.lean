/-!
# Row types of the `apply_ite` shortcut tables of MTBDD / TDD / ZBDD (`SrcIte2.lean`)

Hand-written and fixed; `SrcIte2.lean` (regenerated from the Rust source on every run by
`tools/extract_tables.py`) contains only data of these types.
-/
namespace OxiddModel.Generated.I2

/-- the three operands of `apply_ite(f, g, h)` -/
inductive V where
  | f | g | h
deriving DecidableEq, Repr

/-- one conjunct of a shortcut's condition -/
inductive Atom where
  /-- the two edges are equal -/
  | same (a b : V)
  /-- the operand is the terminal with this value (`Zero`; `True` / `Unknown` / `False`; `Empty`) -/
  | termIs (a : V) (v : String)
  /-- the operand is a terminal -/
  | termAny (a : V)
  /-- the operand is an inner node -/
  | inner (a : V)
  /-- ZBDD: the operand is the tautology at `min(flevel, min(glevel, hlevel))` -/
  | taut (a : V)
deriving DecidableEq, Repr

/-- what a shortcut returns -/
inductive Res where
  /-- `manager.clone_edge(&x)` -/
  | opnd (v : V)
  /-- `manager.get_terminal(<value>)` -/
  | const (v : String)
  /-- `fn(manager, [rec,] a)` -/
  | un (fn : String) (a : V)
  /-- `fn::<.., { <Enum>::<op> as u8 }>(manager, [rec,] a, b)` (`op = ""`: no const argument) -/
  | bin (fn : String) (op : String) (a b : V)
deriving DecidableEq, Repr

/-- a shortcut; the list is a decision list (a row is reached only if no earlier row fired) -/
structure Row where
  cond : List Atom
  res : Res
deriving DecidableEq, Repr

end OxiddModel.Generated.I2
