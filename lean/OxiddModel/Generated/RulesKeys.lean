/-!
# Row types of the apply-cache key tables (`SrcKeys.lean`)

Hand-written and fixed; `SrcKeys.lean` (regenerated from the Rust source on every run by
`tools/extract_tables.py`) contains only data of these types.
-/
namespace OxiddModel.Generated.Ky

/-- `BDDOp::<X> as u8` used as the const parameter `Q` (combining operator of a quantifier) or `OP` -/
inductive KOp where
  | and | or | nand | nor | xor | equiv | imp | impStrict
deriving DecidableEq, Repr

/-- the operator under which an entry is looked up / stored -/
inductive KTag where
  /-- a literal `BDDOp::<name>` -/
  | lit (name : String)
  /-- `quant`'s `operator` (`match () { _ if Q == … => BDDOp::Forall, … }`, table `quantOperatorRows`) -/
  | quantVar
  /-- `apply_quant`'s `operator` (`const { BDDOp::from_apply_quant(Q, OP) }`, table `fromApplyQuantRows`) -/
  | applyQuantVar
  /-- the operator of the const parameter `OP` -/
  | opParam
  | other (s : String)
deriving DecidableEq, Repr

/-- an edge operand of a key, by the name of the variable -/
inductive KOpd where
  | f | g | h | vars
  | other (s : String)
deriving DecidableEq, Repr

/-- a numeric operand of a key -/
inductive KNum where
  | cacheId
  | other (s : String)
deriving DecidableEq, Repr

/-- one access to the apply cache: `value = "result"` when the inserted edge is the edge the
function returns -/
structure KeyRow where
  fn : String
  isAdd : Bool
  tag : KTag
  edges : List KOpd
  nums : List KNum
  value : String
deriving DecidableEq, Repr

inductive PopLevel where
  /-- `fnode.level()` -/
  | flevel
  /-- `min(fnode.level(), gnode.level())` -/
  | minLevel
  | other (s : String)
deriving DecidableEq, Repr

/-- `let vars = if <not Unique> { set_pop(manager, vars, level) } else { vars };` and whether it
precedes the cache lookup -/
structure PopRow where
  fn : String
  level : PopLevel
  exceptUnique : Bool
  beforeGet : Bool
deriving DecidableEq, Repr

end OxiddModel.Generated.Ky
