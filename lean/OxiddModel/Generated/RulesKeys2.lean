/-!
# Row types of the apply-cache key tables of the BCDD / ZBDD / MTBDD / TDD rules (`SrcKeys2.lean`)

Hand-written and fixed; `SrcKeys2.lean` (regenerated from the Rust source on every run by
`tools/extract_tables.py`) contains only data of these types.
-/
namespace OxiddModel.Generated.Ky2

/-- the operator under which an entry is looked up / stored -/
inductive Tag where
  /-- a literal `<Enum>::<name>` (or `<name>` after `use <Enum>::<name>`) -/
  | lit (name : String)
  /-- a variable: its name and which visible `let` binds it (see `Def`) -/
  | var (name : String) (ord : Nat)
  | other (s : String)
deriving DecidableEq, Repr

/-- an operand of a key: the name of the variable and which binding of that name is meant —
`0`: the function's parameter (or a match-arm binding), `k ≥ 1`: the `k`-th `let` of that name
visible at the access.  Two accesses name the same value iff name and ordinal agree. -/
abbrev Opd := String × Nat

structure Row where
  kind : String
  fn : String
  isAdd : Bool
  tag : Tag
  edges : List Opd
  nums : List Opd
  /-- `result`: the inserted edge is the edge the function returns -/
  value : String
deriving DecidableEq, Repr

structure Def where
  kind : String
  fn : String
  name : String
  ord : Nat
  /-- `numLevels` = `manager.num_levels()`, `untag:x` = `x.with_tag(EdgeTag::None)`, `alias:x` =
  `x.borrowed()`, `sortedPair` = `if f > g { (g, f) } else { (f, g) }`, `pop:<level>:exceptUnique`
  = `if <not Unique> { set_pop(manager, vars, <level>) } else { vars }`, `terminalBin` = the triple
  `(o, op1, op2)` of `Operation::Binary(o, op1, op2)` returned by `terminal_bin(manager, &f, &g)`,
  `terminalKernels` = the tuple built from the `Nodes(..)` arms of `terminal_and` / `terminal_xor`,
  `table` (see `keyTagTables2`), `fromApplyQuant` = `const { <Enum>::from_apply_quant(Q, OP) }` -/
  shape : String
  text : String
deriving DecidableEq, Repr

def Row.key (r : Row) : Tag × List Opd × List Opd := (r.tag, r.edges, r.nums)

def fns (rows : List Row) : List (String × String) := (rows.map (fun r => (r.kind, r.fn))).eraseDups

/-- the function has exactly one lookup and one insertion, under the same key (same operator, same
operands — name and binding —, same numeric operands), and inserts the edge it returns -/
def pairOK (rows : List Row) (kf : String × String) : Bool :=
  let rs := rows.filter (fun r => r.kind == kf.1 && r.fn == kf.2)
  match rs.filter (fun r => !r.isAdd), rs.filter (fun r => r.isAdd) with
  | [g], [a] => g.key == a.key && a.value == "result"
  | _, _ => false

def pairsOK (rows : List Row) : Bool := (fns rows).all (pairOK rows)

def Def.sig (d : Def) : String × String × String × Nat × String := (d.kind, d.fn, d.name, d.ord, d.shape)

end OxiddModel.Generated.Ky2
