/-!
# Row types of the tables extracted from the MTBDD rules (`oxidd-rules-mtbdd`)

Hand-written and fixed; `SrcMtbdd.lean` / `SrcI64.lean` (regenerated from the Rust source on every
run by `tools/extract_tables.py`) contain only data of these types.  The vocabulary is closed: a
construct of the source that does not fit is reported by the extractor in an `…Unparsed` list, whose
emptiness is an obligation.
-/
namespace OxiddModel.Generated.Mt

/-- the six operators of `MTBDDOp` that go through `terminal_bin` -/
inductive MOp where
  | add | sub | mul | div | min | max
deriving DecidableEq, Repr

/-- an operand of `terminal_bin` -/
inductive Side where
  | f | g
deriving DecidableEq, Repr

/-- the predicates of `NumberBase` used in guards: `is_zero()`, `is_one()`, `is_nan()` -/
inductive Pred where
  | zero | one | nan
deriving DecidableEq, Repr

/-- what an arm of `match tf.partial_cmp(tg)` returns: `clone_edge(f)`, `clone_edge(g)`, the NaN terminal -/
inductive Sel where
  | f | g | nan
deriving DecidableEq, Repr

/-- pattern (with guard) of an arm of a `terminal_bin` block -/
inductive Pat where
  /-- the test `if f == g { return … }` before the `match` -/
  | eq
  /-- `(Terminal(tf), Terminal(tg))` -/
  | tt
  /-- `(Terminal(t), _) if t.is_<p>()` -/
  | fIs (p : Pred)
  /-- `(_, Terminal(t)) if t.is_<p>()` -/
  | gIs (p : Pred)
  /-- `(Terminal(t), _) | (_, Terminal(t)) if t.is_<p>()` -/
  | eitherIs (p : Pred)
  /-- `_ if f > g` -/
  | anyGt
  /-- `_` -/
  | any
deriving DecidableEq, Repr

/-- result of an arm -/
inductive Res where
  /-- `Done(get_terminal(tf.<m>(tg)))` with `m` one of `add/sub/mul/div` (operands in this order) -/
  | compute (m : MOp)
  /-- `Done(match tf.partial_cmp(tg) { Some(Less) => lt, Some(Equal) => eq, Some(Greater) => gt, None => un })` -/
  | select (lt eq gt un : Sel)
  /-- `Done(clone_edge(s))` -/
  | clone (s : Side)
  /-- `Done(get_terminal(T::nan()))` -/
  | nan
  /-- `Binary(MTBDDOp::<tag>, a, b)`: recurse, memoised under `(tag, a, b)` -/
  | bin (tag : MOp) (a b : Side)
deriving DecidableEq, Repr

/-- one arm of a `terminal_bin` block -/
structure MRule where
  pat : Pat
  res : Res
deriving DecidableEq, Repr

end OxiddModel.Generated.Mt
