/-!
# Row types of the "same text in both managers" tables (`SrcNames2.lean`)

Hand-written and fixed; `SrcNames2.lean` (regenerated on every run by `tools/extract_tables4.py`)
contains only data of these types.  A function is given as its token stream (comments and white
space removed) in `oxidd-manager-index` and in `oxidd-manager-pointer`, the latter after the
substitutions of `names2Subst`.  The extractor also lists the differing token ranges; `checkMethod`
*re-checks* that list in Lean (it is not trusted): patching the pointer-side text with the listed
ranges must give the index-side text exactly.
-/
namespace OxiddModel.Generated.Nm

structure Method where
  name : String
  sigI : List String
  bodyI : List String
  sigP : List String
  bodyP : List String
deriving DecidableEq, Repr

/-- tokens `[iLo, iHi)` of the index-side text stand where tokens `[pLo, pHi)` of the pointer-side
text stand -/
structure Diff where
  fn : String
  inSig : Bool
  iLo : Nat
  iHi : Nat
  pLo : Nat
  pHi : Nat
  textI : List String
  textP : List String
deriving DecidableEq, Repr

def slice (l : List String) (lo hi : Nat) : List String := (l.drop lo).take (hi - lo)

/-- ranges in increasing order, not overlapping, none empty on both sides -/
def ordered : List Diff → Bool
  | a :: b :: r => a.pHi ≤ b.pLo && a.iHi ≤ b.iLo && ordered (b :: r)
  | _ => true

/-- replace the listed ranges of `p` (last first, so that positions stay valid) by the index-side text -/
def patch (p : List String) (ds : List Diff) : List String :=
  ds.reverse.foldl (fun acc d => acc.take d.pLo ++ d.textI ++ acc.drop d.pHi) p

/-- the listed ranges are exactly the difference between the two texts -/
def checkText (i p : List String) (ds : List Diff) : Bool :=
  ordered ds &&
  ds.all (fun d => d.iLo ≤ d.iHi && d.pLo ≤ d.pHi && (d.iLo < d.iHi || d.pLo < d.pHi) &&
                   d.iHi ≤ i.length && d.pHi ≤ p.length &&
                   slice i d.iLo d.iHi == d.textI && slice p d.pLo d.pHi == d.textP && d.textI != d.textP) &&
  patch p ds == i

def checkMethod (ds : List Diff) (m : Method) : Bool :=
  checkText m.sigI m.sigP (ds.filter (fun d => d.fn == m.name && d.inSig)) &&
  checkText m.bodyI m.bodyP (ds.filter (fun d => d.fn == m.name && !d.inSig))

/-- a function without a listed difference has the same text in both crates -/
theorem checkText_nil {i p : List String} (h : checkText i p [] = true) : p = i := by
  simpa [checkText, ordered, patch] using h

theorem same_text_of_check {ds : List Diff} {m : Method} (h : checkMethod ds m = true)
    (hn : ds.all (fun d => d.fn != m.name) = true) : m.sigP = m.sigI ∧ m.bodyP = m.bodyI := by
  have hf : ∀ b : Bool, ds.filter (fun d => d.fn == m.name && (if b then d.inSig else !d.inSig)) = [] := by
    intro b
    rw [List.filter_eq_nil_iff]
    intro d hd
    have := (List.all_eq_true.mp hn) d hd
    simp only [bne_iff_ne, ne_eq] at this
    simp [this]
  have h1 := hf true
  have h2 := hf false
  simp only [if_true, Bool.false_eq_true, if_false] at h1 h2
  unfold checkMethod at h
  rw [h1, h2, Bool.and_eq_true] at h
  exact ⟨checkText_nil h.1, checkText_nil h.2⟩

end OxiddModel.Generated.Nm
