/-!
# Row types of `SrcQuant2.lean` (early returns and bindings of BCDD `quant` / `apply_quant`, ZBDD `subset`)

Hand-written and fixed; `SrcQuant2.lean` is regenerated on every run by `tools/extract_tables4.py`.
Source text is given as its token list (comments, `stat!(…)` removed).
-/
namespace OxiddModel.Generated.Q2

/-- a `return e` in front of the cache lookup; `path`: the headers of the enclosing blocks,
outermost first, a match arm as `=> <pattern>` -/
structure Ret where
  path : List (List String)
  expr : List String
deriving DecidableEq, Repr

/-- a top-level `let <pat> = <init>;` -/
structure Let where
  pat : List String
  init : List String
deriving DecidableEq, Repr

end OxiddModel.Generated.Q2
