/-!
# Row types of the tables extracted from the reduction rules (`DiagramRules::reduce` and the free
`reduce…` functions of every diagram kind)

Hand-written and fixed; `SrcReduce.lean` (regenerated from the Rust source on every run by
`tools/extract_tables.py`) contains only data of these types.  Children are referred to by their
position in the argument list (`0` = then/hi, …).
-/
namespace OxiddModel.Generated.Rd

/-- the condition under which no node is created -/
inductive RCond where
  /-- the children at these positions are all equal (a chain of `==` tests connecting them) -/
  | allEq (idxs : List Nat)
  /-- the child at this position is the `Empty` terminal (ZBDD) -/
  | isEmpty (i : Nat)
deriving DecidableEq, Repr

/-- one reduction function of a kind without edge tags -/
structure RedRow where
  kind : String
  fn : String
  arity : Nat
  cond : RCond
  /-- position of the child returned when `cond` holds -/
  ret : Nat
  /-- children of the node created otherwise, as positions -/
  children : List Nat
  /-- the function forwards to `DiagramRules::reduce` (and so has that row) -/
  delegates : Bool
deriving DecidableEq, Repr

/-- what happens to a child's tag when the node is created -/
inductive TagOp where
  | keep | setNone | setCompl | flip
deriving DecidableEq, Repr

/-- a BCDD reduction function: `t == e ⇒ child eqRet`; otherwise, depending on the tag of child
`tested`, the node's children (position, tag operation) and the tag of the resulting edge -/
structure BcddRed where
  fn : String
  eqRet : Nat
  tested : Nat
  complChildren : List (Nat × TagOp)
  complOut : String
  plainChildren : List (Nat × TagOp)
  plainOut : String
deriving DecidableEq, Repr

end OxiddModel.Generated.Rd
