/-!
# Row types of the tables extracted from the ZBDD set operations (`oxidd-rules-zbdd/src/apply_rec.rs`)

Hand-written and fixed; `SrcZbddApply.lean` (regenerated from the Rust source on every run by
`tools/extract_tables.py`) contains only data of these types.
-/
namespace OxiddModel.Generated.Zb

/-- the four set operations -/
inductive ZOp where
  | union | intsec | diff | symmDiff
deriving DecidableEq, Repr

/-- an atom of a terminal-case condition: `f == g`, `*f == *empty`, `*g == *empty` -/
inductive Atom where
  | fEqG | fEmpty | gEmpty
deriving DecidableEq, Repr

/-- result of a terminal case: `clone_edge(&f)`, `clone_edge(&g)`, `empty.into_edge()` -/
inductive TRes where
  | cloneF | cloneG | empty
deriving DecidableEq, Repr

/-- `if a₁ || a₂ || … { return Ok(res); }` -/
structure TRow where
  cond : List Atom
  res : TRes
deriving DecidableEq, Repr

/-- an operand or child available in the recursive part -/
inductive Opnd where
  | f | g | fhi | flo | ghi | glo
deriving DecidableEq, Repr

/-- a child of the node to build: passed through, or the recursive call on a pair -/
inductive CExpr where
  | thru (o : Opnd)
  | call (a b : Opnd)
deriving DecidableEq, Repr

/-- one arm of `match flevel.cmp(&glevel)`: build a node at the level of `f`/`g` with `reduce` or
`reduce_borrowed` (`node fLevel hi lo`), or return the recursive call itself -/
inductive RArm where
  | node (atF : Bool) (hi lo : CExpr)
  | direct (a b : Opnd)
deriving DecidableEq, Repr

/-- everything extracted from one `apply_<op>` -/
structure ZFn where
  op : ZOp
  /-- the terminal cases, in source order -/
  term : List TRow
  /-- `let (f, g) = if f > g { (g, f) } else { (f, g) };` present (after the terminal cases) -/
  swapIfGt : Bool
  /-- operator tag of `apply_cache().get` / `.add` and whether the key is `[f, g]` in this order -/
  getTag : String
  addTag : String
  keyInOrder : Bool
  less : RArm
  equal : RArm
  greater : RArm
deriving DecidableEq, Repr

end OxiddModel.Generated.Zb
