import OxiddModel.Util.Proto
import OxiddModel.HashTbl.Model

/-!
Line-protocol driver `tbl` for the hash-table model (C17).  See the header of
`/verif/harness/src/bin/c17_tbl.rs` for the protocol; both sides print the same canonical line
for every operation line.
-/
namespace OxiddModel.HashTbl

structure DState where
  t : Tbl
  stack : List Tbl
  dead : Bool

def DState.init : DState := { t := Tbl.new, stack := [], dead := false }

def showSlot : Slot → String
  | .free => "F"
  | .tomb => "T"
  | .occ st k => toString k ++ "/" ++ toString st

def showDump (t : Tbl) : String :=
  joinSp ([toString t.len, toString t.free, toString t.cap, "|"] ++ t.slots.toList.map showSlot)

def showKeys (tag : String) (ks : List Nat) : String := joinSp (tag :: ks.map toString)

def errLine : Err → String
  | .capacity => "PANIC"
  | .panic => "PANIC"
  | .diverge => "DIVERGE"

def dieWith (s : DState) (e : Err) : DState × String := ({ s with dead := true }, errLine e)

/-- the predicate of the `retain m` line: keep `k` iff bit `k mod 64` of `m` is set -/
def keepMask (m k : Nat) : Bool := m.testBit (k % 64)

def stepWords (s : DState) : List String → DState × String
  | "hashes" :: hs =>
    if hs.all (fun x => x.toNat?.isSome) then (s, "ok " ++ toString hs.length) else (s, "bad-op")
  | ["new"] => ({ s with t := Tbl.new }, "ok")
  | ["withcap", n] =>
    match n.toNat? with
    | some n =>
      match Tbl.withCapacity n with
      | .ok t => ({ s with t := t }, "ok")
      | .error e => dieWith s e
    | none => (s, "bad-op")
  | ["ins", k, h] =>
    match k.toNat?, h.toNat? with
    | some k, some h =>
      if k ≥ 4294967296 then (s, "bad-op") else
      match s.t.insert k h with
      | .ok (t, .isNew i) => ({ s with t := t }, "new " ++ toString i)
      | .ok (t, .found i) => ({ s with t := t }, "found " ++ toString i)
      | .error e => dieWith s e
    | _, _ => (s, "bad-op")
  | ["rem", k, h] =>
    match k.toNat?, h.toNat? with
    | some k, some h =>
      match s.t.remove k h with
      | .ok (t, true) => ({ s with t := t }, "some")
      | .ok (t, false) => ({ s with t := t }, "none")
      | .error e => dieWith s e
    | _, _ => (s, "bad-op")
  | ["find", k, h] =>
    match k.toNat?, h.toNat? with
    | some k, some h =>
      match s.t.find h k with
      | .ok (some i) => (s, toString i)
      | .ok none => (s, "none")
      | .error e => dieWith s e
    | _, _ => (s, "bad-op")
  | ["get", k, h] =>
    match k.toNat?, h.toNat? with
    | some k, some h =>
      match s.t.getKey h k with
      | .ok (some v) => (s, toString v)
      | .ok none => (s, "none")
      | .error e => dieWith s e
    | _, _ => (s, "bad-op")
  | ["retain", m] =>
    match m.toNat? with
    | some m =>
      match s.t.retain (keepMask m) with
      | .ok (t, d) => ({ s with t := t }, showKeys "dropped" d)
      | .error e => dieWith s e
    | none => (s, "bad-op")
  | ["drain"] =>
    match s.t.drain with
    | .ok (t, ks) => ({ s with t := t }, showKeys "keys" ks)
    | .error e => dieWith s e
  | ["drainpartial", n] =>
    match n.toNat? with
    | some n =>
      match s.t.drainTake n with
      | .ok (t, ks) => ({ s with t := t }, showKeys "keys" ks)
      | .error e => dieWith s e
    | none => (s, "bad-op")
  | ["clear"] =>
    match s.t.clear with
    | .ok t => ({ s with t := t }, "ok")
    | .error e => dieWith s e
  | ["clearnd"] =>
    match s.t.clear with
    | .ok t => ({ s with t := t }, "ok")
    | .error e => dieWith s e
  | ["reset"] => ({ s with t := s.t.resetNoDrop }, "ok")
  | ["reserve", n] =>
    match n.toNat? with
    | some n =>
      match s.t.reserve n with
      | .ok t => ({ s with t := t }, "ok")
      | .error e => dieWith s e
    | none => (s, "bad-op")
  | ["clone"] => ({ s with t := s.t.clone }, "ok")
  | ["intoiter"] =>
    match s.t.intoIter with
    | .ok ks => ({ s with t := Tbl.new }, showKeys "keys" ks)
    | .error e => dieWith s e
  | ["iter"] =>
    match s.t.iter with
    | .ok ks => (s, showKeys "keys" ks)
    | .error e => dieWith s e
  | ["dump"] => (s, showDump s.t)
  | ["push"] => ({ s with stack := s.t.clone :: s.stack }, "ok")
  | ["pop"] =>
    match s.stack with
    | t :: r => ({ s with t := t, stack := r }, "ok")
    | [] => (s, "bad-op")
  | _ => (s, "bad-op")

def step (s : DState) (line : String) : DState × String :=
  if s.dead then (s, "DEAD") else stepWords s (words line)

def proto : Proto := { σ := DState, init := DState.init, step := step }

end OxiddModel.HashTbl
