import OxiddModel.Util.Proto
import OxiddModel.HashTbl.Ops

/-!
Line-protocol driver `tbl` for the hash-table model (C17).  See the header of
`/verif/harness/src/bin/c17_tbl.rs` for the protocol; both sides print the same canonical line
for every operation line.

Every table operation is executed through `apply` (the function the history theorems are about);
the hash given on the line is passed as the constant hash function `fun _ => h` (an operation
uses the hash of its own key only).  `dump`, `push`, `pop` and `hashes` are harness plumbing.
-/
namespace OxiddModel.HashTbl

structure DState where
  t : Tbl
  stack : List Tbl
  dead : Bool

def DState.init : DState := { t := Tbl.new, stack := [], dead := false }

def showSlot : Slot → String
  | .free => "F"
  | .tomb => "T"
  | .occ st k => toString k ++ "/" ++ toString st

def showDump (t : Tbl) : String :=
  joinSp ([toString t.len, toString t.free, toString t.cap, "|"] ++ t.slots.toList.map showSlot)

def showKeys (tag : String) (ks : List Nat) : String := joinSp (tag :: ks.map toString)

def errLine : Err → String
  | .capacity => "PANIC"
  | .panic => "PANIC"
  | .diverge => "DIVERGE"

/-- canonical output line of an observation (`tag` names the key list of the operation) -/
def showObs (tag : String) : Obs → String
  | .unit => "ok"
  | .inserted s => "new " ++ toString s
  | .present s => "found " ++ toString s
  | .removed true => "some"
  | .removed false => "none"
  | .found (some i) => toString i
  | .found none => "none"
  | .got (some v) => toString v
  | .got none => "none"
  | .keys ks => showKeys tag ks

/-- the predicate of the `retain m` line: keep `k` iff bit `k mod 64` of `m` is set -/
def keepMask (m k : Nat) : Bool := m.testBit (k % 64)

/-- run one table operation with the hash `h` for its key -/
def exec (s : DState) (h : Nat) (op : Op) (tag : String := "keys") : DState × String :=
  match apply (fun _ => h) s.t op with
  | .ok (t, o) => ({ s with t := t }, showObs tag o)
  | .error e => ({ s with dead := true }, errLine e)

def stepWords (s : DState) : List String → DState × String
  | "hashes" :: hs =>
    if hs.all (fun x => x.toNat?.isSome) then (s, "ok " ++ toString hs.length) else (s, "bad-op")
  | ["new"] => exec s 0 .new
  | ["withcap", n] =>
    match n.toNat? with
    | some n => exec s 0 (.withCap n)
    | none => (s, "bad-op")
  | ["ins", k, h] =>
    match k.toNat?, h.toNat? with
    | some k, some h => if k ≥ 4294967296 then (s, "bad-op") else exec s h (.ins k)
    | _, _ => (s, "bad-op")
  | ["rem", k, h] =>
    match k.toNat?, h.toNat? with
    | some k, some h => exec s h (.rem k)
    | _, _ => (s, "bad-op")
  | ["find", k, h] =>
    match k.toNat?, h.toNat? with
    | some k, some h => exec s h (.find k)
    | _, _ => (s, "bad-op")
  | ["get", k, h] =>
    match k.toNat?, h.toNat? with
    | some k, some h => exec s h (.get k)
    | _, _ => (s, "bad-op")
  | ["retain", m] =>
    match m.toNat? with
    | some m => exec s 0 (.retain (keepMask m)) "dropped"
    | none => (s, "bad-op")
  | ["drain"] => exec s 0 .drain
  | ["drainpartial", n] =>
    match n.toNat? with
    | some n => exec s 0 (.drainTake n)
    | none => (s, "bad-op")
  | ["clear"] => exec s 0 .clear
  | ["clearnd"] => exec s 0 .clearNoDrop
  | ["reset"] => exec s 0 .reset
  | ["reserve", n] =>
    match n.toNat? with
    | some n => exec s 0 (.reserve n)
    | none => (s, "bad-op")
  | ["clone"] => exec s 0 .clone
  | ["intoiter"] => exec s 0 .intoIter
  | ["iter"] => exec s 0 .iter
  | ["dump"] => (s, showDump s.t)
  | ["push"] => ({ s with stack := s.t.clone :: s.stack }, "ok")
  | ["pop"] =>
    match s.stack with
    | t :: r => ({ s with t := t, stack := r }, "ok")
    | [] => (s, "bad-op")
  | _ => (s, "bad-op")

def step (s : DState) (line : String) : DState × String :=
  if s.dead then (s, "DEAD") else stepWords s (words line)

def proto : Proto := { σ := DState, init := DState.init, step := step }

end OxiddModel.HashTbl
