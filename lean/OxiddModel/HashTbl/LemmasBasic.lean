import OxiddModel.HashTbl.Model

/-!
Arithmetic and list/array plumbing for the hash-table proofs (C17): cyclic walks instead of
`& mask`, capacities are powers of two, counting slots.
-/
namespace OxiddModel.HashTbl

/-! ### cyclic successor without `%` -/

def nxt (cap i : Nat) : Nat := if i + 1 = cap then 0 else i + 1

/-- position after `k` probing steps from `i` -/
def walk (cap : Nat) : Nat → Nat → Nat
  | 0, i => i
  | k+1, i => walk cap k (nxt cap i)

theorem walk_succ (cap k i : Nat) : walk cap (k+1) i = nxt cap (walk cap k i) := by
  induction k generalizing i with
  | zero => rfl
  | succ k ih => simp only [walk] at ih ⊢; rw [ih]

theorem nxt_lt {cap i : Nat} (h : i < cap) : nxt cap i < cap := by
  unfold nxt; split <;> omega

theorem nxt_ne {cap i : Nat} (hc : 2 ≤ cap) : nxt cap i ≠ i := by
  unfold nxt; split <;> omega

theorem walk_lt {cap i : Nat} (h : i < cap) (k : Nat) : walk cap k i < cap := by
  induction k generalizing i with
  | zero => exact h
  | succ k ih => exact ih (nxt_lt h)

/-- closed form of the cyclic walk (no `%`): for `k ≤ cap` -/
theorem walk_eq {cap i : Nat} (h : i < cap) : ∀ k, k ≤ cap →
    walk cap k i = if i + k < cap then i + k else i + k - cap := by
  intro k
  induction k with
  | zero => intro _; simp [walk, h]
  | succ k ih =>
    intro hk
    rw [walk_succ, ih (by omega)]
    unfold nxt
    split <;> split <;> split <;> omega

/-- every index is reached within `cap` steps -/
theorem walk_surj {cap i j : Nat} (hi : i < cap) (hj : j < cap) :
    ∃ k, k < cap ∧ walk cap k i = j := by
  by_cases h : i ≤ j
  · refine ⟨j - i, by omega, ?_⟩
    rw [walk_eq hi _ (by omega)]; split <;> omega
  · refine ⟨cap - i + j, by omega, ?_⟩
    rw [walk_eq hi _ (by omega)]; split <;> omega

/-! ### capacities -/

/-- a non-zero capacity of a `RawTable<_, u32>`: a power of two between `MIN_CAP` and `2^31` -/
def IsCap (c : Nat) : Prop := ∃ e, 4 ≤ e ∧ e ≤ 31 ∧ c = 2 ^ e

theorem IsCap.ge16 {c : Nat} (h : IsCap c) : 16 ≤ c := by
  obtain ⟨e, h4, _, rfl⟩ := h
  exact Nat.pow_le_pow_right (show 2 > 0 by decide) h4

theorem IsCap.pos {c : Nat} (h : IsCap c) : 0 < c := by have := h.ge16; omega

theorem IsCap.four_dvd {c : Nat} (h : IsCap c) : ∃ q, c = 4 * q := by
  obtain ⟨e, h4, _, rfl⟩ := h
  refine ⟨2 ^ (e - 2), ?_⟩
  have : e = 2 + (e - 2) := by omega
  conv => lhs; rw [this, Nat.pow_add]

theorem IsCap.dvd31 {c : Nat} (h : IsCap c) : c ∣ 2147483648 := by
  obtain ⟨e, _, h31, rfl⟩ := h
  exact Nat.pow_dvd_pow 2 h31

theorem and_mask_eq_mod {c : Nat} (h : IsCap c) (x : Nat) : x &&& (c - 1) = x % c := by
  obtain ⟨e, _, _, rfl⟩ := h
  exact Nat.and_two_pow_sub_one_eq_mod x e

theorem nextIdx_eq_nxt {c i : Nat} (h : IsCap c) (hi : i < c) : Tbl.nextIdx c i = nxt c i := by
  unfold Tbl.nextIdx nxt
  rw [and_mask_eq_mod h]
  split
  · rename_i he; rw [he]; exact Nat.mod_self c
  · exact Nat.mod_eq_of_lt (by omega)

theorem fromHash_eq (h : Nat) : fromHash h = h % 2147483648 := by
  unfold fromHash
  have := Nat.and_two_pow_sub_one_eq_mod (h % 4294967296) 31
  simp only [show (2:Nat) ^ 31 - 1 = 2147483647 by decide, show (2:Nat) ^ 31 = 2147483648 by decide] at this
  rw [this]
  exact Nat.mod_mod_of_dvd h (by decide : (2147483648 : Nat) ∣ 4294967296)

/-- the home slot computed from the stored status (as `reserve_rehash` does) is the home slot
computed from the full hash (as `find` does) -/
theorem fromHash_mod {c : Nat} (hc : IsCap c) (h : Nat) : fromHash h % c = h % c := by
  rw [fromHash_eq]; exact Nat.mod_mod_of_dvd h hc.dvd31

theorem npot_pow (n : Nat) : ∃ e, npot n = 2 ^ e := by
  unfold npot; split
  · exact ⟨0, rfl⟩
  · exact ⟨_, rfl⟩

theorem le_npot (n : Nat) : n ≤ npot n := by
  unfold npot; split
  · omega
  · have := @Nat.lt_log2_self (n - 1); omega

/-- `next_capacity` returns 0 or a power of two `≥ MIN_CAP` with room for the 25 % spare slots -/
theorem nextCapacity_spec (r : Nat) (hr : r ≠ 0) :
    (∃ e, 4 ≤ e ∧ nextCapacity r = 2 ^ e) ∧ r * 4 / 3 ≤ nextCapacity r := by
  unfold nextCapacity
  simp only [hr, if_false, RATIO_D, RATIO_N, MIN_CAP]
  obtain ⟨e, he⟩ := npot_pow (r * 4 / 3)
  have hle := le_npot (r * 4 / 3)
  refine ⟨?_, by rw [Nat.max_def]; split <;> omega⟩
  rw [he]
  by_cases h4 : 4 ≤ e
  · refine ⟨e, h4, ?_⟩
    have : (2:Nat) ^ 4 ≤ 2 ^ e := Nat.pow_le_pow_right (by decide) h4
    rw [Nat.max_def]; split <;> omega
  · refine ⟨4, Nat.le_refl _, ?_⟩
    have : (2:Nat) ^ e ≤ 2 ^ 4 := Nat.pow_le_pow_right (by decide) (by omega)
    rw [Nat.max_def]; split <;> omega

theorem nextCapacity_zero : nextCapacity 0 = 0 := by simp [nextCapacity]

theorem nextCapacity_isCap (r : Nat) (hr : r ≠ 0) (hc : checkCapacity (nextCapacity r) = true) :
    IsCap (nextCapacity r) := by
  obtain ⟨⟨e, h4, he⟩, _⟩ := nextCapacity_spec r hr
  refine ⟨e, h4, ?_, he⟩
  unfold checkCapacity at hc
  rw [he] at hc
  have hc' : (2:Nat) ^ e ≤ 2 ^ 31 := by simpa using hc
  exact (Nat.pow_le_pow_iff_right (by decide)).1 hc'

/-- after a rehash for `r` elements there are at least 25 % spare slots -/
theorem nextCapacity_spare (r : Nat) (hr : r ≠ 0) (hc : IsCap (nextCapacity r)) :
    r + nextCapacity r / 4 ≤ nextCapacity r := by
  have h2 := (nextCapacity_spec r hr).2
  obtain ⟨q, hq⟩ := hc.four_dvd
  omega

/-! ### slots, counting -/

def countFreeL (l : List Slot) : Nat := l.countP Slot.isFree
def countTombL (l : List Slot) : Nat := l.countP Slot.isTomb
def keysL (l : List Slot) : List Nat := l.filterMap Slot.key?

theorem count_partition (l : List Slot) :
    countFreeL l + countTombL l + Tbl.countOccL l = l.length := by
  induction l with
  | nil => rfl
  | cons s r ih =>
    simp only [countFreeL, countTombL, Tbl.countOccL, List.countP_cons, List.length_cons] at ih ⊢
    cases s <;> simp [Slot.isFree, Slot.isTomb, Slot.isOcc] <;> omega

theorem countOccL_eq_length_keysL (l : List Slot) : Tbl.countOccL l = (keysL l).length := by
  induction l with
  | nil => rfl
  | cons s r ih =>
    simp only [Tbl.countOccL, keysL, List.countP_cons, List.filterMap_cons] at ih ⊢
    cases s <;> simp [Slot.isOcc, Slot.key?, ih]

theorem keysL_cons_occ (st k : Nat) (r : List Slot) : keysL (.occ st k :: r) = k :: keysL r := by
  simp [keysL, Slot.key?]
theorem keysL_cons_free (r : List Slot) : keysL (.free :: r) = keysL r := by
  simp only [keysL, List.filterMap_cons, Slot.key?]
theorem keysL_cons_tomb (r : List Slot) : keysL (.tomb :: r) = keysL r := by
  simp only [keysL, List.filterMap_cons, Slot.key?]

namespace Tbl

theorem keys_eq (t : Tbl) : t.keys = keysL t.slots.toList := rfl

theorem get_eq_list (t : Tbl) (i : Nat) : t.get i = (t.slots.toList[i]?).getD .free := by
  simp [get]

theorem get_of_ge (t : Tbl) (i : Nat) (h : t.cap ≤ i) : t.get i = .free := by
  unfold get cap at *
  rw [Array.getElem?_eq_none (by omega)]; rfl

theorem lt_cap_of_get_occ {t : Tbl} {i st k : Nat} (h : t.get i = .occ st k) : i < t.cap := by
  apply Classical.byContradiction
  intro hn
  rw [get_of_ge t i (by omega)] at h
  cases h

theorem lt_cap_of_get_tomb {t : Tbl} {i : Nat} (h : t.get i = .tomb) : i < t.cap := by
  apply Classical.byContradiction
  intro hn
  rw [get_of_ge t i (by omega)] at h
  cases h

theorem cap_set (t : Tbl) (i : Nat) (s : Slot) : (t.set i s).cap = t.cap := by
  simp [set, cap]

theorem get_set (t : Tbl) (i j : Nat) (s : Slot) (hi : i < t.cap) :
    (t.set i s).get j = if j = i then s else t.get j := by
  unfold set get cap at *
  simp only [Array.getElem?_setIfInBounds]
  by_cases hj : j = i
  · subst hj; simp [hi]
  · simp [hj, Ne.symm hj]

theorem toList_set (t : Tbl) (i : Nat) (s : Slot) :
    (t.set i s).slots.toList = t.slots.toList.set i s := by
  simp [set]

end Tbl

/-- counting after overwriting one position -/
theorem countP_set' (p : Slot → Bool) (l : List Slot) (i : Nat) (s : Slot) (hi : i < l.length) :
    (l.set i s).countP p + (if p ((l[i]?).getD .free) then 1 else 0)
      = l.countP p + (if p s then 1 else 0) := by
  rw [List.countP_set hi]
  have hget : (l[i]?).getD .free = l[i] := by simp [hi]
  rw [hget]
  have : (if p l[i] = true then 1 else 0) ≤ l.countP p := by
    split
    · rename_i hp
      exact List.countP_pos_iff.2 ⟨l[i], List.getElem_mem hi, hp⟩
    · omega
  omega

theorem countP_eq_zero_of_get {p : Slot → Bool} {l : List Slot}
    (h : ∀ i, i < l.length → p ((l[i]?).getD .free) = false) : l.countP p = 0 := by
  rw [List.countP_eq_zero]
  intro a ha
  obtain ⟨i, hi, rfl⟩ := List.getElem_of_mem ha
  have := h i hi
  simp [hi] at this
  simp [this]

theorem exists_of_countP_pos {p : Slot → Bool} {l : List Slot} (h : 0 < l.countP p) :
    ∃ i, i < l.length ∧ p ((l[i]?).getD .free) = true := by
  obtain ⟨a, ha, hp⟩ := List.countP_pos_iff.1 h
  obtain ⟨i, hi, rfl⟩ := List.getElem_of_mem ha
  exact ⟨i, hi, by simp [hi, hp]⟩

/-- pointwise implication gives monotone counts -/
theorem countP_mono_pointwise (p : Slot → Bool) :
    ∀ (l l' : List Slot), l.length = l'.length →
      (∀ i, i < l.length → p ((l[i]?).getD .free) = true → p ((l'[i]?).getD .free) = true) →
      l.countP p ≤ l'.countP p := by
  intro l
  induction l with
  | nil => intro l' _ _; simp
  | cons s r ih =>
    intro l' hl h
    cases l' with
    | nil => simp at hl
    | cons s' r' =>
      simp only [List.length_cons, Nat.add_right_cancel_iff] at hl
      have h0 := h 0 (by simp)
      simp only [List.getElem?_cons_zero, Option.getD_some] at h0
      have hr := ih r' hl (fun i hi hp => by
        have := h (i+1) (by simp; omega)
        simpa using this hp)
      simp only [List.countP_cons]
      cases hs : p s
      · simp; omega
      · simp [h0 hs]; omega

end OxiddModel.HashTbl
