import OxiddModel.HashTbl.LemmasRehash

/-!
`find_or_find_insert_slot` and the combined insertion.
-/
namespace OxiddModel.HashTbl
namespace Tbl

theorem findOrFindInsertSlot_spec {hf : Nat → Nat} {t : Tbl} (hinv : Inv hf t) (key : Nat) :
    (∃ t1 r, t.findOrFindInsertSlot (hf key) key = .ok (t1, r) ∧ Inv hf t1 ∧
      (∀ x, t1.Mem x ↔ t.Mem x) ∧ IsCap t1.cap ∧ t1.cap / 4 + 1 ≤ t1.free ∧
      ((∃ i, r = .found i ∧ t1.get i = .occ (fromHash (hf key)) key) ∨
       (∃ s, r = .vacant s ∧ s < t1.cap ∧ (t1.get s = .free ∨ t1.get s = .tomb) ∧
          (∃ ds, ds < t1.cap ∧ walk t1.cap ds (hf key % t1.cap) = s ∧
            ∀ d', d' < ds → (t1.get (walk t1.cap d' (hf key % t1.cap))).isFree = false) ∧
          ¬ t1.Mem key))) ∨
    (t.findOrFindInsertSlot (hf key) key = .error .capacity ∧
      checkCapacity (nextCapacity (t.len + 1)) = false) := by
  unfold findOrFindInsertSlot
  rcases reserve_spec hinv 1 with ⟨t1, h1, h2, h3, _, h5, h6⟩ | ⟨h1, h2⟩
  · left
    rw [h1]
    have hc : IsCap t1.cap := h6 (by decide)
    have hcap0 : t1.cap ≠ 0 := by have := hc.pos; omega
    simp only [hcap0, if_false]
    obtain ⟨_, hfree⟩ := h2.exists_free hc
    have hhome : hf key % t1.cap < t1.cap := Nat.mod_lt _ hc.pos
    rw [and_mask_eq_mod hc]
    have hw : walk t1.cap 0 (hf key % t1.cap) = hf key % t1.cap := rfl
    rcases fofLoop_spec t1 (fromHash (hf key)) key (hf key % t1.cap) hc hhome hfree t1.cap 0 none
      (by omega) (by intro d' hd'; omega) (by intro s hs; cases hs) with
      ⟨i, g1, g2⟩ | ⟨s, g1, g2, g3, g4, e, _, g6, g7⟩
    · rw [hw] at g1
      rw [g1]
      exact ⟨t1, .found i, rfl, h2, h3, hc, by omega, .inl ⟨i, rfl, g2⟩⟩
    · rw [hw] at g1
      rw [g1]
      refine ⟨t1, .vacant s, rfl, h2, h3, hc, by omega, .inr ⟨s, rfl, g2, g3, g4, ?_⟩⟩
      rw [← fromHash_mod hc] at g6 g7
      exact not_mem_of_path h2.probe h2.statusOK g6 g7
  · right
    rw [h1]
    exact ⟨rfl, h2⟩

/-- the combined insertion `find_or_find_insert_slot` + `insert_in_slot_unchecked` -/
theorem insert_spec' {hf : Nat → Nat} {t : Tbl} (hinv : Inv hf t) (key : Nat) :
    (∃ t' o, t.insert key (hf key) = .ok (t', o) ∧ Inv hf t' ∧
      (∀ x, t'.Mem x ↔ (x = key ∨ t.Mem x)) ∧
      ((∃ s, o = .isNew s ∧ ¬ t.Mem key ∧ t'.get s = .occ (fromHash (hf key)) key) ∨
       (∃ s, o = .found s ∧ t.Mem key ∧ t'.get s = .occ (fromHash (hf key)) key))) ∨
    (t.insert key (hf key) = .error .capacity ∧ checkCapacity (nextCapacity (t.len + 1)) = false) := by
  unfold insert
  rcases findOrFindInsertSlot_spec hinv key with ⟨t1, r, h1, h2, h3, hc, h5, h6⟩ | ⟨h1, h2⟩
  · left
    rw [h1]
    rcases h6 with ⟨i, rfl, g⟩ | ⟨s, rfl, g1, g2, g3, g4⟩
    · simp only
      have hm : t.Mem key := (h3 key).1 ⟨i, _, g⟩
      refine ⟨t1, .found i, rfl, h2, ?_, .inr ⟨i, rfl, hm, g⟩⟩
      intro x
      rw [h3 x]
      constructor
      · intro h; exact .inr h
      · rintro (rfl | h)
        · exact hm
        · exact h
    · simp only
      obtain ⟨t', k1, k2, k3, k4⟩ := insertInSlot_spec h2 hc g1 g2 g3 g4 h5
      rw [k1]
      simp only
      have hnm : ¬ t.Mem key := fun h => g4 ((h3 key).2 h)
      refine ⟨t', .isNew s, rfl, k2, ?_, .inl ⟨s, rfl, hnm, ?_⟩⟩
      · intro x; rw [k4 x, h3 x]
      · -- the new element is in slot `s`
        unfold insertInSlot at k1
        have hget : ∀ (l f : Nat), (Tbl.mk (t1.set s (.occ (fromHash (hf key)) key)).slots l f).get s
            = .occ (fromHash (hf key)) key := by
          intro l f
          have := get_set t1 s s (.occ (fromHash (hf key)) key) g1
          simpa [get] using this
        split at k1
        · split at k1
          · cases k1
          · cases k1; exact hget _ _
        · cases k1; exact hget _ _
  · right
    rw [h1]
    exact ⟨rfl, h2⟩

end Tbl
end OxiddModel.HashTbl
