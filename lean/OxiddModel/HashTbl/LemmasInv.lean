import OxiddModel.HashTbl.LemmasBasic

/-!
The table invariant of C17 and the two generic preservation lemmas for the probe-path part:
*shrinking* (slots become `TOMBSTONE`/`FREE`; a slot may only become `FREE` if its successor is
`FREE` afterwards) and *filling* (an element is written at the end of a `FREE`-less probe path).
-/
namespace OxiddModel.HashTbl

theorem Slot.isFree_iff {s : Slot} : s.isFree = true ↔ s = .free := by
  cases s <;> simp [Slot.isFree]

theorem Slot.isFree_false_iff {s : Slot} : s.isFree = false ↔ s ≠ .free := by
  cases s <;> simp [Slot.isFree]

namespace Tbl

/-- `k` is stored in some slot -/
def Mem (t : Tbl) (k : Nat) : Prop := ∃ i st, t.get i = .occ st k

def countOcc (t : Tbl) : Nat := countOccL t.slots.toList
def countFree (t : Tbl) : Nat := countFreeL t.slots.toList

/-- probe-path invariant: every element sits on the probe path that starts at its home slot
(`status & mask`), and no slot strictly before it on that path is `FREE` -/
def ProbeOK (t : Tbl) : Prop :=
  ∀ i st x, t.get i = .occ st x →
    ∃ d, d < t.cap ∧ walk t.cap d (st % t.cap) = i ∧
      ∀ d', d' < d → (t.get (walk t.cap d' (st % t.cap))).isFree = false

/-- the stored status is `from_hash(hash(element))` -/
def StatusOK (hf : Nat → Nat) (t : Tbl) : Prop := ∀ i st k, t.get i = .occ st k → st = fromHash (hf k)

/-- no element is stored twice -/
def Uniq (t : Tbl) : Prop := ∀ i j st st' k, t.get i = .occ st k → t.get j = .occ st' k → i = j

/-- the invariant `tbl_inv` of DESIGN §5 C17 (`hf` is the hash function the callers use) -/
structure Inv (hf : Nat → Nat) (t : Tbl) : Prop where
  /-- the slot array is empty or has a power-of-two size between `MIN_CAP` and `2^31` -/
  capOK : t.cap = 0 ∨ IsCap t.cap
  /-- `len` is the number of occupied slots -/
  lenOK : t.len = t.countOcc
  /-- `free` never over-estimates the number of `FREE` slots -/
  freeLe : t.free ≤ t.countFree
  /-- at least 25 % of the slots are accounted as free -/
  freeGe : t.cap / 4 ≤ t.free
  probe : t.ProbeOK
  statusOK : t.StatusOK hf
  uniq : t.Uniq

/-! ### membership, `keys` -/

theorem mem_keysL_iff (l : List Slot) (k : Nat) :
    k ∈ keysL l ↔ ∃ (i st : Nat), l[i]? = some (Slot.occ st k) := by
  unfold keysL
  rw [List.mem_filterMap]
  constructor
  · rintro ⟨s, hs, hk⟩
    obtain ⟨i, hi⟩ := List.mem_iff_getElem?.1 hs
    cases s with
    | occ st k' => simp [Slot.key?] at hk; subst hk; exact ⟨i, st, hi⟩
    | free => simp [Slot.key?] at hk
    | tomb => simp [Slot.key?] at hk
  · rintro ⟨i, st, hi⟩
    exact ⟨.occ st k, List.mem_iff_getElem?.2 ⟨i, hi⟩, rfl⟩

theorem get_eq_occ_iff (t : Tbl) (i st k : Nat) :
    t.get i = .occ st k ↔ t.slots.toList[i]? = some (Slot.occ st k) := by
  rw [get_eq_list]
  cases h : t.slots.toList[i]? with
  | none => simp
  | some s => simp

theorem mem_keys_iff (t : Tbl) (k : Nat) : k ∈ t.keys ↔ t.Mem k := by
  rw [keys_eq, mem_keysL_iff]
  unfold Mem
  constructor
  · rintro ⟨i, st, h⟩; exact ⟨i, st, (get_eq_occ_iff t i st k).2 h⟩
  · rintro ⟨i, st, h⟩; exact ⟨i, st, (get_eq_occ_iff t i st k).1 h⟩

theorem nodup_keysL (l : List Slot)
    (h : ∀ (i j st st' k : Nat), l[i]? = some (Slot.occ st k) → l[j]? = some (Slot.occ st' k) → i = j) :
    (keysL l).Nodup := by
  induction l with
  | nil => simp [keysL]
  | cons s r ih =>
    have hr : ∀ (i j st st' k : Nat), r[i]? = some (Slot.occ st k) → r[j]? = some (Slot.occ st' k) → i = j := by
      intro i j st st' k hi hj
      have := h (i+1) (j+1) st st' k (by simpa using hi) (by simpa using hj)
      omega
    cases s with
    | free => rw [keysL_cons_free]; exact ih hr
    | tomb => rw [keysL_cons_tomb]; exact ih hr
    | occ st k =>
      rw [keysL_cons_occ, List.nodup_cons]
      refine ⟨?_, ih hr⟩
      intro hk
      obtain ⟨j, st', hj⟩ := (mem_keysL_iff r k).1 hk
      have := h 0 (j+1) st st' k (by simp) (by simpa using hj)
      omega

theorem nodup_keys {t : Tbl} (h : t.Uniq) : t.keys.Nodup := by
  rw [keys_eq]
  apply nodup_keysL
  intro i j st st' k hi hj
  exact h i j st st' k ((get_eq_occ_iff t i st k).2 hi) ((get_eq_occ_iff t j st' k).2 hj)

theorem countOcc_eq_length_keys (t : Tbl) : t.countOcc = t.keys.length :=
  countOccL_eq_length_keysL _

/-! ### counting under `set` -/

theorem countOcc_set (t : Tbl) (i : Nat) (s : Slot) (hi : i < t.cap) :
    (t.set i s).countOcc + (if (t.get i).isOcc then 1 else 0)
      = t.countOcc + (if s.isOcc then 1 else 0) := by
  unfold countOcc countOccL
  rw [toList_set, get_eq_list]
  exact countP_set' Slot.isOcc _ i s (by simpa [cap] using hi)

theorem countFree_set (t : Tbl) (i : Nat) (s : Slot) (hi : i < t.cap) :
    (t.set i s).countFree + (if (t.get i).isFree then 1 else 0)
      = t.countFree + (if s.isFree then 1 else 0) := by
  unfold countFree countFreeL
  rw [toList_set, get_eq_list]
  exact countP_set' Slot.isFree _ i s (by simpa [cap] using hi)

/-- a `FREE` slot exists whenever the `FREE` count is positive -/
theorem exists_free_of_countFree_pos {t : Tbl} (h : 0 < t.countFree) :
    ∃ j, j < t.cap ∧ t.get j = .free := by
  obtain ⟨i, hi, hp⟩ := exists_of_countP_pos (p := Slot.isFree) (l := t.slots.toList) h
  refine ⟨i, by simpa [cap] using hi, ?_⟩
  rw [get_eq_list]; exact Slot.isFree_iff.1 hp

theorem countOcc_eq_zero_of_no_occ {t : Tbl} (h : ∀ i, (t.get i).isOcc = false) : t.countOcc = 0 := by
  unfold countOcc countOccL
  apply countP_eq_zero_of_get
  intro i _
  rw [← get_eq_list]; exact h i

theorem no_occ_of_countOcc_eq_zero {t : Tbl} (h : t.countOcc = 0) : ∀ i, (t.get i).isOcc = false := by
  intro i
  cases hg : t.get i with
  | occ st k =>
    exfalso
    have hm : k ∈ t.keys := (mem_keys_iff t k).2 ⟨i, st, hg⟩
    rw [countOcc_eq_length_keys] at h
    have := List.length_pos_of_mem hm
    omega
  | free => rfl
  | tomb => rfl

/-! ### generic preservation of the probe-path invariant -/

/-- *shrinking*: occupied slots of `t'` are unchanged slots of `t`, and a slot is `FREE` in `t'`
only if it was `FREE` before or its successor is `FREE` in `t'` -/
theorem probeOK_shrink {t t' : Tbl} (hc : t'.cap = t.cap)
    (h2 : ∀ j st x, t'.get j = .occ st x → t.get j = .occ st x)
    (h3 : ∀ j, j < t.cap → t'.get j = .free → t.get j = .free ∨ t'.get (nxt t.cap j) = .free)
    (hp : t.ProbeOK) : t'.ProbeOK := by
  intro i st x hi
  obtain ⟨d, hd, hw, hpath⟩ := hp i st x (h2 i st x hi)
  rw [hc]
  refine ⟨d, hd, hw, ?_⟩
  have hhome : st % t.cap < t.cap := Nat.mod_lt _ (by omega)
  have key : ∀ e d', d' + e + 1 = d → (t'.get (walk t.cap d' (st % t.cap))).isFree = false := by
    intro e
    induction e with
    | zero =>
      intro d' hd'
      rw [Slot.isFree_false_iff]
      intro hf
      rcases h3 _ (walk_lt hhome d') hf with h | h
      · have := hpath d' (by omega)
        rw [h] at this; cases this
      · rw [← walk_succ, show d' + 1 = d by omega, hw, hi] at h
        cases h
    | succ e ih =>
      intro d' hd'
      rw [Slot.isFree_false_iff]
      intro hf
      rcases h3 _ (walk_lt hhome d') hf with h | h
      · have := hpath d' (by omega)
        rw [h] at this; cases this
      · rw [← walk_succ] at h
        have := ih (d'+1) (by omega)
        rw [h] at this; cases this
  intro d' hd'
  exact key (d - d' - 1) d' (by omega)

/-- *filling*: an element is written into slot `s`, which ends a `FREE`-less probe path from the
element's home slot -/
theorem probeOK_fill {t : Tbl} {s st k : Nat} (hs : s < t.cap)
    (hpath : ∃ d, d < t.cap ∧ walk t.cap d (st % t.cap) = s ∧
      ∀ d', d' < d → (t.get (walk t.cap d' (st % t.cap))).isFree = false)
    (hp : t.ProbeOK) : (t.set s (.occ st k)).ProbeOK := by
  intro i st' x hi
  rw [cap_set]
  rw [get_set t s i _ hs] at hi
  have nonfree : ∀ j, (t.get j).isFree = false → ((t.set s (.occ st k)).get j).isFree = false := by
    intro j hj
    rw [get_set t s j _ hs]
    split
    · rfl
    · exact hj
  by_cases his : i = s
  · simp only [his, if_true] at hi
    cases hi
    obtain ⟨d, hd, hw, hfree⟩ := hpath
    exact ⟨d, hd, by rw [hw, his], fun d' hd' => nonfree _ (hfree d' hd')⟩
  · simp only [his, if_false] at hi
    obtain ⟨d, hd, hw, hfree⟩ := hp i st' x hi
    exact ⟨d, hd, hw, fun d' hd' => nonfree _ (hfree d' hd')⟩

/-- the search argument shared by `find` and `find_or_find_insert_slot`: if the probe path of
`key` reaches a `FREE` slot without meeting `key`, then `key` is not in the table -/
theorem not_mem_of_path {hf : Nat → Nat} {t : Tbl} (hp : t.ProbeOK) (hst : t.StatusOK hf)
    {key e : Nat}
    (he : t.get (walk t.cap e (fromHash (hf key) % t.cap)) = .free)
    (hb : ∀ d', d' < e → t.get (walk t.cap d' (fromHash (hf key) % t.cap)) ≠ .occ (fromHash (hf key)) key) :
    ¬ t.Mem key := by
  rintro ⟨i, st, hi⟩
  have hs := hst i st key hi
  subst hs
  obtain ⟨d, _, hw, hpath⟩ := hp i _ key hi
  by_cases h1 : d < e
  · exact hb d h1 (by rw [hw]; exact hi)
  · by_cases h2 : d = e
    · subst h2; rw [hw, hi] at he; cases he
    · have := hpath e (by omega)
      rw [he] at this; cases this

end Tbl
end OxiddModel.HashTbl
