import OxiddModel.HashTbl.LemmasProbe

/-!
`find`, `remove_at_slot_unchecked`/`remove_entry` and `insert_in_slot_unchecked` preserve the
invariant and refine the abstract set operations.
-/
namespace OxiddModel.HashTbl
namespace Tbl

theorem countOcc_le_cap (t : Tbl) : t.countOcc ≤ t.cap := by
  have := count_partition t.slots.toList
  unfold countOcc cap
  simp only [Array.length_toList] at this
  omega

theorem counts_le_cap (t : Tbl) : t.countFree + t.countOcc ≤ t.cap := by
  have := count_partition t.slots.toList
  unfold countOcc countFree cap
  simp only [Array.length_toList] at this
  omega

/-- everything in the invariant except `len`/`free` depends on the slot array only -/
theorem Inv.of_slots {hf : Nat → Nat} {t' u : Tbl} (hs : t'.slots = u.slots)
    (capOK : u.cap = 0 ∨ IsCap u.cap) (lenOK : t'.len = u.countOcc) (freeLe : t'.free ≤ u.countFree)
    (freeGe : u.cap / 4 ≤ t'.free) (probe : u.ProbeOK) (st : u.StatusOK hf) (uq : u.Uniq) :
    Inv hf t' := by
  cases t' with
  | mk s l f =>
    cases u with
    | mk s2 l2 f2 =>
      simp only at hs; subst hs
      exact ⟨capOK, lenOK, freeLe, freeGe, probe, st, uq⟩

theorem mem_of_slots {t' u : Tbl} (hs : t'.slots = u.slots) (x : Nat) : t'.Mem x ↔ u.Mem x := by
  cases t' with
  | mk s l f =>
    cases u with
    | mk s2 l2 f2 =>
      simp only at hs; subst hs
      exact Iff.rfl

theorem cap_of_slots {t' u : Tbl} (hs : t'.slots = u.slots) : t'.cap = u.cap := by
  unfold cap; rw [hs]

theorem Inv.isCap_of_len {hf : Nat → Nat} {t : Tbl} (h : Inv hf t) (hl : t.len ≠ 0) : IsCap t.cap := by
  rcases h.capOK with h0 | hc
  · have := countOcc_le_cap t
    have := h.lenOK
    omega
  · exact hc

theorem Inv.exists_free {hf : Nat → Nat} {t : Tbl} (h : Inv hf t) (hc : IsCap t.cap) :
    1 ≤ t.free ∧ ∃ j, j < t.cap ∧ t.get j = .free := by
  have h16 := hc.ge16
  have h1 := h.freeGe
  have h2 := h.freeLe
  have : 1 ≤ t.free := by omega
  exact ⟨this, exists_free_of_countFree_pos (by omega)⟩

theorem not_mem_of_len_zero {hf : Nat → Nat} {t : Tbl} (h : Inv hf t) (hl : t.len = 0) (k : Nat) :
    ¬ t.Mem k := by
  rintro ⟨i, st, hi⟩
  have := no_occ_of_countOcc_eq_zero (t := t) (by rw [← h.lenOK]; exact hl) i
  rw [hi] at this; cases this

/-- `find` terminates and returns a slot holding `key` iff `key` is in the table -/
theorem find_spec' {hf : Nat → Nat} {t : Tbl} (hinv : Inv hf t) (key : Nat) :
    (∃ i, t.find (hf key) key = .ok (some i) ∧ t.get i = .occ (fromHash (hf key)) key) ∨
    (t.find (hf key) key = .ok none ∧ ¬ t.Mem key) := by
  unfold find
  by_cases hl : t.len = 0
  · simp only [hl, if_true]
    exact .inr ⟨trivial, not_mem_of_len_zero hinv hl key⟩
  · have hc := hinv.isCap_of_len hl
    obtain ⟨hf1, hfree⟩ := hinv.exists_free hc
    have hcap0 : t.cap ≠ 0 := by have := hc.pos; omega
    have hfree0 : t.free ≠ 0 := by omega
    simp only [hl, if_false, hfree0, hcap0]
    have hhome : hf key % t.cap < t.cap := Nat.mod_lt _ hc.pos
    rw [and_mask_eq_mod hc]
    have hw : walk t.cap 0 (hf key % t.cap) = hf key % t.cap := rfl
    rcases findLoop_spec t (fromHash (hf key)) key (hf key % t.cap) hc hhome hfree t.cap 0 (by omega)
      (by intro d' hd'; omega) with ⟨i, h1, h2⟩ | ⟨h1, e, _, h3, h4⟩
    · rw [hw] at h1
      exact .inl ⟨i, by rw [h1], h2⟩
    · rw [hw] at h1
      refine .inr ⟨by rw [h1], ?_⟩
      rw [← fromHash_mod hc] at h3 h4
      exact not_mem_of_path hinv.probe hinv.statusOK h3 h4

/-- termination of `find` needs no more than a power-of-two size and one `FREE` slot
(for *any* hash value and key, whether or not they belong together) -/
theorem find_terminates {t : Tbl} (hc : IsCap t.cap) (hfree : ∃ j, j < t.cap ∧ t.get j = .free)
    (h key : Nat) : t.find h key ≠ .error .diverge := by
  unfold find
  split
  · intro h; cases h
  · split
    · intro h; cases h
    · split
      · intro h; cases h
      · rw [and_mask_eq_mod hc]
        have hhome : h % t.cap < t.cap := Nat.mod_lt _ hc.pos
        have hw : walk t.cap 0 (h % t.cap) = h % t.cap := rfl
        rcases findLoop_spec t (fromHash h) key (h % t.cap) hc hhome hfree t.cap 0 (by omega)
          (by intro d' hd'; omega) with ⟨i, h1, _⟩ | ⟨h1, _⟩
        · rw [hw] at h1; rw [h1]; intro h; cases h
        · rw [hw] at h1; rw [h1]; intro h; cases h

/-! ### removal -/

theorem mem_set_nonocc {t : Tbl} {i st key : Nat} {s : Slot} (hu : t.Uniq) (hi : t.get i = .occ st key)
    (hs : s.isOcc = false) (x : Nat) : (t.set i s).Mem x ↔ (t.Mem x ∧ x ≠ key) := by
  have hic := lt_cap_of_get_occ hi
  constructor
  · rintro ⟨j, st', hj⟩
    rw [get_set t i j s hic] at hj
    by_cases hji : j = i
    · simp only [hji, if_true] at hj; rw [hj] at hs; cases hs
    · simp only [hji, if_false] at hj
      refine ⟨⟨j, st', hj⟩, ?_⟩
      intro hx; subst hx
      exact hji (hu j i st' st x hj hi)
  · rintro ⟨⟨j, st', hj⟩, hne⟩
    refine ⟨j, st', ?_⟩
    rw [get_set t i j s hic]
    by_cases hji : j = i
    · subst hji; rw [hi] at hj; cases hj; exact (hne rfl).elim
    · simp only [hji, if_false]; exact hj

theorem removeAtSlot_spec {hf : Nat → Nat} {t : Tbl} (hinv : Inv hf t) {i st key : Nat}
    (hi : t.get i = .occ st key) :
    ∃ t', t.removeAtSlot i = .ok t' ∧ Inv hf t' ∧ t'.cap = t.cap ∧
      ∀ x, t'.Mem x ↔ (t.Mem x ∧ x ≠ key) := by
  have hic := lt_cap_of_get_occ hi
  have hcap : IsCap t.cap := by
    rcases hinv.capOK with h | h
    · omega
    · exact h
  have h16 := hcap.ge16
  -- generic facts for both replacement slots
  have core : ∀ (s : Slot), s.isOcc = false →
      (s = .free → t.get (nxt t.cap i) = .free) →
      (t.set i s).ProbeOK ∧ (t.set i s).StatusOK hf ∧ (t.set i s).Uniq := by
    intro s hs hfree
    have h2 : ∀ j st' x, (t.set i s).get j = .occ st' x → t.get j = .occ st' x := by
      intro j st' x hj
      rw [get_set t i j s hic] at hj
      by_cases hji : j = i
      · simp only [hji, if_true] at hj; rw [hj] at hs; cases hs
      · simpa [hji] using hj
    refine ⟨probeOK_shrink (cap_set t i s) h2 ?_ hinv.probe, ?_, ?_⟩
    · intro j _ hj
      rw [get_set t i j s hic] at hj
      by_cases hji : j = i
      · simp only [hji, if_true] at hj
        right
        rw [hji, get_set t i _ s hic]
        have : nxt t.cap i ≠ i := nxt_ne (by omega)
        simp only [this, if_false]
        exact hfree hj
      · left; simpa [hji] using hj
    · intro j st' x hj; exact hinv.statusOK j st' x (h2 j st' x hj)
    · intro j j' st' st'' x hj hj'; exact hinv.uniq j j' st' st'' x (h2 j st' x hj) (h2 j' st'' x hj')
  have hocc1 : 1 ≤ t.countOcc := by
    have := countOcc_set t i .free hic
    rw [hi] at this
    simp [Slot.isOcc] at this
    omega
  have hlen : t.len ≠ 0 := by have := hinv.lenOK; omega
  unfold removeAtSlot
  simp only [hlen, if_false]
  rw [nextIdx_eq_nxt hcap hic]
  by_cases hn : (t.get (nxt t.cap i)).isFree = true
  · simp only [hn, if_true]
    obtain ⟨hp, hs, hu⟩ := core .free rfl (fun _ => Slot.isFree_iff.1 hn)
    refine ⟨_, rfl, ?_, cap_set t i .free, fun x => (mem_of_slots (u := t.set i .free) rfl x).trans
      (mem_set_nonocc hinv.uniq hi rfl x)⟩
    have c1 := countOcc_set t i .free hic
    have c2 := countFree_set t i .free hic
    rw [hi] at c1 c2
    simp [Slot.isOcc, Slot.isFree] at c1 c2
    have hc' := cap_set t i .free
    exact Inv.of_slots (u := t.set i .free) rfl (by right; rw [hc']; exact hcap)
      (by show t.len - 1 = (t.set i .free).countOcc; have := hinv.lenOK; omega)
      (by show t.free + 1 ≤ (t.set i .free).countFree; have := hinv.freeLe; omega)
      (by show (t.set i .free).cap / 4 ≤ t.free + 1; have := hinv.freeGe; omega)
      hp hs hu
  · simp only [hn]
    obtain ⟨hp, hs, hu⟩ := core .tomb rfl (fun h => by cases h)
    refine ⟨_, rfl, ?_, cap_set t i .tomb, fun x => (mem_of_slots (u := t.set i .tomb) rfl x).trans
      (mem_set_nonocc hinv.uniq hi rfl x)⟩
    have c1 := countOcc_set t i .tomb hic
    have c2 := countFree_set t i .tomb hic
    rw [hi] at c1 c2
    simp [Slot.isOcc, Slot.isFree] at c1 c2
    have hc' := cap_set t i .tomb
    exact Inv.of_slots (u := t.set i .tomb) rfl (by right; rw [hc']; exact hcap)
      (by show t.len - 1 = (t.set i .tomb).countOcc; have := hinv.lenOK; omega)
      (by show t.free ≤ (t.set i .tomb).countFree; have := hinv.freeLe; omega)
      (by show (t.set i .tomb).cap / 4 ≤ t.free; have := hinv.freeGe; omega)
      hp hs hu

/-- `remove_entry` -/
theorem remove_spec' {hf : Nat → Nat} {t : Tbl} (hinv : Inv hf t) (key : Nat) :
    ∃ t' b, t.remove key (hf key) = .ok (t', b) ∧ Inv hf t' ∧ t'.cap = t.cap ∧
      (b = true ↔ t.Mem key) ∧ ∀ x, t'.Mem x ↔ (t.Mem x ∧ x ≠ key) := by
  unfold remove
  rcases find_spec' hinv key with ⟨i, h1, h2⟩ | ⟨h1, h2⟩
  · rw [h1]
    obtain ⟨t', h3, h4, h5, h6⟩ := removeAtSlot_spec hinv h2
    simp only [h3]
    exact ⟨t', true, rfl, h4, h5, by simp; exact ⟨i, _, h2⟩, h6⟩
  · rw [h1]
    refine ⟨t, false, rfl, hinv, rfl, by simp; exact h2, ?_⟩
    intro x
    constructor
    · intro hx; exact ⟨hx, fun h => h2 (h ▸ hx)⟩
    · intro hx; exact hx.1

/-! ### insertion into a reported slot -/

/-- writing an absent element at the end of its `FREE`-less probe path -/
theorem fill_core {hf : Nat → Nat} {t : Tbl} (hp0 : t.ProbeOK) (hst0 : t.StatusOK hf) (hu0 : t.Uniq)
    {s key : Nat} (hcap : IsCap t.cap) (hs : s < t.cap) (hnonocc : (t.get s).isOcc = false)
    (hpath : ∃ ds, ds < t.cap ∧ walk t.cap ds (hf key % t.cap) = s ∧
      ∀ d', d' < ds → (t.get (walk t.cap d' (hf key % t.cap))).isFree = false)
    (habs : ¬ t.Mem key) :
    (t.set s (.occ (fromHash (hf key)) key)).ProbeOK ∧
    (t.set s (.occ (fromHash (hf key)) key)).StatusOK hf ∧
    (t.set s (.occ (fromHash (hf key)) key)).Uniq ∧
    ∀ x, (t.set s (.occ (fromHash (hf key)) key)).Mem x ↔ (x = key ∨ t.Mem x) := by
  refine ⟨?_, ?_, ?_, ?_⟩
  · refine probeOK_fill (st := fromHash (hf key)) (k := key) hs ?_ hp0
    rw [fromHash_mod hcap]; exact hpath
  · intro j st' x hj
    rw [get_set t s j _ hs] at hj
    by_cases hjs : j = s
    · simp only [hjs, if_true] at hj; cases hj; rfl
    · simp only [hjs, if_false] at hj; exact hst0 j st' x hj
  · intro j j' st' st'' x hj hj'
    rw [get_set t s j _ hs] at hj
    rw [get_set t s j' _ hs] at hj'
    by_cases hjs : j = s <;> by_cases hjs' : j' = s
    · omega
    · simp only [hjs, if_true] at hj; simp only [hjs', if_false] at hj'
      cases hj; exact (habs ⟨j', st'', hj'⟩).elim
    · simp only [hjs', if_true] at hj'; simp only [hjs, if_false] at hj
      cases hj'; exact (habs ⟨j, st', hj⟩).elim
    · simp only [hjs, if_false] at hj; simp only [hjs', if_false] at hj'
      exact hu0 j j' st' st'' x hj hj'
  · intro x
    constructor
    · rintro ⟨j, st', hj⟩
      rw [get_set t s j _ hs] at hj
      by_cases hjs : j = s
      · simp only [hjs, if_true] at hj; cases hj; exact .inl rfl
      · simp only [hjs, if_false] at hj; exact .inr ⟨j, st', hj⟩
    · rintro (rfl | ⟨j, st', hj⟩)
      · exact ⟨s, fromHash (hf x), by rw [get_set t s s _ hs]; simp⟩
      · refine ⟨j, st', ?_⟩
        rw [get_set t s j _ hs]
        by_cases hjs : j = s
        · subst hjs; rw [hj] at hnonocc; cases hnonocc
        · simp only [hjs, if_false]; exact hj

theorem insertInSlot_spec {hf : Nat → Nat} {t : Tbl} (hinv : Inv hf t) {s key : Nat}
    (hcap : IsCap t.cap) (hs : s < t.cap) (hslot : t.get s = .free ∨ t.get s = .tomb)
    (hpath : ∃ ds, ds < t.cap ∧ walk t.cap ds (hf key % t.cap) = s ∧
      ∀ d', d' < ds → (t.get (walk t.cap d' (hf key % t.cap))).isFree = false)
    (habs : ¬ t.Mem key) (hfree : t.cap / 4 + 1 ≤ t.free) :
    ∃ t', t.insertInSlot (hf key) s key = .ok t' ∧ Inv hf t' ∧ t'.cap = t.cap ∧
      ∀ x, t'.Mem x ↔ (x = key ∨ t.Mem x) := by
  have hnonocc : (t.get s).isOcc = false := by rcases hslot with h | h <;> rw [h] <;> rfl
  obtain ⟨hp, hst, hu, hmem⟩ := fill_core hinv.probe hinv.statusOK hinv.uniq hcap hs hnonocc hpath habs
  have c1 := countOcc_set t s (.occ (fromHash (hf key)) key) hs
  have c2 := countFree_set t s (.occ (fromHash (hf key)) key) hs
  rw [hnonocc] at c1
  simp [Slot.isOcc, Slot.isFree] at c1 c2
  unfold insertInSlot
  rcases hslot with hfr | htb
  · have hne : t.get s ≠ .tomb := by rw [hfr]; intro h; cases h
    have hf0 : t.free ≠ 0 := by omega
    simp only [hne, ne_eq, not_false_eq_true, if_true, hf0, if_false]
    refine ⟨_, rfl, ?_, cap_set t s _, fun x => (mem_of_slots (u := t.set s _) rfl x).trans (hmem x)⟩
    rw [hfr] at c2
    simp at c2
    have hc' := cap_set t s (.occ (fromHash (hf key)) key)
    exact Inv.of_slots (u := t.set s (.occ (fromHash (hf key)) key)) rfl (by right; rw [hc']; exact hcap)
      (by show t.len + 1 = (t.set s _).countOcc; have := hinv.lenOK; omega)
      (by show t.free - 1 ≤ (t.set s _).countFree; have := hinv.freeLe; omega)
      (by show (t.set s _).cap / 4 ≤ t.free - 1; omega)
      hp hst hu
  · simp only [htb, ne_eq, not_true_eq_false, if_false]
    refine ⟨_, rfl, ?_, cap_set t s _, fun x => (mem_of_slots (u := t.set s _) rfl x).trans (hmem x)⟩
    rw [htb] at c2
    simp at c2
    have hc' := cap_set t s (.occ (fromHash (hf key)) key)
    exact Inv.of_slots (u := t.set s (.occ (fromHash (hf key)) key)) rfl (by right; rw [hc']; exact hcap)
      (by show t.len + 1 = (t.set s _).countOcc; have := hinv.lenOK; omega)
      (by show t.free ≤ (t.set s _).countFree; have := hinv.freeLe; omega)
      (by show (t.set s _).cap / 4 ≤ t.free; omega)
      hp hst hu

end Tbl
end OxiddModel.HashTbl
