import OxiddModel.HashTbl.LemmasInv

/-!
The three probe loops (`find`, `find_or_find_insert_slot`, the placement loop of
`reserve_rehash`): with a `FREE` slot in the table the fuel `= slots` is never exhausted, and the
result is characterised by the probe path.
-/
namespace OxiddModel.HashTbl
namespace Tbl

/-- all `cap` positions of a walk visited and none `FREE` contradicts the existence of a `FREE` slot -/
theorem no_free_contra {t : Tbl} {home : Nat} (hhome : home < t.cap)
    (hfree : ∃ j, j < t.cap ∧ t.get j = .free)
    (hprev : ∀ d', d' < t.cap → (t.get (walk t.cap d' home)).isFree = false) : False := by
  obtain ⟨j, hj, hjf⟩ := hfree
  obtain ⟨k', hk', hw⟩ := walk_surj hhome hj
  have := hprev k' hk'
  rw [hw, hjf] at this; cases this

theorem findLoop_spec (t : Tbl) (hs key home : Nat) (hcap : IsCap t.cap) (hhome : home < t.cap)
    (hfree : ∃ j, j < t.cap ∧ t.get j = .free) :
    ∀ fuel d, d + fuel = t.cap →
      (∀ d', d' < d → (t.get (walk t.cap d' home)).isFree = false ∧
          t.get (walk t.cap d' home) ≠ .occ hs key) →
      (∃ i, findLoop t hs key fuel (walk t.cap d home) = .found i ∧ t.get i = .occ hs key) ∨
      (findLoop t hs key fuel (walk t.cap d home) = .absent ∧
        ∃ e, e < t.cap ∧ t.get (walk t.cap e home) = .free ∧
          ∀ d', d' < e → t.get (walk t.cap d' home) ≠ .occ hs key) := by
  intro fuel
  induction fuel with
  | zero =>
    intro d hd hprev
    exact (no_free_contra hhome hfree (fun d' hd' => (hprev d' (by omega)).1)).elim
  | succ fuel ih =>
    intro d hd hprev
    have hlt : walk t.cap d home < t.cap := walk_lt hhome d
    have hnext : nextIdx t.cap (walk t.cap d home) = walk t.cap (d+1) home := by
      rw [nextIdx_eq_nxt hcap hlt, walk_succ]
    have step : ∀ (hne : t.get (walk t.cap d home) ≠ .occ hs key)
        (hnf : (t.get (walk t.cap d home)).isFree = false),
        ∀ d', d' < d + 1 → (t.get (walk t.cap d' home)).isFree = false ∧
          t.get (walk t.cap d' home) ≠ .occ hs key := by
      intro hne hnf d' hd'
      by_cases h : d' < d
      · exact hprev d' h
      · have : d' = d := by omega
        subst this; exact ⟨hnf, hne⟩
    simp only [findLoop]
    cases hslot : t.get (walk t.cap d home) with
    | occ st k =>
      simp only
      by_cases h1 : st = hs
      · by_cases h2 : k = key
        · subst h1 h2
          simp only [if_true]
          exact .inl ⟨_, rfl, hslot⟩
        · simp only [h1, if_true, h2, if_false]
          rw [hnext]
          exact ih (d+1) (by omega) (step (by rw [hslot]; intro h; cases h; exact h2 rfl) (by rw [hslot]; rfl))
      · simp only [h1, if_false]
        rw [hnext]
        exact ih (d+1) (by omega) (step (by rw [hslot]; intro h; cases h; exact h1 rfl) (by rw [hslot]; rfl))
    | free =>
      simp only
      exact .inr ⟨trivial, d, by omega, hslot, fun d' hd' => (hprev d' hd').2⟩
    | tomb =>
      simp only
      rw [hnext]
      exact ih (d+1) (by omega) (step (by rw [hslot]; intro h; cases h) (by rw [hslot]; rfl))

theorem fofLoop_spec (t : Tbl) (hs key home : Nat) (hcap : IsCap t.cap) (hhome : home < t.cap)
    (hfree : ∃ j, j < t.cap ∧ t.get j = .free) :
    ∀ fuel d ft, d + fuel = t.cap →
      (∀ d', d' < d → (t.get (walk t.cap d' home)).isFree = false ∧
          t.get (walk t.cap d' home) ≠ .occ hs key) →
      (∀ s, ft = some s → ∃ ds, ds < d ∧ walk t.cap ds home = s ∧ t.get s = .tomb) →
      (∃ i, fofLoop t hs key fuel (walk t.cap d home) ft = .found i ∧ t.get i = .occ hs key) ∨
      (∃ s, fofLoop t hs key fuel (walk t.cap d home) ft = .vacant s ∧ s < t.cap ∧
        (t.get s = .free ∨ t.get s = .tomb) ∧
        (∃ ds, ds < t.cap ∧ walk t.cap ds home = s ∧
          ∀ d', d' < ds → (t.get (walk t.cap d' home)).isFree = false) ∧
        ∃ e, e < t.cap ∧ t.get (walk t.cap e home) = .free ∧
          ∀ d', d' < e → t.get (walk t.cap d' home) ≠ .occ hs key) := by
  intro fuel
  induction fuel with
  | zero =>
    intro d ft hd hprev _
    exact (no_free_contra hhome hfree (fun d' hd' => (hprev d' (by omega)).1)).elim
  | succ fuel ih =>
    intro d ft hd hprev hft
    have hlt : walk t.cap d home < t.cap := walk_lt hhome d
    have hnext : nextIdx t.cap (walk t.cap d home) = walk t.cap (d+1) home := by
      rw [nextIdx_eq_nxt hcap hlt, walk_succ]
    have step : ∀ (hne : t.get (walk t.cap d home) ≠ .occ hs key)
        (hnf : (t.get (walk t.cap d home)).isFree = false),
        ∀ d', d' < d + 1 → (t.get (walk t.cap d' home)).isFree = false ∧
          t.get (walk t.cap d' home) ≠ .occ hs key := by
      intro hne hnf d' hd'
      by_cases h : d' < d
      · exact hprev d' h
      · have : d' = d := by omega
        subst this; exact ⟨hnf, hne⟩
    have hft' : ∀ s, ft = some s → ∃ ds, ds < d + 1 ∧ walk t.cap ds home = s ∧ t.get s = .tomb := by
      intro s hs'
      obtain ⟨ds, h1, h2, h3⟩ := hft s hs'
      exact ⟨ds, by omega, h2, h3⟩
    simp only [fofLoop]
    cases hslot : t.get (walk t.cap d home) with
    | occ st k =>
      simp only
      by_cases h1 : st = hs
      · by_cases h2 : k = key
        · subst h1 h2
          simp only [if_true]
          exact .inl ⟨_, rfl, hslot⟩
        · simp only [h1, if_true, h2, if_false]
          rw [hnext]
          exact ih (d+1) ft (by omega)
            (step (by rw [hslot]; intro h; cases h; exact h2 rfl) (by rw [hslot]; rfl)) hft'
      · simp only [h1, if_false]
        rw [hnext]
        exact ih (d+1) ft (by omega)
          (step (by rw [hslot]; intro h; cases h; exact h1 rfl) (by rw [hslot]; rfl)) hft'
    | free =>
      simp only
      refine .inr ⟨_, rfl, ?_⟩
      have hend : ∃ e, e < t.cap ∧ t.get (walk t.cap e home) = .free ∧
          ∀ d', d' < e → t.get (walk t.cap d' home) ≠ .occ hs key :=
        ⟨d, by omega, hslot, fun d' hd' => (hprev d' hd').2⟩
      cases ft with
      | none =>
        simp only [Option.getD_none]
        exact ⟨hlt, .inl hslot, ⟨d, by omega, rfl, fun d' hd' => (hprev d' hd').1⟩, hend⟩
      | some s =>
        simp only [Option.getD_some]
        obtain ⟨ds, h1, h2, h3⟩ := hft s rfl
        exact ⟨lt_cap_of_get_tomb h3, .inr h3,
          ⟨ds, by omega, h2, fun d' hd' => (hprev d' (by omega)).1⟩, hend⟩
    | tomb =>
      simp only
      rw [hnext]
      refine ih (d+1) _ (by omega) (step (by rw [hslot]; intro h; cases h) (by rw [hslot]; rfl)) ?_
      intro s hs'
      cases ft with
      | none =>
        simp only [Option.isNone_none, if_true, Option.some.injEq] at hs'
        subst hs'
        exact ⟨d, by omega, rfl, hslot⟩
      | some s0 =>
        simp only [Option.isNone_some] at hs'
        exact hft' s (by simpa using hs')

/-- placement loop of `reserve_rehash` on the array of a table -/
theorem placeLoop_spec (t : Tbl) (home : Nat) (hcap : IsCap t.cap) (hhome : home < t.cap)
    (hfree : ∃ j, j < t.cap ∧ t.get j = .free) :
    ∀ fuel d, d + fuel = t.cap →
      (∀ d', d' < d → (t.get (walk t.cap d' home)).isFree = false) →
      ∃ s, placeLoop t.slots fuel (walk t.cap d home) = some s ∧ s < t.cap ∧ t.get s = .free ∧
        ∃ ds, ds < t.cap ∧ walk t.cap ds home = s ∧
          ∀ d', d' < ds → (t.get (walk t.cap d' home)).isFree = false := by
  intro fuel
  induction fuel with
  | zero =>
    intro d hd hprev
    exact (no_free_contra hhome hfree (fun d' hd' => hprev d' (by omega))).elim
  | succ fuel ih =>
    intro d hd hprev
    have hlt : walk t.cap d home < t.cap := walk_lt hhome d
    have hnext : nextIdx t.slots.size (walk t.cap d home) = walk t.cap (d+1) home := by
      show nextIdx t.cap _ = _
      rw [nextIdx_eq_nxt hcap hlt, walk_succ]
    have step : ∀ (hnf : (t.get (walk t.cap d home)).isFree = false),
        ∀ d', d' < d + 1 → (t.get (walk t.cap d' home)).isFree = false := by
      intro hnf d' hd'
      by_cases h : d' < d
      · exact hprev d' h
      · have : d' = d := by omega
        subst this; exact hnf
    simp only [placeLoop]
    have hget : (t.slots[walk t.cap d home]?).getD .free = t.get (walk t.cap d home) := rfl
    rw [hget]
    cases hslot : t.get (walk t.cap d home) with
    | free =>
      simp only
      exact ⟨_, rfl, hlt, hslot, d, by omega, rfl, hprev⟩
    | occ st k =>
      simp only
      rw [hnext]
      exact ih (d+1) (by omega) (step (by rw [hslot]; rfl))
    | tomb =>
      simp only
      rw [hnext]
      exact ih (d+1) (by omega) (step (by rw [hslot]; rfl))

end Tbl
end OxiddModel.HashTbl
