import OxiddModel.HashTbl.LemmasOps

/-!
`reserve_rehash` and `reserve`: re-inserting every element into a fresh all-`FREE` array
re-establishes the invariant with an exact `free` count and keeps exactly the same elements.
-/
namespace OxiddModel.HashTbl
namespace Tbl

/-- an array seen as a table (only the slots matter) -/
def ofArr (a : Array Slot) : Tbl := { slots := a, len := 0, free := 0 }

/-- invariant of the array under construction in `reserve_rehash` -/
structure RInv (c : Nat) (hf : Nat → Nat) (a : Array Slot) : Prop where
  size : a.size = c
  noTomb : ∀ i, (ofArr a).get i ≠ .tomb
  probe : (ofArr a).ProbeOK
  statusOK : (ofArr a).StatusOK hf
  uniq : (ofArr a).Uniq

theorem countFree_of_noTomb {t : Tbl} (h : ∀ i, t.get i ≠ .tomb) : t.countFree + t.countOcc = t.cap := by
  have hp := count_partition t.slots.toList
  have : countTombL t.slots.toList = 0 := by
    apply countP_eq_zero_of_get
    intro i _
    rw [← get_eq_list]
    have := h i
    cases hg : t.get i <;> simp_all [Slot.isTomb]
  unfold countFree countOcc cap
  simp only [Array.length_toList] at hp
  omega

theorem rehashStep_occ {c : Nat} {hf : Nat → Nat} {a : Array Slot} {st k : Nat} (hc : IsCap c)
    (hr : RInv c hf a) (hst : st = fromHash (hf k)) (hnew : ¬ (ofArr a).Mem k)
    (hroom : (ofArr a).countOcc < c) :
    ∃ a', rehashStep (.ok a) (.occ st k) = .ok a' ∧ RInv c hf a' ∧
      (∀ x, (ofArr a').Mem x ↔ (x = k ∨ (ofArr a).Mem x)) ∧
      (ofArr a').countOcc = (ofArr a).countOcc + 1 := by
  have hcap : (ofArr a).cap = c := hr.size
  have hcap' : IsCap (ofArr a).cap := by rw [hcap]; exact hc
  have hfree : ∃ j, j < (ofArr a).cap ∧ (ofArr a).get j = .free := by
    apply exists_free_of_countFree_pos
    have := countFree_of_noTomb hr.noTomb
    omega
  have hhome : st % (ofArr a).cap < (ofArr a).cap := Nat.mod_lt _ hcap'.pos
  obtain ⟨s, h1, h2, h3, h4⟩ := placeLoop_spec (ofArr a) (st % (ofArr a).cap) hcap' hhome hfree
    (ofArr a).cap 0 (by omega) (by intro d' hd'; omega)
  have hw : walk (ofArr a).cap 0 (st % (ofArr a).cap) = st % (ofArr a).cap := rfl
  rw [hw] at h1
  have hmask : st &&& (a.size - 1) = st % (ofArr a).cap := and_mask_eq_mod (c := (ofArr a).cap) hcap' st
  have hpl : placeLoop a a.size (st &&& (a.size - 1)) = some s := by rw [hmask]; exact h1
  have hstmod : st % (ofArr a).cap = hf k % (ofArr a).cap := by rw [hst, fromHash_mod hcap']
  rw [hstmod] at h4
  have hnonocc : ((ofArr a).get s).isOcc = false := by rw [h3]; rfl
  obtain ⟨hp, hs', hu, hmem⟩ := fill_core hr.probe hr.statusOK hr.uniq hcap' h2 hnonocc h4 hnew
  rw [← hst] at hp hs' hu hmem
  refine ⟨a.setIfInBounds s (.occ st k), ?_, ?_, hmem, ?_⟩
  · simp only [rehashStep, hpl]
  · exact {
      size := by simp [hr.size]
      noTomb := by
        intro i
        show ((ofArr a).set s (.occ st k)).get i ≠ .tomb
        rw [get_set _ s i _ h2]
        split
        · intro h; cases h
        · exact hr.noTomb i
      probe := hp
      statusOK := hs'
      uniq := hu }
  · have := countOcc_set (ofArr a) s (.occ st k) h2
    rw [hnonocc] at this
    simp [Slot.isOcc] at this
    exact this

theorem rehash_fold {c : Nat} {hf : Nat → Nat} (hc : IsCap c) :
    ∀ (l : List Slot) (a : Array Slot), RInv c hf a → (keysL l).Nodup →
      (∀ k, k ∈ keysL l → ¬ (ofArr a).Mem k) →
      (∀ st k, Slot.occ st k ∈ l → st = fromHash (hf k)) →
      (ofArr a).countOcc + countOccL l < c →
      ∃ a', l.foldl rehashStep (.ok a) = .ok a' ∧ RInv c hf a' ∧
        (∀ x, (ofArr a').Mem x ↔ ((ofArr a).Mem x ∨ x ∈ keysL l)) ∧
        (ofArr a').countOcc = (ofArr a).countOcc + countOccL l := by
  intro l
  induction l with
  | nil =>
    intro a hr _ _ _ _
    exact ⟨a, rfl, hr, by intro x; simp [keysL], by simp [countOccL]⟩
  | cons s r ih =>
    intro a hr hnd hnew hst hroom
    cases s with
    | free =>
      rw [keysL_cons_free] at hnd hnew
      have : countOccL (Slot.free :: r) = countOccL r := by simp [countOccL, Slot.isOcc]
      rw [this] at hroom
      obtain ⟨a', h1, h2, h3, h4⟩ := ih a hr hnd hnew
        (fun st k hm => hst st k (List.mem_cons_of_mem _ hm)) hroom
      exact ⟨a', by simpa [List.foldl_cons, rehashStep] using h1, h2,
        by rw [keysL_cons_free]; exact h3, by rw [this]; exact h4⟩
    | tomb =>
      rw [keysL_cons_tomb] at hnd hnew
      have : countOccL (Slot.tomb :: r) = countOccL r := by simp [countOccL, Slot.isOcc]
      rw [this] at hroom
      obtain ⟨a', h1, h2, h3, h4⟩ := ih a hr hnd hnew
        (fun st k hm => hst st k (List.mem_cons_of_mem _ hm)) hroom
      exact ⟨a', by simpa [List.foldl_cons, rehashStep] using h1, h2,
        by rw [keysL_cons_tomb]; exact h3, by rw [this]; exact h4⟩
    | occ st k =>
      rw [keysL_cons_occ] at hnd hnew
      have hcnt : countOccL (Slot.occ st k :: r) = countOccL r + 1 := by simp [countOccL, List.countP_cons, Slot.isOcc]
      rw [hcnt] at hroom
      rw [List.nodup_cons] at hnd
      obtain ⟨a1, g1, g2, g3, g4⟩ := rehashStep_occ hc hr (hst st k (List.mem_cons_self))
        (hnew k (List.mem_cons_self)) (by omega)
      obtain ⟨a', h1, h2, h3, h4⟩ := ih a1 g2 hnd.2
        (by
          intro k' hk' hm
          rcases (g3 k').1 hm with rfl | hm'
          · exact hnd.1 hk'
          · exact hnew k' (List.mem_cons_of_mem _ hk') hm')
        (fun st k hm => hst st k (List.mem_cons_of_mem _ hm)) (by omega)
      refine ⟨a', by rw [List.foldl_cons, g1]; exact h1, h2, ?_, by rw [h4, g4, hcnt]; omega⟩
      intro x
      rw [h3 x, g3 x, keysL_cons_occ, List.mem_cons]
      constructor
      · rintro ((rfl | h) | h)
        · exact .inr (.inl rfl)
        · exact .inl h
        · exact .inr (.inr h)
      · rintro (h | rfl | h)
        · exact .inl (.inr h)
        · exact .inl (.inl rfl)
        · exact .inr h

theorem get_replicate_free (c i : Nat) : (ofArr (Array.replicate c Slot.free)).get i = .free := by
  unfold get ofArr
  simp only [Array.getElem?_replicate]
  split <;> rfl

theorem get_empty (l f i : Nat) : (Tbl.mk #[] l f).get i = .free := by
  simp [get]

/-- `reserve_rehash` -/
theorem reserveRehash_spec {hf : Nat → Nat} {t : Tbl} (hinv : Inv hf t) (add : Nat) :
    (∃ t', t.reserveRehash add = .ok t' ∧ Inv hf t' ∧ (∀ x, t'.Mem x ↔ t.Mem x) ∧
      t'.len = t.len ∧ t'.cap = nextCapacity (t.len + add) ∧ t'.free = t'.cap - t.len ∧
      add + t'.cap / 4 ≤ t'.free) ∨
    (t.reserveRehash add = .error .capacity ∧ checkCapacity (nextCapacity (t.len + add)) = false) := by
  unfold reserveRehash
  by_cases hchk : ¬ checkCapacity (nextCapacity (t.len + add)) = true
  · right
    simp only [Bool.not_eq_true] at hchk
    simp [hchk]
  · left
    have hchk : checkCapacity (nextCapacity (t.len + add)) = true := by
      cases h : checkCapacity (nextCapacity (t.len + add))
      · exact (hchk (by simp [h])).elim
      · rfl
    simp only [hchk, Bool.not_true, Bool.false_eq_true, if_false]
    by_cases h0 : nextCapacity (t.len + add) = 0
    · simp only [h0, if_true]
      have hr0 : t.len + add = 0 := by
        apply Classical.byContradiction
        intro hne
        obtain ⟨⟨e, _, he⟩, _⟩ := nextCapacity_spec (t.len + add) hne
        have : 0 < 2 ^ e := Nat.pow_pos (by decide)
        omega
      have hl : t.len = 0 := by omega
      refine ⟨_, rfl, ?_, ?_, rfl, rfl, by simp [cap], by simp [cap]; omega⟩
      · exact {
          capOK := .inl rfl
          lenOK := by simp [countOcc, countOccL, hl]
          freeLe := by simp
          freeGe := by simp [cap]
          probe := by intro i st x hi; rw [get_empty] at hi; cases hi
          statusOK := by intro i st x hi; rw [get_empty] at hi; cases hi
          uniq := by intro i j st st' x hi; rw [get_empty] at hi; cases hi }
      · intro x
        constructor
        · rintro ⟨i, st, hi⟩; rw [get_empty] at hi; cases hi
        · intro hx; exact (not_mem_of_len_zero hinv hl x hx).elim
    · simp only [h0, if_false]
      have hr : t.len + add ≠ 0 := by
        intro h; rw [h, nextCapacity_zero] at h0; exact h0 rfl
      have hc : IsCap (nextCapacity (t.len + add)) := nextCapacity_isCap _ hr hchk
      have hspare := nextCapacity_spare _ hr hc
      have h16 := hc.ge16
      -- the initial array
      have hinit : RInv (nextCapacity (t.len + add)) hf (Array.replicate (nextCapacity (t.len + add)) Slot.free) := {
        size := by simp
        noTomb := by intro i; rw [get_replicate_free]; intro h; cases h
        probe := by intro i st x hi; rw [get_replicate_free] at hi; cases hi
        statusOK := by intro i st x hi; rw [get_replicate_free] at hi; cases hi
        uniq := by intro i j st st' x hi; rw [get_replicate_free] at hi; cases hi }
      have hocc0 : (ofArr (Array.replicate (nextCapacity (t.len + add)) Slot.free)).countOcc = 0 :=
        countOcc_eq_zero_of_no_occ (by intro i; rw [get_replicate_free]; rfl)
      have hnomem0 : ∀ x, ¬ (ofArr (Array.replicate (nextCapacity (t.len + add)) Slot.free)).Mem x := by
        rintro x ⟨i, st, hi⟩; rw [get_replicate_free] at hi; cases hi
      obtain ⟨a', h1, h2, h3, h4⟩ := rehash_fold hc t.slots.toList _ hinit (nodup_keys hinv.uniq)
        (fun k _ => hnomem0 k)
        (by
          intro st k hm
          obtain ⟨i, hi⟩ := List.mem_iff_getElem?.1 hm
          exact hinv.statusOK i st k ((get_eq_occ_iff t i st k).2 hi))
        (by
          have := hinv.lenOK
          unfold countOcc at this
          omega)
      rw [h1]
      simp only
      have hsz : a'.size = nextCapacity (t.len + add) := h2.size
      have hcnt : (ofArr a').countOcc = t.len := by
        rw [h4, hocc0, hinv.lenOK]; simp [countOcc]
      have hfr := countFree_of_noTomb h2.noTomb
      have hcapa : (ofArr a').cap = nextCapacity (t.len + add) := hsz
      refine ⟨_, rfl, ?_, ?_, rfl, hsz, by simp [cap, hsz], by simp only [cap, hsz]; omega⟩
      · exact Inv.of_slots (u := ofArr a') rfl (.inr (by rw [hcapa]; exact hc))
          (by show t.len = _; omega)
          (by show nextCapacity (t.len + add) - t.len ≤ _; omega)
          (by show (ofArr a').cap / 4 ≤ nextCapacity (t.len + add) - t.len; omega)
          h2.probe h2.statusOK h2.uniq
      · intro x
        refine (mem_of_slots (u := ofArr a') rfl x).trans ?_
        rw [h3 x, ← keys_eq, mem_keys_iff]
        constructor
        · rintro (h | h)
          · exact (hnomem0 x h).elim
          · exact h
        · intro h; exact .inr h

/-- `reserve` -/
theorem reserve_spec {hf : Nat → Nat} {t : Tbl} (hinv : Inv hf t) (add : Nat) :
    (∃ t', t.reserve add = .ok t' ∧ Inv hf t' ∧ (∀ x, t'.Mem x ↔ t.Mem x) ∧ t'.len = t.len ∧
      add + t'.cap / 4 ≤ t'.free ∧ (add ≠ 0 → IsCap t'.cap)) ∨
    (t.reserve add = .error .capacity ∧ checkCapacity (nextCapacity (t.len + add)) = false) := by
  unfold reserve
  simp only [RATIO_D, RATIO_N]
  by_cases hlt : t.free < add + t.cap / 4 * (4 - 3)
  · simp only [hlt, if_true]
    rcases reserveRehash_spec hinv add with ⟨t', h1, h2, h3, h4, h5, h6, h7⟩ | h
    · refine .inl ⟨t', h1, h2, h3, h4, h7, ?_⟩
      intro hadd
      rw [h5]
      have hr : t.len + add ≠ 0 := by omega
      rcases h2.capOK with h0 | hc
      · exfalso
        obtain ⟨⟨e, _, he⟩, _⟩ := nextCapacity_spec (t.len + add) hr
        have : 0 < 2 ^ e := Nat.pow_pos (by decide)
        omega
      · rw [← h5]; exact hc
    · exact .inr h
  · simp only [hlt, if_false]
    refine .inl ⟨t, rfl, hinv, fun _ => Iff.rfl, rfl, by omega, ?_⟩
    intro hadd
    rcases hinv.capOK with h0 | hc
    · exfalso
      have := counts_le_cap t
      have := hinv.freeLe
      omega
    · exact hc

end Tbl
end OxiddModel.HashTbl
