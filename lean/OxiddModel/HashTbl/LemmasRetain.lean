import OxiddModel.HashTbl.LemmasScan

/-!
`retain`: the backwards scan that removes rejected elements and turns tombstones into free
slots, followed by the optional shrinking rehash.
-/
namespace OxiddModel.HashTbl
namespace Tbl

/-- status of the slot *behind* the current scan position in the result (`b` stands for slot 0,
which follows the last slot cyclically) -/
def headFree (out : List Slot) (b : Bool) : Bool :=
  match out with
  | [] => b
  | s :: _ => s.isFree

/-- how the scan may change a slice: a slot stays, an element becomes a tombstone, or a slot
becomes `FREE` provided its successor is `FREE` in the result -/
inductive Shr (b : Bool) : List Slot → List Slot → Prop
  | nil : Shr b [] []
  | same (s : Slot) {r r' : List Slot} : Shr b r r' → Shr b (s :: r) (s :: r')
  | toTomb (st k : Nat) {r r' : List Slot} : Shr b r r' → Shr b (.occ st k :: r) (.tomb :: r')
  | toFree (s : Slot) {r r' : List Slot} : headFree r' b = true → Shr b r r' → Shr b (s :: r) (.free :: r')

theorem Shr.length {b : Bool} {l l' : List Slot} (h : Shr b l l') : l'.length = l.length := by
  induction h with
  | nil => rfl
  | same s _ ih => simp [ih]
  | toTomb st k _ ih => simp [ih]
  | toFree s _ _ ih => simp [ih]

theorem Shr.occ {b : Bool} {l l' : List Slot} (h : Shr b l l') :
    ∀ (j st x : Nat), l'[j]? = some (Slot.occ st x) → l[j]? = some (Slot.occ st x) := by
  induction h with
  | nil => intro j st x hj; simp at hj
  | same s _ ih =>
    intro j st x hj
    cases j with
    | zero => simpa using hj
    | succ j => simp only [List.getElem?_cons_succ] at hj ⊢; exact ih j st x hj
  | toTomb st' k _ ih =>
    intro j st x hj
    cases j with
    | zero => simp at hj
    | succ j => simp only [List.getElem?_cons_succ] at hj ⊢; exact ih j st x hj
  | toFree s _ _ ih =>
    intro j st x hj
    cases j with
    | zero => simp at hj
    | succ j => simp only [List.getElem?_cons_succ] at hj ⊢; exact ih j st x hj

theorem Shr.keepFree {b : Bool} {l l' : List Slot} (h : Shr b l l') :
    ∀ (j : Nat), l[j]? = some Slot.free → l'[j]? = some Slot.free := by
  induction h with
  | nil => intro j hj; simp at hj
  | same s _ ih =>
    intro j hj
    cases j with
    | zero => simpa using hj
    | succ j => simp only [List.getElem?_cons_succ] at hj ⊢; exact ih j hj
  | toTomb st' k _ ih =>
    intro j hj
    cases j with
    | zero => simp at hj
    | succ j => simp only [List.getElem?_cons_succ] at hj ⊢; exact ih j hj
  | toFree s _ _ ih =>
    intro j hj
    cases j with
    | zero => simp
    | succ j => simp only [List.getElem?_cons_succ] at hj ⊢; exact ih j hj

theorem Shr.newFree {b : Bool} {l l' : List Slot} (h : Shr b l l') :
    ∀ (j : Nat), l'[j]? = some Slot.free →
      l[j]? = some Slot.free ∨ l'[j+1]? = some Slot.free ∨ (j + 1 = l'.length ∧ b = true) := by
  induction h with
  | nil => intro j hj; simp at hj
  | same s _ ih =>
    intro j hj
    cases j with
    | zero => left; simpa using hj
    | succ j =>
      simp only [List.getElem?_cons_succ, List.length_cons] at hj ⊢
      rcases ih j hj with h | h | h
      · exact .inl h
      · exact .inr (.inl h)
      · exact .inr (.inr ⟨by omega, h.2⟩)
  | toTomb st' k _ ih =>
    intro j hj
    cases j with
    | zero => simp at hj
    | succ j =>
      simp only [List.getElem?_cons_succ, List.length_cons] at hj ⊢
      rcases ih j hj with h | h | h
      · exact .inl h
      · exact .inr (.inl h)
      · exact .inr (.inr ⟨by omega, h.2⟩)
  | @toFree s r r' hh _ ih =>
    intro j hj
    cases j with
    | zero =>
      right
      cases r' with
      | nil => right; exact ⟨rfl, hh⟩
      | cons s' r'' =>
        left
        simp only [headFree] at hh
        simp [Slot.isFree_iff.1 hh]
    | succ j =>
      simp only [List.getElem?_cons_succ, List.length_cons] at hj ⊢
      rcases ih j hj with h | h | h
      · exact .inl h
      · exact .inr (.inl h)
      · exact .inr (.inr ⟨by omega, h.2⟩)

/-- initial state of the scan -/
def retainInit (b : Bool) (n : Nat) : RetainSt :=
  { out := [], lif := b, i := n, done := false, droppedRev := [], freeInc := 0, lenDec := 0 }

theorem retainScan_cons (p : Nat → Bool) (init : RetainSt) (s : Slot) (r : List Slot) :
    retainScan p init (s :: r) = retainStep p s (retainScan p init r) := rfl

theorem retainScan_shr (p : Nat → Bool) (b : Bool) (n : Nat) : ∀ (l : List Slot),
    Shr b l (retainScan p (retainInit b n) l).out ∧
    ((retainScan p (retainInit b n) l).done = false → (retainScan p (retainInit b n) l).lif = true →
      headFree (retainScan p (retainInit b n) l).out b = true) := by
  intro l
  induction l with
  | nil => exact ⟨Shr.nil, fun _ h => h⟩
  | cons s r ih =>
    rw [retainScan_cons]
    generalize retainScan p (retainInit b n) r = st at ih
    obtain ⟨ih1, ih2⟩ := ih
    unfold retainStep
    by_cases hd : st.done = true
    · simp only [hd, if_true]
      exact ⟨Shr.same s ih1, fun h => by simp at h⟩
    · have hd' : st.done = false := by simpa using hd
      simp only [hd', Bool.false_eq_true, if_false]
      cases s with
      | free => exact ⟨Shr.same _ ih1, fun _ _ => rfl⟩
      | tomb =>
        by_cases hl : st.lif = true
        · simp only [hl, if_true]
          exact ⟨Shr.toFree _ (ih2 hd' hl) ih1, fun _ _ => rfl⟩
        · have hl' : st.lif = false := by simpa using hl
          simp only [hl', Bool.false_eq_true, if_false]
          exact ⟨Shr.same _ ih1, fun _ h => by simp at h⟩
      | occ h k =>
        by_cases hp : p k = true
        · simp only [hp, Bool.not_true, Bool.false_eq_true, if_false]
          exact ⟨Shr.same _ ih1, fun _ h => by simp at h⟩
        · have hp' : p k = false := by simpa using hp
          simp only [hp', Bool.not_false, if_true]
          by_cases hl : st.lif = true
          · simp only [hl, if_true]
            exact ⟨Shr.toFree _ (ih2 hd' hl) ih1, fun _ _ => rfl⟩
          · have hl' : st.lif = false := by simpa using hl
            simp only [hl', Bool.false_eq_true, if_false]
            exact ⟨Shr.toTomb _ _ ih1, fun _ h => h.elim⟩

theorem retainScan_counts (p : Nat → Bool) (b : Bool) (n : Nat) : ∀ (l : List Slot),
    countFreeL (retainScan p (retainInit b n) l).out = countFreeL l + (retainScan p (retainInit b n) l).freeInc ∧
    countOccL (retainScan p (retainInit b n) l).out + (retainScan p (retainInit b n) l).lenDec = countOccL l := by
  intro l
  induction l with
  | nil => exact ⟨rfl, rfl⟩
  | cons s r ih =>
    rw [retainScan_cons]
    generalize retainScan p (retainInit b n) r = st at ih
    obtain ⟨ih1, ih2⟩ := ih
    unfold retainStep
    unfold countFreeL countOccL at *
    by_cases hd : st.done = true
    · simp only [hd, if_true, List.countP_cons]
      constructor <;> omega
    · have hd' : st.done = false := by simpa using hd
      simp only [hd', Bool.false_eq_true, if_false]
      cases s with
      | free => simp only [List.countP_cons, Slot.isFree, Slot.isOcc]; constructor <;> simp <;> omega
      | tomb =>
        by_cases hl : st.lif = true
        · simp only [hl, if_true, List.countP_cons, Slot.isFree, Slot.isOcc]; constructor <;> simp <;> omega
        · have hl' : st.lif = false := by simpa using hl
          simp only [hl', Bool.false_eq_true, if_false, List.countP_cons, Slot.isFree, Slot.isOcc]; constructor <;> simp <;> omega
      | occ h k =>
        by_cases hp : p k = true
        · simp only [hp, Bool.not_true, Bool.false_eq_true, if_false, List.countP_cons, Slot.isFree, Slot.isOcc]
          constructor <;> simp <;> omega
        · have hp' : p k = false := by simpa using hp
          simp only [hp', Bool.not_false, if_true]
          by_cases hl : st.lif = true
          · simp only [hl, if_true, List.countP_cons, Slot.isFree, Slot.isOcc]; constructor <;> simp <;> omega
          · have hl' : st.lif = false := by simpa using hl
            simp only [hl', Bool.false_eq_true, if_false, List.countP_cons, Slot.isFree, Slot.isOcc]; constructor <;> simp <;> omega

theorem retainScan_keys (p : Nat → Bool) (b : Bool) (n : Nat) (hn : n ≠ 0) : ∀ (l : List Slot),
    countOccL l ≤ n →
    (retainScan p (retainInit b n) l).done = decide (countOccL l = n) ∧
    (retainScan p (retainInit b n) l).i = n - countOccL l ∧
    keysL (retainScan p (retainInit b n) l).out = (keysL l).filter p ∧
    (retainScan p (retainInit b n) l).droppedRev = (keysL l).filter (fun k => !p k) := by
  intro l
  induction l with
  | nil =>
    intro _
    refine ⟨?_, rfl, rfl, rfl⟩
    have : ¬ (countOccL [] = n) := by simp [countOccL]; omega
    simp [retainScan, retainInit, this]
  | cons s r ih =>
    intro hle
    have hler : countOccL r ≤ n := by
      cases s
      · rw [countOccL_cons_free] at hle; exact hle
      · rw [countOccL_cons_tomb] at hle; exact hle
      · rw [countOccL_cons_occ] at hle; omega
    rw [retainScan_cons]
    obtain ⟨ih1, ih2, ih3, ih4⟩ := ih hler
    generalize retainScan p (retainInit b n) r = st at ih1 ih2 ih3 ih4
    unfold retainStep
    by_cases hd : st.done = true
    · -- the loop has already returned: `s` cannot be an element
      have hrn : countOccL r = n := by rw [hd] at ih1; exact of_decide_eq_true ih1.symm
      simp only [hd, if_true]
      cases s with
      | free =>
        rw [countOccL_cons_free, keysL_cons_free, keysL_cons_free]
        exact ⟨by simp [hrn], by omega, ih3, ih4⟩
      | tomb =>
        rw [countOccL_cons_tomb, keysL_cons_tomb, keysL_cons_tomb]
        exact ⟨by simp [hrn], by omega, ih3, ih4⟩
      | occ h k => rw [countOccL_cons_occ] at hle; omega
    · have hd' : st.done = false := by simpa using hd
      have hrn : countOccL r ≠ n := by
        intro h; rw [hd', h] at ih1; simp at ih1
      simp only [hd', Bool.false_eq_true, if_false]
      cases s with
      | free =>
        rw [countOccL_cons_free, keysL_cons_free, keysL_cons_free]
        exact ⟨by simp [hrn], ih2, ih3, ih4⟩
      | tomb =>
        rw [countOccL_cons_tomb, keysL_cons_tomb]
        by_cases hl : st.lif = true
        · simp only [hl, if_true]
          rw [keysL_cons_free]
          exact ⟨by simp [hrn], ih2, ih3, ih4⟩
        · have hl' : st.lif = false := by simpa using hl
          simp only [hl', Bool.false_eq_true, if_false]
          rw [keysL_cons_tomb]
          exact ⟨by simp [hrn], ih2, ih3, ih4⟩
      | occ h k =>
        rw [countOccL_cons_occ] at hle ⊢
        rw [keysL_cons_occ]
        have hdone : (st.i - 1 == 0) = decide (countOccL r + 1 = n) := by
          rw [ih2]
          by_cases h : countOccL r + 1 = n
          · simp [h]; omega
          · simp [h]; omega
        by_cases hp : p k = true
        · simp only [hp, Bool.not_true, Bool.false_eq_true, if_false]
          rw [keysL_cons_occ]
          refine ⟨hdone, by rw [ih2]; omega, ?_, ?_⟩
          · rw [List.filter_cons]; simp only [hp, if_true]; rw [ih3]
          · rw [List.filter_cons]; simp only [hp, Bool.not_true, Bool.false_eq_true, if_false]; exact ih4
        · have hp' : p k = false := by simpa using hp
          simp only [hp', Bool.not_false, if_true]
          by_cases hl : st.lif = true
          · simp only [hl, if_true]
            rw [keysL_cons_free]
            refine ⟨hdone, by rw [ih2]; omega, ?_, ?_⟩
            · rw [List.filter_cons]; simp only [hp', Bool.false_eq_true, if_false]; exact ih3
            · rw [List.filter_cons]; simp only [hp', Bool.not_false, if_true]; rw [ih4]
          · have hl' : st.lif = false := by simpa using hl
            simp only [hl', Bool.false_eq_true, if_false]
            rw [keysL_cons_tomb]
            refine ⟨hdone, by rw [ih2]; omega, ?_, ?_⟩
            · rw [List.filter_cons]; simp only [hp', Bool.false_eq_true, if_false]; exact ih3
            · rw [List.filter_cons]; simp only [hp', Bool.not_false, if_true]; rw [ih4]

/-! ### capacity bound for the shrinking rehash -/

theorem npot_le_double (n : Nat) (h : 1 ≤ n) : npot n ≤ 2 * n := by
  unfold npot
  split
  · omega
  · have := @Nat.log2_self_le (n - 1) (by omega)
    rw [Nat.pow_succ]
    omega

theorem nextCapacity_le {r c : Nat} (hr : r ≠ 0) (hc : IsCap c) (hlt : r < c / 4) :
    nextCapacity r ≤ c := by
  unfold nextCapacity
  simp only [hr, if_false, RATIO_D, RATIO_N, MIN_CAP]
  have h16 := hc.ge16
  have := npot_le_double (r * 4 / 3) (by omega)
  rw [Nat.max_def]
  split <;> omega

theorem checkCapacity_of_le {n c : Nat} (hc : IsCap c) (h : n ≤ c) : checkCapacity n = true := by
  obtain ⟨e, _, h31, rfl⟩ := hc
  have : (2:Nat) ^ e ≤ 2 ^ 31 := Nat.pow_le_pow_right (by decide) h31
  simp only [checkCapacity, decide_eq_true_eq]
  have h2 : (2:Nat) ^ 31 = 2147483648 := by decide
  omega

/-! ### retain -/

/-- `retain`: exactly the accepted elements stay, the rejected ones are handed to `drop` (each
once, in descending slot order) -/
theorem retain_spec' {hf : Nat → Nat} {t : Tbl} (hinv : Inv hf t) (p : Nat → Bool) :
    ∃ t', t.retain p = .ok (t', (t.keys.filter (fun k => !p k)).reverse) ∧ Inv hf t' ∧
      ∀ x, t'.Mem x ↔ (t.Mem x ∧ p x = true) := by
  unfold retain
  by_cases hl : t.len = 0
  · simp only [hl, if_true]
    have hk : t.keys = [] := by
      have := hinv.lenOK
      rw [countOcc_eq_length_keys, hl] at this
      exact List.eq_nil_of_length_eq_zero this.symm
    rw [hk]
    refine ⟨t, rfl, hinv, ?_⟩
    intro x
    constructor
    · intro h; exact (not_mem_of_len_zero hinv hl x h).elim
    · intro h; exact h.1
  · have hcap := hinv.isCap_of_len hl
    have h16 := hcap.ge16
    have hlo := hinv.lenOK
    have hlc : ¬ t.cap < t.len := by have := countOcc_le_cap t; omega
    simp only [hl, if_false, hlc]
    have hscan : retainScan p (RetainSt.mk [] (t.get 0).isFree t.len false [] 0 0) t.slots.toList
        = retainScan p (retainInit (t.get 0).isFree t.len) t.slots.toList := rfl
    rw [hscan]
    obtain ⟨k1, k2, k3, k4⟩ := retainScan_keys p (t.get 0).isFree t.len hl t.slots.toList
      (by unfold countOcc at hlo; omega)
    obtain ⟨c1, c2⟩ := retainScan_counts p (t.get 0).isFree t.len t.slots.toList
    obtain ⟨s1, _⟩ := retainScan_shr p (t.get 0).isFree t.len t.slots.toList
    generalize retainScan p (retainInit (t.get 0).isFree t.len) t.slots.toList = st at k1 k2 k3 k4 c1 c2 s1
    have hdone : st.done = true := by
      rw [k1]; unfold countOcc at hlo; simp [hlo]
    simp only [hdone, Bool.not_true, Bool.false_eq_true, if_false]
    rw [k4, ← keys_eq]
    -- the table after the scan
    have hlen' := s1.length
    have hcap1 : (Tbl.mk st.out.toArray (t.len - st.lenDec) (t.free + st.freeInc)).cap = t.cap := by
      rw [cap_ofList, hlen']; simp [cap]
    have hget1 : ∀ j, (Tbl.mk st.out.toArray (t.len - st.lenDec) (t.free + st.freeInc)).get j
        = (st.out[j]?).getD .free := fun j => get_ofList _ _ _ j
    have hocc : ∀ j s x, (Tbl.mk st.out.toArray (t.len - st.lenDec) (t.free + st.freeInc)).get j = .occ s x →
        t.get j = .occ s x := by
      intro j s x hj
      rw [hget1] at hj
      rw [get_eq_occ_iff]
      apply s1.occ
      cases h : st.out[j]? with
      | none => rw [h] at hj; cases hj
      | some y => rw [h] at hj; simp at hj; rw [hj]
    have hinv1 : Inv hf (Tbl.mk st.out.toArray (t.len - st.lenDec) (t.free + st.freeInc)) := by
      refine Inv.of_slots (u := Tbl.mk st.out.toArray (t.len - st.lenDec) (t.free + st.freeInc)) rfl
        (by rw [hcap1]; exact .inr hcap) ?_ ?_ ?_ ?_ ?_ ?_
      · rw [countOcc_ofList]; show t.len - st.lenDec = _; unfold countOcc at hlo; omega
      · rw [countFree_ofList]; show t.free + st.freeInc ≤ _
        have := hinv.freeLe; unfold countFree at this; omega
      · rw [hcap1]; show t.cap / 4 ≤ t.free + st.freeInc; have := hinv.freeGe; omega
      · refine probeOK_shrink hcap1 hocc ?_ hinv.probe
        intro j hj hfree
        rw [hget1] at hfree
        have hjl : j < st.out.length := by rw [hlen']; simpa [cap] using hj
        have hfree' : st.out[j]? = some Slot.free := by
          rw [List.getElem?_eq_getElem hjl] at hfree ⊢
          simpa using hfree
        rcases s1.newFree j hfree' with h | h | ⟨h1, h2⟩
        · left; rw [get_eq_list, h]; rfl
        · right
          have hj1 : j + 1 < st.out.length := by
            apply Classical.byContradiction
            intro hn
            rw [List.getElem?_eq_none (by omega)] at h; cases h
          have : nxt t.cap j = j + 1 := by
            unfold nxt; split
            · rename_i he; rw [hlen'] at hj1; simp [cap] at he hj1; omega
            · rfl
          rw [this, hget1, h]; rfl
        · right
          have : nxt t.cap j = 0 := by
            unfold nxt; split
            · rfl
            · rename_i he; rw [hlen'] at h1; simp [cap] at he h1; omega
          rw [this, hget1]
          have h0 : t.slots.toList[0]? = some Slot.free := by
            have := Slot.isFree_iff.1 h2
            rw [get_eq_list] at this
            cases hh : t.slots.toList[0]? with
            | none =>
              have : t.slots.toList.length = 0 := by
                have := List.getElem?_eq_none_iff.1 hh; omega
              simp [cap] at h16; omega
            | some y => rw [hh] at this; simp at this; rw [this]
          rw [s1.keepFree 0 h0]; rfl
      · intro j s x hj; exact hinv.statusOK j s x (hocc j s x hj)
      · intro j j' s s' x hj hj'; exact hinv.uniq j j' s s' x (hocc j s x hj) (hocc j' s' x hj')
    have hmem1 : ∀ x, (Tbl.mk st.out.toArray (t.len - st.lenDec) (t.free + st.freeInc)).Mem x ↔
        (t.Mem x ∧ p x = true) := by
      intro x
      rw [← mem_keys_iff, ← mem_keys_iff, keys_eq, keys_eq]
      rw [k3, List.mem_filter]
    by_cases hshr : (Tbl.mk st.out.toArray (t.len - st.lenDec) (t.free + st.freeInc)).len <
        (Tbl.mk st.out.toArray (t.len - st.lenDec) (t.free + st.freeInc)).cap / RATIO_D * (RATIO_D - RATIO_N) ∧
        (Tbl.mk st.out.toArray (t.len - st.lenDec) (t.free + st.freeInc)).cap ≥ MIN_CAP
    · simp only [hshr, and_self, if_true]
      rcases reserveRehash_spec hinv1 0 with ⟨t2, g1, g2, g3, _⟩ | ⟨g1, g2⟩
      · rw [g1]
        exact ⟨t2, rfl, g2, fun x => (g3 x).trans (hmem1 x)⟩
      · exfalso
        simp only [RATIO_D, RATIO_N, hcap1, Nat.add_zero] at hshr g2
        by_cases h0 : t.len - st.lenDec = 0
        · rw [h0, nextCapacity_zero] at g2
          simp [checkCapacity] at g2
        · have hle := nextCapacity_le h0 hcap (by have := hshr.1; omega)
          have := checkCapacity_of_le hcap hle
          rw [this] at g2; cases g2
    · simp only [hshr, if_false]
      exact ⟨_, rfl, hinv1, hmem1⟩

end Tbl
end OxiddModel.HashTbl
