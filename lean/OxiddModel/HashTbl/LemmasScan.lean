import OxiddModel.HashTbl.LemmasRehash

/-!
The linear scans: `clear`/`clear_no_drop`, `drain` (with a partially consumed `Drain`), `iter`,
`into_iter`, and the constructors `new`/`with_capacity`, `clone`.
-/
namespace OxiddModel.HashTbl
namespace Tbl

/-- a table whose slot array is the list `l` -/
theorem get_ofList (l : List Slot) (n f i : Nat) : (Tbl.mk l.toArray n f).get i = (l[i]?).getD .free := by
  simp [get]

theorem cap_ofList (l : List Slot) (n f : Nat) : (Tbl.mk l.toArray n f).cap = l.length := by
  simp [cap]

theorem countOcc_ofList (l : List Slot) (n f : Nat) : (Tbl.mk l.toArray n f).countOcc = countOccL l := by
  simp [countOcc]

theorem countFree_ofList (l : List Slot) (n f : Nat) : (Tbl.mk l.toArray n f).countFree = countFreeL l := by
  simp [countFree]

/-- a table without occupied slots satisfies the element-related parts of the invariant -/
theorem inv_of_no_occ {hf : Nat → Nat} {t : Tbl} (hcap : t.cap = 0 ∨ IsCap t.cap) (hlen : t.len = 0)
    (hocc : t.countOcc = 0) (hle : t.free ≤ t.countFree) (hge : t.cap / 4 ≤ t.free) : Inv hf t := by
  have hno := no_occ_of_countOcc_eq_zero hocc
  exact {
    capOK := hcap
    lenOK := by omega
    freeLe := hle
    freeGe := hge
    probe := by intro i st x hi; have := hno i; rw [hi] at this; cases this
    statusOK := by intro i st x hi; have := hno i; rw [hi] at this; cases this
    uniq := by intro i j st st' x hi; have := hno i; rw [hi] at this; cases this }

theorem not_mem_of_countOcc_zero {t : Tbl} (hocc : t.countOcc = 0) (x : Nat) : ¬ t.Mem x := by
  rintro ⟨i, st, hi⟩
  have := no_occ_of_countOcc_eq_zero hocc i
  rw [hi] at this; cases this

/-! ### clear -/

theorem clearLoop_length : ∀ (l : List Slot) (n : Nat), (clearLoop n l).length = l.length := by
  intro l
  induction l with
  | nil => intro n; rfl
  | cons s r ih =>
    intro n
    simp only [clearLoop, List.length_cons]
    split
    · split
      · rfl
      · rw [ih]
    · rw [ih]

theorem clearLoop_free_mono : ∀ (l : List Slot) (n : Nat), countFreeL l ≤ countFreeL (clearLoop n l) := by
  intro l
  induction l with
  | nil => intro n; exact Nat.le_refl _
  | cons s r ih =>
    intro n
    have h1 := ih n
    have h2 := ih (n - 1)
    unfold countFreeL at *
    cases s with
    | free => simp only [clearLoop, Slot.isOcc, List.countP_cons, Slot.isFree]; simp; omega
    | tomb => simp only [clearLoop, Slot.isOcc, List.countP_cons, Slot.isFree]; simp; omega
    | occ st k =>
      simp only [clearLoop, Slot.isOcc, List.countP_cons, Slot.isFree, if_true]
      by_cases h : n - 1 = 0 <;> simp [h] <;> omega

theorem countOccL_cons_free (r : List Slot) : countOccL (Slot.free :: r) = countOccL r := by
  simp [countOccL, Slot.isOcc]
theorem countOccL_cons_tomb (r : List Slot) : countOccL (Slot.tomb :: r) = countOccL r := by
  simp [countOccL, Slot.isOcc]
theorem countOccL_cons_occ (st k : Nat) (r : List Slot) : countOccL (Slot.occ st k :: r) = countOccL r + 1 := by
  simp [countOccL, List.countP_cons, Slot.isOcc]

theorem clearLoop_no_occ : ∀ (l : List Slot) (n : Nat), countOccL l ≤ n → n ≠ 0 →
    countOccL (clearLoop n l) = 0 := by
  intro l
  induction l with
  | nil => intro n _ _; rfl
  | cons s r ih =>
    intro n hle hn
    cases s with
    | occ st k =>
      rw [countOccL_cons_occ] at hle
      simp only [clearLoop, Slot.isOcc, if_true]
      by_cases h1 : n - 1 = 0
      · simp only [h1, if_true]
        rw [countOccL_cons_free]; omega
      · simp only [h1, if_false]
        rw [countOccL_cons_free]
        exact ih (n - 1) (by omega) h1
    | free =>
      rw [countOccL_cons_free] at hle
      simp only [clearLoop, Slot.isOcc, Bool.false_eq_true, if_false]
      rw [countOccL_cons_free]
      exact ih n hle hn
    | tomb =>
      rw [countOccL_cons_tomb] at hle
      simp only [clearLoop, Slot.isOcc, Bool.false_eq_true, if_false]
      rw [countOccL_cons_free]
      exact ih n hle hn

/-- `clear` / `clear_no_drop`: the table is empty afterwards, the capacity is unchanged -/
theorem clear_spec' {hf : Nat → Nat} {t : Tbl} (hinv : Inv hf t) :
    ∃ t', t.clear = .ok t' ∧ Inv hf t' ∧ t'.cap = t.cap ∧ t'.len = 0 ∧ ∀ x, ¬ t'.Mem x := by
  unfold clear
  by_cases hl : t.len = 0
  · simp only [hl, if_true]
    exact ⟨t, rfl, hinv, rfl, hl, not_mem_of_len_zero hinv hl⟩
  · have hlo := hinv.lenOK
    unfold countOcc at hlo
    have hnp : ¬ countOccL t.slots.toList < t.len := by omega
    simp only [hl, if_false, hnp]
    refine ⟨_, rfl, ?_, ?_, rfl, ?_⟩
    · have hcap : (Tbl.mk (clearLoop t.len t.slots.toList).toArray 0 t.free).cap = t.cap := by
        rw [cap_ofList, clearLoop_length]; simp [cap]
      have hocc : (Tbl.mk (clearLoop t.len t.slots.toList).toArray 0 t.free).countOcc = 0 := by
        rw [countOcc_ofList]; exact clearLoop_no_occ _ _ (by omega) hl
      apply inv_of_no_occ
      · rw [hcap]; exact hinv.capOK
      · rfl
      · exact hocc
      · rw [countFree_ofList]
        have := clearLoop_free_mono t.slots.toList t.len
        have := hinv.freeLe
        unfold countFree at this
        show t.free ≤ _
        omega
      · rw [hcap]; exact hinv.freeGe
    · rw [cap_ofList, clearLoop_length]; simp [cap]
    · apply not_mem_of_countOcc_zero
      rw [countOcc_ofList]; exact clearLoop_no_occ _ _ (by omega) hl

/-! ### iteration -/

theorem iterLoop_eq : ∀ (l : List Slot) (n : Nat), iterLoop n l = (keysL l).take n := by
  intro l
  induction l with
  | nil => intro n; cases n <;> simp [iterLoop, keysL]
  | cons s r ih =>
    intro n
    cases n with
    | zero => simp [iterLoop]
    | succ n =>
      cases s with
      | occ st k => simp only [iterLoop, keysL_cons_occ, List.take_succ_cons, ih]
      | free => simp only [iterLoop, keysL_cons_free, ih]
      | tomb => simp only [iterLoop, keysL_cons_tomb, ih]

/-- `iter` / `into_iter` yield exactly `keys` (every element once, in slot order) -/
theorem iter_spec' {hf : Nat → Nat} {t : Tbl} (hinv : Inv hf t) : t.iter = .ok t.keys := by
  unfold iter
  have hlo := hinv.lenOK
  unfold countOcc at hlo
  have hnp : ¬ countOccL t.slots.toList < t.len := by omega
  simp only [hnp, if_false]
  rw [iterLoop_eq, keys_eq, List.take_of_length_le]
  rw [← countOccL_eq_length_keysL]; omega

/-! ### drain -/

theorem drainLoop_spec : ∀ (l : List Slot) (n : Nat) (ks : List Nat) (v u : List Slot),
    drainLoop n l = (ks, v, u) →
    ks = (keysL l).take n ∧ (∀ s, s ∈ v → s = Slot.free) ∧ v.length + u.length = l.length ∧
    keysL u = (keysL l).drop n := by
  intro l
  induction l with
  | nil =>
    intro n ks v u h
    cases n <;> simp [drainLoop] at h <;> obtain ⟨rfl, rfl, rfl⟩ := h <;> simp [keysL]
  | cons s r ih =>
    intro n ks v u h
    cases n with
    | zero =>
      simp [drainLoop] at h
      obtain ⟨rfl, rfl, rfl⟩ := h
      simp
    | succ n =>
      cases s with
      | occ st k =>
        cases hd : drainLoop n r with
        | mk ks0 vu =>
          cases vu with
          | mk v0 u0 =>
            obtain ⟨h1, h2, h3, h4⟩ := ih n ks0 v0 u0 hd
            simp only [drainLoop, hd] at h
            cases h
            simp only [keysL_cons_occ, List.take_succ_cons, List.drop_succ_cons]
            refine ⟨by rw [h1], ?_, by simp only [List.length_cons]; omega, h4⟩
            intro s hs
            rcases List.mem_cons.1 hs with rfl | hs
            · rfl
            · exact h2 s hs
      | free =>
        cases hd : drainLoop (n+1) r with
        | mk ks0 vu =>
          cases vu with
          | mk v0 u0 =>
            obtain ⟨h1, h2, h3, h4⟩ := ih (n+1) ks0 v0 u0 hd
            simp only [drainLoop, hd] at h
            cases h
            simp only [keysL_cons_free]
            refine ⟨h1, ?_, by simp only [List.length_cons]; omega, h4⟩
            intro s hs
            rcases List.mem_cons.1 hs with rfl | hs
            · rfl
            · exact h2 s hs
      | tomb =>
        cases hd : drainLoop (n+1) r with
        | mk ks0 vu =>
          cases vu with
          | mk v0 u0 =>
            obtain ⟨h1, h2, h3, h4⟩ := ih (n+1) ks0 v0 u0 hd
            simp only [drainLoop, hd] at h
            cases h
            simp only [keysL_cons_tomb]
            refine ⟨h1, ?_, by simp only [List.length_cons]; omega, h4⟩
            intro s hs
            rcases List.mem_cons.1 hs with rfl | hs
            · rfl
            · exact h2 s hs

theorem counts_all_free (l : List Slot) (h : ∀ s, s ∈ l → s = Slot.free) :
    countFreeL l = l.length ∧ countOccL l = 0 := by
  constructor
  · unfold countFreeL
    rw [List.countP_eq_length]
    intro a ha; rw [h a ha]; rfl
  · unfold countOccL
    rw [List.countP_eq_zero]
    intro a ha; rw [h a ha]; simp [Slot.isOcc]

/-- `drain()`, `n` elements taken, `Drain` dropped: the first `n` elements were yielded, the table
is empty, every slot is `FREE` and `free` is exact -/
theorem drainTake_spec' {hf : Nat → Nat} {t : Tbl} (hinv : Inv hf t) (n : Nat) :
    ∃ t', t.drainTake n = .ok (t', t.keys.take n) ∧ Inv hf t' ∧ t'.cap = t.cap ∧ t'.len = 0 ∧
      t'.free = t'.countFree ∧ ∀ x, ¬ t'.Mem x := by
  unfold drainTake
  have hlo := hinv.lenOK
  rw [countOcc_eq_length_keys] at hlo
  have htake : (keysL t.slots.toList).take (min n t.len) = t.keys.take n := by
    rw [← keys_eq]
    by_cases hn : n ≤ t.len
    · rw [Nat.min_eq_left hn]
    · rw [Nat.min_eq_right (by omega), List.take_of_length_le (by omega), List.take_of_length_le (by omega)]
  cases hd : drainLoop (min n t.len) t.slots.toList with
  | mk ks vu =>
  cases vu with
  | mk v u =>
  obtain ⟨h1, h2, h3, h4⟩ := drainLoop_spec t.slots.toList (min n t.len) ks v u hd
  simp only
  have hcnt : ks.length + countOccL u = t.len := by
    rw [countOccL_eq_length_keysL, h4, h1, ← keys_eq]
    have := List.take_append_drop (min n t.len) t.keys
    have h := congrArg List.length this
    rw [List.length_append] at h
    omega
  have hne : ¬ (ks.length + countOccL u ≠ t.len) := by omega
  rw [hd]
  simp only [hne, if_false]
  rw [h1, htake]
  have hall : ∀ s, s ∈ v ++ u.map (fun _ => Slot.free) → s = Slot.free := by
    intro s hs
    rcases List.mem_append.1 hs with h | h
    · exact h2 s h
    · obtain ⟨_, _, rfl⟩ := List.mem_map.1 h; rfl
  obtain ⟨c1, c2⟩ := counts_all_free _ hall
  have hlen : (v ++ u.map (fun _ => Slot.free)).length = t.cap := by
    rw [List.length_append, List.length_map, h3]; simp [cap]
  have hcap : (Tbl.mk (v ++ u.map (fun _ => Slot.free)).toArray 0 t.cap).cap = t.cap := by
    rw [cap_ofList, hlen]
  have hocc : (Tbl.mk (v ++ u.map (fun _ => Slot.free)).toArray 0 t.cap).countOcc = 0 := by
    rw [countOcc_ofList]; exact c2
  have hfr : (Tbl.mk (v ++ u.map (fun _ => Slot.free)).toArray 0 t.cap).countFree = t.cap := by
    rw [countFree_ofList, c1, hlen]
  refine ⟨_, rfl, ?_, hcap, rfl, by rw [hfr], not_mem_of_countOcc_zero hocc⟩
  apply inv_of_no_occ
  · rw [hcap]; exact hinv.capOK
  · rfl
  · exact hocc
  · rw [hfr]; exact Nat.le_refl _
  · rw [hcap]; show t.cap / 4 ≤ t.cap; omega

theorem drain_spec' {hf : Nat → Nat} {t : Tbl} (hinv : Inv hf t) :
    ∃ t', t.drain = .ok (t', t.keys) ∧ Inv hf t' ∧ t'.cap = t.cap ∧ t'.len = 0 ∧
      t'.free = t'.countFree ∧ ∀ x, ¬ t'.Mem x := by
  unfold drain
  obtain ⟨t', h⟩ := drainTake_spec' hinv t.len
  rw [List.take_of_length_le (by rw [← countOcc_eq_length_keys, ← hinv.lenOK]; exact Nat.le_refl _)] at h
  exact ⟨t', h⟩

/-! ### constructors, clone -/

theorem new_inv (hf : Nat → Nat) : Inv hf Tbl.new := by
  apply inv_of_no_occ
  · left; rfl
  · rfl
  · rfl
  · exact Nat.le_refl _
  · exact Nat.le_refl _

theorem new_not_mem (x : Nat) : ¬ Tbl.new.Mem x := not_mem_of_countOcc_zero rfl x

theorem clone_eq (t : Tbl) : t.clone = t := rfl

theorem withCapacity_spec' (hf : Nat → Nat) (n : Nat) :
    (∃ t, Tbl.withCapacity n = .ok t ∧ Inv hf t ∧ t.cap = nextCapacity n ∧ t.len = 0 ∧
      t.free = t.cap ∧ ∀ x, ¬ t.Mem x) ∨
    (Tbl.withCapacity n = .error .capacity ∧ checkCapacity (nextCapacity n) = false) := by
  unfold withCapacity
  cases hchk : checkCapacity (nextCapacity n)
  · right; simp [hchk]
  · left
    simp only [hchk, Bool.not_true, Bool.false_eq_true, if_false]
    have hl : (Array.replicate (nextCapacity n) Slot.free) = (List.replicate (nextCapacity n) Slot.free).toArray := by
      simp
    rw [hl]
    have hall : ∀ s, s ∈ List.replicate (nextCapacity n) Slot.free → s = Slot.free := by
      intro s hs; exact (List.mem_replicate.1 hs).2
    obtain ⟨c1, c2⟩ := counts_all_free _ hall
    have hcap : (Tbl.mk (List.replicate (nextCapacity n) Slot.free).toArray 0 (nextCapacity n)).cap = nextCapacity n := by
      rw [cap_ofList]; simp
    have hocc : (Tbl.mk (List.replicate (nextCapacity n) Slot.free).toArray 0 (nextCapacity n)).countOcc = 0 := by
      rw [countOcc_ofList]; exact c2
    have hfr : (Tbl.mk (List.replicate (nextCapacity n) Slot.free).toArray 0 (nextCapacity n)).countFree = nextCapacity n := by
      rw [countFree_ofList, c1]; simp
    refine ⟨_, rfl, ?_, hcap, rfl, by rw [hcap], not_mem_of_countOcc_zero hocc⟩
    apply inv_of_no_occ
    · rw [hcap]
      by_cases h0 : n = 0
      · left; rw [h0, nextCapacity_zero]
      · right; exact nextCapacity_isCap n h0 hchk
    · rfl
    · exact hocc
    · rw [hfr]; exact Nat.le_refl _
    · rw [hcap]; show nextCapacity n / 4 ≤ nextCapacity n; omega

end Tbl
end OxiddModel.HashTbl
