/-!
# C17 — executable model of `linear_hashtbl::raw::RawTable<u32, u32>`

Source modelled: `/repo/crates/linear-hashtbl/src/raw.rs`.

The model is slot for slot: the slot array (`FREE` / `TOMBSTONE` / hash status + element), `len`
and `free`, and one function per Rust function with the same branches in the same order.  Keys are
`u32` values (here `Nat`), the `u64` hash of a key is an explicit argument of every operation, so
an adversarial hash function is just data.

Conventions
* `usize`/`u32` arithmetic is modelled on `Nat`; the only subtractions that can underflow in the
  modelled code are guarded explicitly (`Err.panic`, see below).  Values never come close to
  `2^64`, wrap-around of `usize` is not modelled.
* The harness is compiled with `debug-assertions` and `overflow-checks` (see
  `/verif/harness/Cargo.toml`), so a violated `debug_assert!` / an arithmetic underflow is a
  panic.  The reachable ones are modelled as `Err.panic`; without those build flags the same
  states run into `get_unchecked` out of bounds (undefined behaviour).
* The probe loops of the Rust code have no bound (`loop { … }`).  The model gives them fuel
  `= number of slots`; running out of fuel is the distinct outcome `Err.diverge` (the real loop
  would spin forever: after `slots` steps every slot has been visited and nothing changes).
-/
namespace OxiddModel.HashTbl

/-- `Slot<u32, u32>`: `status` is `FREE`, `TOMBSTONE` or a 31-bit hash; `data` is only meaningful
for a hash status. -/
inductive Slot where
  | free
  | tomb
  | occ (st : Nat) (key : Nat)
  deriving DecidableEq, Repr, Inhabited

def Slot.isFree : Slot → Bool
  | .free => true
  | _ => false

def Slot.isTomb : Slot → Bool
  | .tomb => true
  | _ => false

/-- `status.is_hash()` -/
def Slot.isOcc : Slot → Bool
  | .occ _ _ => true
  | _ => false

def Slot.key? : Slot → Option Nat
  | .occ _ k => some k
  | _ => none

/-- `RawTable<u32, u32>` -/
structure Tbl where
  slots : Array Slot
  len : Nat
  free : Nat
  deriving Repr, DecidableEq

inductive Err where
  /-- `Status::check_capacity` failed (more than `2^31` slots requested) -/
  | capacity
  /-- a `debug_assert!`/overflow check of the modelled code fails (UB in a build without them) -/
  | panic
  /-- a probe loop would never return -/
  | diverge
  deriving DecidableEq, Repr

/-- Numerator for the fraction of usable slots -/
def RATIO_N : Nat := 3
/-- Denominator for the fraction of usable slots -/
def RATIO_D : Nat := 4
/-- Minimal non-zero capacity (including spare slots) -/
def MIN_CAP : Nat := 16

/-- `<u32 as Status>::from_hash`: `hash as u32 & (u32::MAX >> 1)` -/
def fromHash (h : Nat) : Nat := (h % 4294967296) &&& 2147483647

/-- `usize::next_power_of_two` -/
def npot (n : Nat) : Nat := if n ≤ 1 then 1 else 2 ^ ((n - 1).log2 + 1)

/-- `RawTable::next_capacity` without the `check_capacity` call (done by the callers below) -/
def nextCapacity (requested : Nat) : Nat :=
  if requested = 0 then 0 else max (npot (requested * RATIO_D / RATIO_N)) MIN_CAP

/-- `<u32 as Status>::check_capacity`: `capacity <= 1 << 31` -/
def checkCapacity (capacity : Nat) : Bool := capacity ≤ 2147483648

namespace Tbl

def cap (t : Tbl) : Nat := t.slots.size

/-- `data.get_unchecked(i)` (out of bounds reads do not occur: indices are masked) -/
def get (t : Tbl) (i : Nat) : Slot := (t.slots[i]?).getD .free

def set (t : Tbl) (i : Nat) (s : Slot) : Tbl := { t with slots := t.slots.setIfInBounds i s }

/-- `RawTable::new` -/
def new : Tbl := { slots := #[], len := 0, free := 0 }

/-- `RawTable::with_capacity` -/
def withCapacity (capacity : Nat) : Except Err Tbl :=
  let c := nextCapacity capacity
  if !checkCapacity c then .error .capacity
  else .ok { slots := Array.replicate c .free, len := 0, free := c }

/-- `(index + 1) & mask` with `mask = slots - 1` -/
def nextIdx (cap i : Nat) : Nat := (i + 1) &&& (cap - 1)

/-- the loop of `reserve_rehash` that places one element: first `FREE` slot from the home slot -/
def placeLoop (a : Array Slot) : Nat → Nat → Option Nat
  | 0, _ => none
  | fuel + 1, i =>
    match (a[i]?).getD .free with
    | .free => some i
    | _ => placeLoop a fuel (nextIdx a.size i)

/-- body of the `for slot in old_data` loop of `reserve_rehash` -/
def rehashStep (acc : Except Err (Array Slot)) (s : Slot) : Except Err (Array Slot) :=
  match acc with
  | .error e => .error e
  | .ok a =>
    match s with
    | .occ st k =>
      match placeLoop a a.size (st &&& (a.size - 1)) with
      | some i => .ok (a.setIfInBounds i (.occ st k))
      | none => .error .diverge
    | _ => .ok a

/-- `RawTable::reserve_rehash` -/
def reserveRehash (t : Tbl) (additional : Nat) : Except Err Tbl :=
  let newCap := nextCapacity (t.len + additional)
  if !checkCapacity newCap then .error .capacity
  else if newCap = 0 then .ok { slots := #[], len := t.len, free := 0 }
  else
    match t.slots.toList.foldl rehashStep (.ok (Array.replicate newCap .free)) with
    | .error e => .error e
    | .ok a => .ok { slots := a, len := t.len, free := newCap - t.len }

/-- `RawTable::reserve` -/
def reserve (t : Tbl) (additional : Nat) : Except Err Tbl :=
  let spare := additional + t.cap / RATIO_D * (RATIO_D - RATIO_N)
  if t.free < spare then reserveRehash t additional else .ok t

/-- loop of `clear` / `clear_no_drop` (identical for `u32` elements): every visited slot becomes
`FREE`; stops right after the `len`-th element. `n` is the remaining `self.len` (non-zero). -/
def clearLoop : Nat → List Slot → List Slot
  | _, [] => []
  | n, s :: r =>
    .free :: (if s.isOcc then (if n - 1 = 0 then r else clearLoop (n - 1) r) else clearLoop n r)

/-- number of elements the `clear` loop sees before it stops or runs off the slice -/
def countOccL (l : List Slot) : Nat := l.countP Slot.isOcc

/-- `RawTable::clear` and `RawTable::clear_no_drop`; `free` is *not* updated by the code.
If `len` exceeds the number of occupied slots the real loop reaches
`unreachable_unchecked()`: modelled as `panic`. -/
def clear (t : Tbl) : Except Err Tbl :=
  if t.len = 0 then .ok t
  else if countOccL t.slots.toList < t.len then .error .panic
  else .ok { t with slots := (clearLoop t.len t.slots.toList).toArray, len := 0 }

/-- `RawTable::reset_no_drop`: `len = 0`, `free = 0` (since commit f20789c), and the slot array is
replaced by an empty one. -/
def resetNoDrop (_t : Tbl) : Tbl := { slots := #[], len := 0, free := 0 }

inductive FindRes where
  | found (i : Nat)
  | absent
  | diverge
  deriving DecidableEq, Repr

/-- the probe loop of `find`; `hs` is `S::from_hash(hash)`, `eq` is "is this `key`" -/
def findLoop (t : Tbl) (hs key : Nat) : Nat → Nat → FindRes
  | 0, _ => .diverge
  | fuel + 1, i =>
    match t.get i with
    | .occ st k =>
      if st = hs then
        if k = key then .found i else findLoop t hs key fuel (nextIdx t.cap i)
      else findLoop t hs key fuel (nextIdx t.cap i)
    | .free => .absent
    | .tomb => findLoop t hs key fuel (nextIdx t.cap i)

/-- `RawTable::find` -/
def find (t : Tbl) (h key : Nat) : Except Err (Option Nat) :=
  if t.len = 0 then .ok none
  else if t.free = 0 then .error .panic       -- debug_assert_ne!(self.free, 0, "find may diverge")
  else if t.cap = 0 then .error .panic        -- debug_assert!(self.data.len().is_power_of_two())
  else
    match findLoop t (fromHash h) key t.cap (h &&& (t.cap - 1)) with
    | .found i => .ok (some i)
    | .absent => .ok none
    | .diverge => .error .diverge

inductive SlotRes where
  /-- `Ok(index)` -/
  | found (i : Nat)
  /-- `Err(index)` -/
  | vacant (i : Nat)
  | diverge
  deriving DecidableEq, Repr

/-- the probe loop of `find_or_find_insert_slot` -/
def fofLoop (t : Tbl) (hs key : Nat) : Nat → Nat → Option Nat → SlotRes
  | 0, _, _ => .diverge
  | fuel + 1, i, ft =>
    match t.get i with
    | .occ st k =>
      if st = hs then
        if k = key then .found i else fofLoop t hs key fuel (nextIdx t.cap i) ft
      else fofLoop t hs key fuel (nextIdx t.cap i) ft
    | .free => .vacant (ft.getD i)
    | .tomb => fofLoop t hs key fuel (nextIdx t.cap i) (if ft.isNone then some i else ft)

/-- `RawTable::find_or_find_insert_slot` (the table may be rehashed by the initial `reserve(1)`) -/
def findOrFindInsertSlot (t : Tbl) (h key : Nat) : Except Err (Tbl × SlotRes) :=
  match reserve t 1 with
  | .error e => .error e
  | .ok t =>
    if t.cap = 0 then .error .panic          -- debug_assert!(is_power_of_two) / `0 - 1`
    else
      match fofLoop t (fromHash h) key t.cap (h &&& (t.cap - 1)) none with
      | .diverge => .error .diverge
      | r => .ok (t, r)

/-- `RawTable::insert_in_slot_unchecked` -/
def insertInSlot (t : Tbl) (h slot key : Nat) : Except Err Tbl :=
  if t.get slot ≠ .tomb then
    if t.free = 0 then .error .panic          -- `self.free -= 1` underflows
    else .ok { (t.set slot (.occ (fromHash h) key)) with len := t.len + 1, free := t.free - 1 }
  else .ok { (t.set slot (.occ (fromHash h) key)) with len := t.len + 1 }

inductive InsOut where
  | isNew (slot : Nat)
  | found (slot : Nat)
  deriving DecidableEq, Repr

/-- the way every user of the table inserts: `find_or_find_insert_slot`, and
`insert_in_slot_unchecked` into the reported slot if the element is absent -/
def insert (t : Tbl) (key h : Nat) : Except Err (Tbl × InsOut) :=
  match findOrFindInsertSlot t h key with
  | .error e => .error e
  | .ok (t, .found i) => .ok (t, .found i)
  | .ok (t, .vacant s) =>
    match insertInSlot t h s key with
    | .error e => .error e
    | .ok t' => .ok (t', .isNew s)
  | .ok (_, .diverge) => .error .diverge

/-- `RawTable::remove_at_slot_unchecked` -/
def removeAtSlot (t : Tbl) (slot : Nat) : Except Err Tbl :=
  if t.len = 0 then .error .panic             -- debug_assert_ne!(self.len, 0) / `self.len -= 1`
  else if (t.get (nextIdx t.cap slot)).isFree then
    .ok { (t.set slot .free) with len := t.len - 1, free := t.free + 1 }
  else
    .ok { (t.set slot .tomb) with len := t.len - 1 }

/-- `RawTable::remove_entry` -/
def remove (t : Tbl) (key h : Nat) : Except Err (Tbl × Bool) :=
  match find t h key with
  | .error e => .error e
  | .ok none => .ok (t, false)
  | .ok (some i) =>
    match removeAtSlot t i with
    | .error e => .error e
    | .ok t' => .ok (t', true)

/-- `RawTable::get` (returns the stored element) -/
def getKey (t : Tbl) (h key : Nat) : Except Err (Option Nat) :=
  match find t h key with
  | .error e => .error e
  | .ok none => .ok none
  | .ok (some i) => .ok (t.get i).key?

/-- `Iter::next` repeated until `None`: the first `n` elements in slot order (`n = self.len`) -/
def iterLoop : Nat → List Slot → List Nat
  | 0, _ => []
  | _, [] => []
  | n + 1, s :: r =>
    match s with
    | .occ _ k => k :: iterLoop n r
    | _ => iterLoop (n + 1) r

/-- `RawTable::iter().collect()`; if `len` exceeds the number of occupied slots the real iterator
runs off the slice (`debug_assert!(next.is_some())`) -/
def iter (t : Tbl) : Except Err (List Nat) :=
  if countOccL t.slots.toList < t.len then .error .panic else .ok (iterLoop t.len t.slots.toList)

/-- `Drain::next` repeated `budget` times: yielded elements, the visited prefix (all `FREE` now)
and the part of the slice not yet visited -/
def drainLoop : Nat → List Slot → List Nat × List Slot × List Slot
  | 0, l => ([], [], l)
  | _, [] => ([], [], [])
  | n + 1, s :: r =>
    match s with
    | .occ _ k => let (ks, v, u) := drainLoop n r; (k :: ks, .free :: v, u)
    | _ => let (ks, v, u) := drainLoop (n + 1) r; (ks, .free :: v, u)

/-- `RawTable::drain()`, `take` elements pulled out of the iterator, then the `Drain` is dropped.
`drain()` itself sets `len = 0` and `free = slots`; `Drop for Drain` turns *every* remaining slot
into `FREE` (commit 13377f3) and asserts that it met exactly the remaining elements. -/
def drainTake (t : Tbl) (take : Nat) : Except Err (Tbl × List Nat) :=
  let budget := min take t.len
  let (ks, visited, rest) := drainLoop budget t.slots.toList
  if ks.length + countOccL rest ≠ t.len then .error .panic   -- debug_assert_eq!(self.len, 0) / underflow / ran off the slice
  else .ok ({ slots := (visited ++ rest.map (fun _ => Slot.free)).toArray, len := 0, free := t.cap }, ks)

/-- `RawTable::drain().collect()` -/
def drain (t : Tbl) : Except Err (Tbl × List Nat) := drainTake t t.len

/-- state of the backwards scan of `retain` -/
structure RetainSt where
  /-- the part of the slice already processed (behind the current position) -/
  out : List Slot
  /-- `last_is_free` -/
  lif : Bool
  /-- `i`: elements still to visit -/
  i : Nat
  /-- `i == 0` was reached: the loop has returned -/
  done : Bool
  /-- elements handed to `drop`, most recent first -/
  droppedRev : List Nat
  /-- increments of `self.free` -/
  freeInc : Nat
  /-- decrements of `self.len` -/
  lenDec : Nat

/-- one iteration of `for slot in self.data.iter_mut().rev()` in `retain` -/
def retainStep (p : Nat → Bool) (s : Slot) (st : RetainSt) : RetainSt :=
  if st.done then { st with out := s :: st.out }
  else
    match s with
    | .free => { st with out := .free :: st.out, lif := true }
    | .tomb =>
      if st.lif then { st with out := .free :: st.out, freeInc := st.freeInc + 1 }
      else { st with out := .tomb :: st.out, lif := false }
    | .occ h k =>
      if !p k then
        if st.lif then
          { st with out := .free :: st.out, freeInc := st.freeInc + 1, lenDec := st.lenDec + 1,
                    droppedRev := k :: st.droppedRev, i := st.i - 1, done := (st.i - 1 == 0) }
        else
          { st with out := .tomb :: st.out, lenDec := st.lenDec + 1,
                    droppedRev := k :: st.droppedRev, i := st.i - 1, done := (st.i - 1 == 0) }
      else
        { st with out := .occ h k :: st.out, lif := false, i := st.i - 1, done := (st.i - 1 == 0) }

/-- the whole backwards scan (right fold = iteration from the last slot to the first) -/
def retainScan (p : Nat → Bool) (init : RetainSt) (l : List Slot) : RetainSt :=
  l.foldr (retainStep p) init

/-- `RawTable::retain`; returns the elements passed to `drop` in call order -/
def retain (t : Tbl) (p : Nat → Bool) : Except Err (Tbl × List Nat) :=
  if t.len = 0 then .ok (t, [])
  else if t.cap < t.len then .error .panic    -- debug_assert!(self.data.len() >= self.len)
  else
    let st := retainScan p
      { out := [], lif := (t.get 0).isFree, i := t.len, done := false, droppedRev := [],
        freeInc := 0, lenDec := 0 } t.slots.toList
    if !st.done then .error .panic            -- ran off the slice: unreachable_unchecked()
    else
      let t1 : Tbl := { slots := st.out.toArray, len := t.len - st.lenDec, free := t.free + st.freeInc }
      if t1.len < t1.cap / RATIO_D * (RATIO_D - RATIO_N) ∧ t1.cap ≥ MIN_CAP then
        match reserveRehash t1 0 with
        | .error e => .error e
        | .ok t2 => .ok (t2, st.droppedRev.reverse)
      else .ok (t1, st.droppedRev.reverse)

/-- `Clone for RawTable` (slots are copied one by one, `len` and `free` are copied) -/
def clone (t : Tbl) : Tbl := { slots := t.slots, len := t.len, free := t.free }

/-- `IntoIterator::into_iter().collect()`: same traversal as `iter`, the table is consumed -/
def intoIter (t : Tbl) : Except Err (List Nat) := iter t

/-- all elements in slot order (specification-level view of the contents) -/
def keys (t : Tbl) : List Nat := t.slots.toList.filterMap Slot.key?

end Tbl

end OxiddModel.HashTbl
