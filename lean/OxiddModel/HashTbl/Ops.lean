import OxiddModel.HashTbl.Model

/-!
The operations of the table as one datatype, `apply` (one operation on the model) and `run`
(a history).  The `tbl` driver executes `apply`; the history theorems of `Properties.lean` are
about `apply`/`run`.
-/
namespace OxiddModel.HashTbl
open Tbl

/-- the operations of the table (as issued by its users; `ins` is the combined insertion) -/
inductive Op where
  | new
  | withCap (n : Nat)
  | ins (k : Nat)
  | rem (k : Nat)
  | find (k : Nat)
  | get (k : Nat)
  | retain (p : Nat → Bool)
  | drain
  | drainTake (n : Nat)
  | clear
  | clearNoDrop
  | reset
  | reserve (n : Nat)
  | clone
  | iter
  | intoIter

/-- what an operation reports -/
inductive Obs where
  | unit
  | inserted (slot : Nat)
  | present (slot : Nat)
  | removed (b : Bool)
  | found (slot : Option Nat)
  | got (v : Option Nat)
  | keys (l : List Nat)
  deriving DecidableEq, Repr

/-- run one operation on the model (`hf` supplies the hash of a key) -/
def apply (hf : Nat → Nat) (t : Tbl) : Op → Except Err (Tbl × Obs)
  | .new => .ok (Tbl.new, .unit)
  | .withCap n => match Tbl.withCapacity n with
    | .ok t' => .ok (t', .unit)
    | .error e => .error e
  | .ins k => match t.insert k (hf k) with
    | .ok (t', .isNew s) => .ok (t', .inserted s)
    | .ok (t', .found s) => .ok (t', .present s)
    | .error e => .error e
  | .rem k => match t.remove k (hf k) with
    | .ok (t', b) => .ok (t', .removed b)
    | .error e => .error e
  | .find k => match t.find (hf k) k with
    | .ok o => .ok (t, .found o)
    | .error e => .error e
  | .get k => match t.getKey (hf k) k with
    | .ok o => .ok (t, .got o)
    | .error e => .error e
  | .retain p => match t.retain p with
    | .ok (t', d) => .ok (t', .keys d)
    | .error e => .error e
  | .drain => match t.drain with
    | .ok (t', d) => .ok (t', .keys d)
    | .error e => .error e
  | .drainTake n => match t.drainTake n with
    | .ok (t', d) => .ok (t', .keys d)
    | .error e => .error e
  | .clear => match t.clear with
    | .ok t' => .ok (t', .unit)
    | .error e => .error e
  | .clearNoDrop => match t.clear with
    | .ok t' => .ok (t', .unit)
    | .error e => .error e
  | .reset => .ok (t.resetNoDrop, .unit)
  | .reserve n => match t.reserve n with
    | .ok t' => .ok (t', .unit)
    | .error e => .error e
  | .clone => .ok (t.clone, .unit)
  | .iter => match t.iter with
    | .ok d => .ok (t, .keys d)
    | .error e => .error e
  | .intoIter => match t.intoIter with
    | .ok d => .ok (Tbl.new, .keys d)
    | .error e => .error e

/-- run a history -/
def run (hf : Nat → Nat) : Tbl → List Op → Except Err (Tbl × List Obs)
  | t, [] => .ok (t, [])
  | t, op :: ops =>
    match apply hf t op with
    | .error e => .error e
    | .ok (t', o) =>
      match run hf t' ops with
      | .error e => .error e
      | .ok (t'', os) => .ok (t'', o :: os)

end OxiddModel.HashTbl
