import OxiddModel.HashTbl.LemmasInsert
import OxiddModel.HashTbl.LemmasRetain
import OxiddModel.HashTbl.Ops

/-!
# C17 — the open-addressing table behaves as a set (headline theorems)

Property text: *"The open-addressing table that backs the unique tables contains exactly the
elements inserted and not since removed: lookups find precisely those elements and terminate,
iteration/len/drain/into_iter report them exactly once, and retain keeps exactly the elements
accepted by the predicate.  This holds across growth, shrinking, tombstone accumulation, clone and
clearing, for any hash distribution including total collisions."*

All theorems are about the executable model `OxiddModel.HashTbl.Tbl` (the functions the `tbl`
driver runs).  `hf : Nat → Nat` is the hash function the callers use; it is **arbitrary**
(universally quantified) in every theorem, so total collisions, hashes that differ only above the
mask or above the 31 status bits, wrap-around clusters … are all covered.

The abstraction of a table is `t.keys : List Nat` (the elements in slot order); the theorems
speak about membership in `t.keys` and prove `t.keys.Nodup` (`keys_nodup`), which together is
"equal as sets, every element exactly once" (`List.Perm`, see `tbl_history`).

Outcomes: every operation returns `Except Err …`.  Under the invariant the only possible error
is `Err.capacity` (`Status::check_capacity` panics: more than `2^31` slots would be needed);
`Err.panic` (a debug assertion / underflow of the modelled code) and `Err.diverge` (a probe loop
that never returns) are proved impossible for *every* history — `reset_no_drop` included, since
it resets `free` together with the slot array (fix f20789c in /repo; before it a stale `free`
counter let `insert, reset_no_drop, insert` index an empty slot array — see the regression
`example` at the end).
-/
namespace OxiddModel.HashTbl
open Tbl

/-! ## The invariant -/

/-- `tbl_inv` holds initially. (Preservation is part of every `*_spec` theorem below.) -/
theorem tbl_inv_new (hf : Nat → Nat) : Inv hf Tbl.new := new_inv hf

/-- every element is stored exactly once; `len` counts them -/
theorem keys_nodup {hf : Nat → Nat} {t : Tbl} (h : Inv hf t) : t.keys.Nodup ∧ t.len = t.keys.length :=
  ⟨nodup_keys h.uniq, by rw [h.lenOK, countOcc_eq_length_keys]⟩

/-! ## Termination of probing -/

/-- `probe_terminates`: with a power-of-two number of slots and a `free` counter that is at least 1
and does not over-estimate the number of `FREE` slots, `find` never runs out of fuel — for *any*
hash value and key. -/
theorem probe_terminates {t : Tbl} (hcap : IsCap t.cap) (hle : t.free ≤ t.countFree) (h1 : 1 ≤ t.free)
    (h key : Nat) : t.find h key ≠ .error .diverge :=
  find_terminates hcap (exists_free_of_countFree_pos (by omega)) h key

/-- `reserve_post`: `reserve(n)` preserves invariant and contents and leaves
`free ≥ n + slots/4`; in particular `reserve(1)` establishes `free ≥ 1` on a non-empty slot array,
which is what the probe loop of `find_or_find_insert_slot` relies on. -/
theorem reserve_post {hf : Nat → Nat} {t t' : Tbl} (hinv : Inv hf t) (n : Nat)
    (h : t.reserve n = .ok t') :
    Inv hf t' ∧ (∀ x, x ∈ t'.keys ↔ x ∈ t.keys) ∧ n + t'.cap / 4 ≤ t'.free ∧ (n ≠ 0 → IsCap t'.cap) := by
  rcases reserve_spec hinv n with ⟨t1, h1, h2, h3, _, h5, h6⟩ | ⟨h1, _⟩
  · rw [h1] at h; cases h
    exact ⟨h2, fun x => by rw [mem_keys_iff, mem_keys_iff]; exact h3 x, h5, h6⟩
  · rw [h1] at h; cases h

/-- `reserve` fails only with the capacity check -/
theorem reserve_error {hf : Nat → Nat} {t : Tbl} (hinv : Inv hf t) (n : Nat) (e : Err)
    (h : t.reserve n = .error e) : e = .capacity ∧ checkCapacity (nextCapacity (t.len + n)) = false := by
  rcases reserve_spec hinv n with ⟨t1, h1, _⟩ | ⟨h1, h2⟩
  · rw [h1] at h; cases h
  · rw [h1] at h; cases h; exact ⟨rfl, h2⟩

/-! ## Refinement of the abstract set, operation by operation -/

/-- `find_spec`: `find` terminates and returns a slot that holds the key iff the key is in the table -/
theorem find_spec {hf : Nat → Nat} {t : Tbl} (hinv : Inv hf t) (key : Nat) :
    (∃ i, t.find (hf key) key = .ok (some i) ∧ t.get i = .occ (fromHash (hf key)) key ∧ key ∈ t.keys) ∨
    (t.find (hf key) key = .ok none ∧ key ∉ t.keys) := by
  rcases find_spec' hinv key with ⟨i, h1, h2⟩ | ⟨h1, h2⟩
  · exact .inl ⟨i, h1, h2, (mem_keys_iff t key).2 ⟨i, _, h2⟩⟩
  · exact .inr ⟨h1, fun h => h2 ((mem_keys_iff t key).1 h)⟩

/-- `get` returns the stored element -/
theorem get_spec {hf : Nat → Nat} {t : Tbl} (hinv : Inv hf t) (key : Nat) :
    (t.getKey (hf key) key = .ok (some key) ∧ key ∈ t.keys) ∨
    (t.getKey (hf key) key = .ok none ∧ key ∉ t.keys) := by
  unfold getKey
  rcases find_spec hinv key with ⟨i, h1, h2, h3⟩ | ⟨h1, h2⟩
  · rw [h1]; simp only [h2, Slot.key?]; exact .inl ⟨trivial, h3⟩
  · rw [h1]; exact .inr ⟨rfl, h2⟩

/-- `insert_spec`: `find_or_find_insert_slot` followed by `insert_in_slot_unchecked` for an absent
key: the invariant is preserved, the contents become `keys ∪ {key}`, the reported slot holds the
key, and the answer `new`/`found` tells whether the key was absent. The only failure is the
capacity check. -/
theorem insert_spec {hf : Nat → Nat} {t : Tbl} (hinv : Inv hf t) (key : Nat) :
    (∃ t' o, t.insert key (hf key) = .ok (t', o) ∧ Inv hf t' ∧
      (∀ x, x ∈ t'.keys ↔ (x = key ∨ x ∈ t.keys)) ∧
      ((∃ s, o = .isNew s ∧ key ∉ t.keys ∧ t'.get s = .occ (fromHash (hf key)) key) ∨
       (∃ s, o = .found s ∧ key ∈ t.keys ∧ t'.get s = .occ (fromHash (hf key)) key))) ∨
    (t.insert key (hf key) = .error .capacity ∧ checkCapacity (nextCapacity (t.len + 1)) = false) := by
  rcases insert_spec' hinv key with ⟨t', o, h1, h2, h3, h4⟩ | h
  · refine .inl ⟨t', o, h1, h2, fun x => by rw [mem_keys_iff, mem_keys_iff]; exact h3 x, ?_⟩
    rw [mem_keys_iff]
    exact h4
  · exact .inr h

/-- `remove_spec`: `remove_entry` returns `Some` iff the key was present; afterwards the contents
are `keys \ {key}` -/
theorem remove_spec {hf : Nat → Nat} {t : Tbl} (hinv : Inv hf t) (key : Nat) :
    ∃ t' b, t.remove key (hf key) = .ok (t', b) ∧ Inv hf t' ∧ t'.cap = t.cap ∧
      (b = true ↔ key ∈ t.keys) ∧ ∀ x, x ∈ t'.keys ↔ (x ∈ t.keys ∧ x ≠ key) := by
  obtain ⟨t', b, h1, h2, h3, h4, h5⟩ := remove_spec' hinv key
  exact ⟨t', b, h1, h2, h3, by rw [mem_keys_iff]; exact h4,
    fun x => by rw [mem_keys_iff, mem_keys_iff]; exact h5 x⟩

/-- `retain_spec`: exactly the accepted elements stay (also through the shrinking rehash); the
rejected ones are passed to `drop`, each exactly once -/
theorem retain_spec {hf : Nat → Nat} {t : Tbl} (hinv : Inv hf t) (p : Nat → Bool) :
    ∃ t' d, t.retain p = .ok (t', d) ∧ Inv hf t' ∧
      (∀ x, x ∈ t'.keys ↔ (x ∈ t.keys ∧ p x = true)) ∧
      d.Nodup ∧ (∀ x, x ∈ d ↔ (x ∈ t.keys ∧ p x = false)) := by
  obtain ⟨t', h1, h2, h3⟩ := retain_spec' hinv p
  refine ⟨t', _, h1, h2, fun x => by rw [mem_keys_iff, mem_keys_iff]; exact h3 x, ?_, ?_⟩
  · rw [(List.reverse_perm _).nodup_iff]
    exact List.Nodup.sublist List.filter_sublist (nodup_keys hinv.uniq)
  · intro x
    rw [List.mem_reverse, List.mem_filter]
    simp

/-- `drain_spec`: a completely consumed `Drain` yields every element exactly once and leaves an
empty table of the same capacity whose `free` counter is exact -/
theorem drain_spec {hf : Nat → Nat} {t : Tbl} (hinv : Inv hf t) :
    ∃ t', t.drain = .ok (t', t.keys) ∧ Inv hf t' ∧ t'.cap = t.cap ∧ t'.len = 0 ∧ t'.keys = [] ∧
      t'.free = t'.countFree := by
  obtain ⟨t', h1, h2, h3, h4, h5, _⟩ := drain_spec' hinv
  refine ⟨t', h1, h2, h3, h4, ?_, h5⟩
  have := (keys_nodup h2).2
  rw [h4] at this
  exact List.eq_nil_of_length_eq_zero this.symm

/-- a `Drain` that is dropped after `n` elements: those `n` elements were yielded, all others are
dropped with it, and the table is as after a complete drain -/
theorem drainTake_spec {hf : Nat → Nat} {t : Tbl} (hinv : Inv hf t) (n : Nat) :
    ∃ t', t.drainTake n = .ok (t', t.keys.take n) ∧ Inv hf t' ∧ t'.cap = t.cap ∧ t'.keys = [] ∧
      t'.free = t'.countFree := by
  obtain ⟨t', h1, h2, h3, h4, h5, _⟩ := drainTake_spec' hinv n
  refine ⟨t', h1, h2, h3, ?_, h5⟩
  have := (keys_nodup h2).2
  rw [h4] at this
  exact List.eq_nil_of_length_eq_zero this.symm

/-- `iter_spec`: `iter` (and `into_iter`) report each element exactly once, `len` of them -/
theorem iter_spec {hf : Nat → Nat} {t : Tbl} (hinv : Inv hf t) :
    t.iter = .ok t.keys ∧ t.intoIter = .ok t.keys ∧ t.keys.Nodup ∧ t.keys.length = t.len :=
  ⟨iter_spec' hinv, iter_spec' hinv, (keys_nodup hinv).1, (keys_nodup hinv).2.symm⟩

/-- `clone_spec`: the clone is the same table -/
theorem clone_spec (t : Tbl) : t.clone = t := rfl

/-- `clear_spec`: `clear`/`clear_no_drop` empty the table and keep the capacity (the `free`
counter is left untouched by the code, which keeps it a lower bound) -/
theorem clear_spec {hf : Nat → Nat} {t : Tbl} (hinv : Inv hf t) :
    ∃ t', t.clear = .ok t' ∧ Inv hf t' ∧ t'.cap = t.cap ∧ t'.keys = [] := by
  obtain ⟨t', h1, h2, h3, h4, _⟩ := clear_spec' hinv
  refine ⟨t', h1, h2, h3, ?_⟩
  have := (keys_nodup h2).2
  rw [h4] at this
  exact List.eq_nil_of_length_eq_zero this.symm

/-- `reset_spec`: `reset_no_drop` leaves an empty table without slots that satisfies the invariant,
from *any* state (`free` is reset together with the slot array) -/
theorem resetNoDrop_inv (hf : Nat → Nat) (t : Tbl) : Inv hf t.resetNoDrop := by
  apply inv_of_no_occ
  · left; rfl
  · rfl
  · rfl
  · exact Nat.zero_le _
  · show 0 / 4 ≤ 0; decide

theorem reset_spec (hf : Nat → Nat) (t : Tbl) :
    Inv hf t.resetNoDrop ∧ t.resetNoDrop.keys = [] ∧ t.resetNoDrop.cap = 0 ∧ t.resetNoDrop.free = 0 :=
  ⟨resetNoDrop_inv hf t, rfl, rfl, rfl⟩

/-- `with_capacity` -/
theorem withCapacity_spec (hf : Nat → Nat) (n : Nat) :
    (∃ t, Tbl.withCapacity n = .ok t ∧ Inv hf t ∧ t.keys = [] ∧ t.cap = nextCapacity n) ∨
    (Tbl.withCapacity n = .error .capacity ∧ checkCapacity (nextCapacity n) = false) := by
  rcases withCapacity_spec' hf n with ⟨t, h1, h2, h3, h4, _, _⟩ | h
  · refine .inl ⟨t, h1, h2, ?_, h3⟩
    have := (keys_nodup h2).2
    rw [h4] at this
    exact List.eq_nil_of_length_eq_zero this.symm
  · exact .inr h

/-! ## Histories -/

/-- the abstract set (a duplicate-free list) after one operation -/
def absStep (S : List Nat) : Op → List Nat
  | .new => []
  | .withCap _ => []
  | .ins k => if k ∈ S then S else k :: S
  | .rem k => S.filter (fun x => x != k)
  | .retain p => S.filter p
  | .drain => []
  | .drainTake _ => []
  | .clear => []
  | .clearNoDrop => []
  | .reset => []
  | .intoIter => []
  | _ => S

def absRun (S : List Nat) (ops : List Op) : List Nat := ops.foldl absStep S

/-- what an operation must report when the abstract set is `S` -/
def ObsOK (S : List Nat) : Op → Obs → Prop
  | .ins k, .inserted _ => k ∉ S
  | .ins k, .present _ => k ∈ S
  | .rem k, .removed b => (b = true ↔ k ∈ S)
  | .find k, .found o => (o.isSome = true ↔ k ∈ S)
  | .get k, .got o => (o = some k ∧ k ∈ S) ∨ (o = none ∧ k ∉ S)
  | .retain p, .keys d => d.Nodup ∧ ∀ x, x ∈ d ↔ (x ∈ S ∧ p x = false)
  | .drain, .keys d => d.Perm S
  | .drainTake n, .keys d => d.Nodup ∧ (∀ x, x ∈ d → x ∈ S) ∧ d.length = min n S.length
  | .iter, .keys d => d.Perm S
  | .intoIter, .keys d => d.Perm S
  | .new, .unit => True
  | .withCap _, .unit => True
  | .clear, .unit => True
  | .clearNoDrop, .unit => True
  | .reset, .unit => True
  | .reserve _, .unit => True
  | .clone, .unit => True
  | _, _ => False

def ObsAll : List Nat → List Op → List Obs → Prop
  | _, [], [] => True
  | S, op :: ops, o :: os => ObsOK S op o ∧ ObsAll (absStep S op) ops os
  | _, _, _ => False

/-- refinement relation: invariant, and the table's contents are the abstract set -/
def Rel (hf : Nat → Nat) (t : Tbl) (S : List Nat) : Prop :=
  Inv hf t ∧ S.Nodup ∧ ∀ x, x ∈ t.keys ↔ x ∈ S

theorem Rel.perm {hf : Nat → Nat} {t : Tbl} {S : List Nat} (h : Rel hf t S) : t.keys.Perm S :=
  (List.perm_ext_iff_of_nodup (keys_nodup h.1).1 h.2.1).2 h.2.2

theorem rel_empty {hf : Nat → Nat} {t : Tbl} (hinv : Inv hf t) (hk : t.keys = []) : Rel hf t [] :=
  ⟨hinv, List.nodup_nil, fun x => by rw [hk]⟩

/-- one step of the simulation: every operation either succeeds, re-establishes the refinement
relation for the abstract successor state and reports what the abstract set prescribes, or fails
with the capacity check -/
theorem step_sim {hf : Nat → Nat} {t : Tbl} {S : List Nat} (h : Rel hf t S) (op : Op) :
    (∃ t' o, apply hf t op = .ok (t', o) ∧ Rel hf t' (absStep S op) ∧ ObsOK S op o) ∨
    apply hf t op = .error .capacity := by
  obtain ⟨hinv, hnd, hmem⟩ := h
  have hperm : t.keys.Perm S := Rel.perm ⟨hinv, hnd, hmem⟩
  cases op with
  | new => exact .inl ⟨_, _, rfl, rel_empty (new_inv hf) rfl, trivial⟩
  | withCap n =>
    rcases withCapacity_spec hf n with ⟨t', h1, h2, h3, _⟩ | ⟨h1, _⟩
    · exact .inl ⟨t', .unit, by simp [apply, h1], rel_empty h2 h3, trivial⟩
    · exact .inr (by simp [apply, h1])
  | ins k =>
    rcases insert_spec hinv k with ⟨t', o, h1, h2, h3, h4⟩ | ⟨h1, _⟩
    · left
      rcases h4 with ⟨s, rfl, g1, _⟩ | ⟨s, rfl, g1, _⟩
      · have hk : k ∉ S := fun hh => g1 ((hmem k).2 hh)
        refine ⟨t', .inserted s, by simp [apply, h1], ⟨h2, ?_, ?_⟩, hk⟩
        · simp only [absStep, hk, if_false]; exact List.nodup_cons.2 ⟨hk, hnd⟩
        · intro x; simp only [absStep, hk, if_false]; rw [h3 x, hmem x, List.mem_cons]
      · have hk : k ∈ S := (hmem k).1 g1
        refine ⟨t', .present s, by simp [apply, h1], ⟨h2, ?_, ?_⟩, hk⟩
        · simp only [absStep, hk, if_true]; exact hnd
        · intro x; simp only [absStep, hk, if_true]; rw [h3 x, hmem x]
          constructor
          · rintro (rfl | hx)
            · exact hk
            · exact hx
          · intro hx; exact .inr hx
    · exact .inr (by simp [apply, h1])
  | rem k =>
    obtain ⟨t', b, h1, h2, _, h4, h5⟩ := remove_spec hinv k
    refine .inl ⟨t', .removed b, by simp [apply, h1], ⟨h2, ?_, ?_⟩, by show (b = true ↔ k ∈ S); rw [h4, hmem k]⟩
    · exact List.Nodup.sublist List.filter_sublist hnd
    · intro x; simp only [absStep]; rw [h5 x, hmem x, List.mem_filter]; simp
  | find k =>
    rcases find_spec hinv k with ⟨i, h1, _, h3⟩ | ⟨h1, h2⟩
    · exact .inl ⟨t, .found (some i), by simp [apply, h1], ⟨hinv, hnd, hmem⟩,
        by simp only [ObsOK, Option.isSome_some, true_iff]; exact (hmem k).1 h3⟩
    · exact .inl ⟨t, .found none, by simp [apply, h1], ⟨hinv, hnd, hmem⟩,
        by simp only [ObsOK, Option.isSome_none, Bool.false_eq_true, false_iff]; exact fun hh => h2 ((hmem k).2 hh)⟩
  | get k =>
    rcases get_spec hinv k with ⟨h1, h2⟩ | ⟨h1, h2⟩
    · exact .inl ⟨t, .got (some k), by simp [apply, h1], ⟨hinv, hnd, hmem⟩, .inl ⟨rfl, (hmem k).1 h2⟩⟩
    · exact .inl ⟨t, .got none, by simp [apply, h1], ⟨hinv, hnd, hmem⟩, .inr ⟨rfl, fun hh => h2 ((hmem k).2 hh)⟩⟩
  | retain p =>
    obtain ⟨t', d, h1, h2, h3, h4, h5⟩ := retain_spec hinv p
    refine .inl ⟨t', .keys d, by simp [apply, h1], ⟨h2, ?_, ?_⟩, h4, fun x => by rw [h5 x, hmem x]⟩
    · exact List.Nodup.sublist List.filter_sublist hnd
    · intro x; simp only [absStep]; rw [h3 x, hmem x, List.mem_filter]
  | drain =>
    obtain ⟨t', h1, h2, _, _, h5, _⟩ := drain_spec hinv
    exact .inl ⟨t', .keys t.keys, by simp [apply, h1], rel_empty h2 h5, hperm⟩
  | drainTake n =>
    obtain ⟨t', h1, h2, _, h4, _⟩ := drainTake_spec hinv n
    refine .inl ⟨t', .keys (t.keys.take n), by simp [apply, h1], rel_empty h2 h4, ?_, ?_, ?_⟩
    · exact List.Nodup.sublist (List.take_sublist n _) (keys_nodup hinv).1
    · intro x hx; exact (hmem x).1 (List.mem_of_mem_take hx)
    · rw [List.length_take, hperm.length_eq]
  | clear =>
    obtain ⟨t', h1, h2, _, h4⟩ := clear_spec hinv
    exact .inl ⟨t', .unit, by simp [apply, h1], rel_empty h2 h4, trivial⟩
  | clearNoDrop =>
    obtain ⟨t', h1, h2, _, h4⟩ := clear_spec hinv
    exact .inl ⟨t', .unit, by simp [apply, h1], rel_empty h2 h4, trivial⟩
  | reset => exact .inl ⟨_, _, rfl, rel_empty (resetNoDrop_inv hf t) rfl, trivial⟩
  | reserve n =>
    rcases reserve_spec hinv n with ⟨t', h1, h2, h3, _⟩ | ⟨h1, _⟩
    · refine .inl ⟨t', .unit, by simp [apply, h1], ⟨h2, hnd, ?_⟩, trivial⟩
      intro x; rw [mem_keys_iff, h3 x, ← mem_keys_iff, hmem x]; exact Iff.rfl
    · exact .inr (by simp [apply, h1])
  | clone => exact .inl ⟨t, .unit, rfl, ⟨hinv, hnd, hmem⟩, trivial⟩
  | iter =>
    have h1 := (iter_spec hinv).1
    exact .inl ⟨t, .keys t.keys, by simp [apply, h1], ⟨hinv, hnd, hmem⟩, hperm⟩
  | intoIter =>
    have h1 := (iter_spec hinv).2.1
    exact .inl ⟨Tbl.new, .keys t.keys, by simp [apply, h1], rel_empty (new_inv hf) rfl, hperm⟩

theorem run_sim {hf : Nat → Nat} : ∀ (ops : List Op) (t : Tbl) (S : List Nat), Rel hf t S →
    (∃ t' obs, run hf t ops = .ok (t', obs) ∧ Rel hf t' (absRun S ops) ∧ ObsAll S ops obs) ∨
    run hf t ops = .error .capacity := by
  intro ops
  induction ops with
  | nil => intro t S h; exact .inl ⟨t, [], rfl, h, trivial⟩
  | cons op ops ih =>
    intro t S h
    rcases step_sim h op with ⟨t1, o, h1, h2, h3⟩ | h1
    · rcases ih t1 _ h2 with ⟨t2, os, g1, g2, g3⟩ | g1
      · exact .inl ⟨t2, o :: os, by simp [run, h1, g1], g2, ⟨h3, g3⟩⟩
      · exact .inr (by simp [run, h1, g1])
    · exact .inr (by simp [run, h1])

/-- **`tbl_history`**: for every hash function and every operation sequence from the empty table
(every operation of the table, `reset_no_drop` included): if the run completes, the invariant holds,
the contents of the table are — as a set, each element stored once — exactly what the abstract
set semantics prescribes, and every single answer along the way (`find`, `get`, `new`/`found` of
an insertion, `Some`/`None` of a removal, the elements yielded by `drain`/`iter`/`into_iter`, the
elements dropped by `retain`) was the one prescribed by the abstract set at that moment. -/
theorem tbl_history (hf : Nat → Nat) (ops : List Op) (t : Tbl) (obs : List Obs)
    (h : run hf Tbl.new ops = .ok (t, obs)) :
    Inv hf t ∧ t.keys.Perm (absRun [] ops) ∧ (∀ k, k ∈ t.keys ↔ k ∈ absRun [] ops) ∧
      t.len = (absRun [] ops).length ∧ ObsAll [] ops obs := by
  rcases run_sim ops Tbl.new [] (rel_empty (new_inv hf) rfl) with ⟨t', obs', h1, h2, h3⟩ | h1
  · rw [h1] at h; cases h
    exact ⟨h2.1, h2.perm, h2.2.2, by rw [(keys_nodup h2.1).2, h2.perm.length_eq], h3⟩
  · rw [h1] at h; cases h

/-- a history never panics and never hangs; it can only stop with the capacity check
(`> 2^31` slots requested) -/
theorem tbl_history_total (hf : Nat → Nat) (ops : List Op) (e : Err)
    (h : run hf Tbl.new ops = .error e) : e = .capacity := by
  rcases run_sim ops Tbl.new [] (rel_empty (new_inv hf) rfl) with ⟨t', obs', h1, _⟩ | h1
  · rw [h1] at h; cases h
  · rw [h1] at h; cases h; rfl

/-- `op` removes `k` from the set -/
def Removes : Op → Nat → Prop
  | .rem k', k => k' = k
  | .retain p, k => p k = false
  | .new, _ => True
  | .withCap _, _ => True
  | .drain, _ => True
  | .drainTake _, _ => True
  | .clear, _ => True
  | .clearNoDrop, _ => True
  | .reset, _ => True
  | .intoIter, _ => True
  | _, _ => False

theorem mem_absStep (S : List Nat) (op : Op) (k : Nat) :
    k ∈ absStep S op ↔ (op = .ins k ∨ (k ∈ S ∧ ¬ Removes op k)) := by
  cases op <;> simp only [absStep, Removes, List.not_mem_nil, not_true_eq_false, and_false,
    not_false_eq_true, and_true, reduceCtorEq, false_or]
  case ins k' =>
    by_cases h : k' ∈ S
    · simp only [h, if_true, Op.ins.injEq]
      constructor
      · intro hk; exact .inr hk
      · rintro (rfl | hk)
        · exact h
        · exact hk
    · simp only [h, if_false, List.mem_cons, Op.ins.injEq]
      constructor
      · rintro (rfl | hk)
        · exact .inl rfl
        · exact .inr hk
      · rintro (rfl | hk)
        · exact .inl rfl
        · exact .inr hk
  case rem k' =>
    rw [List.mem_filter]
    simp only [bne_iff_ne, ne_eq]
    constructor
    · rintro ⟨h1, h2⟩; exact ⟨h1, fun h => h2 h.symm⟩
    · rintro ⟨h1, h2⟩; exact ⟨h1, fun h => h2 h.symm⟩
  case retain p =>
    rw [List.mem_filter]
    simp

/-- the abstract semantics in words: `k` is in the set after `ops` (started from `S`) iff it was
in `S` and no operation removed it, or it was inserted at some point and no later operation
removed it -/
theorem mem_absRun_iff (ops : List Op) : ∀ (S : List Nat) (k : Nat),
    k ∈ absRun S ops ↔
      ((k ∈ S ∧ ∀ op, op ∈ ops → ¬ Removes op k) ∨
       (∃ pre post, ops = pre ++ Op.ins k :: post ∧ ∀ op, op ∈ post → ¬ Removes op k)) := by
  induction ops with
  | nil =>
    intro S k
    simp [absRun]
  | cons op ops ih =>
    intro S k
    have hcons : absRun S (op :: ops) = absRun (absStep S op) ops := rfl
    rw [hcons, ih, mem_absStep]
    constructor
    · rintro (⟨hop | ⟨hS, hnr⟩, hall⟩ | ⟨pre, post, rfl, hpost⟩)
      · subst hop; exact .inr ⟨[], ops, rfl, hall⟩
      · refine .inl ⟨hS, ?_⟩
        intro o ho
        rcases List.mem_cons.1 ho with rfl | ho
        · exact hnr
        · exact hall o ho
      · exact .inr ⟨op :: pre, post, rfl, hpost⟩
    · rintro (⟨hS, hall⟩ | ⟨pre, post, heq, hpost⟩)
      · exact .inl ⟨.inr ⟨hS, hall op (List.mem_cons_self)⟩, fun o ho => hall o (List.mem_cons_of_mem _ ho)⟩
      · cases pre with
        | nil =>
          simp only [List.nil_append, List.cons.injEq] at heq
          obtain ⟨rfl, rfl⟩ := heq
          exact .inl ⟨.inl rfl, hpost⟩
        | cons p pre' =>
          simp only [List.cons_append, List.cons.injEq] at heq
          obtain ⟨rfl, rfl⟩ := heq
          exact .inr ⟨pre', post, rfl, hpost⟩

/-- **the property in its own words**: after any completed history from the empty table, `k` is
found in the table iff it was inserted and not since removed (by `remove_entry`, a rejecting
`retain`, or one of the emptying operations). -/
theorem tbl_contains_inserted_not_removed (hf : Nat → Nat) (ops : List Op) (t : Tbl) (obs : List Obs)
    (h : run hf Tbl.new ops = .ok (t, obs)) (k : Nat) :
    k ∈ t.keys ↔ ∃ pre post, ops = pre ++ Op.ins k :: post ∧ ∀ op, op ∈ post → ¬ Removes op k := by
  rw [(tbl_history hf ops t obs h).2.2.1 k, mem_absRun_iff]
  simp


deriving instance DecidableEq for Except

/-- every operation preserves the invariant (`tbl_inv`) -/
theorem tbl_inv_preserved {hf : Nat → Nat} {t t' : Tbl} {o : Obs} (hinv : Inv hf t) (op : Op)
    (h : apply hf t op = .ok (t', o)) : Inv hf t' := by
  have hrel : Rel hf t t.keys := ⟨hinv, (keys_nodup hinv).1, fun _ => Iff.rfl⟩
  rcases step_sim hrel op with ⟨t1, ob, h1, h2, _⟩ | h1
  · rw [h1] at h; cases h; exact h2.1
  · rw [h1] at h; cases h

/-- no operation panics or hangs under the invariant -/
theorem apply_error_capacity {hf : Nat → Nat} {t : Tbl} {e : Err} (hinv : Inv hf t) (op : Op)
    (h : apply hf t op = .error e) : e = .capacity := by
  have hrel : Rel hf t t.keys := ⟨hinv, (keys_nodup hinv).1, fun _ => Iff.rfl⟩
  rcases step_sim hrel op with ⟨t1, ob, h1, _⟩ | h1
  · rw [h1] at h; cases h
  · rw [h1] at h; cases h; rfl

/-! ## Non-vacuity: the hypotheses are satisfiable on non-trivial states

All keys collide (`hfConst`), the history leaves tombstones, elements displaced from their home
slot and a reused tombstone; a second history grows the table (rehash) and shrinks it again. -/

/-- total collisions -/
def hfConst : Nat → Nat := fun _ => 7

def exOps : List Op := [.ins 1, .ins 2, .ins 3, .ins 4, .rem 2, .rem 1, .ins 5, .find 3, .rem 9]

/-- the state reached by `exOps`: `5 T 3 4` in slots 7–10 of 16 -/
def exT : Tbl :=
  { slots := #[.free, .free, .free, .free, .free, .free, .free, .occ 7 5, .tomb, .occ 7 3, .occ 7 4,
               .free, .free, .free, .free, .free],
    len := 3, free := 12 }

theorem exT_run : run hfConst Tbl.new exOps =
    .ok (exT, [.inserted 7, .inserted 8, .inserted 9, .inserted 10, .removed true, .removed true,
      .inserted 7, .found (some 9), .removed false]) := by
  decide +kernel

theorem exT_inv : Inv hfConst exT := (tbl_history hfConst exOps _ _ exT_run).1

example : Inv hfConst exT ∧ exT.keys = [5, 3, 4] ∧ exT.get 8 = .tomb := ⟨exT_inv, by decide +kernel, by decide +kernel⟩

-- `find_spec`, both disjuncts occur
example : exT.find (hfConst 4) 4 = .ok (some 10) ∧ exT.find (hfConst 2) 2 = .ok none := by decide +kernel
-- `probe_terminates`: its hypotheses hold on `exT`
example : IsCap exT.cap ∧ exT.free ≤ exT.countFree ∧ 1 ≤ exT.free :=
  ⟨⟨4, by decide, by decide, by decide +kernel⟩, by decide +kernel, by decide +kernel⟩
-- `insert_spec`: a new key reuses the tombstone, a present key is found
example : (exT.insert 6 (hfConst 6)).map (·.2) = .ok (.isNew 8) ∧
    (exT.insert 3 (hfConst 3)).map (·.2) = .ok (.found 9) := by decide +kernel
-- `remove_spec`
example : (exT.remove 3 (hfConst 3)).map (·.1.keys) = .ok [5, 4] := by decide +kernel
-- `retain_spec` (with the shrinking rehash: 1 < 16/4) and `drain_spec`, `iter_spec`, `clear_spec`
example : (exT.retain (fun k => k == 4)).map (fun r => (r.1.keys, r.2)) = .ok ([4], [3, 5]) := by
  decide +kernel
example : exT.drain.map (·.2) = .ok [5, 3, 4] ∧ exT.iter = .ok [5, 3, 4] ∧
    (exT.drainTake 1).map (·.2) = .ok [5] ∧ exT.clear.map (·.keys) = .ok [] := by decide +kernel

/-- growth: 13 colliding keys do not fit into 16 slots; then all but one are removed by `retain` -/
def exOps2 : List Op :=
  (List.range 13).map Op.ins ++ [.retain (fun k => k == 12), .ins 0, .drainTake 1, .ins 3]

theorem exOps2_run : (run hfConst Tbl.new exOps2).map (fun r => (r.1.cap, r.1.keys)) = .ok (16, [3]) := by
  decide +kernel

-- `reserve_post`: rehash to 32 slots
example : ((exT.reserve 20).map (fun t => (t.cap, t.free, t.keys))) = .ok (32, 29, [5, 3, 4]) := by
  decide +kernel

-- `tbl_history` / `tbl_contains_inserted_not_removed` on the first history
example : ∀ k, k ∈ exT.keys ↔ ∃ pre post, exOps = pre ++ Op.ins k :: post ∧ ∀ op, op ∈ post → ¬ Removes op k :=
  tbl_contains_inserted_not_removed hfConst exOps exT _ exT_run

/-- regression for the repaired defect (/repo f20789c): `insert, reset_no_drop, insert` — before
the fix the second insertion found `free = 15` on a table without slots, skipped the rehash and
panicked (`0usize - 1` as mask); now it allocates 16 slots and the history theorems cover it -/
example : run (fun k => k) Tbl.new [.ins 1, .reset, .ins 2, .find 2, .find 1] =
    .ok ({ slots := (Array.replicate 16 Slot.free).set! 2 (.occ 2 2), len := 1, free := 15 },
      [.inserted 1, .unit, .inserted 2, .found (some 2), .found none]) := by
  decide +kernel

-- `reserve` after `reset_no_drop` allocates again
example : (run (fun k => k) Tbl.new [.ins 1, .reset, .reserve 5]).map (fun r => (r.1.cap, r.1.free)) =
    .ok (16, 16) := by
  decide +kernel

end OxiddModel.HashTbl
