import OxiddModel.HashTbl.Model
import OxiddModel.Generated.RulesHashTbl

/-!
# C17 — the statement structure of `raw.rs` the model mirrors, as tables beside the model

For every function of `crates/linear-hashtbl/src/raw.rs` that `HashTbl/Model.lean` has a counterpart
of, the ordered list of its statements (guards, updates of `len` / `free` / slot status, control
flow), written down by hand in the vocabulary of `Generated/RulesHashTbl.lean`.  The translator
`tools/extract_tables4.py` extracts the same lists from the source on every run
(`Generated/SrcHashTbl.lean`) and `Generated/ObHashTbl.lean` proves them equal to these tables.

The tables are given a *meaning*: `exec` runs a straight-line table (guards evaluated by an
environment) on a model table `Tbl`, and for the functions whose whole effect is on the counters
and one slot (`insert_in_slot_unchecked`, `remove_at_slot_unchecked`, `reset_no_drop`, `reserve`,
the header of `drain`) the theorems `*_as_modelled` prove for **all** states that running the
table **is** the model function.  The loops (`find`, `find_or_find_insert_slot`, `reserve_rehash`,
`clear`, `retain`, `Drain`) are tied by table equality only; the doc comment of each table says which
model function it describes.
-/
namespace OxiddModel.HashTbl.Shape
open OxiddModel.Generated OxiddModel.HashTbl

/-! ## Constants -/

/-- `<u32 as Status>` as the model reads it: `FREE = u32::MAX`, `TOMBSTONE = u32::MAX - 1` (the
model has the constructors `Slot.free` / `Slot.tomb`), `from_hash = hash as u32 & (u32::MAX >> 1)`
(`fromHash`), `check_capacity: capacity <= 1 << 31` (`checkCapacity`), `is_hash`: top bit clear -/
def status_u32 : Ht.StatusImpl :=
  ⟨"u32 :: MAX", "u32 :: MAX - 1", "hash as u32 & ( u32 :: MAX >> 1 )", "capacity <= 1 << ( u32 :: BITS - 1 )",
   "self >> ( u32 :: BITS - 1 ) == 0"⟩

/-- `<usize as Status>` (used by the managers' tables; same shape with `usize`) -/
def status_usize : Ht.StatusImpl :=
  ⟨"usize :: MAX", "usize :: MAX - 1", "hash as usize & ( usize :: MAX >> 1 )", "capacity <= 1 << ( usize :: BITS - 1 )",
   "self >> ( usize :: BITS - 1 ) == 0"⟩

/-- the two impls are the same text up to the integer type -/
def StatusImpl.rename (s : Ht.StatusImpl) (a b : String) : Ht.StatusImpl :=
  ⟨s.free.replace a b, s.tombstone.replace a b, s.fromHash.replace a b, s.checkCapacity.replace a b, s.isHash.replace a b⟩

/-- `fromHash` is `hash as u32 & (u32::MAX >> 1)` and `checkCapacity` is `capacity <= 1 << (u32::BITS - 1)` -/
theorem status_u32_numbers (h c : Nat) :
    fromHash h = (h % 2 ^ 32) &&& ((2 ^ 32 - 1) >>> 1) ∧ (checkCapacity c = decide (c ≤ 1 <<< (32 - 1))) := by
  constructor
  · rfl
  · rfl

/-! ## Tables -/

/-- `nextCapacity` (+ `checkCapacity`, which the model's callers `withCapacity` / `reserveRehash` apply to its result): `0` for a request of `0`, else `max (npot (requested * RATIO_D / RATIO_N)) MIN_CAP` -/
def rows_next_capacity : List Ht.Row :=
  [⟨"next_capacity", [.when "requested == 0"], .ret "0"⟩,
   ⟨"next_capacity", [], .bind "let capacity = core :: cmp :: max ( ( requested * RATIO_D / RATIO_N ) . next_power_of_two ( ) , MIN_CAP )"⟩,
   ⟨"next_capacity", [], .call "check_capacity" "capacity"⟩,
   ⟨"next_capacity", [], .ret "capacity"⟩]

/-- (`capacity()` is not a model function; the driver prints `cap / RATIO_D * RATIO_N`) -/
def rows_capacity : List Ht.Row :=
  [⟨"capacity", [], .ret "self . data . len ( ) / RATIO_D * RATIO_N"⟩]

/-- `Tbl.reserve`: `spare = additional + cap / RATIO_D * (RATIO_D - RATIO_N)`, rehash iff `free < spare` — see `reserve_as_modelled` -/
def rows_reserve : List Ht.Row :=
  [⟨"reserve", [], .bind "let spare = additional + self . data . len ( ) / RATIO_D * ( RATIO_D - RATIO_N )"⟩,
   ⟨"reserve", [.when "self . free < spare"], .call "reserve_rehash" "additional"⟩]

/-- `Tbl.reserveRehash`: new capacity for `len + additional`; capacity 0 ⇒ `free = 0` and return; each element (hash status) of the old array goes to the first `FREE` slot from `status & new_mask` (`rehashStep` / `placeLoop`), tombstones are not copied; `free = new_cap - len` -/
def rows_reserve_rehash : List Ht.Row :=
  [⟨"reserve_rehash", [], .bind "let new_cap = Self :: next_capacity ( self . len + additional )"⟩,
   ⟨"reserve_rehash", [], .bind "let mut new_data = Vec :: with_capacity ( new_cap )"⟩,
   ⟨"reserve_rehash", [], .bind "new_data . resize_with ( new_cap , || Slot :: FREE )"⟩,
   ⟨"reserve_rehash", [], .bind "let old_data = core :: mem :: replace ( & mut self . data , new_data . into_boxed_slice ( ) )"⟩,
   ⟨"reserve_rehash", [.when "new_cap == 0"], .set .free "0"⟩,
   ⟨"reserve_rehash", [.when "new_cap == 0"], .ret ""⟩,
   ⟨"reserve_rehash", [], .bind "let new_data = & mut self . data [ .. ]"⟩,
   ⟨"reserve_rehash", [], .bind "let new_mask = new_cap - 1"⟩,
   ⟨"reserve_rehash", [.loop "for slot in old_data . into_vec ( )"], .bind "let status = slot . status"⟩,
   ⟨"reserve_rehash", [.loop "for slot in old_data . into_vec ( )", .when "! status . is_hash ( )"], .cont⟩,
   ⟨"reserve_rehash", [.loop "for slot in old_data . into_vec ( )"], .bind "let data = slot . data . assume_init ( )"⟩,
   ⟨"reserve_rehash", [.loop "for slot in old_data . into_vec ( )"], .bind "let mut index = status . hash_as_usize ( ) & new_mask"⟩,
   ⟨"reserve_rehash", [.loop "for slot in old_data . into_vec ( )", .loop "loop"], .bind "let new_slot = new_data . get_unchecked_mut ( index )"⟩,
   ⟨"reserve_rehash", [.loop "for slot in old_data . into_vec ( )", .loop "loop", .when "new_slot . status == S :: FREE"], .bind "new_slot . data . write ( data )"⟩,
   ⟨"reserve_rehash", [.loop "for slot in old_data . into_vec ( )", .loop "loop", .when "new_slot . status == S :: FREE"], .status "new_slot" .saved⟩,
   ⟨"reserve_rehash", [.loop "for slot in old_data . into_vec ( )", .loop "loop", .when "new_slot . status == S :: FREE"], .brk⟩,
   ⟨"reserve_rehash", [.loop "for slot in old_data . into_vec ( )", .loop "loop"], .assign "index" "( index + 1 ) & new_mask"⟩,
   ⟨"reserve_rehash", [], .set .free "new_cap - self . len"⟩]

/-- `Tbl.clear` / `clearLoop`: nothing for `len = 0`; every visited slot becomes `FREE`, `len -= 1` per element, return when `len` reaches 0; `free` is not written; running off the slice is `unreachable_unchecked` (`Err.panic`) -/
def rows_clear : List Ht.Row :=
  [⟨"clear", [.when "self . len == 0"], .ret ""⟩,
   ⟨"clear", [.loop "for slot in self . data . iter_mut ( )"], .bind "let status = slot . status"⟩,
   ⟨"clear", [.loop "for slot in self . data . iter_mut ( )"], .status "slot" .free⟩,
   ⟨"clear", [.loop "for slot in self . data . iter_mut ( )", .when "status . is_hash ( )"], .bind "slot . data . assume_init_drop ( )"⟩,
   ⟨"clear", [.loop "for slot in self . data . iter_mut ( )", .when "status . is_hash ( )"], .sub .len 1⟩,
   ⟨"clear", [.loop "for slot in self . data . iter_mut ( )", .when "status . is_hash ( )", .when "self . len == 0"], .ret ""⟩,
   ⟨"clear", [], .unreachable⟩]

/-- `Tbl.clear` (the model has one function for `clear` and `clear_no_drop`: they differ in `assume_init_drop` only) -/
def rows_clear_no_drop : List Ht.Row :=
  [⟨"clear_no_drop", [.when "self . len == 0"], .ret ""⟩,
   ⟨"clear_no_drop", [.loop "for slot in self . data . iter_mut ( )"], .bind "let status = slot . status"⟩,
   ⟨"clear_no_drop", [.loop "for slot in self . data . iter_mut ( )"], .status "slot" .free⟩,
   ⟨"clear_no_drop", [.loop "for slot in self . data . iter_mut ( )", .when "status . is_hash ( )"], .sub .len 1⟩,
   ⟨"clear_no_drop", [.loop "for slot in self . data . iter_mut ( )", .when "status . is_hash ( )", .when "self . len == 0"], .ret ""⟩,
   ⟨"clear_no_drop", [], .unreachable⟩]

/-- `Tbl.resetNoDrop`: `len = 0`, `free = 0`, empty slot array — see `resetNoDrop_as_modelled` -/
def rows_reset_no_drop : List Ht.Row :=
  [⟨"reset_no_drop", [], .set .len "0"⟩,
   ⟨"reset_no_drop", [], .set .free "0"⟩,
   ⟨"reset_no_drop", [], .bind "let empty = Vec :: new ( )"⟩,
   ⟨"reset_no_drop", [], .assign "self . data" "empty . into_boxed_slice ( )"⟩]

/-- `Tbl.find` / `findLoop`: `None` for `len = 0`; the two `debug_assert`s are the model's two `panic` guards; probe from `hash & mask`: status = hash status ∧ `eq` ⇒ `Some(index)`; else `FREE` ⇒ `None`; next index `(index + 1) & mask` -/
def rows_find : List Ht.Row :=
  [⟨"find", [.when "self . len == 0"], .ret "None"⟩,
   ⟨"find", [], .dbg "debug_assert_ne: self . free , 0 , \"find may diverge\""⟩,
   ⟨"find", [], .dbg "debug_assert: self . data . len ( ) . is_power_of_two ( )"⟩,
   ⟨"find", [], .bind "let mask = self . data . len ( ) - 1"⟩,
   ⟨"find", [], .bind "let mut index = hash as usize & mask"⟩,
   ⟨"find", [], .bind "let hash_status = S :: from_hash ( hash )"⟩,
   ⟨"find", [.loop "loop"], .bind "let slot = self . data . get_unchecked ( index )"⟩,
   ⟨"find", [.loop "loop", .when "slot . status == hash_status", .when "eq ( slot . data . assume_init_ref ( ) )"], .ret "Some ( index )"⟩,
   ⟨"find", [.loop "loop", .unless "slot . status == hash_status", .when "slot . status == S :: FREE"], .ret "None"⟩,
   ⟨"find", [.loop "loop"], .assign "index" "( index + 1 ) & mask"⟩]

/-- `Tbl.findOrFindInsertSlot` / `fofLoop`: `reserve(1)` first; as `find`, but `FREE` ⇒ `Err(first_tombstone.unwrap_or(index))` and the first `TOMBSTONE` is remembered -/
def rows_find_or_find_insert_slot : List Ht.Row :=
  [⟨"find_or_find_insert_slot", [], .call "reserve" "1"⟩,
   ⟨"find_or_find_insert_slot", [], .dbg "debug_assert: self . data . len ( ) . is_power_of_two ( )"⟩,
   ⟨"find_or_find_insert_slot", [], .bind "let mask = self . data . len ( ) - 1"⟩,
   ⟨"find_or_find_insert_slot", [], .bind "let mut index = hash as usize & mask"⟩,
   ⟨"find_or_find_insert_slot", [], .bind "let mut first_tombstone = None"⟩,
   ⟨"find_or_find_insert_slot", [], .bind "let hash_status = S :: from_hash ( hash )"⟩,
   ⟨"find_or_find_insert_slot", [.loop "loop"], .bind "let slot = self . data . get_unchecked ( index )"⟩,
   ⟨"find_or_find_insert_slot", [.loop "loop", .when "slot . status == hash_status", .when "eq ( slot . data . assume_init_ref ( ) )"], .ret "Ok ( index )"⟩,
   ⟨"find_or_find_insert_slot", [.loop "loop", .unless "slot . status == hash_status", .when "slot . status == S :: FREE"], .ret "Err ( first_tombstone . unwrap_or ( index ) )"⟩,
   ⟨"find_or_find_insert_slot", [.loop "loop", .unless "slot . status == hash_status", .unless "slot . status == S :: FREE", .when "slot . status == S :: TOMBSTONE && first_tombstone . is_none ( )"], .assign "first_tombstone" "Some ( index )"⟩,
   ⟨"find_or_find_insert_slot", [.loop "loop"], .assign "index" "( index + 1 ) & mask"⟩]

/-- `Tbl.insertInSlot`: `free -= 1` unless the slot is a `TOMBSTONE`, `len += 1`, status = `from_hash(hash)` — see `insertInSlot_as_modelled` -/
def rows_insert_in_slot_unchecked : List Ht.Row :=
  [⟨"insert_in_slot_unchecked", [], .dbg "debug_assert: ! self . data [ slot ] . status . is_hash ( ) , \"slot is occupied\""⟩,
   ⟨"insert_in_slot_unchecked", [], .bind "let slot = self . data . get_unchecked_mut ( slot )"⟩,
   ⟨"insert_in_slot_unchecked", [.when "slot . status != S :: TOMBSTONE"], .dbg "debug_assert: slot . status == S :: FREE"⟩,
   ⟨"insert_in_slot_unchecked", [.when "slot . status != S :: TOMBSTONE"], .sub .free 1⟩,
   ⟨"insert_in_slot_unchecked", [], .add .len 1⟩,
   ⟨"insert_in_slot_unchecked", [], .bind "let res = slot . data . write ( val )"⟩,
   ⟨"insert_in_slot_unchecked", [], .status "slot" .fromHash⟩,
   ⟨"insert_in_slot_unchecked", [], .ret "res"⟩]

/-- `Tbl.remove`: `find`, then `remove_at_slot_unchecked` on the index found -/
def rows_remove_entry : List Ht.Row :=
  [⟨"remove_entry", [], .bind "let index = self . find ( hash , eq ) ?"⟩,
   ⟨"remove_entry", [], .ret "Some ( self . remove_at_slot_unchecked ( index ) )"⟩]

/-- `Tbl.removeAtSlot`: next slot `FREE` ⇒ `free += 1` and the slot becomes `FREE`, otherwise `TOMBSTONE`; `len -= 1` — see `removeAtSlot_as_modelled` -/
def rows_remove_at_slot_unchecked : List Ht.Row :=
  [⟨"remove_at_slot_unchecked", [], .dbg "debug_assert_ne: self . len , 0"⟩,
   ⟨"remove_at_slot_unchecked", [], .dbg "debug_assert: self . data [ slot ] . status . is_hash ( )"⟩,
   ⟨"remove_at_slot_unchecked", [], .bind "let next_slot_index = ( slot + 1 ) & ( self . data . len ( ) - 1 )"⟩,
   ⟨"remove_at_slot_unchecked", [], .bind "let next_slot_status = self . data . get_unchecked ( next_slot_index ) . status"⟩,
   ⟨"remove_at_slot_unchecked", [], .bind "let slot = self . data . get_unchecked_mut ( slot )"⟩,
   ⟨"remove_at_slot_unchecked", [.when "next_slot_status == S :: FREE"], .add .free 1⟩,
   ⟨"remove_at_slot_unchecked", [.when "next_slot_status == S :: FREE"], .status "slot" .free⟩,
   ⟨"remove_at_slot_unchecked", [.unless "next_slot_status == S :: FREE"], .status "slot" .tomb⟩,
   ⟨"remove_at_slot_unchecked", [], .sub .len 1⟩,
   ⟨"remove_at_slot_unchecked", [], .ret "slot . data . assume_init_read ( )"⟩]

/-- `Tbl.drainTake` (header): `len = 0`, `free = slots` — see `drain_counters_as_modelled` -/
def rows_drain : List Ht.Row :=
  [⟨"drain", [], .bind "let len = self . len"⟩,
   ⟨"drain", [], .set .len "0"⟩,
   ⟨"drain", [], .set .free "self . data . len ( )"⟩,
   ⟨"drain", [], .ret "Drain { iter : self . data . iter_mut ( ) , len , }"⟩]

/-- `Tbl.retain` / `retainStep`: the backwards scan with `last_is_free` (initially: is slot 0 `FREE`), tombstones and removed elements in front of a free slot become `FREE` (`free += 1`), other removed elements `TOMBSTONE`; `len -= 1` per removed element; after the `len`-th element: shrink by `reserve_rehash(0)` iff `len < slots / RATIO_D * (RATIO_D - RATIO_N) ∧ slots ≥ MIN_CAP` -/
def rows_retain : List Ht.Row :=
  [⟨"retain", [.when "self . len == 0"], .ret ""⟩,
   ⟨"retain", [], .dbg "debug_assert: self . data . len ( ) >= self . len"⟩,
   ⟨"retain", [], .bind "let mut i = self . len"⟩,
   ⟨"retain", [], .bind "let mut last_is_free = self . data [ 0 ] . status == S :: FREE"⟩,
   ⟨"retain", [.loop "for slot in self . data . iter_mut ( ) . rev ( )", .when "! slot . status . is_hash ( )", .when "slot . status == S :: FREE"], .assign "last_is_free" "true"⟩,
   ⟨"retain", [.loop "for slot in self . data . iter_mut ( ) . rev ( )", .when "! slot . status . is_hash ( )", .unless "slot . status == S :: FREE"], .dbg "debug_assert: slot . status == S :: TOMBSTONE"⟩,
   ⟨"retain", [.loop "for slot in self . data . iter_mut ( ) . rev ( )", .when "! slot . status . is_hash ( )", .unless "slot . status == S :: FREE", .when "last_is_free"], .status "slot" .free⟩,
   ⟨"retain", [.loop "for slot in self . data . iter_mut ( ) . rev ( )", .when "! slot . status . is_hash ( )", .unless "slot . status == S :: FREE", .when "last_is_free"], .add .free 1⟩,
   ⟨"retain", [.loop "for slot in self . data . iter_mut ( ) . rev ( )", .when "! slot . status . is_hash ( )", .unless "slot . status == S :: FREE", .unless "last_is_free"], .assign "last_is_free" "false"⟩,
   ⟨"retain", [.loop "for slot in self . data . iter_mut ( ) . rev ( )", .when "! slot . status . is_hash ( )"], .cont⟩,
   ⟨"retain", [.loop "for slot in self . data . iter_mut ( ) . rev ( )", .when "! predicate ( slot . data . assume_init_mut ( ) )"], .sub .len 1⟩,
   ⟨"retain", [.loop "for slot in self . data . iter_mut ( ) . rev ( )", .when "! predicate ( slot . data . assume_init_mut ( ) )", .when "last_is_free"], .status "slot" .free⟩,
   ⟨"retain", [.loop "for slot in self . data . iter_mut ( ) . rev ( )", .when "! predicate ( slot . data . assume_init_mut ( ) )", .when "last_is_free"], .add .free 1⟩,
   ⟨"retain", [.loop "for slot in self . data . iter_mut ( ) . rev ( )", .when "! predicate ( slot . data . assume_init_mut ( ) )", .unless "last_is_free"], .status "slot" .tomb⟩,
   ⟨"retain", [.loop "for slot in self . data . iter_mut ( ) . rev ( )", .when "! predicate ( slot . data . assume_init_mut ( ) )"], .bind "drop ( slot . data . assume_init_read ( ) )"⟩,
   ⟨"retain", [.loop "for slot in self . data . iter_mut ( ) . rev ( )", .unless "! predicate ( slot . data . assume_init_mut ( ) )"], .assign "last_is_free" "false"⟩,
   ⟨"retain", [.loop "for slot in self . data . iter_mut ( ) . rev ( )"], .sub .i 1⟩,
   ⟨"retain", [.loop "for slot in self . data . iter_mut ( ) . rev ( )", .when "i == 0", .when "self . len < self . data . len ( ) / RATIO_D * ( RATIO_D - RATIO_N ) && self . data . len ( ) >= MIN_CAP"], .call "reserve_rehash" "0"⟩,
   ⟨"retain", [.loop "for slot in self . data . iter_mut ( ) . rev ( )", .when "i == 0"], .ret ""⟩,
   ⟨"retain", [], .unreachable⟩]

/-- `Tbl.new` -/
def rows_new : List Ht.Row :=
  [⟨"new", [], .assign "self . data" "Vec :: new ( ) . into_boxed_slice ( )"⟩,
   ⟨"new", [], .set .len "0"⟩,
   ⟨"new", [], .set .free "0"⟩]

/-- `Tbl.withCapacity`: `next_capacity(capacity)` slots, all `FREE`, `len = 0`, `free = ` that capacity -/
def rows_with_capacity : List Ht.Row :=
  [⟨"with_capacity", [], .bind "let capacity = Self :: next_capacity ( capacity )"⟩,
   ⟨"with_capacity", [], .bind "let mut data = Vec :: with_capacity ( capacity )"⟩,
   ⟨"with_capacity", [], .bind "data . resize_with ( capacity , || Slot :: FREE )"⟩,
   ⟨"with_capacity", [], .assign "self . data" "data . into_boxed_slice ( )"⟩,
   ⟨"with_capacity", [], .set .len "0"⟩,
   ⟨"with_capacity", [], .set .free "capacity"⟩]

/-- `drainLoop`: every visited slot becomes `FREE`; an element decrements the iterator's counter and is yielded -/
def rows_drain_next : List Ht.Row :=
  [⟨"Drain::next", [.when "self . len == 0"], .ret "None"⟩,
   ⟨"Drain::next", [.loop "loop"], .bind "let next = self . iter . next ( )"⟩,
   ⟨"Drain::next", [.loop "loop"], .dbg "debug_assert: next . is_some ( )"⟩,
   ⟨"Drain::next", [.loop "loop"], .bind "let slot = next . unwrap_unchecked ( )"⟩,
   ⟨"Drain::next", [.loop "loop"], .bind "let status = slot . status"⟩,
   ⟨"Drain::next", [.loop "loop"], .status "slot" .free⟩,
   ⟨"Drain::next", [.loop "loop", .when "status . is_hash ( )"], .sub .iterLen 1⟩,
   ⟨"Drain::next", [.loop "loop", .when "status . is_hash ( )"], .ret "Some ( slot . data . assume_init_read ( ) )"⟩]

/-- `Tbl.drainTake` (tail): *every* remaining slot becomes `FREE` (`rest.map (fun _ => .free)`), elements are counted down, `debug_assert_eq!(self.len, 0)` is the model's `panic` guard -/
def rows_drain_drop : List Ht.Row :=
  [⟨"Drain::drop", [.loop "for slot in & mut self . iter"], .bind "let status = slot . status"⟩,
   ⟨"Drain::drop", [.loop "for slot in & mut self . iter"], .status "slot" .free⟩,
   ⟨"Drain::drop", [.loop "for slot in & mut self . iter", .when "status . is_hash ( )"], .sub .iterLen 1⟩,
   ⟨"Drain::drop", [.loop "for slot in & mut self . iter", .when "status . is_hash ( )"], .bind "slot . data . assume_init_drop ( )"⟩,
   ⟨"Drain::drop", [], .dbg "debug_assert_eq: self . len , 0"⟩]

/-- (dropping the table: `clear` if the element type needs dropping; not a model function) -/
def rows_table_drop : List Ht.Row :=
  [⟨"RawTable::drop", [.when "core :: mem :: needs_drop :: < T > ( )"], .call "clear" ""⟩]

/-- all tables under the names the extractor uses -/
def all : List (String × List Ht.Row) :=
  [("next_capacity", rows_next_capacity), ("capacity", rows_capacity), ("reserve", rows_reserve),
   ("reserve_rehash", rows_reserve_rehash), ("clear", rows_clear), ("clear_no_drop", rows_clear_no_drop),
   ("reset_no_drop", rows_reset_no_drop), ("find", rows_find),
   ("find_or_find_insert_slot", rows_find_or_find_insert_slot),
   ("insert_in_slot_unchecked", rows_insert_in_slot_unchecked), ("remove_entry", rows_remove_entry),
   ("remove_at_slot_unchecked", rows_remove_at_slot_unchecked), ("drain", rows_drain), ("retain", rows_retain),
   ("new", rows_new), ("with_capacity", rows_with_capacity), ("Drain::next", rows_drain_next),
   ("Drain::drop", rows_drain_drop), ("RawTable::drop", rows_table_drop)]

/-! ## Meaning of a straight-line table -/

/-- what the interpreter needs to know about the call: truth of the guards (in the state at
entry), the slot `slot` denotes, the status / element written, values of right-hand sides, the
meaning of calls -/
structure Env where
  cond : String → Bool
  slot : Nat := 0
  st : Nat := 0
  key : Nat := 0
  val : String → Nat := fun _ => 0
  call : String → String → Tbl → Except Err Tbl := fun _ _ t => .ok t

def guardHolds (env : Env) : Ht.Guard → Bool
  | .when c => env.cond c
  | .unless c => !env.cond c
  | .loop _ => false

/-- one statement; `-=` is checked (the harness is built with overflow checks: underflow panics) -/
def step (env : Env) (s : Except Err Tbl) (r : Ht.Row) : Except Err Tbl :=
  match s with
  | .error e => .error e
  | .ok t =>
    if !(r.guards.all (guardHolds env)) then .ok t
    else
      match r.act with
      | .add .len n => .ok { t with len := t.len + n }
      | .add .free n => .ok { t with free := t.free + n }
      | .sub .len n => if t.len < n then .error .panic else .ok { t with len := t.len - n }
      | .sub .free n => if t.free < n then .error .panic else .ok { t with free := t.free - n }
      | .set .len v => .ok { t with len := env.val v }
      | .set .free v => .ok { t with free := env.val v }
      | .status _ .free => .ok (t.set env.slot .free)
      | .status _ .tomb => .ok (t.set env.slot .tomb)
      | .status _ .fromHash => .ok (t.set env.slot (.occ env.st env.key))
      | .assign "self . data" _ => .ok { t with slots := #[] }
      | .call f a => env.call f a t
      | _ => .ok t

def exec (env : Env) (rows : List Ht.Row) (t : Tbl) : Except Err Tbl := rows.foldl (step env) (.ok t)

/-- **`insert_in_slot_unchecked` is `Tbl.insertInSlot`** for every table, slot, hash and key: the
guard `slot.status != S::TOMBSTONE` is the only one; under it `free -= 1`; then `len += 1` and the
status becomes `from_hash(hash)` -/
theorem insertInSlot_as_modelled (t : Tbl) (h slot key : Nat) :
    exec { cond := fun c => c == "slot . status != S :: TOMBSTONE" && decide (t.get slot ≠ .tomb),
           slot := slot, st := fromHash h, key := key } rows_insert_in_slot_unchecked t
      = t.insertInSlot h slot key := by
  unfold Tbl.insertInSlot
  by_cases hs : t.get slot = .tomb
  · simp [exec, rows_insert_in_slot_unchecked, step, guardHolds, hs, Tbl.set]
  · by_cases hf : t.free = 0
    · simp [exec, rows_insert_in_slot_unchecked, step, guardHolds, hs, hf]
    · have : ¬ t.free < 1 := by omega
      simp [exec, rows_insert_in_slot_unchecked, step, guardHolds, hs, hf, this, Tbl.set]

/-- **`remove_at_slot_unchecked` is `Tbl.removeAtSlot`**: next slot `FREE` ⇒ the slot becomes
`FREE` and `free += 1`, otherwise it becomes a `TOMBSTONE` and `free` is unchanged; `len -= 1` -/
theorem removeAtSlot_as_modelled (t : Tbl) (slot : Nat) :
    exec { cond := fun c => c == "next_slot_status == S :: FREE" && (t.get (Tbl.nextIdx t.cap slot)).isFree,
           slot := slot } rows_remove_at_slot_unchecked t
      = t.removeAtSlot slot := by
  unfold Tbl.removeAtSlot
  by_cases hl : t.len = 0
  · by_cases hn : (t.get (Tbl.nextIdx t.cap slot)).isFree = true
    · simp [exec, rows_remove_at_slot_unchecked, step, guardHolds, hl, hn, Tbl.set]
    · simp [exec, rows_remove_at_slot_unchecked, step, guardHolds, hl, hn, Tbl.set]
  · have h1 : ¬ t.len < 1 := by omega
    by_cases hn : (t.get (Tbl.nextIdx t.cap slot)).isFree = true
    · simp [exec, rows_remove_at_slot_unchecked, step, guardHolds, hl, hn, h1, Tbl.set]
    · simp [exec, rows_remove_at_slot_unchecked, step, guardHolds, hl, hn, h1, Tbl.set]

/-- **`reset_no_drop` is `Tbl.resetNoDrop`**: both counters 0 and no slots -/
theorem resetNoDrop_as_modelled (t : Tbl) :
    exec { cond := fun _ => false, val := fun v => if v = "0" then 0 else 1 } rows_reset_no_drop t
      = .ok t.resetNoDrop := by
  simp [exec, rows_reset_no_drop, step, Tbl.resetNoDrop]

/-- **`reserve` is `Tbl.reserve`**: rehash (with the same `additional`) iff `free < spare`, where
`spare` is the bound expression of the table's first row -/
theorem reserve_as_modelled (t : Tbl) (additional : Nat) :
    rows_reserve.head? = some ⟨"reserve", [], .bind "let spare = additional + self . data . len ( ) / RATIO_D * ( RATIO_D - RATIO_N )"⟩ ∧
    exec { cond := fun c => c == "self . free < spare" && decide (t.free < additional + t.cap / RATIO_D * (RATIO_D - RATIO_N)),
           call := fun f a t => if f = "reserve_rehash" ∧ a = "additional" then t.reserveRehash additional else .error .panic }
      rows_reserve t = t.reserve additional := by
  refine ⟨rfl, ?_⟩
  unfold Tbl.reserve
  by_cases hc : t.free < additional + t.cap / RATIO_D * (RATIO_D - RATIO_N)
  · simp [exec, rows_reserve, step, guardHolds, hc]
  · simp [exec, rows_reserve, step, guardHolds, hc]

/-- **the header of `drain`**: `len = 0` and `free = slots` — the counters of every result of
`Tbl.drainTake` (whatever number of elements is pulled before the `Drain` is dropped) -/
theorem drain_counters_as_modelled (t t' : Tbl) (take : Nat) (ks : List Nat)
    (h : t.drainTake take = .ok (t', ks)) :
    ∃ t0, exec { cond := fun _ => false, val := fun v => if v = "0" then 0 else t.cap } rows_drain t = .ok t0 ∧
      t'.len = t0.len ∧ t'.free = t0.free := by
  refine ⟨{ t with len := 0, free := t.cap }, by simp [exec, rows_drain, step], ?_⟩
  unfold Tbl.drainTake at h
  simp only at h
  split at h
  · cases h
  · cases h; exact ⟨rfl, rfl⟩

/-- the shrink test of `retain` as the model has it -/
theorem retain_shrink_guard :
    rows_retain.filter (fun r => r.act == .call "reserve_rehash" "0") =
      [⟨"retain", [.loop "for slot in self . data . iter_mut ( ) . rev ( )", .when "i == 0",
        .when "self . len < self . data . len ( ) / RATIO_D * ( RATIO_D - RATIO_N ) && self . data . len ( ) >= MIN_CAP"],
        .call "reserve_rehash" "0"⟩] := by decide

/-- a table that turns a removed entry into a `TOMBSTONE` in front of a free slot is *not*
`removeAtSlot` (non-vacuity of `removeAtSlot_as_modelled`: the interpreter distinguishes the rule) -/
example :
    (exec { cond := fun c => c == "next_slot_status == S :: FREE", slot := 0 }
      [⟨"remove_at_slot_unchecked", [.when "next_slot_status == S :: FREE"], .status "slot" .tomb⟩,
       ⟨"remove_at_slot_unchecked", [], .sub .len 1⟩]
      { slots := #[.occ 1 1, .free], len := 1, free := 1 }).toOption
    ≠ (Tbl.removeAtSlot { slots := #[.occ 1 1, .free], len := 1, free := 1 } 0).toOption := by decide

example : (exec { cond := fun c => c == "next_slot_status == S :: FREE", slot := 0 } rows_remove_at_slot_unchecked
      { slots := #[.occ 1 1, .free], len := 1, free := 1 }).toOption = some { slots := #[.free, .free], len := 0, free := 2 } := by decide

end OxiddModel.HashTbl.Shape
