import OxiddModel.Locks.Model

/-!
# Acquisition contexts of the table `opProg` (C07, runtime lock traces)

A *context* is what a thread looks like at a lock operation, at the granularity of lock
**classes**: is it a pool sub-task, the kind of operation, the class (and mode) of the lock, and
the classes of the locks held in acquisition order (runs of cache buckets collapsed to one
`bucket`, level mutexes kept one by one). `tableContexts` is the set of contexts that occur in the
rows of the table (`ctxTable`, the same list as `Properties.table`, dimensions 2 buckets /
3 levels). The driver answers `ctx …` lines — the distinct contexts observed on the real code —
with `in-table` / `not-in-table`: an observed context that no row has means the table misses a
lock site (this is how the sequential-sort path of `set_var_order` was found to be missing from
the `reorder` row).
-/
namespace OxiddModel.Locks

def className : Lock → String
  | .mgr => "mgr"
  | .gcOngoing => "gcOngoing"
  | .bucket _ => "bucket"
  | .level _ => "level"
  | .storeState => "storeState"
  | .termState => "termState"
  | .gcSignal => "gcSignal"
  | .reorderState => "reorderState"

structure Ctx where
  sub : Bool
  /-- `acq` (blocking), `try`, `wait`, `join` -/
  kind : String
  /-- class of the lock, `-` for `join` -/
  cls : String
  /-- `s` or `x` -/
  mode : String
  /-- classes held, oldest first, runs of `bucket` collapsed -/
  held : List String
  deriving DecidableEq, Repr

/-- collapse runs of `bucket` -/
def collapse : List String → List String
  | [] => []
  | [a] => [a]
  | a :: b :: r => if a = "bucket" ∧ b = "bucket" then collapse (b :: r) else a :: collapse (b :: r)

def absHeld (held : List (Lock × Mode)) : List String :=
  collapse (held.reverse.map (fun h => className h.1))

def modeStr : Mode → String
  | .shared => "s"
  | .excl => "x"

/-- all contexts of a program (both branches of every `try_lock`) -/
def contexts (sub : Bool) : List (Lock × Mode) → Prog Lock → List Ctx
  | _, .done => []
  | held, .acq l m k =>
    ⟨sub, "acq", className l, modeStr m, absHeld held⟩ :: contexts sub ((l, m) :: held) k
  | held, .tryAcq l ks kf =>
    ⟨sub, "try", className l, "x", absHeld held⟩
      :: (contexts sub ((l, .excl) :: held) ks ++ contexts sub held kf)
  | held, .rel l k => contexts sub (dropLock held l) k
  | held, .wait l k =>
    ⟨sub, "wait", className l, "x", absHeld held⟩ :: contexts sub ((l, .excl) :: dropLock held l) k
  | held, .join _ k => ⟨sub, "join", "-", "x", absHeld held⟩ :: contexts sub held k

/-- the rows used for the contexts (`= Properties.table`, see `PropertiesTrace.ctxTable_eq`) -/
def ctxTable : List OpKind :=
  [ .shared [.cache 0, .fork [0, 1], .terminal, .mk 2, .cache 1, .mk 0, .mk 1, .peekLevel 1,
             .peekLevel 0, .peekLevel 2, .peekStore, .clear 0, .clear 1, .dropFn, .gc, .cache 0],
    .subTask [.cache 1, .fork [1], .mk 1, .mk 0, .mk 2, .terminal, .cache 0, .dropFn, .peekStore],
    .gcExplicit, .gcThread,
    .reorder [0, 1] [2], .sortWorker 0 1, .sortWorker 1 2, .sortWorker 0 2,
    .levelWorker 0, .levelWorker 1, .levelWorker 2,
    .addVars, .handleClone, .handleDrop ]

def tableContexts : List Ctx :=
  (ctxTable.flatMap (fun k => contexts k.isSub [] (opProg ⟨2, 3⟩ k))).eraseDups

end OxiddModel.Locks
