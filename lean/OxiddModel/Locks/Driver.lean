import OxiddModel.Util.Proto
import OxiddModel.Locks.Trace
import OxiddModel.Locks.Contexts

/-!
Line-protocol driver `locks` (C07, runtime lock traces).

The harness (`/verif/harness/src/bin/c07_locks.rs`) runs operation scripts on the real library
compiled with the lock-trace hooks and writes the logged events, one per line, in the global order
of the log. The driver keeps, per thread id, the `sub` flag and the list of held locks
(`Trace.evNext`, the same updates as `Model.stepThread`) and judges every event with the clauses
of the static discipline (`Trace.evOK` for `disc d`), printing `ok` or the first failing clause
(`Trace.evWhy`; `Trace.evWhy_none_iff`: `ok` is printed iff `evOK` holds).

```
dims <nb> <nl>                         -> dims <nb> <nl>      number of cache buckets and of levels
rank <class> <idx>                     -> rank <n>            the model's rank table
submin                                 -> submin <n>
prot <class>                           -> prot 0|1
acq <tid> <class> <idx> s|x 1 [| held] -> verdict             blocking acquisition (`Ev.acq`)
acq <tid> <class> <idx> x 0 [| held]   -> verdict             successful try_lock (`Ev.tryOk`)
tryfail <tid> <class> <idx> [| held]   -> verdict             failed try_lock (`Ev.tryFail`)
rel <tid> <class> <idx> [| held]       -> verdict | release-unheld
wait <tid> <class> <idx> [| held]      -> verdict             Condvar::wait (`Ev.wait`)
join <tid> [| held]                    -> verdict             install/join/broadcast (`Ev.join []`)
sub <tid> 0|1                          -> ok | violates-discipline sub-change   (only with nothing held)
end <tid>                              -> ok | held-at-end <locks>
ctx 0|1 acq|try|wait|join <class>|- s|x | <classes held>  -> in-table | not-in-table
```
(`ctx`: a context observed on the real code, see `Contexts.lean`; the real side prints `in-table`.)
`verdict` = `ok` | `violates-discipline <clause>` | `bad-index` (bucket/level out of `dims`) |
`held-mismatch` (the optional `| <class>:<idx> …` list — the locks the hook's own thread-local
stack reported, oldest first — differs from the driver's list). Anything else: `bad-op`.
-/
namespace OxiddModel.Locks

structure TState where
  tid : Nat
  sub : Bool
  held : List (Lock × Mode)

structure DState where
  d : Dims
  threads : List TState

def DState.init : DState := { d := ⟨0, 0⟩, threads := [] }

def DState.get (s : DState) (tid : Nat) : TState :=
  match s.threads.find? (fun t => t.tid == tid) with
  | some t => t
  | none => { tid := tid, sub := false, held := [] }

def DState.put (s : DState) (t : TState) : DState :=
  { s with threads := t :: s.threads.filter (fun u => u.tid != t.tid) }

def lockIdx : Lock → Nat
  | .bucket i => i
  | .level j => j
  | _ => 0

def showLock (l : Lock) : String := className l ++ ":" ++ toString (lockIdx l)

/-- class name + index; the index of a non-indexed class must be 0 -/
def parseLock (c : String) (i : String) : Option Lock :=
  match i.toNat? with
  | none => none
  | some i =>
    match c with
    | "bucket" => some (.bucket i)
    | "level" => some (.level i)
    | "mgr" => if i = 0 then some .mgr else none
    | "gcOngoing" => if i = 0 then some .gcOngoing else none
    | "storeState" => if i = 0 then some .storeState else none
    | "termState" => if i = 0 then some .termState else none
    | "gcSignal" => if i = 0 then some .gcSignal else none
    | "reorderState" => if i = 0 then some .reorderState else none
    | _ => none

def inDims (d : Dims) : Lock → Bool
  | .bucket i => decide (i < d.nb)
  | .level j => decide (j < d.nl)
  | _ => true

def clauseName : Clause → String
  | .prot => "prot"
  | .rank => "rank"
  | .mode => "mode"
  | .subMgr => "sub-mgr"
  | .subRank => "sub-rank"
  | .tryRw => "try-rw"
  | .protAfter => "prot-after"
  | .unheld => "unheld"
  | .joinRank => "join-rank"

/-- `["|", "level:1", …]` → the reported held list (oldest first); `[]` → no report -/
def parseHeld : List String → Option (Option (List Lock))
  | [] => some none
  | "|" :: ws =>
    let ls := ws.map (fun w =>
      match w.splitOn ":" with
      | [c, i] => parseLock c i
      | _ => none)
    if ls.all Option.isSome then some (some (ls.filterMap id)) else none
  | _ => none

/-- the held list reported by the hook (oldest first) differs from the driver's -/
def mismatch (rep : Option (List Lock)) (held : List (Lock × Mode)) : Bool :=
  match rep with
  | some r => !decide (r = (held.map (·.1)).reverse)
  | none => false

def inDimsO (d : Dims) : Option Lock → Bool
  | some l => inDims d l
  | none => true

def whyMsg (e : Ev Lock) : Option Clause → String
  | none => "ok"
  | some .unheld => (match e with | .rel _ => "release-unheld" | _ => "violates-discipline unheld")
  | some c => "violates-discipline " ++ clauseName c

/-- the verdict on one event of a thread in state `t` -/
def judgeMsg (d : Dims) (t : TState) (e : Ev Lock) (l? : Option Lock) (rep : Option (List Lock)) :
    String :=
  if mismatch rep t.held then "held-mismatch"
  else if !inDimsO d l? then "bad-index"
  else whyMsg e (evWhy (disc d) t.sub t.held e)

/-- judge one event of thread `tid` and update its held list (`Trace.evNext`) -/
def judge (s : DState) (tid : Nat) (e : Ev Lock) (l? : Option Lock) (rep : Option (List Lock)) :
    DState × String :=
  let t := s.get tid
  (s.put { t with held := evNext t.held e }, judgeMsg s.d t e l? rep)

def stepWords (s : DState) : List String → DState × String
  | ["dims", nb, nl] =>
    match nb.toNat?, nl.toNat? with
    | some nb, some nl => ({ s with d := ⟨nb, nl⟩ }, s!"dims {nb} {nl}")
    | _, _ => (s, "bad-op")
  | ["rank", c, i] =>
    match parseLock c i with
    | some l => (s, s!"rank {rank s.d l}")
    | none => (s, "bad-op")
  | ["submin"] => (s, s!"submin {(disc s.d).subMin}")
  | ["prot", c] =>
    match parseLock c "0" with
    | some l => (s, "prot " ++ boolStr (prot l))
    | none => (s, "bad-op")
  | "acq" :: tid :: c :: i :: m :: b :: rest =>
    match tid.toNat?, parseLock c i, parseHeld rest with
    | some tid, some l, some rep =>
      match m, b with
      | "s", "1" => judge s tid (.acq l .shared) (some l) rep
      | "x", "1" => judge s tid (.acq l .excl) (some l) rep
      | "x", "0" => judge s tid (.tryOk l) (some l) rep
      | _, _ => (s, "bad-op")
    | _, _, _ => (s, "bad-op")
  | "tryfail" :: tid :: c :: i :: rest =>
    match tid.toNat?, parseLock c i, parseHeld rest with
    | some tid, some l, some rep => judge s tid (.tryFail l) (some l) rep
    | _, _, _ => (s, "bad-op")
  | "rel" :: tid :: c :: i :: rest =>
    match tid.toNat?, parseLock c i, parseHeld rest with
    | some tid, some l, some rep => judge s tid (.rel l) (some l) rep
    | _, _, _ => (s, "bad-op")
  | "wait" :: tid :: c :: i :: rest =>
    match tid.toNat?, parseLock c i, parseHeld rest with
    | some tid, some l, some rep => judge s tid (.wait l) (some l) rep
    | _, _, _ => (s, "bad-op")
  | "join" :: tid :: rest =>
    match tid.toNat?, parseHeld rest with
    | some tid, some rep => judge s tid (.join []) none rep
    | _, _ => (s, "bad-op")
  | ["sub", tid, b] =>
    match tid.toNat? with
    | some tid =>
      if b = "0" || b = "1" then
        let t := s.get tid
        let s' := s.put { t with sub := b = "1" }
        if t.held.isEmpty then (s', "ok") else (s', "violates-discipline sub-change")
      else (s, "bad-op")
    | none => (s, "bad-op")
  | ["end", tid] =>
    match tid.toNat? with
    | some tid =>
      let t := s.get tid
      if t.held.isEmpty then (s, "ok")
      else (s, joinSp ("held-at-end" :: (t.held.map (fun h => showLock h.1)).reverse))
    | none => (s, "bad-op")
  | "ctx" :: sub :: kind :: cls :: mode :: "|" :: held =>
    let names := ["mgr", "gcOngoing", "bucket", "level", "storeState", "termState", "gcSignal",
      "reorderState"]
    if (sub = "0" || sub = "1") && ["acq", "try", "wait", "join"].contains kind
        && (names.contains cls || cls = "-") && (mode = "s" || mode = "x")
        && held.all names.contains then
      if tableContexts.contains ⟨sub = "1", kind, cls, mode, held⟩ then (s, "in-table")
      else (s, "not-in-table")
    else (s, "bad-op")
  | _ => (s, "bad-op")

def proto : Proto :=
  { σ := DState, init := DState.init, step := fun s line => stepWords s (words line) }

end OxiddModel.Locks
