import OxiddModel.Locks.Model

/-!
# Locking protocol — generic lemmas

Everything here is generic in the lock type `L` and the discipline `D : Disc L`; the proof that
ranked programs cannot deadlock is done once (`progress`), the instance for the index manager is in
`Properties.lean`.
-/
namespace OxiddModel.Locks
set_option linter.unusedSectionVars false
set_option linter.unnecessarySimpa false

section Generic
variable {L : Type} [DecidableEq L]

/-! ## small facts -/

theorem holds_iff {t : Thread L} {l : L} : t.holds l = true ↔ ∃ m, (l, m) ∈ t.held := by
  simp only [Thread.holds, List.any_eq_true, decide_eq_true_eq]
  constructor
  · rintro ⟨⟨l', m⟩, hm, rfl⟩; exact ⟨m, hm⟩
  · rintro ⟨m, hm⟩; exact ⟨(l, m), hm, rfl⟩

theorem holdsM_iff {t : Thread L} {l : L} {m : Mode} :
    t.holdsM l m = true ↔ (l, m) ∈ t.held := by
  simp only [Thread.holdsM, List.any_eq_true, Bool.and_eq_true, decide_eq_true_eq]
  constructor
  · rintro ⟨⟨l', m'⟩, hm, rfl, rfl⟩; exact hm
  · intro hm; exact ⟨(l, m), hm, rfl, rfl⟩

theorem holds_of_holdsM {t : Thread L} {l : L} {m : Mode} (h : t.holdsM l m = true) :
    t.holds l = true := holds_iff.2 ⟨m, holdsM_iff.1 h⟩

theorem mem_dropLock {held : List (L × Mode)} {l : L} {h : L × Mode} :
    h ∈ dropLock held l ↔ h ∈ held ∧ h.1 ≠ l := by
  simp [dropLock]

theorem free_false_iff {cfg : Config L} {l : L} :
    free cfg l = false ↔ ∃ u ∈ cfg, u.holds l = true := by
  simp only [free]
  rw [← Bool.not_eq_true, List.all_eq_true]
  constructor
  · intro h
    apply Classical.byContradiction
    intro hn
    apply h
    intro u hu
    cases hh : u.holds l with
    | false => rfl
    | true => exact absurd ⟨u, hu, hh⟩ hn
  · rintro ⟨u, hu, hh⟩ hall
    have := hall u hu
    simp [hh] at this

theorem free_true_iff {cfg : Config L} {l : L} :
    free cfg l = true ↔ ∀ u ∈ cfg, u.holds l = false := by
  simp [free, List.all_eq_true]

theorem writerBit_true_iff {cfg : Config L} {rw : L} :
    writerBit cfg rw = true ↔ ∃ u ∈ cfg, u.claim = true ∨ u.holdsM rw .excl = true := by
  simp [writerBit, List.any_eq_true]

theorem writerBit_false_iff {cfg : Config L} {rw : L} :
    writerBit cfg rw = false ↔ ∀ u ∈ cfg, u.claim = false ∧ u.holdsM rw .excl = false := by
  rw [← Bool.not_eq_true, writerBit_true_iff]
  constructor
  · intro h u hu
    constructor
    · cases hc : u.claim with
      | false => rfl
      | true => exact absurd ⟨u, hu, Or.inl hc⟩ h
    · cases hc : u.holdsM rw .excl with
      | false => rfl
      | true => exact absurd ⟨u, hu, Or.inr hc⟩ h
  · rintro h ⟨u, hu, hc | hc⟩
    · simp [(h u hu).1] at hc
    · simp [(h u hu).2] at hc

theorem noReaders_false_iff {cfg : Config L} {rw : L} :
    noReaders cfg rw = false ↔ ∃ u ∈ cfg, u.holdsM rw .shared = true := by
  simp only [noReaders]
  rw [← Bool.not_eq_true, List.all_eq_true]
  constructor
  · intro h
    apply Classical.byContradiction
    intro hn
    apply h
    intro u hu
    cases hh : u.holdsM rw .shared with
    | false => rfl
    | true => exact absurd ⟨u, hu, hh⟩ hn
  · rintro ⟨u, hu, hh⟩ hall
    have := hall u hu
    simp [hh] at this

theorem noReaders_true_iff {cfg : Config L} {rw : L} :
    noReaders cfg rw = true ↔ ∀ u ∈ cfg, u.holdsM rw .shared = false := by
  simp [noReaders, List.all_eq_true]

theorem mem_iff_getElem? {cfg : Config L} {u : Thread L} :
    u ∈ cfg ↔ ∃ j : Nat, cfg[j]? = some u := List.mem_iff_getElem?

theorem isDone_false_of_ne {p : Prog L} (h : p ≠ .done) : p.isDone = false := by
  cases p <;> simp_all [Prog.isDone]

theorem isDone_true_iff {p : Prog L} : p.isDone = true ↔ p = .done := by
  cases p <;> simp [Prog.isDone]

/-! ## `ok`: immediate consequences -/

theorem allBelow_iff {D : Disc L} {held : List (L × Mode)} {n : Nat} :
    allBelow D held n = true ↔ ∀ h ∈ held, D.rank h.1 < n := by
  simp [allBelow, List.all_eq_true]

theorem protInv_nil (D : Disc L) (sub : Bool) : protInv D sub [] = true := by
  simp [protInv]

theorem ok_protInv {D : Disc L} {sub : Bool} {held : List (L × Mode)} {p : Prog L}
    (h : ok D sub held p = true) : protInv D sub held = true := by
  cases p with
  | done =>
    simp only [ok, List.isEmpty_iff] at h
    subst h; exact protInv_nil D sub
  | acq l m k => simp only [ok, Bool.and_eq_true] at h; exact h.1.1
  | tryAcq l ks kf => simp only [ok, Bool.and_eq_true] at h; exact h.1.1.1
  | rel l k => simp only [ok, Bool.and_eq_true] at h; exact h.1.1
  | wait l k => simp only [ok, Bool.and_eq_true] at h; exact h.1.1.1.1
  | join ts k => simp only [ok, Bool.and_eq_true] at h; exact h.1.1

/-- a finished thread holds nothing -/
theorem ok_done_held {D : Disc L} {sub : Bool} {held : List (L × Mode)}
    (h : ok D sub held .done = true) : held = [] := by
  simpa [ok] using h

theorem OK_holds_not_done {D : Disc L} {t : Thread L} (h : t.OK D) {l : L}
    (hl : t.holds l = true) : t.prog ≠ .done := by
  intro hd
  have h1 := h.1
  rw [hd] at h1
  have := ok_done_held h1
  obtain ⟨m, hm⟩ := holds_iff.1 hl
  rw [this] at hm
  cases hm

/-! ## the step function, case by case -/

theorem step_acq_rw_shared {rw : L} {cfg : Config L} {i : Nat} {t : Thread L} {k : Prog L}
    (hp : t.prog = .acq rw .shared k) :
    stepThread rw cfg i t =
      if writerBit cfg rw then none
      else some { t with held := (rw, .shared) :: t.held, prog := k } := by
  simp [stepThread, hp]

theorem step_acq_rw_excl {rw : L} {cfg : Config L} {i : Nat} {t : Thread L} {k : Prog L}
    (hp : t.prog = .acq rw .excl k) :
    stepThread rw cfg i t =
      if t.claim then
        (if noReaders cfg rw then
          some { t with held := (rw, .excl) :: t.held, claim := false, prog := k }
         else none)
      else (if writerBit cfg rw then none else some { t with claim := true }) := by
  simp [stepThread, hp]

theorem step_acq_mutex {rw : L} {cfg : Config L} {i : Nat} {t : Thread L} {l : L} {m : Mode}
    {k : Prog L} (hp : t.prog = .acq l m k) (hl : l ≠ rw) :
    stepThread rw cfg i t =
      if free cfg l then some { t with held := (l, m) :: t.held, prog := k } else none := by
  simp [stepThread, hp, hl]

theorem step_tryAcq {rw : L} {cfg : Config L} {i : Nat} {t : Thread L} {l : L}
    {ks kf : Prog L} (hp : t.prog = .tryAcq l ks kf) :
    stepThread rw cfg i t =
      if free cfg l then some { t with held := (l, .excl) :: t.held, prog := ks }
      else some { t with prog := kf } := by
  simp [stepThread, hp]

theorem step_rel {rw : L} {cfg : Config L} {i : Nat} {t : Thread L} {l : L} {k : Prog L}
    (hp : t.prog = .rel l k) :
    stepThread rw cfg i t = some { t with held := dropLock t.held l, prog := k } := by
  simp [stepThread, hp]

theorem step_wait {rw : L} {cfg : Config L} {i : Nat} {t : Thread L} {l : L} {k : Prog L}
    (hp : t.prog = .wait l k) :
    stepThread rw cfg i t =
      some { t with held := dropLock t.held l, prog := .acq l .excl k } := by
  simp [stepThread, hp]

theorem step_join {rw : L} {cfg : Config L} {i : Nat} {t : Thread L} {ts : List Nat}
    {k : Prog L} (hp : t.prog = .join ts k) :
    stepThread rw cfg i t =
      if ts.all (fun o => finished cfg (i + 1 + o)) then some { t with prog := k } else none := by
  simp [stepThread, hp]

theorem step_done {rw : L} {cfg : Config L} {i : Nat} {t : Thread L}
    (hp : t.prog = .done) : stepThread rw cfg i t = none := by
  simp [stepThread, hp]

/-- case analysis of a successful step -/
theorem stepThread_elim {rw : L} {cfg : Config L} {i : Nat} {t t' : Thread L}
    {motive : Thread L → Prop} (h : stepThread rw cfg i t = some t')
    (h_sh : ∀ k, t.prog = .acq rw .shared k → writerBit cfg rw = false →
      motive { t with held := (rw, .shared) :: t.held, prog := k })
    (h_claim : ∀ k, t.prog = .acq rw .excl k → t.claim = false → writerBit cfg rw = false →
      motive { t with claim := true })
    (h_ex : ∀ k, t.prog = .acq rw .excl k → t.claim = true → noReaders cfg rw = true →
      motive { t with held := (rw, .excl) :: t.held, claim := false, prog := k })
    (h_mx : ∀ l m k, t.prog = .acq l m k → l ≠ rw → free cfg l = true →
      motive { t with held := (l, m) :: t.held, prog := k })
    (h_tryS : ∀ l ks kf, t.prog = .tryAcq l ks kf → free cfg l = true →
      motive { t with held := (l, .excl) :: t.held, prog := ks })
    (h_tryF : ∀ l ks kf, t.prog = .tryAcq l ks kf → free cfg l = false →
      motive { t with prog := kf })
    (h_rel : ∀ l k, t.prog = .rel l k → motive { t with held := dropLock t.held l, prog := k })
    (h_wait : ∀ l k, t.prog = .wait l k →
      motive { t with held := dropLock t.held l, prog := .acq l .excl k })
    (h_join : ∀ ts k, t.prog = .join ts k → ts.all (fun o => finished cfg (i + 1 + o)) = true →
      motive { t with prog := k }) : motive t' := by
  cases hp : t.prog with
  | done => rw [step_done hp] at h; cases h
  | acq l m k =>
    by_cases hl : l = rw
    · subst hl
      cases m with
      | shared =>
        rw [step_acq_rw_shared hp] at h
        cases hw : writerBit cfg l with
        | true => simp [hw] at h
        | false => simp [hw] at h; subst h; exact h_sh k hp hw
      | excl =>
        rw [step_acq_rw_excl hp] at h
        cases hc : t.claim with
        | true =>
          cases hn : noReaders cfg l with
          | true => simp [hc, hn] at h; subst h; exact h_ex k hp hc hn
          | false => simp [hc, hn] at h
        | false =>
          cases hw : writerBit cfg l with
          | true => simp [hc, hw] at h
          | false => simp [hc, hw] at h; subst h; exact h_claim k hp hc hw
    · rw [step_acq_mutex hp hl] at h
      cases hf : free cfg l with
      | true => simp [hf] at h; subst h; exact h_mx l m k hp hl hf
      | false => simp [hf] at h
  | tryAcq l ks kf =>
    rw [step_tryAcq hp] at h
    cases hf : free cfg l with
    | true => simp [hf] at h; subst h; exact h_tryS l ks kf hp hf
    | false => simp [hf] at h; subst h; exact h_tryF l ks kf hp hf
  | rel l k => rw [step_rel hp] at h; simp at h; subst h; exact h_rel l k hp
  | wait l k => rw [step_wait hp] at h; simp at h; subst h; exact h_wait l k hp
  | join ts k =>
    rw [step_join hp] at h
    cases hj : ts.all (fun o => finished cfg (i + 1 + o)) with
    | true => simp only [hj, if_true] at h; simp at h; subst h; exact h_join ts k hp hj
    | false => simp only [hj] at h; simp at h

/-! ## preservation of the invariants -/

theorem stepThread_sub {rw : L} {cfg : Config L} {i : Nat} {t t' : Thread L}
    (h : stepThread rw cfg i t = some t') : t'.sub = t.sub := by
  apply stepThread_elim (motive := fun t' => t'.sub = t.sub) h <;> intros <;> rfl

theorem stepThread_joins {rw : L} {cfg : Config L} {i : Nat} {t t' : Thread L}
    (h : stepThread rw cfg i t = some t') : ∀ o ∈ t'.prog.joins, o ∈ t.prog.joins := by
  apply stepThread_elim (motive := fun t' => ∀ o ∈ t'.prog.joins, o ∈ t.prog.joins) h
  · intro k hp o ho; rw [hp]; simpa [Prog.joins] using ho
  · intro k hp _ _ o ho; exact ho
  · intro k hp _ _ o ho; rw [hp]; simpa [Prog.joins] using ho
  · intro l m k hp _ _ o ho; rw [hp]; simpa [Prog.joins] using ho
  · intro l ks kf hp _ o ho; rw [hp]; simp only [Prog.joins, List.mem_append]; exact Or.inl ho
  · intro l ks kf hp _ o ho; rw [hp]; simp only [Prog.joins, List.mem_append]; exact Or.inr ho
  · intro l k hp o ho; rw [hp]; simpa [Prog.joins] using ho
  · intro l k hp o ho; rw [hp]; simpa [Prog.joins] using ho
  · intro ts k hp _ o ho; rw [hp]; simp only [Prog.joins, List.mem_append]; exact Or.inr ho

theorem held_nil_of_allBelow_rw {D : Disc L} (hD : D.WF) {held : List (L × Mode)}
    (h : allBelow D held (D.rank D.rw) = true) : held = [] := by
  cases held with
  | nil => rfl
  | cons a as =>
    have := allBelow_iff.1 h a (by simp)
    rw [hD.rank_rw] at this
    omega

theorem stepThread_OK {D : Disc L} (hD : D.WF) {cfg : Config L} {i : Nat} {t t' : Thread L}
    (hok : t.OK D) (h : stepThread D.rw cfg i t = some t') : t'.OK D := by
  obtain ⟨h1, h2⟩ := hok
  have noclaim : ∀ {p : Prog L}, t.prog = p → (∀ k, p ≠ .acq D.rw .excl k) → t.claim = false := by
    intro p hp hne
    cases hc : t.claim with
    | false => rfl
    | true =>
      obtain ⟨_, k, hk⟩ := h2 hc
      exact absurd (hp ▸ hk) (hne k)
  apply stepThread_elim (motive := fun t' => t'.OK D) h
  · intro k hp _
    rw [hp] at h1; simp only [ok, Bool.and_eq_true] at h1
    refine ⟨h1.2, ?_⟩
    intro hc
    have := noclaim hp (by intro k hk; cases hk)
    simp [this] at hc
  · intro k hp hc _
    rw [hp] at h1
    refine ⟨by show ok D t.sub t.held t.prog = true; rw [hp]; exact h1, ?_⟩
    intro _
    simp only [ok, acqOK, Bool.and_eq_true] at h1
    exact ⟨held_nil_of_allBelow_rw hD h1.1.2.1.1, k, hp⟩
  · intro k hp _ _
    rw [hp] at h1; simp only [ok, Bool.and_eq_true] at h1
    exact ⟨h1.2, by intro hc; simp at hc⟩
  · intro l m k hp hl _
    rw [hp] at h1; simp only [ok, Bool.and_eq_true] at h1
    refine ⟨h1.2, ?_⟩
    intro hc
    have := noclaim hp (by intro k hk; cases hk; exact hl rfl)
    simp [this] at hc
  · intro l ks kf hp _
    rw [hp] at h1; simp only [ok, Bool.and_eq_true] at h1
    refine ⟨h1.1.2, ?_⟩
    intro hc
    have := noclaim hp (by intro k hk; cases hk)
    simp [this] at hc
  · intro l ks kf hp _
    rw [hp] at h1; simp only [ok, Bool.and_eq_true] at h1
    refine ⟨h1.2, ?_⟩
    intro hc
    have := noclaim hp (by intro k hk; cases hk)
    simp [this] at hc
  · intro l k hp
    rw [hp] at h1; simp only [ok, Bool.and_eq_true] at h1
    refine ⟨h1.2, ?_⟩
    intro hc
    have := noclaim hp (by intro k hk; cases hk)
    simp [this] at hc
  · intro l k hp
    rw [hp] at h1; simp only [ok, Bool.and_eq_true] at h1
    refine ⟨?_, ?_⟩
    · simp only [ok, Bool.and_eq_true]
      exact ⟨⟨h1.1.1.2, h1.1.2⟩, h1.2⟩
    · intro hc
      have := noclaim hp (by intro k hk; cases hk)
      simp [this] at hc
  · intro ts k hp _
    rw [hp] at h1; simp only [ok, Bool.and_eq_true] at h1
    refine ⟨h1.2, ?_⟩
    intro hc
    have := noclaim hp (by intro k hk; cases hk)
    simp [this] at hc

theorem step_some {rw : L} {cfg cfg' : Config L} {i : Nat} (h : step rw cfg i = some cfg') :
    ∃ t t', cfg[i]? = some t ∧ stepThread rw cfg i t = some t' ∧ cfg' = cfg.set i t' := by
  unfold step at h
  cases hi : cfg[i]? with
  | none => simp [hi] at h
  | some t =>
    simp only [hi, Option.map_eq_some_iff] at h
    obtain ⟨t', ht', rfl⟩ := h
    exact ⟨t, t', rfl, ht', rfl⟩

theorem getElem?_set_cases {cfg : Config L} {i j : Nat} {t' u : Thread L}
    (h : (cfg.set i t')[j]? = some u) : (j = i ∧ u = t') ∨ (j ≠ i ∧ cfg[j]? = some u) := by
  by_cases hji : j = i
  · subst hji
    rw [List.getElem?_set_self'] at h
    cases hc : cfg[j]? with
    | none => simp [hc] at h
    | some v => simp [hc] at h; exact Or.inl ⟨rfl, h.symm⟩
  · rw [List.getElem?_set_ne (Ne.symm hji)] at h
    exact Or.inr ⟨hji, h⟩

theorem WFConfig_step {D : Disc L} (hD : D.WF) {cfg cfg' : Config L} {i : Nat}
    (hwf : WFConfig D cfg) (h : step D.rw cfg i = some cfg') : WFConfig D cfg' := by
  obtain ⟨t, t', hi, hst, rfl⟩ := step_some h
  obtain ⟨hok, hj⟩ := hwf
  have hti : t ∈ cfg := mem_iff_getElem?.2 ⟨i, hi⟩
  refine ⟨?_, ?_⟩
  · intro u hu
    rcases List.mem_or_eq_of_mem_set hu with hu | rfl
    · exact hok u hu
    · exact stepThread_OK hD (hok t hti) hst
  · intro a u ha o ho w hw
    have hsubw : ∃ w0, cfg[a + 1 + o]? = some w0 ∧ w.sub = w0.sub := by
      rcases getElem?_set_cases hw with ⟨he, rfl⟩ | ⟨_, hw0⟩
      · exact ⟨t, he ▸ hi, stepThread_sub hst⟩
      · exact ⟨w, hw0, rfl⟩
    obtain ⟨w0, hw0, hs⟩ := hsubw
    rw [hs]
    rcases getElem?_set_cases ha with ⟨he, rfl⟩ | ⟨_, ha0⟩
    · subst he
      exact hj a t hi o (stepThread_joins hst o ho) w0 hw0
    · exact hj a u ha0 o ho w0 hw0

theorem WFConfig_reach {D : Disc L} (hD : D.WF) {cfg cfg' : Config L}
    (hwf : WFConfig D cfg) (h : Reach D.rw cfg cfg') : WFConfig D cfg' := by
  induction h with
  | refl => exact hwf
  | tail i _ hs ih => exact WFConfig_step hD ih hs

/-! ## progress: ranked programs ⇒ the wait-for relation has no cycle ⇒ somebody can move

`mu` is a height function on *blocked* threads; `blocker` shows that every blocked thread waits
for an unfinished thread which — if blocked itself — has strictly greater height. A thread of
maximal height therefore cannot be blocked. Heights:

| blocked at …                                         | height                         |
|------------------------------------------------------|--------------------------------|
| `lock_shared` / phase 1 of `lock_exclusive`          | 0                              |
| phase 2 of `lock_exclusive` (waiting for readers)    | 1                              |
| mutex of rank `r < subMin`                           | `2 + r`                        |
| `join` (thread at position `i`)                      | `2 + subMin + i`               |
| mutex of rank `r ≥ subMin`                           | `2 + subMin + n + r`           | -/

def bound (D : Disc L) (n : Nat) (l : L) : Nat :=
  if D.rank l < D.subMin then 2 + D.rank l else 2 + D.subMin + n + D.rank l

def mu (D : Disc L) (n i : Nat) (t : Thread L) : Nat :=
  match t.prog with
  | .acq l _ _ => if l = D.rw then (if t.claim then 1 else 0) else bound D n l
  | .join _ _ => 2 + D.subMin + i
  | _ => 0

theorem two_le_bound (D : Disc L) (n : Nat) (l : L) : 2 ≤ bound D n l := by
  unfold bound; split <;> omega

theorem blocked_shape {rw : L} {cfg : Config L} {i : Nat} {t : Thread L}
    (hb : stepThread rw cfg i t = none) :
    t.prog = .done ∨ (∃ l m k, t.prog = .acq l m k) ∨ ∃ ts k, t.prog = .join ts k := by
  cases hp : t.prog with
  | done => exact Or.inl rfl
  | acq l m k => exact Or.inr (Or.inl ⟨l, m, k, rfl⟩)
  | tryAcq l ks kf => rw [step_tryAcq hp] at hb; split at hb <;> cases hb
  | rel l k => rw [step_rel hp] at hb; cases hb
  | wait l k => rw [step_wait hp] at hb; cases hb
  | join ts k => exact Or.inr (Or.inr ⟨ts, k, rfl⟩)

/-- a blocked thread that holds `l` is higher than any thread blocked on `l` -/
theorem mu_of_holder {D : Disc L} (hD : D.WF) {cfg : Config L} {j : Nat} {u : Thread L}
    (hok : u.OK D) {l : L} {m : Mode} (hl : (l, m) ∈ u.held)
    (hb : stepThread D.rw cfg j u = none) (n : Nat) : bound D n l < mu D n j u := by
  have hnd : u.prog ≠ .done := OK_holds_not_done hok (holds_iff.2 ⟨m, hl⟩)
  have h1 := hok.1
  rcases blocked_shape hb with hd | ⟨l', m', k, hp⟩ | ⟨ts, k, hp⟩
  · exact absurd hd hnd
  · rw [hp] at h1
    simp only [ok, acqOK, Bool.and_eq_true] at h1
    have hlt : D.rank l < D.rank l' := allBelow_iff.1 h1.1.2.1.1 (l, m) hl
    have hne : l' ≠ D.rw := by
      intro he; rw [he, hD.rank_rw] at hlt; omega
    simp only [mu, hp, hne, if_false, bound]
    split <;> split <;> omega
  · rw [hp] at h1
    simp only [ok, Bool.and_eq_true] at h1
    have hlt : D.rank l < D.subMin := allBelow_iff.1 h1.1.2 (l, m) hl
    simp only [mu, hp, bound, hlt, if_true]
    omega

theorem lt_length_of_getElem? {cfg : Config L} {i : Nat} {t : Thread L}
    (h : cfg[i]? = some t) : i < cfg.length := by
  apply Classical.byContradiction
  intro hn
  rw [List.getElem?_eq_none (by omega)] at h
  cases h

/-- **Every blocked thread waits for an unfinished thread that is strictly higher (if blocked).** -/
theorem blocker {D : Disc L} (hD : D.WF) {cfg : Config L} (hwf : WFConfig D cfg)
    {i : Nat} {t : Thread L} (hi : cfg[i]? = some t) (hnd : t.prog ≠ .done)
    (hb : stepThread D.rw cfg i t = none) :
    ∃ j u, cfg[j]? = some u ∧ u.prog ≠ .done ∧
      (stepThread D.rw cfg j u = none → mu D cfg.length i t < mu D cfg.length j u) := by
  obtain ⟨hok, hjw⟩ := hwf
  have htok : t.OK D := hok t (mem_iff_getElem?.2 ⟨i, hi⟩)
  -- a thread holding something is unfinished and, if blocked, of height > 1
  have holder : ∀ u ∈ cfg, ∀ l m, (l, m) ∈ u.held →
      ∃ j, cfg[j]? = some u ∧ u.prog ≠ .done ∧
        (stepThread D.rw cfg j u = none → bound D cfg.length l < mu D cfg.length j u) := by
    intro u hu l m hl
    obtain ⟨j, hj⟩ := mem_iff_getElem?.1 hu
    exact ⟨j, hj, OK_holds_not_done (hok u hu) (holds_iff.2 ⟨m, hl⟩),
      fun hbu => mu_of_holder hD (hok u hu) hl hbu _⟩
  -- a thread owning the writer bit
  have wbOwner : ∀ u ∈ cfg, (u.claim = true ∨ u.holdsM D.rw .excl = true) →
      ∃ j, cfg[j]? = some u ∧ u.prog ≠ .done ∧
        (stepThread D.rw cfg j u = none → 0 < mu D cfg.length j u) := by
    intro u hu hc
    rcases hc with hc | hc
    · obtain ⟨j, hj⟩ := mem_iff_getElem?.1 hu
      obtain ⟨_, k, hk⟩ := (hok u hu).2 hc
      refine ⟨j, hj, by simp [hk], fun _ => ?_⟩
      simp [mu, hk, hc]
    · obtain ⟨j, hj, hnd', hm⟩ := holder u hu D.rw .excl (holdsM_iff.1 hc)
      exact ⟨j, hj, hnd', fun hbu => by
        have := hm hbu
        have := two_le_bound D cfg.length D.rw
        omega⟩
  rcases blocked_shape hb with hd | ⟨l, m, k, hp⟩ | ⟨ts, k, hp⟩
  · exact absurd hd hnd
  · by_cases hl : l = D.rw
    · subst hl
      cases m with
      | shared =>
        -- case B: `lock_shared` refused because the writer bit is set
        rw [step_acq_rw_shared hp] at hb
        cases hw : writerBit cfg D.rw with
        | false => simp [hw] at hb
        | true =>
          obtain ⟨u, hu, hc⟩ := writerBit_true_iff.1 hw
          obtain ⟨j, hj, hnd', hm⟩ := wbOwner u hu hc
          refine ⟨j, u, hj, hnd', fun hbu => ?_⟩
          have hcl : t.claim = false := by
            cases hc' : t.claim with
            | false => rfl
            | true =>
              obtain ⟨_, k', hk'⟩ := htok.2 hc'
              rw [hp] at hk'; cases hk'
          have := hm hbu
          simpa [mu, hp, hcl] using this
      | excl =>
        rw [step_acq_rw_excl hp] at hb
        cases hcl : t.claim with
        | false =>
          -- case C: phase 1 refused because the writer bit is set
          cases hw : writerBit cfg D.rw with
          | false => simp [hcl, hw] at hb
          | true =>
            obtain ⟨u, hu, hc⟩ := writerBit_true_iff.1 hw
            obtain ⟨j, hj, hnd', hm⟩ := wbOwner u hu hc
            refine ⟨j, u, hj, hnd', fun hbu => ?_⟩
            have := hm hbu
            simpa [mu, hp, hcl] using this
        | true =>
          -- case D: phase 2, a reader is still inside
          cases hn : noReaders cfg D.rw with
          | true => simp [hcl, hn] at hb
          | false =>
            obtain ⟨u, hu, hr⟩ := noReaders_false_iff.1 hn
            obtain ⟨j, hj, hnd', hm⟩ := holder u hu D.rw .shared (holdsM_iff.1 hr)
            refine ⟨j, u, hj, hnd', fun hbu => ?_⟩
            have := hm hbu
            have := two_le_bound D cfg.length D.rw
            have hmt : mu D cfg.length i t = 1 := by simp [mu, hp, hcl]
            omega
    · -- case A: a mutex held by somebody
      rw [step_acq_mutex hp hl] at hb
      cases hf : free cfg l with
      | true => simp [hf] at hb
      | false =>
        obtain ⟨u, hu, hh⟩ := free_false_iff.1 hf
        obtain ⟨m', hm'⟩ := holds_iff.1 hh
        obtain ⟨j, hj, hnd', hm⟩ := holder u hu l m' hm'
        refine ⟨j, u, hj, hnd', fun hbu => ?_⟩
        have := hm hbu
        simpa [mu, hp, hl] using this
  · -- case E: join
    rw [step_join hp] at hb
    cases hall : ts.all (fun o => finished cfg (i + 1 + o)) with
    | true => simp [hall] at hb
    | false =>
      rw [← Bool.not_eq_true, List.all_eq_true] at hall
      have : ∃ o ∈ ts, finished cfg (i + 1 + o) = false := by
        apply Classical.byContradiction
        intro hn
        apply hall
        intro o ho
        cases hf : finished cfg (i + 1 + o) with
        | true => rfl
        | false => exact absurd ⟨o, ho, hf⟩ hn
      obtain ⟨o, ho, hf⟩ := this
      unfold finished at hf
      cases hu : cfg[i + 1 + o]? with
      | none => simp [hu] at hf
      | some u =>
        simp only [hu] at hf
        have hnd' : u.prog ≠ .done := by
          intro hd; rw [hd] at hf; simp [Prog.isDone] at hf
        have hsub : u.sub = true :=
          hjw i t hi o (by rw [hp]; simp [Prog.joins, ho]) u hu
        have huok : u.OK D := hok u (mem_iff_getElem?.2 ⟨_, hu⟩)
        refine ⟨i + 1 + o, u, hu, hnd', fun hbu => ?_⟩
        have hilt := lt_length_of_getElem? hi
        have h1 := huok.1
        rcases blocked_shape hbu with hd | ⟨l', m', k', hp'⟩ | ⟨ts', k', hp'⟩
        · exact absurd hd hnd'
        · rw [hp', hsub] at h1
          simp only [ok, acqOK, Bool.and_eq_true, Bool.not_true, Bool.false_or,
            Bool.not_eq_true', decide_eq_false_iff_not, decide_eq_true_eq] at h1
          obtain ⟨hne, hge⟩ := h1.1.2.2
          simp only [mu, hp, hp', hne, if_false, bound]
          split <;> omega
        · simp only [mu, hp, hp']
          omega

theorem exists_max (n : Nat) (P : Nat → Prop) (f : Nat → Nat) (h : ∃ i, i < n ∧ P i) :
    ∃ i, i < n ∧ P i ∧ ∀ j, j < n → P j → f j ≤ f i := by
  induction n with
  | zero => obtain ⟨i, hi, _⟩ := h; omega
  | succ n ih =>
    by_cases hex : ∃ i, i < n ∧ P i
    · obtain ⟨i0, hi0, hP0, hmax⟩ := ih hex
      by_cases hPn : P n
      · by_cases hle : f n ≤ f i0
        · refine ⟨i0, by omega, hP0, ?_⟩
          intro j hj hPj
          by_cases hjn : j = n
          · subst hjn; exact hle
          · exact hmax j (by omega) hPj
        · refine ⟨n, by omega, hPn, ?_⟩
          intro j hj hPj
          by_cases hjn : j = n
          · subst hjn; exact Nat.le_refl _
          · have := hmax j (by omega) hPj
            omega
      · refine ⟨i0, by omega, hP0, ?_⟩
        intro j hj hPj
        by_cases hjn : j = n
        · subst hjn; exact absurd hPj hPn
        · exact hmax j (by omega) hPj
    · obtain ⟨i, hi, hPi⟩ := h
      have hin : i = n := by
        apply Classical.byContradiction
        intro hne
        exact hex ⟨i, by omega, hPi⟩
      subst hin
      refine ⟨i, by omega, hPi, ?_⟩
      intro j hj hPj
      by_cases hjn : j = i
      · subst hjn; exact Nat.le_refl _
      · exact absurd ⟨j, by omega, hPj⟩ hex

/-- **Progress (the classic lock-ordering argument, proved once).** In a well-formed configuration
some unfinished thread can take a step, unless all threads have finished. -/
theorem progress {D : Disc L} (hD : D.WF) {cfg : Config L} (hwf : WFConfig D cfg)
    (hun : ∃ (i : Nat) (t : Thread L), cfg[i]? = some t ∧ t.prog ≠ .done) :
    ∃ i t t', cfg[i]? = some t ∧ stepThread D.rw cfg i t = some t' := by
  let P : Nat → Prop := fun i => ∃ t, cfg[i]? = some t ∧ t.prog ≠ .done
  let f : Nat → Nat := fun i =>
    match cfg[i]? with
    | some t => mu D cfg.length i t
    | none => 0
  have hex : ∃ i, i < cfg.length ∧ P i := by
    obtain ⟨i, t, hi, hnd⟩ := hun
    exact ⟨i, lt_length_of_getElem? hi, t, hi, hnd⟩
  obtain ⟨i, _, ⟨t, hi, hnd⟩, hmax⟩ := exists_max cfg.length P f hex
  cases hs : stepThread D.rw cfg i t with
  | some t' => exact ⟨i, t, t', hi, hs⟩
  | none =>
    obtain ⟨j, u, hj, hndu, hm⟩ := blocker hD hwf hi hnd hs
    cases hsu : stepThread D.rw cfg j u with
    | some u' => exact ⟨j, u, u', hj, hsu⟩
    | none =>
      have hlt := hm hsu
      have hle := hmax j (lt_length_of_getElem? hj) ⟨u, hj, hndu⟩
      simp only [f, hi, hj] at hle
      omega

/-- the blocker of `blocker` is a wait-for edge (sanity link between `waitsFor` and the proof) -/
theorem progress_step {D : Disc L} (hD : D.WF) {cfg : Config L} (hwf : WFConfig D cfg)
    (hun : ∃ (i : Nat) (t : Thread L), cfg[i]? = some t ∧ t.prog ≠ .done) : ∃ i cfg', step D.rw cfg i = some cfg' := by
  obtain ⟨i, t, t', hi, hs⟩ := progress hD hwf hun
  exact ⟨i, cfg.set i t', by simp [step, hi, hs]⟩

/-! ## the wait-for relation is acyclic -/

theorem mu_wbOwner {D : Disc L} (hD : D.WF) {cfg : Config L} {j : Nat} {u : Thread L}
    (hok : u.OK D) (hc : u.claim = true ∨ u.holdsM D.rw .excl = true)
    (hb : stepThread D.rw cfg j u = none) (n : Nat) : 0 < mu D n j u := by
  rcases hc with hc | hc
  · obtain ⟨_, k, hk⟩ := hok.2 hc
    simp [mu, hk, hc]
  · have := mu_of_holder hD hok (holdsM_iff.1 hc) hb n
    omega

/-- **Every wait-for edge into a blocked thread goes strictly upwards.** -/
theorem waitsFor_mu {D : Disc L} (hD : D.WF) {cfg : Config L} (hwf : WFConfig D cfg)
    {i j : Nat} (hw : waitsFor D.rw cfg i j)
    (hbj : ∀ u, cfg[j]? = some u → stepThread D.rw cfg j u = none) :
    ∀ t u, cfg[i]? = some t → cfg[j]? = some u →
      mu D cfg.length i t < mu D cfg.length j u := by
  intro t u hi hj
  obtain ⟨t', u', hi', hj', hb, hm⟩ := hw
  rw [hi] at hi'; cases hi'
  rw [hj] at hj'; cases hj'
  obtain ⟨hok, hjw⟩ := hwf
  have htok : t.OK D := hok t (mem_iff_getElem?.2 ⟨i, hi⟩)
  have huok : u.OK D := hok u (mem_iff_getElem?.2 ⟨j, hj⟩)
  have hbu := hbj u hj
  cases hp : t.prog with
  | done => rw [hp] at hm; exact absurd hm (by simp)
  | tryAcq l ks kf => rw [hp] at hm; exact absurd hm (by simp)
  | rel l k => rw [hp] at hm; exact absurd hm (by simp)
  | wait l k => rw [hp] at hm; exact absurd hm (by simp)
  | acq l m k =>
    rw [hp] at hm
    by_cases hl : l = D.rw
    · subst hl
      simp only [if_true] at hm
      have hcl : (∀ k', t.prog ≠ .acq D.rw .excl k') → t.claim = false := by
        intro hne
        cases hc' : t.claim with
        | false => rfl
        | true =>
          obtain ⟨_, k'', hk''⟩ := htok.2 hc'
          exact absurd hk'' (hne k'')
      cases m with
      | shared =>
        have := mu_wbOwner hD huok hm hbu cfg.length
        have hc := hcl (by intro k'; rw [hp]; intro h; cases h)
        simpa [mu, hp, hc] using this
      | excl =>
        cases hc : t.claim with
        | false =>
          simp only [hc] at hm
          have := mu_wbOwner hD huok (by simpa using hm) hbu cfg.length
          simpa [mu, hp, hc] using this
        | true =>
          simp only [hc, if_true] at hm
          have := mu_of_holder hD huok (holdsM_iff.1 hm) hbu cfg.length
          have := two_le_bound D cfg.length D.rw
          have hmt : mu D cfg.length i t = 1 := by simp [mu, hp, hc]
          omega
    · simp only [hl, if_false] at hm
      obtain ⟨m', hm'⟩ := holds_iff.1 hm
      have := mu_of_holder hD huok hm' hbu cfg.length
      simpa [mu, hp, hl] using this
  | join ts k =>
    rw [hp] at hm
    obtain ⟨⟨o, ho, hjo⟩, hnd⟩ := hm
    subst hjo
    have hsub : u.sub = true := hjw i t hi o (by rw [hp]; simp [Prog.joins, ho]) u hj
    have hilt := lt_length_of_getElem? hi
    have h1 := huok.1
    rcases blocked_shape hbu with hd | ⟨l', m', k', hp'⟩ | ⟨ts', k', hp'⟩
    · rw [hd] at hnd; simp [Prog.isDone] at hnd
    · rw [hp', hsub] at h1
      simp only [ok, acqOK, Bool.and_eq_true, Bool.not_true, Bool.false_or,
        Bool.not_eq_true', decide_eq_false_iff_not, decide_eq_true_eq] at h1
      obtain ⟨hne, hge⟩ := h1.1.2.2
      simp only [mu, hp, hp', hne, if_false, bound]
      split <;> omega
    · simp only [mu, hp, hp']
      omega

/-- a chain of wait-for edges -/
inductive WaitChain (rw : L) (cfg : Config L) : Nat → Nat → Prop where
  | one {i j : Nat} : waitsFor rw cfg i j → WaitChain rw cfg i j
  | cons {i j k : Nat} : waitsFor rw cfg i j → WaitChain rw cfg j k → WaitChain rw cfg i k

theorem waitsFor_blocked {rw : L} {cfg : Config L} {i j : Nat} (h : waitsFor rw cfg i j) :
    ∀ t, cfg[i]? = some t → stepThread rw cfg i t = none := by
  obtain ⟨t, u, hi, _, hb, _⟩ := h
  intro t' hi'
  rw [hi] at hi'; cases hi'; exact hb

theorem WaitChain.source_blocked {rw : L} {cfg : Config L} {i k : Nat}
    (h : WaitChain rw cfg i k) : ∀ t, cfg[i]? = some t → stepThread rw cfg i t = none := by
  cases h with
  | one h => exact waitsFor_blocked h
  | cons h _ => exact waitsFor_blocked h

theorem waitsFor_some {rw : L} {cfg : Config L} {i j : Nat} (h : waitsFor rw cfg i j) :
    (∃ t, cfg[i]? = some t) ∧ ∃ u, cfg[j]? = some u := by
  obtain ⟨t, u, hi, hj, _⟩ := h
  exact ⟨⟨t, hi⟩, ⟨u, hj⟩⟩

theorem WaitChain.mu_lt {D : Disc L} (hD : D.WF) {cfg : Config L} (hwf : WFConfig D cfg)
    {i k : Nat} (h : WaitChain D.rw cfg i k)
    (hbk : ∀ u, cfg[k]? = some u → stepThread D.rw cfg k u = none) :
    ∀ t u, cfg[i]? = some t → cfg[k]? = some u →
      mu D cfg.length i t < mu D cfg.length k u := by
  induction h with
  | one h => exact waitsFor_mu hD hwf h hbk
  | cons h hc ih =>
    intro t u hi hk
    obtain ⟨_, ⟨v, hv⟩⟩ := waitsFor_some h
    have h1 := waitsFor_mu hD hwf h hc.source_blocked t v hi hv
    have h2 := ih hbk v u hv hk
    omega

/-- **No cyclic wait** in a well-formed configuration. -/
theorem waitsFor_acyclic {D : Disc L} (hD : D.WF) {cfg : Config L} (hwf : WFConfig D cfg)
    (i : Nat) : ¬ WaitChain D.rw cfg i i := by
  intro h
  have hs := h.source_blocked
  have : ∃ t, cfg[i]? = some t := by
    cases h with
    | one h => exact (waitsFor_some h).1
    | cons h _ => exact (waitsFor_some h).1
  obtain ⟨t, hi⟩ := this
  have := h.mu_lt hD hwf hs t t hi hi
  omega

/-! ## `try_lock`, `unlock`, `Condvar::wait` never block -/

theorem try_never_blocks' {rw : L} {cfg : Config L} {i : Nat} {t : Thread L} {l : L}
    {ks kf : Prog L} (hp : t.prog = .tryAcq l ks kf) : (stepThread rw cfg i t).isSome = true := by
  rw [step_tryAcq hp]; split <;> rfl

theorem try_fails_of_held {rw : L} {cfg : Config L} {i : Nat} {t u : Thread L} {l : L}
    {ks kf : Prog L} (hu : u ∈ cfg) (hh : u.holds l = true) (hp : t.prog = .tryAcq l ks kf) :
    stepThread rw cfg i t = some { t with prog := kf } := by
  rw [step_tryAcq hp]
  have : free cfg l = false := free_false_iff.2 ⟨u, hu, hh⟩
  simp [this]

/-! ## thread-local safety properties -/

theorem always_head {P : List (L × Mode) → Bool} {held : List (L × Mode)} {p : Prog L}
    (h : always P held p = true) : P held = true := by
  cases p <;> simp only [always, Bool.and_eq_true] at h
  · exact h
  · exact h.1
  · exact h.1.1
  · exact h.1
  · exact h.1.1
  · exact h.1

theorem stepThread_always {rw : L} {cfg : Config L} {i : Nat} {t t' : Thread L}
    {P : List (L × Mode) → Bool} (ha : always P t.held t.prog = true)
    (h : stepThread rw cfg i t = some t') : always P t'.held t'.prog = true := by
  apply stepThread_elim (motive := fun t' => always P t'.held t'.prog = true) h
  · intro k hp _; rw [hp] at ha; simp only [always, Bool.and_eq_true] at ha; exact ha.2
  · intro k hp _ _; exact ha
  · intro k hp _ _; rw [hp] at ha; simp only [always, Bool.and_eq_true] at ha; exact ha.2
  · intro l m k hp _ _; rw [hp] at ha; simp only [always, Bool.and_eq_true] at ha; exact ha.2
  · intro l ks kf hp _; rw [hp] at ha; simp only [always, Bool.and_eq_true] at ha; exact ha.1.2
  · intro l ks kf hp _; rw [hp] at ha; simp only [always, Bool.and_eq_true] at ha; exact ha.2
  · intro l k hp; rw [hp] at ha; simp only [always, Bool.and_eq_true] at ha; exact ha.2
  · intro l k hp; rw [hp] at ha; simp only [always, Bool.and_eq_true] at ha
    simp only [always, Bool.and_eq_true]; exact ⟨ha.1.2, ha.2⟩
  · intro ts k hp _; rw [hp] at ha; simp only [always, Bool.and_eq_true] at ha; exact ha.2

/-- `always P` is an invariant of the thread at position `i` along every execution. -/
theorem always_reach {rw : L} {cfg cfg' : Config L} (h : Reach rw cfg cfg')
    {P : List (L × Mode) → Bool} {i : Nat}
    (h0 : ∀ t, cfg[i]? = some t → always P t.held t.prog = true) :
    ∀ t, cfg'[i]? = some t → always P t.held t.prog = true := by
  induction h with
  | refl => exact h0
  | tail a _ hs ih =>
    obtain ⟨t0, t0', ha, hst, rfl⟩ := step_some hs
    intro t ht
    rcases getElem?_set_cases ht with ⟨he, rfl⟩ | ⟨_, ht0⟩
    · subst he; exact stepThread_always (ih t0 ha) hst
    · exact ih t ht0

/-! ## reader/writer exclusion -/

/-- thread owns the writer bit -/
def wb (rw : L) (t : Thread L) : Bool := t.claim || t.holdsM rw .excl

/-- at most one owner of the writer bit; an active writer excludes readers -/
def RwInv (rw : L) (cfg : Config L) : Prop :=
  ∀ (i j : Nat) (t u : Thread L), i ≠ j → cfg[i]? = some t → cfg[j]? = some u →
    wb rw t = true → wb rw u = false ∧ (t.holdsM rw .excl = true → u.holdsM rw .shared = false)

theorem holdsM_cons {t : Thread L} {l l' : L} {m m' : Mode} {k : Prog L} {c : Bool} :
    ({ t with held := (l', m') :: t.held, claim := c, prog := k } : Thread L).holdsM l m =
      ((decide (l' = l) && decide (m' = m)) || t.holdsM l m) := by
  simp [Thread.holdsM]

theorem holdsM_dropLock {held : List (L × Mode)} {l l' : L} {m : Mode}
    (h : (dropLock held l').any (fun h => decide (h.1 = l) && decide (h.2 = m)) = true) :
    held.any (fun h => decide (h.1 = l) && decide (h.2 = m)) = true := by
  rw [List.any_eq_true] at h ⊢
  obtain ⟨x, hx, hp⟩ := h
  exact ⟨x, (mem_dropLock.1 hx).1, hp⟩

/-- what a step can do to the reader/writer status of the moving thread -/
theorem stepThread_rw {D : Disc L} {cfg : Config L} {i : Nat} {t t' : Thread L}
    (hok : t.OK D) (h : stepThread D.rw cfg i t = some t') :
    (wb D.rw t' = true → wb D.rw t = true ∨ writerBit cfg D.rw = false) ∧
    (t'.holdsM D.rw .excl = true → t.holdsM D.rw .excl = true ∨ noReaders cfg D.rw = true) ∧
    (t'.holdsM D.rw .shared = true → t.holdsM D.rw .shared = true ∨ writerBit cfg D.rw = false) := by
  have h1 := hok.1
  apply stepThread_elim (motive := fun t' =>
    (wb D.rw t' = true → wb D.rw t = true ∨ writerBit cfg D.rw = false) ∧
    (t'.holdsM D.rw .excl = true → t.holdsM D.rw .excl = true ∨ noReaders cfg D.rw = true) ∧
    (t'.holdsM D.rw .shared = true → t.holdsM D.rw .shared = true ∨ writerBit cfg D.rw = false)) h
  · intro k _ hw
    exact ⟨fun _ => Or.inr hw, fun hx => Or.inl (by simpa [Thread.holdsM] using hx),
      fun _ => Or.inr hw⟩
  · intro k _ _ hw
    exact ⟨fun _ => Or.inr hw, fun hx => Or.inl hx, fun hx => Or.inl hx⟩
  · intro k _ hc hn
    exact ⟨fun _ => Or.inl (by simp [wb, hc]), fun _ => Or.inr hn,
      fun hx => Or.inl (by simpa [Thread.holdsM] using hx)⟩
  · intro l m k _ hl _
    have e1 : ∀ m', ({ t with held := (l, m) :: t.held, prog := k } : Thread L).holdsM D.rw m'
        = t.holdsM D.rw m' := by
      intro m'; simp [Thread.holdsM, hl]
    exact ⟨fun hx => Or.inl (by simpa [wb, e1] using hx), fun hx => Or.inl (by simpa [e1] using hx),
      fun hx => Or.inl (by simpa [e1] using hx)⟩
  · intro l ks kf hp _
    rw [hp] at h1
    simp only [ok, Bool.and_eq_true, Bool.not_eq_true', decide_eq_false_iff_not] at h1
    have hl : l ≠ D.rw := h1.1.1.2
    have e1 : ∀ m', ({ t with held := (l, .excl) :: t.held, prog := ks } : Thread L).holdsM D.rw m'
        = t.holdsM D.rw m' := by
      intro m'; simp [Thread.holdsM, hl]
    exact ⟨fun hx => Or.inl (by simpa [wb, e1] using hx), fun hx => Or.inl (by simpa [e1] using hx),
      fun hx => Or.inl (by simpa [e1] using hx)⟩
  · intro l ks kf _ _
    exact ⟨fun hx => Or.inl hx, fun hx => Or.inl hx, fun hx => Or.inl hx⟩
  · intro l k _
    refine ⟨fun hx => Or.inl ?_, fun hx => Or.inl (holdsM_dropLock hx),
      fun hx => Or.inl (holdsM_dropLock hx)⟩
    simp only [wb, Bool.or_eq_true] at hx ⊢
    rcases hx with hx | hx
    · exact Or.inl hx
    · exact Or.inr (holdsM_dropLock hx)
  · intro l k _
    refine ⟨fun hx => Or.inl ?_, fun hx => Or.inl (holdsM_dropLock hx),
      fun hx => Or.inl (holdsM_dropLock hx)⟩
    simp only [wb, Bool.or_eq_true] at hx ⊢
    rcases hx with hx | hx
    · exact Or.inl hx
    · exact Or.inr (holdsM_dropLock hx)
  · intro ts k _ _
    exact ⟨fun hx => Or.inl hx, fun hx => Or.inl hx, fun hx => Or.inl hx⟩

theorem wb_writerBit {rw : L} {cfg : Config L} {t : Thread L} (ht : t ∈ cfg)
    (h : wb rw t = true) : writerBit cfg rw = true :=
  writerBit_true_iff.2 ⟨t, ht, by simpa [wb] using h⟩

theorem RwInv_step {D : Disc L} {cfg cfg' : Config L} {i : Nat}
    (hwf : WFConfig D cfg) (hinv : RwInv D.rw cfg) (h : step D.rw cfg i = some cfg') :
    RwInv D.rw cfg' := by
  obtain ⟨t0, t0', hi0, hst, rfl⟩ := step_some h
  have ht0 : t0 ∈ cfg := mem_iff_getElem?.2 ⟨i, hi0⟩
  obtain ⟨s1, s2, s3⟩ := stepThread_rw (hwf.1 t0 ht0) hst
  intro a b t u hab ha hb hwt
  rcases getElem?_set_cases ha with ⟨hea, rfl⟩ | ⟨hna, ha0⟩
  · -- the moving thread is the writer
    subst hea
    rcases getElem?_set_cases hb with ⟨heb, _⟩ | ⟨_, hb0⟩
    · exact absurd heb.symm hab
    · have hu : u ∈ cfg := mem_iff_getElem?.2 ⟨b, hb0⟩
      refine ⟨?_, ?_⟩
      · rcases s1 hwt with hw | hw
        · exact (hinv a b t0 u hab hi0 hb0 hw).1
        · have := writerBit_false_iff.1 hw u hu
          simp [wb, this.1, this.2]
      · intro hex
        rcases s2 hex with he | hn
        · exact (hinv a b t0 u hab hi0 hb0 (by simp [wb, he])).2 he
        · exact noReaders_true_iff.1 hn u hu
  · have ht : t ∈ cfg := mem_iff_getElem?.2 ⟨a, ha0⟩
    have hwbit := wb_writerBit ht hwt
    rcases getElem?_set_cases hb with ⟨heb, rfl⟩ | ⟨_, hb0⟩
    · subst heb
      have hold := hinv a b t t0 hab ha0 hi0 hwt
      refine ⟨?_, ?_⟩
      · cases hx : wb D.rw u with
        | false => rfl
        | true =>
          rcases s1 hx with hw | hw
          · rw [hold.1] at hw; cases hw
          · rw [hwbit] at hw; cases hw
      · intro hex
        cases hx : u.holdsM D.rw .shared with
        | false => rfl
        | true =>
          rcases s3 hx with hw | hw
          · rw [hold.2 hex] at hw; cases hw
          · rw [hwbit] at hw; cases hw
    · exact hinv a b t u hab ha0 hb0 hwt

/-- initial configurations: nothing held, no writer bit -/
def Initial (cfg : Config L) : Prop := ∀ t ∈ cfg, t.held = [] ∧ t.claim = false

theorem RwInv_initial {rw : L} {cfg : Config L} (h : Initial cfg) : RwInv rw cfg := by
  intro i j t u _ hi _ hw
  have := h t (mem_iff_getElem?.2 ⟨i, hi⟩)
  simp [wb, this.1, this.2, Thread.holdsM] at hw

theorem RwInv_reach {D : Disc L} (hD : D.WF) {cfg cfg' : Config L} (hwf : WFConfig D cfg)
    (hinv : RwInv D.rw cfg) (h : Reach D.rw cfg cfg') : RwInv D.rw cfg' := by
  induction h with
  | refl => exact hinv
  | tail i hr hs ih => exact RwInv_step (WFConfig_reach hD hwf hr) ih hs

/-- **Under the exclusive lock** every other thread that is not a sub-task holds neither the
`RwLock` nor any lock living inside the manager. -/
theorem excl_excludes {D : Disc L} {cfg : Config L} (hwf : WFConfig D cfg)
    (hinv : RwInv D.rw cfg) {i j : Nat} {t u : Thread L} (hij : i ≠ j)
    (hi : cfg[i]? = some t) (hj : cfg[j]? = some u) (hex : t.holdsM D.rw .excl = true)
    (hsub : u.sub = false) : ∀ h ∈ u.held, h.1 ≠ D.rw ∧ D.prot h.1 = false := by
  have hw : wb D.rw t = true := by simp [wb, hex]
  obtain ⟨h1, h2⟩ := hinv i j t u hij hi hj hw
  have h2 := h2 hex
  have hnorw : ∀ h ∈ u.held, h.1 ≠ D.rw := by
    intro ⟨l, m⟩ hm he
    simp only at he
    subst he
    cases m with
    | shared => rw [holdsM_iff.2 hm] at h2; cases h2
    | excl =>
      have : wb D.rw u = true := by simp [wb, holdsM_iff.2 hm]
      rw [this] at h1; cases h1
  have hp := ok_protInv (hwf.1 u (mem_iff_getElem?.2 ⟨j, hj⟩)).1
  simp only [protInv, hsub, Bool.false_or, Bool.or_eq_true, List.all_eq_true, List.any_eq_true,
    Bool.not_eq_true', decide_eq_true_eq] at hp
  intro h hh
  refine ⟨hnorw h hh, ?_⟩
  rcases hp with hp | ⟨x, hx, hxe⟩
  · exact hp h hh
  · exact absurd hxe (hnorw x hx)

/-! ## executable checks for concrete configurations -/

/-- Boolean version of `JoinWF` -/
def joinWFb (cfg : Config L) : Bool :=
  (List.range cfg.length).all fun i =>
    match cfg[i]? with
    | some t => t.prog.joins.all fun o =>
        match cfg[i + 1 + o]? with
        | some w => w.sub
        | none => true
    | none => true

theorem JoinWF_of_joinWFb {cfg : Config L} (h : joinWFb cfg = true) : JoinWF cfg := by
  intro i t hi o ho w hw
  simp only [joinWFb, List.all_eq_true, List.mem_range] at h
  have := h i (lt_length_of_getElem? hi)
  simp only [hi, List.all_eq_true] at this
  have := this o ho
  simpa [hw] using this

theorem exists_unfinished {cfg : Config L} (h : cfg.any (fun t => !t.prog.isDone) = true) :
    ∃ (i : Nat) (t : Thread L), cfg[i]? = some t ∧ t.prog ≠ .done := by
  obtain ⟨t, ht, hd⟩ := List.any_eq_true.1 h
  obtain ⟨i, hi⟩ := mem_iff_getElem?.1 ht
  refine ⟨i, t, hi, ?_⟩
  intro he
  rw [he] at hd
  simp [Prog.isDone] at hd

end Generic
end OxiddModel.Locks
