import OxiddModel.Locks.Lemmas

/-!
# Locking protocol — the table is ranked for *all* dimensions and *all* scripts

`Properties.acquisitions_ranked` evaluates `ok` on a finite table (2 buckets, 3 levels, one script
per kind). This file proves the same for every number of buckets and levels and for every script of
micro-operations (`table_ranked_all`), by composing *balanced blocks*: a block `b` is balanced at
the held set `H` if `ok H k → ok H (b k)` for every continuation `k`.
-/
namespace OxiddModel.Locks
open Lock

/-- block `b` is fine at `H` and gives `H` back -/
def Bal (d : Dims) (sub : Bool) (H : List (Lock × Mode)) (b : Blk) : Prop :=
  ∀ k, ok (disc d) sub H k = true → ok (disc d) sub H (b k) = true

def below (d : Dims) (H : List (Lock × Mode)) (n : Nat) : Prop := ∀ h ∈ H, rank d h.1 < n

/-- a sub-task, or the manager lock is held -/
def hasMgr (sub : Bool) (H : List (Lock × Mode)) : Prop := sub = true ∨ ∃ m, (mgr, m) ∈ H

theorem protInv_of_hasMgr {d : Dims} {sub : Bool} {H : List (Lock × Mode)} (h : hasMgr sub H) :
    protInv (disc d) sub H = true := by
  rcases h with h | ⟨m, hm⟩
  · simp [protInv, h]
  · simp only [protInv, Bool.or_eq_true, List.any_eq_true, decide_eq_true_eq]
    exact Or.inr ⟨(mgr, m), hm, rfl⟩

theorem hasMgr_cons {sub : Bool} {H : List (Lock × Mode)} (x : Lock × Mode) (h : hasMgr sub H) :
    hasMgr sub (x :: H) := by
  rcases h with h | ⟨m, hm⟩
  · exact Or.inl h
  · exact Or.inr ⟨m, List.mem_cons_of_mem _ hm⟩

theorem hasMgr_append {sub : Bool} {H : List (Lock × Mode)} (X : List (Lock × Mode))
    (h : hasMgr sub H) : hasMgr sub (X ++ H) := by
  rcases h with h | ⟨m, hm⟩
  · exact Or.inl h
  · exact Or.inr ⟨m, List.mem_append_right _ hm⟩

theorem below_mono {d : Dims} {H : List (Lock × Mode)} {n m : Nat} (h : below d H n) (hnm : n ≤ m) :
    below d H m := fun x hx => Nat.lt_of_lt_of_le (h x hx) hnm

theorem below_cons {d : Dims} {H : List (Lock × Mode)} {n : Nat} {x : Lock × Mode}
    (hx : rank d x.1 < n) (h : below d H n) : below d (x :: H) n := by
  intro y hy
  rcases List.mem_cons.1 hy with rfl | hy
  · exact hx
  · exact h y hy

theorem allBelow_of_below {d : Dims} {H : List (Lock × Mode)} {n : Nat} (h : below d H n) :
    allBelow (disc d) H n = true := allBelow_iff.2 h

theorem dropLock_cons_self {H : List (Lock × Mode)} {l : Lock} {m : Mode}
    (h : ∀ x ∈ H, x.1 ≠ l) : dropLock ((l, m) :: H) l = H := by
  simp only [dropLock, List.filter_cons, decide_true, Bool.not_true]
  simp only [Bool.false_eq_true, if_false]
  rw [List.filter_eq_self]
  intro x hx
  simpa using h x hx

theorem ne_of_below {d : Dims} {H : List (Lock × Mode)} {l : Lock} (h : below d H (rank d l)) :
    ∀ x ∈ H, x.1 ≠ l := by
  intro x hx he
  have := h x hx
  rw [he] at this
  omega

theorem acqOK_excl {d : Dims} {sub : Bool} {H : List (Lock × Mode)} {l : Lock}
    (hb : below d H (rank d l)) (hl : l ≠ mgr) (hs : sub = true → 2 + d.nb ≤ rank d l) :
    acqOK (disc d) sub H l .excl = true := by
  have h1 : allBelow (disc d) H ((disc d).rank l) = true := allBelow_of_below hb
  unfold acqOK
  rw [h1]
  cases sub with
  | false => simp
  | true =>
    have := hs rfl
    simp [disc, hl, this]

theorem seq_nil (k : Prog Lock) : seq [] k = k := rfl
theorem seq_cons (b : Blk) (bs : List Blk) (k : Prog Lock) : seq (b :: bs) k = b (seq bs k) := rfl
theorem seq_append (as bs : List Blk) (k : Prog Lock) : seq (as ++ bs) k = seq as (seq bs k) := by
  induction as with
  | nil => rfl
  | cons a as ih => simp only [List.cons_append, seq_cons, ih]

theorem bal_seq {d : Dims} {sub : Bool} {H : List (Lock × Mode)} {bs : List Blk}
    (h : ∀ b ∈ bs, Bal d sub H b) : Bal d sub H (seq bs) := by
  induction bs with
  | nil => intro k hk; exact hk
  | cons b bs ih =>
    intro k hk
    rw [seq_cons]
    exact h b (by simp) _ (ih (fun b' hb' => h b' (by simp [hb'])) k hk)

theorem bal_locked {d : Dims} {sub : Bool} {H : List (Lock × Mode)} {l : Lock} {body : List Blk}
    (hm : hasMgr sub H) (hb : below d H (rank d l)) (hl : l ≠ mgr)
    (hs : sub = true → 2 + d.nb ≤ rank d l)
    (hbody : ∀ b ∈ body, Bal d sub ((l, .excl) :: H) b) : Bal d sub H (locked l body) := by
  intro k hk
  simp only [locked, ok, Bool.and_eq_true]
  refine ⟨⟨protInv_of_hasMgr hm, acqOK_excl hb hl hs⟩, ?_⟩
  · apply bal_seq hbody
    simp only [ok, Bool.and_eq_true]
    refine ⟨⟨protInv_of_hasMgr (hasMgr_cons _ hm), by simp⟩, ?_⟩
    rw [dropLock_cons_self (ne_of_below hb)]
    exact hk

theorem bal_tryLocked {d : Dims} {sub : Bool} {H : List (Lock × Mode)} {l : Lock}
    {body : List Blk} (hm : hasMgr sub H) (hne : ∀ x ∈ H, x.1 ≠ l) (hl : l ≠ mgr)
    (hbody : ∀ b ∈ body, Bal d sub ((l, .excl) :: H) b) : Bal d sub H (tryLocked l body) := by
  intro k hk
  simp only [tryLocked, ok, Bool.and_eq_true]
  refine ⟨⟨⟨protInv_of_hasMgr hm, by simp [disc, hl]⟩, ?_⟩, hk⟩
  apply bal_seq hbody
  simp only [ok, Bool.and_eq_true]
  refine ⟨⟨protInv_of_hasMgr (hasMgr_cons _ hm), by simp⟩, ?_⟩
  rw [dropLock_cons_self hne]
  exact hk

theorem bal_join {d : Dims} {sub : Bool} {H : List (Lock × Mode)} {ts : List Nat}
    (hm : hasMgr sub H) (hb : below d H (2 + d.nb)) : Bal d sub H (joinB ts) := by
  intro k hk
  simp only [joinB, ok, Bool.and_eq_true]
  exact ⟨⟨protInv_of_hasMgr hm, allBelow_of_below hb⟩, hk⟩

/-! ### leaves -/

theorem bal_store {d : Dims} {sub : Bool} {H : List (Lock × Mode)} (hm : hasMgr sub H)
    (hb : below d H (2 + d.nb + d.nl)) : Bal d sub H storeB :=
  bal_locked hm hb (by intro h; cases h) (by intro _; simp [rank]) (by intro b hb; cases hb)

theorem bal_term {d : Dims} {sub : Bool} {H : List (Lock × Mode)} (hm : hasMgr sub H)
    (hb : below d H (2 + d.nb + d.nl)) : Bal d sub H termB :=
  bal_locked hm (below_mono hb (by simp [rank])) (by intro h; cases h)
    (by intro _; simp [rank]; omega) (by intro b hb; cases hb)

theorem bal_mrefDrop {d : Dims} {sub : Bool} {H : List (Lock × Mode)} (hm : hasMgr sub H)
    (hb : below d H (2 + d.nb + d.nl)) : Bal d sub H mrefDropB :=
  bal_locked hm (below_mono hb (by simp [rank])) (by intro h; cases h)
    (by intro _; simp [rank]; omega) (by intro b hb; cases hb)

theorem bal_level {d : Dims} {sub : Bool} {H : List (Lock × Mode)} {j : Nat} (hj : j < d.nl)
    (hm : hasMgr sub H) (hb : below d H (2 + d.nb + j)) : Bal d sub H (levelB j) := by
  apply bal_locked hm hb (by intro h; cases h) (by intro _; simp [rank])
  intro b hb'
  simp only [List.mem_singleton] at hb'
  subst hb'
  exact bal_store (hasMgr_cons _ hm)
    (below_cons (by simp [rank]; omega) (below_mono hb (by omega)))

theorem bal_levelPeek {d : Dims} {sub : Bool} {H : List (Lock × Mode)} {j : Nat}
    (hm : hasMgr sub H) (hb : below d H (2 + d.nb + j)) : Bal d sub H (locked (level j) []) :=
  bal_locked hm hb (by intro h; cases h) (by intro _; simp [rank]) (by intro b hb; cases hb)

theorem bal_levels {d : Dims} {sub : Bool} {H : List (Lock × Mode)} (hm : hasMgr sub H)
    (hb : below d H (2 + d.nb)) (js : List Nat) (hjs : ∀ j ∈ js, j < d.nl) :
    ∀ b ∈ js.map levelB, Bal d sub H b := by
  intro b hb'
  obtain ⟨j, hj, rfl⟩ := List.mem_map.1 hb'
  exact bal_level (hjs j hj) hm (below_mono hb (by omega))

/-! ### the bucket bracket (`pre_gc` … `post_gc`) -/

/-- buckets `r … r+m-1`, the last acquired first -/
def bk (r m : Nat) : List (Lock × Mode) :=
  ((List.range' r m).map (fun b => (bucket b, Mode.excl))).reverse

def acqFrom (r m : Nat) : List Blk := (List.range' r m).map (fun b => acqB (bucket b))
def relFrom (r m : Nat) : List Blk := (List.range' r m).map (fun b => relB (bucket b))

theorem bucketsAcq_eq (n : Nat) : bucketsAcq n = acqFrom 0 n := by
  simp [bucketsAcq, acqFrom, List.range_eq_range']
theorem bucketsRel_eq (n : Nat) : bucketsRel n = relFrom 0 n := by
  simp [bucketsRel, relFrom, List.range_eq_range']

theorem mem_bk {r m : Nat} {h : Lock × Mode} :
    h ∈ bk r m ↔ ∃ b, r ≤ b ∧ b < r + m ∧ h = (bucket b, .excl) := by
  simp only [bk, List.mem_reverse, List.mem_map, List.mem_range'_1]
  constructor
  · rintro ⟨b, ⟨h1, h2⟩, rfl⟩; exact ⟨b, h1, h2, rfl⟩
  · rintro ⟨b, h1, h2, rfl⟩; exact ⟨b, ⟨h1, h2⟩, rfl⟩

theorem bk_succ (r m : Nat) : bk r (m + 1) = bk (r + 1) m ++ [(bucket r, .excl)] := by
  simp [bk, List.range'_succ]

theorem below_bk_append {d : Dims} {H : List (Lock × Mode)} {r m n : Nat}
    (hn : 2 + r + m ≤ n) (hb : below d H n) : below d (bk r m ++ H) n := by
  intro x hx
  rcases List.mem_append.1 hx with hx | hx
  · obtain ⟨b, _, h2, rfl⟩ := mem_bk.1 hx
    simp only [rank]; omega
  · exact hb x hx

theorem ok_acqFrom {d : Dims} (m : Nat) : ∀ (r : Nat) (H : List (Lock × Mode)) (k : Prog Lock),
    hasMgr false H → below d H (2 + r) → ok (disc d) false (bk r m ++ H) k = true →
    ok (disc d) false H (seq (acqFrom r m) k) = true := by
  induction m with
  | zero => intro r H k _ _ hk; simpa [acqFrom, bk, seq] using hk
  | succ m ih =>
    intro r H k hm hb hk
    have : acqFrom r (m + 1) = acqB (bucket r) :: acqFrom (r + 1) m := by
      simp [acqFrom, List.range'_succ]
    rw [this, seq_cons]
    simp only [acqB, ok, Bool.and_eq_true]
    refine ⟨⟨protInv_of_hasMgr hm,
      acqOK_excl (l := bucket r) hb (by intro h; cases h) (by intro h; cases h)⟩, ?_⟩
    · apply ih (r + 1) _ k (hasMgr_cons _ hm)
        (below_cons (by simp [rank]) (below_mono hb (by omega)))
      rw [bk_succ, List.append_assoc] at hk
      exact hk

theorem ok_relFrom {d : Dims} {sub : Bool} (m : Nat) :
    ∀ (r : Nat) (H : List (Lock × Mode)) (k : Prog Lock),
    hasMgr sub H → (∀ x ∈ H, ∀ b, x.1 ≠ bucket b) → ok (disc d) sub H k = true →
    ok (disc d) sub (bk r m ++ H) (seq (relFrom r m) k) = true := by
  induction m with
  | zero => intro r H k _ _ hk; simpa [relFrom, bk, seq] using hk
  | succ m ih =>
    intro r H k hm hnb hk
    have : relFrom r (m + 1) = relB (bucket r) :: relFrom (r + 1) m := by
      simp [relFrom, List.range'_succ]
    rw [this, seq_cons]
    simp only [relB, ok, Bool.and_eq_true]
    refine ⟨⟨protInv_of_hasMgr (hasMgr_append _ hm), ?_⟩, ?_⟩
    · rw [List.any_eq_true]
      exact ⟨(bucket r, .excl), List.mem_append_left _ (mem_bk.2 ⟨r, by omega, by omega, rfl⟩),
        by simp⟩
    · have hd : dropLock (bk r (m + 1) ++ H) (bucket r) = bk (r + 1) m ++ H := by
        rw [bk_succ, List.append_assoc]
        show dropLock (bk (r + 1) m ++ ((bucket r, Mode.excl) :: H)) (bucket r) = _
        unfold dropLock
        rw [List.filter_append]
        congr 1
        · rw [List.filter_eq_self]
          intro x hx
          obtain ⟨b, h1, _, rfl⟩ := mem_bk.1 hx
          simp; omega
        · exact dropLock_cons_self (fun x hx => hnb x hx r)
      rw [hd]
      exact ih (r + 1) H k hm hnb hk

/-- `pre_gc; mid; post_gc` is balanced at a held set without buckets -/
theorem bal_bracket {d : Dims} {H : List (Lock × Mode)} {mid : List Blk}
    (hm : hasMgr false H) (hb : below d H 2)
    (hmid : ∀ b ∈ mid, Bal d false (bk 0 d.nb ++ H) b) :
    Bal d false H (seq (bucketsAcq d.nb ++ mid ++ bucketsRel d.nb)) := by
  intro k hk
  rw [List.append_assoc, seq_append, seq_append, bucketsAcq_eq, bucketsRel_eq]
  apply ok_acqFrom d.nb 0 H _ hm (by simpa using hb)
  apply bal_seq hmid
  apply ok_relFrom d.nb 0 H k hm _ hk
  intro x hx b he
  have := hb x hx
  rw [he] at this
  simp only [rank] at this
  omega

/-! ### `gc()` -/

theorem bal_gcCall {d : Dims} {H : List (Lock × Mode)} (hm : hasMgr false H) (hb : below d H 1) :
    Bal d false H (gcCall d) := by
  intro k hk
  have hne : ∀ x ∈ H, x.1 ≠ gcOngoing := by
    intro x hx he
    have := hb x hx
    rw [he] at this; simp [rank] at this
  have hm2 : hasMgr false ((gcOngoing, Mode.excl) :: H) := hasMgr_cons _ hm
  have hb2 : below d ((gcOngoing, Mode.excl) :: H) 2 :=
    below_cons (by simp [rank]) (below_mono hb (by omega))
  simp only [gcCall, ok, Bool.and_eq_true]
  refine ⟨⟨⟨protInv_of_hasMgr hm, by simp [disc]⟩, ?_⟩, hk⟩
  have hsplit : gcBody d =
      (bucketsAcq d.nb ++ ((List.range d.nl).map levelB ++ [termB]) ++ bucketsRel d.nb)
        ++ [relB gcOngoing] := by
    simp [gcBody, List.append_assoc]
  rw [hsplit, seq_append]
  have hf : below d (bk 0 d.nb ++ (gcOngoing, Mode.excl) :: H) (2 + d.nb) :=
    below_bk_append (by omega) (below_mono hb2 (by omega))
  apply bal_bracket hm2 hb2
  · intro b hb'
    rcases List.mem_append.1 hb' with hb' | hb'
    · exact bal_levels (hasMgr_append _ hm2) hf _ (by intro j hj; simpa using hj) b hb'
    · simp only [List.mem_singleton] at hb'; subst hb'
      exact bal_term (hasMgr_append _ hm2) (below_mono hf (by omega))
  · simp only [seq, List.foldr, relB, ok, Bool.and_eq_true]
    refine ⟨⟨protInv_of_hasMgr hm2, by simp⟩, ?_⟩
    rw [dropLock_cons_self hne]
    exact hk

theorem bal_gcCallPrepared {d : Dims} {H : List (Lock × Mode)} (hm : hasMgr false H)
    (hb : below d H (2 + d.nb)) (hne : ∀ x ∈ H, x.1 ≠ gcOngoing) :
    Bal d false H (gcCallPrepared d) := by
  have : gcCallPrepared d = tryLocked gcOngoing ((List.range d.nl).map levelB ++ [termB]) := by
    funext k
    simp only [gcCallPrepared, tryLocked]
    congr 1
    rw [seq_append, seq_append]
    rfl
  rw [this]
  have hm2 : hasMgr false ((gcOngoing, Mode.excl) :: H) := hasMgr_cons _ hm
  have hb2 : below d ((gcOngoing, Mode.excl) :: H) (2 + d.nb) :=
    below_cons (by simp only [rank]; omega) hb
  apply bal_tryLocked hm hne (by intro h; cases h)
  intro b hb'
  rcases List.mem_append.1 hb' with hb' | hb'
  · exact bal_levels hm2 hb2 _ (by intro j hj; simpa using hj) b hb'
  · simp only [List.mem_singleton] at hb'; subst hb'
    exact bal_term hm2 (below_mono hb2 (by omega))

/-! ### micro-operations and scripts -/

theorem bal_micro {d : Dims} {sub : Bool} {H : List (Lock × Mode)} (hm : hasMgr sub H)
    (hb : below d H 1) (mo : Micro) (hv : mo.valid d sub = true) : Bal d sub H (microB d mo) := by
  cases mo with
  | cache b =>
    apply bal_tryLocked hm _ (by intro h; cases h) (by intro b hb; cases hb)
    intro x hx he
    have := hb x hx
    rw [he] at this; simp [rank] at this
  | mk j =>
    simp only [Micro.valid, decide_eq_true_eq] at hv
    exact bal_level hv hm (below_mono hb (by omega))
  | terminal => exact bal_term hm (below_mono hb (by omega))
  | peekLevel j => exact bal_levelPeek hm (below_mono hb (by omega))
  | peekStore => exact bal_store hm (below_mono hb (by omega))
  | clear b =>
    simp only [Micro.valid, Bool.and_eq_true, Bool.not_eq_true', decide_eq_true_eq] at hv
    exact bal_locked hm (below_mono hb (by simp only [rank]; omega)) (by intro h; cases h)
      (by intro hs; rw [hv.1] at hs; cases hs) (by intro b hb; cases hb)
  | dropFn => exact bal_mrefDrop hm (below_mono hb (by omega))
  | gc =>
    simp only [Micro.valid, Bool.not_eq_true'] at hv
    subst hv
    exact bal_gcCall hm hb
  | fork ts => exact bal_join hm (below_mono hb (by omega))

theorem bal_script {d : Dims} {sub : Bool} {H : List (Lock × Mode)} (hm : hasMgr sub H)
    (hb : below d H 1) (s : List Micro) (hv : s.all (Micro.valid d sub) = true) :
    Bal d sub H (seq (scriptB d s)) := by
  apply bal_seq
  intro b hb'
  obtain ⟨mo, hmo, rfl⟩ := List.mem_map.1 hb'
  exact bal_micro hm hb mo (List.all_eq_true.1 hv mo hmo)

/-! ### the rows -/

theorem ok_store_done (d : Dims) : ok (disc d) false [] (storeB .done) = true := by
  simp [storeB, locked, seq, ok, acqOK, protInv, allBelow, dropLock, disc, prot]

theorem ok_withShared {d : Dims} {body : List Blk}
    (h : Bal d false [(mgr, .shared)] (seq body)) :
    ok (disc d) false [] (withShared body .done) = true := by
  simp only [withShared, seq_append, seq_cons, seq_nil, acqB, ok, Bool.and_eq_true]
  refine ⟨⟨protInv_nil _ _, by simp [acqOK, allBelow, disc]⟩, ?_⟩
  apply h
  simp only [relB, ok, Bool.and_eq_true]
  refine ⟨⟨by simp [protInv, disc], by simp⟩, ?_⟩
  exact ok_store_done d

theorem ok_withExclusive {d : Dims} {body : List Blk}
    (h : Bal d false [(mgr, .excl)] (seq body)) :
    ok (disc d) false [] (withExclusive body .done) = true := by
  simp only [withExclusive, seq_append, seq_cons, seq_nil, acqB, ok, Bool.and_eq_true]
  refine ⟨⟨protInv_nil _ _, by simp [acqOK, allBelow, disc]⟩, ?_⟩
  apply h
  simp only [relB, ok, Bool.and_eq_true]
  refine ⟨⟨by simp [protInv, disc], by simp⟩, ?_⟩
  exact ok_store_done d

theorem hasMgr_single (m : Mode) : hasMgr false [(mgr, m)] := Or.inr ⟨m, by simp⟩
theorem below_single (d : Dims) (m : Mode) : below d [(mgr, m)] 1 := by
  intro x hx; simp at hx; subst hx; simp [rank]

/-- **Every row of the table is ranked — for all dimensions, scripts and worker positions.** -/
theorem table_ranked_all (d : Dims) (k : OpKind) (hv : k.valid d = true) :
    ok (disc d) k.isSub [] (opProg d k) = true := by
  cases k with
  | shared s =>
    exact ok_withShared (bal_script (hasMgr_single _) (below_single d _) s hv)
  | subTask s =>
    have := bal_script (d := d) (sub := true) (H := []) (Or.inl rfl) (by intro x hx; cases hx) s hv
    exact this .done rfl
  | gcExplicit =>
    apply ok_withShared
    apply bal_seq
    intro b hb
    simp only [List.mem_singleton] at hb; subst hb
    exact bal_gcCall (hasMgr_single _) (below_single d _)
  | gcThread =>
    have hend : ok (disc d) false [(mgr, .shared)] (relB mgr (storeB .done)) = true := by
      simp only [relB, ok, Bool.and_eq_true]
      exact ⟨⟨by simp [protInv, disc], by simp⟩, ok_store_done d⟩
    have hgc := bal_gcCall (d := d) (hasMgr_single .shared) (below_single d _) _ hend
    simp only [opProg, OpKind.isSub, seq, List.foldr, acqB, waitB, relB, ok, Bool.and_eq_true]
    refine ⟨⟨protInv_nil _ _, by simp [acqOK, allBelow, disc]⟩, ?_⟩
    refine ⟨⟨⟨⟨by simp [protInv, disc, prot], by simp⟩, by simp [protInv, dropLock]⟩,
      by simp [acqOK, allBelow, dropLock, disc]⟩, ?_⟩
    refine ⟨⟨by simp [protInv, dropLock, disc, prot], by simp [dropLock]⟩, ?_⟩
    have hd : dropLock ((gcSignal, Mode.excl) :: dropLock [(gcSignal, Mode.excl)] gcSignal)
        gcSignal = [] := by simp [dropLock]
    rw [hd]
    refine ⟨⟨protInv_nil _ _, by simp [acqOK, allBelow, disc]⟩, ?_⟩
    exact hgc
  | reorder ws ws2 =>
    apply ok_withExclusive
    have hm := hasMgr_single .excl
    have hb1 := below_single d .excl
    have hmf : hasMgr false (bk 0 d.nb ++ [(mgr, Mode.excl)]) := hasMgr_append _ hm
    have hf : below d (bk 0 d.nb ++ [(mgr, Mode.excl)]) (2 + d.nb) :=
      below_bk_append (by omega) (below_mono hb1 (by omega))
    have hng : ∀ x ∈ bk 0 d.nb ++ [(mgr, Mode.excl)], x.1 ≠ gcOngoing := by
      intro x hx
      rcases List.mem_append.1 hx with hx | hx
      · obtain ⟨b, _, _, rfl⟩ := mem_bk.1 hx; intro h; cases h
      · simp at hx; subst hx; intro h; cases h
    have hassoc : ∀ (mid : List Blk) (k : Prog Lock),
        seq (bucketsAcq d.nb ++ mid ++ bucketsRel d.nb) k
          = seq (bucketsAcq d.nb ++ (mid ++ bucketsRel d.nb)) k := by
      intro mid k; rw [List.append_assoc]
    intro k hk
    have := bal_bracket (d := d) (H := [(mgr, .excl)]) hm (below_mono hb1 (by omega))
      (mid := [termB] ++ (List.range d.nl).map levelB ++ [joinB ws]
        ++ (if 2 ≤ d.nl then [locked (level 0) [levelB (d.nl - 1)]] else [])
        ++ (List.range d.nl).map (fun j => locked (level j) [])
        ++ [joinB ws2] ++ [gcCallPrepared d]
        ++ [termB] ++ (List.range d.nl).reverse.map levelB) ?_ k hk
    · simpa [List.append_assoc] using this
    · intro b hb
      simp only [List.mem_append, List.mem_singleton, List.mem_map, List.mem_range,
        List.mem_reverse] at hb
      rcases hb with (((((((hb | hb) | hb) | hb) | hb) | hb) | hb) | hb) | hb
      · subst hb; exact bal_term hmf (below_mono hf (by omega))
      · obtain ⟨j, hj, rfl⟩ := hb; exact bal_level hj hmf (below_mono hf (by omega))
      · subst hb; exact bal_join hmf hf
      · split at hb
        · rename_i h2
          simp only [List.mem_singleton] at hb; subst hb
          apply bal_locked hmf (by simpa [rank] using hf) (by intro h; cases h) (by intro h; cases h)
          intro b hb; simp only [List.mem_singleton] at hb; subst hb
          exact bal_level (by omega) (hasMgr_cons _ hmf)
            (below_cons (by simp [rank]; omega) (below_mono hf (by omega)))
        · cases hb
      · obtain ⟨j, _, rfl⟩ := hb; exact bal_levelPeek hmf (below_mono hf (by omega))
      · subst hb; exact bal_join hmf hf
      · subst hb; exact bal_gcCallPrepared hmf hf hng
      · subst hb; exact bal_term hmf (below_mono hf (by omega))
      · obtain ⟨j, hj, rfl⟩ := hb; exact bal_level hj hmf (below_mono hf (by omega))
  | sortWorker u l =>
    simp only [OpKind.valid, Bool.and_eq_true, decide_eq_true_eq] at hv
    have hb0 : below d [] 0 := by intro x hx; cases hx
    have hsub : hasMgr true [] := Or.inl rfl
    have h1 : Bal d true [] (locked (level u) [locked (level l) [storeB]]) := by
      apply bal_locked hsub (below_mono hb0 (by omega)) (by intro h; cases h)
        (by intro _; simp [rank])
      intro b hb; simp only [List.mem_singleton] at hb; subst hb
      exact bal_level hv.2 (hasMgr_cons _ hsub)
        (below_cons (by simp [rank]; omega) (below_mono hb0 (by omega)))
    have h2 : Bal d true [] (locked reorderState []) :=
      bal_locked hsub (below_mono hb0 (by omega)) (by intro h; cases h)
        (by intro _; simp [rank]; omega) (by intro b hb; cases hb)
    have hrest := h1 _ (h2 .done rfl)
    simp only [opProg, OpKind.isSub, seq, List.foldr, acqB, waitB, relB, ok, Bool.and_eq_true]
    have hacq : acqOK (disc d) true [] reorderState .excl = true :=
      acqOK_excl (l := reorderState) (by intro x hx; cases hx) (by intro h; cases h)
        (by intro _; simp only [rank]; omega)
    have hd0 : dropLock [(reorderState, Mode.excl)] reorderState = [] := by simp [dropLock]
    refine ⟨⟨by simp [protInv], hacq⟩, ?_⟩
    refine ⟨⟨⟨⟨by simp [protInv], by simp⟩, by simp [protInv]⟩, by rw [hd0]; exact hacq⟩, ?_⟩
    refine ⟨⟨by simp [protInv], by simp [dropLock]⟩, ?_⟩
    have hd : dropLock ((reorderState, Mode.excl) :: dropLock [(reorderState, Mode.excl)]
        reorderState) reorderState = [] := by simp [dropLock]
    rw [hd]
    exact hrest
  | levelWorker j =>
    have hb0 : below d [] 0 := by intro x hx; cases hx
    have := bal_levelPeek (d := d) (sub := true) (H := []) (j := j) (Or.inl rfl)
      (below_mono hb0 (by omega)) .done rfl
    simpa [opProg, OpKind.isSub, seq] using this
  | addVars =>
    apply ok_withExclusive
    have hm := hasMgr_single .excl
    have hb1 := below_single d .excl
    apply bal_seq
    intro b hb
    simp only [List.mem_append, List.mem_singleton, List.mem_map, List.mem_range,
      List.mem_reverse] at hb
    rcases hb with (hb | hb) | hb
    · obtain ⟨j, hj, rfl⟩ := hb; exact bal_level hj hm (below_mono hb1 (by omega))
    · subst hb; exact bal_term hm (below_mono hb1 (by omega))
    · obtain ⟨j, hj, rfl⟩ := hb; exact bal_level hj hm (below_mono hb1 (by omega))
  | handleClone => rfl
  | handleDrop =>
    simp [opProg, OpKind.isSub, mrefDropB, locked, seq, ok, acqOK, protInv, allBelow, dropLock,
      disc, prot]

end OxiddModel.Locks
