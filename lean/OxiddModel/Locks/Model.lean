/-!
# Locking protocol of the index manager (C07, "never deadlock")

This file is the *model*: lock classes with a rank, thread programs, a small-step interleaving
semantics, the static discipline `ok` (every blocking acquisition happens while only locks of
strictly smaller rank are held, …) and — at the end — **the table of operation programs**, which is
the model of the code in

* `/repo/crates/oxidd-manager-index/src/manager.rs`      (manager `RwLock`, level mutexes, store
  state mutex, `gc_ongoing`, gc thread, `reorder`)
* `/repo/crates/oxidd-manager-index/src/util/rwlock.rs`  (`parking_lot::RawRwLock`, **non-recursive**
  `lock_shared`)
* `/repo/crates/oxidd-manager-index/src/workers.rs`      (rayon pool: `install`/`join`/`broadcast`)
* `/repo/crates/oxidd-manager-index/src/terminal_manager/dynamic.rs` (terminal table mutex)
* `/repo/crates/oxidd-cache/src/direct.rs`               (one spin/parking mutex per bucket)
* `/repo/crates/oxidd-reorder/src/{lib.rs,set_var_order/mod.rs}` (`level_swap`, concurrent sort)

## What is assumed about the primitives (NOT proved here)

* `parking_lot::Mutex` / `RawRwLock` / the spin `RawMutex` of `oxidd-cache/src/util.rs` implement
  mutual exclusion, and a blocked `lock()` returns once the lock is free and the scheduler picks the
  thread (weak fairness of the scheduler; eventual fairness of parking_lot). *Starvation freedom is
  not a theorem of this file*: `no_deadlock` says that **some** thread can step, not that every
  thread eventually does.
* `RawRwLock::lock_exclusive` first takes the writer bit (new readers and writers are refused from
  then on) and then waits for the readers to drain; `lock_shared` is **not** re-entrant: a thread
  that holds the read lock and calls `lock_shared` again blocks as soon as a writer has taken the
  writer bit. This is modelled explicitly (`Thread.claim`).
* `Condvar::wait(m)` releases `m`, parks, and re-acquires `m` after a notification. The model
  assumes that **the wake-up arrives** (`wait l k` is "release `l`, later re-acquire `l`"). The whole
  class of *lost wake-up* bugs is therefore outside the model. One such bug in the gc thread
  (`Quit` signalled before the thread started waiting ⇒ thread, store and pool leaked) was found
  and fixed in /repo commit `bfc0a3c`. A second window of the same class is still in the code and
  is described at `OpKind.gcThread` below (a notification sent from `get_slot_from_shared`,
  manager.rs:641, is not sent under `gc_signal.0`).
* `rayon` `join`/`install`/`broadcast` return when the spawned closures have finished, and the
  closures are run by *some* pool thread. Work stealing (a pool thread that waits in `join`
  executes other tasks on its own stack) is covered by the same static rule that makes `join`
  safe: a thread joins only while holding locks of rank `< subMin`, and sub-tasks block only on
  locks of rank `≥ subMin`.
-/
namespace OxiddModel.Locks

/-! ## Generic part: programs, threads, semantics -/

/-- Lock mode. Mutexes are always taken `excl`; only the designated `RwLock` knows `shared`. -/
inductive Mode where
  | shared | excl
  deriving DecidableEq, Repr

/-- Thread programs (trees: `tryAcq` has a success and a failure continuation).

* `acq l m k`     blocking acquisition (`Mutex::lock`, `lock_shared`, `lock_exclusive`)
* `tryAcq l ks kf` `try_lock`: never waits; continues with `ks` holding `l`, or with `kf`
* `rel l k`       unlock
* `wait l k`      `Condvar::wait(&mut guard_of_l)`: releases `l`, re-acquires it after the wake-up
* `join ts k`     wait until the threads at positions `self+1+o` (`o ∈ ts`) have finished
                  (`rayon::join` / `install` / `broadcast` seen from the caller) -/
inductive Prog (L : Type) where
  | done
  | acq (l : L) (m : Mode) (k : Prog L)
  | tryAcq (l : L) (ks kf : Prog L)
  | rel (l : L) (k : Prog L)
  | wait (l : L) (k : Prog L)
  | join (ts : List Nat) (k : Prog L)
  deriving Repr

/-- A thread. `sub = true` marks a *sub-task* that runs on a pool worker on behalf of (and
logically under the manager lock of) a thread that `join`s it. `claim` is the writer bit of the
`RwLock` taken by this thread while it waits for the readers to leave. -/
structure Thread (L : Type) where
  sub : Bool
  held : List (L × Mode)
  claim : Bool
  prog : Prog L
  deriving Repr

abbrev Config (L : Type) := List (Thread L)

section Sem
variable {L : Type} [DecidableEq L]

def Prog.isDone : Prog L → Bool
  | .done => true
  | _ => false

/-- thread holds lock `l` (in any mode) -/
def Thread.holds (t : Thread L) (l : L) : Bool := t.held.any (fun h => decide (h.1 = l))
/-- thread holds lock `l` in mode `m` -/
def Thread.holdsM (t : Thread L) (l : L) (m : Mode) : Bool :=
  t.held.any (fun h => decide (h.1 = l) && decide (h.2 = m))

/-- nobody holds `l` -/
def free (cfg : Config L) (l : L) : Bool := cfg.all (fun t => !t.holds l)
/-- the writer bit of the `RwLock` `rw` is set: a writer is active or waits for readers -/
def writerBit (cfg : Config L) (rw : L) : Bool :=
  cfg.any (fun t => t.claim || t.holdsM rw .excl)
/-- no thread holds `rw` shared -/
def noReaders (cfg : Config L) (rw : L) : Bool := cfg.all (fun t => !t.holdsM rw .shared)
/-- the thread at position `j` has finished (positions outside the configuration count as
finished) -/
def finished (cfg : Config L) (j : Nat) : Bool :=
  match cfg[j]? with
  | some t => t.prog.isDone
  | none => true

def dropLock (held : List (L × Mode)) (l : L) : List (L × Mode) :=
  held.filter (fun h => !decide (h.1 = l))

/-- One step of thread `t` (at position `i`) in configuration `cfg`; `none` = finished or blocked.
`rw` is the one reader/writer lock. -/
def stepThread (rw : L) (cfg : Config L) (i : Nat) (t : Thread L) : Option (Thread L) :=
  match t.prog with
  | .done => none
  | .acq l m k =>
    if l = rw then
      match m with
      | .shared =>
        -- `lock_shared`: refused while the writer bit is set (writer active OR waiting)
        if writerBit cfg rw then none
        else some { t with held := (l, .shared) :: t.held, prog := k }
      | .excl =>
        if t.claim then
          -- phase 2 of `lock_exclusive`: wait for the readers to drain
          if noReaders cfg rw then
            some { t with held := (l, .excl) :: t.held, claim := false, prog := k }
          else none
        else
          -- phase 1: take the writer bit
          if writerBit cfg rw then none else some { t with claim := true }
    else
      if free cfg l then some { t with held := (l, m) :: t.held, prog := k } else none
  | .tryAcq l ks kf =>
    if free cfg l then some { t with held := (l, .excl) :: t.held, prog := ks }
    else some { t with prog := kf }
  | .rel l k => some { t with held := dropLock t.held l, prog := k }
  | .wait l k => some { t with held := dropLock t.held l, prog := .acq l .excl k }
  | .join ts k =>
    if ts.all (fun o => finished cfg (i + 1 + o)) then some { t with prog := k } else none

/-- One step of the configuration: thread `i` moves. -/
def step (rw : L) (cfg : Config L) (i : Nat) : Option (Config L) :=
  match cfg[i]? with
  | some t => (stepThread rw cfg i t).map (fun t' => cfg.set i t')
  | none => none

/-- Interleaving semantics: reflexive-transitive closure of `step` over all schedules. -/
inductive Reach (rw : L) : Config L → Config L → Prop where
  | refl (c : Config L) : Reach rw c c
  | tail {c c' c'' : Config L} (i : Nat) : Reach rw c c' → step rw c' i = some c'' → Reach rw c c''

/-- Run a schedule (list of thread positions); steps of blocked threads are skipped. -/
def run (rw : L) : Config L → List Nat → Config L
  | c, [] => c
  | c, i :: is =>
    match step rw c i with
    | some c' => run rw c' is
    | none => run rw c is

/-- Wait-for relation: thread `i` cannot move because of thread `j`. -/
def waitsFor (rw : L) (cfg : Config L) (i j : Nat) : Prop :=
  ∃ t u, cfg[i]? = some t ∧ cfg[j]? = some u ∧ stepThread rw cfg i t = none ∧
    match t.prog with
    | .acq l m _ =>
      if l = rw then
        (match m with
         | .shared => u.claim = true ∨ u.holdsM rw .excl = true
         | .excl => if t.claim then u.holdsM rw .shared = true
                    else (u.claim = true ∨ u.holdsM rw .excl = true))
      else u.holds l = true
    | .join ts _ => (∃ o ∈ ts, j = i + 1 + o) ∧ u.prog.isDone = false
    | _ => False

/-! ## Static discipline -/

/-- Parameters of the discipline. `rw` is the one reader/writer lock (bottom of the order),
`subMin` separates the locks that may be held across a `join` (`rank < subMin`) from the locks a
sub-task may block on (`rank ≥ subMin`), `prot l` marks the locks that live *inside* the manager
(may only be touched under the manager lock). -/
structure Disc (L : Type) where
  rank : L → Nat
  rw : L
  subMin : Nat
  prot : L → Bool

/-- `rw` is the unique lock of rank 0. -/
structure Disc.WF (D : Disc L) : Prop where
  rank_rw : D.rank D.rw = 0
  rank_pos : ∀ l, l ≠ D.rw → 0 < D.rank l

def allBelow (D : Disc L) (held : List (L × Mode)) (n : Nat) : Bool :=
  held.all (fun h => decide (D.rank h.1 < n))

/-- Per-state condition: a thread that is not a sub-task and holds a lock living inside the manager
holds the manager lock. -/
def protInv (D : Disc L) (sub : Bool) (held : List (L × Mode)) : Bool :=
  sub || held.all (fun h => !D.prot h.1) || held.any (fun h => decide (h.1 = D.rw))

/-- conditions for a blocking acquisition of `l` in mode `m` -/
def acqOK (D : Disc L) (sub : Bool) (held : List (L × Mode)) (l : L) (m : Mode) : Bool :=
  allBelow D held (D.rank l)                         -- only smaller ranks are held
  && (decide (m = .excl) || decide (l = D.rw))        -- `shared` only for the RwLock
  && (!sub || (!decide (l = D.rw) && decide (D.subMin ≤ D.rank l)))
      -- sub-tasks never take the manager lock and block only on locks `≥ subMin`

/-- **The static discipline.** `ok D sub held p`: started with the locks `held`, every state of
program `p` satisfies `protInv`, every blocking acquisition satisfies `acqOK`, `try` is used on
mutexes only, only held locks are released, a `join` happens only while all held locks have rank
`< subMin`, and at the end nothing is held. -/
def ok (D : Disc L) (sub : Bool) : List (L × Mode) → Prog L → Bool
  | held, .done => held.isEmpty
  | held, .acq l m k =>
    protInv D sub held && acqOK D sub held l m && ok D sub ((l, m) :: held) k
  | held, .tryAcq l ks kf =>
    protInv D sub held && !decide (l = D.rw) && ok D sub ((l, .excl) :: held) ks && ok D sub held kf
  | held, .rel l k =>
    protInv D sub held && held.any (fun h => decide (h.1 = l)) && ok D sub (dropLock held l) k
  | held, .wait l k =>
    protInv D sub held && held.any (fun h => decide (h.1 = l))
      && protInv D sub (dropLock held l)
      && acqOK D sub (dropLock held l) l .excl
      && ok D sub ((l, .excl) :: dropLock held l) k
  | held, .join _ k =>
    protInv D sub held && allBelow D held D.subMin && ok D sub held k

/-- join offsets occurring anywhere in a program -/
def Prog.joins : Prog L → List Nat
  | .done => []
  | .acq _ _ k => k.joins
  | .tryAcq _ ks kf => ks.joins ++ kf.joins
  | .rel _ k => k.joins
  | .wait _ k => k.joins
  | .join ts k => ts ++ k.joins

/-- thread-local invariant -/
def Thread.OK (D : Disc L) (t : Thread L) : Prop :=
  ok D t.sub t.held t.prog = true ∧
  (t.claim = true → t.held = [] ∧ ∃ k, t.prog = .acq D.rw .excl k)

/-- every thread somebody joins is a sub-task -/
def JoinWF (cfg : Config L) : Prop :=
  ∀ i t, cfg[i]? = some t → ∀ o ∈ t.prog.joins, ∀ w, cfg[i + 1 + o]? = some w → w.sub = true

/-- well-formed configuration: the invariant of the deadlock-freedom proof -/
def WFConfig (D : Disc L) (cfg : Config L) : Prop :=
  (∀ t ∈ cfg, t.OK D) ∧ JoinWF cfg

/-- initial thread: nothing held -/
def Thread.init (sub : Bool) (p : Prog L) : Thread L :=
  { sub := sub, held := [], claim := false, prog := p }

/-- thread-local safety property checked on every state of a program (both branches of `try`) -/
def always (P : List (L × Mode) → Bool) : List (L × Mode) → Prog L → Bool
  | held, .done => P held
  | held, .acq l m k => P held && always P ((l, m) :: held) k
  | held, .tryAcq l ks kf => P held && always P ((l, .excl) :: held) ks && always P held kf
  | held, .rel l k => P held && always P (dropLock held l) k
  | held, .wait l k =>
    P held && P (dropLock held l) && always P ((l, .excl) :: dropLock held l) k
  | held, .join _ k => P held && always P held k

end Sem

/-! ## Instance: the locks of the index manager -/

/-- Lock classes. `bucket i` / `level j` are indexed families.

| class          | object                                                        | kind |
|----------------|---------------------------------------------------------------|------|
| `mgr`          | `Store::manager : RwLock<Manager>` (manager.rs:130)           | rw   |
| `gcOngoing`    | `Manager::gc_ongoing : TryLock` (manager.rs:303, util/mod.rs) | try only |
| `bucket i`     | `Entry::mutex` of apply-cache bucket `i` (direct.rs:90)       | mutex (`try_lock` in get/add, `lock` in pre_gc/clear) |
| `level j`      | `Manager::unique_table[j] : Mutex<LevelViewSet>` (manager.rs:292) | mutex |
| `storeState`   | `Store::state : Mutex<SharedStoreState>` (manager.rs:132)     | mutex |
| `termState`    | `DynamicTerminalManager::state` (dynamic.rs:25)               | mutex |
| `gcSignal`     | `Store::gc_signal.0` (+ condvar `.1`) (manager.rs:133)        | mutex + condvar |
| `reorderState` | local `state` mutex (+ `cond`) of the concurrent sort (set_var_order/mod.rs:315-316) | mutex + condvar | -/
inductive Lock where
  | mgr
  | gcOngoing
  | bucket (i : Nat)
  | level (j : Nat)
  | storeState
  | termState
  | gcSignal
  | reorderState
  deriving DecidableEq, Repr

/-- number of cache buckets and of levels -/
structure Dims where
  nb : Nat
  nl : Nat

open Lock in
/-- **The lock order.**
`mgr < gcOngoing < bucket 0 < … < bucket (nb-1) < level 0 < … < level (nl-1) < storeState <
termState < gcSignal < reorderState`. (The last four are leaves: nothing is acquired while one of
them is held; their relative order is immaterial.) -/
def rank (d : Dims) : Lock → Nat
  | mgr => 0
  | gcOngoing => 1
  | bucket i => 2 + i
  | level j => 2 + d.nb + j
  | storeState => 2 + d.nb + d.nl
  | termState => 3 + d.nb + d.nl
  | gcSignal => 4 + d.nb + d.nl
  | reorderState => 5 + d.nb + d.nl

open Lock in
/-- locks that live inside `Manager` / are reachable only through `&Manager` -/
def prot : Lock → Bool
  | gcOngoing | bucket _ | level _ | termState | reorderState => true
  | mgr | storeState | gcSignal => false

/-- The discipline of the index manager: sub-tasks block on level locks and above only; a thread
joins only while holding at most `mgr`, `gcOngoing` and cache buckets. -/
def disc (d : Dims) : Disc Lock :=
  { rank := rank d, rw := .mgr, subMin := 2 + d.nb, prot := prot }

/-! ### Building blocks (`Blk = Prog → Prog`, continuation style, so tables read top to bottom) -/

abbrev Blk := Prog Lock → Prog Lock

def seq (bs : List Blk) : Blk := fun k => bs.foldr (fun b k => b k) k

/-- `lock(); body; unlock()` -/
def locked (l : Lock) (body : List Blk) : Blk := fun k => .acq l .excl (seq body (.rel l k))
/-- `if let Some(g) = try_lock() { body; drop(g) }` -/
def tryLocked (l : Lock) (body : List Blk) : Blk := fun k => .tryAcq l (seq body (.rel l k)) k
def acqB (l : Lock) (m : Mode := .excl) : Blk := fun k => .acq l m k
def relB (l : Lock) : Blk := fun k => .rel l k
def waitB (l : Lock) : Blk := fun k => .wait l k
def joinB (ts : List Nat) : Blk := fun k => .join ts k

open Lock

/-- `Store::get_slot_from_shared` (manager.rs:636), `Store::free_slot` (manager.rs:742, 749),
`LocalStoreStateGuard::drop` (manager.rs:875), `approx_num_inner_nodes` (manager.rs:1069), gc thread
bookkeeping (manager.rs:2347): `state.lock()`, nothing acquired inside.
(manager.rs:641 `gc_signal.1.notify_one()` inside is a condvar notification, not a lock.) -/
def storeB : Blk := locked storeState []

/-- `DynamicTerminalManager::{get_edge, len, iter, gc}` (dynamic.rs:125, 158, 207, 220): nothing
acquired inside (`retain`/`release` are atomics, dynamic.rs:134-152). -/
def termB : Blk := locked termState []

/-- `manager.level(j).get_or_insert(node)` (manager.rs:1215 → 1706 → `add_node` 557 →
`get_slot_from_shared` 636), `LevelView::remove` → `drop_unique_table_edge` → `free_slot`
(manager.rs:1739 → 700 → 742), `LevelViewSet::gc` → `free_slot` (manager.rs:1518 → 1536 → 742).
The level guard is a temporary of the `get_or_insert` statement (rules-bdd simple/mod.rs:70-73,
complement_edge/mod.rs:234, rules-zbdd lib.rs:86) — **one level at a time**. -/
def levelB (j : Nat) : Blk := locked (level j) [storeB]

/-- `ApplyCache::get` (direct.rs:408-410) and `add` (direct.rs:431): `try_lock` on ONE bucket;
on failure the access is simply a miss / not stored. Never blocks. -/
def cacheTryB (b : Nat) : Blk := tryLocked (bucket b) []

/-- all buckets `0 … nb-1` in index order (`for entry in &*self.0`, direct.rs:452) -/
def bucketsAcq (nb : Nat) : List Blk := (List.range nb).map (fun b => acqB (bucket b))
def bucketsRel (nb : Nat) : List Blk := (List.range nb).map (fun b => relB (bucket b))

/-- `Manager::gc` after a successful `gc_ongoing.try_lock()` with `reorder_gc_prepared == false`
(manager.rs:1275-1295):
`pre_gc` locks EVERY bucket with the blocking `lock()` and forgets the guards (direct.rs:449-458);
sweep: `for level in &self.unique_table { let mut level = level.lock(); level.gc(store) }`
(manager.rs:1281-1288, guard dropped at the end of each iteration), `terminal_manager.gc()`
(manager.rs:1289 → dynamic.rs:220); `post_gc` unlocks every bucket (direct.rs:460-466);
`gc_ongoing.unlock()` (manager.rs:1295). -/
def gcBody (d : Dims) : List Blk :=
  bucketsAcq d.nb ++ (List.range d.nl).map levelB ++ [termB] ++ bucketsRel d.nb ++ [relB gcOngoing]

/-- `Manager::gc` (manager.rs:1258): `if !self.gc_ongoing.try_lock() { return 0 }` — never blocks. -/
def gcCall (d : Dims) : Blk := fun k => .tryAcq gcOngoing (seq (gcBody d) k) k

/-- `gc()` called inside a `reorder` closure (`reorder_gc_prepared == true`): `pre_gc`/`post_gc`
are skipped (manager.rs:1275, 1291), the buckets are already held by `reorder`. -/
def gcCallPrepared (d : Dims) : Blk := fun k =>
  .tryAcq gcOngoing (seq ((List.range d.nl).map levelB ++ [termB, relB gcOngoing]) k) k

/-- `with_manager_shared` (manager.rs:2220-2228, 2551-2559): `manager.shared()` (rwlock.rs:33
`lock_shared`, NOT recursive); the guard is a temporary and is dropped (rwlock.rs:73) *before*
`drop(local_guard)`, whose `return_preallocated` takes the store state mutex (manager.rs:875)
holding nothing. -/
def withShared (body : List Blk) : Blk := seq ([acqB mgr .shared] ++ body ++ [relB mgr, storeB])

/-- `with_manager_exclusive` (manager.rs:2230-2238, 2561-2569; rwlock.rs:40 `lock_exclusive`). -/
def withExclusive (body : List Blk) : Blk := seq ([acqB mgr .excl] ++ body ++ [relB mgr, storeB])

/-- `ManagerRef::drop` when it is the second-last reference (manager.rs:2068-2074):
`*gc_signal.0.lock() = Quit; notify_one()`. -/
def mrefDropB : Blk := locked gcSignal []

/-- micro-operations an apply-like operation is composed of (in any number and order) -/
inductive Micro where
  /-- `apply_cache().get/add` (direct.rs:409 / 431) on bucket `b` -/
  | cache (b : Nat)
  /-- `reduce` → `manager.level(j).get_or_insert` (manager.rs:1215) -/
  | mk (j : Nat)
  /-- `manager.get_terminal(t)` (manager.rs:1245 → dynamic.rs:158) -/
  | terminal
  /-- `num_inner_nodes` (manager.rs:1063): `level.lock().len()` one level after the other -/
  | peekLevel (j : Nat)
  /-- `approx_num_inner_nodes` (manager.rs:1069) -/
  | peekStore
  /-- `ApplyCache::clear` (direct.rs:436-439): blocking `lock()` on one bucket at a time -/
  | clear (b : Nat)
  /-- drop of a `Function` including its `ManagerRef` (manager.rs:2457-2461, 2067-2075);
      `drop_edge`/`clone_edge` themselves are atomics (manager.rs:768-798) -/
  | dropFn
  /-- `manager.gc()` (manager.rs:1258) -/
  | gc
  /-- fork/join of the parallel recursor: `workers().join(a, b)` (workers.rs:61-67, rules-bdd
      recursor.rs:166/187/208/229): wait for the sub-tasks at relative positions `ts`.
      No lock is held across the recursion (apply_rec.rs: cache get → recurse → reduce → cache add) -/
  | fork (ts : List Nat)

def microB (d : Dims) : Micro → Blk
  | .cache b => cacheTryB b
  | .mk j => levelB j
  | .terminal => termB
  | .peekLevel j => locked (level j) []
  | .peekStore => storeB
  | .clear b => locked (bucket b) []
  | .dropFn => mrefDropB
  | .gc => gcCall d
  | .fork ts => joinB ts

/-- a micro-operation only mentions existing buckets/levels; sub-tasks do not run `clear`/`gc`
(both are whole-manager operations issued by application threads) -/
def Micro.valid (d : Dims) (sub : Bool) : Micro → Bool
  | .cache b => decide (b < d.nb)
  | .mk j => decide (j < d.nl)
  | .peekLevel j => decide (j < d.nl)
  | .clear b => !sub && decide (b < d.nb)
  | .gc => !sub
  | .terminal | .peekStore | .dropFn | .fork _ => true

/-- Operation kinds. -/
inductive OpKind where
  /-- any operation run inside `with_manager_shared` on the calling thread: apply/ite/quantify/…,
      `node_count`, `sat_count`, explicit `gc()`; the script lists its micro-operations -/
  | shared (script : List Micro)
  /-- a sub-task of the parallel recursor on a pool worker (`op_a`/`op_b` of `join`): takes NO
      manager lock — it runs while its (transitive) caller holds the shared lock and is joined
      before that lock is released; pool threads are bound to the store permanently
      (manager.rs:2315-2318), so there is no `LocalStoreStateGuard` either -/
  | subTask (script : List Micro)
  /-- explicit `manager.gc()` from an application thread = `shared [.gc]` (kept as its own row) -/
  | gcExplicit
  /-- one iteration of the background gc thread (manager.rs:2329-2359):
      `gc_signal.0.lock()` (2330); `gc_signal.1.wait(&mut lock)` (2335); `drop(lock)` (2340);
      `with_manager_shared(|m| m.gc())` (2343 — **shared**, like any operation; the thread is bound
      to the store, no guard drop); `store.state.lock()` (2347).

      Lost wake-up still possible here (NOT modelled, see header): after `gc_state = Init`
      (2357) and before the next `wait` (2335) an allocating thread can set
      `gc_state = Triggered` and `notify_one()` (manager.rs:639-641) — it holds `state`, not
      `gc_signal.0`, so the notification can fall into the gap; nobody notifies again while the
      state is `Triggered`: background collection stays off until an explicit `gc()`. -/
  | gcThread
  /-- `with_manager_exclusive(|m| m.reorder(|m| set_var_order(m, …)))` (manager.rs:1310-1339):
      `pre_gc` (1319) locks all buckets for the whole closure; the closure: concurrent sort =
      `workers().broadcast` (set_var_order/mod.rs:318) joined while holding `mgr` + buckets,
      (if the pool has one worker or the store holds fewer than 65536 nodes, mod.rs:58-64, the
      sort is `bubble_sort`, mod.rs:262-276, instead: `level_swap` — two level locks ascending
      plus the store state mutex, reorder lib.rs:82-83/170/206 — runs **on the calling thread**;
      this path was missing from the table until the runtime lock traces of `c07_locks` showed
      `storeState` acquired under `mgr`, the buckets and two level locks),
      then the sequential phase `level_unchecked(i).swap(&mut level_unchecked(j))` with `i < j`
      (mod.rs:145-149; TWO level locks, ascending), `update_levels` (mod.rs:395-405: `levels()`
      one at a time, then `slice_for_each` = second broadcast), optional nested `gc()`;
      `post_reorder_mut` of the ZBDD rules rebuilds the tautology chain
      (rules-zbdd lib.rs:201-218: `get_terminal`, `levels().rev()` one at a time with
      `get_or_insert`); `post_gc` (1330) unlocks the buckets. `ws`/`ws2` = relative positions of
      the broadcast sub-tasks. -/
  | reorder (ws ws2 : List Nat)
  /-- sub-task of the concurrent sort (set_var_order/mod.rs:318-376): `state.lock()` (321),
      `cond.wait(&mut guard)` (331), `drop(guard)` (334); `swap(manager, i)` = `level_swap`
      (reorder lib.rs:82-83: `level_unchecked(upper_no)` then `level_unchecked(lower_no)`,
      `upper_no < lower_no` — TWO level locks, ascending, plus the store state mutex through
      `get_or_insert_unchecked` (lib.rs:170) / `remove` (lib.rs:206)); `state.lock()` (338). -/
  | sortWorker (u l : Nat)
  /-- sub-task of `update_levels` (set_var_order/mod.rs:402-405): one level lock -/
  | levelWorker (j : Nat)
  /-- `with_manager_exclusive(|m| m.add_vars(n))` / `add_named_vars` (manager.rs:1084-1172):
      exclusive manager lock, NO `pre_gc`; `pre_reorder_mut`/`post_reorder_mut` of the ZBDD rules
      (rules-zbdd lib.rs:186-218: `try_remove_node` → level lock + store state (manager.rs:1030,
      1054); `get_terminal`; levels one at a time) -/
  | addVars
  /-- `Function::clone` (manager.rs:2474-2479): `Arc` increment + `retain` — atomics only -/
  | handleClone
  /-- `Function::drop` (manager.rs:2457-2461) + `ManagerRef::drop` (2067-2075) -/
  | handleDrop

def scriptB (d : Dims) (s : List Micro) : List Blk := s.map (microB d)

/-- **THE TABLE**: the lock program of every operation kind. -/
def opProg (d : Dims) : OpKind → Prog Lock
  | .shared s => withShared (scriptB d s) .done
  | .subTask s => seq (scriptB d s) .done
  | .gcExplicit => withShared [gcCall d] .done
  | .gcThread =>
    seq [acqB gcSignal, waitB gcSignal, relB gcSignal,
         acqB mgr .shared, gcCall d, relB mgr,
         storeB] .done
  | .reorder ws ws2 =>
    withExclusive
      (bucketsAcq d.nb                                        -- pre_gc, manager.rs:1319
       ++ [termB] ++ (List.range d.nl).map levelB             -- pre_reorder_mut (ZBDD)
       ++ [joinB ws]                                          -- concurrent sort (broadcast)
       ++ (if 2 ≤ d.nl then [locked (level 0) [levelB (d.nl - 1)]] else [])
                                                              -- mod.rs:145-149, i < j; and the
                                                              -- sequential sort: `level_swap` on
                                                              -- the calling thread (two levels +
                                                              -- store state)
       ++ (List.range d.nl).map (fun j => locked (level j) []) -- update_levels: `levels()`
       ++ [joinB ws2]                                         -- slice_for_each
       ++ [gcCallPrepared d]                                  -- nested gc() (optional)
       ++ [termB] ++ (List.range d.nl).reverse.map levelB     -- post_reorder_mut (ZBDD)
       ++ bucketsRel d.nb)                                    -- post_gc, manager.rs:1330
      .done
  | .sortWorker u l =>
    seq [acqB reorderState, waitB reorderState, relB reorderState,
         locked (level u) [locked (level l) [storeB]],
         locked reorderState []] .done
  | .levelWorker j => seq [locked (level j) []] .done
  | .addVars =>
    withExclusive ((List.range d.nl).map levelB ++ [termB] ++ (List.range d.nl).reverse.map levelB)
      .done
  | .handleClone => .done
  | .handleDrop => seq [mrefDropB] .done

def OpKind.isSub : OpKind → Bool
  | .subTask _ | .sortWorker _ _ | .levelWorker _ => true
  | _ => false

/-- side conditions of a row: indices in range, two level locks in ascending order -/
def OpKind.valid (d : Dims) : OpKind → Bool
  | .shared s => s.all (Micro.valid d false)
  | .subTask s => s.all (Micro.valid d true)
  | .sortWorker u l => decide (u < l) && decide (l < d.nl)
  | .levelWorker j => decide (j < d.nl)
  | _ => true

/-- a thread starting operation `k` -/
def opThread (d : Dims) (k : OpKind) : Thread Lock := Thread.init k.isSub (opProg d k)

/-- The pattern found in `oxidd-cli/src/scheduler.rs:105 → 127 → 498-500` (and in the examples
`oxidd/examples/{mtbdd,tdd}.rs`): a `&self` operation (`acc.and(f)`, function.rs:348-353 →
manager.rs:2556) called *inside* a `with_manager_shared` closure — a re-entrant `lock_shared`.
NOT part of the table (it violates the discipline, `Properties.reentrant_shared_not_ranked`); it
deadlocks as soon as a writer arrives in between (`Properties.reentrant_shared_deadlocks`). -/
def nestedSharedProg : Prog Lock :=
  seq [acqB mgr .shared, acqB mgr .shared, relB mgr, relB mgr] .done

/-- The API-level hazard of `oxidd_*_manager_run_in_worker_pool` (oxidd-ffi-c util/mod.rs:373):
user code on a *pool* thread that takes the manager lock itself. Seen from a thread that holds the
exclusive lock and broadcasts to the pool (`set_var_order`), this is a sub-task acquiring `mgr`. -/
def poolTakesMgrProg : Prog Lock := seq [acqB mgr .shared, relB mgr] .done

end OxiddModel.Locks
