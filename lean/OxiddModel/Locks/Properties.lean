import OxiddModel.Locks.LemmasTable

/-!
# C07 — "never deadlock": the locking protocol of the index manager

Property text (C07): *"Operations issued concurrently from several threads on one manager —
including the implicit parallel recursion of the multi-threaded apply algorithms, handle clone/drop
on any thread, and garbage collections running alongside — … never deadlock, never corrupt the
diagram …"*. The rely/guarantee part (results, invariants) is `Bdd/PropertiesC07.lean`; this file
covers the **locking protocol**: the table of lock programs in `Model.lean` (`opProg`) is ranked,
ranked programs cannot deadlock, `try_lock` never waits, a collection keeps every cache bucket locked
while it sweeps, and the exclusive manager lock excludes every other operation.

Trusted base / not proved: see the header of `Model.lean` (primitives are assumed correct and
fair; starvation freedom and lost condvar wake-ups are outside the model; the table is a
hand-written abstraction of the Rust code, every row cites file:line).
-/
namespace OxiddModel.Locks
open Lock

/-- dimensions used for the `decide`d table: 2 cache buckets, 3 levels -/
def d0 : Dims := ⟨2, 3⟩

theorem disc_wf (d : Dims) : (disc d).WF := by
  constructor
  · rfl
  · intro l hl
    cases l <;> simp [disc, rank] at hl ⊢ <;> omega

/-- **The finite table** (one row per operation kind; scripts chosen so that every micro-operation
and every bucket/level index occurs). -/
def table : List OpKind :=
  [ .shared [.cache 0, .fork [0, 1], .terminal, .mk 2, .cache 1, .mk 0, .mk 1, .peekLevel 1,
             .peekLevel 0, .peekLevel 2, .peekStore, .clear 0, .clear 1, .dropFn, .gc, .cache 0],
    .subTask [.cache 1, .fork [1], .mk 1, .mk 0, .mk 2, .terminal, .cache 0, .dropFn, .peekStore],
    .gcExplicit, .gcThread,
    .reorder [0, 1] [2], .sortWorker 0 1, .sortWorker 1 2, .sortWorker 0 2,
    .levelWorker 0, .levelWorker 1, .levelWorker 2,
    .addVars, .handleClone, .handleDrop ]

/-- **`acquisitions_ranked`.** In every operation kind every *blocking* acquisition happens while
only locks of strictly smaller rank are held (`acqOK`, first conjunct), `shared` is only used on the
manager lock, sub-tasks on pool workers never take the manager lock and block only on level locks
and above, locks inside the manager are only touched under the manager lock, a `join` happens only
while holding at most `mgr`/`gc_ongoing`/buckets, and every operation releases everything. Checked by
evaluation of `ok` on the table. -/
theorem acquisitions_ranked :
    ∀ k ∈ table, k.valid d0 = true ∧ ok (disc d0) k.isSub [] (opProg d0 k) = true := by
  decide

/-- **`acquisitions_ranked_all`.** The same for **every** number of buckets and levels, **every**
script of micro-operations (operations of any length touching any buckets/levels in any order, any
number of nested fork/joins, `gc()` calls, handle drops) and every placement of the pool
sub-tasks: each row of `opProg` satisfies the discipline. (Proof: `LemmasTable.lean`, composition
of balanced blocks; no enumeration.) -/
theorem acquisitions_ranked_all (d : Dims) (k : OpKind) (hv : k.valid d = true) :
    ok (disc d) k.isSub [] (opProg d k) = true :=
  table_ranked_all d k hv

/-- non-vacuity: the table has 14 rows and e.g. the gc row contains 11 blocking acquisitions -/
def Prog.numAcq : Prog Lock → Nat
  | .done => 0
  | .acq _ _ k => 1 + numAcq k
  | .tryAcq _ ks kf => max (numAcq ks) (numAcq kf)
  | .rel _ k => numAcq k
  | .wait _ k => 1 + numAcq k
  | .join _ k => numAcq k

example : table.length = 14 ∧ Prog.numAcq (opProg d0 .gcExplicit) = 11
    ∧ Prog.numAcq (opProg d0 (.reorder [0, 1] [2])) = 31 := by decide

/-- The discipline is not vacuous: the re-entrant shared acquisition found in
`oxidd-cli/src/scheduler.rs:105 → 498` is rejected, … -/
theorem reentrant_shared_not_ranked : ok (disc d0) false [] nestedSharedProg = false := by decide

/-- … so is a pool task that takes the manager lock (`run_in_worker_pool` + `oxidd_bdd_and`), … -/
theorem pool_takes_mgr_not_ranked : ok (disc d0) true [] poolTakesMgrProg = false := by decide

/-- … so is taking two level locks in descending order, and a level lock under the store mutex. -/
example : ok (disc d0) true [] (seq [locked (level 1) [locked (level 0) []]] .done) = false := by
  decide
example : ok (disc d0) false []
    (withShared [locked storeState [locked (level 0) []]] .done) = false := by decide

/-! ## deadlock freedom -/

/-- initial configuration: one thread per operation kind, nothing held -/
def initCfg (d : Dims) (ks : List OpKind) : Config Lock := ks.map (opThread d)

theorem initCfg_initial (d : Dims) (ks : List OpKind) : Initial (initCfg d ks) := by
  intro t ht
  simp only [initCfg, List.mem_map] at ht
  obtain ⟨k, _, rfl⟩ := ht
  exact ⟨rfl, rfl⟩

theorem initCfg_wf (d : Dims) (ks : List OpKind)
    (hok : ∀ k ∈ ks, ok (disc d) k.isSub [] (opProg d k) = true)
    (hj : JoinWF (initCfg d ks)) : WFConfig (disc d) (initCfg d ks) := by
  refine ⟨?_, hj⟩
  intro t ht
  simp only [initCfg, List.mem_map] at ht
  obtain ⟨k, hk, rfl⟩ := ht
  exact ⟨hok k hk, by intro h; cases h⟩

/-- **`no_deadlock`.** Take any finite set of threads, each running the lock program of some
operation kind (ranked: `hok`, e.g. by `acquisitions_ranked`), where the threads that are joined are
sub-tasks (`hj`). In every reachable state: if some thread has not finished, some thread can take a
step. (Generic argument: `Lemmas.progress` — ranked programs ⇒ every wait-for edge goes strictly
upwards in the height `mu` ⇒ a thread of maximal height is not blocked.) -/
theorem no_deadlock (d : Dims) (ks : List OpKind)
    (hok : ∀ k ∈ ks, ok (disc d) k.isSub [] (opProg d k) = true)
    (hj : JoinWF (initCfg d ks)) {cfg : Config Lock} (hr : Reach mgr (initCfg d ks) cfg)
    (hun : ∃ (i : Nat) (t : Thread Lock), cfg[i]? = some t ∧ t.prog ≠ .done) :
    ∃ i cfg', step mgr cfg i = some cfg' :=
  progress_step (D := disc d) (disc_wf d) (WFConfig_reach (D := disc d) (disc_wf d)
    (initCfg_wf d ks hok hj) hr) hun

/-- `no_deadlock` for threads running rows of the table. -/
theorem no_deadlock_table (ks : List OpKind) (hks : ∀ k ∈ ks, k ∈ table)
    (hj : JoinWF (initCfg d0 ks)) {cfg : Config Lock} (hr : Reach mgr (initCfg d0 ks) cfg)
    (hun : ∃ (i : Nat) (t : Thread Lock), cfg[i]? = some t ∧ t.prog ≠ .done) :
    ∃ i cfg', step mgr cfg i = some cfg' :=
  no_deadlock d0 ks (fun k hk => (acquisitions_ranked k (hks k hk)).2) hj hr hun

/-- **`no_deadlock_all`**: `no_deadlock` for any number of buckets/levels and any finite set of
threads running *any* valid rows (arbitrary scripts), the only global side condition being that
joined threads are sub-tasks. -/
theorem no_deadlock_all (d : Dims) (ks : List OpKind) (hv : ∀ k ∈ ks, k.valid d = true)
    (hj : JoinWF (initCfg d ks)) {cfg : Config Lock} (hr : Reach mgr (initCfg d ks) cfg)
    (hun : ∃ (i : Nat) (t : Thread Lock), cfg[i]? = some t ∧ t.prog ≠ .done) :
    ∃ i cfg', step mgr cfg i = some cfg' :=
  no_deadlock d ks (fun k hk => acquisitions_ranked_all d k (hv k hk)) hj hr hun

/-- **No cyclic wait** in any reachable state (the wait-for relation of `Model.lean`). -/
theorem no_cyclic_wait (d : Dims) (ks : List OpKind)
    (hok : ∀ k ∈ ks, ok (disc d) k.isSub [] (opProg d k) = true)
    (hj : JoinWF (initCfg d ks)) {cfg : Config Lock} (hr : Reach mgr (initCfg d ks) cfg)
    (i : Nat) : ¬ WaitChain mgr cfg i i :=
  waitsFor_acyclic (D := disc d) (disc_wf d)
    (WFConfig_reach (D := disc d) (disc_wf d) (initCfg_wf d ks hok hj) hr) i

theorem reach_run (rw : Lock) (c : Config Lock) (s : List Nat) : Reach rw c (run rw c s) := by
  suffices ∀ c', Reach rw c c' → Reach rw c (run rw c' s) from this c (.refl c)
  induction s with
  | nil => intro c' h; exact h
  | cons i is ih =>
    intro c' h
    simp only [run]
    cases hs : step rw c' i with
    | some c'' => exact ih c'' (.tail i h hs)
    | none => exact ih c' h

/-! ### non-vacuity: apply + gc + drop -/

/-- three threads: an apply operation (cache lookup on bucket 0, node on level 1, cache add), an
explicit collection, a handle drop -/
def ex3 : List OpKind := [.shared [.cache 0, .mk 1, .cache 0], .gcExplicit, .handleDrop]

/-- thread 0 takes the shared lock; the collector takes the shared lock, `gc_ongoing`, both buckets
and the mutex of level 0; thread 2 takes `gc_signal`; thread 0 tries bucket 0. -/
def ex3sched : List Nat := [0, 1, 1, 1, 1, 1, 2, 0]

def ex3state : Config Lock := run mgr (initCfg d0 ex3) ex3sched

theorem ex3_joinWF : JoinWF (initCfg d0 ex3) := JoinWF_of_joinWFb (by decide)

/-- the state is reachable, non-trivial (three threads inside their critical sections, the cache
lookup of thread 0 has *failed* and it is about to lock level 1), and `no_deadlock` applies -/
example :
    Reach mgr (initCfg d0 ex3) ex3state ∧
    (ex3state.map (fun t => t.held.map (·.1))
      = [[mgr], [level 0, bucket 1, bucket 0, gcOngoing, mgr], [gcSignal]]) ∧
    (ex3state[0]?.map (fun t => t.prog.isDone)) = some false ∧
    (∃ i cfg', step mgr ex3state i = some cfg') := by
  refine ⟨reach_run _ _ _, by decide, by decide, ?_⟩
  exact no_deadlock d0 ex3 (by decide) ex3_joinWF (reach_run _ _ _)
    (exists_unfinished (by decide))

/-! ### the two hazards, as executions of the model -/

/-- `dead cfg`: somebody is unfinished and nobody can move -/
def dead (cfg : Config Lock) : Bool :=
  cfg.any (fun t => !t.prog.isDone) && (List.range cfg.length).all (fun i => (step mgr cfg i).isNone)

/-- **Re-entrant `lock_shared` deadlocks with a waiting writer.** Thread 0 runs the pattern of
`oxidd-cli/src/scheduler.rs:105/498` (outer `with_manager_shared`, inner `acc.and(f)` →
`with_manager_shared`), thread 1 is any writer (`add_vars`, `set_var_order`). Schedule: outer
`lock_shared`; the writer takes the writer bit and waits for the reader; inner `lock_shared` is
refused because of the writer bit. -/
theorem reentrant_shared_deadlocks :
    dead (run mgr [Thread.init false nestedSharedProg, opThread d0 .addVars] [0, 1, 0, 1]) = true := by
  decide

/-- **A pool thread that takes the manager lock deadlocks with a broadcasting writer.** Thread 0
holds the exclusive lock and broadcasts to the pool (`set_var_order`, set_var_order/mod.rs:318);
thread 1 is a pool thread running user code that calls an operation
(`oxidd_bdd_manager_run_in_worker_pool`, oxidd-ffi-c util/mod.rs:373). -/
theorem pool_takes_mgr_deadlocks :
    dead (run mgr [Thread.init false (withExclusive [joinB [0]] .done),
                   Thread.init true poolTakesMgrProg] [0, 0, 0, 1]) = true := by
  decide

/-! ## `try_lock` never blocks -/

/-- **`try_never_blocks`.** A thread at a `try_lock` (cache `get`/`add` on a bucket, direct.rs:409,
431; `gc_ongoing.try_lock()`, manager.rs:1259) can always take a step, whatever the others hold —
and so can a thread at an `unlock` or at a `Condvar::wait`. -/
theorem try_never_blocks (cfg : Config Lock) (i : Nat) (t : Thread Lock) :
    (∀ l ks kf, t.prog = .tryAcq l ks kf → (stepThread mgr cfg i t).isSome = true) ∧
    (∀ l k, t.prog = .rel l k → (stepThread mgr cfg i t).isSome = true) ∧
    (∀ l k, t.prog = .wait l k → (stepThread mgr cfg i t).isSome = true) := by
  refine ⟨fun l ks kf hp => try_never_blocks' hp, ?_, ?_⟩
  · intro l k hp; rw [step_rel hp]; rfl
  · intro l k hp; rw [step_wait hp]; rfl

/-- every lock of the cache (`bucket b`) and `gc_ongoing` is only ever `try`-acquired by apply
operations and sub-tasks: their programs contain no blocking acquisition of these locks (unless
the script asks for `clear`) -/
def Prog.blocksOn (p : Lock → Bool) : Prog Lock → Bool
  | .done => false
  | .acq l _ k => p l || blocksOn p k
  | .tryAcq _ ks kf => blocksOn p ks || blocksOn p kf
  | .rel _ k => blocksOn p k
  | .wait l k => p l || blocksOn p k
  | .join _ k => blocksOn p k

example : Prog.blocksOn (fun l => l matches bucket _ | gcOngoing)
    (opProg d0 (.shared [.cache 0, .fork [0], .mk 2, .cache 1, .terminal])) = false := by decide
example : Prog.blocksOn (fun l => l matches bucket _ | gcOngoing)
    (opProg d0 (.subTask [.cache 0, .fork [0], .mk 2, .cache 1, .terminal])) = false := by decide

/-! ## a collection keeps all buckets locked -/

def isLevel : Lock → Bool
  | level _ => true
  | _ => false

/-- "all `nb` buckets are held" -/
def allBuckets (d : Dims) (held : List (Lock × Mode)) : Bool :=
  (List.range d.nb).all (fun b => held.any (fun h => decide (h.1 = bucket b)))

/-- "whenever `gc_ongoing` and a level mutex (or the terminal table) are held, all buckets are
held" — the invariant of every thread that may call `gc()` -/
def sweepInv (d : Dims) (held : List (Lock × Mode)) : Bool :=
  !(held.any (fun h => decide (h.1 = gcOngoing))
    && held.any (fun h => isLevel h.1 || decide (h.1 = termState)))
    || allBuckets d held

/-- "whenever a level mutex is held, all buckets are held" — the invariant of `reorder` -/
def reorderInv (d : Dims) (held : List (Lock × Mode)) : Bool :=
  !(held.any (fun h => isLevel h.1)) || allBuckets d held

theorem sweepInv_micro (mo : Micro) (k : Prog Lock) :
    always (sweepInv d0) [(mgr, .shared)] (microB d0 mo k)
      = always (sweepInv d0) [(mgr, .shared)] k := by
  cases mo <;>
    simp [microB, cacheTryB, tryLocked, levelB, locked, storeB, termB, mrefDropB, joinB, seq,
      always, sweepInv, allBuckets, dropLock, isLevel, gcCall, gcBody, bucketsAcq, bucketsRel,
      acqB, relB, d0, List.range, List.range.loop]

/-- every operation under the shared lock — whatever its script, including any number of `gc()`
calls —, the explicit collection and the gc thread satisfy `sweepInv` in every state -/
theorem sweepInv_collectors (k : OpKind)
    (hk : (∃ s, k = .shared s) ∨ k = .gcExplicit ∨ k = .gcThread) :
    always (sweepInv d0) [] (opProg d0 k) = true := by
  rcases hk with ⟨s, rfl⟩ | rfl | rfl
  · have hscript : ∀ (s : List Micro) (k : Prog Lock),
        always (sweepInv d0) [(mgr, .shared)] (seq (scriptB d0 s) k)
          = always (sweepInv d0) [(mgr, .shared)] k := by
      intro s
      induction s with
      | nil => intro k; rfl
      | cons mo s ih =>
        intro k
        show always (sweepInv d0) [(mgr, .shared)] (microB d0 mo (seq (scriptB d0 s) k)) = _
        rw [sweepInv_micro, ih]
    simp only [opProg, withShared, seq_append, seq_cons, seq_nil, acqB, always, Bool.and_eq_true]
    refine ⟨by decide, ?_⟩
    rw [hscript]
    decide
  · decide
  · decide

theorem reorderInv_reorder (ws ws2 : List Nat) :
    always (reorderInv d0) [] (opProg d0 (.reorder ws ws2)) = true := by
  simp [opProg, withExclusive, gcCallPrepared, levelB, locked, storeB, termB, joinB, seq, always,
    reorderInv, allBuckets, dropLock, isLevel, bucketsAcq, bucketsRel, acqB, relB, d0, List.range,
    List.range.loop]

/-- **`gc_holds_buckets`.** Let thread `g` be any thread that can run a collection (any operation
under the shared lock, explicit `gc()`, the gc thread). In every reachable state in which `g` holds
`gc_ongoing` and a level mutex — the sweep (manager.rs:1281-1288) is running — `g` holds **every**
cache bucket, hence every cache `get`/`add` (`try_lock` on a bucket) of every thread takes the
failure branch: nothing can be read from or added to the apply cache during a collection. (A
seeded defect that released the buckets before the sweep made exactly this false: a result
memoised during the sweep could be freed by it — use after free.) -/
theorem gc_holds_buckets (ks : List OpKind) {cfg : Config Lock} (hr : Reach mgr (initCfg d0 ks) cfg)
    {g : Nat} {k : OpKind} (hk : ks[g]? = some k)
    (hkind : (∃ s, k = .shared s) ∨ k = .gcExplicit ∨ k = .gcThread)
    {tg : Thread Lock} (hg : cfg[g]? = some tg) (hgo : tg.holds gcOngoing = true)
    {j : Nat} (hl : tg.holds (level j) = true) :
    (∀ b, b < d0.nb → tg.holds (bucket b) = true) ∧
    (∀ (i : Nat) (t : Thread Lock) (b : Nat) (ks' kf : Prog Lock), b < d0.nb → cfg[i]? = some t →
        t.prog = .tryAcq (bucket b) ks' kf → stepThread mgr cfg i t = some { t with prog := kf }) := by
  have h0 : ∀ t, (initCfg d0 ks)[g]? = some t → always (sweepInv d0) t.held t.prog = true := by
    intro t ht
    simp only [initCfg, List.getElem?_map, hk, Option.map_some, Option.some.injEq] at ht
    subst ht
    exact sweepInv_collectors k hkind
  have hinv := always_head (always_reach hr h0 tg hg)
  have hb : ∀ b, b < d0.nb → tg.holds (bucket b) = true := by
    intro b hb
    simp only [sweepInv, allBuckets, Bool.or_eq_true, Bool.not_eq_true', List.all_eq_true,
      List.mem_range] at hinv
    rcases hinv with hn | hall
    · obtain ⟨m, hm⟩ := holds_iff.1 hl
      have h1 : (tg.held.any fun h => isLevel h.1 || decide (h.1 = termState)) = true :=
        List.any_eq_true.2 ⟨(level j, m), hm, by simp [isLevel]⟩
      have h2 : (tg.held.any fun h => decide (h.1 = gcOngoing)) = true := hgo
      rw [h1, h2] at hn; cases hn
    · exact hall b hb
  refine ⟨hb, ?_⟩
  intro i t b ks' kf hbn _ hp
  exact try_fails_of_held (mem_iff_getElem?.2 ⟨g, hg⟩) (hb b hbn) hp

/-- the same for `reorder` (whose `pre_gc` … `post_gc` bracket spans the whole closure): whenever
the reordering thread holds a level mutex it holds every bucket -/
theorem reorder_holds_buckets (ks : List OpKind) {cfg : Config Lock}
    (hr : Reach mgr (initCfg d0 ks) cfg) {g : Nat} {ws ws2 : List Nat}
    (hk : ks[g]? = some (.reorder ws ws2)) {tg : Thread Lock} (hg : cfg[g]? = some tg)
    {j : Nat} (hl : tg.holds (level j) = true) : ∀ b, b < d0.nb → tg.holds (bucket b) = true := by
  have h0 : ∀ t, (initCfg d0 ks)[g]? = some t → always (reorderInv d0) t.held t.prog = true := by
    intro t ht
    simp only [initCfg, List.getElem?_map, hk, Option.map_some, Option.some.injEq] at ht
    subst ht
    exact reorderInv_reorder ws ws2
  have hinv := always_head (always_reach hr h0 tg hg)
  intro b hb
  simp only [reorderInv, allBuckets, Bool.or_eq_true, Bool.not_eq_true', List.all_eq_true,
    List.mem_range] at hinv
  rcases hinv with hn | hall
  · obtain ⟨m, hm⟩ := holds_iff.1 hl
    have h1 : (tg.held.any fun h => isLevel h.1) = true :=
      List.any_eq_true.2 ⟨(level j, m), hm, by simp [isLevel]⟩
    rw [h1] at hn; cases hn
  · exact hall b hb

/-- non-vacuity: in `ex3state` the collector holds `gc_ongoing` and sweeps level 0, and the cache
lookup of thread 0 on bucket 0 has failed (its next instruction is already the level lock of
`mk 1`); the hypotheses of `gc_holds_buckets` hold for `g = 1` -/
example : (ex3state[1]?.map (fun t => t.holds (level 0) && t.holds gcOngoing)) = some true ∧
    (ex3state[0]?.map (fun t => t.prog matches .acq (level 1) _ _)) = some true ∧
    (∀ b, b < d0.nb → ∀ tg, ex3state[1]? = some tg → tg.holds (bucket b) = true) := by
  refine ⟨by decide, by decide, ?_⟩
  intro b hb tg htg
  have hg : tg.holds gcOngoing = true ∧ tg.holds (level 0) = true := by
    have h : (ex3state[1]?.map (fun t => t.holds gcOngoing && t.holds (level 0))) = some true := by
      decide
    rw [htg] at h
    simpa using h
  exact (gc_holds_buckets ex3 (reach_run _ _ _) (g := 1) (k := .gcExplicit) rfl
    (Or.inr (Or.inl rfl)) htg hg.1 hg.2).1 b hb

/-! ## the exclusive lock excludes everything -/

/-- **`exclusive_excludes`.** In every reachable state in which thread `w` holds the manager lock
exclusively (`add_vars`, `reorder`), every other thread that is not one of the writer's own pool
sub-tasks holds neither the manager lock (in any mode) nor any lock living inside the manager
(`gc_ongoing`, cache buckets, level mutexes, terminal table, sort state); the only locks another
thread can hold are the store-level leaves `state` (slot free lists; `LocalStoreStateGuard::drop`
runs after the manager lock is released) and `gc_signal`. -/
theorem exclusive_excludes (d : Dims) (ks : List OpKind)
    (hok : ∀ k ∈ ks, ok (disc d) k.isSub [] (opProg d k) = true)
    (hj : JoinWF (initCfg d ks)) {cfg : Config Lock} (hr : Reach mgr (initCfg d ks) cfg)
    {w j : Nat} {tw u : Thread Lock} (hwj : w ≠ j) (hw : cfg[w]? = some tw)
    (hu : cfg[j]? = some u) (hex : tw.holdsM mgr .excl = true) (hsub : u.sub = false) :
    ∀ h ∈ u.held, h.1 = storeState ∨ h.1 = gcSignal := by
  have hwf0 := initCfg_wf d ks hok hj
  have hwf := WFConfig_reach (D := disc d) (disc_wf d) hwf0 hr
  have hinv := RwInv_reach (D := disc d) (disc_wf d) hwf0
    (RwInv_initial (initCfg_initial d ks)) hr
  intro h hh
  obtain ⟨h1, h2⟩ := excl_excludes (D := disc d) hwf hinv hwj hw hu hex hsub h hh
  revert h1 h2
  cases h.1 <;> simp [disc, prot]

/-- and two threads never hold the manager lock exclusively at the same time, nor one exclusively
and one shared -/
theorem exclusive_unique (d : Dims) (ks : List OpKind)
    (hok : ∀ k ∈ ks, ok (disc d) k.isSub [] (opProg d k) = true)
    (hj : JoinWF (initCfg d ks)) {cfg : Config Lock} (hr : Reach mgr (initCfg d ks) cfg)
    {w j : Nat} {tw u : Thread Lock} (hwj : w ≠ j) (hw : cfg[w]? = some tw)
    (hu : cfg[j]? = some u) (hex : tw.holdsM mgr .excl = true) : u.holds mgr = false := by
  have hwf0 := initCfg_wf d ks hok hj
  have hinv : RwInv mgr cfg := RwInv_reach (D := disc d) (disc_wf d) hwf0
    (RwInv_initial (initCfg_initial d ks)) hr
  obtain ⟨h1, h2⟩ := hinv w j tw u hwj hw hu (by simp [wb, hex])
  have h2 := h2 hex
  cases hh : u.holds mgr with
  | false => rfl
  | true =>
    obtain ⟨m, hm⟩ := holds_iff.1 hh
    cases m with
    | shared => rw [holdsM_iff.2 hm] at h2; cases h2
    | excl =>
      have : wb mgr u = true := by simp [wb, holdsM_iff.2 hm]
      rw [this] at h1; cases h1

/-! ### non-vacuity: a writer inside, a reader waiting, a handle drop in progress -/

def ex4 : List OpKind := [.addVars, .shared [.mk 0], .handleDrop]
/-- writer: writer bit, exclusive lock, level 0; reader: refused; drop: `gc_signal` -/
def ex4state : Config Lock := run mgr (initCfg d0 ex4) [0, 0, 0, 1, 2]

theorem ex4_joinWF : JoinWF (initCfg d0 ex4) := JoinWF_of_joinWFb (by decide)

example :
    (ex4state.map (fun t => t.held.map (·.1)) = [[level 0, mgr], [], [gcSignal]]) ∧
    (∀ j u, 0 ≠ j → ex4state[j]? = some u → u.sub = false →
      ∀ h ∈ u.held, h.1 = storeState ∨ h.1 = gcSignal) := by
  refine ⟨by decide, ?_⟩
  intro j u hj hu hs
  exact exclusive_excludes d0 ex4 (by decide) ex4_joinWF (reach_run _ _ _) hj
    (show ex4state[0]? = some _ from rfl) hu (by decide) hs

/-! ### non-vacuity with fork/join: caller + two pool sub-tasks + collector -/

def ex5 : List OpKind :=
  [.shared [.cache 0, .fork [0, 1], .mk 0, .cache 0], .subTask [.cache 1, .mk 1, .cache 1],
   .subTask [.mk 2], .gcExplicit]

theorem ex5_joinWF : JoinWF (initCfg d0 ex5) := JoinWF_of_joinWFb (by decide)

/-- the caller waits in `join` holding the shared lock, sub-task 1 holds level 1 and the store
mutex, sub-task 2 holds level 2, the collector has `gc_ongoing` and bucket 0 and waits for nobody:
somebody can move, and running the round-robin schedule to the end terminates with everything
released. -/
example :
    let s := run mgr (initCfg d0 ex5) [0, 0, 0, 1, 1, 1, 1, 2, 3, 3, 3]
    (s.map (fun t => t.held.map (·.1))
      = [[mgr], [storeState, level 1], [level 2], [bucket 0, gcOngoing, mgr]]) ∧
    (∃ i cfg', step mgr s i = some cfg') ∧
    ((run mgr s ((List.range 40).flatMap (fun _ => [0, 1, 2, 3]))).all
      (fun t => t.prog.isDone && t.held.isEmpty) = true) := by
  refine ⟨by decide, ?_, by decide⟩
  exact no_deadlock d0 ex5 (by decide) ex5_joinWF (reach_run _ _ _)
    (exists_unfinished (by decide))

/-!
## Findings in /repo (none of them is reachable through the table above)

1. **Re-entrant `lock_shared`** (`reentrant_shared_not_ranked`, `reentrant_shared_deadlocks`).
   `oxidd-cli/src/scheduler.rs:105` opens `mref.with_manager_shared(|manager| …)` and, inside the
   closure, `prepare` (scheduler.rs:447) calls the `&self` operations `acc.and(f)` / `or` / `xor`
   (scheduler.rs:498-500) and `f.not()` (scheduler.rs:584 via :508). These are
   `oxidd-core/src/function.rs:348-353` etc., i.e. `self.with_manager_shared` →
   `manager.rs:2556` `manager.shared()` → `rwlock.rs:33` `lock_shared()` on a lock the thread already
   holds shared. `parking_lot::RawRwLock::lock_shared` is not recursive: if a writer
   (`with_manager_exclusive`: `add_vars`, `set_var_order`) takes the writer bit between the two
   acquisitions, both threads wait forever. In the CLI no writer runs concurrently (the
   exclusive sections main.rs:375/422/477 are on the same thread, the progress thread and the gc
   thread only take the lock shared), so the bug is latent there; the same pattern is in
   `oxidd/examples/mtbdd.rs:21-23` and `examples/tdd.rs:18-19`. (`prepare_local_state`,
   manager.rs:537-551, tolerates the nesting — the lock does not.)
2. **Pool thread taking the manager lock vs. a broadcasting writer** (`pool_takes_mgr_not_ranked`,
   `pool_takes_mgr_deadlocks`). `oxidd_*_manager_run_in_worker_pool` (oxidd-ffi-c util/mod.rs:373)
   runs a user callback on a pool thread; if the callback calls any operation
   (`oxidd_bdd_and`, … → `with_manager_shared`) while another thread holds the exclusive lock and
   `set_var_order` broadcasts to *all* pool threads (set_var_order/mod.rs:318, 402), the broadcast
   waits for the pool thread and the pool thread waits for the writer. API-level hazard, not
   triggered by library code.
3. **Lost wake-up window in the gc thread** (outside the model, see `OpKind.gcThread`): the
   notification of `get_slot_from_shared` (manager.rs:639-641) is sent under `state`, not under
   `gc_signal.0`; between `gc_state = Init` (manager.rs:2357) and the next `wait` (2335) it is
   lost, `gc_state` stays `Triggered` and background collection never runs again. Same class as
   the bug fixed in /repo commit `bfc0a3c`.

## What is NOT proved

* The table `opProg` is a hand-written abstraction of the Rust code (each row cites file:line);
  there is no mechanical extraction. The tie to the code is a *runtime* one
  (`PropertiesTrace.lean`): the library's lock sites are instrumented, the logged per-thread event
  sequences of concurrent runs are replayed against the discipline `ok (disc d)` on every check
  (`trace_ok_iff`, `trace_no_deadlock`), and every observed acquisition context must occur in some
  row (`Contexts.lean`) — that covers the executed paths only. Code outside the rows — user callbacks that run under the
  lock (FFI iterators, `pick_cube` choice functions, `manager.terminals()` which keeps the
  terminal-table mutex while the caller iterates), `oxidd-manager-pointer` — is not covered.
* Primitives are assumed correct; scheduler/lock fairness, starvation freedom, the memory model
  and condvar wake-ups (lost wake-ups!) are outside the model: `no_deadlock` is *progress of some
  thread*, not termination of every thread.
* `rayon` is modelled as "sub-tasks are separate threads, `join` waits for them"; work stealing is
  covered only through the static rule on `join` (`ok`, `.join` case).
* `gc_holds_buckets` / `reorder_holds_buckets` are proved for the dimensions `d0` (2 buckets,
  3 levels; all scripts); all other theorems hold for every number of buckets and levels.
-/

end OxiddModel.Locks
