import OxiddModel.Locks.Properties
import OxiddModel.Locks.Trace
import OxiddModel.Locks.Driver

/-!
# C07 — runtime lock traces versus the locking discipline: headline theorems

The table `opProg` of `Model.lean` is hand-written. The theorems here connect the *code* to the
discipline without going through the table: the instrumented library logs every lock operation
(`oxidd_core::util::verif_locks`), the driver `Locks/Driver.lean` (protocol `locks`) replays the
per-thread event sequences with `evOK`/`evNext` (`Trace.lean`) and prints a verdict per event.

If the driver prints `ok` for every event of every thread (and `ok` for the `end` lines), then
`accepts (disc d) sub [] evs = true` for every thread's event list `evs`, and:

* `trace_sound`: the thread's observed behaviour is a path of a program satisfying the static
  discipline `ok (disc d)`;
* `trace_no_deadlock`, `trace_no_cyclic_wait`: no configuration reachable by threads running the
  observed programs — under *any* schedule, not just the one observed — is a deadlock / contains
  a cyclic wait;
* `trace_complete`: conversely a thread running any row of the table (`acquisitions_ranked_all`)
  can only produce accepted traces, so a rejected event means: code and table disagree, or the
  code violates the lock order.
-/
namespace OxiddModel.Locks
open Lock

/-- the trace of one thread: is it a pool sub-task, and its events -/
structure ThreadTrace where
  sub : Bool
  evs : List (Ev Lock)

/-- the thread running the observed program -/
def traceThread (d : Dims) (t : ThreadTrace) : Thread Lock :=
  Thread.init t.sub (toProg (disc d) [] t.evs)

def traceCfg (d : Dims) (ts : List ThreadTrace) : Config Lock := ts.map (traceThread d)

/-- **`trace_sound`.** An accepted trace is a path (`follows`) of the observed program, and the
observed program satisfies the static discipline. -/
theorem trace_sound (d : Dims) (sub : Bool) (evs : List (Ev Lock))
    (h : accepts (disc d) sub [] evs = true) :
    ok (disc d) sub [] (toProg (disc d) [] evs) = true ∧
    follows (toProg (disc d) [] evs) evs = true :=
  ⟨ok_toProg h, follows_toProg _ _ _⟩

/-- **`trace_complete`.** Every path through a row of the table `opProg` (any dimensions, any
script) is accepted by the trace checker: no false alarms on code that behaves like the table. -/
theorem trace_complete (d : Dims) (k : OpKind) (hv : k.valid d = true) (evs : List (Ev Lock))
    (hf : follows (opProg d k) evs = true) : accepts (disc d) k.isSub [] evs = true :=
  accepts_of_follows (acquisitions_ranked_all d k hv) hf

theorem traceCfg_wf (d : Dims) (ts : List ThreadTrace)
    (hacc : ∀ t ∈ ts, accepts (disc d) t.sub [] t.evs = true)
    (hj : JoinWF (traceCfg d ts)) : WFConfig (disc d) (traceCfg d ts) := by
  refine ⟨?_, hj⟩
  intro t ht
  simp only [traceCfg, List.mem_map] at ht
  obtain ⟨tt, htt, rfl⟩ := ht
  exact ⟨ok_toProg (hacc tt htt), by intro h; cases h⟩

/-- **`trace_no_deadlock`.** Take the traces of any number of threads, each accepted by the
checker; let the threads run the observed programs under *any* schedule (joined threads are
sub-tasks: `hj`). In every reachable state in which some thread has not finished, some thread can
take a step. -/
theorem trace_no_deadlock (d : Dims) (ts : List ThreadTrace)
    (hacc : ∀ t ∈ ts, accepts (disc d) t.sub [] t.evs = true)
    (hj : JoinWF (traceCfg d ts)) {cfg : Config Lock} (hr : Reach mgr (traceCfg d ts) cfg)
    (hun : ∃ (i : Nat) (t : Thread Lock), cfg[i]? = some t ∧ t.prog ≠ .done) :
    ∃ i cfg', step mgr cfg i = some cfg' :=
  progress_step (D := disc d) (disc_wf d)
    (WFConfig_reach (D := disc d) (disc_wf d) (traceCfg_wf d ts hacc hj) hr) hun

/-- **`trace_no_cyclic_wait`.** … and no reachable state contains a cycle in the wait-for
relation. -/
theorem trace_no_cyclic_wait (d : Dims) (ts : List ThreadTrace)
    (hacc : ∀ t ∈ ts, accepts (disc d) t.sub [] t.evs = true)
    (hj : JoinWF (traceCfg d ts)) {cfg : Config Lock} (hr : Reach mgr (traceCfg d ts) cfg)
    (i : Nat) : ¬ WaitChain mgr cfg i i :=
  waitsFor_acyclic (D := disc d) (disc_wf d)
    (WFConfig_reach (D := disc d) (disc_wf d) (traceCfg_wf d ts hacc hj) hr) i

/-! ### join offsets

The hook cannot know which pool threads execute the closures of a `join`; the driver records
joins with the empty offset list. For such traces `JoinWF` is automatic. (The discipline for
`join` — the caller holds only locks of rank `< subMin`, and code marked as sub-task blocks only on
locks of rank `≥ subMin` and never takes the manager lock — is checked per event all the same.) -/

def noJoinTargets : List (Ev Lock) → Bool
  | [] => true
  | .join ts :: es => ts.isEmpty && noJoinTargets es
  | _ :: es => noJoinTargets es

theorem relAllF_joins (D : Disc Lock) (n : Nat) (held : List (Lock × Mode)) :
    (relAllF D n held).joins = [] := by
  induction n generalizing held with
  | zero => rfl
  | succ n ih =>
    simp only [relAllF]
    split
    · simp [Prog.joins, ih]
    · split
      · rfl
      · simp [Prog.joins, ih]

theorem toProg_joins_nil (D : Disc Lock) (held : List (Lock × Mode)) (es : List (Ev Lock))
    (h : noJoinTargets es = true) : (toProg D held es).joins = [] := by
  induction es generalizing held with
  | nil => exact relAllF_joins D _ _
  | cons e es ih =>
    cases e with
    | join ts =>
      simp only [noJoinTargets, Bool.and_eq_true, List.isEmpty_iff] at h
      obtain ⟨rfl, h⟩ := h
      simp [toProg, Prog.joins, ih _ h]
    | acq l m => simp [toProg, Prog.joins, ih _ (by simpa [noJoinTargets] using h)]
    | tryOk l =>
      simp only [toProg, Prog.joins, ih _ (by simpa [noJoinTargets] using h), List.nil_append]
      exact relAllF_joins D _ _
    | tryFail l =>
      simp only [toProg, Prog.joins, ih _ (by simpa [noJoinTargets] using h), List.append_nil]
      exact relAllF_joins D _ _
    | rel l => simp [toProg, Prog.joins, ih _ (by simpa [noJoinTargets] using h)]
    | wait l => simp [toProg, Prog.joins, ih _ (by simpa [noJoinTargets] using h)]

theorem traceCfg_joinWF (d : Dims) (ts : List ThreadTrace)
    (h : ∀ t ∈ ts, noJoinTargets t.evs = true) : JoinWF (traceCfg d ts) := by
  intro i t hi o ho
  have ht : t ∈ traceCfg d ts := mem_iff_getElem?.2 ⟨i, hi⟩
  simp only [traceCfg, List.mem_map] at ht
  obtain ⟨tt, htt, rfl⟩ := ht
  have : (traceThread d tt).prog.joins = [] := toProg_joins_nil _ _ _ (h tt htt)
  rw [this] at ho
  cases ho

/-- **`trace_no_deadlock_driver`**: `trace_no_deadlock` for traces as the driver records them
(joins without targets) — no side condition left besides acceptance. -/
theorem trace_no_deadlock_driver (d : Dims) (ts : List ThreadTrace)
    (hacc : ∀ t ∈ ts, accepts (disc d) t.sub [] t.evs = true)
    (hnj : ∀ t ∈ ts, noJoinTargets t.evs = true)
    {cfg : Config Lock} (hr : Reach mgr (traceCfg d ts) cfg)
    (hun : ∃ (i : Nat) (t : Thread Lock), cfg[i]? = some t ∧ t.prog ≠ .done) :
    ∃ i cfg', step mgr cfg i = some cfg' :=
  trace_no_deadlock d ts hacc (traceCfg_joinWF d ts hnj) hr hun

/-! ## non-vacuity -/

/-- An application thread: `with_manager_shared` { cache miss on bucket 0 (try succeeds), node
creation on level 1 (level mutex, nested store mutex), a failed cache `try_lock`, a `join` } and
the guard drop (store mutex). Observed on the real code in this shape. -/
def exAppTrace : List (Ev Lock) :=
  [.acq mgr .shared, .tryOk (bucket 0), .rel (bucket 0),
   .acq (level 1) .excl, .acq storeState .excl, .rel storeState, .rel (level 1),
   .tryFail (bucket 1), .join [0], .rel mgr, .acq storeState .excl, .rel storeState]

/-- A pool sub-task of the concurrent sort: sort state mutex with a condvar wait, two level
mutexes in ascending order with the nested store mutex. -/
def exSubTrace : List (Ev Lock) :=
  [.acq reorderState .excl, .wait reorderState, .rel reorderState,
   .acq (level 0) .excl, .acq (level 2) .excl, .acq storeState .excl, .rel storeState,
   .rel (level 2), .rel (level 0)]

/-- both are accepted; the state in the middle of the first one is non-trivial -/
example : accepts (disc d0) false [] exAppTrace = true ∧ accepts (disc d0) true [] exSubTrace = true
    ∧ heldAfter [] (exAppTrace.take 5) = [(storeState, .excl), (level 1, .excl), (mgr, .shared)] := by
  decide

/-- **Inverted order is rejected**: the level mutex under the store mutex, … -/
example : accepts (disc d0) false []
    [.acq mgr .shared, .acq storeState .excl, .acq (level 0) .excl] = false := by decide
/-- … two level mutexes in descending order, … -/
example : accepts (disc d0) true [] [.acq (level 2) .excl, .acq (level 0) .excl] = false := by decide
/-- … a blocking bucket lock or the manager lock in a sub-task, a join while holding a level
mutex, a level mutex without the manager lock, a re-entrant shared lock, releasing a lock that is
not held. -/
example : accepts (disc d0) true [] [.acq (bucket 0) .excl] = false
    ∧ accepts (disc d0) true [] [.acq mgr .shared] = false
    ∧ accepts (disc d0) false [] [.acq mgr .shared, .acq (level 0) .excl, .join []] = false
    ∧ accepts (disc d0) false [] [.acq (level 0) .excl, .rel (level 0)] = false
    ∧ accepts (disc d0) false [] [.acq mgr .shared, .acq mgr .shared] = false
    ∧ accepts (disc d0) false [] [.acq mgr .shared, .rel (level 0)] = false := by decide

/-- the observed program of the first example: 12 events, the two `try_lock`s branch -/
example : follows (toProg (disc d0) [] exAppTrace) exAppTrace = true
    ∧ ok (disc d0) false [] (toProg (disc d0) [] exAppTrace) = true := by decide

/-- `trace_no_deadlock` applies to the two example threads (the application thread joins the
sub-task at the next position) together with a third thread replaying an explicit collection; the
state reached after the schedule below is non-trivial: thread 0 holds the shared lock and level 1,
thread 1 the sort-state mutex, thread 2 the shared lock, `gc_ongoing` and bucket 0. -/
def exTraces : List ThreadTrace :=
  [⟨false, exAppTrace⟩, ⟨true, exSubTrace⟩,
   ⟨false, [.acq mgr .shared, .tryOk gcOngoing, .acq (bucket 0) .excl, .acq (bucket 1) .excl,
            .acq (level 0) .excl, .rel (level 0), .acq termState .excl, .rel termState,
            .rel (bucket 0), .rel (bucket 1), .rel gcOngoing, .rel mgr]⟩]

theorem exTraces_joinWF : JoinWF (traceCfg d0 exTraces) := JoinWF_of_joinWFb (by decide)

example :
    let s := run mgr (traceCfg d0 exTraces) [0, 0, 0, 0, 1, 2, 2, 2]
    (s.map (fun t => t.held.map (·.1))
      = [[level 1, mgr], [reorderState], [bucket 0, gcOngoing, mgr]]) ∧
    (∃ i cfg', step mgr s i = some cfg') := by
  refine ⟨by decide, ?_⟩
  exact trace_no_deadlock d0 exTraces (by decide) exTraces_joinWF (reach_run _ _ _)
    (exists_unfinished (by decide))

/-! ## the executable driver

`Driver.lean` is what actually runs in the check. The link between its output and `accepts`: -/

theorem get_put (s : DState) (t : TState) : (s.put t).get t.tid = t := by
  simp [DState.get, DState.put]

theorem get_tid (s : DState) (tid : Nat) : (s.get tid).tid = tid := by
  simp only [DState.get]
  split
  · rename_i t ht
    have := List.find?_some ht
    simpa using this
  · rfl

theorem clause_msg_ne_ok (c : Clause) : "violates-discipline " ++ clauseName c ≠ "ok" := by
  cases c <;> decide

theorem whyMsg_ok {e : Ev Lock} {w : Option Clause} (h : whyMsg e w = "ok") : w = none := by
  cases w with
  | none => rfl
  | some c =>
    cases c <;> simp only [whyMsg] at h
    all_goals first
      | exact absurd h (clause_msg_ne_ok _)
      | (cases e <;> simp only at h <;> exact absurd h (by decide))

/-- **`driver_ok_sound`.** The driver prints `ok` for an event only if the event satisfies every
clause of the discipline in the thread's current state (`evOK (disc d)`). -/
theorem driver_ok_sound (d : Dims) (t : TState) (e : Ev Lock) (l? : Option Lock)
    (rep : Option (List Lock)) (h : judgeMsg d t e l? rep = "ok") :
    evOK (disc d) t.sub t.held e = true := by
  rw [← evWhy_none_iff]
  unfold judgeMsg at h
  split at h
  · exact absurd h (by decide)
  · split at h
    · exact absurd h (by decide)
    · exact whyMsg_ok h

/-- **`driver_state`.** Whatever the verdict, the driver updates the held list of the thread with
`evNext` — the same update as `stepThread` (`stepThread_trace`) — and leaves `sub` and the
dimensions alone. -/
theorem driver_state (s : DState) (tid : Nat) (e : Ev Lock) (l? : Option Lock)
    (rep : Option (List Lock)) :
    ((judge s tid e l? rep).1.get tid).held = evNext (s.get tid).held e ∧
    ((judge s tid e l? rep).1.get tid).sub = (s.get tid).sub ∧
    (judge s tid e l? rep).1.d = s.d := by
  have h := get_put s { tid := tid, sub := (s.get tid).sub, held := evNext (s.get tid).held e }
  have hj : (judge s tid e l? rep).1
      = s.put { tid := tid, sub := (s.get tid).sub, held := evNext (s.get tid).held e } := by
    simp only [judge, get_tid]
  rw [hj, h]
  exact ⟨rfl, rfl, rfl⟩

/-- the driver's verdicts on the successive events of one thread (between two `sub` lines) -/
def judgeAll (d : Dims) (t : TState) : List (Ev Lock × Option Lock × Option (List Lock)) → Bool
  | [] => true
  | (e, l?, rep) :: es =>
    decide (judgeMsg d t e l? rep = "ok") && judgeAll d { t with held := evNext t.held e } es

/-- **`driver_accepts`.** If the driver prints `ok` for every event of a thread that starts
holding nothing, and `ok` for its `end` line (nothing held at the end), then the thread's trace is
accepted — hence `trace_sound`, `trace_no_deadlock`, … apply to it. -/
theorem driver_accepts (d : Dims) (t : TState)
    (es : List (Ev Lock × Option Lock × Option (List Lock)))
    (h : judgeAll d t es = true)
    (hend : protInv (disc d) t.sub (heldAfter t.held (es.map (·.1))) = true) :
    accepts (disc d) t.sub t.held (es.map (·.1)) = true := by
  induction es generalizing t with
  | nil => simpa [accepts, heldAfter] using hend
  | cons x es ih =>
    obtain ⟨e, l?, rep⟩ := x
    simp only [judgeAll, Bool.and_eq_true, decide_eq_true_eq] at h
    simp only [List.map_cons, accepts, Bool.and_eq_true]
    refine ⟨driver_ok_sound d t e l? rep h.1, ?_⟩
    exact ih { t with held := evNext t.held e } h.2 (by simpa [heldAfter] using hend)

/-- non-vacuity: the driver's verdicts on the first example trace (with the held lists the hook
reports, oldest first) are all `ok`; on the inverted order the third verdict is the rank clause -/
example : judgeAll d0 ⟨7, false, []⟩
      [(.acq mgr .shared, some mgr, some []), (.tryOk (bucket 0), some (bucket 0), some [mgr]),
       (.rel (bucket 0), some (bucket 0), none), (.acq (level 1) .excl, some (level 1), some [mgr]),
       (.acq storeState .excl, some storeState, some [mgr, level 1]),
       (.rel storeState, some storeState, none), (.rel (level 1), some (level 1), none),
       (.join [], none, some [mgr]), (.rel mgr, some mgr, none)] = true
    ∧ judgeMsg d0 ⟨7, false, [(storeState, .excl), (mgr, .shared)]⟩ (.acq (level 0) .excl)
        (some (level 0)) none = "violates-discipline rank" := by
  decide

/-! ## contexts of the table (the `ctx` lines of the driver) -/

/-- the contexts are those of the table of `Properties.lean` -/
theorem ctxTable_eq : ctxTable = table := rfl

/-- every context of every row of the table is in `tableContexts` -/
theorem tableContexts_complete (k : OpKind) (hk : k ∈ table) (c : Ctx)
    (hc : c ∈ contexts k.isSub [] (opProg d0 k)) : c ∈ tableContexts := by
  rw [tableContexts, List.mem_eraseDups, List.mem_flatMap]
  exact ⟨k, by rw [ctxTable_eq]; exact hk, hc⟩

/-- non-vacuity: the table has 41 distinct contexts; the store mutex under two level mutexes on
the *calling* thread of a reordering (sequential sort; found by the runtime traces) is one of them,
a level mutex under the store mutex is not -/
example : tableContexts.length = 41
    ∧ tableContexts.contains ⟨false, "acq", "storeState", "x", ["mgr", "bucket", "level", "level"]⟩
    ∧ tableContexts.contains ⟨true, "wait", "reorderState", "x", ["reorderState"]⟩
    ∧ !tableContexts.contains ⟨false, "acq", "level", "x", ["mgr", "storeState"]⟩ := by
  decide

/-- `trace_complete` is not vacuous: a path through the `gcExplicit` row with a *failed*
`gc_ongoing.try_lock()` and one through the successful branch up to the sweep of level 0. -/
example : follows (opProg d0 .gcExplicit)
      [.acq mgr .shared, .tryFail gcOngoing, .rel mgr, .acq storeState .excl] = true
    ∧ follows (opProg d0 .gcExplicit)
      [.acq mgr .shared, .tryOk gcOngoing, .acq (bucket 0) .excl, .acq (bucket 1) .excl,
       .acq (level 0) .excl, .acq storeState .excl] = true := by decide

end OxiddModel.Locks
