import OxiddModel.Locks.Lemmas

/-!
# Runtime lock traces checked against the static discipline (C07)

`Model.lean` contains a hand-written table of lock programs (`opProg`) and the theorems of
`Properties.lean` say that threads running *ranked* programs (`ok (disc d) … = true`) never
deadlock. Nothing in that development ties the table to the code. This file supplies the tie from
the other side: the library is instrumented (`oxidd_core::util::verif_locks`, compiled only with
`--cfg oxidd_verif`) to log every lock operation of every thread, and the logged per-thread event
sequences are replayed here.

* `Ev` is one logged event of one thread, `evNext` maintains the thread's list of held locks
  exactly as `stepThread` does (`stepThread_trace`), `evOK` evaluates **the same clauses** as the
  static discipline `ok` (`protInv`, `acqOK`, `allBelow … subMin`, "only held locks are released").
* `accepts` = every event of the trace passes.
* `toProg` builds the straight-line program observed (the branch of a `try_lock` that was *not*
  observed releases everything and stops).
* `trace_ok_iff`: the checker accepts a trace **iff** the trace is a path (`follows`) through
  *some* program that satisfies the static discipline. In particular (`trace_sound`) an accepted
  trace is a path of the ranked program `toProg`, so all theorems about ranked programs
  (`progress`, `waitsFor_acyclic`) apply to any set of threads running the observed programs:
  `trace_no_deadlock`, `trace_no_cyclic_wait`.

What this does and does not give: a trace is one execution; acceptance says that *the observed
behaviour* obeys the lock order (and would have been rejected had the code taken two locks in the
wrong order on this run, whether or not the run happened to deadlock). It says nothing about
paths that were not executed — coverage is reported by the harness (`c07_locks`).
-/
namespace OxiddModel.Locks

/-- One logged lock event of one thread.

* `acq l m`   a blocking acquisition (`lock()`, `lock_shared()`, `lock_exclusive()`) returned
* `tryOk l`   `try_lock()` succeeded
* `tryFail l` `try_lock()` failed
* `rel l`     unlock
* `wait l`    `Condvar::wait` on the guard of `l` (release + re-acquisition)
* `join ts`   the thread calls `join`/`install`/`broadcast` of the worker pool and waits for the
              sub-tasks at the relative positions `ts` -/
inductive Ev (L : Type) where
  | acq (l : L) (m : Mode)
  | tryOk (l : L)
  | tryFail (l : L)
  | rel (l : L)
  | wait (l : L)
  | join (ts : List Nat)
  deriving Repr, DecidableEq

section Generic
variable {L : Type} [DecidableEq L]

/-- the held list after the event — the same updates as `stepThread` -/
def evNext (held : List (L × Mode)) : Ev L → List (L × Mode)
  | .acq l m => (l, m) :: held
  | .tryOk l => (l, .excl) :: held
  | .tryFail _ => held
  | .rel l => dropLock held l
  | .wait l => (l, .excl) :: dropLock held l
  | .join _ => held

/-- the clauses of the static discipline `ok` for one event in the state `held` -/
def evOK (D : Disc L) (sub : Bool) (held : List (L × Mode)) : Ev L → Bool
  | .acq l m => protInv D sub held && acqOK D sub held l m
  | .tryOk l => protInv D sub held && !decide (l = D.rw)
  | .tryFail l => protInv D sub held && !decide (l = D.rw) && protInv D sub ((l, .excl) :: held)
  | .rel l => protInv D sub held && held.any (fun h => decide (h.1 = l))
  | .wait l =>
    protInv D sub held && held.any (fun h => decide (h.1 = l))
      && protInv D sub (dropLock held l) && acqOK D sub (dropLock held l) l .excl
  | .join _ => protInv D sub held && allBelow D held D.subMin

/-- **The trace checker**: every event passes the clauses of the discipline, and the state after
the last event still satisfies the per-state invariant. -/
def accepts (D : Disc L) (sub : Bool) : List (L × Mode) → List (Ev L) → Bool
  | held, [] => protInv D sub held
  | held, e :: es => evOK D sub held e && accepts D sub (evNext held e) es

/-- held list after a whole trace -/
def heldAfter : List (L × Mode) → List (Ev L) → List (L × Mode)
  | held, [] => held
  | held, e :: es => heldAfter (evNext held e) es

/-- "release everything and stop": first the locks other than `rw`, `rw` last (`n` is fuel,
`held.length` suffices) -/
def relAllF (D : Disc L) : Nat → List (L × Mode) → Prog L
  | 0, _ => .done
  | n + 1, held =>
    match held.find? (fun h => !decide (h.1 = D.rw)) with
    | some h => .rel h.1 (relAllF D n (dropLock held h.1))
    | none =>
      match held with
      | [] => .done
      | h :: _ => .rel h.1 (relAllF D n (dropLock held h.1))

def relAll (D : Disc L) (held : List (L × Mode)) : Prog L := relAllF D held.length held

/-- **The observed program**: straight line along the trace; the branch of a `try_lock` that was
not taken, and the end of the trace, release everything and stop. -/
def toProg (D : Disc L) : List (L × Mode) → List (Ev L) → Prog L
  | held, [] => relAll D held
  | held, .acq l m :: es => .acq l m (toProg D ((l, m) :: held) es)
  | held, .tryOk l :: es => .tryAcq l (toProg D ((l, .excl) :: held) es) (relAll D held)
  | held, .tryFail l :: es => .tryAcq l (relAll D ((l, .excl) :: held)) (toProg D held es)
  | held, .rel l :: es => .rel l (toProg D (dropLock held l) es)
  | held, .wait l :: es => .wait l (toProg D ((l, .excl) :: dropLock held l) es)
  | held, .join ts :: es => .join ts (toProg D held es)

/-- the trace is a path through the program (`try_lock` outcomes select the branch) -/
def follows : Prog L → List (Ev L) → Bool
  | _, [] => true
  | .acq l m k, .acq l' m' :: es => decide (l = l') && decide (m = m') && follows k es
  | .tryAcq l ks _, .tryOk l' :: es => decide (l = l') && follows ks es
  | .tryAcq l _ kf, .tryFail l' :: es => decide (l = l') && follows kf es
  | .rel l k, .rel l' :: es => decide (l = l') && follows k es
  | .wait l k, .wait l' :: es => decide (l = l') && follows k es
  | .join ts k, .join ts' :: es => decide (ts = ts') && follows k es
  | _, _ :: _ => false

/-! ## `relAll` is ranked -/

theorem dropLock_length_lt {held : List (L × Mode)} {h : L × Mode} (hh : h ∈ held) :
    (dropLock held h.1).length < held.length := by
  induction held with
  | nil => cases hh
  | cons x xs ih =>
    simp only [dropLock, List.filter_cons]
    by_cases hx : x.1 = h.1
    · simp only [hx, decide_true, Bool.not_true, Bool.false_eq_true, ↓reduceIte, List.length_cons]
      exact Nat.lt_succ_of_le (List.length_filter_le _ _)
    · have hm : h ∈ xs := by
        rcases List.mem_cons.1 hh with rfl | hm
        · exact absurd rfl hx
        · exact hm
      simp only [hx, decide_false, Bool.not_false, ↓reduceIte, List.length_cons]
      exact Nat.succ_lt_succ (ih hm)

theorem protInv_dropLock {D : Disc L} {sub : Bool} {held : List (L × Mode)} {l : L}
    (hl : l ≠ D.rw) (h : protInv D sub held = true) : protInv D sub (dropLock held l) = true := by
  simp only [protInv, Bool.or_eq_true, List.all_eq_true, List.any_eq_true, Bool.not_eq_true',
    decide_eq_true_eq] at h ⊢
  rcases h with (hs | hall) | ⟨x, hx, hxr⟩
  · exact Or.inl (Or.inl hs)
  · exact Or.inl (Or.inr (fun y hy => hall y (mem_dropLock.1 hy).1))
  · refine Or.inr ⟨x, mem_dropLock.2 ⟨hx, ?_⟩, hxr⟩
    rw [hxr]; exact fun h => hl h.symm

theorem relAllF_nil (D : Disc L) (n : Nat) : relAllF D n [] = .done := by
  cases n <;> simp [relAllF]

theorem ok_relAllF {D : Disc L} {sub : Bool} (n : Nat) : ∀ (held : List (L × Mode)),
    held.length ≤ n → protInv D sub held = true → ok D sub held (relAllF D n held) = true := by
  induction n with
  | zero =>
    intro held hl _
    have : held = [] := List.eq_nil_of_length_eq_zero (Nat.le_zero.1 hl)
    subst this; simp [relAllF, ok]
  | succ n ih =>
    intro held hl hp
    simp only [relAllF]
    cases hf : held.find? (fun h => !decide (h.1 = D.rw)) with
    | some h =>
      have hmem : h ∈ held := List.mem_of_find?_eq_some hf
      have hne : h.1 ≠ D.rw := by
        have := List.find?_some hf
        simpa using this
      simp only [ok, Bool.and_eq_true]
      refine ⟨⟨hp, ?_⟩, ?_⟩
      · exact List.any_eq_true.2 ⟨h, hmem, by simp⟩
      · exact ih _ (by have := dropLock_length_lt hmem; omega) (protInv_dropLock hne hp)
    | none =>
      cases held with
      | nil => simp [ok]
      | cons h hs =>
        have hall : ∀ x ∈ h :: hs, x.1 = D.rw := by
          intro x hx
          have := List.find?_eq_none.1 hf x hx
          simpa using this
        have hdrop : dropLock (h :: hs) h.1 = [] := by
          simp only [dropLock, List.filter_eq_nil_iff]
          intro x hx
          have h1 := hall x hx
          have h2 := hall h (List.mem_cons_self)
          simp [h1, h2]
        simp only [ok, Bool.and_eq_true, hdrop, relAllF_nil]
        exact ⟨⟨hp, List.any_eq_true.2 ⟨h, List.mem_cons_self, by simp⟩⟩, by simp⟩

theorem ok_relAll {D : Disc L} {sub : Bool} {held : List (L × Mode)}
    (hp : protInv D sub held = true) : ok D sub held (relAll D held) = true :=
  ok_relAllF held.length held (Nat.le_refl _) hp

/-! ## soundness and completeness of the trace checker -/

/-- the observed program reproduces the trace -/
theorem follows_toProg (D : Disc L) (held : List (L × Mode)) (es : List (Ev L)) :
    follows (toProg D held es) es = true := by
  induction es generalizing held with
  | nil => cases h : toProg D held [] <;> rfl
  | cons e es ih => cases e <;> simp [toProg, follows, ih]

/-- **Soundness.** If the checker accepts the trace, the observed program satisfies the static
discipline `ok`. -/
theorem ok_toProg {D : Disc L} {sub : Bool} {held : List (L × Mode)} {es : List (Ev L)}
    (h : accepts D sub held es = true) : ok D sub held (toProg D held es) = true := by
  induction es generalizing held with
  | nil => exact ok_relAll (by simpa [accepts] using h)
  | cons e es ih =>
    simp only [accepts, Bool.and_eq_true] at h
    obtain ⟨he, hrest⟩ := h
    have hk := ih hrest
    cases e with
    | acq l m =>
      simp only [evOK, Bool.and_eq_true] at he
      simp only [toProg, ok, Bool.and_eq_true]
      exact ⟨⟨he.1, he.2⟩, hk⟩
    | tryOk l =>
      simp only [evOK, Bool.and_eq_true] at he
      simp only [toProg, ok, Bool.and_eq_true]
      exact ⟨⟨⟨he.1, he.2⟩, hk⟩, ok_relAll he.1⟩
    | tryFail l =>
      simp only [evOK, Bool.and_eq_true] at he
      simp only [toProg, ok, Bool.and_eq_true]
      exact ⟨⟨⟨he.1.1, he.1.2⟩, ok_relAll he.2⟩, hk⟩
    | rel l =>
      simp only [evOK, Bool.and_eq_true] at he
      simp only [toProg, ok, Bool.and_eq_true]
      exact ⟨⟨he.1, he.2⟩, hk⟩
    | wait l =>
      simp only [evOK, Bool.and_eq_true] at he
      simp only [toProg, ok, Bool.and_eq_true]
      exact ⟨⟨⟨⟨he.1.1.1, he.1.1.2⟩, he.1.2⟩, he.2⟩, hk⟩
    | join ts =>
      simp only [evOK, Bool.and_eq_true] at he
      simp only [toProg, ok, Bool.and_eq_true]
      exact ⟨⟨he.1, he.2⟩, hk⟩

/-- **Completeness.** Every path through a program that satisfies the static discipline is
accepted: the checker raises no false alarms on ranked code. -/
theorem accepts_of_follows {D : Disc L} {sub : Bool} {es : List (Ev L)} :
    ∀ {held : List (L × Mode)} {p : Prog L},
      ok D sub held p = true → follows p es = true → accepts D sub held es = true := by
  induction es with
  | nil => intro held p hok _; exact ok_protInv hok
  | cons e es ih =>
    intro held p hok hf
    cases p with
    | done => cases e <;> simp [follows] at hf
    | acq l m k =>
      cases e with
      | acq l' m' =>
        simp only [follows, Bool.and_eq_true, decide_eq_true_eq] at hf
        obtain ⟨⟨rfl, rfl⟩, hf⟩ := hf
        simp only [ok, Bool.and_eq_true] at hok
        simp only [accepts, evOK, evNext, Bool.and_eq_true]
        exact ⟨⟨hok.1.1, hok.1.2⟩, ih hok.2 hf⟩
      | _ => simp [follows] at hf
    | tryAcq l ks kf =>
      simp only [ok, Bool.and_eq_true] at hok
      cases e with
      | tryOk l' =>
        simp only [follows, Bool.and_eq_true, decide_eq_true_eq] at hf
        obtain ⟨rfl, hf⟩ := hf
        simp only [accepts, evOK, evNext, Bool.and_eq_true]
        exact ⟨⟨hok.1.1.1, hok.1.1.2⟩, ih hok.1.2 hf⟩
      | tryFail l' =>
        simp only [follows, Bool.and_eq_true, decide_eq_true_eq] at hf
        obtain ⟨rfl, hf⟩ := hf
        simp only [accepts, evOK, evNext, Bool.and_eq_true]
        exact ⟨⟨⟨hok.1.1.1, hok.1.1.2⟩, ok_protInv hok.1.2⟩, ih hok.2 hf⟩
      | _ => simp [follows] at hf
    | rel l k =>
      cases e with
      | rel l' =>
        simp only [follows, Bool.and_eq_true, decide_eq_true_eq] at hf
        obtain ⟨rfl, hf⟩ := hf
        simp only [ok, Bool.and_eq_true] at hok
        simp only [accepts, evOK, evNext, Bool.and_eq_true]
        exact ⟨⟨hok.1.1, hok.1.2⟩, ih hok.2 hf⟩
      | _ => simp [follows] at hf
    | wait l k =>
      cases e with
      | wait l' =>
        simp only [follows, Bool.and_eq_true, decide_eq_true_eq] at hf
        obtain ⟨rfl, hf⟩ := hf
        simp only [ok, Bool.and_eq_true] at hok
        simp only [accepts, evOK, evNext, Bool.and_eq_true]
        exact ⟨⟨⟨⟨hok.1.1.1.1, hok.1.1.1.2⟩, hok.1.1.2⟩, hok.1.2⟩, ih hok.2 hf⟩
      | _ => simp [follows] at hf
    | join ts k =>
      cases e with
      | join ts' =>
        simp only [follows, Bool.and_eq_true, decide_eq_true_eq] at hf
        obtain ⟨rfl, hf⟩ := hf
        simp only [ok, Bool.and_eq_true] at hok
        simp only [accepts, evOK, evNext, Bool.and_eq_true]
        exact ⟨⟨hok.1.1, hok.1.2⟩, ih hok.2 hf⟩
      | _ => simp [follows] at hf

/-- **`trace_ok_iff`.** The trace checker accepts exactly the paths of ranked programs. -/
theorem trace_ok_iff (D : Disc L) (sub : Bool) (held : List (L × Mode)) (es : List (Ev L)) :
    accepts D sub held es = true ↔ ∃ p, ok D sub held p = true ∧ follows p es = true :=
  ⟨fun h => ⟨toProg D held es, ok_toProg h, follows_toProg D held es⟩,
   fun ⟨_, hok, hf⟩ => accepts_of_follows hok hf⟩

/-- a prefix of an accepted trace is accepted (the checker judges event by event) -/
theorem accepts_prefix {D : Disc L} {sub : Bool} {es fs : List (Ev L)} :
    ∀ {held : List (L × Mode)}, accepts D sub held (es ++ fs) = true →
      accepts D sub held es = true := by
  induction es with
  | nil =>
    intro held h
    cases fs with
    | nil => exact h
    | cons f fs =>
      simp only [List.nil_append, accepts, Bool.and_eq_true] at h
      cases f <;> simp only [evOK, Bool.and_eq_true] at h
      · exact h.1.1
      · exact h.1.1
      · exact h.1.1.1
      · exact h.1.1
      · exact h.1.1.1.1
      · exact h.1.1
  | cons e es ih =>
    intro held h
    simp only [List.cons_append, accepts, Bool.and_eq_true] at h ⊢
    exact ⟨h.1, ih h.2⟩

/-! ## the observed program really performs the observed steps -/

/-- **The replay maintains the held list exactly like the semantics.** A thread that runs the
observed program `toProg D held (e :: es)` and holds `held` makes — whenever the semantics lets it
move, and with the observed outcome of a `try_lock` — a step to the state "holds `evNext held e`,
runs the rest of the observed program" (the exclusive acquisition of the `RwLock` needs the
intermediate step that takes the writer bit; `Condvar::wait` is two steps of the semantics: the
release, then the program continues like the one observed for a blocking re-acquisition). -/
theorem stepThread_trace {D : Disc L} {rw : L} {cfg : Config L} {i : Nat} {t t' : Thread L}
    {held : List (L × Mode)} {e : Ev L} {es : List (Ev L)}
    (hh : t.held = held) (hp : t.prog = toProg D held (e :: es))
    (hstep : stepThread rw cfg i t = some t')
    (htry : ∀ l, e = .tryOk l → free cfg l = true)
    (htryF : ∀ l, e = .tryFail l → free cfg l = false) :
    (t'.held = evNext held e ∧ t'.prog = toProg D (evNext held e) es) ∨
    (t'.held = held ∧ t'.prog = t.prog ∧ t.claim = false ∧ t'.claim = true) ∨
    (∃ l, e = .wait l ∧ t'.held = dropLock held l ∧
      t'.prog = toProg D (dropLock held l) (.acq l .excl :: es)) := by
  subst hh
  cases e with
  | acq l m =>
    simp only [toProg] at hp
    apply stepThread_elim (motive := fun t' =>
      (t'.held = evNext t.held (.acq l m) ∧ t'.prog = toProg D (evNext t.held (.acq l m)) es) ∨
      (t'.held = t.held ∧ t'.prog = t.prog ∧ t.claim = false ∧ t'.claim = true) ∨
      (∃ l', Ev.acq l m = .wait l' ∧ t'.held = dropLock t.held l' ∧
        t'.prog = toProg D (dropLock t.held l') (.acq l' .excl :: es))) hstep
    all_goals intros
    all_goals simp_all [evNext]
  | tryOk l =>
    simp only [toProg] at hp
    have hfree := htry l rfl
    rw [step_tryAcq hp, if_pos hfree] at hstep
    cases hstep
    exact Or.inl ⟨rfl, rfl⟩
  | tryFail l =>
    simp only [toProg] at hp
    have hfree := htryF l rfl
    rw [step_tryAcq hp] at hstep
    simp only [hfree, Bool.false_eq_true, ↓reduceIte, Option.some.injEq] at hstep
    cases hstep
    exact Or.inl ⟨rfl, rfl⟩
  | rel l =>
    simp only [toProg] at hp
    rw [step_rel hp] at hstep
    cases hstep
    exact Or.inl ⟨rfl, rfl⟩
  | wait l =>
    -- the semantics splits `wait` into the release and a blocking re-acquisition
    simp only [toProg] at hp
    rw [step_wait hp] at hstep
    cases hstep
    exact Or.inr (Or.inr ⟨l, rfl, rfl, rfl⟩)
  | join ts =>
    simp only [toProg] at hp
    rw [step_join hp] at hstep
    split at hstep
    · cases hstep; exact Or.inl ⟨rfl, rfl⟩
    · cases hstep

/-! ## diagnostics: which clause fails -/

/-- the clauses of the discipline, for the driver's `violates-discipline <clause>` message -/
inductive Clause where
  /-- `protInv`: a lock living inside the manager is held without the manager lock -/
  | prot
  /-- `allBelow`: a lock of greater or equal rank is held at a blocking acquisition -/
  | rank
  /-- `shared` used on a mutex -/
  | mode
  /-- a sub-task takes the manager lock -/
  | subMgr
  /-- a sub-task blocks on a lock of rank `< subMin` -/
  | subRank
  /-- `try_lock` on the `RwLock` -/
  | tryRw
  /-- `protInv` would fail after a successful `try_lock` / fails after the release in `wait` -/
  | protAfter
  /-- release of / wait on a lock that is not held -/
  | unheld
  /-- `join` while holding a lock of rank `≥ subMin` -/
  | joinRank
  deriving DecidableEq, Repr

def acqWhy (D : Disc L) (sub : Bool) (held : List (L × Mode)) (l : L) (m : Mode) : Option Clause :=
  if !allBelow D held (D.rank l) then some .rank
  else if !(decide (m = .excl) || decide (l = D.rw)) then some .mode
  else if sub && decide (l = D.rw) then some .subMgr
  else if sub && !decide (D.subMin ≤ D.rank l) then some .subRank
  else none

/-- first failing clause of `evOK`, `none` if the event passes -/
def evWhy (D : Disc L) (sub : Bool) (held : List (L × Mode)) : Ev L → Option Clause
  | .acq l m => if !protInv D sub held then some .prot else acqWhy D sub held l m
  | .tryOk l =>
    if !protInv D sub held then some .prot else if decide (l = D.rw) then some .tryRw else none
  | .tryFail l =>
    if !protInv D sub held then some .prot else if decide (l = D.rw) then some .tryRw
    else if !protInv D sub ((l, .excl) :: held) then some .protAfter else none
  | .rel l =>
    if !protInv D sub held then some .prot
    else if !held.any (fun h => decide (h.1 = l)) then some .unheld else none
  | .wait l =>
    if !protInv D sub held then some .prot
    else if !held.any (fun h => decide (h.1 = l)) then some .unheld
    else if !protInv D sub (dropLock held l) then some .protAfter
    else acqWhy D sub (dropLock held l) l .excl
  | .join _ =>
    if !protInv D sub held then some .prot
    else if !allBelow D held D.subMin then some .joinRank else none

theorem acqWhy_none_iff (D : Disc L) (sub : Bool) (held : List (L × Mode)) (l : L) (m : Mode) :
    acqWhy D sub held l m = none ↔ acqOK D sub held l m = true := by
  unfold acqWhy acqOK
  cases allBelow D held (D.rank l) <;> cases sub <;> cases decide (m = .excl)
    <;> cases decide (l = D.rw) <;> cases decide (D.subMin ≤ D.rank l) <;> simp

/-- the diagnostic function and the Boolean checker agree -/
theorem evWhy_none_iff (D : Disc L) (sub : Bool) (held : List (L × Mode)) (e : Ev L) :
    evWhy D sub held e = none ↔ evOK D sub held e = true := by
  cases e with
  | acq l m =>
    simp only [evWhy, evOK, Bool.and_eq_true, ← acqWhy_none_iff]
    cases protInv D sub held <;> simp
  | tryOk l =>
    simp only [evWhy, evOK]
    cases protInv D sub held <;> cases decide (l = D.rw) <;> simp
  | tryFail l =>
    simp only [evWhy, evOK]
    cases protInv D sub held <;> cases decide (l = D.rw)
      <;> cases protInv D sub ((l, .excl) :: held) <;> simp
  | rel l =>
    simp only [evWhy, evOK]
    cases protInv D sub held <;> cases held.any (fun h => decide (h.1 = l)) <;> simp
  | wait l =>
    simp only [evWhy, evOK, Bool.and_eq_true, ← acqWhy_none_iff]
    cases protInv D sub held <;> cases held.any (fun h => decide (h.1 = l))
      <;> cases protInv D sub (dropLock held l) <;> simp
  | join ts =>
    simp only [evWhy, evOK]
    cases protInv D sub held <;> cases allBelow D held D.subMin <;> simp

end Generic

end OxiddModel.Locks
