import OxiddModel.Mtbdd.StoreS

/-!
# MTBDD store level: `apply_bin` with the apply cache refines the tree-level `applyBin`

* tree level: the symmetric unfolding equation of `applyBin` (`applyBin_binary`, with `tlevel`,
  `tcofT`, `tcofE`), commutativity of `applyBin` for `Add/Mul/Min/Max` from commutativity of the
  scalar operation on admissible terminals (`TerminalComm`, `applyBin_comm`) — this is what makes
  memoising under the normalised key `(min f g, max f g)` sound;
* `CacheOK s c`: every entry maps its key to an edge denoting the result the *tag* stands for
  (`specOf`);
* `terminalBinS_corr`: `terminal_bin` on edges refines `terminalBin` on trees in every hash-consed
  store (the `f == g` test of `Min`/`Max` is tree equality because nodes *and terminals* are
  unique);
* `applyS_spec`: for every admissible policy, every sound cache, every edge order, all operands.
-/
set_option linter.unusedSectionVars false

namespace OxiddModel.Mtbdd.Refine
open OxiddModel.Mtbdd OxiddModel.Mtbdd.MT OxiddModel.CachePolicy

variable {T : Type} [DecidableEq T]

/-! ## tree level: cofactors and the unfolding equation -/

/-- level of the root (`none` = terminal) -/
def tlevel : MT T → Option Nat
  | .leaf _ => none
  | .node l _ _ => some l

def tcofT (l : Nat) : MT T → MT T
  | .node la t e => if la = l then t else .node la t e
  | .leaf v => .leaf v

def tcofE (l : Nat) : MT T → MT T
  | .node la t e => if la = l then e else .node la t e
  | .leaf v => .leaf v

theorem tcofT_size_le (l : Nat) (a : MT T) : (tcofT l a).size ≤ a.size := by
  cases a with
  | leaf b => simp [tcofT]
  | node la t e => simp only [tcofT]; split <;> simp only [MT.size] <;> omega

theorem tcofE_size_le (l : Nat) (a : MT T) : (tcofE l a).size ≤ a.size := by
  cases a with
  | leaf b => simp [tcofE]
  | node la t e => simp only [tcofE]; split <;> simp only [MT.size] <;> omega

theorem tcofT_size_lt {l : Nat} {a : MT T} (h : tlevel a = some l) : (tcofT l a).size < a.size := by
  cases a with
  | leaf b => cases h
  | node la t e => cases h; simp only [tcofT, if_true, MT.size]; omega

theorem tcofE_size_lt {l : Nat} {a : MT T} (h : tlevel a = some l) : (tcofE l a).size < a.size := by
  cases a with
  | leaf b => cases h
  | node la t e => cases h; simp only [tcofE, if_true, MT.size]; omega

theorem tcofT_all {ok : T → Prop} (l : Nat) {a : MT T} (h : a.All ok) : (tcofT l a).All ok := by
  cases a with
  | leaf b => exact h
  | node la t e => simp only [tcofT]; split; exact h.1; exact h

theorem tcofE_all {ok : T → Prop} (l : Nat) {a : MT T} (h : a.All ok) : (tcofE l a).All ok := by
  cases a with
  | leaf b => exact h
  | node la t e => simp only [tcofE]; split; exact h.2; exact h

theorem lmin_comm (a b : Option Nat) : lmin a b = lmin b a := by
  cases a <;> cases b <;> simp [lmin, Nat.min_comm]

theorem lmin_eq_some {a b : Option Nat} {l : Nat} (h : lmin a b = some l) :
    a = some l ∨ b = some l := by
  cases a <;> cases b <;> simp only [lmin] at h
  · cases h
  · exact .inr h
  · exact .inl h
  · rename_i x y
    simp only [Option.some.injEq] at h
    by_cases hxy : x ≤ y
    · left; rw [Nat.min_eq_left hxy] at h; rw [h]
    · right; rw [Nat.min_eq_right (by omega)] at h; rw [h]

theorem applyBin_done {L : TermOps T} {op : Op} {a b r : MT T}
    (h : terminalBin L op a b = .done r) : applyBin L op a b = r := by
  rw [applyBin.eq_def]; simp [h]

/-- the Shannon expansion of `apply_bin` in symmetric form: expansion level = minimum of the root
levels, cofactors of *both* operands with respect to that level -/
theorem applyBin_binary {L : TermOps T} {op : Op} {a b : MT T} {l : Nat}
    (h : terminalBin L op a b = .binary) (hl : lmin (tlevel a) (tlevel b) = some l) :
    applyBin L op a b =
      mk l (applyBin L op (tcofT l a) (tcofT l b)) (applyBin L op (tcofE l a) (tcofE l b)) := by
  cases a with
  | leaf x =>
    cases b with
    | leaf y => cases hl
    | node lg gt ge =>
      simp only [tlevel, lmin, Option.some.injEq] at hl; subst hl
      rw [applyBin.eq_def]; simp [h, tcofT, tcofE]
  | node lf ft fe =>
    cases b with
    | leaf y =>
      simp only [tlevel, lmin, Option.some.injEq] at hl; subst hl
      rw [applyBin.eq_def]; simp [h, tcofT, tcofE]
    | node lg gt ge =>
      simp only [tlevel, lmin, Option.some.injEq] at hl
      rw [applyBin.eq_def]; simp only [h]
      by_cases h1 : lf < lg
      · have : l = lf := by omega
        subst this
        have h2 : ¬ lg = l := by omega
        simp [h1, h2, tcofT, tcofE]
      · by_cases h2 : lg < lf
        · have : l = lg := by omega
          subst this
          have h3 : ¬ lf = l := by omega
          simp [h1, h2, h3, tcofT, tcofE]
        · have : lf = lg := by omega
          subst this
          have : l = lf := by omega
          subst this
          simp [tcofT, tcofE]

theorem terminalBin_binary_level {L : TermOps T} {op : Op} {a b : MT T}
    (h : terminalBin L op a b = .binary) : ∃ l, lmin (tlevel a) (tlevel b) = some l := by
  cases a with
  | leaf x =>
    cases b with
    | leaf y => exact absurd h (terminalBin_leaf_leaf L op x y)
    | node lg gt ge => exact ⟨lg, rfl⟩
  | node lf ft fe =>
    cases b with
    | leaf y => exact ⟨lf, rfl⟩
    | node lg gt ge => exact ⟨min lf lg, rfl⟩

/-! ## commutativity -/

/-- commutativity of the scalar operations whose cache key `terminal_bin` normalises, on
admissible terminal values -/
structure TerminalComm (L : TermOps T) (ok : T → Prop) : Prop where
  add_comm : ∀ x y, ok x → ok y → L.add x y = L.add y x
  mul_comm : ∀ x y, ok x → ok y → L.mul x y = L.mul y x
  min_comm : ∀ x y, ok x → ok y → L.min x y = L.min y x
  max_comm : ∀ x y, ok x → ok y → L.max x y = L.max y x

theorem min_leaf_eq (L : TermOps T) (x y : T) :
    (match L.pcmp x y with
      | some .lt | some .eq => MT.leaf x
      | some .gt => MT.leaf y
      | none => MT.leaf L.nan) = MT.leaf (L.min x y) := by
  unfold TermOps.min
  cases L.pcmp x y with
  | none => rfl
  | some o => cases o <;> rfl

theorem max_leaf_eq (L : TermOps T) (x y : T) :
    (match L.pcmp x y with
      | some .gt | some .eq => MT.leaf x
      | some .lt => MT.leaf y
      | none => MT.leaf L.nan) = MT.leaf (L.max x y) := by
  unfold TermOps.max
  cases L.pcmp x y with
  | none => rfl
  | some o => cases o <;> rfl

theorem terminalBin_comm {L : TermOps T} {ok : T → Prop} (M : TerminalComm L ok) (op : Op)
    (hc : Op.comm op = true) (f g : MT T) (hf : f.All ok) (hg : g.All ok) :
    terminalBin L op g f = terminalBin L op f g := by
  cases op <;> simp only [Op.comm] at hc <;> (try cases hc)
  case add =>
    cases f <;> cases g <;> simp only [terminalBin, MT.termIs, Bool.false_eq_true, if_false,
      Bool.or_false, Bool.false_or]
    · rw [M.add_comm _ _ hg hf]
  case mul =>
    cases f <;> cases g <;> simp only [terminalBin, MT.termIs, Bool.false_eq_true, if_false,
      Bool.or_false, Bool.false_or]
    · rw [M.mul_comm _ _ hg hf]
  case min =>
    simp only [terminalBin]
    by_cases hfg : f = g
    · subst hfg; rfl
    · have hgf : ¬ g = f := fun h => hfg h.symm
      simp only [hfg, hgf, if_false]
      cases f <;> cases g <;> simp only [MT.termIs, Bool.false_eq_true, if_false,
        Bool.or_false, Bool.false_or]
      · exact congrArg Operation.done ((min_leaf_eq L _ _).trans
          ((congrArg MT.leaf (M.min_comm _ _ hg hf)).trans (min_leaf_eq L _ _).symm))
  case max =>
    simp only [terminalBin]
    by_cases hfg : f = g
    · subst hfg; rfl
    · have hgf : ¬ g = f := fun h => hfg h.symm
      simp only [hfg, hgf, if_false]
      cases f <;> cases g <;> simp only [MT.termIs, Bool.false_eq_true, if_false,
        Bool.or_false, Bool.false_or]
      · exact congrArg Operation.done ((max_leaf_eq L _ _).trans
          ((congrArg MT.leaf (M.max_comm _ _ hg hf)).trans (max_leaf_eq L _ _).symm))

/-- `apply_bin` of `Add/Mul/Min/Max` is commutative on all trees over admissible terminals, which
is why memoising under the normalised key is sound -/
theorem applyBin_comm {L : TermOps T} {ok : T → Prop} (M : TerminalComm L ok) (op : Op)
    (hc : Op.comm op = true) (n : Nat) : ∀ (f g : MT T), f.size + g.size ≤ n → f.All ok →
    g.All ok → applyBin L op f g = applyBin L op g f := by
  induction n with
  | zero => intro f g h; have := size_pos f; omega
  | succ n ih =>
    intro f g hn hf hg
    have htb := terminalBin_comm M op hc f g hf hg
    cases hT : terminalBin L op f g with
    | done r =>
      rw [applyBin_done hT, applyBin_done (htb.trans hT)]
    | binary =>
      obtain ⟨l, hl⟩ := terminalBin_binary_level hT
      have hl' : lmin (tlevel g) (tlevel f) = some l := by rw [lmin_comm]; exact hl
      rw [applyBin_binary hT hl, applyBin_binary (htb.trans hT) hl']
      have sz : (tcofT l f).size + (tcofT l g).size ≤ n ∧ (tcofE l f).size + (tcofE l g).size ≤ n := by
        have := tcofT_size_le l f; have := tcofT_size_le l g
        have := tcofE_size_le l f; have := tcofE_size_le l g
        rcases lmin_eq_some hl with h | h
        · have := tcofT_size_lt h; have := tcofE_size_lt h; omega
        · have := tcofT_size_lt h; have := tcofE_size_lt h; omega
      rw [ih _ _ sz.1 (tcofT_all l hf) (tcofT_all l hg),
        ih _ _ sz.2 (tcofE_all l hf) (tcofE_all l hg)]

/-! ## what a cache entry must mean -/

/-- the tree-level function an operator tag stands for (`none`: not a binary tag / wrong operand
count; `Ite` and `Restrict` entries are specified in `IteS.lean`) -/
def specOf (L : TermOps T) : OpTag → List (MT T) → Option (MT T)
  | .add, [a, b] => some (applyBin L .add a b)
  | .sub, [a, b] => some (applyBin L .sub a b)
  | .mul, [a, b] => some (applyBin L .mul a b)
  | .div, [a, b] => some (applyBin L .div a b)
  | .min, [a, b] => some (applyBin L .min a b)
  | .max, [a, b] => some (applyBin L .max a b)
  | .ite, [a, b, c] => some (applyIte L a b c)
  | .restrict, [a, b] => some (restrict L a b)
  | _, _ => none

theorem specOf_tagOf (L : TermOps T) (op : Op) (a b : MT T) :
    specOf L (tagOf op) [a, b] = some (applyBin L op a b) := by
  cases op <;> rfl

inductive DenotesL (s : Store T) : List Edge → List (MT T) → Prop
  | nil : DenotesL s [] []
  | cons : Denotes s e t → DenotesL s es ts → DenotesL s (e :: es) (t :: ts)

theorem DenotesL.functional {s : Store T} {es : List Edge} {ts ts' : List (MT T)}
    (h : DenotesL s es ts) (h' : DenotesL s es ts') : ts = ts' := by
  induction h generalizing ts' with
  | nil => cases h'; rfl
  | cons hd _ ih =>
    cases h' with
    | cons hd' htl' => rw [Denotes.functional hd hd', ih htl']

theorem DenotesL.mono {s s' : Store T} (hle : s.Le s') {es : List Edge} {ts : List (MT T)}
    (h : DenotesL s es ts) : DenotesL s' es ts := by
  induction h with
  | nil => exact .nil
  | cons hd _ ih => exact .cons (hd.mono hle) ih

theorem DenotesL.two {s : Store T} {e1 e2 : Edge} {t1 t2 : MT T} (h1 : Denotes s e1 t1)
    (h2 : Denotes s e2 t2) : DenotesL s [e1, e2] [t1, t2] := .cons h1 (.cons h2 .nil)
theorem DenotesL.three {s : Store T} {e1 e2 e3 : Edge} {t1 t2 t3 : MT T} (h1 : Denotes s e1 t1)
    (h2 : Denotes s e2 t2) (h3 : Denotes s e3 t3) : DenotesL s [e1, e2, e3] [t1, t2, t3] :=
  .cons h1 (.cons h2 (.cons h3 .nil))

/-- the entry `k ↦ r` is sound in store `s`: all operands denote trees and `r` denotes the result
of the tagged operator on them -/
def EntryOK (L : TermOps T) (s : Store T) (k : Key) (r : Edge) : Prop :=
  ∃ ts R, DenotesL s k.2 ts ∧ specOf L k.1 ts = some R ∧ Denotes s r R

def CacheOK (L : TermOps T) (s : Store T) (c : ACache) : Prop :=
  ∀ k r, (k, r) ∈ c → EntryOK L s k r

theorem EntryOK.mono {L : TermOps T} {s s' : Store T} {k : Key} {r : Edge} (h : EntryOK L s k r)
    (hle : s.Le s') : EntryOK L s' k r := by
  obtain ⟨ts, R, h1, h2, h3⟩ := h
  exact ⟨ts, R, h1.mono hle, h2, h3.mono hle⟩

theorem CacheOK.mono {L : TermOps T} {s s' : Store T} {c : ACache} (h : CacheOK L s c)
    (hle : s.Le s') : CacheOK L s' c :=
  fun k r hm => (h k r hm).mono hle

/-- what a hit means: the returned edge denotes the specified result for the queried operands -/
theorem EntryOK.hit {L : TermOps T} {s : Store T} {k : Key} {r : Edge} {ts : List (MT T)}
    {R : MT T} (h : EntryOK L s k r) (hd : DenotesL s k.2 ts) (hs : specOf L k.1 ts = some R) :
    Denotes s r R := by
  obtain ⟨ts', R', h1, h2, h3⟩ := h
  have := DenotesL.functional h1 hd
  subst this
  rw [hs] at h2; cases h2
  exact h3

theorem CacheOK.nil (L : TermOps T) (s : Store T) : CacheOK L s [] := fun _ _ h => by cases h

theorem CacheOK.sub {L : TermOps T} {s : Store T} {c c' : ACache} (h : CacheOK L s c)
    (hs : ∀ x, x ∈ c' → x ∈ c) : CacheOK L s c' := fun k r hm => h k r (hs _ hm)

theorem CacheOK.add {L : TermOps T} {p : APolicy} (pok : p.OK) {s : Store T} {c : ACache}
    (h : CacheOK L s c) {k : Key} {r : Edge} (he : EntryOK L s k r) (n : Nat) :
    CacheOK L s (p.add n c k r) := by
  intro k' r' hm
  rcases pok.add_sub n c k r _ hm with h' | h'
  · exact h k' r' h'
  · cases h'; exact he

/-! ## `terminal_bin` on edges refines `terminalBin` on trees -/

/-- correspondence of an edge-level and a tree-level `terminal_bin` result for operands `f ↦ a`,
`g ↦ b`, started in store `s` -/
def OpCorr (s : Store T) (tg : Op → OpTag) (op : Op) (f g : Edge) :
    Store T × OperationS → Operation T → Prop
  | (s', .done e), .done t =>
    (s' = s ∧ Denotes s e t) ∨ (∃ v, t = .leaf v ∧ (s', e) = s.getTerminal v)
  | (s', .binary tag o1 o2), .binary =>
    s' = s ∧ tag = tg op ∧ ((o1 = f ∧ o2 = g) ∨ (Op.comm op = true ∧ o1 = g ∧ o2 = f))
  | _, _ => False

theorem normKey_corr (s : Store T) (gt : Edge → Edge → Bool) (tg : Op → OpTag) (op : Op)
    (hc : Op.comm op = true) (f g : Edge) :
    OpCorr s tg op f g (s, normKey gt (tg op) f g) .binary := by
  unfold normKey; split <;> simp [OpCorr, hc]

theorem doneT_corr (s : Store T) (tg : Op → OpTag) (op : Op) (f g : Edge) (v : T) :
    OpCorr s tg op f g (doneT s v) (.done (.leaf v)) := .inr ⟨v, rfl, rfl⟩

theorem termVal_term {s : Store T} {i : Nat} {v : T} (h : s.getTerm? i = some v) :
    s.termVal? (.term i) = some v := h

theorem termIs_term {s : Store T} {i : Nat} {v : T} (h : s.getTerm? i = some v) (p : T → Bool) :
    s.termIs p (.term i) = p v := by simp [Store.termIs, Store.termVal?, h]

theorem termIs_inner (s : Store T) (i : Nat) (p : T → Bool) : s.termIs p (.inner i) = false := rfl

/-- **`terminal_bin` on edges refines `terminalBin` on trees** in every hash-consed store -/
theorem terminalBinS_corr (L : TermOps T) (gt : Edge → Edge → Bool) (tg : Op → OpTag) (op : Op)
    {s : Store T} (inj : s.Inj) {f g : Edge} {a b : MT T}
    (hf : Denotes s f a) (hg : Denotes s g b) :
    OpCorr s tg op f g (terminalBinS L gt tg op s f g) (terminalBin L op a b) := by
  have hfg : f = g ↔ a = b :=
    ⟨fun h => Denotes.functional hf (h ▸ hg), fun h => inj _ _ _ hf (h ▸ hg)⟩
  cases hf with
  | @term i x hi =>
    have hF : Denotes s (.term i) (.leaf x) := .term hi
    cases hg with
    | @term j y hj =>
      have hG : Denotes s (.term j) (.leaf y) := .term hj
      cases op <;> simp only [terminalBinS, terminalBin, termVal_term hi, termVal_term hj]
      case add => exact doneT_corr ..
      case sub => exact doneT_corr ..
      case mul => exact doneT_corr ..
      case div => exact doneT_corr ..
      case min =>
        by_cases h : Edge.term i = Edge.term j
        · simp only [h, hfg.mp h, if_true]; exact .inl ⟨rfl, hG⟩
        · have h' : ¬ (MT.leaf x = MT.leaf y) := fun e => h (hfg.mpr e)
          simp only [h, h', if_false]
          cases L.pcmp x y with
          | none => exact doneT_corr ..
          | some o => cases o <;> first | exact .inl ⟨rfl, hF⟩ | exact .inl ⟨rfl, hG⟩
      case max =>
        by_cases h : Edge.term i = Edge.term j
        · simp only [h, hfg.mp h, if_true]; exact .inl ⟨rfl, hG⟩
        · have h' : ¬ (MT.leaf x = MT.leaf y) := fun e => h (hfg.mpr e)
          simp only [h, h', if_false]
          cases L.pcmp x y with
          | none => exact doneT_corr ..
          | some o => cases o <;> first | exact .inl ⟨rfl, hF⟩ | exact .inl ⟨rfl, hG⟩
    | @inner j l t e tt te hj hgt hge =>
      have hG : Denotes s (.inner j) (.node l tt te) := .inner hj hgt hge
      have hne : ¬ (Edge.term i = Edge.inner j) := fun h => by cases h
      have hne' : ¬ (MT.leaf x = MT.node l tt te) := fun h => by cases h
      cases op <;> simp only [terminalBinS, terminalBin, Store.termVal?, hi,
        termIs_term hi, termIs_inner, MT.termIs, hne, hne', if_false, Bool.or_false,
        Bool.false_eq_true] <;> (repeat' split) <;>
        first
          | exact .inl ⟨rfl, hG⟩
          | exact doneT_corr ..
          | exact normKey_corr _ _ _ _ rfl _ _
          | simp [OpCorr]
  | @inner i l t e tt te hi hft hfe =>
    have hF : Denotes s (.inner i) (.node l tt te) := .inner hi hft hfe
    cases hg with
    | @term j y hj =>
      have hne : ¬ (Edge.inner i = Edge.term j) := fun h => by cases h
      have hne' : ¬ (MT.node l tt te = MT.leaf y) := fun h => by cases h
      cases op <;> simp only [terminalBinS, terminalBin, Store.termVal?, hj,
        termIs_term hj, termIs_inner, MT.termIs, hne, hne', if_false, Bool.false_or,
        Bool.false_eq_true] <;> (repeat' split) <;>
        first
          | exact .inl ⟨rfl, hF⟩
          | exact doneT_corr ..
          | exact normKey_corr _ _ _ _ rfl _ _
          | simp [OpCorr]
    | @inner j l' t' e' tt' te' hj hgt hge =>
      cases op <;> simp only [terminalBinS, terminalBin, Store.termVal?, termIs_inner,
        MT.termIs, Bool.false_eq_true, if_false, Bool.or_false]
      case add => exact normKey_corr _ _ _ _ rfl _ _
      case sub => simp [OpCorr]
      case mul => exact normKey_corr _ _ _ _ rfl _ _
      case div => simp [OpCorr]
      case min =>
        by_cases h : Edge.inner i = Edge.inner j
        · simp only [h, hfg.mp h, if_true]; exact .inl ⟨rfl, .inner hj hgt hge⟩
        · have h' : ¬ (MT.node l tt te = MT.node l' tt' te') := fun e => h (hfg.mpr e)
          simp only [h, h', if_false]; exact normKey_corr _ _ _ _ rfl _ _
      case max =>
        by_cases h : Edge.inner i = Edge.inner j
        · simp only [h, hfg.mp h, if_true]; exact .inl ⟨rfl, .inner hj hgt hge⟩
        · have h' : ¬ (MT.node l tt te = MT.node l' tt' te') := fun e => h (hfg.mpr e)
          simp only [h, h', if_false]; exact normKey_corr _ _ _ _ rfl _ _

/-- **each operator is memoised under the tag `tg` assigns to it**: whatever key
`terminal_bin::<OP>` hands to the apply cache carries the tag `tg op` and exactly the two operands
(possibly swapped, and only for `Add/Mul/Min/Max`) -/
theorem terminalBinS_tag (L : TermOps T) (gt : Edge → Edge → Bool) (tg : Op → OpTag) (op : Op)
    (s : Store T) (f g : Edge) (tag : OpTag) (o1 o2 : Edge)
    (h : (terminalBinS L gt tg op s f g).2 = .binary tag o1 o2) :
    tag = tg op ∧ ((o1 = f ∧ o2 = g) ∨ (Op.comm op = true ∧ o1 = g ∧ o2 = f)) := by
  cases op <;> simp only [terminalBinS, doneT, normKey] at h <;>
    (repeat' split at h) <;> (first | cases h | skip) <;> simp [Op.comm]

/-! ## the invariant and the postcondition -/

/-- the invariant: hash consing (nodes and terminals), admissible terminal values, sound cache -/
def Inv (L : TermOps T) (ok : T → Prop) (st : St T) : Prop :=
  st.store.Unique ∧ st.store.TermsOK ok ∧ CacheOK L st.store st.cache

theorem Inv.tickd {L : TermOps T} {ok : T → Prop} {st : St T} (h : Inv L ok st) :
    Inv L ok st.tickd := h

theorem level?_denotes {s : Store T} {f : Edge} {a : MT T} (h : Denotes s f a) :
    s.level? f = tlevel a := by
  cases h with
  | term _ => rfl
  | inner hi _ _ => simp [Store.level?, hi, tlevel]

theorem cofT_denotes {s : Store T} {f : Edge} {a : MT T} (l : Nat) (h : Denotes s f a) :
    Denotes s (s.cofT l f) (tcofT l a) := by
  cases h with
  | term hi => exact .term hi
  | @inner i l' t e tt te hi ht he =>
    simp only [Store.cofT, hi, tcofT]
    split
    · exact ht
    · exact .inner hi ht he

theorem cofE_denotes {s : Store T} {f : Edge} {a : MT T} (l : Nat) (h : Denotes s f a) :
    Denotes s (s.cofE l f) (tcofE l a) := by
  cases h with
  | term hi => exact .term hi
  | @inner i l' t e tt te hi ht he =>
    simp only [Store.cofE, hi, tcofE]
    split
    · exact he
    · exact .inner hi ht he

/-- what every operation guarantees when started in store `s` to compute the tree `R` -/
structure Post (L : TermOps T) (ok : T → Prop) (s : Store T) (R : MT T) (r : St T × Edge) :
    Prop where
  /-- hash consing, admissible terminals and cache soundness hold afterwards -/
  inv : Inv L ok r.1
  /-- the store is only extended -/
  le : s.Le r.1.store
  /-- the result edge denotes the specified tree -/
  den : Denotes r.1.store r.2 R
  /-- store and result are the canonical ones, whatever the cache did -/
  canon : s.NoRed → (r.1.store, r.2) = intern s R

theorem Post.done {L : TermOps T} {ok : T → Prop} {st : St T} {e : Edge} {R : MT T}
    (hinv : Inv L ok st) (hd : Denotes st.store e R) : Post L ok st.store R (st, e) where
  inv := hinv
  le := Store.Le.refl _
  den := hd
  canon hr := (intern_of_denotes hinv.1 hr hd).symm

theorem Post.nored {L : TermOps T} {ok : T → Prop} {s : Store T} {R : MT T} {r : St T × Edge}
    (h : Post L ok s R r) (hr : s.NoRed) : r.1.store.NoRed := by
  have := h.canon hr
  have h1 : r.1.store = (intern s R).1 := congrArg Prod.fst this
  rw [h1]; exact intern_nored s R hr

/-- the two recursive results are combined by `reduce` + cache add -/
theorem finishS_post {L : TermOps T} {ok : T → Prop} {p : APolicy} (pok : p.OK) {s : Store T}
    {R1 R0 : St T × Edge} {T1 T0 : MT T}
    (h1 : Post L ok s T1 R1) (h0 : Post L ok R1.1.store T0 R0) (key : Key) (l : Nat)
    (hkey : ∃ ts, DenotesL s key.2 ts ∧ specOf L key.1 ts = some (mk l T1 T0)) :
    Post L ok s (mk l T1 T0) (finishS p R0.1 key l R1.2 R0.2) := by
  have inj0 := inj_of_unique h0.inv.1
  have denm := mkNode_denotes R0.1.store l R1.2 R0.2 T1 T0 (h1.den.mono h0.le) h0.den inj0
  have lem := mkNode_le R0.1.store l R1.2 R0.2
  have hle : s.Le (R0.1.store.mkNode l R1.2 R0.2).1 := h1.le.trans (h0.le.trans lem)
  refine ⟨⟨mkNode_unique _ _ _ _ h0.inv.1, mkNode_termsOK _ _ _ _ h0.inv.2.1, ?_⟩, hle, denm, ?_⟩
  · obtain ⟨ts, hd, hs⟩ := hkey
    exact CacheOK.add pok (h0.inv.2.2.mono lem) ⟨ts, _, hd.mono hle, hs, denm⟩ _
  · intro hr
    have c1 := h1.canon hr
    have hr1 := h1.nored hr
    have c0 := h0.canon hr1
    show ((R0.1.store.mkNode l R1.2 R0.2).1, (R0.1.store.mkNode l R1.2 R0.2).2)
      = intern s (mk l T1 T0)
    have e1s : R1.1.store = (intern s T1).1 := congrArg Prod.fst c1
    have e1e : R1.2 = (intern s T1).2 := congrArg Prod.snd c1
    have e0s : R0.1.store = (intern R1.1.store T0).1 := congrArg Prod.fst c0
    have e0e : R0.2 = (intern R1.1.store T0).2 := congrArg Prod.snd c0
    unfold mk
    by_cases hT : T1 = T0
    · subst hT
      simp only [if_true]
      have hi := intern_of_denotes h1.inv.1 hr1 h1.den
      rw [hi] at e0s e0e
      simp only at e0s e0e
      rw [e0s, e0e]
      simp only [Store.mkNode, if_true]
      rw [← c1]
    · simp only [hT, if_false, intern]
      rw [← e1s, ← e1e, ← e0s, ← e0e]

/-! ## `apply_bin::<OP>` -/

/-- **`apply_bin::<OP>` with the apply cache refines `applyBin L op`**: for every admissible cache
policy, every edge order, every operator, from every state satisfying the invariant. -/
theorem applyS_spec {L : TermOps T} {ok : T → Prop} (C : TerminalClosed L ok)
    (M : TerminalComm L ok) (gt : Edge → Edge → Bool) {p : APolicy} (pok : p.OK) (op : Op)
    (fuel : Nat) : ∀ (st : St T) (f g : Edge) (a b : MT T),
    Inv L ok st → Denotes st.store f a → Denotes st.store g b → a.size + b.size ≤ fuel →
    Post L ok st.store (applyBin L op a b) (applyS L gt tagOf p op fuel st f g) := by
  induction fuel with
  | zero =>
    intro st f g a b _ _ _ hsz
    have := size_pos a
    omega
  | succ fuel ih =>
    intro st f g a b hinv hf hg hsz
    have hinj := inj_of_unique hinv.1
    have hc := terminalBinS_corr L gt tagOf op hinj hf hg
    have aok := hf.all hinv.2.1
    have bok := hg.all hinv.2.1
    simp only [applyS]
    generalize hS : terminalBinS L gt tagOf op st.store f g = tb at hc
    obtain ⟨s', os⟩ := tb
    cases os with
    | done e =>
      cases hT : terminalBin L op a b with
      | binary => rw [hT] at hc; exact hc.elim
      | done t =>
        rw [hT] at hc
        rw [applyBin_done hT]
        rcases hc with ⟨rfl, hd⟩ | ⟨v, rfl, hgt⟩
        · exact Post.done (st := st) hinv hd
        · have hs' : s' = (st.store.getTerminal v).1 := congrArg Prod.fst hgt
          have he : e = (st.store.getTerminal v).2 := congrArg Prod.snd hgt
          have vok : ok v := by
            have := applyBin_all C op a b aok bok
            rw [applyBin_done hT] at this; exact this
          subst hs' he
          exact ⟨⟨getTerminal_unique _ _ hinv.1, getTerminal_termsOK _ _ hinv.2.1 vok,
            hinv.2.2.mono (getTerminal_le _ _)⟩, getTerminal_le _ _, getTerminal_denotes _ _,
            fun _ => rfl⟩
    | binary tag o1 o2 =>
      cases hT : terminalBin L op a b with
      | done t => rw [hT] at hc; exact hc.elim
      | binary =>
        rw [hT] at hc
        obtain ⟨rfl, htag, hkey⟩ := hc
        subst htag
        -- the key denotes the operands, in one or the other order
        have hkd : ∃ ts, DenotesL st.store [o1, o2] ts ∧
            specOf L (tagOf op) ts = some (applyBin L op a b) := by
          rcases hkey with ⟨h1, h2⟩ | ⟨hcm, h1, h2⟩
          · subst h1 h2; exact ⟨_, DenotesL.two hf hg, specOf_tagOf L op a b⟩
          · subst h1 h2
            exact ⟨_, DenotesL.two hg hf, by
              rw [specOf_tagOf, applyBin_comm M op hcm _ b a (Nat.le_refl _) bok aok]⟩
        simp only
        split
        · -- cache hit
          rename_i r hr
          have hent := hinv.2.2 _ _ (pok.get_mem _ _ _ _ hr)
          obtain ⟨ts, hd, hs⟩ := hkd
          exact Post.done (st := st.tickd) hinv.tickd (hent.hit hd hs)
        · -- cache miss: at least one operand is an inner node
          obtain ⟨l, hl⟩ := terminalBin_binary_level hT
          rw [level?_denotes hf, level?_denotes hg, hl]
          simp only
          have sz : (tcofT l a).size + (tcofT l b).size ≤ fuel ∧
              (tcofE l a).size + (tcofE l b).size ≤ fuel := by
            have := tcofT_size_le l a; have := tcofT_size_le l b
            have := tcofE_size_le l a; have := tcofE_size_le l b
            rcases lmin_eq_some hl with h | h
            · have := tcofT_size_lt h; have := tcofE_size_lt h; omega
            · have := tcofT_size_lt h; have := tcofE_size_lt h; omega
          have p1 := ih st.tickd _ _ _ _ hinv.tickd (cofT_denotes l hf) (cofT_denotes l hg) sz.1
          have p0 := ih _ _ _ _ _ p1.inv ((cofE_denotes l hf).mono p1.le)
            ((cofE_denotes l hg).mono p1.le) sz.2
          obtain ⟨ts, hd, hs⟩ := hkd
          rw [applyBin_binary hT hl] at hs ⊢
          exact finishS_post pok p1 p0 (tagOf op, [o1, o2]) l ⟨ts, hd, hs⟩

end OxiddModel.Mtbdd.Refine
