import OxiddModel.Mtbdd.Lemmas2
/-!
# C10 / C01 — canonicity of MTBDDs (tree level)

Two diagrams in normal form (ordered, no node with equal children) that denote the same function
`(Nat → Bool) → T` are the same tree.  Nothing is assumed about the terminal type (equality of
values is what it is; `DecidableEq` is not needed).  Mirrors `OxiddModel/Bdd/Canon.lean`.
-/
namespace OxiddModel.Mtbdd
variable {T : Type}

/-- `σ` with variable `v` set to `b` -/
def upd (σ : Nat → Bool) (v : Nat) (b : Bool) : Nat → Bool := fun w => if w = v then b else σ w

theorem upd_self (σ : Nat → Bool) (v : Nat) (b : Bool) : upd σ v b v = b := by simp [upd]

theorem upd_ne (σ : Nat → Bool) {v w : Nat} (b : Bool) (h : w ≠ v) : upd σ v b w = σ w := by
  simp [upd, h]

/-- a diagram below level `v` does not notice an update of `v` -/
theorem eval_upd_below {v : Nat} {a : MT T} (oa : Ordered a) (ba : lbound (v + 1) a) (b : Bool)
    (σ : Nat → Bool) : a.eval (upd σ v b) = a.eval σ :=
  eval_congr_lbound a (v + 1) (upd σ v b) σ oa ba (fun w hw => upd_ne σ b (by omega))

theorem eval_node_upd_true {v : Nat} {t e : MT T} (ot : Ordered t) (bt : lbound (v + 1) t)
    (σ : Nat → Bool) : (MT.node v t e).eval (upd σ v true) = t.eval σ := by
  simp only [MT.eval, upd_self, if_true]
  exact eval_upd_below ot bt true σ

theorem eval_node_upd_false {v : Nat} {t e : MT T} (oe : Ordered e) (be : lbound (v + 1) e)
    (σ : Nat → Bool) : (MT.node v t e).eval (upd σ v false) = e.eval σ := by
  simp only [MT.eval, upd_self, Bool.false_eq_true, if_false]
  exact eval_upd_below oe be false σ

/-- **Canonicity.** -/
theorem canon (a b : MT T) (ha : NF a) (hb : NF b) (h : ∀ σ, a.eval σ = b.eval σ) : a = b := by
  match a, b with
  | .leaf x, .leaf y =>
    have := h (fun _ => false); simp only [MT.eval] at this; rw [this]
  | .leaf x, .node w t' e' =>
    exfalso
    obtain ⟨nt, ne, bt, be⟩ := hb.node_inv
    have h1 : MT.leaf x = t' := canon (.leaf x) t' (nf_leaf x) nt (fun σ => by
      rw [← eval_node_upd_true (e := e') nt.1 bt σ, ← h]; rfl)
    have h2 : MT.leaf x = e' := canon (.leaf x) e' (nf_leaf x) ne (fun σ => by
      rw [← eval_node_upd_false (t := t') ne.1 be σ, ← h]; rfl)
    exact hb.2.1 (h1 ▸ h2 ▸ rfl)
  | .node v t e, .leaf y =>
    exfalso
    obtain ⟨nt, ne, bt, be⟩ := ha.node_inv
    have h1 : t = MT.leaf y := canon t (.leaf y) nt (nf_leaf y) (fun σ => by
      rw [← eval_node_upd_true (e := e) nt.1 bt σ, h]; rfl)
    have h2 : e = MT.leaf y := canon e (.leaf y) ne (nf_leaf y) (fun σ => by
      rw [← eval_node_upd_false (t := t) ne.1 be σ, h]; rfl)
    exact ha.2.1 (h1 ▸ h2 ▸ rfl)
  | .node v t e, .node w t' e' =>
    obtain ⟨nt, ne, bt, be⟩ := ha.node_inv
    obtain ⟨nt', ne', bt', be'⟩ := hb.node_inv
    rcases Nat.lt_trichotomy v w with hlt | heq | hgt
    · exfalso
      have bb : lbound (v + 1) (MT.node w t' e') := by simp only [lbound]; omega
      have h1 : t = .node w t' e' := canon t _ nt hb (fun σ => by
        rw [← eval_node_upd_true (e := e) nt.1 bt σ, h, eval_upd_below hb.1 bb])
      have h2 : e = .node w t' e' := canon e _ ne hb (fun σ => by
        rw [← eval_node_upd_false (t := t) ne.1 be σ, h, eval_upd_below hb.1 bb])
      exact ha.2.1 (h1 ▸ h2 ▸ rfl)
    · subst heq
      have h1 : t = t' := canon t t' nt nt' (fun σ => by
        rw [← eval_node_upd_true (e := e) nt.1 bt σ, h, eval_node_upd_true nt'.1 bt'])
      have h2 : e = e' := canon e e' ne ne' (fun σ => by
        rw [← eval_node_upd_false (t := t) ne.1 be σ, h, eval_node_upd_false ne'.1 be'])
      rw [h1, h2]
    · exfalso
      have ba : lbound (w + 1) (MT.node v t e) := by simp only [lbound]; omega
      have h1 : .node v t e = t' := canon _ t' ha nt' (fun σ => by
        rw [← eval_node_upd_true (e := e') nt'.1 bt' σ, ← h, eval_upd_below ha.1 ba])
      have h2 : .node v t e = e' := canon _ e' ha ne' (fun σ => by
        rw [← eval_node_upd_false (t := t') ne'.1 be' σ, ← h, eval_upd_below ha.1 ba])
      exact hb.2.1 (h1 ▸ h2 ▸ rfl)
termination_by a.size + b.size
decreasing_by all_goals simp_wf <;> simp [MT.size] <;> omega

/-- normal-form diagrams are equal iff they denote the same function -/
theorem nf_eq_iff (a b : MT T) (ha : NF a) (hb : NF b) :
    a = b ↔ ∀ σ, a.eval σ = b.eval σ :=
  ⟨fun h _ => h ▸ rfl, canon a b ha hb⟩

end OxiddModel.Mtbdd
