import OxiddModel.Mtbdd.ApplyS
import OxiddModel.Mtbdd.LemmasI64

/-!
# `I64` satisfies `TerminalComm`: add, mul, min, max are commutative on all `i64` payloads
-/
namespace OxiddModel.Mtbdd
open Refine

theorem I64.add_comm' (x y : I64) (hx : x.Valid) (hy : y.Valid) : I64.add x y = I64.add y x := by
  cases x <;> cases y <;> try rfl
  rename_i a b
  simp only [I64.Valid, inRange, I64_MIN, I64_MAX] at hx hy
  simp only [I64.add, I64.checkedAdd, Int.add_comm b a]
  by_cases h : inRange (a + b)
  · simp [h]
  · simp only [h, if_false]
    simp only [inRange, I64_MIN, I64_MAX] at h
    split <;> split <;> first | rfl | omega

theorem I64.mul_comm' (x y : I64) : I64.mul x y = I64.mul y x := by
  cases x <;> cases y <;> try rfl
  all_goals simp only [I64.mul, I64.signum, I64.checkedMul, Int.mul_comm]
  rename_i a b
  have : (0 < a ∧ 0 < b ∨ a < 0 ∧ b < 0) ↔ (0 < b ∧ 0 < a ∨ b < 0 ∧ a < 0) := by omega
  simp only [this]

theorem I64.partialCmp_swap (x y : I64) :
    I64.partialCmp y x = (I64.partialCmp x y).map Ordering.swap := by
  cases x <;> cases y <;> try rfl
  rename_i a b
  simp only [I64.partialCmp, Option.map, Int.compare_swap]

theorem i64_min_comm (x y : I64) : i64Ops.min x y = i64Ops.min y x := by
  have hs := I64.partialCmp_swap x y
  have he := I64.partialCmp_eq_iff x y
  simp only [TermOps.min, i64Ops] at *
  rw [hs]
  rcases h : I64.partialCmp x y with _ | (_ | _ | _) <;> simp [Ordering.swap]
  exact he.mp h

theorem i64_max_comm (x y : I64) : i64Ops.max x y = i64Ops.max y x := by
  have hs := I64.partialCmp_swap x y
  have he := I64.partialCmp_eq_iff x y
  simp only [TermOps.max, i64Ops] at *
  rw [hs]
  rcases h : I64.partialCmp x y with _ | (_ | _ | _) <;> simp [Ordering.swap]
  exact he.mp h

/-- `Add`, `Mul`, `Min`, `Max` on `I64` are commutative on all values whose payload is an `i64` -/
theorem i64_terminalComm : TerminalComm i64Ops I64.Valid where
  add_comm x y hx hy := I64.add_comm' x y hx hy
  mul_comm x y _ _ := I64.mul_comm' x y
  min_comm x y _ _ := i64_min_comm x y
  max_comm x y _ _ := i64_max_comm x y

end OxiddModel.Mtbdd
