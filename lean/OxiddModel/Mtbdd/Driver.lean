import OxiddModel.Util.Proto
import OxiddModel.Mtbdd.Model
import OxiddModel.Mtbdd.F64
import Std.Data.HashMap
/-!
# C10 — line-protocol driver `mtbdd`

Scalar lines
```
i64 add|sub|mul|div a b      -> <terminal>          (a, b ∈ nan | -inf | +inf | <int in i64 range>)
i64 cmp a b                  -> lt | eq | gt | none
f64 add|sub|mul|div a b      -> <16 hex digits>     (a, b: bit patterns, normalised on input)
f64 cmp a b                  -> lt | eq | gt | none
```
Diagram lines (after `mgr <nvars> [f64]`, which answers `ok`)
```
const h <terminal> | var h <v> | op h add|sub|mul|div|min|max h1 h2
ite h c t e | restrict h f cube          -> the unfolded tree of h, or `err precond`
eval h <bits>                            -> <terminal>  (bit i of <bits> is the value of variable i)
```
Trees: `(v<k> <then> <else>)`, terminals `#<int> | #+inf | #-inf | #nan | #f<16 hex digits>`.
-/
namespace OxiddModel.Mtbdd

/-- how terminals are read and printed -/
structure Kit (T : Type) where
  ops : TermOps T
  parse : String → Option T
  tok : T → String

def i64Parse (s : String) : Option I64 :=
  if s = "nan" then some .nan
  else if s = "-inf" then some .ninf
  else if s = "+inf" then some .pinf
  else if s.startsWith "+" then none
  else match s.toInt? with
    | some n => if inRange n then some (.num n) else none
    | none => none

def i64Tok : I64 → String
  | .nan => "nan"
  | .ninf => "-inf"
  | .pinf => "+inf"
  | .num n => toString n

def hexVal (c : Char) : Option Nat :=
  if '0' ≤ c ∧ c ≤ '9' then some (c.toNat - '0'.toNat)
  else if 'a' ≤ c ∧ c ≤ 'f' then some (c.toNat - 'a'.toNat + 10)
  else none

/-- exactly 16 lower-case hex digits -/
def hexParse (s : String) : Option UInt64 :=
  let cs := s.toList
  if cs.length ≠ 16 then none
  else
    (cs.foldl (fun acc c => match acc, hexVal c with
      | some a, some d => some (a * 16 + d)
      | _, _ => none) (some 0)).map UInt64.ofNat

def hexTok (b : UInt64) : String :=
  let ds := Nat.toDigits 16 b.toNat
  String.ofList (List.replicate (16 - ds.length) '0' ++ ds)

def i64Kit : Kit I64 := { ops := i64Ops, parse := i64Parse, tok := i64Tok }
def f64Kit : Kit UInt64 :=
  { ops := f64Ops, parse := fun s => (hexParse s).map F64.ofBits, tok := fun b => "f" ++ hexTok b }

def cmpTok : Option Ordering → String
  | some .lt => "lt"
  | some .eq => "eq"
  | some .gt => "gt"
  | none => "none"

def opOfString : String → Option Op
  | "add" => some .add
  | "sub" => some .sub
  | "mul" => some .mul
  | "div" => some .div
  | "min" => some .min
  | "max" => some .max
  | _ => none

def showTree {T : Type} (tok : T → String) : MT T → String
  | .leaf t => "#" ++ tok t
  | .node l t e => "(v" ++ toString l ++ " " ++ showTree tok t ++ " " ++ showTree tok e ++ ")"

/-- `01…` → assignment (variable `i` is character `i`) -/
def bitsParse (n : Nat) (s : String) : Option (Nat → Bool) :=
  let cs := s.toList
  if cs.length ≠ n ∨ cs.any (fun c => c ≠ '0' ∧ c ≠ '1') then none
  else some (fun i => cs.getD i '0' = '1')

/-- one diagram-level line on a manager with `n` variables and handle table `hs` -/
def stepMgr {T : Type} [DecidableEq T] (K : Kit T) (n : Nat) (hs : Std.HashMap String (MT T))
    (ws : List String) : Std.HashMap String (MT T) × String :=
  -- rebinding a handle replaces it
  let bind (h : String) (t : MT T) := (hs.insert h t, showTree K.tok t)
  match ws with
  | ["const", h, v] =>
    match K.parse v with
    | some t => bind h (constant t)
    | none => (hs, "bad-op")
  | ["var", h, v] =>
    match v.toNat? with
    | some v => if v < n then bind h (var K.ops v) else (hs, "err range")
    | none => (hs, "bad-op")
  | ["op", h, o, a, b] =>
    match opOfString o with
    | none => (hs, "bad-op")
    | some o =>
      match hs[a]?, hs[b]? with
      | some f, some g => bind h (applyBin K.ops o f g)
      | _, _ => (hs, "err handle")
  | ["ite", h, c, a, b] =>
    match hs[c]?, hs[a]?, hs[b]? with
    | some fc, some fa, some fb =>
      if zeroOneB K.ops fc then bind h (applyIte K.ops fc fa fb) else (hs, "err precond")
    | _, _, _ => (hs, "err handle")
  | ["restrict", h, a, c] =>
    match hs[a]?, hs[c]? with
    | some f, some vars =>
      match cubeLits K.ops vars with
      | some _ => bind h (restrict K.ops f vars)
      | none => (hs, "err precond")
    | _, _ => (hs, "err handle")
  | ["eval", h, bits] =>
    match hs[h]? with
    | some f =>
      match bitsParse n bits with
      | some σ => (hs, K.tok (f.eval σ))
      | none => (hs, "bad-op")
    | none => (hs, "err handle")
  | _ => (hs, "bad-op")

inductive St where
  | none
  | i (n : Nat) (hs : Std.HashMap String (MT I64))
  | f (n : Nat) (hs : Std.HashMap String (MT UInt64))

def scalarI64 (o : String) (a b : I64) : String :=
  match o with
  | "add" => i64Tok (I64.add a b)
  | "sub" => i64Tok (I64.sub a b)
  | "mul" => i64Tok (I64.mul a b)
  | "div" => i64Tok (I64.div a b)
  | "cmp" => cmpTok (I64.partialCmp a b)
  | _ => "bad-op"

def scalarF64 (o : String) (a b : UInt64) : String :=
  match o with
  | "add" => hexTok (F64.add a b)
  | "sub" => hexTok (F64.sub a b)
  | "mul" => hexTok (F64.mul a b)
  | "div" => hexTok (F64.div a b)
  | "cmp" => cmpTok (F64.partialCmp a b)
  | _ => "bad-op"

def step (s : St) (line : String) : St × String :=
  match words line with
  | ["i64", o, a, b] =>
    match i64Parse a, i64Parse b with
    | some a, some b => (s, scalarI64 o a b)
    | _, _ => (s, "bad-op")
  | ["f64", o, a, b] =>
    match hexParse a, hexParse b with
    | some a, some b => (s, scalarF64 o (F64.ofBits a) (F64.ofBits b))
    | _, _ => (s, "bad-op")
  | ["mgr", n] =>
    match n.toNat? with
    | some n => (.i n {}, "ok")
    | none => (s, "bad-op")
  | ["mgr", n, "f64"] =>
    match n.toNat? with
    | some n => (.f n {}, "ok")
    | none => (s, "bad-op")
  | ws =>
    match s with
    | .none => (s, if ws.head? ∈ [some "const", some "var", some "op", some "ite", some "restrict",
        some "eval"] then "err nomgr" else "bad-op")
    | .i n hs => let (hs', o) := stepMgr i64Kit n hs ws; (.i n hs', o)
    | .f n hs => let (hs', o) := stepMgr f64Kit n hs ws; (.f n hs', o)

def proto : Proto := { σ := St, init := .none, step := step }

end OxiddModel.Mtbdd
