import OxiddModel.Util.Proto
import OxiddModel.Mtbdd.Model
import OxiddModel.Mtbdd.F64
import Std.Data.HashMap
import OxiddModel.Reorder.Model
/-!
# C10 — line-protocol driver `mtbdd`

Scalar lines
```
i64 add|sub|mul|div a b      -> <terminal>          (a, b ∈ nan | -inf | +inf | <int in i64 range>)
i64 cmp a b                  -> lt | eq | gt | none
f64 add|sub|mul|div a b      -> <16 hex digits>     (a, b: bit patterns, normalised on input)
f64 cmp a b                  -> lt | eq | gt | none
```
Diagram lines (after `mgr <nvars> [f64]`, which answers `ok`)
```
const h <terminal> | var h <v> | op h add|sub|mul|div|min|max h1 h2
ite h c t e | restrict h f cube          -> the unfolded tree of h, or `err precond`
eval h <bits>                            -> <terminal>  (bit i of <bits> is the value of variable i)
clone h a | drop a | dropall             -> ok
eq a b                                   -> 1 | 0          (handle equality)
gc                                       -> <inner nodes> <terminals> stored after the collection
rcchk                                    -> ok             (reference-count oracle, harness side)
order v… [seq=1]                         -> the new level→variable list (`set_var_order[_seq]`)
```
`mgr <nvars> [f64] [inner=<k> terms=<k>]`: the capacities select the capped manager of the C14
cases in the harness (which prints the output of an uncapped reference manager); the model
ignores them.
Trees: `(v<k> <then> <else>)`, terminals `#<int> | #+inf | #-inf | #nan | #f<16 hex digits>`.
-/
namespace OxiddModel.Mtbdd

/-- how terminals are read and printed -/
structure Kit (T : Type) where
  ops : TermOps T
  parse : String → Option T
  tok : T → String

def i64Parse (s : String) : Option I64 :=
  if s = "nan" then some .nan
  else if s = "-inf" then some .ninf
  else if s = "+inf" then some .pinf
  else if s.startsWith "+" then none
  else match s.toInt? with
    | some n => if inRange n then some (.num n) else none
    | none => none

def i64Tok : I64 → String
  | .nan => "nan"
  | .ninf => "-inf"
  | .pinf => "+inf"
  | .num n => toString n

def hexVal (c : Char) : Option Nat :=
  if '0' ≤ c ∧ c ≤ '9' then some (c.toNat - '0'.toNat)
  else if 'a' ≤ c ∧ c ≤ 'f' then some (c.toNat - 'a'.toNat + 10)
  else none

/-- exactly 16 lower-case hex digits -/
def hexParse (s : String) : Option UInt64 :=
  let cs := s.toList
  if cs.length ≠ 16 then none
  else
    (cs.foldl (fun acc c => match acc, hexVal c with
      | some a, some d => some (a * 16 + d)
      | _, _ => none) (some 0)).map UInt64.ofNat

def hexTok (b : UInt64) : String :=
  let ds := Nat.toDigits 16 b.toNat
  String.ofList (List.replicate (16 - ds.length) '0' ++ ds)

def i64Kit : Kit I64 := { ops := i64Ops, parse := i64Parse, tok := i64Tok }
def f64Kit : Kit UInt64 :=
  { ops := f64Ops, parse := fun s => (hexParse s).map F64.ofBits, tok := fun b => "f" ++ hexTok b }

def cmpTok : Option Ordering → String
  | some .lt => "lt"
  | some .eq => "eq"
  | some .gt => "gt"
  | none => "none"

def opOfString : String → Option Op
  | "add" => some .add
  | "sub" => some .sub
  | "mul" => some .mul
  | "div" => some .div
  | "min" => some .min
  | "max" => some .max
  | _ => none

/-- trees are kept in *levels*; they are printed with variable numbers -/
def showTree {T : Type} (tok : T → String) (l2v : Array Nat) : MT T → String
  | .leaf t => "#" ++ tok t
  | .node l t e =>
    "(v" ++ toString (l2v.getD l l) ++ " " ++ showTree tok l2v t ++ " " ++ showTree tok l2v e ++ ")"

/-- `01…` → assignment of the *variables* (variable `i` is character `i`) -/
def bitsParse (n : Nat) (s : String) : Option (Nat → Bool) :=
  let cs := s.toList
  if cs.length ≠ n ∨ cs.any (fun c => c ≠ '0' ∧ c ≠ '1') then none
  else some (fun i => cs.getD i '0' = '1')

/-- the manager as far as the tree level sees it: variable order and the live handles -/
structure MS (T : Type) where
  n : Nat
  l2v : Array Nat
  v2l : Array Nat
  hs : Std.HashMap String (MT T)

/-- distinct sub-diagrams (inner nodes and terminals) reachable from `t`, added to `acc` -/
def subtrees {T : Type} [DecidableEq T] : MT T → List (MT T) → List (MT T)
  | .leaf x, acc => if acc.contains (.leaf x) then acc else .leaf x :: acc
  | .node l t e, acc =>
    if acc.contains (.node l t e) then acc
    else .node l t e :: subtrees e (subtrees t acc)

def isLeaf {T : Type} : MT T → Bool
  | .leaf _ => true
  | .node _ _ _ => false

/-- rebuild a tree for a new variable order through the model's own `applyIte`/`mk`: `old` maps old
levels to variables, `v2l` is the new variable→level map -/
def reorderTree {T : Type} [DecidableEq T] (L : TermOps T) (v2l old : Array Nat) : MT T → MT T
  | .leaf x => .leaf x
  | .node l t e =>
    applyIte L (var L (v2l.getD (old.getD l l) 0)) (reorderTree L v2l old t) (reorderTree L v2l old e)

/-- one diagram-level line -/
def stepMgr {T : Type} [DecidableEq T] (K : Kit T) (s : MS T) (ws : List String) : MS T × String :=
  let hs := s.hs
  -- rebinding a handle replaces it
  let bind (h : String) (t : MT T) := ({ s with hs := hs.insert h t }, showTree K.tok s.l2v t)
  match ws with
  | ["const", h, v] =>
    match K.parse v with
    | some t => bind h (constant t)
    | none => (s, "bad-op")
  | ["var", h, v] =>
    match v.toNat? with
    | some v => if v < s.n then bind h (var K.ops (s.v2l.getD v v)) else (s, "err range")
    | none => (s, "bad-op")
  | ["op", h, o, a, b] =>
    match opOfString o with
    | none => (s, "bad-op")
    | some o =>
      match hs[a]?, hs[b]? with
      | some f, some g => bind h (applyBin K.ops o f g)
      | _, _ => (s, "err handle")
  | ["ite", h, c, a, b] =>
    match hs[c]?, hs[a]?, hs[b]? with
    | some fc, some fa, some fb =>
      if zeroOneB K.ops fc then bind h (applyIte K.ops fc fa fb) else (s, "err precond")
    | _, _, _ => (s, "err handle")
  | ["restrict", h, a, c] =>
    match hs[a]?, hs[c]? with
    | some f, some vars =>
      match cubeLits K.ops vars with
      | some _ => bind h (restrict K.ops f vars)
      | none => (s, "err precond")
    | _, _ => (s, "err handle")
  | ["eval", h, bits] =>
    match hs[h]? with
    | some f =>
      match bitsParse s.n bits with
      | some σ => (s, K.tok (f.eval (fun l => σ (s.l2v.getD l l))))
      | none => (s, "bad-op")
    | none => (s, "err handle")
  | ["clone", h, a] =>
    match hs[a]? with
    | some f => ({ s with hs := hs.insert h f }, "ok")
    | none => (s, "err handle")
  | ["drop", a] =>
    if hs.contains a then ({ s with hs := hs.erase a }, "ok") else (s, "err handle")
  | ["dropall"] => ({ s with hs := {} }, "ok")
  | ["eq", a, b] =>
    match hs[a]?, hs[b]? with
    | some f, some g => (s, boolStr (decide (f = g)))
    | _, _ => (s, "err handle")
  | ["gc"] =>
    -- after a collection exactly the nodes and terminals reachable from live handles remain
    let all := hs.fold (fun acc _ t => subtrees t acc) []
    let terms := (all.filter isLeaf).length
    (s, s!"{all.length - terms} {terms}")
  | ["rcchk"] => (s, "ok")
  | "order" :: rest =>
    -- `seq=1` selects `set_var_order_seq` in the harness; same result
    match (rest.filter (fun w => !w.contains '=')).mapM String.toNat? with
    | none => (s, "bad-op")
    | some order =>
      if order.all (· < s.n) && order.eraseDups.length = order.length then
        let l2v := if order.length ≤ 1 then s.l2v else Reorder.newL2v s.l2v s.v2l order
        let v2l := Id.run do
          let mut a := Array.replicate s.n 0
          for l in [0 : s.n] do
            a := a.set! (l2v.getD l 0) l
          return a
        let hs' := hs.fold (fun acc k t => acc.insert k (reorderTree K.ops v2l s.l2v t))
          ({} : Std.HashMap String (MT T))
        ({ s with l2v := l2v, v2l := v2l, hs := hs' }, joinSp (l2v.toList.map toString))
      else (s, "bad-op")
  | _ => (s, "bad-op")

inductive St where
  | none
  | i (s : MS I64)
  | f (s : MS UInt64)

def scalarI64 (o : String) (a b : I64) : String :=
  match o with
  | "add" => i64Tok (I64.add a b)
  | "sub" => i64Tok (I64.sub a b)
  | "mul" => i64Tok (I64.mul a b)
  | "div" => i64Tok (I64.div a b)
  | "cmp" => cmpTok (I64.partialCmp a b)
  | _ => "bad-op"

def scalarF64 (o : String) (a b : UInt64) : String :=
  match o with
  | "add" => hexTok (F64.add a b)
  | "sub" => hexTok (F64.sub a b)
  | "mul" => hexTok (F64.mul a b)
  | "div" => hexTok (F64.div a b)
  | "cmp" => cmpTok (F64.partialCmp a b)
  | _ => "bad-op"

def diagramOps : List String :=
  ["const", "var", "op", "ite", "restrict", "eval", "clone", "drop", "dropall", "eq", "gc", "rcchk",
    "order"]

def step (s : St) (line : String) : St × String :=
  match words line with
  | ["i64", o, a, b] =>
    match i64Parse a, i64Parse b with
    | some a, some b => (s, scalarI64 o a b)
    | _, _ => (s, "bad-op")
  | ["f64", o, a, b] =>
    match hexParse a, hexParse b with
    | some a, some b => (s, scalarF64 o (F64.ofBits a) (F64.ofBits b))
    | _, _ => (s, "bad-op")
  | "mgr" :: n :: rest =>
    -- `inner=<k> terms=<k>` (capacities of the capped manager, C14) do not concern the model
    let opts := rest.filter (fun w => !w.contains '=')
    match n.toNat?, opts with
    | some n, [] => (.i { n := n, l2v := Array.range n, v2l := Array.range n, hs := {} }, "ok")
    | some n, ["f64"] => (.f { n := n, l2v := Array.range n, v2l := Array.range n, hs := {} }, "ok")
    | _, _ => (s, "bad-op")
  | ws =>
    match s with
    | .none => (s, if (ws.head?.map diagramOps.contains).getD false then "err nomgr" else "bad-op")
    | .i m => let (m', o) := stepMgr i64Kit m ws; (.i m', o)
    | .f m => let (m', o) := stepMgr f64Kit m ws; (.f m', o)

def proto : Proto := { σ := St, init := .none, step := step }

end OxiddModel.Mtbdd
