import OxiddModel.Util.Proto
import OxiddModel.Num.Ieee

/-!
# Driver of the protocol `f64arith` (C10, float terminals)

Runs the exact binary64 model `Num/Ieee.lean` (no Lean `Float` anywhere) on the operation lines of
`harness/src/bin/c10_f64arith.rs` and prints **bit patterns** (16 hex digits); the comparison with
the Rust side — the real `oxidd::mtbdd::terminal::F64` operations, resp. the hardware `f64`
operations for the `r` lines — is exact.

```
f <a> <b>    -> <add> <sub> <mul> <div> <cmp> <eq>
                 a, b: arbitrary 64-bit patterns (hex); both go through `F64::from(f64::from_bits(·))`;
                 the four results of `NumberBase::{add,sub,mul,div}` as bit patterns,
                 `partial_cmp` as lt|eq|gt|none, `==` as 0|1
r <a> <b>    -> <add> <sub> <mul> <div> <cmp>
                 the plain `f64` operations on the raw patterns (so `-0.0` and every NaN payload
                 occur as operands and `-0.0` as a result); a NaN result is printed as `nan`
                 (its payload and sign are not modelled), `cmp` is `f64::partial_cmp`
n <a>        -> <bits of F64::from(f64::from_bits(a))>
```
-/
namespace OxiddModel.Mtbdd.F64Exact.Driver
open OxiddModel OxiddModel.Num.Ieee

def hexVal (c : Char) : Option Nat :=
  if '0' ≤ c ∧ c ≤ '9' then some (c.toNat - '0'.toNat)
  else if 'a' ≤ c ∧ c ≤ 'f' then some (c.toNat - 'a'.toNat + 10)
  else none

/-- big-endian hexadecimal 64-bit pattern (1 … 16 digits) -/
def parseHex (s : String) : Option Nat :=
  if s.isEmpty ∨ s.length > 16 then none else
  s.toList.foldl (fun acc c => match acc, hexVal c with
    | some a, some d => some (a * 16 + d)
    | _, _ => none) (some 0)

def hexDigit (d : Nat) : Char :=
  if d < 10 then Char.ofNat ('0'.toNat + d) else Char.ofNat ('a'.toNat + d - 10)

def hex16 (b : Nat) : String :=
  String.ofList ((List.range 16).reverse.map fun i => hexDigit ((b >>> (4 * i)) % 16))

def cmpTok : Option Ordering → String
  | some .lt => "lt"
  | some .eq => "eq"
  | some .gt => "gt"
  | none => "none"

/-- raw result: NaN payloads are not modelled -/
def rawTok (x : V) : String := if x = .nan then "nan" else hex16 (toBits x)

/-- `f64::partial_cmp` (no NaN is equal to anything) -/
def rawCmp (x y : V) : Option Ordering := if x = .nan ∨ y = .nan then none else pcmp x y

def step (s : Unit) (line : String) : Unit × String :=
  match words line with
  | ["f", a, b] =>
    match parseHex a, parseHex b with
    | some a, some b =>
      let x := fromBits a
      let y := fromBits b
      (s, joinSp [hex16 (toBits (fadd x y)), hex16 (toBits (fsub x y)), hex16 (toBits (fmul x y)),
        hex16 (toBits (fdiv x y)), cmpTok (pcmp x y), boolStr (decide (x = y))])
    | _, _ => (s, "bad-op")
  | ["r", a, b] =>
    match parseHex a, parseHex b with
    | some a, some b =>
      let x := ofBits a
      let y := ofBits b
      (s, joinSp [rawTok (add x y), rawTok (sub x y), rawTok (mul x y), rawTok (div x y),
        cmpTok (rawCmp x y)])
    | _, _ => (s, "bad-op")
  | ["n", a] =>
    match parseHex a with
    | some a => (s, hex16 (toBits (fromBits a)))
    | none => (s, "bad-op")
  | _ => (s, "bad-op")

def proto : Proto := { σ := Unit, init := (), step := step }

end OxiddModel.Mtbdd.F64Exact.Driver
