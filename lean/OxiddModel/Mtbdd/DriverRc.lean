import OxiddModel.Util.Proto
import OxiddModel.Mtbdd.RcS
import Std.Data.HashMap

/-!
Line-protocol driver `mtbdd-rc`: MTBDD histories over `I64` terminals executed on the **counter
model** `Mtbdd/RcS.lean` (id store with one `rc` field per inner node and per terminal, node
capacity `nodes=` and terminal capacity `terms=` of the `mgr` line, exact apply cache, index edge
order).

```
mgr vars=<n> nodes=<k> terms=<k> [cache=<k>]   -> ok
const h <terminal> | var h <v> | op h add|sub|mul|div|min|max a b | ite h c a b
                                               -> unfolded tree of h | OOM | err precond
clone h a | drop a | dropall                   -> ok
gc                                             -> <inner nodes> <terminals> stored afterwards
dump   -> I=<k> T=<k> ; <tree>:<ref_count> | … ; #<terminal> …      (complete store, garbage included)
rc h                                           -> ref_count() of the root node | -
ninner | nterms | eq a b | show h
```
A failing operation (`OOM`) registers nothing (an existing handle of that name is kept); a
successful one drops the old handle of that name *after* the operation (`HashMap::insert`).
The variable order is the identity. Trees: `(v<k> <then> <else>)`, terminals `#<int>|#+inf|#-inf|#nan`.
-/
namespace OxiddModel.Mtbdd.DriverRc
open OxiddModel OxiddModel.Mtbdd OxiddModel.Mtbdd.Refine OxiddModel.Mtbdd.Rc OxiddModel.CachePolicy

structure DSt where
  n : Nat := 0
  caps : Caps := ⟨some 0, some 0⟩
  r : RSt I64 := RSt.empty
  h : Std.HashMap String Edge := {}

def kv (ws : List String) (key : String) : Option String :=
  ws.findSome? fun w => if w.startsWith (key ++ "=") then some (w.drop (key.length + 1)).toString else none

def i64Parse (s : String) : Option I64 :=
  if s = "nan" then some .nan
  else if s = "-inf" then some .ninf
  else if s = "+inf" then some .pinf
  else if s.startsWith "+" then none
  else match s.toInt? with
    | some n => if inRange n then some (.num n) else none
    | none => none

def i64Tok : I64 → String
  | .nan => "nan"
  | .ninf => "-inf"
  | .pinf => "+inf"
  | .num n => toString n

def parseOp : String → Option Op
  | "add" => some .add | "sub" => some .sub | "mul" => some .mul
  | "div" => some .div | "min" => some .min | "max" => some .max
  | _ => none

/-- canonical tree of an edge (levels = variable numbers) -/
partial def showE (s : Store I64) : Edge → String
  | .term i =>
    match s.getTerm? i with
    | some v => "#" ++ i64Tok v
    | none => "?"
  | .inner i =>
    match s.get? i with
    | some n => s!"(v{n.level} {showE s n.t} {showE s n.e})"
    | none => "?"

/-- all terminals below an edge are 0 or 1 (the documented precondition of `ite`) -/
partial def zeroOneE (s : Store I64) : Edge → Bool
  | .term i =>
    match s.getTerm? i with
    | some v => v == .num 0 || v == .num 1
    | none => false
  | .inner i =>
    match s.get? i with
    | some n => zeroOneE s n.t && zeroOneE s n.e
    | none => false

/-- the recursion descends at least one level per call -/
def fuelOf (d : DSt) : Nat := d.n + 8

/-- register a result under `name`: an existing handle of that name is dropped *after* the
operation; on OutOfMemory nothing is registered -/
def put (d : DSt) (name : String) (res : Option Edge × RSt I64) : DSt × String :=
  match res with
  | (none, r') => ({ d with r := r' }, "OOM")
  | (some e, r') =>
    let out := showE r'.st.store e
    let r'' := match d.h[name]? with
      | some old => dropEdge r' old
      | none => r'
    ({ d with r := r'', h := d.h.insert name e }, out)

def step (d : DSt) (line : String) : DSt × String :=
  let ws := words line
  match ws with
  | "mgr" :: rest =>
    let vars := ((kv rest "vars").bind String.toNat?).getD 0
    let ncap := ((kv rest "nodes").bind String.toNat?).getD 65536
    let tcap := ((kv rest "terms").bind String.toNat?).getD 65536
    ({ n := vars, caps := ⟨some ncap, some tcap⟩ }, "ok")
  | ["const", name, v] =>
    match i64Parse v with
    | some v => put d name (constR d.caps d.r v)
    | none => (d, "bad-op")
  | ["var", name, v] =>
    match v.toNat? with
    | some v => if v < d.n then put d name (varR i64Ops d.caps d.r v) else (d, "err range")
    | none => (d, "bad-op")
  | ["ite", name, c, a, b] =>
    match d.h[c]?, d.h[a]?, d.h[b]? with
    | some f, some g, some h =>
      if zeroOneE d.r.st.store f then
        put d name (iteR i64Ops d.caps Policy.exact (fuelOf d) d.r f g h)
      else (d, "err precond")
    | _, _, _ => (d, "err handle")
  | ["op", name, op, a, b] =>
    match parseOp op with
    | none => (d, "bad-op")
    | some op =>
      match d.h[a]?, d.h[b]? with
      | some f, some g =>
        put d name (applyR i64Ops Edge.gtIdx tagOf d.caps Policy.exact op (fuelOf d) d.r f g)
      | _, _ => (d, "err handle")
  | ["clone", name, a] =>
    match d.h[a]? with
    | some f =>
      let r1 := cloneEdge d.r f
      let r2 := match d.h[name]? with
        | some old => dropEdge r1 old
        | none => r1
      ({ d with r := r2, h := d.h.insert name f }, "ok")
    | none => (d, "err handle")
  | ["drop", a] =>
    match d.h[a]? with
    | some f => ({ d with r := dropEdge d.r f, h := d.h.erase a }, "ok")
    | none => (d, "err handle")
  | ["dropall"] =>
    ({ d with r := d.h.fold (fun r _ e => dropEdge r e) d.r, h := {} }, "ok")
  | ["gc"] =>
    let r' := gcR d.n d.r
    ({ d with r := r' }, s!"{r'.numInner} {r'.numTerms}")
  | ["dump"] =>
    let s := d.r.st.store
    let items := ((List.range s.nodes.size).filterMap fun i =>
      match s.get? i with
      | some _ => some s!"{showE s (.inner i)}:{d.r.refCount i}"
      | none => none).toArray.qsort (· < ·)
    let terms := ((List.range s.terms.size).filterMap fun i =>
      match s.getTerm? i with
      | some v => some ("#" ++ i64Tok v)
      | none => none).toArray.qsort (· < ·)
    let a := if items.isEmpty then "-" else " | ".intercalate items.toList
    let b := if terms.isEmpty then "-" else " ".intercalate terms.toList
    (d, s!"I={items.size} T={terms.size} ; {a} ; {b}")
  | ["rc", a] =>
    match d.h[a]? with
    | some (.inner i) => (d, toString (d.r.refCount i))
    | some (.term _) => (d, "-")
    | none => (d, "err handle")
  | ["ninner"] => (d, toString d.r.numInner)
  | ["nterms"] => (d, toString d.r.numTerms)
  | ["show", a] =>
    match d.h[a]? with
    | some f => (d, showE d.r.st.store f)
    | none => (d, "err handle")
  | ["eq", a, b] =>
    match d.h[a]?, d.h[b]? with
    | some f, some g => (d, boolStr (f == g))
    | _, _ => (d, "err handle")
  | _ => (d, "bad-op")

def proto : Proto := { σ := DSt, init := {}, step := step }

end OxiddModel.Mtbdd.DriverRc
