import OxiddModel.Util.Proto
import OxiddModel.Mtbdd.TerminalText
import OxiddModel.Dddmp.Driver

/-!
# Driver of the protocol `termtext` (C15 / C10: text form of MTBDD terminals)

See `harness/src/bin/c15_termtext.rs` for the protocol. The model side is `Mtbdd/TerminalText.lean`;
for `dddmp` lines the exported terminal records are additionally pushed through the byte-level
importer model of `Dddmp/Model.lean` (`readLine`, `importAsciiLine`) with `I64`'s `parse` as the
terminal parser, and every `parse` line is cross-checked against the terminal parser of the `dddmp`
stream's model (`Dddmp.algMTBDD`): a disagreement inside the model prints `model-split`.
-/
namespace OxiddModel.Mtbdd.TermText.Driver
open OxiddModel OxiddModel.Mtbdd OxiddModel.Mtbdd.TermText

def hexDigit (n : Nat) : Char := "0123456789abcdef".toList.getD n '0'

def toHex (bs : List Nat) : String :=
  if bs.isEmpty then "-" else String.ofList (bs.flatMap fun b => [hexDigit (b / 16 % 16), hexDigit (b % 16)])

def hexVal (c : Char) : Option Nat :=
  if '0' ≤ c ∧ c ≤ '9' then some (c.toNat - 48)
  else if 'a' ≤ c ∧ c ≤ 'f' then some (c.toNat - 87)
  else none

def fromHexGo : List Char → List Nat → Option (List Nat)
  | [], acc => some acc.reverse
  | [_], _ => none
  | a :: b :: r, acc =>
    match hexVal a, hexVal b with
    | some x, some y => fromHexGo r ((16 * x + y) :: acc)
    | _, _ => none

def fromHex (s : String) : Option (List Nat) := if s = "-" then some [] else fromHexGo s.toList []

/-- valid UTF-8 (the Rust side holds a `&str`) -/
def validUtf8 (s : List Nat) : Bool := Dddmp.utf8Lossy s == s

/-- `<v>`: `nan`, `-inf`, `+inf` or a canonical decimal `i64` -/
def parseVal (s : String) : Option I64 :=
  if s = "nan" then some .nan
  else if s = "-inf" then some .ninf
  else if s = "+inf" then some .pinf
  else
    let bs := s.toUTF8.toList.map (·.toNat)
    match fromStrI64 bs with
    | some n => if Dddmp.intBytes n = bs then some (.num n) else none
    | none => none

def showVal : I64 → String
  | .nan => "nan"
  | .ninf => "-inf"
  | .pinf => "+inf"
  | .num n => s!"num {n}"

def showOpt : Option I64 → String
  | none => "none"
  | some v => showVal v

/-- the terminal parser of the `dddmp` stream's model, as an `I64` -/
def viaDddmpModel (s : List Nat) : Option I64 :=
  match Dddmp.algMTBDD.parseTerminal s with
  | some ⟨_, .leaf .nan⟩ => some .nan
  | some ⟨_, .leaf .minf⟩ => some .ninf
  | some ⟨_, .leaf .pinf⟩ => some .pinf
  | some ⟨_, .leaf (.num i)⟩ => some (.num i)
  | _ => none

def namesOk : Bool :=
  let b (l : List String) : List (List Nat) := l.map Dddmp.strBytes
  b nameLiterals.1 == nanNames && b nameLiterals.2.1 == minusInfNames && b nameLiterals.2.2 == plusInfNames
    && Dddmp.strBytes "NaN" == NaN_TEXT && Dddmp.strBytes "-∞" == MINUS_INF_TEXT && Dddmp.strBytes "+∞" == PLUS_INF_TEXT
    && Dddmp.strBytes "-Inf" == MINUS_INF_ASCII && Dddmp.strBytes "+Inf" == PLUS_INF_ASCII
    && Dddmp.strBytes "-INF" == F64.MINUS_INF_ASCII && Dddmp.strBytes "+INF" == F64.PLUS_INF_ASCII

def hex16 (b : Nat) : String :=
  String.ofList ((List.range 16).reverse.map fun i => hexDigit ((b >>> (4 * i)) % 16))

def parseHex16 (s : String) : Option Nat :=
  if s.length ≠ 16 then none else
  s.toList.foldl (fun acc c => match acc, hexVal c with
    | some a, some d => some (a * 16 + d)
    | _, _ => none) (some 0)

/-- the importer algebra over `I64` values: edges are terminal values (`none`: an inner node) -/
def algI64 : Dddmp.Alg (Option I64) where
  level := fun e => match e with | some _ => Dddmp.levelMax | none => 0
  complement := id
  reduce := fun _ _ => none
  parseTerminal := fun s => (parse s).map some
  arity := 2

/-- the terminal records of an ASCII file for the terminals `ts` (ids from 1), read back through
`readLine` / `importAsciiLine` -/
def recordsRoundTrip (ts : List I64) : Bool :=
  let file := Dddmp.asciiTermRecords 1 (ts.map asciiDisplay)
  let rec go (fuel : Nat) (id : Nat) (ts : List I64) (inp : List Nat) : Bool :=
    match fuel, ts with
    | _, [] => inp.isEmpty
    | 0, _ => false
    | fuel + 1, t :: rest =>
      match Dddmp.readLine inp with
      | none => false
      | some (ln, inp') =>
        match Dddmp.importAsciiLine algI64 4 [] id [] ln with
        | .ok (some v) => v == t && go fuel (id + 1) rest inp'
        | _ => false
  go (ts.length + 1) 1 ts file

def step (_ : Unit) (line : String) : Unit × String :=
  match words line with
  | ["selfcheck"] => ((), if namesOk then "ok" else "bad-names")
  | ["disp", v] =>
    match parseVal v with
    | some v => ((), s!"{toHex (display v)} {toHex (asciiDisplay v)}")
    | none => ((), "bad-op")
  | ["parse", t] =>
    match fromHex t with
    | some bs =>
      if !validUtf8 bs then ((), "bad-op")
      else
        let r := parse bs
        if r ≠ viaDddmpModel bs then ((), "model-split") else ((), showOpt r)
    | none => ((), "bad-op")
  | ["rt", v] =>
    match parseVal v with
    | some v =>
      ((), if parse (display v) = some v ∧ parse (asciiDisplay v) = some v then "ok" else "mismatch")
    | none => ((), "bad-op")
  | ["f64parse", t, std] =>
    match fromHex t with
    | some bs =>
      if !validUtf8 bs then ((), "bad-op")
      else
        let stdv : Option (Option Nat) := if std = "none" then some none else (parseHex16 std).map some
        match stdv with
        | none => ((), "bad-op")
        | some stdv =>
          match F64.parse (fun _ => stdv) bs with
          | none => ((), "none")
          | some b => ((), hex16 b)
    | none => ((), "bad-op")
  | ["f64disp", bits, stdtext] =>
    match parseHex16 bits, fromHex stdtext with
    | some b, some st =>
      let v := F64.fromBits b
      ((), s!"{toHex (F64.display (fun _ => st) v)} {toHex (F64.asciiDisplay (fun _ => st) v)}")
    | _, _ => ((), "bad-op")
  | ["dddmp", v1, v2] =>
    match parseVal v1, parseVal v2 with
    | some v1, some v2 =>
      let ts := if v1 = v2 then [v1] else [v1, v2]
      if !recordsRoundTrip ts then ((), "model-reject")
      else
        let hs := ts.map fun t => toHex (asciiDisplay t)
        let hs := match hs with
          | [a, b] => if b < a then [b, a] else [a, b]
          | l => l
        ((), "ok " ++ ",".intercalate hs)
    | _, _ => ((), "bad-op")
  | _ => ((), "bad-op")

def proto : Proto := { σ := Unit, init := (), step := step }

end OxiddModel.Mtbdd.TermText.Driver
