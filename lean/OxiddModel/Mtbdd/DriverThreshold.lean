import OxiddModel.Util.Proto
import OxiddModel.Mtbdd.DriverRc
import OxiddModel.Mtbdd.PropertiesC14T

/-!
Line-protocol driver `c14tm` (stream `c14-threshold-mtbdd`): the `mtbdd-rc` protocol
(`Mtbdd/DriverRc.lean`: counter model over `I64` terminals with node capacity `nodes=` and
terminal capacity `terms=` of the `mgr` line) extended by

  `try op <name> add|sub|mul|div|min|max a b`   and   `try ite <name> c a b`

with a fresh `<name>`. The answer is

  `need=<kn>,<kt> free=<jn>,<jt> thr=<oom|ok> OOM`  or  `need=… free=… thr=… <tree> +<dn>,<dt>`

* `kn`, `kt` are `C14T.neededNodesApply / neededTermsApply` (`…Ite`): the numbers of inner-node
  slots and terminal slots the **capacity-free** algorithm takes from the current state;
* `jn = nodes − numInner`, `jt = terms − numTerms` are the free slots of the two stores;
* `thr` is the closed form of `C14T.apply_oom_iff_needed_num` / `ite_oom_iff_needed`:
  `oom` iff `(0 < kn ∧ nodes < numInner + kn) ∨ (0 < kt ∧ terms < numTerms + kt)`;
* then the outcome of the capacity-bounded counter model and the slots taken in both stores.

`need=?` (flags `hard` / `soft`) as in `Zbdd/DriverThreshold.lean`.
-/
namespace OxiddModel.Mtbdd.ThresholdDriver
open OxiddModel OxiddModel.Mtbdd OxiddModel.Mtbdd.Refine OxiddModel.Mtbdd.Rc OxiddModel.Mtbdd.DriverRc
open OxiddModel.Mtbdd.C14T OxiddModel.CachePolicy

structure TSt where
  d : DSt := {}
  hard : Bool := false
  soft : Bool := false

/-- target name, `neededNodes`, `neededTerms` of an operation line (same parsing, operands, fuel
and precondition test as `DriverRc.step`) -/
def needOf (d : DSt) : List String → Option (String × Nat × Nat)
  | ["op", name, op, a, b] =>
    match parseOp op, d.h[a]?, d.h[b]? with
    | some op, some f, some g =>
      some (name, neededNodesApply i64Ops Edge.gtIdx tagOf Policy.exact op (fuelOf d) d.r.st f g,
        neededTermsApply i64Ops Edge.gtIdx tagOf Policy.exact op (fuelOf d) d.r.st f g)
    | _, _, _ => none
  | ["ite", name, c, a, b] =>
    match d.h[c]?, d.h[a]?, d.h[b]? with
    | some f, some g, some h =>
      if zeroOneE d.r.st.store f then
        some (name, neededNodesIte i64Ops Policy.exact (fuelOf d) d.r.st f g h,
          neededTermsIte i64Ops Policy.exact (fuelOf d) d.r.st f g h)
      else none
    | _, _, _ => none
  | _ => none

def capNat : Option Nat → Nat
  | some c => c
  | none => 0

def step (t : TSt) (line : String) : TSt × String :=
  match words line with
  | "try" :: rest =>
    match needOf t.d rest with
    | none => (t, "bad-op")
    | some (name, kn, kt) =>
      if t.d.h.contains name then (t, "bad-op") else
      let n0 := t.d.r.numInner
      let t0 := t.d.r.numTerms
      let cn := capNat t.d.caps.node
      let ct := capNat t.d.caps.term
      let needS := if t.hard || t.soft then "?" else s!"{kn},{kt}"
      let thr := if (0 < kn ∧ cn < n0 + kn) ∨ (0 < kt ∧ ct < t0 + kt) then "oom" else "ok"
      let (d', out) := DriverRc.step t.d (joinSp rest)
      let pre := s!"need={needS} free={cn - n0},{ct - t0} thr={thr}"
      if out == "OOM" then ({ t with d := d', soft := true }, s!"{pre} OOM")
      else ({ t with d := d' }, s!"{pre} {out} +{d'.r.numInner - n0},{d'.r.numTerms - t0}")
  | "mgr" :: _ =>
    let (d', out) := DriverRc.step {} line
    ({ d := d', hard := out != "ok", soft := false }, out)
  | ["gc"] =>
    let (d', out) := DriverRc.step t.d line
    ({ t with d := d', soft := false }, out)
  | _ =>
    let (d', out) := DriverRc.step t.d line
    ({ t with d := d', hard := t.hard || out == "OOM" }, out)

def proto : Proto := { σ := TSt, init := {}, step := step }

end OxiddModel.Mtbdd.ThresholdDriver
