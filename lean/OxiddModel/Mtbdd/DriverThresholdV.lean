import OxiddModel.Util.Proto
import OxiddModel.Mtbdd.DriverThreshold
import OxiddModel.Mtbdd.PropertiesC14TV

/-!
Line-protocol driver `c14tmv` (stream `c14-threshold-rest-mtbdd`): the `c14tm` protocol
(`Mtbdd/DriverThreshold.lean`) with two more tried forms:

* `try var <name> <v>`: `need` = `C14T.neededNodesVar, neededTermsVar` (at most one node, at most
  two terminals), `thr` = the closed form of `C14T.var_oom_iff_needed` (either store short), then
  the outcome of `varR` under both capacities;
* `try const <name> <value>`: `need` = `0,<1 iff the value is not a stored terminal>`
  (`C14T.const_oom_iff`), then `constR`.
-/
namespace OxiddModel.Mtbdd.ThresholdDriverV
open OxiddModel OxiddModel.Mtbdd OxiddModel.Mtbdd.Refine OxiddModel.Mtbdd.Rc OxiddModel.Mtbdd.DriverRc
open OxiddModel.Mtbdd.C14T OxiddModel.Mtbdd.ThresholdDriver OxiddModel.CachePolicy

def needOfV (d : DSt) : List String → Option (String × Nat × Nat)
  | ["var", name, v] =>
    match v.toNat? with
    | some v =>
      if v < d.n then
        some (name, neededNodesVar i64Ops d.r.st.store v, neededTermsVar i64Ops d.r.st.store v)
      else none
    | none => none
  | ["const", name, v] =>
    match i64Parse v with
    | some v =>
      some (name, 0, slotCount (d.r.st.store.getTerminal v).1.terms - slotCount d.r.st.store.terms)
    | none => none
  | ws => needOf d ws

def step (t : TSt) (line : String) : TSt × String :=
  match words line with
  | "try" :: rest =>
    match needOfV t.d rest with
    | none => (t, "bad-op")
    | some (name, kn, kt) =>
      if t.d.h.contains name then (t, "bad-op") else
      let n0 := t.d.r.numInner
      let t0 := t.d.r.numTerms
      let cn := capNat t.d.caps.node
      let ct := capNat t.d.caps.term
      let needS := if t.hard || t.soft then "?" else s!"{kn},{kt}"
      let thr := if (0 < kn ∧ cn < n0 + kn) ∨ (0 < kt ∧ ct < t0 + kt) then "oom" else "ok"
      let (d', out) := DriverRc.step t.d (joinSp rest)
      let pre := s!"need={needS} free={cn - n0},{ct - t0} thr={thr}"
      if out == "OOM" then ({ t with d := d', soft := true }, s!"{pre} OOM")
      else ({ t with d := d' }, s!"{pre} {out} +{d'.r.numInner - n0},{d'.r.numTerms - t0}")
  | _ => ThresholdDriver.step t line

def proto : Proto := { σ := TSt, init := {}, step := step }

end OxiddModel.Mtbdd.ThresholdDriverV
