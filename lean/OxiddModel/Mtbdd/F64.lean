import OxiddModel.Mtbdd.Model
import OxiddModel.Num.Ieee
/-!
# C10 — `F64` terminals on bit patterns, computed by the exact binary64 model

`crates/oxidd-rules-mtbdd/src/terminal/f64.rs`: an `f64` whose NaNs are all normalised to
`f64::NAN` and whose `-0.0` is normalised to `0.0`, compared and hashed by bit pattern.  A value is
represented here by its bit pattern (`UInt64`, as before), but the arithmetic is no longer Lean's
opaque `Float`: a pattern is decoded to a datum of the exact model `Num/Ieee.lean` (`dec`), the
IEEE-754 operation of that model is applied, the result normalised and encoded (`norm`).  Everything
is kernel-reducible; the laws `TerminalLaws f64Ops F64.Normal` that used to be a hypothesis are
proved in `Mtbdd/PropertiesF64Bits.lean` (by transfer from `Mtbdd/PropertiesF64.lean`).  The stream
`mtbdd` compares these functions with the Rust `F64` bit for bit, as before.
-/
namespace OxiddModel.Mtbdd.F64
open OxiddModel.Num

def NAN_BITS : UInt64 := 0x7ff8000000000000
def NEG_ZERO_BITS : UInt64 := 0x8000000000000000

/-- `f64::from_bits` -/
def dec (b : UInt64) : Ieee.V := Ieee.ofBits b.toNat

/-- `f64::to_bits` of a model datum (the one `nan` is `f64::NAN`) -/
def enc (x : Ieee.V) : UInt64 := UInt64.ofNat (Ieee.toBits x)

/-- `impl From<f64> for F64` followed by `to_bits` -/
def norm (x : Ieee.V) : UInt64 := enc (Ieee.normalise x)

/-- normalisation of an arbitrary bit pattern (`F64::from(f64::from_bits(b))`) -/
def ofBits (b : UInt64) : UInt64 := norm (dec b)

def add (a b : UInt64) : UInt64 := norm (Ieee.add (dec a) (dec b))
def sub (a b : UInt64) : UInt64 := norm (Ieee.sub (dec a) (dec b))
def mul (a b : UInt64) : UInt64 := norm (Ieee.mul (dec a) (dec b))
def div (a b : UInt64) : UInt64 := norm (Ieee.div (dec a) (dec b))

/-- `impl PartialOrd for F64` -/
def partialCmp (a b : UInt64) : Option Ordering :=
  if a = NAN_BITS then
    if b = NAN_BITS then some .eq else none
  else
    -- `f64::partial_cmp`: unordered if an operand is a NaN (of any payload)
    if dec a = .nan ∨ dec b = .nan then none else Ieee.pcmp (dec a) (dec b)

end F64

/-- the `NumberBase`/`PartialOrd` instance of `F64`, on bit patterns -/
def f64Ops : TermOps UInt64 where
  zero := 0
  one := 0x3ff0000000000000
  nan := F64.NAN_BITS
  add := F64.add
  sub := F64.sub
  mul := F64.mul
  div := F64.div
  pcmp := F64.partialCmp

end OxiddModel.Mtbdd
