import OxiddModel.Mtbdd.Model
/-!
# C10 — `F64` terminals (executable only, *tested*, not proved)

`crates/oxidd-rules-mtbdd/src/terminal/f64.rs`: an `f64` whose NaNs are all normalised to
`f64::NAN` and whose `-0.0` is normalised to `0.0`, compared and hashed by bit pattern.  A value is
represented here by its bit pattern (`UInt64`), the arithmetic is Lean's `Float` (the platform's
IEEE-754 double), which is opaque to the kernel: nothing is proved about this instance; the lifted
theorems take `TerminalLaws f64Ops` as a hypothesis and the harness tests those laws on a boundary
set by bit pattern.
-/
namespace OxiddModel.Mtbdd.F64

def NAN_BITS : UInt64 := 0x7ff8000000000000
def NEG_ZERO_BITS : UInt64 := 0x8000000000000000

/-- `impl From<f64> for F64` followed by `to_bits` -/
def norm (x : Float) : UInt64 :=
  if x.isNaN then NAN_BITS
  else if x.toBits = NEG_ZERO_BITS then 0
  else x.toBits

/-- normalisation of an arbitrary bit pattern (`F64::from(f64::from_bits(b))`) -/
def ofBits (b : UInt64) : UInt64 := norm (Float.ofBits b)

def add (a b : UInt64) : UInt64 := norm (Float.ofBits a + Float.ofBits b)
def sub (a b : UInt64) : UInt64 := norm (Float.ofBits a - Float.ofBits b)
def mul (a b : UInt64) : UInt64 := norm (Float.ofBits a * Float.ofBits b)
def div (a b : UInt64) : UInt64 := norm (Float.ofBits a / Float.ofBits b)

/-- `impl PartialOrd for F64` -/
def partialCmp (a b : UInt64) : Option Ordering :=
  if a = NAN_BITS then
    if b = NAN_BITS then some .eq else none
  else
    let x := Float.ofBits a
    let y := Float.ofBits b
    -- `f64::partial_cmp`
    if x < y then some .lt
    else if x > y then some .gt
    else if x == y then some .eq
    else none

end F64

/-- the `NumberBase`/`PartialOrd` instance of `F64`, on bit patterns -/
def f64Ops : TermOps UInt64 where
  zero := 0
  one := 0x3ff0000000000000
  nan := F64.NAN_BITS
  add := F64.add
  sub := F64.sub
  mul := F64.mul
  div := F64.div
  pcmp := F64.partialCmp

end OxiddModel.Mtbdd
