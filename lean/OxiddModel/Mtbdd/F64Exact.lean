import OxiddModel.Mtbdd.Model
import OxiddModel.Mtbdd.Lemmas
import OxiddModel.Mtbdd.ApplyS
import OxiddModel.Generated.LemmasMtbdd
import OxiddModel.Num.IeeeLemmas

/-!
# C10 — `F64` terminals on the exact binary64 model (no Lean `Float`)

`crates/oxidd-rules-mtbdd/src/terminal/f64.rs`: `F64(f64)` with `From<f64>` normalising every NaN to
`f64::NAN` and `-0.0` to `0.0`; `NumberBase::{add, sub, mul, div}` are `Self::from(self.0 ∘ rhs.0)`;
`PartialEq/Hash` are on the bit pattern, `PartialOrd` is `f64::partial_cmp` with "NaN = NaN".

Here a terminal value is a datum `Num.Ieee.V` of the exact model (`Num/Ieee.lean`); an `F64` can hold
exactly the `Normal` ones (representable, not `-0.0`; the single `nan` is `f64::NAN`).  Equality of
data is equality of bit patterns on these (`ieee_bits_roundtrip`, `PropertiesF64.lean`).  This file
instantiates the terminal interface `TermOps` and proves the three hypotheses the lifted theorems of
`Properties.lean`/`PropertiesS.lean` and the extracted decision lists of `terminal_bin` need.
-/
namespace OxiddModel.Mtbdd
open OxiddModel.Num OxiddModel.Num.Ieee

/-- the `NumberBase`/`PartialOrd` instance of `F64`, on exact data -/
def f64ExactOps : TermOps Ieee.V where
  zero := Ieee.zero
  one := Ieee.one
  nan := .nan
  add := Ieee.fadd
  sub := Ieee.fsub
  mul := Ieee.fmul
  div := Ieee.fdiv
  pcmp := Ieee.pcmp

namespace F64Exact

theorem min_nan_left (x : V) : f64ExactOps.min .nan x = .nan := by
  cases x <;> rfl

theorem min_nan_right (x : V) : f64ExactOps.min x .nan = .nan := by
  cases x <;> rfl

theorem max_nan_left (x : V) : f64ExactOps.max .nan x = .nan := by
  cases x <;> rfl

theorem max_nan_right (x : V) : f64ExactOps.max x .nan = .nan := by
  cases x <;> rfl

theorem min_self (x : V) : f64ExactOps.min x x = x := by
  simp only [TermOps.min, f64ExactOps, pcmp_self]

theorem max_self (x : V) : f64ExactOps.max x x = x := by
  simp only [TermOps.max, f64ExactOps, pcmp_self]

theorem min_comm {x y : V} (hx : Normal x) (hy : Normal y) :
    f64ExactOps.min x y = f64ExactOps.min y x := by
  have hs := pcmp_swap x y
  simp only [TermOps.min, f64ExactOps]
  rw [hs]
  cases h : pcmp x y with
  | none => rfl
  | some o =>
    cases o <;> simp only [Option.map_some, Ordering.swap]
    exact (pcmp_eq_iff hx hy).1 h

theorem max_comm {x y : V} (hx : Normal x) (hy : Normal y) :
    f64ExactOps.max x y = f64ExactOps.max y x := by
  have hs := pcmp_swap x y
  simp only [TermOps.max, f64ExactOps]
  rw [hs]
  cases h : pcmp x y with
  | none => rfl
  | some o =>
    cases o <;> simp only [Option.map_some, Ordering.swap]
    exact (pcmp_eq_iff hx hy).1 h

theorem one_rep : Ieee.one.Rep := ⟨F64C.fits_two_pow _, Nat.pow_lt_pow_right (by omega) (by decide)⟩

theorem zero_normal : Normal Ieee.zero := ⟨rep_zero _, by simp [Ieee.zero]⟩
theorem one_normal : Normal Ieee.one := ⟨one_rep, by simp [Ieee.one]⟩
theorem nan_normal : Normal .nan := ⟨rep_nan, by simp⟩

end F64Exact

open F64Exact

/-- **the laws `terminal_bin`'s shortcuts rely on hold for `F64`** (`0 + x = x`, `x + 0 = x`,
`x − 0 = x`, `1·x = x`, `x·1 = x`, `x/1 = x`, NaN absorbing for the four operations and `min`/`max`,
`min`/`max` idempotent) — on all values an `F64` can hold.  (`0 + x = x` is *false* for the raw
`f64` value `x = -0.0`: `0 + (-0) = +0`; the normalisation is what makes it a law.) -/
theorem f64_terminalLaws : TerminalLaws f64ExactOps Normal where
  zero_ne_one := by
    intro h
    have := Nat.two_pow_pos F64C.UNIT
    simp only [f64ExactOps, Ieee.zero, Ieee.one, V.fin.injEq, true_and] at h
    omega
  zero_add x hx := by
    show normalise (add zero x) = x
    rw [add_zero_left hx, normal_of_normalise hx]
  add_zero x hx := by
    show normalise (add x zero) = x
    rw [add_zero_right hx, normal_of_normalise hx]
  sub_zero x hx := by
    show normalise (sub x zero) = x
    rw [sub_zero_right hx, normal_of_normalise hx]
  one_mul x hx := by
    show normalise (mul one x) = x
    rw [mul_one_left hx.1, normal_of_normalise hx]
  mul_one x hx := by
    show normalise (mul x one) = x
    rw [mul_one_right hx.1, normal_of_normalise hx]
  div_one x hx := by
    show normalise (div x one) = x
    rw [div_one_right hx.1, normal_of_normalise hx]
  nan_add x _ := rfl
  add_nan x _ := by show normalise (add x .nan) = .nan; rw [add_nan_right]; rfl
  nan_sub x _ := rfl
  sub_nan x _ := by show normalise (sub x .nan) = .nan; rw [sub_nan_right]; rfl
  nan_mul x _ := rfl
  mul_nan x _ := by show normalise (mul x .nan) = .nan; rw [mul_nan_right]; rfl
  nan_div x _ := rfl
  div_nan x _ := by show normalise (div x .nan) = .nan; rw [div_nan_right]; rfl
  nan_min x _ := min_nan_left x
  min_nan x _ := min_nan_right x
  nan_max x _ := max_nan_left x
  max_nan x _ := max_nan_right x
  min_self x _ := F64Exact.min_self x
  max_self x _ := F64Exact.max_self x

/-- the values an `F64` can hold are closed under the operations — in fact every result is
`Normal` whatever the operands are -/
theorem f64_terminalClosed : TerminalClosed f64ExactOps Normal where
  ok_zero := zero_normal
  ok_one := one_normal
  ok_nan := nan_normal
  ok_add x y _ _ := normalise_normal _ (add_rep x y)
  ok_sub x y _ _ := normalise_normal _ (sub_rep x y)
  ok_mul x y _ _ := normalise_normal _ (mul_rep x y)
  ok_div x y _ _ := normalise_normal _ (div_rep x y)

/-- `add`, `mul`, `min`, `max` of `F64` are commutative (the operand swap of the cache key in
`terminal_bin` is sound); for `min`/`max` this needs the normalisation: on raw `f64` values
`min(+0, -0)` would be the left operand on both sides. -/
theorem f64_terminalComm : Refine.TerminalComm f64ExactOps Normal where
  add_comm x y _ _ := by show normalise (add x y) = normalise (add y x); rw [Ieee.add_comm]
  mul_comm x y _ _ := by show normalise (mul x y) = normalise (mul y x); rw [Ieee.mul_comm]
  min_comm _ _ hx hy := F64Exact.min_comm hx hy
  max_comm _ _ hx hy := F64Exact.max_comm hx hy

/-- the same record for the obligations on the extracted decision lists -/
theorem f64_terminalComm_mt : Generated.Mt.TerminalComm f64ExactOps Normal where
  add_comm := f64_terminalComm.add_comm
  mul_comm := f64_terminalComm.mul_comm
  min_comm := f64_terminalComm.min_comm
  max_comm := f64_terminalComm.max_comm

end OxiddModel.Mtbdd
