import OxiddModel.Mtbdd.RcSHistory
import OxiddModel.Reorder.SwapStoreN

/-!
# MTBDD: ONE manager state for operations, handles, garbage collection, `add_vars` and reordering

The counterpart of `Bdd/GlobalS.lean` for MTBDDs over an arbitrary terminal type `T` (decidable
equality) with terminal operations `L : TermOps T`. The pieces exist separately: `RcS.lean`
(id store of inner nodes **and** hash-consed terminal table, one reference counter per inner slot
and per terminal slot, two capacities, `get_terminal`, `var`, the six arithmetic operators, `ite`,
`clone_edge`, `drop_edge`, `Manager::gc` = inner levels then terminal sweep) and
`Reorder/SwapStoreN.lean` (`level_swap` / `set_var_order` for nodes of any arity over any terminal
type on a heap `(level, children, rc)` with one unique table per level). This file puts them into
**one machine**:

* `GSt`: `RSt T` (node array with stored level numbers, terminal table, apply cache, time stamp,
  the counter arrays `rc` and `trc`), the number of variables `n`, the order `{v2l, l2v}`,
  `gcCount`, the handle list `hs`.
* the **bridge** `toS` / `ofS` to the reordering model. `level_swap` never looks *into* a terminal:
  it copies, compares and hashes edges. So the terminal type of the reordering model is
  instantiated with the **slot numbers of the terminal table** (`SwapStoreN.Edge Nat`): the inner
  node `(level, t, e)` becomes `⟨level, [enc t, enc e], rc⟩` with `enc (.term i) = .term i`,
  `enc (.inner j) = .inner j` (a bijection on edges; with a hash-consed terminal table comparing
  slot numbers *is* comparing values). The terminal table itself is not touched by the reordering
  (`ofS` takes it over unchanged). **Limit**: the reordering model keeps no counters for terminals;
  `ofS` *defines* the terminal counters after a reordering to be the exact value
  `1 + #handles + #stored parent edges` for every slot — they are not derived from the
  `retain`/`release` calls `level_swap` performs on terminal edges. The inner counters are those of
  the reordering heap.
* `Step`: `const caps v` (`get_terminal` under the terminal capacity), `var caps v` (level through
  `v2l`), `bin caps op a b` (add/sub/mul/div/min/max), `ite caps a b c`, `clone`, `drop`, `gc`,
  `addVars k`, `setVarOrder order` — exactly as in the BDD machine: each operation under its own
  pair of capacities, failing with OutOfMemory at any allocation point or not; `setVarOrder` is a
  no-op for requests of length `≤ 1`, invalid requests (duplicate / unknown variable: a panic in the
  code) and when the levels already are in the target order; else the cache is cleared, the store
  goes through the bridge, `gcCount` is advanced, `v2l` is the inverse of the new `l2v`.
  A `const` step whose value is not admissible (`okB v = false`; for `I64`: a `Num` payload outside
  the `i64` range — a value that cannot exist at run time) is a no-op, like `var v` with `v ≥ n`
  and an operation naming a handle position that does not exist.
* the recursion fuel is `fuelOf n = 3 · 2^(n+1)`, proved sufficient (`GlobalSInv.lean`).
* `Alg` = terminal operations and the admissibility test; `Cfg` = what the theorems quantify over
  besides the history: cache policy, edge order `gt` used for the normalisation of commutative
  cache keys, slot allocator and table iteration order of the reordering.
* ghost `Expr` / `track` / `runT`: for every handle the expression that produced it. The machine
  never reads it.
-/
set_option linter.unusedSectionVars false

namespace OxiddModel.Mtbdd.Global
open OxiddModel.Mtbdd OxiddModel.Mtbdd.Refine OxiddModel.Mtbdd.Rc OxiddModel.CachePolicy
open OxiddModel.Reorder

/-- edges, slots, heaps and stores of the reordering model over terminal slot numbers -/
abbrev SEdge := SwapStoreN.Edge Nat
abbrev SNodeN := SwapStoreN.SNode Nat
abbrev SHeap := SwapStoreN.Heap Nat
abbrev SSt := SwapStoreN.SStore Nat

/-! ## `bubble_sort` in a form the kernel can evaluate (as in `Bdd/GlobalS.lean`) -/

def bubblePassK : Nat → List Nat → Nat → List Nat × List Nat × Nat
  | a, [], _ => ([a], [], 0)
  | a, b :: rest, i =>
    if a > b then
      let r := bubblePassK a rest (i + 1)
      (b :: r.1, i :: r.2.1, if r.2.2 = 0 then i + 1 else r.2.2)
    else
      let r := bubblePassK b rest (i + 1)
      (a :: r.1, r.2.1, r.2.2)

def bubblePassL : List Nat → Nat → List Nat × List Nat × Nat
  | [], _ => ([], [], 0)
  | a :: l, i => bubblePassK a l i

def bubbleSortK : Nat → List Nat → List Nat × List Nat
  | 0, seq => (seq, [])
  | fuel + 1, seq =>
    let r := bubblePassL seq 0
    if r.2.1.isEmpty then (r.1, []) else
    let r' := bubbleSortK fuel r.1
    (r'.1, r.2.1 ++ r'.2)

theorem bubblePassK_eq (a : Nat) (l : List Nat) (i : Nat) :
    bubblePass (a :: l) i = bubblePassK a l i := by
  induction l generalizing a i with
  | nil => simp [bubblePass, bubblePassK]
  | cons b rest ih =>
    rw [bubblePass, bubblePassK]
    by_cases h : a > b
    · simp only [h, if_true]; rw [ih]
    · simp only [h, if_false]; rw [ih]

theorem bubblePassL_eq (l : List Nat) (i : Nat) : bubblePass l i = bubblePassL l i := by
  cases l with
  | nil => simp [bubblePass, bubblePassL]
  | cons a l => exact bubblePassK_eq a l i

theorem bubbleSortK_eq (fuel : Nat) (seq : List Nat) : bubbleSort fuel seq = bubbleSortK fuel seq := by
  induction fuel generalizing seq with
  | zero => rfl
  | succ fuel ih =>
    simp only [bubbleSort, bubbleSortK, bubblePassL_eq, ih]

open SwapStoreN (RState chainLe levelSwapG step2 updateLevels setVarOrderS) in
/-- `SwapStoreN.setVarOrderS` with `bubbleSortK` for `bubbleSort` -/
def setVarOrderK {X : Type} [DecidableEq X] (k : Nat) (al : SwapStoreN.Heap X → Nat)
    (ord : List Nat → List Nat) (s : SwapStoreN.SStore X) (l2v : List Nat) (order : List Nat) :
    SwapStoreN.SStore X × List Nat :=
  let n := s.tables.length
  let target := sortOrder n (order.map fun v => l2v.idxOf v)
  let levels := List.range n
  let fromNe := levels.filter fun l => !(s.table l).isEmpty
  let neTarget := fromNe.map fun l => target.getD l l
  let sorted := levels.all fun l => target.getD l l == l
  if sorted then (s, l2v)
  else
    let r0 : RState X := ⟨s, levels, l2v⟩
    let neSorted := chainLe 0 neTarget
    let r1 : RState X × List Nat × Bool :=
      if !neSorted then
        let bs := bubbleSortK neTarget.length neTarget
        let r := bs.2.foldl
          (fun r i => levelSwapG k al ord r (fromNe.getD i 0) (fromNe.getD (i + 1) 0)) r0
        if fromNe.length = n then (r, target, true)
        else (r, (fromNe.zip bs.1).foldl (fun t p => t.set p.1 p.2) target, false)
      else (r0, target, false)
    let r2 := if r1.2.2 then r1.1 else step2 (n * n + n) 0 r1.1 r1.2.1
    (updateLevels r2, r2.l2v)

/-- it *is* the verified model -/
theorem setVarOrderK_eq {X : Type} [DecidableEq X] (k : Nat) (al : SwapStoreN.Heap X → Nat)
    (ord : List Nat → List Nat) (s : SwapStoreN.SStore X) (l2v order : List Nat) :
    setVarOrderK k al ord s l2v order = SwapStoreN.setVarOrderS k al ord s l2v order := by
  unfold setVarOrderK SwapStoreN.setVarOrderS
  simp only [bubbleSortK_eq]

/-! ## the bridge between the two store representations -/

variable {T : Type}

/-- an edge of the operation side as an edge of the reordering side (terminals by slot number) -/
def enc : Edge → SEdge
  | .term i => .term i
  | .inner j => .inner j

def dec : SEdge → Edge
  | .term i => .term i
  | .inner j => .inner j

/-- the heap of `SwapStoreN.lean` seen in an `RSt`: slot `i` holds the node of the store together
with its counter -/
def toHeap (r : RSt T) : SHeap :=
  ⟨(List.range r.st.store.nodes.size).map fun i =>
    (r.st.store.get? i).map fun nd => (⟨nd.level, [enc nd.t, enc nd.e], rcGet r.rc i⟩ : SNodeN)⟩

/-- the unique table of level `l`: the slots whose stored level number is `l` -/
def tableOf (s : Store T) (l : Nat) : List Nat :=
  (List.range s.nodes.size).filter fun i =>
    match s.get? i with
    | some nd => nd.level == l
    | none => false

/-- `RSt` (+ the number of levels) as a `SwapStoreN.SStore` -/
def toS (r : RSt T) (n : Nat) : SSt := ⟨toHeap r, (List.range n).map (tableOf r.st.store)⟩

def slotRc : Option SNodeN → Nat
  | some nd => nd.rc
  | none => 0

/-- a slot of the reordering heap as a node of the operation side -/
def decNode (n : SNodeN) : Node :=
  ⟨n.level, dec (n.ch.getD 0 (.term 0)), dec (n.ch.getD 1 (.term 0))⟩

def decSlots (h : SHeap) : Array (Option Node) := (h.slots.map fun o => o.map decNode).toArray

/-- the exact counter of terminal slot `j`: the table's reference, the handles, the stored parent
edges -/
def exactTrc (nodes : Array (Option Node)) (hs : List Edge) (j : Nat) : Nat :=
  1 + hs.count (.term j) + parentsA nodes (.term j)

/-- a `SwapStoreN.SStore` as an `RSt`: node array and inner counters from the heap, the terminal
table `terms` unchanged, the terminal counters **recomputed** (see the header), empty apply cache -/
def ofS (s : SSt) (terms : Array (Option T)) (tick : Nat) (hs : List Edge) : RSt T :=
  ⟨⟨⟨decSlots s.h, terms⟩, [], tick⟩, (s.h.slots.map slotRc).toArray,
    ((List.range terms.size).map (exactTrc (decSlots s.h) hs)).toArray⟩

/-! ## the machine -/

/-- the terminal algebra: operations and the executable admissibility test of terminal values -/
structure Alg (T : Type) where
  L : TermOps T
  okB : T → Bool

/-- what a history does not fix -/
structure Cfg where
  p : APolicy
  gt : Edge → Edge → Bool
  al : SHeap → Nat
  ord : List Nat → List Nat

structure Cfg.OK (c : Cfg) : Prop where
  p : c.p.OK
  al : ∀ h : SHeap, h.get? (c.al h) = none
  ord : ∀ l, (c.ord l).Perm l

/-- the simplest configuration: ideal cache, index order of edges, first free slot, tables
iterated front to back -/
def Cfg.std : Cfg := ⟨Policy.exact, Edge.gtIdx, SwapStoreN.Heap.firstFree, id⟩

/-- the manager and the user's handles -/
structure GSt (T : Type) where
  r : RSt T
  /-- `num_vars() = num_levels()` -/
  n : Nat
  /-- `var_to_level` -/
  v2l : List Nat
  /-- `level_to_var` -/
  l2v : List Nat
  /-- `Manager::gc_count()` -/
  gcCount : Nat
  /-- the live handles (owned edges) -/
  hs : List Edge

def GSt.empty : GSt T := ⟨RSt.empty, 0, [], [], 0, []⟩

inductive Step (T : Type) where
  /-- `constant(v)` = `get_terminal(v)` -/
  | const (caps : Caps) (v : T)
  /-- `var(v)` -/
  | var (caps : Caps) (v : Nat)
  | bin (caps : Caps) (op : Op) (a b : Nat)
  | ite (caps : Caps) (a b c : Nat)
  | clone (a : Nat)
  | drop (a : Nat)
  | gc
  | addVars (k : Nat)
  | setVarOrder (order : List Nat)

/-- more than the unfolded sizes of three ordered diagrams over `n` levels -/
def fuelOf (n : Nat) : Nat := 3 * 2 ^ (n + 1)

variable [DecidableEq T]

/-- the step kinds that run an algorithm producing a new handle: `none` = no-op (inadmissible
constant, unknown variable, handle position that does not exist), `some (none, r')` = OutOfMemory,
`some (some x, r')` = success with the owned result `x` -/
def opRes (E : Alg T) (c : Cfg) (g : GSt T) : Step T → Option (Option Edge × RSt T)
  | .const caps v => if E.okB v then some (constR caps g.r v) else none
  | .var caps v => if v < g.n then some (varR E.L caps g.r (g.v2l.getD v 0)) else none
  | .bin caps op a b =>
    match g.hs[a]?, g.hs[b]? with
    | some f, some h => some (applyR E.L c.gt tagOf caps c.p op (fuelOf g.n) g.r f h)
    | _, _ => none
  | .ite caps a b d =>
    match g.hs[a]?, g.hs[b]?, g.hs[d]? with
    | some f, some h, some k => some (iteR E.L caps c.p (fuelOf g.n) g.r f h k)
    | _, _, _ => none
  | _ => none

/-- the request names each variable at most once and only variables of the manager -/
def reorderValid (g : GSt T) (order : List Nat) : Bool :=
  decide order.Nodup && order.all fun v => decide (v < g.n)

/-- `sorted` of `set_var_order_common`: every level already is at its target position -/
def reorderSorted (g : GSt T) (order : List Nat) : Bool :=
  let target := sortOrder g.n (order.map fun v => g.l2v.idxOf v)
  (List.range g.n).all fun l => target.getD l l == l

/-- `var_to_level` recomputed from `level_to_var` (the code updates both maps swap by swap) -/
def invPerm (n : Nat) (l2v : List Nat) : List Nat := (List.range n).map fun v => l2v.idxOf v

/-- `set_var_order(order)` -/
def reorder (c : Cfg) (g : GSt T) (order : List Nat) : GSt T :=
  if order.length ≤ 1 || !reorderValid g order || reorderSorted g order then g
  else
    let res := setVarOrderK 2 c.al c.ord (toS g.r g.n) g.l2v order
    { r := ofS res.1 g.r.st.store.terms g.r.st.tick g.hs, n := g.n, v2l := invPerm g.n res.2,
      l2v := res.2, gcCount := g.gcCount + 1, hs := g.hs }

/-- a finished operation: the result becomes a new handle; after OutOfMemory the handles are
the old ones -/
def pushOp (g : GSt T) : Option (Option Edge × RSt T) → GSt T
  | some (some x, r') => { g with r := r', hs := x :: g.hs }
  | some (none, r') => { g with r := r' }
  | none => g

def step (E : Alg T) (c : Cfg) (g : GSt T) : Step T → GSt T
  | .clone a =>
    match g.hs[a]? with
    | some f => { g with r := cloneEdge g.r f, hs := f :: g.hs }
    | none => g
  | .drop a =>
    match g.hs[a]? with
    | some f => { g with r := dropEdge g.r f, hs := g.hs.eraseIdx a }
    | none => g
  | .gc => { g with r := gcR g.n g.r, gcCount := g.gcCount + 1 }
  | .addVars k =>
    { g with n := g.n + k, v2l := g.v2l ++ List.range' g.n k, l2v := g.l2v ++ List.range' g.n k }
  | .setVarOrder order => reorder c g order
  | .const caps v => pushOp g (opRes E c g (.const caps v))
  | .var caps v => pushOp g (opRes E c g (.var caps v))
  | .bin caps op a b => pushOp g (opRes E c g (.bin caps op a b))
  | .ite caps a b d => pushOp g (opRes E c g (.ite caps a b d))

/-- a history from the empty manager -/
def run (E : Alg T) (c : Cfg) (hist : List (Step T)) : GSt T := hist.foldl (step E c) GSt.empty

/-! ## the ghost: which expression produced a handle -/

inductive Expr (T : Type) where
  | const (v : T)
  | var (v : Nat)
  | bin (op : Op) (e₁ e₂ : Expr T)
  | ite (e₁ e₂ e₃ : Expr T)

instance : Inhabited (Expr T) := ⟨.var 0⟩

/-- the `T`-valued function of the VARIABLES an expression specifies: constants, `x_v ↦ 1 / 0`,
the scalar operation applied pointwise, and the selection of `apply_ite`: where the condition is
the terminal `zero` the else-operand, elsewhere the then-operand -/
def Expr.fn (L : TermOps T) : Expr T → (Nat → Bool) → T
  | .const v, _ => v
  | .var v, ρ => if ρ v then L.one else L.zero
  | .bin op e₁ e₂, ρ => L.sem op (e₁.fn L ρ) (e₂.fn L ρ)
  | .ite e₁ e₂ e₃, ρ => if e₁.fn L ρ = L.zero then e₃.fn L ρ else e₂.fn L ρ

/-- the expression of the handle a successful step creates -/
def newExpr (es : List (Expr T)) : Step T → Expr T
  | .const _ v => .const v
  | .var _ v => .var v
  | .bin _ op a b => .bin op (es.getD a default) (es.getD b default)
  | .ite _ a b d => .ite (es.getD a default) (es.getD b default) (es.getD d default)
  | _ => default

/-- the ghost step: a successful operation pushes its expression, a clone copies, a drop removes;
failed operations, `gc`, `addVars`, `setVarOrder` leave every handle's expression alone -/
def track (E : Alg T) (c : Cfg) (g : GSt T) (es : List (Expr T)) : Step T → List (Expr T)
  | .clone a => if a < g.hs.length then es.getD a default :: es else es
  | .drop a => es.eraseIdx a
  | .gc => es
  | .addVars _ => es
  | .setVarOrder _ => es
  | s =>
    match opRes E c g s with
    | some (some _, _) => newExpr es s :: es
    | _ => es

/-- machine and ghost side by side -/
def runT (E : Alg T) (c : Cfg) (hist : List (Step T)) : GSt T × List (Expr T) :=
  hist.foldl (fun x s => (step E c x.1 s, track E c x.1 x.2 s)) (GSt.empty, [])

theorem runT_fst (E : Alg T) (c : Cfg) (hist : List (Step T)) :
    (runT E c hist).1 = run E c hist := by
  unfold runT run
  generalize (GSt.empty : GSt T) = g0
  generalize ([] : List (Expr T)) = e0
  induction hist generalizing g0 e0 with
  | nil => rfl
  | cons s rest ih => exact ih _ _

/-- value of a tree under an assignment of the VARIABLES (levels outside the map read as
themselves) -/
def evalL (l2v : List Nat) (ρ : Nat → Bool) (t : MT T) : T := t.eval (fun l => ρ (l2v.getD l l))

end OxiddModel.Mtbdd.Global
