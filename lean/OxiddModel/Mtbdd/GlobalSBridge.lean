import OxiddModel.Mtbdd.GlobalSInv
import OxiddModel.Mtbdd.GlobalSTermEdges
import OxiddModel.Reorder.PropertiesStoreN

/-!
# The bridge between `Rc.RSt T` and `SwapStoreN.SStore Nat`

`toS` / `ofS` (`GlobalS.lean`) translate between the store of the operation algorithms
(`Array (Option Node)` + terminal table + two counter arrays) and the store of the reordering
algorithm (list of slots `(level, [t, e], rc)` over terminal *slot numbers* + per-level tables).

* `toS_inv`: `RcInv` for the handle list + `OrdInv` + `Unique` + `NoRed` give `SwapStoreN.Inv 2`
  for the multiset of inner handles;
* `toS_heapP`: every terminal edge of the heap `toS` builds names an occupied terminal slot;
* `ofS_rc/ofS_ord/ofS_unique/ofS_nored`: back — `SwapStoreN.Inv 2` + "every terminal edge names an
  occupied slot" give the invariants of the operation side, **including exact terminal counters**
  (by the definition of `ofS`, see the header of `GlobalS.lean`);
* `Lift`, `denotes_denM`, `denM_denotes`: a tree of terminal slot numbers (`DenM` of the
  reordering side) and the tree of values (`Denotes` of the operation side) an edge unfolds to.
-/
set_option linter.unusedSectionVars false

namespace OxiddModel.Mtbdd.Global
open OxiddModel.Mtbdd OxiddModel.Mtbdd.Refine OxiddModel.Mtbdd.Rc OxiddModel.CachePolicy
open OxiddModel.Reorder
open TermEdges (HeapP EdgeP)

variable {T : Type}

/-- the multiset of inner handles as the `ext` function of `SwapStoreN.Inv` -/
def extOfHs (hs : List Edge) : Nat → Nat := fun k => hs.count (.inner k)

/-- the shape of a node on the reordering side -/
def encNode (nd : Node) : SwapStoreN.Node Nat := ⟨nd.level, [enc nd.t, enc nd.e]⟩

theorem enc_inj {a b : Edge} (h : enc a = enc b) : a = b := by
  cases a <;> cases b <;> simp_all [enc]

theorem dec_inj {a b : SEdge} (h : dec a = dec b) : a = b := by
  cases a <;> cases b <;> simp_all [dec]

@[simp] theorem dec_enc (a : Edge) : dec (enc a) = a := by cases a <;> rfl
@[simp] theorem enc_dec (a : SEdge) : enc (dec a) = a := by cases a <;> rfl

theorem enc_eq_inner {a : Edge} {j : Nat} (h : enc a = .inner j) : a = .inner j := by
  cases a <;> simp_all [enc]

theorem encNode_inj {a b : Node} (h : encNode a = encNode b) : a = b := by
  cases a; cases b
  simp only [encNode, SwapStoreN.Node.mk.injEq, List.cons.injEq, and_true] at h
  obtain ⟨h1, h2, h3⟩ := h
  rw [h1, enc_inj h2, enc_inj h3]

theorem pt_enc (e : Edge) (i : Nat) : SwapStoreN.pt (enc e) i = cnt e (.inner i) := by
  cases e with
  | term j => simp [enc, SwapStoreN.pt, cnt]
  | inner j => simp [enc, SwapStoreN.pt, cnt]

theorem pt_dec (a : SEdge) (i : Nat) : SwapStoreN.pt a i = cnt (dec a) (.inner i) := by
  rw [← pt_enc, enc_dec]

/-! ## `toS` -/

theorem get?_lt {s : Store T} {i : Nat} {nd : Node} (h : s.get? i = some nd) : i < s.nodes.size :=
  slots_get?_lt h

theorem toHeap_get? (r : RSt T) (i : Nat) :
    (toHeap r).get? i =
      (r.st.store.get? i).map fun nd => (⟨nd.level, [enc nd.t, enc nd.e], rcGet r.rc i⟩ : SNodeN) := by
  unfold toHeap SwapStoreN.Heap.get?
  simp only [List.getElem?_map]
  by_cases hi : i < r.st.store.nodes.size
  · simp [hi]
  · have : r.st.store.get? i = none := by simp [Store.get?, Slots.get?, hi]
    simp [hi, this]

theorem toHeap_sh (r : RSt T) (i : Nat) :
    (toHeap r).sh i = (r.st.store.get? i).map encNode := by
  unfold SwapStoreN.Heap.sh
  rw [toHeap_get?]
  cases r.st.store.get? i with
  | none => rfl
  | some nd => rfl

theorem toHeap_sh_some {r : RSt T} {i : Nat} {n : SwapStoreN.Node Nat}
    (h : (toHeap r).sh i = some n) : ∃ nd, r.st.store.get? i = some nd ∧ n = encNode nd := by
  rw [toHeap_sh] at h
  cases hg : r.st.store.get? i with
  | none => rw [hg] at h; cases h
  | some nd => rw [hg] at h; cases h; exact ⟨nd, rfl, rfl⟩

theorem toHeap_rcOf (r : RSt T) (i : Nat) :
    (toHeap r).rcOf i = if (r.st.store.get? i).isSome then rcGet r.rc i else 0 := by
  unfold SwapStoreN.Heap.rcOf
  rw [toHeap_get?]
  cases r.st.store.get? i <;> rfl

theorem range_map_get? {α : Type} (a : Array (Option α)) :
    (List.range a.size).map (Slots.get? a) = a.toList := by
  apply List.ext_getElem
  · simp
  · intro i h1 h2
    have hi : i < a.size := by simpa using h2
    simp [Slots.get?, hi]

theorem toHeap_refs (r : RSt T) (i : Nat) :
    (toHeap r).refs i = parents r.st.store (.inner i) := by
  unfold SwapStoreN.Heap.refs parents parentsA toHeap
  rw [← range_map_get? r.st.store.nodes]
  simp only [List.map_map]
  congr 1
  apply List.map_congr_left
  intro k _
  simp only [Function.comp]
  show SwapStoreN.cntO ((r.st.store.get? k).map _) i = refsOpt (.inner i) (r.st.store.get? k)
  cases r.st.store.get? k with
  | none => rfl
  | some nd =>
    simp only [Option.map_some, SwapStoreN.cntO, SwapStoreN.pts, List.map_cons, List.map_nil,
      List.sum_cons, List.sum_nil, pt_enc, refsOpt]
    omega

theorem toS_table (r : RSt T) (n l : Nat) :
    (toS r n).table l = if l < n then tableOf r.st.store l else [] := by
  unfold SwapStoreN.SStore.table toS
  simp only [List.getD_eq_getElem?_getD, List.getElem?_map]
  by_cases hl : l < n <;> simp [hl]

theorem mem_tableOf {s : Store T} {l i : Nat} :
    i ∈ tableOf s l ↔ ∃ nd, s.get? i = some nd ∧ nd.level = l := by
  unfold tableOf
  simp only [List.mem_filter, List.mem_range]
  constructor
  · rintro ⟨_, h⟩
    cases hg : s.get? i with
    | none => simp [hg] at h
    | some nd => exact ⟨nd, rfl, by simpa [hg] using h⟩
  · rintro ⟨nd, hg, hl⟩
    exact ⟨get?_lt hg, by simp [hg, hl]⟩

theorem parents_zero_of_free {r : RSt T} {ext : List Edge} (h : RcInv r ext) {j : Nat}
    (hj : r.st.store.get? j = none) : parents r.st.store (.inner j) = 0 := by
  apply parents_zero
  intro k n hk
  obtain ⟨h1, h2⟩ := h.kids_ok k n hk
  constructor
  · intro e; rw [e] at h1; obtain ⟨m, hm⟩ := h1; rw [hj] at hm; cases hm
  · intro e; rw [e] at h2; obtain ⟨m, hm⟩ := h2; rw [hj] at hm; cases hm

theorem toS_len (r : RSt T) (n : Nat) : (toS r n).tables.length = n := by simp [toS]

/-- **`toS_inv`.** The invariants of the operation side give the invariant of the reordering side
for the same handle multiset. -/
theorem toS_inv {r : RSt T} {hs : List Edge} {n : Nat} (hrc : RcInv r hs) (ho : OrdInv n r)
    (hu : r.st.store.Unique) (hr : r.st.store.NoRed) :
    SwapStoreN.Inv 2 (extOfHs hs) (toS r n) where
  kpos := by decide
  arity i nd hi := by
    obtain ⟨nd', _, rfl⟩ := toHeap_sh_some hi
    rfl
  tbl_iff l i := by
    rw [toS_table]
    show _ ↔ ∃ nd, (toHeap r).sh i = some nd ∧ nd.level = l
    by_cases hl : l < n
    · simp only [hl, if_true]
      rw [mem_tableOf]
      constructor
      · rintro ⟨nd, hg, hlv⟩
        exact ⟨encNode nd, by rw [toHeap_sh, hg]; rfl, hlv⟩
      · rintro ⟨nd, hg, hlv⟩
        obtain ⟨nd', hg', rfl⟩ := toHeap_sh_some hg
        exact ⟨nd', hg', hlv⟩
    · simp only [hl, if_false]
      constructor
      · intro h; cases h
      · rintro ⟨nd, hg, hlv⟩
        obtain ⟨nd', hg', rfl⟩ := toHeap_sh_some hg
        have := ho.bound i nd' hg'
        have e : nd'.level = l := hlv
        omega
  tbl_nodup l := by
    rw [toS_table]
    split
    · exact List.Nodup.sublist List.filter_sublist List.nodup_range
    · exact List.nodup_nil
  ordered i nd hi k hk := by
    change (toHeap r).sh i = some nd at hi
    obtain ⟨nd', hg, rfl⟩ := toHeap_sh_some hi
    show ∃ m, (toHeap r).sh k = some m ∧ _
    obtain ⟨h1, h2⟩ := hrc.kids_ok i nd' hg
    have hk' : nd'.t = .inner k ∨ nd'.e = .inner k := by
      simp only [encNode, List.mem_cons, List.not_mem_nil, or_false] at hk
      rcases hk with hk | hk
      · exact .inl (enc_eq_inner hk.symm)
      · exact .inr (enc_eq_inner hk.symm)
    have : Has r.st.store (.inner k) := by
      rcases hk' with e | e
      · rw [e] at h1; exact h1
      · rw [e] at h2; exact h2
    obtain ⟨m, hm⟩ := this
    exact ⟨encNode m, by rw [toHeap_sh, hm]; rfl, ho.ord i nd' k m hg hk' hm⟩
  nored i nd hi := by
    change (toHeap r).sh i = some nd at hi
    obtain ⟨nd', hg, rfl⟩ := toHeap_sh_some hi
    rintro ⟨x, _, hall⟩
    have h1 := hall (enc nd'.t) (by simp [encNode])
    have h2 := hall (enc nd'.e) (by simp [encNode])
    exact hr i nd' hg (enc_inj (h1.trans h2.symm))
  uniq i j nd hi hj := by
    change (toHeap r).sh i = some nd at hi
    change (toHeap r).sh j = some nd at hj
    obtain ⟨a, ha, rfl⟩ := toHeap_sh_some hi
    obtain ⟨b, hb, e⟩ := toHeap_sh_some hj
    have := encNode_inj e
    subst this
    exact hu.1 i j a ha hb
  rc j := by
    show (toHeap r).rcOf j = SwapStoreN.live01 (toHeap r) j + extOfHs hs j + (toHeap r).refs j
    rw [toHeap_rcOf, toHeap_refs]
    unfold SwapStoreN.live01
    rw [toHeap_sh]
    cases hg : r.st.store.get? j with
    | some nd =>
      simp only [Option.isSome_some, if_true, Option.map_some]
      have := hrc.rc_eq (.inner j) ⟨nd, hg⟩
      simp only [RSt.rcOf] at this
      rw [this]; rfl
    | none =>
      simp only [Option.isSome_none, Option.map_none]
      have h1 : extOfHs hs j = 0 := by
        unfold extOfHs
        apply List.count_eq_zero.mpr
        intro hm
        obtain ⟨m, hm⟩ := hrc.ext_ok _ hm
        rw [hg] at hm; cases hm
      rw [h1, parents_zero_of_free hrc hg]
      rfl

/-- the terminal slot is occupied -/
def TermStored (terms : Array (Option T)) (j : Nat) : Prop := ∃ v, Slots.get? terms j = some v

/-- every terminal edge of the heap `toS` builds names an occupied terminal slot -/
theorem toS_heapP {r : RSt T} {hs : List Edge} (hrc : RcInv r hs) :
    HeapP (TermStored r.st.store.terms) (toHeap r) := by
  intro i n hi c hc
  rw [toHeap_get?] at hi
  cases hg : r.st.store.get? i with
  | none => rw [hg] at hi; cases hi
  | some nd =>
    rw [hg] at hi
    simp only [Option.map_some, Option.some.injEq] at hi
    subst hi
    obtain ⟨h1, h2⟩ := hrc.kids_ok i nd hg
    simp only [List.mem_cons, List.not_mem_nil, or_false] at hc
    rcases hc with rfl | rfl
    · cases ht : nd.t with
      | term j => rw [ht] at h1; exact h1
      | inner j => trivial
    · cases he : nd.e with
      | term j => rw [he] at h2; exact h2
      | inner j => trivial

/-! ## `ofS` -/

theorem ofS_get? (s : SSt) (terms : Array (Option T)) (tick : Nat) (hs : List Edge) (i : Nat) :
    (ofS s terms tick hs).st.store.get? i = (s.h.get? i).map decNode := by
  unfold ofS Store.get? Slots.get? decSlots SwapStoreN.Heap.get?
  simp only [List.getElem?_toArray, List.getElem?_map]
  cases s.h.slots[i]? with
  | none => rfl
  | some o => cases o <;> rfl

theorem ofS_getTerm? (s : SSt) (terms : Array (Option T)) (tick : Nat) (hs : List Edge) (i : Nat) :
    (ofS s terms tick hs).st.store.getTerm? i = Slots.get? terms i := rfl

theorem list_len2 {α : Type} {xs : List α} (h : xs.length = 2) : ∃ a b, xs = [a, b] := by
  match xs, h with
  | [a, b], _ => exact ⟨a, b, rfl⟩

/-- a live slot of a binary heap: both representations -/
theorem ofS_node {ext : Nat → Nat} {s : SSt} (hinv : SwapStoreN.Inv 2 ext s)
    (terms : Array (Option T)) (tick : Nat) (hs : List Edge) {i : Nat} {nd : Node}
    (hi : (ofS s terms tick hs).st.store.get? i = some nd) :
    s.h.sh i = some ⟨nd.level, [enc nd.t, enc nd.e]⟩ := by
  rw [ofS_get?] at hi
  cases hg : s.h.get? i with
  | none => rw [hg] at hi; cases hi
  | some m =>
    rw [hg] at hi
    simp only [Option.map_some, Option.some.injEq] at hi
    have hsh : s.h.sh i = some m.toNode := SwapStoreN.sh_of_get? hg
    obtain ⟨a, b, hab⟩ := list_len2 (hinv.arity i _ hsh)
    rw [hsh]
    subst hi
    cases m with
    | mk l ch rc =>
      simp only [SwapStoreN.SNode.toNode] at hab ⊢
      subst hab
      simp [decNode]

theorem ofS_node' (s : SSt) (terms : Array (Option T)) (tick : Nat) (hs : List Edge) {i l : Nat}
    {a b : SEdge} (hi : s.h.sh i = some ⟨l, [a, b]⟩) :
    (ofS s terms tick hs).st.store.get? i = some ⟨l, dec a, dec b⟩ := by
  rw [ofS_get?]
  obtain ⟨m, hm, hmn⟩ := SwapStoreN.sh_eq_some.mp hi
  rw [hm]
  cases m with
  | mk l' ch rc =>
    simp only [SwapStoreN.SNode.toNode, SwapStoreN.Node.mk.injEq] at hmn
    obtain ⟨rfl, rfl⟩ := hmn
    simp [decNode]

theorem ofS_rcGet (s : SSt) (terms : Array (Option T)) (tick : Nat) (hs : List Edge) (i : Nat) :
    rcGet (ofS s terms tick hs).rc i = s.h.rcOf i := by
  unfold rcGet ofS SwapStoreN.Heap.rcOf SwapStoreN.Heap.get?
  simp only [Array.getD_eq_getD_getElem?, List.getElem?_toArray, List.getElem?_map]
  cases s.h.slots[i]? with
  | none => rfl
  | some o => cases o <;> rfl

theorem ofS_trcGet (s : SSt) (terms : Array (Option T)) (tick : Nat) (hs : List Edge) {j : Nat}
    (hj : j < terms.size) :
    rcGet (ofS s terms tick hs).trc j = exactTrc (decSlots s.h) hs j := by
  unfold rcGet ofS
  simp [Array.getD_eq_getD_getElem?, hj]

theorem count_pos_of_mem {hs : List Edge} {k : Nat} (h : .inner k ∈ hs) : 0 < extOfHs hs k :=
  List.count_pos_iff.mpr h

/-- parent edges to an inner slot, counted on either side -/
theorem ofS_refs {ext : Nat → Nat} {s : SSt} (hinv : SwapStoreN.Inv 2 ext s) (i : Nat) :
    s.h.refs i = parentsA (decSlots s.h) (.inner i) := by
  unfold SwapStoreN.Heap.refs parentsA decSlots
  simp only [List.map_map]
  congr 1
  apply List.map_congr_left
  intro o ho
  simp only [Function.comp]
  cases o with
  | none => rfl
  | some m =>
    obtain ⟨k, hk, hko⟩ := List.mem_iff_getElem.mp ho
    have hg : s.h.get? k = some m := by
      unfold SwapStoreN.Heap.get?
      rw [List.getElem?_eq_getElem hk, hko]; rfl
    obtain ⟨a, b, hab⟩ := list_len2 (hinv.arity k _ (SwapStoreN.sh_of_get? hg))
    cases m with
    | mk l ch rc =>
      simp only [SwapStoreN.SNode.toNode] at hab
      subst hab
      simp only [SwapStoreN.cntO, SwapStoreN.pts, List.map_cons, List.map_nil, List.sum_cons,
        List.sum_nil, Option.map_some, refsOpt, decNode, pt_dec]
      simp

/-- **`ofS_rc`**: exact counters (inner: from the heap; terminals: by definition), no dangling
edge -/
theorem ofS_rc {s : SSt} {hs : List Edge} (hinv : SwapStoreN.Inv 2 (extOfHs hs) s)
    (terms : Array (Option T)) (hP : HeapP (TermStored terms) s.h)
    (hts : ∀ j, .term j ∈ hs → TermStored terms j) (tick : Nat) :
    RcInv (ofS s terms tick hs) hs where
  ext_ok e he := by
    cases e with
    | term j => exact hts j he
    | inner k =>
      have := hinv.live_of_ext (count_pos_of_mem he)
      obtain ⟨nd, hnd⟩ := Option.ne_none_iff_exists'.mp this
      obtain ⟨a, b, hab⟩ := list_len2 (hinv.arity k nd hnd)
      cases nd with
      | mk l ch =>
        simp only at hab; subst hab
        exact ⟨_, ofS_node' s terms tick hs hnd⟩
  kids_ok i nd hi := by
    have hsh := ofS_node hinv terms tick hs hi
    obtain ⟨m, hm, _⟩ := SwapStoreN.sh_eq_some.mp hsh
    have key : ∀ c, (c = nd.t ∨ c = nd.e) → Has (ofS s terms tick hs).st.store c := by
      intro c hc
      have hmem : enc c ∈ [enc nd.t, enc nd.e] := by
        rcases hc with rfl | rfl <;> simp
      cases c with
      | term j =>
        have hch : m.ch = [enc nd.t, enc nd.e] := by
          have := SwapStoreN.sh_of_get? hm
          rw [hsh] at this
          cases m; simp only [SwapStoreN.SNode.toNode, Option.some.injEq,
            SwapStoreN.Node.mk.injEq] at this
          exact this.2.symm
        exact hP i m hm (.term j) (by rw [hch]; exact hmem)
      | inner k =>
        obtain ⟨mk, hmk, _⟩ := hinv.ordered i _ hsh k hmem
        obtain ⟨a, b, hab⟩ := list_len2 (hinv.arity k mk hmk)
        cases mk with
        | mk l ch =>
          simp only at hab; subst hab
          exact ⟨_, ofS_node' s terms tick hs hmk⟩
    exact ⟨key _ (.inl rfl), key _ (.inr rfl)⟩
  cache_ok _ _ h := by cases h
  rc_eq x hx := by
    cases x with
    | inner i =>
      obtain ⟨nd, hnd⟩ := hx
      have hsh := ofS_node hinv terms tick hs hnd
      show rcGet (ofS s terms tick hs).rc i = _
      rw [ofS_rcGet]
      have := hinv.rc i
      simp only [SwapStoreN.live01, hsh, Option.isSome_some, if_true] at this
      rw [this, ofS_refs hinv]
      rfl
    | term j =>
      obtain ⟨v, hv⟩ := hx
      show rcGet (ofS s terms tick hs).trc j = _
      rw [ofS_trcGet s terms tick hs (slots_get?_lt hv)]
      rfl

theorem ofS_ord {ext : Nat → Nat} {s : SSt} (hinv : SwapStoreN.Inv 2 ext s)
    (terms : Array (Option T)) (tick : Nat) (hs : List Edge) :
    OrdInv s.tables.length (ofS s terms tick hs) where
  ord i nd j m hi hc hj := by
    have h1 := ofS_node hinv terms tick hs hi
    have h2 := ofS_node hinv terms tick hs hj
    have hmem : SwapStoreN.Edge.inner j ∈ [enc nd.t, enc nd.e] := by
      rcases hc with e | e <;> rw [e] <;> simp [enc]
    obtain ⟨m', hm', hlt⟩ := hinv.ordered i _ h1 j hmem
    rw [h2] at hm'; cases hm'; exact hlt
  bound i nd hi := hinv.level_lt (ofS_node hinv terms tick hs hi)
  cache _ _ h := by cases h

theorem ofS_unique {ext : Nat → Nat} {s : SSt} (hinv : SwapStoreN.Inv 2 ext s)
    (terms : Array (Option T)) (hut : Slots.Unique terms) (tick : Nat) (hs : List Edge) :
    (ofS s terms tick hs).st.store.Unique := by
  refine ⟨?_, hut⟩
  intro i j nd hi hj
  exact hinv.uniq i j _ (ofS_node hinv terms tick hs hi) (ofS_node hinv terms tick hs hj)

theorem ofS_nored {ext : Nat → Nat} {s : SSt} (hinv : SwapStoreN.Inv 2 ext s)
    (terms : Array (Option T)) (tick : Nat) (hs : List Edge) :
    (ofS s terms tick hs).st.store.NoRed := by
  intro i nd hi hte
  refine hinv.nored i _ (ofS_node hinv terms tick hs hi) ⟨enc nd.t, by simp, ?_⟩
  intro y hy
  simp only [List.mem_cons, List.not_mem_nil, or_false] at hy
  rcases hy with rfl | rfl
  · rfl
  · rw [hte]

/-! ## trees of slot numbers and trees of values -/

/-- `Lift terms tid t`: `t` is `tid` with every terminal slot number replaced by the value stored
in that slot -/
inductive Lift (terms : Array (Option T)) : MT Nat → MT T → Prop
  | leaf {j : Nat} {v : T} : Slots.get? terms j = some v → Lift terms (.leaf j) (.leaf v)
  | node {l : Nat} {a b : MT Nat} {ta tb : MT T} : Lift terms a ta → Lift terms b tb →
      Lift terms (.node l a b) (.node l ta tb)

theorem Lift.eval {terms : Array (Option T)} {tid : MT Nat} {t : MT T} (h : Lift terms tid t)
    (σ : Nat → Bool) : Slots.get? terms (tid.eval σ) = some (t.eval σ) := by
  induction h with
  | leaf hv => exact hv
  | node _ _ iha ihb =>
    simp only [MT.eval]
    split
    · exact iha
    · exact ihb

/-- operation side → reordering side -/
theorem denotes_denM {r : RSt T} {x : Edge} {t : MT T} (hd : Denotes r.st.store x t) :
    ∃ tid, SwapStoreN.DenM (toHeap r).sh (enc x) tid ∧ Lift r.st.store.terms tid t := by
  induction hd with
  | @term i v hi => exact ⟨.leaf i, .term, .leaf hi⟩
  | @inner i l a b ta tb hi _ _ iha ihb =>
    obtain ⟨ia, ha1, ha2⟩ := iha
    obtain ⟨ib, hb1, hb2⟩ := ihb
    refine ⟨.node l ia ib, ?_, .node ha2 hb2⟩
    exact .inner (by rw [toHeap_sh, hi]; rfl) ha1 hb1

/-- reordering side → operation side -/
theorem denM_denotes {s : SSt} (terms : Array (Option T))
    (hP : HeapP (TermStored terms) s.h) (tick : Nat) (hs : List Edge) {y : SEdge} {tid : MT Nat}
    (hd : SwapStoreN.DenM s.h.sh y tid) (hy : ∀ j, y = .term j → TermStored terms j) :
    ∃ t, Denotes (ofS s terms tick hs).st.store (dec y) t ∧ Lift terms tid t := by
  induction hd with
  | @term j =>
    obtain ⟨v, hv⟩ := hy j rfl
    exact ⟨.leaf v, .term hv, .leaf hv⟩
  | @inner i l a b ta tb hi _ _ iha ihb =>
    obtain ⟨m, hm, hmn⟩ := SwapStoreN.sh_eq_some.mp hi
    have hch : m.ch = [a, b] := by
      cases m; simp only [SwapStoreN.SNode.toNode, SwapStoreN.Node.mk.injEq] at hmn; exact hmn.2
    obtain ⟨ua, ha1, ha2⟩ := iha (fun j e => by
      have := hP i m hm a (by rw [hch]; simp)
      rw [e] at this; exact this)
    obtain ⟨ub, hb1, hb2⟩ := ihb (fun j e => by
      have := hP i m hm b (by rw [hch]; simp)
      rw [e] at this; exact this)
    exact ⟨.node l ua ub, .inner (ofS_node' s terms tick hs hi) ha1 hb1, .node ha2 hb2⟩

end OxiddModel.Mtbdd.Global
