import OxiddModel.Mtbdd.GlobalS
import OxiddModel.Mtbdd.RcSLemmasSem
import OxiddModel.Mtbdd.PropertiesC05R

/-!
# MTBDD global machine: the invariant and the meaning of handles — definitions, small lemmas

* `AlgOK L okB ok`: what the existing spec theorems need of the terminal algebra (hypothesis on `L`
  only): `TerminalLaws`, `TerminalClosed`, `TerminalComm` for a predicate `ok` of admissible
  values, and `okB` is a sound test for `ok`;
* `OrdOK n v2l l2v`: both maps have `n` entries and are mutually inverse;
* `GInv`: counters exact for the handle list, inner nodes and terminals (`RcInv`), store ordered
  with all levels `< n` (`OrdInv`), node table and terminal table hash consed, stored terminals
  admissible, cache sound (`Refine.Inv`), reduced (`NoRed`), maps inverse;
* `HDen`, `Sem`: every handle denotes a tree whose function of the VARIABLES is that of its
  expression;
* `denotes_nf`: every tree of such a store is in normal form; `size_lt_of_ordered`: sizes of
  ordered trees over `n` levels, so the fuel `fuelOf n` suffices;
* `applyIte_eval`: the pointwise meaning of `apply_ite` without the 0-1 precondition.
-/
set_option linter.unusedSectionVars false

namespace OxiddModel.Mtbdd.Global
open OxiddModel.Mtbdd OxiddModel.Mtbdd.Refine OxiddModel.Mtbdd.Rc OxiddModel.CachePolicy
open OxiddModel.Reorder

/-! ## lists -/

/-- two lists of the same length related element by element -/
inductive All2 {α β} (R : α → β → Prop) : List α → List β → Prop
  | nil : All2 R [] []
  | cons {a : α} {b : β} {l : List α} {m : List β} : R a b → All2 R l m → All2 R (a :: l) (b :: m)

theorem forall₂_length {α β} {R : α → β → Prop} {l : List α} {m : List β}
    (h : All2 R l m) : m.length = l.length := by
  induction h with
  | nil => rfl
  | cons _ _ ih => simp [ih]

theorem forall₂_get {α β} {R : α → β → Prop} {l : List α} {m : List β}
    (h : All2 R l m) {i : Nat} {x : α} (hx : l[i]? = some x) :
    ∃ y, m[i]? = some y ∧ R x y := by
  induction h generalizing i with
  | nil => simp at hx
  | @cons a b l m hab _ ih =>
    cases i with
    | zero => simp at hx; subst hx; exact ⟨b, by simp, hab⟩
    | succ i => simp at hx; simpa using ih hx

theorem forall₂_getD {α β} [Inhabited β] {R : α → β → Prop} {l : List α} {m : List β}
    (h : All2 R l m) {i : Nat} {x : α} (hx : l[i]? = some x) : R x (m.getD i default) := by
  obtain ⟨y, hy, hr⟩ := forall₂_get h hx
  simp [List.getD_eq_getElem?_getD, hy, hr]

theorem forall₂_eraseIdx {α β} {R : α → β → Prop} {l : List α} {m : List β}
    (h : All2 R l m) (i : Nat) : All2 R (l.eraseIdx i) (m.eraseIdx i) := by
  induction h generalizing i with
  | nil => exact .nil
  | cons hab hrest ih =>
    cases i with
    | zero => simpa using hrest
    | succ i => simpa using All2.cons hab (ih i)

theorem forall₂_imp_mem {α β} {R S : α → β → Prop} {l : List α} {m : List β}
    (h : All2 R l m) (hi : ∀ x y, x ∈ l → R x y → S x y) : All2 S l m := by
  induction h with
  | nil => exact .nil
  | cons hab _ ih =>
    exact .cons (hi _ _ List.mem_cons_self hab)
      (ih (fun x y hx => hi x y (List.mem_cons_of_mem _ hx)))

theorem count_cons_eraseIdx {l : List Edge} {a : Nat} {f : Edge} (h : l[a]? = some f) (e : Edge) :
    (f :: l.eraseIdx a).count e = l.count e := by
  induction l generalizing a with
  | nil => simp at h
  | cons y tl ih =>
    cases a with
    | zero => simp at h; subst h; simp
    | succ a =>
      simp at h
      have := ih h
      simp only [List.eraseIdx_cons_succ, List.count_cons] at this ⊢
      omega

/-! ## the order maps -/

structure OrdOK (n : Nat) (v2l l2v : List Nat) : Prop where
  lenL : l2v.length = n
  lenV : v2l.length = n
  lv : ∀ l, l < n → l2v.getD l 0 < n ∧ v2l.getD (l2v.getD l 0) 0 = l
  vl : ∀ v, v < n → v2l.getD v 0 < n ∧ l2v.getD (v2l.getD v 0) 0 = v

theorem getD_lt {l : List Nat} {i d d' : Nat} (h : i < l.length) : l.getD i d = l.getD i d' := by
  simp [List.getD_eq_getElem?_getD, List.getElem?_eq_getElem h]

theorem getD_ge {l : List Nat} {i d : Nat} (h : l.length ≤ i) : l.getD i d = d := by
  simp [List.getD_eq_getElem?_getD, List.getElem?_eq_none h]

/-- under `OrdOK` the two maps, read as the identity outside `[0, n)`, are inverse on all of `Nat` -/
theorem OrdOK.v2l_l2v {n : Nat} {v2l l2v : List Nat} (h : OrdOK n v2l l2v) (l : Nat) :
    v2l.getD (l2v.getD l l) (l2v.getD l l) = l := by
  by_cases hl : l < n
  · have h1 : l2v.getD l l = l2v.getD l 0 := getD_lt (h.lenL ▸ hl)
    rw [h1]
    obtain ⟨h2, h3⟩ := h.lv l hl
    rw [getD_lt (d' := 0) (h.lenV ▸ h2)]
    exact h3
  · have h1 : l2v.getD l l = l := getD_ge (by rw [h.lenL]; omega)
    rw [h1]
    exact getD_ge (by rw [h.lenV]; omega)

theorem OrdOK.l2v_v2l {n : Nat} {v2l l2v : List Nat} (h : OrdOK n v2l l2v) {v : Nat} (hv : v < n) :
    l2v.getD (v2l.getD v 0) (v2l.getD v 0) = v := by
  obtain ⟨h2, h3⟩ := h.vl v hv
  rw [getD_lt (d' := 0) (h.lenL ▸ h2)]
  exact h3

theorem ordOK_empty : OrdOK 0 [] [] :=
  ⟨rfl, rfl, fun _ h => by omega, fun _ h => by omega⟩

theorem getD_append_range' (l : List Nat) (k i : Nat) :
    (l ++ List.range' l.length k).getD i i = l.getD i i := by
  by_cases h1 : i < l.length
  · simp [List.getD_eq_getElem?_getD, List.getElem?_append_left h1]
  · have h1' : l.length ≤ i := Nat.le_of_not_lt h1
    rw [getD_ge h1']
    by_cases h2 : i < l.length + k
    · simp only [List.getD_eq_getElem?_getD]
      rw [List.getElem?_append_right h1']
      have : i - l.length < (List.range' l.length k).length := by simp; omega
      rw [List.getElem?_eq_getElem this]
      simp; omega
    · exact getD_ge (by simp; omega)

theorem getD_append_range'_zero (l : List Nat) (k i : Nat) (hi : i < l.length + k) :
    (l ++ List.range' l.length k).getD i 0 = if i < l.length then l.getD i 0 else i := by
  have hlen : i < (l ++ List.range' l.length k).length := by simp; omega
  rw [getD_lt (d' := i) hlen, getD_append_range']
  split
  · rename_i h; exact getD_lt h
  · rename_i h; exact getD_ge (Nat.le_of_not_lt h)

theorem ordOK_addVars {n : Nat} {v2l l2v : List Nat} (h : OrdOK n v2l l2v) (k : Nat) :
    OrdOK (n + k) (v2l ++ List.range' n k) (l2v ++ List.range' n k) := by
  have hL := h.lenL
  have hV := h.lenV
  refine ⟨by simp [hL], by simp [hV], ?_, ?_⟩
  · intro l hl
    have e1 := getD_append_range'_zero l2v k l (by omega)
    rw [hL] at e1
    rw [e1]
    by_cases hln : l < n
    · simp only [hln, if_true]
      obtain ⟨h2, h3⟩ := h.lv l hln
      have e2 := getD_append_range'_zero v2l k (l2v.getD l 0) (by omega)
      rw [hV] at e2
      rw [e2]; simp only [h2, if_true]
      exact ⟨by omega, h3⟩
    · simp only [hln, if_false]
      have e2 := getD_append_range'_zero v2l k l (by omega)
      rw [hV] at e2
      rw [e2]; simp only [hln, if_false]
      exact ⟨hl, trivial⟩
  · intro v hv
    have e1 := getD_append_range'_zero v2l k v (by omega)
    rw [hV] at e1
    rw [e1]
    by_cases hvn : v < n
    · simp only [hvn, if_true]
      obtain ⟨h2, h3⟩ := h.vl v hvn
      have e2 := getD_append_range'_zero l2v k (v2l.getD v 0) (by omega)
      rw [hL] at e2
      rw [e2]; simp only [h2, if_true]
      exact ⟨by omega, h3⟩
    · simp only [hvn, if_false]
      have e2 := getD_append_range'_zero l2v k v (by omega)
      rw [hL] at e2
      rw [e2]; simp only [hvn, if_false]
      exact ⟨hv, trivial⟩

/-! ## the terminal algebra -/

variable {T : Type} [DecidableEq T]

/-- what the spec theorems of `apply_bin` / `apply_ite` (`applyS_spec`, `applyBin_sem`) need of
the terminal type: the laws `terminal_bin` takes for granted, closure of the admissible values
under the operations, commutativity of the four operators whose cache key is normalised — all
relative to a predicate `ok` of admissible values for which `okB` is a sound test. For `I64`
(`ok = I64.Valid`) these are `i64_terminalLaws`, `i64_terminalClosed`, `i64_terminalComm`. -/
structure AlgOK (E : Alg T) (ok : T → Prop) : Prop where
  laws : TerminalLaws E.L ok
  closed : TerminalClosed E.L ok
  comm : TerminalComm E.L ok
  sound : ∀ v, E.okB v = true → ok v

/-! ## the invariant -/

structure GInv (L : TermOps T) (ok : T → Prop) (g : GSt T) : Prop where
  /-- counters of inner nodes and terminals exact; no dangling edge -/
  rc : RcInv g.r g.hs
  /-- ordered w.r.t. the stored level numbers, all levels `< n` -/
  ord : OrdInv g.n g.r
  /-- node table and terminal table hash consed, stored terminals admissible, cache sound -/
  inv : Refine.Inv L ok g.r.st
  /-- reduced -/
  nored : g.r.st.store.NoRed
  /-- the var/level maps are mutually inverse -/
  perm : OrdOK g.n g.v2l g.l2v

theorem GInv.uniq {L : TermOps T} {ok : T → Prop} {g : GSt T} (h : GInv L ok g) :
    g.r.st.store.Unique := h.inv.1

/-- the edge denotes a tree whose function of the variables is `e.fn` -/
def HDen (L : TermOps T) (s : Store T) (l2v : List Nat) (x : Edge) (e : Expr T) : Prop :=
  ∃ t, Denotes s x t ∧ ∀ ρ, evalL l2v ρ t = e.fn L ρ

/-- every handle denotes the function of its producing expression -/
def Sem (L : TermOps T) (g : GSt T) (es : List (Expr T)) : Prop :=
  All2 (HDen L g.r.st.store g.l2v) g.hs es

theorem HDen.mono {L : TermOps T} {s s' : Store T} {l2v : List Nat} {x : Edge} {e : Expr T}
    (h : HDen L s l2v x e) (hle : s.Le s') : HDen L s' l2v x e := by
  obtain ⟨t, hd, he⟩ := h
  exact ⟨t, hd.mono hle, he⟩

/-! ## normal form of the denoted trees -/

theorem denotes_lbound {s : Store T} (ho : Rc.Ordered s) {i : Nat} {n : Node}
    (hi : s.get? i = some n) {c : Edge} (hc : n.t = c ∨ n.e = c) {tc : MT T}
    (hd : Denotes s c tc) : lbound (n.level + 1) tc := by
  cases hd with
  | term _ => trivial
  | @inner j l' t' e' _ _ hj _ _ =>
    exact ho i n j _ hi hc hj

/-- every tree of an ordered, reduced, hash-consed store is in normal form -/
theorem denotes_nf {s : Store T} (ho : Rc.Ordered s) (hr : s.NoRed) (hu : s.Unique) {x : Edge}
    {t : MT T} (hd : Denotes s x t) : NF t := by
  induction hd with
  | term _ => exact nf_leaf _
  | @inner i l t e tt te hi ht he iht ihe =>
    refine ⟨⟨denotes_lbound ho hi (.inl rfl) ht, denotes_lbound ho hi (.inr rfl) he, iht.1, ihe.1⟩,
      ?_, iht.2, ihe.2⟩
    intro heq
    subst heq
    exact hr i _ hi (inj_of_unique hu _ _ _ ht he)

theorem GInv.nf {L : TermOps T} {ok : T → Prop} {g : GSt T} (h : GInv L ok g) {x : Edge}
    {t : MT T} (hd : Denotes g.r.st.store x t) : NF t :=
  denotes_nf h.ord.ord h.nored h.uniq hd

/-! ## levels and sizes of trees -/

/-- all levels of the tree are `< n` -/
def LvlLt (n : Nat) : MT T → Prop
  | .leaf _ => True
  | .node l t e => l < n ∧ LvlLt n t ∧ LvlLt n e

theorem denotes_lvlLt {s : Store T} {n : Nat} (hb : ∀ i nd, s.get? i = some nd → nd.level < n)
    {x : Edge} {t : MT T} (hd : Denotes s x t) : LvlLt n t := by
  induction hd with
  | term _ => trivial
  | inner hi _ _ iht ihe => exact ⟨hb _ _ hi, iht, ihe⟩

theorem GInv.lvl {L : TermOps T} {ok : T → Prop} {g : GSt T} (h : GInv L ok g) {x : Edge}
    {t : MT T} (hd : Denotes g.r.st.store x t) : LvlLt g.n t := denotes_lvlLt h.ord.bound hd

theorem size_lt_of_ordered {n : Nat} : ∀ {t : MT T} {k : Nat}, Mtbdd.Ordered t → lbound k t →
    LvlLt n t → t.size + 1 ≤ 2 ^ (n - k + 1) := by
  intro t
  induction t with
  | leaf b =>
    intro k _ _ _
    have : 2 ^ 1 ≤ 2 ^ (n - k + 1) := Nat.pow_le_pow_right (by omega) (by omega)
    simp [MT.size]; omega
  | node l a b iha ihb =>
    intro k ho hk hl
    obtain ⟨ba, bb, oa, ob⟩ := ho
    obtain ⟨hln, hla, hlb⟩ := hl
    have hkl : k ≤ l := hk
    have h1 := iha oa ba hla
    have h2 := ihb ob bb hlb
    have e : n - (l + 1) + 1 = n - l := by omega
    rw [e] at h1 h2
    have h3 : 2 ^ (n - l + 1) ≤ 2 ^ (n - k + 1) := Nat.pow_le_pow_right (by omega) (by omega)
    have h4 : 2 ^ (n - l + 1) = 2 * 2 ^ (n - l) := by rw [Nat.pow_succ]; omega
    simp only [MT.size]
    omega

theorem lbound_zero (t : MT T) : lbound 0 t := by cases t <;> simp [lbound]

theorem GInv.size_lt {L : TermOps T} {ok : T → Prop} {g : GSt T} (h : GInv L ok g) {x : Edge}
    {t : MT T} (hd : Denotes g.r.st.store x t) : t.size < 2 ^ (g.n + 1) := by
  have := size_lt_of_ordered (h.nf hd).1 (lbound_zero t) (h.lvl hd)
  simp only [Nat.sub_zero] at this
  omega

theorem fuel2 {L : TermOps T} {ok : T → Prop} {g : GSt T} (h : GInv L ok g) {x y : Edge}
    {t u : MT T} (hx : Denotes g.r.st.store x t) (hy : Denotes g.r.st.store y u) :
    t.size + u.size ≤ fuelOf g.n := by
  have := h.size_lt hx; have := h.size_lt hy; unfold fuelOf; omega

theorem fuel3 {L : TermOps T} {ok : T → Prop} {g : GSt T} (h : GInv L ok g) {x y z : Edge}
    {t u w : MT T} (hx : Denotes g.r.st.store x t) (hy : Denotes g.r.st.store y u)
    (hz : Denotes g.r.st.store z w) : t.size + u.size + w.size ≤ fuelOf g.n := by
  have := h.size_lt hx; have := h.size_lt hy; have := h.size_lt hz; unfold fuelOf; omega

/-! ## evaluation under the order -/

theorem eval_congr_lvl {n : Nat} {σ σ' : Nat → Bool} (h : ∀ l, l < n → σ l = σ' l) :
    ∀ {t : MT T}, LvlLt n t → t.eval σ = t.eval σ' := by
  intro t
  induction t with
  | leaf b => intro _; rfl
  | node l a b iha ihb =>
    intro hl
    obtain ⟨hln, hla, hlb⟩ := hl
    simp only [MT.eval, h l hln, iha hla, ihb hlb]

/-- on trees over the `n` levels the default of the map lookup does not matter -/
theorem evalL_eq_zero {n : Nat} {l2v : List Nat} (hlen : l2v.length = n) (ρ : Nat → Bool)
    {t : MT T} (hl : LvlLt n t) : evalL l2v ρ t = t.eval (fun l => ρ (l2v.getD l 0)) := by
  unfold evalL
  exact eval_congr_lvl (fun l hln => by rw [getD_lt (d' := 0) (hlen ▸ hln)]) hl

theorem evalL_addVars (l2v : List Nat) (k : Nat) (ρ : Nat → Bool) (t : MT T) :
    evalL (l2v ++ List.range' l2v.length k) ρ t = evalL l2v ρ t := by
  unfold evalL
  congr 1
  funext l
  rw [getD_append_range']

/-- two trees with the same function of the variables have the same function of the levels -/
theorem eval_of_evalL {n : Nat} {v2l l2v : List Nat} (h : OrdOK n v2l l2v) {t t' : MT T}
    (he : ∀ ρ, evalL l2v ρ t = evalL l2v ρ t') (σ : Nat → Bool) : t.eval σ = t'.eval σ := by
  have key : (fun l => (fun v => σ (v2l.getD v v)) (l2v.getD l l)) = σ := by
    funext l; simp only [h.v2l_l2v l]
  have := he (fun v => σ (v2l.getD v v))
  unfold evalL at this
  rw [key] at this
  exact this

/-! ## `apply_ite` pointwise, without the 0-1 precondition -/

/-- the code's meaning of `ite`: where the condition evaluates to the terminal `zero` the value of
the else-operand, elsewhere (any other terminal) the value of the then-operand -/
theorem applyIte_eval (L : TermOps T) (f g h : MT T) (σ : Nat → Bool) :
    (applyIte L f g h).eval σ = if f.eval σ = L.zero then h.eval σ else g.eval σ := by
  fun_induction applyIte L f g h
  case case1 => simp
  case case2 => simp [MT.eval]
  case case3 a hna => simp [MT.eval, hna]
  case case4 g h hgh lf ft fe level ih2 ih1 =>
    rw [eval_mk, ih2, ih1]
    cases hs : σ level
    · simp only [Bool.false_eq_true, if_false]
      rw [eval_cof_false σ level _ hs, eval_cof_false σ level _ hs, eval_cof_false σ level _ hs]
    · simp only [if_true]
      rw [eval_cof_true σ level _ hs, eval_cof_true σ level _ hs, eval_cof_true σ level _ hs]

end OxiddModel.Mtbdd.Global
