import OxiddModel.Mtbdd.PropertiesGlobalS

/-!
# Three mutations of the MTBDD global machine and the histories on which C01 fails for them

`stepV vr` is `step` with one change (and `stepV .fixed = step`):

* `.gcKeepsCache`: `Manager::gc` without `pre_gc` clearing the apply cache. A cached result whose
  node was collected and whose slot was reused is returned for a different function.
* `.termNoHashCons`: `get_terminal` does not look the value up in the terminal unique table but
  always allocates a fresh slot (the terminal table is not hash consed). Two handles of the same
  constant are different edges.
* `.reorderKeepsCache`: `Manager::reorder` without `pre_gc` clearing the apply cache. `level_swap`
  frees an orphaned intermediate node; a stale entry pointing to the reused slot is returned.

For each a concrete `I64` history (kernel evaluation) ends with two handles for which the
conclusion of `global_canonical` is false — the same edge for different value tables, resp.
different edges for the same value table — so the theorem cannot be proved for the mutated machine;
on the same histories the real machine behaves as the theorem says.
-/
set_option linter.unusedSectionVars false

namespace OxiddModel.Mtbdd.Global
open OxiddModel.Mtbdd OxiddModel.Mtbdd.Refine OxiddModel.Mtbdd.Rc OxiddModel.CachePolicy

variable {T : Type} [DecidableEq T]

inductive Variant | fixed | gcKeepsCache | termNoHashCons | reorderKeepsCache
deriving DecidableEq

/-- `get_edge` without the lookup: always a fresh slot (`rc = 2`), OutOfMemory when full -/
def getTerminalFresh (tcap : Option Nat) (r : RSt T) (v : T) : Option Edge × RSt T :=
  if room tcap (slotCount r.st.store.terms) then
    let a := Slots.alloc r.st.store.terms v
    (some (.term a.2),
      { r with st := { r.st with store := ⟨r.st.store.nodes, a.1⟩ }, trc := rcSet r.trc a.2 2 })
  else (none, r)

def stepV (vr : Variant) (E : Alg T) (c : Cfg) (g : GSt T) (s : Step T) : GSt T :=
  match vr, s with
  | .gcKeepsCache, .gc =>
    let g' := step E c g .gc
    { g' with r := { g'.r with st := { g'.r.st with cache := g.r.st.cache } } }
  | .reorderKeepsCache, .setVarOrder o =>
    let g' := step E c g (.setVarOrder o)
    { g' with r := { g'.r with st := { g'.r.st with cache := g.r.st.cache } } }
  | .termNoHashCons, .const caps v =>
    pushOp g (if E.okB v then some (getTerminalFresh caps.term g.r v) else none)
  | _, s => step E c g s

theorem stepV_fixed (E : Alg T) (c : Cfg) (g : GSt T) (s : Step T) :
    stepV .fixed E c g s = step E c g s := by
  cases s <;> rfl

/-- the mutated machine with the (unchanged) ghost beside it -/
def runTV (vr : Variant) (E : Alg T) (c : Cfg) (hist : List (Step T)) : GSt T × List (Expr T) :=
  hist.foldl (fun x s => (stepV vr E c x.1 s, track E c x.1 x.2 s)) (GSt.empty, [])

theorem runTV_fixed (E : Alg T) (c : Cfg) (hist : List (Step T)) :
    runTV .fixed E c hist = runT E c hist := by
  unfold runTV runT
  congr 1

/-! ## `gc` that keeps the apply cache -/

/-- `x0 · x1` is computed and cached, its handle dropped, `gc` frees the node; `max(x0, x1)` reuses
the slot; `x0 · x1` again hits the stale entry -/
def hGc : List (Step I64) :=
  [.addVars 2, .var c20 0, .var c20 1, .bin c20 .mul 1 0, .drop 0, .gc,
   .bin c20 .max 1 0, .bin c20 .mul 2 1]

def eMul01 : Expr I64 := .bin .mul (.var 0) (.var 1)
def eMax01 : Expr I64 := .bin .max (.var 0) (.var 1)

theorem gcKeepsCache_breaks_canonical :
    (runTV .gcKeepsCache i64Alg Cfg.std hGc).1.hs[0]? = (runTV .gcKeepsCache i64Alg Cfg.std hGc).1.hs[1]? ∧
    listBeq (runTV .gcKeepsCache i64Alg Cfg.std hGc).2 [eMul01, eMax01, .var 1, .var 0] = true ∧
    ¬ ∀ ρ : Nat → Bool, eMul01.fn i64Ops ρ = eMax01.fn i64Ops ρ := by
  refine ⟨by decide +kernel, by decide +kernel, fun h => ?_⟩
  have := h (fun v => v == 0)
  revert this
  decide +kernel

/-- the real machine on the same history: different edges -/
example : (run i64Alg Cfg.std hGc).hs[0]? ≠ (run i64Alg Cfg.std hGc).hs[1]? := by decide +kernel

/-! ## a terminal table that is not hash consed -/

/-- the constant `5` twice -/
def hTerm : List (Step I64) := [.const c20 (.num 5), .const c20 (.num 5)]

theorem termNoHashCons_breaks_canonical :
    (runTV .termNoHashCons i64Alg Cfg.std hTerm).1.hs = [.term 1, .term 0] ∧
    listBeq (runTV .termNoHashCons i64Alg Cfg.std hTerm).2 [.const (.num 5), .const (.num 5)] = true ∧
    (runTV .termNoHashCons i64Alg Cfg.std hTerm).1.r.st.store.terms = #[some (.num 5), some (.num 5)] ∧
    (∀ ρ : Nat → Bool, (Expr.const (I64.num 5)).fn i64Ops ρ = (Expr.const (I64.num 5)).fn i64Ops ρ) := by
  refine ⟨by decide +kernel, by decide +kernel, by decide +kernel, fun _ => rfl⟩

/-- the real machine: the second `const 5` is the same edge as the first, its counter is 3 -/
example : (run i64Alg Cfg.std hTerm).hs = [.term 0, .term 0] ∧
    (run i64Alg Cfg.std hTerm).r.trc = #[3] := by decide +kernel

/-! ## reordering that keeps the apply cache -/

/-- `u = x1 · x2` (cached), `h = x0 · u`, the handle of `u` dropped; `set_var_order [1, 0]`
rewrites `h` in place and frees the orphaned `u`; `max(x0, x2)` reuses the slot; `x1 · x2` hits
the stale entry -/
def hRe : List (Step I64) :=
  [.addVars 3, .var c20 0, .var c20 1, .var c20 2,
   .bin c20 .mul 1 0, .bin c20 .mul 3 0, .drop 1, .setVarOrder [1, 0],
   .bin c20 .max 3 1, .bin c20 .mul 3 2]

def eMul12 : Expr I64 := .bin .mul (.var 1) (.var 2)
def eMax02 : Expr I64 := .bin .max (.var 0) (.var 2)

theorem reorderKeepsCache_breaks_canonical :
    (runTV .reorderKeepsCache i64Alg Cfg.std hRe).1.hs[0]? =
      (runTV .reorderKeepsCache i64Alg Cfg.std hRe).1.hs[1]? ∧
    ((runTV .reorderKeepsCache i64Alg Cfg.std hRe).2.take 2 |> fun l => listBeq l [eMul12, eMax02]) = true ∧
    ¬ ∀ ρ : Nat → Bool, eMul12.fn i64Ops ρ = eMax02.fn i64Ops ρ := by
  refine ⟨by decide +kernel, by decide +kernel, fun h => ?_⟩
  have := h (fun v => v == 0)
  revert this
  decide +kernel

example : (run i64Alg Cfg.std hRe).hs[0]? ≠ (run i64Alg Cfg.std hRe).hs[1]? := by decide +kernel

end OxiddModel.Mtbdd.Global
