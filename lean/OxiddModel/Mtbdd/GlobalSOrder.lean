import OxiddModel.Mtbdd.GlobalSInv

/-!
# `set_var_order` for nodes of any arity and the var/level maps

`setVarOrderN_correct` (`Reorder/SetOrderNProof.lean`) speaks about the new level→variable map
position by position. For the global invariant we also need that it still has `n` entries
(`setVarOrderS_l2v_len`, any arity and terminal type) and that it and its recomputed inverse are
mutually inverse (`ordOK_of_bij`). Same statements as `Bdd/GlobalSOrder.lean`.
-/
set_option linter.unusedSectionVars false

namespace OxiddModel.Mtbdd.Global
open OxiddModel.Reorder
open OxiddModel.Reorder.SwapStoreN (Heap SStore setVarOrderS levelSwapG step2 swapIdx RState
  updateLevels)

variable {X : Type} [DecidableEq X]

theorem swapIdx_len {α : Type} [Inhabited α] (l : List α) (i j : Nat) :
    (swapIdx l i j).length = l.length := by simp [swapIdx]

theorem levelSwapG_l2v_len (k : Nat) (al : Heap X → Nat) (ord : List Nat → List Nat) (r : RState X)
    (u l : Nat) : (levelSwapG k al ord r u l).l2v.length = r.l2v.length := by
  simp [levelSwapG, swapIdx_len]

theorem foldl_l2v_len {F : RState X → Nat → RState X}
    (hF : ∀ r i, (F r i).l2v.length = r.l2v.length) :
    ∀ (is : List Nat) (r : RState X), (is.foldl F r).l2v.length = r.l2v.length := by
  intro is
  induction is with
  | nil => intro r; rfl
  | cons i is ih => intro r; simp only [List.foldl_cons]; rw [ih, hF]

theorem step2_l2v_len : ∀ (fuel i : Nat) (r : RState X) (tgt : List Nat),
    (step2 fuel i r tgt).l2v.length = r.l2v.length
  | 0, _, _, _ => rfl
  | fuel + 1, i, r, tgt => by
    unfold step2
    split
    · rfl
    · split
      · exact step2_l2v_len fuel _ _ _
      · rw [step2_l2v_len fuel]; simp [swapIdx_len]

/-- the level→variable map keeps its length -/
theorem setVarOrderS_l2v_len (k : Nat) (al : Heap X → Nat) (ord : List Nat → List Nat) (s : SStore X)
    (l2v order : List Nat) : (setVarOrderS k al ord s l2v order).2.length = l2v.length := by
  have key : ∀ (m : Nat) (r1 : RState X × List Nat × Bool), r1.1.l2v.length = l2v.length →
      (if r1.2.2 then r1.1 else step2 m 0 r1.1 r1.2.1).l2v.length = l2v.length := by
    intro m r1 h
    split
    · exact h
    · rw [step2_l2v_len]; exact h
  unfold setVarOrderS
  simp only
  split
  · rfl
  · apply key
    split
    · split
      · exact foldl_l2v_len (fun r i => levelSwapG_l2v_len k al ord r _ _) _ _
      · exact foldl_l2v_len (fun r i => levelSwapG_l2v_len k al ord r _ _) _ _
    · rfl

theorem invPerm_getD {n : Nat} (l2v : List Nat) {v : Nat} (hv : v < n) :
    (invPerm n l2v).getD v 0 = l2v.idxOf v := by
  unfold invPerm
  simp [List.getD_eq_getElem?_getD, hv]

/-- a list of length `n` that hits every `v < n` and is injective on positions is, together with
its `idxOf` inverse, a pair of mutually inverse maps -/
theorem ordOK_of_bij {n : Nat} {m : List Nat} (hlen : m.length = n)
    (hlt : ∀ p, p < n → m.getD p 0 < n)
    (hinj : ∀ p q, p < n → q < n → m.getD p 0 = m.getD q 0 → p = q)
    (hsurj : ∀ v, v < n → ∃ p, p < n ∧ m.getD p 0 = v) :
    OrdOK n (invPerm n m) m := by
  have hidx : ∀ v, v < n → m.idxOf v < n ∧ m.getD (m.idxOf v) 0 = v := by
    intro v hv
    obtain ⟨p, hp, hpv⟩ := hsurj v hv
    have hmem : v ∈ m := by
      rw [← hpv]
      simp only [List.getD_eq_getElem?_getD, List.getElem?_eq_getElem (hlen ▸ hp), Option.getD_some]
      exact List.getElem_mem _
    have h1 : m.idxOf v < m.length := List.idxOf_lt_length_of_mem hmem
    refine ⟨hlen ▸ h1, ?_⟩
    simp only [List.getD_eq_getElem?_getD, List.getElem?_eq_getElem h1, Option.getD_some]
    exact List.getElem_idxOf h1
  refine ⟨hlen, by simp [invPerm], ?_, ?_⟩
  · intro l hl
    have h1 := hlt l hl
    refine ⟨h1, ?_⟩
    rw [invPerm_getD m h1]
    obtain ⟨h2, h3⟩ := hidx _ h1
    exact hinj _ _ h2 hl h3
  · intro v hv
    rw [invPerm_getD m hv]
    exact hidx v hv

end OxiddModel.Mtbdd.Global
