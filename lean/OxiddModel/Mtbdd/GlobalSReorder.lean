import OxiddModel.Mtbdd.GlobalSSteps
import OxiddModel.Mtbdd.GlobalSBridge
import OxiddModel.Mtbdd.GlobalSOrder

/-!
# MTBDD global machine: `set_var_order` keeps the invariant and the meaning of every handle

`reorder_inv`: through the bridge (`toS_inv`) to `mtbdd_setVarOrder_correct` /
`setVarOrderS_spec` (C08, nodes of any arity) and back (`ofS_*`, `denM_denotes`), with
`setVarOrderS_P` (no terminal edge is created) for the terminal side. `step_inv`: all steps.
-/
set_option linter.unusedSectionVars false

namespace OxiddModel.Mtbdd.Global
open OxiddModel.Mtbdd OxiddModel.Mtbdd.Refine OxiddModel.Mtbdd.Rc OxiddModel.CachePolicy
open OxiddModel.Reorder
open OxiddModel.Reorder.SwapStoreN (setVarOrderS)

variable {T : Type} [DecidableEq T]

theorem getD_mem {l : List Nat} {i : Nat} (h : i < l.length) : l.getD i 0 ∈ l := by
  rw [List.getD_eq_getElem?_getD, List.getElem?_eq_getElem h, Option.getD_some]
  exact List.getElem_mem _

/-- the invariant of the reordering side holds at all times (through the bridge) -/
theorem GInv.sinv {L : TermOps T} {ok : T → Prop} {g : GSt T} (h : GInv L ok g) :
    SwapStoreN.Inv 2 (extOfHs g.hs) (toS g.r g.n) :=
  toS_inv h.rc h.ord h.uniq h.nored

theorem reorder_inv {L : TermOps T} {ok : T → Prop} {c : Cfg} (hc : c.OK) {g : GSt T}
    {es : List (Expr T)} (hi : GInv L ok g) (hs : Sem L g es) (order : List Nat) :
    GInv L ok (reorder c g order) ∧ Sem L (reorder c g order) es := by
  unfold reorder
  split
  · exact ⟨hi, hs⟩
  · rename_i hcond
    simp only [Bool.or_eq_true, Bool.not_eq_true', decide_eq_true_eq, not_or] at hcond
    obtain ⟨⟨_, hvalid⟩, _⟩ := hcond
    have hvalid : reorderValid g order = true := by
      cases hv : reorderValid g order
      · exact absurd hv hvalid
      · rfl
    simp only [reorderValid, Bool.and_eq_true, decide_eq_true_eq, List.all_eq_true] at hvalid
    obtain ⟨hnd, hrange⟩ := hvalid
    have hL := hi.perm.lenL
    have hmem : ∀ v ∈ order, v ∈ g.l2v := by
      intro v hv
      have hvn := hrange v hv
      obtain ⟨h2, h3⟩ := hi.perm.vl v hvn
      rw [← h3]
      exact getD_mem (hL ▸ h2)
    have sinv := hi.sinv
    have hlen : g.l2v.length = (toS g.r g.n).tables.length := by rw [toS_len]; exact hL
    rw [setVarOrderK_eq]
    have hcor := SwapStoreN.mtbdd_setVarOrder_correct hc.al hc.ord sinv g.l2v order hlen hnd hmem
    obtain ⟨h1, h2⟩ := SwapStoreN.order_levels_ok hnd hmem
    rw [hlen] at h2
    have hspec := SwapStoreN.setVarOrderS_spec hc.al hc.ord sinv g.l2v order hlen h1 h2
    obtain ⟨htlen, htlt, htnd⟩ := sortOrder_perm (toS g.r g.n).tables.length _ h1 h2
    have hreslen := setVarOrderS_l2v_len 2 c.al c.ord (toS g.r g.n) g.l2v order
    have hP := TermEdges.setVarOrderS_P (P := TermStored g.r.st.store.terms) 2 c.al c.ord
      (s := toS g.r g.n) (toS_heapP hi.rc) g.l2v order
    generalize hres : setVarOrderS 2 c.al c.ord (toS g.r g.n) g.l2v order = res
      at hcor hspec hreslen hP
    generalize htg : sortOrder (toS g.r g.n).tables.length (order.map fun v => g.l2v.idxOf v) = target
      at hspec htlen htlt htnd
    rw [toS_len] at htlen htlt hspec
    obtain ⟨⟨hinv', hlen'⟩, _, hden⟩ := hcor
    rw [toS_len] at hlen'
    have hgetD : ∀ a (ha : a < g.n), target.getD a 0 = target[a]'(htlen ▸ ha) :=
      fun a ha => by simp [List.getD_eq_getElem?_getD, List.getElem?_eq_getElem (htlen ▸ ha)]
    have htlt' : ∀ a, a < g.n → target.getD a 0 < g.n := fun a ha => by
      rw [hgetD a ha]; exact htlt _ (List.getElem_mem _)
    have htinj : ∀ a b, a < g.n → b < g.n → target.getD a 0 = target.getD b 0 → a = b := by
      intro a b ha hb e
      rw [hgetD a ha, hgetD b hb] at e
      have hpw := List.pairwise_iff_getElem.mp (List.nodup_iff_pairwise_ne.mp htnd)
      rcases Nat.lt_trichotomy a b with c | c | c
      · exact absurd e (hpw a b _ _ c)
      · exact c
      · exact absurd e.symm (hpw b a _ _ c)
    -- the new maps
    have hperm : OrdOK g.n (invPerm g.n res.2) res.2 := by
      obtain ⟨lab, hlab⟩ := hspec.placed
      refine ordOK_of_bij (by rw [hreslen]; exact hL) ?_ ?_ ?_
      · intro p hp
        obtain ⟨a1, _, a3⟩ := hlab p hp
        rw [a3]; exact (hi.perm.lv _ a1).1
      · intro p q hp hq e
        obtain ⟨a1, a2, a3⟩ := hlab p hp
        obtain ⟨b1, b2, b3⟩ := hlab q hq
        rw [a3, b3] at e
        have : lab.getD p 0 = lab.getD q 0 := by
          rw [← (hi.perm.lv _ a1).2, ← (hi.perm.lv _ b1).2, e]
        rw [← a2, ← b2, this]
      · intro v hv
        obtain ⟨a1, a2⟩ := hi.perm.vl v hv
        exact ⟨target.getD (g.v2l.getD v 0) 0, htlt' _ a1, by
          rw [hspec.placed' htlt' htinj a1]; exact a2⟩
    have hord' := ofS_ord hinv' g.r.st.store.terms g.r.st.tick g.hs
    rw [hlen'] at hord'
    have hts : ∀ j, Edge.term j ∈ g.hs → TermStored g.r.st.store.terms j :=
      fun j hj => hi.rc.ext_ok _ hj
    refine ⟨⟨ofS_rc hinv' _ hP hts _, hord',
      ⟨ofS_unique hinv' _ hi.uniq.2 _ _, fun i v h => hi.inv.2.1 i v h, CacheOK.nil _ _⟩,
      ofS_nored hinv' _ _ _, hperm⟩, ?_⟩
    refine forall₂_imp_mem hs (fun x e hx hd => ?_)
    obtain ⟨t, hd, he⟩ := hd
    cases x with
    | term j =>
      cases hd with
      | term hv => exact ⟨.leaf _, .term hv, fun ρ => he ρ⟩
    | inner k =>
      obtain ⟨tid, hdm, hlift⟩ := denotes_denM hd
      obtain ⟨tid', hd', _, hev, _⟩ := hden k tid (count_pos_of_mem hx) hdm
      obtain ⟨t', hd'', hlift'⟩ := denM_denotes g.r.st.store.terms hP g.r.st.tick g.hs hd'
        (fun j e => by cases e)
      refine ⟨t', hd'', fun ρ => ?_⟩
      have hl' : LvlLt g.n t' := denotes_lvlLt hord'.bound hd''
      show evalL res.2 ρ t' = _
      rw [evalL_eq_zero (by rw [hreslen]; exact hL) ρ hl', ← he ρ,
        evalL_eq_zero hL ρ (hi.lvl hd)]
      have e1 := hlift'.eval (fun p => ρ (res.2.getD p 0))
      have e2 := hlift.eval (fun l => ρ (g.l2v.getD l 0))
      rw [hev ρ, e2] at e1
      exact (Option.some.inj e1).symm

/-! ## all steps -/

/-- **every step keeps the invariant and the meaning of every handle** -/
theorem step_inv {E : Alg T} {ok : T → Prop} (A : AlgOK E ok) {c : Cfg} (hc : c.OK) {g : GSt T}
    {es : List (Expr T)} (hi : GInv E.L ok g) (hs : Sem E.L g es) (s : Step T) :
    GInv E.L ok (step E c g s) ∧ Sem E.L (step E c g s) (track E c g es s) :=
  step_inv_of A hc hi hs (fun order => reorder_inv hc hi hs order) s

end OxiddModel.Mtbdd.Global
