import OxiddModel.Mtbdd.GlobalSInv

/-!
# MTBDD global machine: every step except `setVarOrder` keeps the invariant and the meaning of
every handle

`OpPost`: what an operation step (`const`, `var`, `bin`, `ite` — succeeding or failing with
OutOfMemory of the node store or of the terminal store) guarantees; `step_inv_ops`: all step kinds
but `setVarOrder` (which is `GlobalSReorder.lean`). The proofs compose `RcSLemmasAlg/Ord`
(counters, order), `RcSLemmasSem` (hash consing / cache / reducedness on every run), the erasure
to `applyS/iteS/varS` with their specs, and the tree-level semantics `applyBin_sem`,
`applyIte_eval`.
-/
set_option linter.unusedSectionVars false

namespace OxiddModel.Mtbdd.Global
open OxiddModel.Mtbdd OxiddModel.Mtbdd.Refine OxiddModel.Mtbdd.Rc OxiddModel.CachePolicy
open OxiddModel.Reorder

variable {T : Type} [DecidableEq T]

/-! ## operations producing a handle -/

/-- what an operation started in `g` guarantees about its result `res` w.r.t. the expression `e` -/
structure OpPost (L : TermOps T) (ok : T → Prop) (g : GSt T) (res : Option Edge × RSt T)
    (e : Expr T) : Prop where
  rc : RcPost g.r g.hs res
  ord : OrdInv g.n res.2
  sem : SemStep L ok g.r res
  den : ∀ x, res.1 = some x → HDen L res.2.st.store g.l2v x e

/-- the ghost's reaction to a finished operation -/
def pushE (es : List (Expr T)) (e : Expr T) : Option (Option Edge × RSt T) → List (Expr T)
  | some (some _, _) => e :: es
  | _ => es

theorem pushOp_inv {L : TermOps T} {ok : T → Prop} {g : GSt T} {es : List (Expr T)}
    {res : Option Edge × RSt T} {e : Expr T} (hi : GInv L ok g) (hs : Sem L g es)
    (hp : OpPost L ok g res e) :
    GInv L ok (pushOp g (some res)) ∧ Sem L (pushOp g (some res)) (pushE es e (some res)) := by
  obtain ⟨o, r'⟩ := res
  have hmono : All2 (HDen L r'.st.store g.l2v) g.hs es :=
    forall₂_imp_mem hs (fun x y _ h => h.mono hp.sem.2.1)
  cases o with
  | none =>
    exact ⟨⟨hp.rc.2, hp.ord, hp.sem.1, hp.sem.2.2 hi.nored, hi.perm⟩, hmono⟩
  | some x =>
    exact ⟨⟨hp.rc.2, hp.ord, hp.sem.1, hp.sem.2.2 hi.nored, hi.perm⟩, .cons (hp.den x rfl) hmono⟩

/-- `constant(v)` -/
theorem const_post {E : Alg T} {ok : T → Prop} (A : AlgOK E ok) {g : GSt T}
    (hi : GInv E.L ok g) (caps : Caps) (v : T) (hv : E.okB v = true) :
    OpPost E.L ok g (constR caps g.r v) (.const v) := by
  have hsem := constR_sem (L := E.L) caps g.r v (A.sound v hv) hi.inv
  refine ⟨constR_rc caps g.r v g.hs hi.rc, (getTerminalR_ord (L := 0) hi.ord).1, hsem.1, ?_⟩
  intro x hx
  exact ⟨_, hsem.2 x hx, fun ρ => rfl⟩

/-- `var(v)` -/
theorem var_post {E : Alg T} {ok : T → Prop} (A : AlgOK E ok) {g : GSt T}
    (hi : GInv E.L ok g) (caps : Caps) (v : Nat) (hv : v < g.n) :
    OpPost E.L ok g (varR E.L caps g.r (g.v2l.getD v 0)) (.var v) := by
  have hlv := (hi.perm.vl v hv).1
  have hne := A.laws.zero_ne_one
  refine ⟨varR_rc E.L caps g.r _ g.hs hi.rc, (varR_ord E.L caps g.r _ g.hs hi.rc hi.ord hlv).1,
    varR_sem hne A.closed caps g.r _ hi.inv, ?_⟩
  intro x hx
  obtain ⟨e1, _, _⟩ := varR_erase' E.L caps g.r (g.v2l.getD v 0) x hx
  rw [varS_eq_intern hne _ hi.uniq] at e1
  have hs : (varR E.L caps g.r (g.v2l.getD v 0)).2.st.store =
      (intern g.r.st.store (Mtbdd.var E.L (g.v2l.getD v 0))).1 := by rw [e1]
  have hx' : x = (intern g.r.st.store (Mtbdd.var E.L (g.v2l.getD v 0))).2 := by rw [e1]
  refine ⟨Mtbdd.var E.L (g.v2l.getD v 0), ?_, fun ρ => ?_⟩
  · rw [hs, hx']
    exact intern_denotes _ _ hi.uniq (var_nf hne _).2
  · unfold evalL
    simp only [Mtbdd.var, MT.eval, hi.perm.l2v_v2l hv, Expr.fn]

/-- `apply_bin::<OP>` -/
theorem bin_post {E : Alg T} {ok : T → Prop} (A : AlgOK E ok) {c : Cfg} (hc : c.OK) {g : GSt T}
    (hi : GInv E.L ok g) (caps : Caps) (op : Op) {f h : Edge} {ef eh : Expr T}
    (hf : f ∈ g.hs) (hh : h ∈ g.hs) (hdf : HDen E.L g.r.st.store g.l2v f ef)
    (hdh : HDen E.L g.r.st.store g.l2v h eh) :
    OpPost E.L ok g (applyR E.L c.gt tagOf caps c.p op (fuelOf g.n) g.r f h) (.bin op ef eh) := by
  obtain ⟨tf, hdf, hef⟩ := hdf
  obtain ⟨th, hdh, heh⟩ := hdh
  have hfu := fuel2 hi hdf hdh
  have hF := hi.rc.ext_ok f hf
  have hH := hi.rc.ext_ok h hh
  refine ⟨applyR_rc E.L c.gt tagOf hc.p caps op (fuelOf g.n) g.r f h g.hs hi.rc hF hH,
    (applyR_ord E.L c.gt tagOf hc.p g.n caps op (fuelOf g.n) g.r f h g.hs 0 hi.rc hi.ord
      (has_above_zero hF) (has_above_zero hH)).1,
    applyR_sem A.closed A.comm c.gt hc.p caps op (fuelOf g.n) g.r f h tf th hi.inv hdf hdh hfu, ?_⟩
  intro x hx
  have e := applyR_erase' E.L c.gt tagOf caps c.p op (fuelOf g.n) g.r f h x hx
  have P := applyS_spec A.closed A.comm c.gt hc.p op (fuelOf g.n) g.r.st f h tf th hi.inv hdf hdh hfu
  rw [e] at P
  refine ⟨_, P.den, fun ρ => ?_⟩
  unfold evalL at hef heh ⊢
  rw [applyBin_sem A.laws op tf th _ (hdf.all hi.inv.2.1) (hdh.all hi.inv.2.1), hef, heh]
  rfl

/-- `apply_ite` -/
theorem ite_post {E : Alg T} {ok : T → Prop} (_A : AlgOK E ok) {c : Cfg} (hc : c.OK) {g : GSt T}
    (hi : GInv E.L ok g) (caps : Caps) {f h k : Edge} {ef eh ek : Expr T}
    (hf : f ∈ g.hs) (hh : h ∈ g.hs) (hk : k ∈ g.hs) (hdf : HDen E.L g.r.st.store g.l2v f ef)
    (hdh : HDen E.L g.r.st.store g.l2v h eh) (hdk : HDen E.L g.r.st.store g.l2v k ek) :
    OpPost E.L ok g (iteR E.L caps c.p (fuelOf g.n) g.r f h k) (.ite ef eh ek) := by
  obtain ⟨tf, hdf, hef⟩ := hdf
  obtain ⟨th, hdh, heh⟩ := hdh
  obtain ⟨tk, hdk, hek⟩ := hdk
  have hfu := fuel3 hi hdf hdh hdk
  have hF := hi.rc.ext_ok f hf
  have hH := hi.rc.ext_ok h hh
  have hK := hi.rc.ext_ok k hk
  refine ⟨iteR_rc E.L hc.p caps (fuelOf g.n) g.r f h k g.hs hi.rc hF hH hK,
    (iteR_ord E.L hc.p g.n caps (fuelOf g.n) g.r f h k g.hs 0 hi.rc hi.ord
      (has_above_zero hF) (has_above_zero hH) (has_above_zero hK)).1,
    iteR_sem hc.p caps (fuelOf g.n) g.r f h k tf th tk hi.inv hdf hdh hdk hfu, ?_⟩
  intro x hx
  have e := iteR_erase' E.L caps c.p (fuelOf g.n) g.r f h k x hx
  have P := iteS_spec (L := E.L) (ok := ok) hc.p (fuelOf g.n) g.r.st f h k tf th tk hi.inv hdf hdh
    hdk hfu
  rw [e] at P
  refine ⟨_, P.den, fun ρ => ?_⟩
  unfold evalL at hef heh hek ⊢
  rw [applyIte_eval, hef, heh, hek]
  rfl

/-! ## `gc` -/

theorem gc_inv {L : TermOps T} {ok : T → Prop} {g : GSt T} {es : List (Expr T)}
    (hi : GInv L ok g) (hs : Sem L g es) :
    GInv L ok { g with r := gcR g.n g.r, gcCount := g.gcCount + 1 } ∧
    Sem L { g with r := gcR g.n g.r, gcCount := g.gcCount + 1 } es := by
  refine ⟨⟨(gcR_rc g.n hi.rc).1, gcR_ord g.n hi.ord, gcR_inv g.n g.r g.hs hi.rc hi.inv,
    nored_sub (gcR_sub g.n g.r) hi.nored, hi.perm⟩, ?_⟩
  refine forall₂_imp_mem hs (fun x e hx hd => ?_)
  obtain ⟨t, hd, he⟩ := hd
  exact ⟨t, gcR_denotes g.n hi.rc hd (.root hx), he⟩

/-! ## `add_vars` -/

theorem addVars_inv {L : TermOps T} {ok : T → Prop} {g : GSt T} {es : List (Expr T)}
    (hi : GInv L ok g) (hs : Sem L g es) (k : Nat) :
    GInv L ok { g with n := g.n + k, v2l := g.v2l ++ List.range' g.n k,
                       l2v := g.l2v ++ List.range' g.n k } ∧
    Sem L { g with n := g.n + k, v2l := g.v2l ++ List.range' g.n k,
                   l2v := g.l2v ++ List.range' g.n k } es := by
  refine ⟨⟨hi.rc, ⟨hi.ord.ord, fun i nd h => ?_, hi.ord.cache⟩, hi.inv, hi.nored,
    ordOK_addVars hi.perm k⟩, ?_⟩
  · have := hi.ord.bound i nd h
    show nd.level < g.n + k
    omega
  · refine forall₂_imp_mem hs (fun x e _ hd => ?_)
    obtain ⟨t, hd, he⟩ := hd
    refine ⟨t, hd, fun ρ => ?_⟩
    show evalL (g.l2v ++ List.range' g.n k) ρ t = _
    have := evalL_addVars g.l2v k ρ t
    rw [hi.perm.lenL] at this
    rw [this]; exact he ρ

/-! ## all steps but `setVarOrder` -/

/-- **every step keeps the invariant and the meaning of every handle**, given that
`setVarOrder` steps do (`GlobalSReorder.lean`: `reorder_inv`) -/
theorem step_inv_of {E : Alg T} {ok : T → Prop} (A : AlgOK E ok) {c : Cfg} (hc : c.OK)
    {g : GSt T} {es : List (Expr T)} (hi : GInv E.L ok g) (hs : Sem E.L g es)
    (hre : ∀ order, GInv E.L ok (reorder c g order) ∧ Sem E.L (reorder c g order) es)
    (s : Step T) : GInv E.L ok (step E c g s) ∧ Sem E.L (step E c g s) (track E c g es s) := by
  cases s with
  | const caps v =>
    simp only [step, track, opRes]
    cases hv : E.okB v with
    | false => exact ⟨hi, hs⟩
    | true =>
      simp only [if_true]
      have := pushOp_inv hi hs (const_post A hi caps v hv)
      cases hR : constR caps g.r v with
      | mk o r' => rw [hR] at this; cases o <;> exact this
  | var caps v =>
    simp only [step, track, opRes]
    by_cases hv : v < g.n
    · simp only [hv, if_true]
      have := pushOp_inv hi hs (var_post A hi caps v hv)
      cases hR : varR E.L caps g.r (g.v2l.getD v 0) with
      | mk o r' => rw [hR] at this; cases o <;> exact this
    · simp only [hv, if_false]; exact ⟨hi, hs⟩
  | bin caps op a b =>
    simp only [step, track, opRes]
    cases ha : g.hs[a]? with
    | none => exact ⟨hi, hs⟩
    | some f =>
      cases hb : g.hs[b]? with
      | none => exact ⟨hi, hs⟩
      | some h =>
        simp only
        have := pushOp_inv hi hs (bin_post A hc hi caps op (List.mem_of_getElem? ha)
          (List.mem_of_getElem? hb) (forall₂_getD hs ha) (forall₂_getD hs hb))
        cases hR : applyR E.L c.gt tagOf caps c.p op (fuelOf g.n) g.r f h with
        | mk o r' => rw [hR] at this; cases o <;> exact this
  | ite caps a b d =>
    simp only [step, track, opRes]
    cases ha : g.hs[a]? with
    | none => exact ⟨hi, hs⟩
    | some f =>
      cases hb : g.hs[b]? with
      | none => exact ⟨hi, hs⟩
      | some h =>
        cases hd : g.hs[d]? with
        | none => exact ⟨hi, hs⟩
        | some k =>
          simp only
          have := pushOp_inv hi hs (ite_post A hc hi caps (List.mem_of_getElem? ha)
            (List.mem_of_getElem? hb) (List.mem_of_getElem? hd) (forall₂_getD hs ha)
            (forall₂_getD hs hb) (forall₂_getD hs hd))
          cases hR : iteR E.L caps c.p (fuelOf g.n) g.r f h k with
          | mk o r' => rw [hR] at this; cases o <;> exact this
  | clone a =>
    simp only [step, track]
    cases ha : g.hs[a]? with
    | none =>
      have : ¬ a < g.hs.length := fun h => by simp [List.getElem?_eq_getElem h] at ha
      simp only [this, if_false]; exact ⟨hi, hs⟩
    | some f =>
      have hlt : a < g.hs.length := by
        apply Classical.byContradiction; intro h
        rw [List.getElem?_eq_none (Nat.le_of_not_lt h)] at ha; cases ha
      simp only [hlt, if_true]
      have hmem := List.mem_of_getElem? ha
      refine ⟨⟨cloneEdge_rc hi.rc (hi.rc.ext_ok f hmem), hi.ord.of_st (cloneEdge_st _ _), ?_, ?_,
        hi.perm⟩, ?_⟩
      · show Refine.Inv E.L ok (cloneEdge g.r f).st; rw [cloneEdge_st]; exact hi.inv
      · show (cloneEdge g.r f).st.store.NoRed; rw [cloneEdge_st]; exact hi.nored
      · show All2 (HDen E.L (cloneEdge g.r f).st.store g.l2v) (f :: g.hs) _
        rw [cloneEdge_st]
        exact .cons (forall₂_getD hs ha) hs
  | drop a =>
    simp only [step, track]
    cases ha : g.hs[a]? with
    | none =>
      have hge : g.hs.length ≤ a := by
        apply Classical.byContradiction; intro h
        simp [List.getElem?_eq_getElem (Nat.lt_of_not_le h)] at ha
      have : es.eraseIdx a = es := List.eraseIdx_of_length_le (by rw [forall₂_length hs]; exact hge)
      rw [this]; exact ⟨hi, hs⟩
    | some f =>
      have hrc : RcInv (dropEdge g.r f) (g.hs.eraseIdx a) :=
        dropEdge_rc (hi.rc.congr (fun e => (count_cons_eraseIdx ha e).symm))
      refine ⟨⟨hrc, hi.ord.of_st (dropEdge_st _ _), ?_, ?_, hi.perm⟩, ?_⟩
      · show Refine.Inv E.L ok (dropEdge g.r f).st; rw [dropEdge_st]; exact hi.inv
      · show (dropEdge g.r f).st.store.NoRed; rw [dropEdge_st]; exact hi.nored
      · show All2 (HDen E.L (dropEdge g.r f).st.store g.l2v) (g.hs.eraseIdx a) _
        rw [dropEdge_st]
        exact forall₂_eraseIdx hs a
  | gc => exact gc_inv hi hs
  | addVars k => exact addVars_inv hi hs k
  | setVarOrder order => exact hre order

end OxiddModel.Mtbdd.Global
