import OxiddModel.Reorder.SwapStoreNHeap

/-!
# `set_var_order` creates no terminal edge

`SwapStoreN.Inv` speaks about inner edges only (terminal edges carry no counter there). The bridge
back to the operation side needs one more fact about `setVarOrderS` (any arity `k`, any terminal
type `X`): **every terminal edge stored in the heap afterwards is a terminal edge that was stored
before** — `level_swap` builds the new children from the grand-cofactor matrix, whose entries are
children of stored nodes. Stated for a predicate `P` on terminals: `HeapP P h` (every terminal
child of a stored node satisfies `P`) is preserved by every primitive, by the loop body, by
`level_swap` and by `setVarOrderS`. No hypothesis on the heap is needed.
-/
set_option linter.unusedSectionVars false

namespace OxiddModel.Mtbdd.Global.TermEdges
open OxiddModel.Reorder OxiddModel.Reorder.SwapStoreN

variable {X : Type}

/-- a terminal edge satisfies `P` (inner edges: no condition) -/
def EdgeP (P : X → Prop) : Edge X → Prop
  | .term v => P v
  | .inner _ => True

/-- every child edge of every stored node satisfies `EdgeP P` -/
def HeapP (P : X → Prop) (h : Heap X) : Prop :=
  ∀ i n, h.get? i = some n → ∀ c ∈ n.ch, EdgeP P c

variable {P : X → Prop}

theorem HeapP.put {h : Heap X} (hh : HeapP P h) (i : Nat) {o : Option (SNode X)}
    (ho : ∀ n, o = some n → ∀ c ∈ n.ch, EdgeP P c) : HeapP P (h.put i o) := by
  intro j n hj c hc
  rw [get?_put] at hj
  split at hj
  · exact ho n hj c hc
  · exact hh j n hj c hc

theorem HeapP.put_none {h : Heap X} (hh : HeapP P h) (i : Nat) : HeapP P (h.put i none) :=
  hh.put i (fun _ h => by cases h)

theorem HeapP.put_same {h : Heap X} (hh : HeapP P h) {i : Nat} {m m' : SNode X}
    (hm : h.get? i = some m) (hch : m'.ch = m.ch) : HeapP P (h.put i (some m')) :=
  hh.put i (fun n hn c hc => by cases hn; rw [hch] at hc; exact hh i m hm c hc)

theorem incRc_P {h : Heap X} (hh : HeapP P h) (x : Edge X) : HeapP P (incRc h x) := by
  unfold incRc
  split
  · exact hh
  · split
    · rename_i n hn; exact hh.put_same hn rfl
    · exact hh

theorem decRc_P {h : Heap X} (hh : HeapP P h) (x : Edge X) : HeapP P (decRc h x) := by
  unfold decRc
  split
  · exact hh
  · split
    · rename_i n hn; exact hh.put_same hn rfl
    · exact hh

theorem incAll_P (xs : List (Edge X)) : ∀ {h : Heap X}, HeapP P h → HeapP P (incAll h xs) := by
  unfold incAll
  induction xs with
  | nil => intro h hh; exact hh
  | cons x xs ih => intro h hh; exact ih (incRc_P hh x)

theorem decAll_P (xs : List (Edge X)) : ∀ {h : Heap X}, HeapP P h → HeapP P (decAll h xs) := by
  unfold decAll
  induction xs with
  | nil => intro h hh; exact hh
  | cons x xs ih => intro h hh; exact ih (decRc_P hh x)

section
variable [DecidableEq X]

theorem cofE_P {h : Heap X} (hh : HeapP P h) (l : Nat) {c : Edge X} (hc : EdgeP P c) (q : Nat) :
    EdgeP P (cofE h l c q) := by
  cases c with
  | term v => exact hc
  | inner j =>
    simp only [cofE]
    cases hm : h.get? j with
    | none => exact hc
    | some m =>
      simp only
      split
      · simp only [List.getD_eq_getElem?_getD]
        cases hq : m.ch[q]? with
        | none => exact hc
        | some y => exact hh j m hm y (List.mem_of_getElem? hq)
      · exact hc

theorem tblInsert_P {h : Heap X} (hh : HeapP P h) (tbl : List Nat) (i : Nat) :
    HeapP P (tblInsert h tbl i).1 := by
  unfold tblInsert
  split
  · exact hh
  · split
    · exact decRc_P hh _
    · exact hh

theorem dropTableEdge_P {h : Heap X} (hh : HeapP P h) (j : Nat) : HeapP P (dropTableEdge h j) := by
  unfold dropTableEdge
  split
  · exact hh
  · rename_i m hm
    split
    · exact decAll_P _ (hh.put_none j)
    · exact hh.put_same hm rfl

theorem tblRemove_P {h : Heap X} (hh : HeapP P h) (tbl : List Nat) (xs : List (Edge X)) :
    HeapP P (tblRemove h tbl xs).1 := by
  unfold tblRemove
  split
  · exact dropTableEdge_P hh _
  · exact hh

theorem mkChild_P (al : Heap X → Nat) (upPre : Nat) (old : List Nat) {st : Heap X × List Nat}
    (hh : HeapP P st.1) {xs : List (Edge X)} (hx : ∀ x ∈ xs, EdgeP P x) :
    HeapP P (mkChild al upPre old st xs).1.1 ∧ EdgeP P (mkChild al upPre old st xs).2 := by
  unfold mkChild
  have h1 : HeapP P (incAll st.1 xs) := incAll_P xs hh
  cases xs with
  | nil => exact ⟨hh, trivial⟩
  | cons x rest =>
    simp only
    split
    · exact ⟨decAll_P _ h1, hx x List.mem_cons_self⟩
    · split
      · exact ⟨incRc_P (decAll_P _ h1) _, trivial⟩
      · split
        · exact ⟨incRc_P (decAll_P _ h1) _, trivial⟩
        · exact ⟨h1.put _ (fun n hn c hc => by cases hn; exact hx c hc), trivial⟩

theorem mkChildren_P (al : Heap X → Nat) (upPre : Nat) (old : List Nat) :
    ∀ (cols : List (List (Edge X))) {st : Heap X × List Nat}, HeapP P st.1 →
      (∀ xs ∈ cols, ∀ x ∈ xs, EdgeP P x) →
      HeapP P (mkChildren al upPre old st cols).1.1 ∧
      ∀ c ∈ (mkChildren al upPre old st cols).2, EdgeP P c := by
  intro cols
  induction cols with
  | nil => intro st hh _; exact ⟨hh, fun c hc => by cases hc⟩
  | cons xs rest ih =>
    intro st hh hx
    simp only [mkChildren]
    obtain ⟨a1, a2⟩ := mkChild_P al upPre old hh (hx xs List.mem_cons_self)
    obtain ⟨b1, b2⟩ := ih a1 (fun ys hys => hx ys (List.mem_cons_of_mem _ hys))
    refine ⟨b1, fun c hc => ?_⟩
    rcases List.mem_cons.mp hc with rfl | hc
    · exact a2
    · exact b2 c hc

theorem setChildren_P {h : Heap X} (hh : HeapP P h) (i : Nat) {cs : List (Edge X)}
    (hcs : ∀ c ∈ cs, EdgeP P c) : HeapP P (setChildren h i cs) := by
  unfold setChildren
  split
  · exact decAll_P _ (hh.put i (fun n hn c hc => by cases hn; exact hcs c hc))
  · exact hh

theorem setLevel_P {h : Heap X} (hh : HeapP P h) (i l : Nat) : HeapP P (setLevel h i l) := by
  unfold setLevel
  split
  · rename_i m hm; exact hh.put_same hm rfl
  · exact hh

theorem orphan_P (lowPre : Nat) {st : Heap X × List Nat} (hh : HeapP P st.1) (c : Edge X) :
    HeapP P (orphan lowPre st c).1 := by
  unfold orphan
  split
  · split
    · split
      · exact tblRemove_P hh _ _
      · exact hh
    · exact hh
  · exact hh

theorem orphans_P (lowPre : Nat) : ∀ (cs seen : List (Edge X)) {st : Heap X × List Nat},
    HeapP P st.1 → HeapP P (orphans lowPre st seen cs).1 := by
  intro cs
  induction cs with
  | nil => intro seen st hh; exact hh
  | cons c rest ih =>
    intro seen st hh
    simp only [orphans]
    apply ih
    split
    · exact hh
    · exact orphan_P lowPre hh c

theorem columns_P (k : Nat) {h : Heap X} (hh : HeapP P h) (lowPre : Nat) {ch : List (Edge X)}
    (hch : ∀ c ∈ ch, EdgeP P c) : ∀ xs ∈ columns k h lowPre ch, ∀ x ∈ xs, EdgeP P x := by
  intro xs hxs x hx
  unfold columns at hxs
  obtain ⟨q, _, rfl⟩ := List.mem_map.mp hxs
  obtain ⟨c, hc, rfl⟩ := List.mem_map.mp hx
  exact cofE_P hh lowPre (hch c hc) q

theorem stepNode_P (k : Nat) (al : Heap X → Nat) (upPre lowPre : Nat) (old : List Nat)
    {st : LS X} (hh : HeapP P st.h) (i : Nat) : HeapP P (stepNode k al upPre lowPre old st i).h := by
  unfold stepNode
  split
  · exact hh
  · rename_i n hn
    split
    · exact tblInsert_P (incRc_P hh _) _ _
    · simp only
      obtain ⟨a1, a2⟩ := mkChildren_P al upPre old (columns k st.h lowPre n.ch) (st := (st.h, st.lo)) hh
        (columns_P k hh lowPre (hh i n hn))
      exact orphans_P lowPre _ _
        (tblInsert_P (incRc_P (setLevel_P (setChildren_P a1 i a2) i lowPre) _) _ _)

theorem levelSwapLoop_P (k : Nat) (al : Heap X → Nat) (upPre lowPre : Nat) (old : List Nat) :
    ∀ (order : List Nat) {st : LS X}, HeapP P st.h →
      HeapP P (levelSwapLoop k al upPre lowPre old order st).h := by
  intro order
  unfold levelSwapLoop
  induction order with
  | nil => intro st hh; exact hh
  | cons i rest ih => intro st hh; exact ih (stepNode_P k al upPre lowPre old hh i)

theorem dropOld_P (old : List Nat) : ∀ {h : Heap X}, HeapP P h → HeapP P (dropOld h old) := by
  unfold dropOld
  induction old with
  | nil => intro h hh; exact hh
  | cons j rest ih => intro h hh; exact ih (dropTableEdge_P hh j)

theorem levelSwapS_P (k : Nat) (al : Heap X → Nat) (upPre lowPre : Nat) {h : Heap X}
    (hh : HeapP P h) (oldUpper oldLower order : List Nat) :
    HeapP P (levelSwapS k al upPre lowPre h oldUpper oldLower order).h := by
  unfold levelSwapS
  exact dropOld_P _ (levelSwapLoop_P k al upPre lowPre oldUpper order (st := ⟨h, oldLower, []⟩) hh)

theorem updateLevelNo_P (tbl : List Nat) (l : Nat) : ∀ {h : Heap X}, HeapP P h →
    HeapP P (updateLevelNo h tbl l) := by
  unfold updateLevelNo
  induction tbl with
  | nil => intro h hh; exact hh
  | cons i rest ih => intro h hh; exact ih (setLevel_P hh i l)

theorem levelSwapG_P (k : Nat) (al : Heap X → Nat) (ord : List Nat → List Nat) {r : RState X}
    (hh : HeapP P r.s.h) (u l : Nat) : HeapP P (levelSwapG k al ord r u l).s.h := by
  unfold levelSwapG
  exact levelSwapS_P k al _ _ hh _ _ _

theorem foldl_P {α : Type} {F : RState X → α → RState X}
    (hF : ∀ r a, HeapP P r.s.h → HeapP P (F r a).s.h) :
    ∀ (l : List α) {r : RState X}, HeapP P r.s.h → HeapP P (l.foldl F r).s.h := by
  intro l
  induction l with
  | nil => intro r hh; exact hh
  | cons a rest ih => intro r hh; exact ih (hF r a hh)

theorem step2_h : ∀ (fuel i : Nat) (r : RState X) (tgt : List Nat),
    (step2 fuel i r tgt).s.h = r.s.h
  | 0, _, _, _ => rfl
  | fuel + 1, i, r, tgt => by
    unfold step2
    split
    · rfl
    · split
      · exact step2_h fuel _ _ _
      · rw [step2_h fuel]

theorem updateLevels_P {r : RState X} (hh : HeapP P r.s.h) : HeapP P (updateLevels r).h := by
  unfold updateLevels
  simp only
  generalize List.range r.s.tables.length = ps
  have : ∀ (ps : List Nat) {h : Heap X}, HeapP P h →
      HeapP P (ps.foldl (fun h p =>
        if p ≠ r.toPre.getD p p then updateLevelNo h (r.s.table p) p else h) h) := by
    intro ps
    induction ps with
    | nil => intro h hh; exact hh
    | cons p rest ih =>
      intro h hh
      simp only [List.foldl_cons]
      apply ih
      split
      · exact updateLevelNo_P _ _ hh
      · exact hh
  exact this ps hh

/-- **`set_var_order` creates no terminal edge**: a property of all terminal edges of the heap
before holds of all terminal edges of the heap afterwards -/
theorem setVarOrderS_P (k : Nat) (al : Heap X → Nat) (ord : List Nat → List Nat) {s : SStore X}
    (hh : HeapP P s.h) (l2v order : List Nat) : HeapP P (setVarOrderS k al ord s l2v order).1.h := by
  have key : ∀ (m : Nat) (r1 : RState X × List Nat × Bool), HeapP P r1.1.s.h →
      HeapP P (updateLevels (if r1.2.2 then r1.1 else step2 m 0 r1.1 r1.2.1)).h := by
    intro m r1 h
    apply updateLevels_P
    split
    · exact h
    · rw [step2_h]; exact h
  unfold setVarOrderS
  simp only
  split
  · exact hh
  · apply key
    split
    · split
      · exact foldl_P (fun r i h => levelSwapG_P k al ord h _ _) _ hh
      · exact foldl_P (fun r i h => levelSwapG_P k al ord h _ _) _ hh
    · exact hh

end

end OxiddModel.Mtbdd.Global.TermEdges
