import OxiddModel.Mtbdd.IteS
import OxiddModel.Mtbdd.Canon
import OxiddModel.Mtbdd.Lemmas2

/-!
# MTBDD store level: histories of operations on handles

A history is a list of commands on a growing list of *handles* (edges): `const v`, `var l`,
`bin op i j` and `ite i j k` on earlier handles (by index), and `evict n`, a point at which the
cache may drop any entries (eviction, `clear`). The store-level run `runS` executes the memoised
algorithms of `StoreS.lean` / `IteS.lean` with everything cache related as a parameter (`Cfg`);
the tree-level run `runT` is the specification (`Model.lean`).

* `history_ok`: after any history every handle denotes the tree the tree-level run computes, that
  tree is a normal form, and `Unique ∧ TermsOK ∧ CacheOK ∧ NoRed` hold;
* `history_transparent`: two runs with different cache parameters and edge orders return the same
  handles and end in the same store;
* value functions: `runT_sem` (the trees have the specified value functions).
-/
set_option linter.unusedSectionVars false

namespace OxiddModel.Mtbdd.Refine
open OxiddModel.Mtbdd OxiddModel.Mtbdd.MT OxiddModel.CachePolicy

variable {T : Type} [DecidableEq T]

inductive Cmd (T : Type) where
  | const (v : T)
  | var (l : Nat)
  | bin (op : Op) (i j : Nat)
  | ite (i j k : Nat)
  /-- the cache may drop entries here (which ones is decided by the run's `ev n`) -/
  | evict (n : Nat)
deriving Repr

/-- cache- and order-related parameters of a run -/
structure Cfg where
  gt : Edge → Edge → Bool
  policy : APolicy
  ev : Nat → Key × Edge → Bool

/-- `var_edge`: `get_terminal(one)`, `get_terminal(zero)`, `get_or_insert(level, [t, e])` (no
reduction rule is applied) -/
def varS (L : TermOps T) (s : Store T) (l : Nat) : Store T × Edge :=
  let r1 := s.getTerminal L.one
  let r0 := r1.1.getTerminal L.zero
  let r := Slots.intern r0.1.nodes ⟨l, r1.2, r0.2⟩
  (⟨r.1, r0.1.terms⟩, .inner r.2)

def Cmd.runS (L : TermOps T) (cfg : Cfg) (fuel : Nat) : Cmd T → St T × List Edge → St T × List Edge
  | .const v, (st, hs) =>
    let r := st.store.getTerminal v
    ({ st with store := r.1 }, hs ++ [r.2])
  | .var l, (st, hs) =>
    let r := varS L st.store l
    ({ st with store := r.1 }, hs ++ [r.2])
  | .bin op i j, (st, hs) =>
    match hs[i]?, hs[j]? with
    | some f, some g =>
      let r := applyS L cfg.gt tagOf cfg.policy op fuel st f g
      (r.1, hs ++ [r.2])
    | _, _ => (st, hs)
  | .ite i j k, (st, hs) =>
    match hs[i]?, hs[j]?, hs[k]? with
    | some f, some g, some h =>
      let r := iteS L cfg.policy fuel st f g h
      (r.1, hs ++ [r.2])
    | _, _, _ => (st, hs)
  | .evict n, (st, hs) => ({ st with cache := st.cache.filter (cfg.ev n) }, hs)

/-- the tree-level specification of a command -/
def Cmd.runT (L : TermOps T) : Cmd T → List (MT T) → List (MT T)
  | .const v, ts => ts ++ [.leaf v]
  | .var l, ts => ts ++ [Mtbdd.var L l]
  | .bin op i j, ts =>
    match ts[i]?, ts[j]? with
    | some a, some b => ts ++ [applyBin L op a b]
    | _, _ => ts
  | .ite i j k, ts =>
    match ts[i]?, ts[j]?, ts[k]? with
    | some a, some b, some c => ts ++ [applyIte L a b c]
    | _, _, _ => ts
  | .evict _, ts => ts

def runAllS (L : TermOps T) (cfg : Cfg) (fuel : Nat) :
    List (Cmd T) → St T × List Edge → St T × List Edge
  | [], x => x
  | c :: cs, x => runAllS L cfg fuel cs (c.runS L cfg fuel x)

def runAllT (L : TermOps T) : List (Cmd T) → List (MT T) → List (MT T)
  | [], ts => ts
  | c :: cs, ts => runAllT L cs (c.runT L ts)

/-- the fuel suffices for the command (sizes of the operand *trees*) and constants are admissible -/
def Cmd.Pre (ok : T → Prop) (fuel : Nat) : Cmd T → List (MT T) → Prop
  | .const v, _ => ok v
  | .var _, _ => True
  | .bin _ i j, ts => ∀ a b, ts[i]? = some a → ts[j]? = some b → a.size + b.size ≤ fuel
  | .ite i j k, ts => ∀ a b c, ts[i]? = some a → ts[j]? = some b → ts[k]? = some c →
      a.size + b.size + c.size ≤ fuel
  | .evict _, _ => True

def PreAll (L : TermOps T) (ok : T → Prop) (fuel : Nat) : List (Cmd T) → List (MT T) → Prop
  | [], _ => True
  | c :: cs, ts => c.Pre ok fuel ts ∧ PreAll L ok fuel cs (c.runT L ts)

/-- every handle denotes its tree, which is a normal form -/
structure Handles (s : Store T) (hs : List Edge) (ts : List (MT T)) : Prop where
  len : hs.length = ts.length
  den : ∀ (k : Nat) (e : Edge) (t : MT T), hs[k]? = some e → ts[k]? = some t → Denotes s e t ∧ NF t

theorem Handles.mono {s s' : Store T} {hs : List Edge} {ts : List (MT T)} (h : Handles s hs ts)
    (hle : s.Le s') : Handles s' hs ts :=
  by
  refine ⟨h.1, ?_⟩
  intro k e t he ht
  exact ⟨(h.2 k e t he ht).1.mono hle, (h.2 k e t he ht).2⟩

theorem Handles.push {s : Store T} {hs : List Edge} {ts : List (MT T)} (h : Handles s hs ts)
    {e : Edge} {t : MT T} (hd : Denotes s e t) (hn : NF t) : Handles s (hs ++ [e]) (ts ++ [t]) := by
  refine ⟨by simp [h.1], ?_⟩
  intro k e' t' he ht
  by_cases hk : k < hs.length
  · rw [List.getElem?_append_left hk] at he
    rw [List.getElem?_append_left (h.1 ▸ hk)] at ht
    exact h.2 k e' t' he ht
  · have hk' : hs.length ≤ k := by omega
    rw [List.getElem?_append_right hk'] at he
    rw [List.getElem?_append_right (h.1 ▸ hk')] at ht
    rw [h.1] at he
    cases hkk : k - ts.length with
    | zero =>
      rw [hkk] at he ht
      simp only [List.getElem?_cons_zero, Option.some.injEq] at he ht
      subst he ht; exact ⟨hd, hn⟩
    | succ m => rw [hkk] at he; simp at he

theorem Handles.get {s : Store T} {hs : List Edge} {ts : List (MT T)} (h : Handles s hs ts)
    {i : Nat} {f : Edge} (hf : hs[i]? = some f) : ∃ a, ts[i]? = some a ∧ Denotes s f a ∧ NF a := by
  have hlt : i < hs.length := by
    cases hi : hs[i]? with
    | none => rw [hi] at hf; cases hf
    | some _ => exact (List.getElem?_eq_some_iff.mp hi).1
  have : i < ts.length := h.1 ▸ hlt
  refine ⟨ts[i], List.getElem?_eq_getElem this, h.2 i f _ hf (List.getElem?_eq_getElem this)⟩

theorem Handles.get_none {s : Store T} {hs : List Edge} {ts : List (MT T)} (h : Handles s hs ts)
    {i : Nat} (hf : hs[i]? = none) : ts[i]? = none := by
  have := h.1
  rw [List.getElem?_eq_none_iff] at hf ⊢
  omega

/-- the state of a run is good with respect to the tree-level state `ts` -/
structure Good (L : TermOps T) (ok : T → Prop) (x : St T × List Edge) (ts : List (MT T)) : Prop where
  inv : Inv L ok x.1
  nored : x.1.store.NoRed
  handles : Handles x.1.store x.2 ts

/-- the cache-free canonical step on `(store, handles)`: interning the tree-level result -/
def Cmd.runC (L : TermOps T) : Cmd T → Store T × List Edge → List (MT T) → Store T × List Edge
  | .const v, (s, hs), _ => let r := intern s (.leaf v); (r.1, hs ++ [r.2])
  | .var l, (s, hs), _ => let r := intern s (Mtbdd.var L l); (r.1, hs ++ [r.2])
  | .bin op i j, (s, hs), ts =>
    match ts[i]?, ts[j]? with
    | some a, some b => let r := intern s (applyBin L op a b); (r.1, hs ++ [r.2])
    | _, _ => (s, hs)
  | .ite i j k, (s, hs), ts =>
    match ts[i]?, ts[j]?, ts[k]? with
    | some a, some b, some c => let r := intern s (applyIte L a b c); (r.1, hs ++ [r.2])
    | _, _, _ => (s, hs)
  | .evict _, x, _ => x

theorem var_nf {L : TermOps T} (hne : L.zero ≠ L.one) (l : Nat) : NF (Mtbdd.var L l) :=
  ⟨⟨trivial, trivial, trivial, trivial⟩, ⟨fun e => hne (MT.leaf.inj e).symm, trivial, trivial⟩⟩

/-- `var_edge` is interning the tree `var l` (given `0 ≠ 1`) -/
theorem varS_eq_intern {L : TermOps T} (hne : L.zero ≠ L.one) (s : Store T) (hu : s.Unique)
    (l : Nat) : varS L s l = intern s (Mtbdd.var L l) := by
  simp only [varS, var, intern]
  have u1 := getTerminal_unique s L.one hu
  have u0 := getTerminal_unique _ L.zero u1
  have d1 := (getTerminal_denotes s L.one).mono (getTerminal_le _ L.zero)
  have d0 := getTerminal_denotes (s.getTerminal L.one).1 L.zero
  have hte : (s.getTerminal L.one).2 ≠ ((s.getTerminal L.one).1.getTerminal L.zero).2 := by
    intro e
    rw [e] at d1
    exact hne (MT.leaf.inj (Denotes.functional d1 d0)).symm
  simp only [Store.mkNode, hte, if_false]

/-- one command: goodness is kept, and store and handles are the canonical ones -/
theorem Cmd.run_spec {L : TermOps T} {ok : T → Prop} (hne : L.zero ≠ L.one)
    (C : TerminalClosed L ok) (M : TerminalComm L ok) (cfg : Cfg) (pok : cfg.policy.OK)
    (fuel : Nat) (c : Cmd T) (x : St T × List Edge) (ts : List (MT T))
    (hg : Good L ok x ts) (hp : c.Pre ok fuel ts) :
    Good L ok (c.runS L cfg fuel x) (c.runT L ts) ∧
    x.1.store.Le (c.runS L cfg fuel x).1.store ∧
    ((c.runS L cfg fuel x).1.store, (c.runS L cfg fuel x).2) = c.runC L (x.1.store, x.2) ts := by
  obtain ⟨st, hs⟩ := x
  obtain ⟨hinv, hr, hh⟩ := hg
  cases c with
  | const v =>
    have hle := getTerminal_le st.store v
    refine ⟨⟨⟨getTerminal_unique _ _ hinv.1, getTerminal_termsOK _ _ hinv.2.1 hp,
      hinv.2.2.mono hle⟩, hr, (hh.mono hle).push (getTerminal_denotes _ _) (nf_leaf v)⟩, hle, rfl⟩
  | var l =>
    simp only [Cmd.runS, Cmd.runT, Cmd.runC]
    rw [varS_eq_intern hne _ hinv.1]
    have hle := intern_le st.store (Mtbdd.var L l)
    have hall : (Mtbdd.var L l).All ok := ⟨C.ok_one, C.ok_zero⟩
    refine ⟨⟨⟨intern_unique _ _ hinv.1, intern_termsOK _ _ hinv.2.1 hall, hinv.2.2.mono hle⟩,
      intern_nored _ _ hr,
      (hh.mono hle).push (intern_denotes _ _ hinv.1 (var_nf hne l).2) (var_nf hne l)⟩, hle, rfl⟩
  | bin op i j =>
    simp only [Cmd.runS, Cmd.runT, Cmd.runC]
    cases hi : hs[i]? with
    | none => simp only [hh.get_none hi]; exact ⟨⟨hinv, hr, hh⟩, Store.Le.refl _, by first | trivial | rfl⟩
    | some f =>
      cases hj : hs[j]? with
      | none =>
        simp only [hh.get_none hj]
        obtain ⟨a, ha, _⟩ := hh.get hi
        simp only [ha]
        exact ⟨⟨hinv, hr, hh⟩, Store.Le.refl _, by first | trivial | rfl⟩
      | some g =>
        obtain ⟨a, ha, da, na⟩ := hh.get hi
        obtain ⟨b, hb, db, nb⟩ := hh.get hj
        simp only [ha, hb]
        have P := applyS_spec C M cfg.gt pok op fuel st f g a b hinv da db (hp a b ha hb)
        refine ⟨⟨P.inv, P.nored hr, (hh.mono P.le).push P.den (applyBin_nf L op a b na nb).1⟩,
          P.le, ?_⟩
        have := P.canon hr
        rw [← this]
  | ite i j k =>
    simp only [Cmd.runS, Cmd.runT, Cmd.runC]
    cases hi : hs[i]? with
    | none => simp only [hh.get_none hi]; exact ⟨⟨hinv, hr, hh⟩, Store.Le.refl _, by first | trivial | rfl⟩
    | some f =>
      obtain ⟨a, ha, da, na⟩ := hh.get hi
      cases hj : hs[j]? with
      | none =>
        simp only [hh.get_none hj, ha]
        exact ⟨⟨hinv, hr, hh⟩, Store.Le.refl _, by first | trivial | rfl⟩
      | some g =>
        obtain ⟨b, hb, db, nb⟩ := hh.get hj
        cases hk : hs[k]? with
        | none =>
          simp only [hh.get_none hk, ha, hb]
          exact ⟨⟨hinv, hr, hh⟩, Store.Le.refl _, by first | trivial | rfl⟩
        | some h =>
          obtain ⟨c, hc, dc, nc⟩ := hh.get hk
          simp only [ha, hb, hc]
          have P := iteS_spec (L := L) (ok := ok) pok fuel st f g h a b c hinv da db dc
            (hp a b c ha hb hc)
          refine ⟨⟨P.inv, P.nored hr,
            (hh.mono P.le).push P.den (applyIte_nf L a b c na nb nc).1⟩, P.le, ?_⟩
          have := P.canon hr
          rw [← this]
  | evict n =>
    exact ⟨⟨⟨hinv.1, hinv.2.1, hinv.2.2.sub (fun x hx => (List.mem_filter.mp hx).1)⟩, hr, hh⟩,
      Store.Le.refl _, rfl⟩

/-- **After any history** every handle denotes the tree of the tree-level run, which is a normal
form, and the store invariants hold. -/
theorem history_ok {L : TermOps T} {ok : T → Prop} (hne : L.zero ≠ L.one)
    (C : TerminalClosed L ok) (M : TerminalComm L ok) (cfg : Cfg) (pok : cfg.policy.OK)
    (fuel : Nat) (cs : List (Cmd T)) : ∀ (x : St T × List Edge) (ts : List (MT T)),
    Good L ok x ts → PreAll L ok fuel cs ts →
    Good L ok (runAllS L cfg fuel cs x) (runAllT L cs ts) ∧
      x.1.store.Le (runAllS L cfg fuel cs x).1.store := by
  induction cs with
  | nil => intro x ts hg _; exact ⟨hg, Store.Le.refl _⟩
  | cons c cs ih =>
    intro x ts hg hp
    obtain ⟨g1, le1, _⟩ := Cmd.run_spec hne C M cfg pok fuel c x ts hg hp.1
    obtain ⟨g2, le2⟩ := ih _ _ g1 hp.2
    exact ⟨g2, le1.trans le2⟩

/-- **History independence.** Two runs of the same history from the same store and handles with
different cache policies, eviction choices, edge orders, initial caches and time stamps: the
handle lists are equal and the final stores are equal. -/
theorem history_transparent {L : TermOps T} {ok : T → Prop} (hne : L.zero ≠ L.one)
    (C : TerminalClosed L ok) (M : TerminalComm L ok) (cfg1 cfg2 : Cfg) (ok1 : cfg1.policy.OK)
    (ok2 : cfg2.policy.OK) (fuel : Nat) (cs : List (Cmd T)) :
    ∀ (x1 x2 : St T × List Edge) (ts : List (MT T)),
    x1.1.store = x2.1.store → x1.2 = x2.2 → Good L ok x1 ts → Good L ok x2 ts →
    PreAll L ok fuel cs ts →
    (runAllS L cfg1 fuel cs x1).2 = (runAllS L cfg2 fuel cs x2).2 ∧
    (runAllS L cfg1 fuel cs x1).1.store = (runAllS L cfg2 fuel cs x2).1.store := by
  induction cs with
  | nil => intro x1 x2 ts hs hh _ _ _; exact ⟨hh, hs⟩
  | cons c cs ih =>
    intro x1 x2 ts hs hh g1 g2 hp
    obtain ⟨g1', _, e1⟩ := Cmd.run_spec hne C M cfg1 ok1 fuel c x1 ts g1 hp.1
    obtain ⟨g2', _, e2⟩ := Cmd.run_spec hne C M cfg2 ok2 fuel c x2 ts g2 hp.1
    rw [hs, hh] at e1
    have e := e1.trans e2.symm
    exact ih _ _ _ (Prod.mk.inj e).1 (Prod.mk.inj e).2 g1' g2' hp.2

/-! ## the value functions of a history -/

/-- a value table: the value under every assignment -/
abbrev Val (T : Type) := (Nat → Bool) → T

/-- the specified value function of every handle: constants, 0/1 for variables, pointwise scalar
operation, pointwise selection -/
def Cmd.runV (L : TermOps T) : Cmd T → List (Val T) → List (Val T)
  | .const v, vs => vs ++ [(fun _ => v : Val T)]
  | .var l, vs => vs ++ [(fun σ => if σ l then L.one else L.zero : Val T)]
  | .bin op i j, vs =>
    match vs[i]?, vs[j]? with
    | some a, some b => vs ++ [(fun σ => L.sem op (a σ) (b σ) : Val T)]
    | _, _ => vs
  | .ite i j k, vs =>
    match vs[i]?, vs[j]?, vs[k]? with
    | some a, some b, some c => vs ++ [(fun σ => if a σ = L.one then b σ else c σ : Val T)]
    | _, _, _ => vs
  | .evict _, vs => vs

def runAllV (L : TermOps T) : List (Cmd T) → List (Val T) → List (Val T)
  | [], vs => vs
  | c :: cs, vs => runAllV L cs (c.runV L vs)

/-- the condition of every `ite` is 0-1-valued (the documented precondition of `ite`) -/
def Cmd.CondOK (L : TermOps T) : Cmd T → List (MT T) → Prop
  | .ite i _ _, ts => ∀ a, ts[i]? = some a → ZeroOne L a
  | _, _ => True

def CondAll (L : TermOps T) : List (Cmd T) → List (MT T) → Prop
  | [], _ => True
  | c :: cs, ts => c.CondOK L ts ∧ CondAll L cs (c.runT L ts)

/-- trees and value functions agree, and all terminals are admissible -/
structure Sem (ok : T → Prop) (ts : List (MT T)) (vs : List (Val T)) : Prop where
  len : ts.length = vs.length
  den : ∀ (k : Nat) (t : MT T) (v : Val T), ts[k]? = some t → vs[k]? = some v →
    t.All ok ∧ ∀ σ, t.eval σ = v σ

theorem Sem.push {ok : T → Prop} {ts : List (MT T)} {vs : List (Val T)}
    (h : Sem ok ts vs) {t : MT T} {v : Val T} (ha : t.All ok)
    (hv : ∀ σ, t.eval σ = v σ) : Sem ok (ts ++ [t]) (vs ++ [v]) := by
  refine ⟨by simp [h.1], ?_⟩
  intro k t' v' ht hv'
  by_cases hk : k < ts.length
  · rw [List.getElem?_append_left hk] at ht
    rw [List.getElem?_append_left (h.1 ▸ hk)] at hv'
    exact h.2 k t' v' ht hv'
  · have hk' : ts.length ≤ k := by omega
    rw [List.getElem?_append_right hk'] at ht
    rw [List.getElem?_append_right (h.1 ▸ hk')] at hv'
    rw [h.1] at ht
    cases hkk : k - vs.length with
    | zero =>
      rw [hkk] at ht hv'
      simp only [List.getElem?_cons_zero, Option.some.injEq] at ht hv'
      subst ht hv'; exact ⟨ha, hv⟩
    | succ m => rw [hkk] at ht; simp at ht

theorem Sem.get {ok : T → Prop} {ts : List (MT T)} {vs : List (Val T)}
    (h : Sem ok ts vs) {i : Nat} {t : MT T} (ht : ts[i]? = some t) :
    ∃ v, vs[i]? = some v ∧ t.All ok ∧ ∀ σ, t.eval σ = v σ := by
  have hlt : i < ts.length := (List.getElem?_eq_some_iff.mp ht).1
  have : i < vs.length := h.1 ▸ hlt
  exact ⟨vs[i], List.getElem?_eq_getElem this, h.2 i t _ ht (List.getElem?_eq_getElem this)⟩

theorem Sem.get_none {ok : T → Prop} {ts : List (MT T)} {vs : List (Val T)}
    (h : Sem ok ts vs) {i : Nat} (ht : ts[i]? = none) : vs[i]? = none := by
  have := h.1
  rw [List.getElem?_eq_none_iff] at ht ⊢
  omega

theorem Cmd.runT_sem {L : TermOps T} {ok : T → Prop} (H : TerminalLaws L ok)
    (C : TerminalClosed L ok) (c : Cmd T) (ts : List (MT T)) (vs : List (Val T))
    (h : Sem ok ts vs) (hc : c.CondOK L ts) (hk : ∀ v, c = .const v → ok v) :
    Sem ok (c.runT L ts) (c.runV L vs) := by
  cases c with
  | const v => exact h.push (t := .leaf v) (hk v rfl) (fun _ => rfl)
  | var l => exact h.push (t := Mtbdd.var L l) ⟨C.ok_one, C.ok_zero⟩ (fun _ => rfl)
  | bin op i j =>
    simp only [Cmd.runT, Cmd.runV]
    cases hi : ts[i]? with
    | none => simp only [h.get_none hi]; exact h
    | some a =>
      obtain ⟨va, hva, aok, ea⟩ := h.get hi
      cases hj : ts[j]? with
      | none => simp only [h.get_none hj, hva]; exact h
      | some b =>
        obtain ⟨vb, hvb, bok, eb⟩ := h.get hj
        simp only [hva, hvb]
        exact h.push (applyBin_all C op a b aok bok)
          (fun σ => by rw [applyBin_sem H op a b σ aok bok, ea, eb])
  | ite i j k =>
    simp only [Cmd.runT, Cmd.runV]
    cases hi : ts[i]? with
    | none => simp only [h.get_none hi]; exact h
    | some a =>
      obtain ⟨va, hva, aok, ea⟩ := h.get hi
      cases hj : ts[j]? with
      | none => simp only [h.get_none hj, hva]; exact h
      | some b =>
        obtain ⟨vb, hvb, bok, eb⟩ := h.get hj
        cases hk' : ts[k]? with
        | none => simp only [h.get_none hk', hva, hvb]; exact h
        | some c =>
          obtain ⟨vc, hvc, cok, ec⟩ := h.get hk'
          simp only [hva, hvb, hvc]
          have hz := hc a hi
          refine h.push ?_ (fun σ => by rw [applyIte_sem H.zero_ne_one a b c σ hz, ea, eb, ec])
          exact applyIte_all L _ a b c (Nat.le_refl _) bok cok
  | evict n => show Sem ok ts vs; exact h

theorem runAllT_sem {L : TermOps T} {ok : T → Prop} (H : TerminalLaws L ok)
    (C : TerminalClosed L ok) (fuel : Nat) (cs : List (Cmd T)) :
    ∀ (ts : List (MT T)) (vs : List (Val T)), Sem ok ts vs → CondAll L cs ts →
    PreAll L ok fuel cs ts → Sem ok (runAllT L cs ts) (runAllV L cs vs) := by
  induction cs with
  | nil => intro ts vs h _ _; exact h
  | cons c cs ih =>
    intro ts vs h hc hp
    exact ih _ _ (Cmd.runT_sem H C c ts vs h hc.1 (fun v hv => by subst hv; exact hp.1)) hc.2 hp.2

/-! ## executable check of the preconditions -/

theorem zeroOne_of_B (L : TermOps T) : ∀ (a : MT T), zeroOneB L a = true → ZeroOne L a := by
  intro a
  induction a with
  | leaf t => intro h; simpa [zeroOneB, ZeroOne] using h
  | node l t e iht ihe =>
    intro h
    simp only [zeroOneB, Bool.and_eq_true] at h
    exact ⟨iht h.1, ihe h.2⟩

/-- Boolean version of `Cmd.Pre ∧ Cmd.CondOK` (`okB` decides admissibility of constants) -/
def Cmd.preB (okB : T → Bool) (L : TermOps T) (fuel : Nat) : Cmd T → List (MT T) → Bool
  | .const v, _ => okB v
  | .var _, _ => true
  | .bin _ i j, ts =>
    match ts[i]?, ts[j]? with
    | some a, some b => decide (a.size + b.size ≤ fuel)
    | _, _ => true
  | .ite i j k, ts =>
    (match ts[i]? with
     | some a => zeroOneB L a
     | none => true) &&
    (match ts[i]?, ts[j]?, ts[k]? with
     | some a, some b, some c => decide (a.size + b.size + c.size ≤ fuel)
     | _, _, _ => true)
  | .evict _, _ => true

def preAllB (okB : T → Bool) (L : TermOps T) (fuel : Nat) : List (Cmd T) → List (MT T) → Bool
  | [], _ => true
  | c :: cs, ts => c.preB okB L fuel ts && preAllB okB L fuel cs (c.runT L ts)

theorem Cmd.pre_of_B {okB : T → Bool} {ok : T → Prop} (hok : ∀ v, okB v = true → ok v)
    (L : TermOps T) (fuel : Nat) (c : Cmd T) (ts : List (MT T))
    (h : c.preB okB L fuel ts = true) : c.Pre ok fuel ts ∧ c.CondOK L ts := by
  cases c with
  | const v => exact ⟨hok v h, trivial⟩
  | var l => exact ⟨trivial, trivial⟩
  | bin op i j =>
    refine ⟨?_, trivial⟩
    intro a b ha hb
    simpa [Cmd.preB, ha, hb] using h
  | ite i j k =>
    simp only [Cmd.preB, Bool.and_eq_true] at h
    refine ⟨?_, ?_⟩
    · intro a b c ha hb hc
      simpa [ha, hb, hc] using h.2
    · intro a ha
      have := h.1
      simp only [ha] at this
      exact zeroOne_of_B L a this
  | evict n => exact ⟨trivial, trivial⟩

theorem preAll_of_B {okB : T → Bool} {ok : T → Prop} (hok : ∀ v, okB v = true → ok v)
    (L : TermOps T) (fuel : Nat) (cs : List (Cmd T)) : ∀ (ts : List (MT T)),
    preAllB okB L fuel cs ts = true → PreAll L ok fuel cs ts ∧ CondAll L cs ts := by
  induction cs with
  | nil => intro ts _; exact ⟨trivial, trivial⟩
  | cons c cs ih =>
    intro ts h
    simp only [preAllB, Bool.and_eq_true] at h
    obtain ⟨p1, c1⟩ := Cmd.pre_of_B hok L fuel c ts h.1
    obtain ⟨p2, c2⟩ := ih _ h.2
    exact ⟨⟨p1, p2⟩, ⟨c1, c2⟩⟩

theorem good_empty (L : TermOps T) (ok : T → Prop) (t : Nat) :
    Good L ok ((⟨Store.empty, [], t⟩ : St T), []) [] where
  inv := ⟨Store.empty_unique, fun i v hi => by
    simp [Store.getTerm?, Store.empty, Slots.get?] at hi, CacheOK.nil _ _⟩
  nored := Store.empty_nored
  handles := ⟨rfl, fun k e t he _ => by simp at he⟩

theorem sem_empty (ok : T → Prop) : Sem ok ([] : List (MT T)) [] :=
  ⟨rfl, fun k t v ht _ => by simp at ht⟩

end OxiddModel.Mtbdd.Refine
