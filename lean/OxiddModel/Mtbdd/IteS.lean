import OxiddModel.Mtbdd.ApplyS

/-!
# MTBDD store level: `apply_ite` with the apply cache refines the tree-level `applyIte`

`iteS` follows `apply_ite` of `crates/oxidd-rules-mtbdd/src/apply_rec.rs`: `g == h` ⇒ `g`; a
terminal condition selects `h` (value 0) or `g` (any other value); cache lookup under
`(Ite, [f, g, h])`; expansion at the minimum of the three root levels; two recursive calls;
`reduce`; cache add. No terminal is created.
-/
set_option linter.unusedSectionVars false

namespace OxiddModel.Mtbdd.Refine
open OxiddModel.Mtbdd OxiddModel.Mtbdd.MT OxiddModel.CachePolicy

variable {T : Type} [DecidableEq T]

/-- `apply_ite` -/
def iteS (L : TermOps T) (p : APolicy) : Nat → St T → Edge → Edge → Edge → St T × Edge
  | 0, st, f, _, _ => (st, f)
  | fuel+1, st, f, g, h =>
    -- the condition is irrelevant if both branches agree
    if g = h then (st, g) else
    match f with
    | .term i =>
      match st.store.getTerm? i with
      | some t => (st, if t = L.zero then h else g)
      | none => (st, f) -- dangling edge (excluded by `Denotes`)
    | .inner _ =>
      -- query apply cache
      match p.get st.tick st.cache (.ite, [f, g, h]) with
      | some r => (st.tickd, r)
      | none =>
        match lmin (lmin (st.store.level? f) (st.store.level? g)) (st.store.level? h) with
        | none => (st.tickd, f) -- excluded: `f` is an inner node
        | some l =>
          let r1 := iteS L p fuel st.tickd (st.store.cofT l f) (st.store.cofT l g) (st.store.cofT l h)
          let r0 := iteS L p fuel r1.1 (st.store.cofE l f) (st.store.cofE l g) (st.store.cofE l h)
          finishS p r0.1 (.ite, [f, g, h]) l r1.2 r0.2

/-! ## tree level -/

theorem cof_eq (l : Nat) (x : MT T) : cof l x = (tcofT l x, tcofE l x) := by
  cases x with
  | leaf a => rfl
  | node la t e => simp only [cof, tcofT, tcofE]; split <;> rfl

theorem minLevel_eq (l : Nat) (x : MT T) : some (minLevel l x) = lmin (some l) (tlevel x) := by
  cases x <;> rfl

theorem applyIte_same (L : TermOps T) (a b : MT T) : applyIte L a b b = b := by
  rw [applyIte.eq_def]; simp

theorem applyIte_leaf (L : TermOps T) (x : T) {b c : MT T} (h : b ≠ c) :
    applyIte L (.leaf x) b c = if x = L.zero then c else b := by
  rw [applyIte.eq_def]; simp [h]

theorem applyIte_node (L : TermOps T) {lf : Nat} {ft fe b c : MT T} {l : Nat} (h : b ≠ c)
    (hl : lmin (lmin (some lf) (tlevel b)) (tlevel c) = some l) :
    applyIte L (.node lf ft fe) b c =
      mk l (applyIte L (tcofT l (.node lf ft fe)) (tcofT l b) (tcofT l c))
        (applyIte L (tcofE l (.node lf ft fe)) (tcofE l b) (tcofE l c)) := by
  have e : minLevel (minLevel lf b) c = l := by
    have := minLevel_eq (minLevel lf b) c
    rw [minLevel_eq lf b] at this
    rw [hl] at this
    exact Option.some.inj this
  rw [applyIte.eq_def]
  simp only [h, if_false, e, cof_eq]

theorem ite_level (lf : Nat) (ft fe b c : MT T) :
    ∃ l, lmin (lmin (tlevel (MT.node lf ft fe)) (tlevel b)) (tlevel c) = some l := by
  cases b <;> cases c <;> simp [tlevel, lmin]

theorem ite_cof_sizes {a b c : MT T} {l : Nat}
    (hl : lmin (lmin (tlevel a) (tlevel b)) (tlevel c) = some l) :
    (tcofT l a).size + (tcofT l b).size + (tcofT l c).size < a.size + b.size + c.size ∧
    (tcofE l a).size + (tcofE l b).size + (tcofE l c).size < a.size + b.size + c.size := by
  have ha1 := tcofT_size_le l a
  have hb1 := tcofT_size_le l b
  have hc1 := tcofT_size_le l c
  have ha0 := tcofE_size_le l a
  have hb0 := tcofE_size_le l b
  have hc0 := tcofE_size_le l c
  rcases lmin_eq_some hl with h12 | h3
  · rcases lmin_eq_some h12 with h1 | h2
    · have := tcofT_size_lt h1; have := tcofE_size_lt h1; omega
    · have := tcofT_size_lt h2; have := tcofE_size_lt h2; omega
  · have := tcofT_size_lt h3; have := tcofE_size_lt h3; omega

/-- the terminals of `ite` are terminals of the two branches -/
theorem applyIte_all (L : TermOps T) {ok : T → Prop} (n : Nat) : ∀ (a b c : MT T),
    a.size + b.size + c.size ≤ n → b.All ok → c.All ok → (applyIte L a b c).All ok := by
  induction n with
  | zero => intro a b c h; have := size_pos a; omega
  | succ n ih =>
    intro a b c hn hb hc
    by_cases hbc : b = c
    · subst hbc; rw [applyIte_same]; exact hb
    · cases a with
      | leaf x => rw [applyIte_leaf L x hbc]; split; exact hc; exact hb
      | node lf ft fe =>
        obtain ⟨l, hl⟩ := ite_level lf ft fe b c
        rw [applyIte_node L hbc hl]
        have sz := ite_cof_sizes hl
        exact mk_all l _ _
          (ih _ _ _ (by omega) (tcofT_all l hb) (tcofT_all l hc))
          (ih _ _ _ (by omega) (tcofE_all l hb) (tcofE_all l hc))

/-! ## `apply_ite` refines `applyIte` -/

theorem iteS_spec {L : TermOps T} {ok : T → Prop} {p : APolicy} (pok : p.OK) (fuel : Nat) :
    ∀ (st : St T) (f g h : Edge) (a b c : MT T),
    Inv L ok st → Denotes st.store f a → Denotes st.store g b → Denotes st.store h c →
    a.size + b.size + c.size ≤ fuel →
    Post L ok st.store (applyIte L a b c) (iteS L p fuel st f g h) := by
  induction fuel with
  | zero =>
    intro st f g h a b c _ _ _ _ hsz
    have := size_pos a
    omega
  | succ fuel ih =>
    intro st f g h a b c hinv hf hg hh hsz
    have hinj := inj_of_unique hinv.1
    simp only [iteS]
    by_cases hgh : g = h
    · subst hgh
      have := Denotes.functional hg hh
      subst this
      simp only [if_true]
      rw [applyIte_same]
      exact Post.done hinv hg
    · have hbc : b ≠ c := fun e => hgh (hinj _ _ _ hg (e ▸ hh))
      simp only [hgh, if_false]
      cases hf with
      | @term i x hi =>
        simp only [hi]
        rw [applyIte_leaf L x hbc]
        split
        · exact Post.done hinv hh
        · exact Post.done hinv hg
      | @inner i lf t e tt te hi hft hfe =>
        have hdf : Denotes st.store (.inner i) (.node lf tt te) := .inner hi hft hfe
        simp only
        split
        · -- cache hit
          rename_i r hr
          have hent := hinv.2.2 _ _ (pok.get_mem _ _ _ _ hr)
          exact Post.done (st := st.tickd) hinv.tickd (hent.hit (DenotesL.three hdf hg hh) rfl)
        · -- cache miss
          rw [level?_denotes hdf, level?_denotes hg, level?_denotes hh]
          have hlv : ∃ l, lmin (lmin (tlevel (MT.node lf tt te)) (tlevel b)) (tlevel c) = some l := by
            cases b <;> cases c <;> simp [tlevel, lmin]
          obtain ⟨l, hl⟩ := hlv
          rw [hl]
          simp only
          have ha1 := tcofT_size_le l (MT.node lf tt te)
          have hb1 := tcofT_size_le l b
          have hc1 := tcofT_size_le l c
          have ha0 := tcofE_size_le l (MT.node lf tt te)
          have hb0 := tcofE_size_le l b
          have hc0 := tcofE_size_le l c
          have sz : (tcofT l (MT.node lf tt te)).size + (tcofT l b).size + (tcofT l c).size ≤ fuel ∧
              (tcofE l (MT.node lf tt te)).size + (tcofE l b).size + (tcofE l c).size ≤ fuel := by
            rcases lmin_eq_some hl with h12 | h3
            · rcases lmin_eq_some h12 with h1 | h2
              · have := tcofT_size_lt h1; have := tcofE_size_lt h1; omega
              · have := tcofT_size_lt h2; have := tcofE_size_lt h2; omega
            · have := tcofT_size_lt h3; have := tcofE_size_lt h3; omega
          have p1 := ih st.tickd _ _ _ _ _ _ hinv.tickd (cofT_denotes l hdf)
            (cofT_denotes l hg) (cofT_denotes l hh) sz.1
          have p0 := ih _ _ _ _ _ _ _ p1.inv ((cofE_denotes l hdf).mono p1.le)
            ((cofE_denotes l hg).mono p1.le) ((cofE_denotes l hh).mono p1.le) sz.2
          rw [applyIte_node L hbc hl]
          refine finishS_post pok p1 p0 (.ite, [.inner i, g, h]) l
            ⟨_, DenotesL.three hdf hg hh, ?_⟩
          show some (applyIte L _ _ _) = _
          rw [applyIte_node L hbc hl]

end OxiddModel.Mtbdd.Refine
