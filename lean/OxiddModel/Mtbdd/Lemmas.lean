import OxiddModel.Mtbdd.Model
/-!
# C10 — tree-level lemmas: the terminal laws and the lifting of the operators
-/
namespace OxiddModel.Mtbdd
variable {T : Type}

/-- every terminal of the diagram satisfies `p` -/
def MT.All (p : T → Prop) : MT T → Prop
  | .leaf t => p t
  | .node _ t e => All p t ∧ All p e

theorem MT.All.eval {p : T → Prop} {f : MT T} (h : f.All p) (σ : Nat → Bool) : p (f.eval σ) := by
  induction f with
  | leaf t => exact h
  | node l t e iht ihe =>
    simp only [MT.eval]
    split
    · exact iht h.1
    · exact ihe h.2

/-- What `terminal_bin` takes for granted about the terminal type, relative to a predicate `ok`
describing the values that can occur as terminals (for `I64`: the payload of `Num` is an `i64`;
for `F64`: the bit pattern is normalised). -/
structure TerminalLaws (L : TermOps T) (ok : T → Prop) : Prop where
  zero_ne_one : L.zero ≠ L.one
  zero_add : ∀ x, ok x → L.add L.zero x = x
  add_zero : ∀ x, ok x → L.add x L.zero = x
  sub_zero : ∀ x, ok x → L.sub x L.zero = x
  one_mul : ∀ x, ok x → L.mul L.one x = x
  mul_one : ∀ x, ok x → L.mul x L.one = x
  div_one : ∀ x, ok x → L.div x L.one = x
  nan_add : ∀ x, ok x → L.add L.nan x = L.nan
  add_nan : ∀ x, ok x → L.add x L.nan = L.nan
  nan_sub : ∀ x, ok x → L.sub L.nan x = L.nan
  sub_nan : ∀ x, ok x → L.sub x L.nan = L.nan
  nan_mul : ∀ x, ok x → L.mul L.nan x = L.nan
  mul_nan : ∀ x, ok x → L.mul x L.nan = L.nan
  nan_div : ∀ x, ok x → L.div L.nan x = L.nan
  div_nan : ∀ x, ok x → L.div x L.nan = L.nan
  nan_min : ∀ x, ok x → L.min L.nan x = L.nan
  min_nan : ∀ x, ok x → L.min x L.nan = L.nan
  nan_max : ∀ x, ok x → L.max L.nan x = L.nan
  max_nan : ∀ x, ok x → L.max x L.nan = L.nan
  min_self : ∀ x, ok x → L.min x x = x
  max_self : ∀ x, ok x → L.max x x = x

/-- the terminal values are closed under the operations -/
structure TerminalClosed (L : TermOps T) (ok : T → Prop) : Prop where
  ok_zero : ok L.zero
  ok_one : ok L.one
  ok_nan : ok L.nan
  ok_add : ∀ x y, ok x → ok y → ok (L.add x y)
  ok_sub : ∀ x y, ok x → ok y → ok (L.sub x y)
  ok_mul : ∀ x y, ok x → ok y → ok (L.mul x y)
  ok_div : ∀ x y, ok x → ok y → ok (L.div x y)

theorem TerminalClosed.ok_min {L : TermOps T} {ok : T → Prop} (C : TerminalClosed L ok)
    (x y : T) (hx : ok x) (hy : ok y) : ok (L.min x y) := by
  unfold TermOps.min; split <;> first | exact hx | exact hy | exact C.ok_nan

theorem TerminalClosed.ok_max {L : TermOps T} {ok : T → Prop} (C : TerminalClosed L ok)
    (x y : T) (hx : ok x) (hy : ok y) : ok (L.max x y) := by
  unfold TermOps.max; split <;> first | exact hx | exact hy | exact C.ok_nan

theorem TerminalClosed.ok_sem {L : TermOps T} {ok : T → Prop} (C : TerminalClosed L ok)
    (op : Op) (x y : T) (hx : ok x) (hy : ok y) : ok (L.sem op x y) := by
  cases op
  · exact C.ok_add x y hx hy
  · exact C.ok_sub x y hx hy
  · exact C.ok_mul x y hx hy
  · exact C.ok_div x y hx hy
  · exact C.ok_min x y hx hy
  · exact C.ok_max x y hx hy

variable [DecidableEq T]

/-! ## `reduce` -/

theorem eval_mk (σ : Nat → Bool) (l : Nat) (t e : MT T) :
    (mk l t e).eval σ = if σ l then t.eval σ else e.eval σ := by
  unfold mk
  split
  · rename_i h; subst h; simp
  · rfl

/-! ## `terminal_bin` -/

theorem terminalBin_leaf_leaf (L : TermOps T) (op : Op) (a b : T) :
    terminalBin L op (.leaf a) (.leaf b) ≠ .binary := by
  cases op <;> simp only [terminalBin] <;> (try split) <;> simp

theorem terminalBin_done {L : TermOps T} {ok : T → Prop} (H : TerminalLaws L ok)
    (op : Op) (f g h : MT T) (hf : f.All ok) (hg : g.All ok)
    (hd : terminalBin L op f g = .done h) (σ : Nat → Bool) :
    h.eval σ = L.sem op (f.eval σ) (g.eval σ) := by
  have vf := hf.eval σ
  have vg := hg.eval σ
  cases op <;> simp only [TermOps.sem]
  case min =>
    simp only [terminalBin] at hd
    split at hd
    · rename_i e; cases hd; subst e; exact (H.min_self _ vf).symm
    · cases f <;> cases g <;>
        simp only [MT.termIs, Bool.false_eq_true, if_false, Bool.or_false, Bool.false_or,
          decide_eq_true_eq] at hd
      · cases hd; simp only [TermOps.min, MT.eval]; split <;> simp_all [MT.eval]
      all_goals
        (repeat' split at hd) <;> cases hd <;> simp_all [MT.eval, H.nan_min, H.min_nan]
  case max =>
    simp only [terminalBin] at hd
    split at hd
    · rename_i e; cases hd; subst e; exact (H.max_self _ vf).symm
    · cases f <;> cases g <;>
        simp only [MT.termIs, Bool.false_eq_true, if_false, Bool.or_false, Bool.false_or,
          decide_eq_true_eq] at hd
      · cases hd; simp only [TermOps.max, MT.eval]; split <;> simp_all [MT.eval]
      all_goals
        (repeat' split at hd) <;> cases hd <;> simp_all [MT.eval, H.nan_max, H.max_nan]
  all_goals
    cases f <;> cases g <;>
      simp only [terminalBin, MT.termIs, Bool.false_eq_true, if_false, Bool.or_false,
        Bool.false_or, decide_eq_true_eq] at hd
    · cases hd; rfl
    all_goals
      (repeat' split at hd) <;> cases hd <;>
        simp_all [MT.eval, H.zero_add, H.add_zero, H.nan_add, H.add_nan, H.sub_zero, H.nan_sub,
          H.sub_nan, H.one_mul, H.mul_one, H.nan_mul, H.mul_nan, H.div_one, H.nan_div, H.div_nan]

/-! ## `apply_bin` -/

/-- the pointwise lifting, for trees of any depth -/
theorem applyBin_sem {L : TermOps T} {ok : T → Prop} (H : TerminalLaws L ok) (op : Op)
    (f g : MT T) (σ : Nat → Bool) :
    f.All ok → g.All ok → (applyBin L op f g).eval σ = L.sem op (f.eval σ) (g.eval σ) := by
  fun_induction applyBin L op f g <;> intro hf hg
  case case1 hd => exact terminalBin_done H op _ _ _ hf hg hd σ
  case case2 hb => exact absurd hb (terminalBin_leaf_leaf L op _ _)
  case case3 _ ih2 ih1 =>
    rw [eval_mk, ih2 hf.1 hg, ih1 hf.2 hg]; simp only [MT.eval]; split <;> rfl
  case case4 _ ih2 ih1 =>
    rw [eval_mk, ih2 hf hg.1, ih1 hf hg.2]; simp only [MT.eval]; split <;> rfl
  case case5 _ _ ih2 ih1 =>
    rw [eval_mk, ih2 hf.1 hg, ih1 hf.2 hg]; simp only [MT.eval]; split <;> rfl
  case case6 _ _ _ ih2 ih1 =>
    rw [eval_mk, ih2 hf hg.1, ih1 hf hg.2]; simp only [MT.eval]; split <;> rfl
  case case7 lf _ _ lg _ _ h1 h2 _ ih2 ih1 =>
    have : lf = lg := by omega
    subst this
    rw [eval_mk, ih2 hf.1 hg.1, ih1 hf.2 hg.2]; simp only [MT.eval]; split <;> rfl

/-- the result of the terminal case is one of the operands or a terminal -/
theorem terminalBin_done_shape (L : TermOps T) (op : Op) (f g h : MT T)
    (hd : terminalBin L op f g = .done h) : h = f ∨ h = g ∨ ∃ t, h = .leaf t := by
  cases op
  case min =>
    simp only [terminalBin] at hd
    split at hd
    · cases hd; exact Or.inl rfl
    · cases f <;> cases g <;>
        simp only [MT.termIs, Bool.false_eq_true, if_false, Bool.or_false, Bool.false_or,
          decide_eq_true_eq] at hd
      · cases hd; split <;> simp
      all_goals (repeat' split at hd) <;> cases hd <;> simp
  case max =>
    simp only [terminalBin] at hd
    split at hd
    · cases hd; exact Or.inl rfl
    · cases f <;> cases g <;>
        simp only [MT.termIs, Bool.false_eq_true, if_false, Bool.or_false, Bool.false_or,
          decide_eq_true_eq] at hd
      · cases hd; split <;> simp
      all_goals (repeat' split at hd) <;> cases hd <;> simp
  all_goals
    cases f <;> cases g <;>
      simp only [terminalBin, MT.termIs, Bool.false_eq_true, if_false, Bool.or_false,
        Bool.false_or, decide_eq_true_eq] at hd
    · cases hd; simp
    all_goals (repeat' split at hd) <;> cases hd <;> simp

theorem terminalBin_done_all {L : TermOps T} {ok : T → Prop} (C : TerminalClosed L ok)
    (op : Op) (f g h : MT T) (hf : f.All ok) (hg : g.All ok)
    (hd : terminalBin L op f g = .done h) : h.All ok := by
  cases op
  case min =>
    simp only [terminalBin] at hd
    split at hd
    · cases hd; exact hf
    · cases f <;> cases g <;>
        simp only [MT.termIs, Bool.false_eq_true, if_false, Bool.or_false, Bool.false_or,
          decide_eq_true_eq] at hd
      · cases hd; split <;> first | exact hf | exact hg | exact C.ok_nan
      all_goals (repeat' split at hd) <;> cases hd <;> exact C.ok_nan
  case max =>
    simp only [terminalBin] at hd
    split at hd
    · cases hd; exact hf
    · cases f <;> cases g <;>
        simp only [MT.termIs, Bool.false_eq_true, if_false, Bool.or_false, Bool.false_or,
          decide_eq_true_eq] at hd
      · cases hd; split <;> first | exact hf | exact hg | exact C.ok_nan
      all_goals (repeat' split at hd) <;> cases hd <;> exact C.ok_nan
  all_goals
    cases f <;> cases g <;>
      simp only [terminalBin, MT.termIs, Bool.false_eq_true, if_false, Bool.or_false,
        Bool.false_or, decide_eq_true_eq] at hd
    · cases hd
      first
        | exact C.ok_add _ _ hf hg | exact C.ok_sub _ _ hf hg
        | exact C.ok_mul _ _ hf hg | exact C.ok_div _ _ hf hg
    all_goals (repeat' split at hd) <;> cases hd <;> first | exact hf | exact hg | exact C.ok_nan

theorem mk_all {ok : T → Prop} (l : Nat) (t e : MT T) (ht : t.All ok) (he : e.All ok) :
    (mk l t e).All ok := by
  unfold mk; split
  · exact ht
  · exact ⟨ht, he⟩

/-- terminal values stay admissible -/
theorem applyBin_all {L : TermOps T} {ok : T → Prop} (C : TerminalClosed L ok) (op : Op)
    (f g : MT T) : f.All ok → g.All ok → (applyBin L op f g).All ok := by
  fun_induction applyBin L op f g <;> intro hf hg
  case case1 hd => exact terminalBin_done_all C op _ _ _ hf hg hd
  case case2 hb => exact hf
  case case3 _ ih2 ih1 => exact mk_all _ _ _ (ih2 hf.1 hg) (ih1 hf.2 hg)
  case case4 _ ih2 ih1 => exact mk_all _ _ _ (ih2 hf hg.1) (ih1 hf hg.2)
  case case5 _ _ ih2 ih1 => exact mk_all _ _ _ (ih2 hf.1 hg) (ih1 hf.2 hg)
  case case6 _ _ _ ih2 ih1 => exact mk_all _ _ _ (ih2 hf hg.1) (ih1 hf hg.2)
  case case7 _ _ _ _ ih2 ih1 => exact mk_all _ _ _ (ih2 hf.1 hg.1) (ih1 hf.2 hg.2)

/-! ## normal form -/

omit [DecidableEq T] in
theorem lbound_mono {k k' : Nat} (h : k ≤ k') (f : MT T) : lbound k' f → lbound k f := by
  cases f <;> simp only [lbound] <;> intro h' <;> omega

theorem mk_nf (l : Nat) (t e : MT T) (ht : NF t) (he : NF e)
    (bt : lbound (l + 1) t) (be : lbound (l + 1) e) : NF (mk l t e) := by
  unfold mk; split
  · exact ht
  · rename_i hne; exact ⟨⟨bt, be, ht.1, he.1⟩, ⟨hne, ht.2, he.2⟩⟩

theorem mk_lbound (k l : Nat) (t e : MT T) (hk : k ≤ l) (bt : lbound (l + 1) t) :
    lbound k (mk l t e) := by
  unfold mk; split
  · exact lbound_mono (by omega) t bt
  · exact hk

omit [DecidableEq T] in
theorem NF.node_inv {l : Nat} {t e : MT T} (h : NF (.node l t e)) :
    NF t ∧ NF e ∧ lbound (l + 1) t ∧ lbound (l + 1) e :=
  ⟨⟨h.1.2.2.1, h.2.2.1⟩, ⟨h.1.2.2.2, h.2.2.2⟩, h.1.1, h.1.2.1⟩

omit [DecidableEq T] in
theorem nf_leaf (t : T) : NF (MT.leaf t) := ⟨trivial, trivial⟩

/-- results of `apply_bin` are in normal form and do not reach above their operands -/
theorem applyBin_nf (L : TermOps T) (op : Op) (f g : MT T) :
    NF f → NF g →
      NF (applyBin L op f g) ∧ ∀ k, lbound k f → lbound k g → lbound k (applyBin L op f g) := by
  fun_induction applyBin L op f g <;> intro hf hg
  case case1 f g h hd =>
    rcases terminalBin_done_shape L op f g h hd with rfl | rfl | ⟨t, rfl⟩
    · exact ⟨hf, fun _ a _ => a⟩
    · exact ⟨hg, fun _ _ b => b⟩
    · exact ⟨nf_leaf t, fun _ _ _ => trivial⟩
  case case2 hb => exact ⟨hf, fun _ a _ => a⟩
  case case3 lf ft fe tg _ ih2 ih1 =>
    obtain ⟨nt, ne, bt, be⟩ := hf.node_inv
    obtain ⟨n2, b2⟩ := ih2 nt hg
    obtain ⟨n1, b1⟩ := ih1 ne hg
    exact ⟨mk_nf _ _ _ n2 n1 (b2 _ bt trivial) (b1 _ be trivial),
      fun k a _ => mk_lbound k lf _ _ a (b2 _ bt trivial)⟩
  case case4 tf lg gt ge _ ih2 ih1 =>
    obtain ⟨nt, ne, bt, be⟩ := hg.node_inv
    obtain ⟨n2, b2⟩ := ih2 hf nt
    obtain ⟨n1, b1⟩ := ih1 hf ne
    exact ⟨mk_nf _ _ _ n2 n1 (b2 _ trivial bt) (b1 _ trivial be),
      fun k _ b => mk_lbound k lg _ _ b (b2 _ trivial bt)⟩
  case case5 lf ft fe lg gt ge hlt _ ih2 ih1 =>
    obtain ⟨nt, ne, bt, be⟩ := hf.node_inv
    obtain ⟨n2, b2⟩ := ih2 nt hg
    obtain ⟨n1, b1⟩ := ih1 ne hg
    have bg : lbound (lf + 1) (MT.node lg gt ge) := by simp only [lbound]; omega
    exact ⟨mk_nf _ _ _ n2 n1 (b2 _ bt bg) (b1 _ be bg),
      fun k a _ => mk_lbound k lf _ _ a (b2 _ bt bg)⟩
  case case6 lf ft fe lg gt ge _ hlt _ ih2 ih1 =>
    obtain ⟨nt, ne, bt, be⟩ := hg.node_inv
    obtain ⟨n2, b2⟩ := ih2 hf nt
    obtain ⟨n1, b1⟩ := ih1 hf ne
    have bf : lbound (lg + 1) (MT.node lf ft fe) := by simp only [lbound]; omega
    exact ⟨mk_nf _ _ _ n2 n1 (b2 _ bf bt) (b1 _ bf be),
      fun k _ b => mk_lbound k lg _ _ b (b2 _ bf bt)⟩
  case case7 lf ft fe lg gt ge h1 h2 _ ih2 ih1 =>
    have : lf = lg := by omega
    subst this
    obtain ⟨nt, ne, bt, be⟩ := hf.node_inv
    obtain ⟨nt', ne', bt', be'⟩ := hg.node_inv
    obtain ⟨n2, b2⟩ := ih2 nt nt'
    obtain ⟨n1, b1⟩ := ih1 ne ne'
    exact ⟨mk_nf _ _ _ n2 n1 (b2 _ bt bt') (b1 _ be be'),
      fun k a _ => mk_lbound k lf _ _ a (b2 _ bt bt')⟩

end OxiddModel.Mtbdd
