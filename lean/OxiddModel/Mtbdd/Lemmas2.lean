import OxiddModel.Mtbdd.Lemmas
/-!
# C10 — tree-level lemmas for `apply_ite` and `restrict`
-/
namespace OxiddModel.Mtbdd
variable {T : Type}

/-! ## `apply_ite` -/

theorem eval_cof_true (σ : Nat → Bool) (lv : Nat) (x : MT T) (h : σ lv = true) :
    (cof lv x).1.eval σ = x.eval σ := by
  cases x with
  | leaf a => rfl
  | node l t e =>
    simp only [cof]; split
    · rename_i hl; subst hl; simp [MT.eval, h]
    · rfl

theorem eval_cof_false (σ : Nat → Bool) (lv : Nat) (x : MT T) (h : σ lv = false) :
    (cof lv x).2.eval σ = x.eval σ := by
  cases x with
  | leaf a => rfl
  | node l t e =>
    simp only [cof]; split
    · rename_i hl; subst hl; simp [MT.eval, h]
    · rfl

theorem zeroOne_cof (L : TermOps T) (lv : Nat) (x : MT T) (h : ZeroOne L x) :
    ZeroOne L (cof lv x).1 ∧ ZeroOne L (cof lv x).2 := by
  cases x with
  | leaf a => exact ⟨h, h⟩
  | node l t e =>
    simp only [cof]; split
    · exact h
    · exact ⟨h, h⟩

variable [DecidableEq T]

theorem applyIte_sem {L : TermOps T} (hne : L.zero ≠ L.one)
    (f g h : MT T) (σ : Nat → Bool) :
    ZeroOne L f →
    (applyIte L f g h).eval σ = if f.eval σ = L.one then g.eval σ else h.eval σ := by
  fun_induction applyIte L f g h <;> intro hz
  case case1 => simp
  case case2 => simp [MT.eval, hne]
  case case3 a hna =>
    have : a = L.one := by
      rcases hz with h | h
      · exact absurd h hna
      · exact h
    simp [MT.eval, this]
  case case4 g h hgh lf ft fe level ih2 ih1 =>
    have hzc := zeroOne_cof L level _ hz
    rw [eval_mk, ih2 hzc.1, ih1 hzc.2]
    cases hs : σ level
    · simp only [Bool.false_eq_true, if_false]
      rw [eval_cof_false σ level _ hs, eval_cof_false σ level _ hs, eval_cof_false σ level _ hs]
    · simp only [if_true]
      rw [eval_cof_true σ level _ hs, eval_cof_true σ level _ hs, eval_cof_true σ level _ hs]

/-! ## `restrict` -/

section NoDec
omit [DecidableEq T]

theorem assign_nil (σ : Nat → Bool) : assign [] σ = σ := by
  funext x; simp [assign, List.lookup]

theorem assign_cons_self (v : Nat) (b : Bool) (ls : List (Nat × Bool)) (σ : Nat → Bool) :
    assign ((v, b) :: ls) σ v = b := by
  simp [assign, List.lookup]

theorem assign_cons_ne (v : Nat) (b : Bool) (ls : List (Nat × Bool)) (σ : Nat → Bool) (x : Nat)
    (h : x ≠ v) : assign ((v, b) :: ls) σ x = assign ls σ x := by
  have : (x == v) = false := by simp [h]
  simp [assign, List.lookup, this]

/-- the value only depends on the variables at or below the root -/
theorem eval_congr_lbound (f : MT T) (k : Nat) (σ σ' : Nat → Bool)
    (ho : Ordered f) (hb : lbound k f) (h : ∀ x, k ≤ x → σ x = σ' x) : f.eval σ = f.eval σ' := by
  induction f generalizing k with
  | leaf t => rfl
  | node l t e iht ihe =>
    simp only [MT.eval]
    simp only [lbound] at hb
    obtain ⟨bt, be, ot, oe⟩ := ho
    rw [h l hb, iht (l + 1) ot bt (fun x hx => h x (by omega)),
      ihe (l + 1) oe be (fun x hx => h x (by omega))]

theorem eval_assign_skip (f : MT T) (v : Nat) (b : Bool) (ls : List (Nat × Bool))
    (σ : Nat → Bool) (ho : Ordered f) (hb : lbound (v + 1) f) :
    f.eval (assign ((v, b) :: ls) σ) = f.eval (assign ls σ) :=
  eval_congr_lbound f (v + 1) _ _ ho hb (fun x hx => assign_cons_ne v b ls σ x (by omega))

theorem IsCube.leaf_inv {L : TermOps T} {t : T} {ls : List (Nat × Bool)}
    (h : IsCube L (.leaf t) ls) : t = L.one ∧ ls = [] := by
  cases h; exact ⟨rfl, rfl⟩

theorem IsCube.node_inv {L : TermOps T} {l : Nat} {vt ve : MT T} {ls : List (Nat × Bool)}
    (h : IsCube L (.node l vt ve) ls) :
    (ve = .leaf L.zero ∧ ∃ ls', ls = (l, true) :: ls' ∧ IsCube L vt ls') ∨
    (vt = .leaf L.zero ∧ ∃ ls', ls = (l, false) :: ls' ∧ IsCube L ve ls') := by
  cases h with
  | pos hc => exact Or.inl ⟨rfl, _, rfl, hc⟩
  | neg hc => exact Or.inr ⟨rfl, _, rfl, hc⟩

/-- a cube below level `k` does not mention variables above `k` -/
theorem IsCube.lookup_none {L : TermOps T} {vars : MT T} {ls : List (Nat × Bool)}
    (h : IsCube L vars ls) (k : Nat) (ho : Ordered vars) (hb : lbound k vars) (x : Nat) (hx : x < k) :
    ls.lookup x = none := by
  induction h generalizing k with
  | one => rfl
  | pos hc ih =>
    rename_i l c ls
    simp only [lbound] at hb
    have : (x == l) = false := by simp; omega
    simp only [List.lookup, this]
    exact ih (l + 1) ho.2.2.1 ho.1 (by omega)
  | neg hc ih =>
    rename_i l c ls
    simp only [lbound] at hb
    have : (x == l) = false := by simp; omega
    simp only [List.lookup, this]
    exact ih (l + 1) ho.2.2.2 ho.2.1 (by omega)

end NoDec

/-- what `inner` promises: a finished result, or a sub-problem `(f', vars')` with the same value
where `f'` sits strictly above the top variable of `vars'` -/
def InnerSpec (L : TermOps T) (f : MT T) (ls : List (Nat × Bool)) : InnerResult T → Prop
  | .done r => ∀ σ, r.eval σ = f.eval (assign ls σ)
  | .recur v' f' =>
    ∃ ls', IsCube L v' ls' ∧ Ordered v' ∧ Ordered f' ∧
      (∀ l t e, f' = .node l t e → lbound (l + 1) v') ∧
      ∀ σ, f'.eval (assign ls' σ) = f.eval (assign ls σ)

omit [DecidableEq T] in
theorem InnerSpec.transfer {L : TermOps T} {f f' : MT T} {ls ls' : List (Nat × Bool)}
    {res : InnerResult T} (h : ∀ σ, f'.eval (assign ls' σ) = f.eval (assign ls σ))
    (hs : InnerSpec L f' ls' res) : InnerSpec L f ls res := by
  cases res with
  | done r => intro σ; rw [← h σ]; exact hs σ
  | recur v' f'' =>
    obtain ⟨ls'', a, b, c, d, e⟩ := hs
    exact ⟨ls'', a, b, c, d, fun σ => by rw [e σ, h σ]⟩

theorem restrictInner_spec {L : TermOps T} (hne : L.zero ≠ L.one) (f vars : MT T) :
    ∀ ls, Ordered f → Ordered vars → IsCube L vars ls →
      InnerSpec L f ls (restrictInner L f vars) := by
  fun_induction restrictInner L f vars <;> intro ls of ov hc
  case case1 fl ft fe vl vt ve hgt =>
    exact ⟨ls, hc, ov, of, fun l t e h => by cases h; simp only [lbound]; omega, fun _ => rfl⟩
  case case2 fl ft fe vl ve _ hlt l a b ih =>
    rcases hc.node_inv with ⟨_, ls', rfl, hc'⟩ | ⟨h, _⟩
    · refine InnerSpec.transfer (fun σ => ?_) (ih ls' of ov.2.2.1 hc')
      exact (eval_assign_skip _ vl true ls' σ of (by simp only [lbound]; omega)).symm
    · cases h
  case case3 fl ft fe vl ve _ hlt =>
    rcases hc.node_inv with ⟨_, ls', rfl, hc'⟩ | ⟨h, _⟩
    · obtain ⟨_, rfl⟩ := hc'.leaf_inv
      intro σ
      rw [eval_assign_skip _ vl true [] σ of (by simp only [lbound]; omega), assign_nil]
    · exact absurd (MT.leaf.inj h).symm hne
  case case4 fl ft fe vl _ hlt t ht l a b ih =>
    rcases hc.node_inv with ⟨_, ls', rfl, hc'⟩ | ⟨_, ls', rfl, hc'⟩
    · exact absurd hc'.leaf_inv.1 ht
    · refine InnerSpec.transfer (fun σ => ?_) (ih ls' of ov.2.2.2 hc')
      exact (eval_assign_skip _ vl false ls' σ of (by simp only [lbound]; omega)).symm
  case case5 fl ft fe vl _ hlt t ht t' =>
    rcases hc.node_inv with ⟨_, ls', rfl, hc'⟩ | ⟨_, ls', rfl, hc'⟩
    · exact absurd hc'.leaf_inv.1 ht
    · obtain ⟨_, rfl⟩ := hc'.leaf_inv
      intro σ
      rw [eval_assign_skip _ vl false [] σ of (by simp only [lbound]; omega), assign_nil]
  case case6 fl fe vl ve h1 h2 l a b l' a' b' ih =>
    have : vl = fl := by omega
    subst this
    rcases hc.node_inv with ⟨_, ls', rfl, hc'⟩ | ⟨h, _⟩
    · refine InnerSpec.transfer (fun σ => ?_) (ih ls' of.2.2.1 ov.2.2.1 hc')
      simp only [MT.eval, assign_cons_self, if_true]
      exact (eval_assign_skip _ vl true ls' σ of.2.2.1 of.1).symm
    · cases h
  case case7 fl fe vl ve h1 h2 l a b x =>
    have : vl = fl := by omega
    subst this
    rcases hc.node_inv with ⟨_, ls', rfl, hc'⟩ | ⟨h, _⟩
    · intro σ; simp [MT.eval, assign_cons_self]
    · cases h
  case case8 fl ft fe vl ve h1 h2 =>
    have : vl = fl := by omega
    subst this
    rcases hc.node_inv with ⟨_, ls', rfl, hc'⟩ | ⟨h, _⟩
    · obtain ⟨_, rfl⟩ := hc'.leaf_inv
      intro σ
      simp only [MT.eval, assign_cons_self, if_true]
      rw [eval_assign_skip _ vl true [] σ of.2.2.1 of.1, assign_nil]
    · exact absurd (MT.leaf.inj h).symm hne
  case case9 fl ft vl h1 h2 t ht l a b l' a' b' ih =>
    have : vl = fl := by omega
    subst this
    rcases hc.node_inv with ⟨_, ls', rfl, hc'⟩ | ⟨_, ls', rfl, hc'⟩
    · exact absurd hc'.leaf_inv.1 ht
    · refine InnerSpec.transfer (fun σ => ?_) (ih ls' of.2.2.2 ov.2.2.2 hc')
      simp only [MT.eval, assign_cons_self, Bool.false_eq_true, if_false]
      exact (eval_assign_skip _ vl false ls' σ of.2.2.2 of.2.1).symm
  case case10 fl ft vl h1 h2 t ht l a b x =>
    have : vl = fl := by omega
    subst this
    rcases hc.node_inv with ⟨_, ls', rfl, hc'⟩ | ⟨_, ls', rfl, hc'⟩
    · exact absurd hc'.leaf_inv.1 ht
    · intro σ; simp [MT.eval, assign_cons_self]
  case case11 fl ft fe vl h1 h2 t ht t' =>
    have : vl = fl := by omega
    subst this
    rcases hc.node_inv with ⟨_, ls', rfl, hc'⟩ | ⟨_, ls', rfl, hc'⟩
    · exact absurd hc'.leaf_inv.1 ht
    · obtain ⟨_, rfl⟩ := hc'.leaf_inv
      intro σ
      simp only [MT.eval, assign_cons_self, Bool.false_eq_true, if_false]
      rw [eval_assign_skip _ vl false [] σ of.2.2.2 of.2.1, assign_nil]
  case case12 f vars hnn =>
    intro σ
    cases f with
    | leaf t => rfl
    | node fl ft fe =>
      cases vars with
      | leaf t => obtain ⟨_, rfl⟩ := hc.leaf_inv; rw [assign_nil]
      | node vl vt ve => exact absurd rfl (hnn fl ft fe vl vt ve rfl)

theorem restrict_sem {L : TermOps T} (hne : L.zero ≠ L.one) (f vars : MT T) :
    ∀ ls, Ordered f → Ordered vars → IsCube L vars ls →
      ∀ σ, (restrict L f vars).eval σ = f.eval (assign ls σ) := by
  fun_induction restrict L f vars <;> intro ls of ov hc σ
  case case1 fl ft fe vl vt ve res h =>
    have := restrictInner_spec hne _ _ ls of ov hc
    rw [h] at this
    exact this σ
  case case2 fl ft fe vl vt ve vars' l t e h _ ih2 ih1 =>
    have := restrictInner_spec hne _ _ ls of ov hc
    rw [h] at this
    obtain ⟨ls', hc', ov', of', hb, he⟩ := this
    have hb' := hb l t e rfl
    rw [eval_mk, ih2 ls' of'.2.2.1 ov' hc' σ, ih1 ls' of'.2.2.2 ov' hc' σ, ← he σ]
    simp only [MT.eval]
    have : assign ls' σ l = σ l := by
      simp only [assign, hc'.lookup_none (l + 1) ov' hb' l (by omega)]
    rw [this]
  case case3 fl ft fe vl vt ve vars' x _ h =>
    have := restrictInner_spec hne _ _ ls of ov hc
    rw [h] at this
    obtain ⟨ls', hc', ov', of', hb, he⟩ := this
    rw [← he σ]; rfl
  case case4 f vars hnn =>
    cases f with
    | leaf t => rfl
    | node fl ft fe =>
      cases vars with
      | leaf t => obtain ⟨_, rfl⟩ := hc.leaf_inv; rw [assign_nil]
      | node vl vt ve => exact absurd rfl (hnn fl ft fe vl vt ve rfl)

/-! ## normal form of the results of `apply_ite` and `restrict` -/

section NoDec2
omit [DecidableEq T]

theorem minLevel_le (l : Nat) (x : MT T) : minLevel l x ≤ l := by
  cases x <;> simp only [minLevel, Nat.min_def] <;> (try split) <;> omega

theorem lbound_minLevel (l : Nat) (x : MT T) : lbound (minLevel l x) x := by
  cases x <;> simp only [minLevel, lbound, Nat.min_def] <;> (try split) <;> omega

theorem le_minLevel (k l : Nat) (x : MT T) (hl : k ≤ l) (hx : lbound k x) : k ≤ minLevel l x := by
  cases x <;> simp only [minLevel, lbound, Nat.min_def] at * <;> (try split) <;> omega

theorem cof_nf (lv : Nat) (x : MT T) (hn : NF x) (hb : lbound lv x) :
    NF (cof lv x).1 ∧ NF (cof lv x).2 ∧ lbound (lv + 1) (cof lv x).1 ∧ lbound (lv + 1) (cof lv x).2 := by
  cases x with
  | leaf a => exact ⟨hn, hn, trivial, trivial⟩
  | node l t e =>
    simp only [cof]; split
    · rename_i h; subst h
      obtain ⟨a, b, c, d⟩ := hn.node_inv
      exact ⟨a, b, c, d⟩
    · rename_i h
      simp only [lbound] at hb ⊢
      exact ⟨hn, hn, by omega, by omega⟩

end NoDec2

theorem applyIte_nf (L : TermOps T) (f g h : MT T) :
    NF f → NF g → NF h →
      NF (applyIte L f g h) ∧
        ∀ k, lbound k f → lbound k g → lbound k h → lbound k (applyIte L f g h) := by
  fun_induction applyIte L f g h <;> intro nf ng nh
  case case1 => exact ⟨nh, fun _ _ _ c => c⟩
  case case2 => exact ⟨nh, fun _ _ _ c => c⟩
  case case3 => exact ⟨ng, fun _ _ b _ => b⟩
  case case4 g h hgh lf ft fe level ih2 ih1 =>
    have bf : lbound level (MT.node lf ft fe) := by
      simp only [lbound]
      exact Nat.le_trans (minLevel_le _ h) (minLevel_le _ g)
    have bg : lbound level g :=
      lbound_mono (minLevel_le _ h) g (lbound_minLevel lf g)
    have bh : lbound level h := lbound_minLevel _ h
    obtain ⟨f1, f2, f3, f4⟩ := cof_nf level _ nf bf
    obtain ⟨g1, g2, g3, g4⟩ := cof_nf level _ ng bg
    obtain ⟨h1, h2, h3, h4⟩ := cof_nf level _ nh bh
    obtain ⟨n2, b2⟩ := ih2 f1 g1 h1
    obtain ⟨n1, b1⟩ := ih1 f2 g2 h2
    refine ⟨mk_nf _ _ _ n2 n1 (b2 _ f3 g3 h3) (b1 _ f4 g4 h4), fun k a b c => ?_⟩
    refine mk_lbound k level _ _ ?_ (b2 _ f3 g3 h3)
    exact le_minLevel k _ h (le_minLevel k lf g a b) c

/-- structural facts about `inner`: what it returns is a sub-diagram of `f` -/
theorem restrictInner_struct (L : TermOps T) (f vars : MT T) : NF f →
    (∀ r, restrictInner L f vars = .done r → NF r ∧ ∀ k, lbound k f → lbound k r) ∧
    (∀ v' f', restrictInner L f vars = .recur v' f' → NF f' ∧ ∀ k, lbound k f → lbound k f') := by
  fun_induction restrictInner L f vars <;> intro nf
  all_goals first
    | (refine ⟨fun r h => ?_, fun v' f' h => ?_⟩ <;> cases h <;>
        first
          | exact ⟨nf, fun _ a => a⟩
          | exact ⟨nf.node_inv.1, fun k a => lbound_mono (by simp only [lbound] at a; omega) _ nf.node_inv.2.2.1⟩
          | exact ⟨nf.node_inv.2.1, fun k a => lbound_mono (by simp only [lbound] at a; omega) _ nf.node_inv.2.2.2⟩
          | exact ⟨nf_leaf _, fun _ _ => trivial⟩)
    | skip
  case case2 ih => exact ih nf
  case case4 ih => exact ih nf
  case case6 fl fe vl ve _ _ l a b l' a' b' ih =>
    obtain ⟨i1, i2⟩ := ih nf.node_inv.1
    have hb := nf.node_inv.2.2.1
    refine ⟨fun r h => ?_, fun v' f' h => ?_⟩
    · obtain ⟨n, b⟩ := i1 r h
      exact ⟨n, fun k a => b k (lbound_mono (by simp only [lbound] at a; omega) _ hb)⟩
    · obtain ⟨n, b⟩ := i2 v' f' h
      exact ⟨n, fun k a => b k (lbound_mono (by simp only [lbound] at a; omega) _ hb)⟩
  case case9 fl ft vl _ _ t ht l a b l' a' b' ih =>
    obtain ⟨i1, i2⟩ := ih nf.node_inv.2.1
    have hb := nf.node_inv.2.2.2
    refine ⟨fun r h => ?_, fun v' f' h => ?_⟩
    · obtain ⟨n, b⟩ := i1 r h
      exact ⟨n, fun k a => b k (lbound_mono (by simp only [lbound] at a; omega) _ hb)⟩
    · obtain ⟨n, b⟩ := i2 v' f' h
      exact ⟨n, fun k a => b k (lbound_mono (by simp only [lbound] at a; omega) _ hb)⟩

theorem restrict_nf (L : TermOps T) (f vars : MT T) :
    NF f → NF (restrict L f vars) ∧ ∀ k, lbound k f → lbound k (restrict L f vars) := by
  fun_induction restrict L f vars <;> intro nf
  case case1 fl ft fe vl vt ve res h =>
    exact (restrictInner_struct L _ _ nf).1 res h
  case case2 fl ft fe vl vt ve vars' l t e h _ ih2 ih1 =>
    obtain ⟨n, b⟩ := (restrictInner_struct L _ _ nf).2 _ _ h
    obtain ⟨nt, ne, bt, be⟩ := n.node_inv
    obtain ⟨n2, b2⟩ := ih2 nt
    obtain ⟨n1, b1⟩ := ih1 ne
    exact ⟨mk_nf _ _ _ n2 n1 (b2 _ bt) (b1 _ be), fun k a => mk_lbound k l _ _ (b k a) (b2 _ bt)⟩
  case case3 => exact ⟨nf_leaf _, fun _ _ => trivial⟩
  case case4 => exact ⟨nf, fun _ a => a⟩
end OxiddModel.Mtbdd
