import OxiddModel.Mtbdd.Lemmas
/-!
# C10 — helper lemmas about the `I64` terminal arithmetic
-/
namespace OxiddModel.Mtbdd
namespace I64

theorem inRange_iff (x : Int) : inRange x ↔ (-9223372036854775808 ≤ x ∧ x ≤ 9223372036854775807) := by
  simp only [inRange, I64_MIN, I64_MAX]

/-- sign of a product -/
theorem mul_pos_iff (a b : Int) : 0 < a * b ↔ (0 < a ∧ 0 < b) ∨ (a < 0 ∧ b < 0) := by
  constructor
  · intro h
    rcases Int.lt_trichotomy a 0 with ha | ha | ha
    · rcases Int.lt_trichotomy b 0 with hb | hb | hb
      · exact Or.inr ⟨ha, hb⟩
      · subst hb; simp at h
      · have := Int.mul_nonpos_of_nonpos_of_nonneg (Int.le_of_lt ha) (Int.le_of_lt hb); omega
    · subst ha; simp at h
    · rcases Int.lt_trichotomy b 0 with hb | hb | hb
      · have := Int.mul_nonpos_of_nonneg_of_nonpos (Int.le_of_lt ha) (Int.le_of_lt hb); omega
      · subst hb; simp at h
      · exact Or.inl ⟨ha, hb⟩
  · rintro (⟨ha, hb⟩ | ⟨ha, hb⟩)
    · exact Int.mul_pos ha hb
    · exact Int.mul_pos_of_neg_of_neg ha hb

theorem add_num (a b : Int) (ha : inRange a) (hb : inRange b) :
    add (num a) (num b) =
      if inRange (a + b) then num (a + b) else if 0 < a + b then pinf else ninf := by
  simp only [add, checkedAdd]
  simp only [inRange_iff] at *
  split <;> rename_i h
  · split at h
    · rename_i h'; simp only [Option.some.injEq] at h; subst h; simp [h']
    · cases h
  · split at h
    · cases h
    · rename_i h'
      simp only [h', if_false]
      by_cases hp : a > 0
      · rw [if_pos hp, if_pos (by omega)]
      · rw [if_neg hp, if_neg (by omega)]

theorem sub_num (a b : Int) (ha : inRange a) (hb : inRange b) :
    sub (num a) (num b) =
      if inRange (a - b) then num (a - b) else if 0 < a - b then pinf else ninf := by
  simp only [sub, checkedSub]
  simp only [inRange_iff] at *
  split <;> rename_i h
  · split at h
    · rename_i h'; simp only [Option.some.injEq] at h; subst h; simp [h']
    · cases h
  · split at h
    · cases h
    · rename_i h'
      simp only [h', if_false]
      by_cases hp : b < 0
      · rw [if_pos hp, if_pos (by omega)]
      · rw [if_neg hp, if_neg (by omega)]

theorem mul_num (a b : Int) :
    mul (num a) (num b) =
      if inRange (a * b) then num (a * b) else if 0 < a * b then pinf else ninf := by
  simp only [mul, checkedMul]
  split <;> rename_i h
  · split at h
    · rename_i h'; simp only [Option.some.injEq] at h; subst h; simp [h']
    · cases h
  · split at h
    · cases h
    · rename_i h'
      simp only [h', if_false]
      have := mul_pos_iff a b
      by_cases hp : (a > 0 ∧ b > 0 ∨ a < 0 ∧ b < 0)
      · rw [if_pos hp, if_pos (this.2 hp)]
      · rw [if_neg hp, if_neg (fun h => hp (this.1 h))]

/-- `|a.tdiv b| ≤ |a|` -/
theorem natAbs_tdiv_le (a b : Int) : (a.tdiv b).natAbs ≤ a.natAbs := by
  rw [Int.natAbs_tdiv]; exact Nat.div_le_self _ _

theorem tdiv_inRange (a b : Int) (ha : inRange a) (hb : b ≠ 0)
    (hmin : ¬(a = I64_MIN ∧ b = -1)) : inRange (a.tdiv b) := by
  have h1 := natAbs_tdiv_le a b
  have h2 : (a.tdiv b).natAbs = a.natAbs / b.natAbs := Int.natAbs_tdiv a b
  simp only [inRange_iff, I64_MIN] at *
  by_cases hb1 : b = -1
  · subst hb1
    have : a.tdiv (-1) = -a := by rw [Int.tdiv_neg, Int.tdiv_one]
    rw [this]; omega
  · by_cases hb2 : b = 1
    · subst hb2; rw [Int.tdiv_one]; exact ha
    · -- |b| ≥ 2, so |a / b| ≤ |a| / 2
      have hb3 : 2 ≤ b.natAbs := by omega
      have h3 : a.natAbs / b.natAbs ≤ a.natAbs / 2 := Nat.div_le_div_left hb3 (by omega)
      omega

theorem tdiv_min_neg_one : Int.tdiv I64_MIN (-1) = 9223372036854775808 := by decide

theorem div_num (a b : Int) (ha : inRange a) :
    div (num a) (num b) =
      if b = 0 then (if 0 < a then pinf else if a < 0 then ninf else nan)
      else if inRange (a.tdiv b) then num (a.tdiv b) else pinf := by
  simp only [div]
  by_cases hb : b = 0
  · subst hb
    simp only [if_true]
    rcases Int.lt_trichotomy a 0 with h | h | h
    · have : compare a 0 = .lt := Int.compare_eq_lt.2 h
      simp only [this]; rw [if_neg (by omega), if_pos h]
    · subst h; simp
    · have : compare a 0 = .gt := Int.compare_eq_gt.2 h
      simp only [this]; rw [if_pos h]
  · simp only [hb, if_false]
    by_cases hm : a = I64_MIN ∧ b = -1
    · rw [if_pos hm]
      obtain ⟨rfl, rfl⟩ := hm
      rw [if_neg]
      rw [tdiv_min_neg_one]; simp [inRange_iff]
    · rw [if_neg hm, if_pos (tdiv_inRange a b ha hb hm)]


/-! ### the order -/

/-- the order of the extended integers: `-∞ < n < +∞`, integers as usual; NaN is not related -/
def extLt : I64 → I64 → Prop
  | ninf, num _ | ninf, pinf | num _, pinf => True
  | num a, num b => a < b
  | _, _ => False

instance (a b : I64) : Decidable (extLt a b) := by
  cases a <;> cases b <;> simp only [extLt] <;> exact inferInstance

theorem partialCmp_self (a : I64) : partialCmp a a = some .eq := by
  cases a <;> simp [partialCmp]

theorem partialCmp_eq_iff (a b : I64) : partialCmp a b = some .eq ↔ a = b := by
  cases a <;> cases b <;> simp [partialCmp]

theorem partialCmp_lt_iff (a b : I64) : partialCmp a b = some .lt ↔ extLt a b := by
  cases a <;> cases b <;> simp [partialCmp, extLt, Int.compare_eq_lt]

theorem partialCmp_gt_iff (a b : I64) : partialCmp a b = some .gt ↔ extLt b a := by
  cases a <;> cases b <;> simp [partialCmp, extLt, Int.compare_eq_gt]

theorem partialCmp_none_iff (a b : I64) :
    partialCmp a b = none ↔ (a = nan ∧ b ≠ nan) ∨ (a ≠ nan ∧ b = nan) := by
  cases a <;> cases b <;> simp [partialCmp]

theorem extLt_trans (a b c : I64) : extLt a b → extLt b c → extLt a c := by
  cases a <;> cases b <;> cases c <;> simp only [extLt] <;> intros <;> first | trivial | omega | contradiction

theorem extLt_irrefl (a : I64) : ¬extLt a a := by
  cases a <;> simp [extLt]

/-- on values other than NaN the order is total -/
theorem extLt_total (a b : I64) (ha : a ≠ nan) (hb : b ≠ nan) : extLt a b ∨ a = b ∨ extLt b a := by
  cases a <;> cases b <;> simp [extLt] at * <;> omega

/-! ### NaN absorption, neutral elements -/

theorem nan_add (x : I64) : add nan x = nan := by cases x <;> rfl
theorem add_nan (x : I64) : add x nan = nan := by cases x <;> rfl
theorem nan_sub (x : I64) : sub nan x = nan := by cases x <;> rfl
theorem sub_nan (x : I64) : sub x nan = nan := by cases x <;> rfl
theorem nan_mul (x : I64) : mul nan x = nan := by cases x <;> rfl
theorem mul_nan (x : I64) : mul x nan = nan := by cases x <;> rfl
theorem nan_div (x : I64) : div nan x = nan := by cases x <;> rfl
theorem div_nan (x : I64) : div x nan = nan := by cases x <;> rfl

theorem inRange_zero : inRange 0 := by decide
theorem inRange_one : inRange 1 := by decide

theorem zero_add (x : I64) (hx : x.Valid) : add (num 0) x = x := by
  cases x with
  | num n => rw [add_num 0 n inRange_zero hx]; simp only [Int.zero_add]; exact if_pos (show inRange n from hx)
  | _ => rfl

theorem add_zero (x : I64) (hx : x.Valid) : add x (num 0) = x := by
  cases x with
  | num n => rw [add_num n 0 hx inRange_zero]; simp only [Int.add_zero]; exact if_pos (show inRange n from hx)
  | _ => rfl

theorem sub_zero (x : I64) (hx : x.Valid) : sub x (num 0) = x := by
  cases x with
  | num n => rw [sub_num n 0 hx inRange_zero]; simp only [Int.sub_zero]; exact if_pos (show inRange n from hx)
  | _ => rfl

theorem one_mul (x : I64) (hx : x.Valid) : mul (num 1) x = x := by
  cases x with
  | num n => rw [mul_num 1 n]; simp only [Int.one_mul]; exact if_pos (show inRange n from hx)
  | nan => rfl
  | ninf => decide
  | pinf => decide

theorem mul_one (x : I64) (hx : x.Valid) : mul x (num 1) = x := by
  cases x with
  | num n => rw [mul_num n 1]; simp only [Int.mul_one]; exact if_pos (show inRange n from hx)
  | nan => rfl
  | ninf => decide
  | pinf => decide

theorem div_one (x : I64) (hx : x.Valid) : div x (num 1) = x := by
  cases x with
  | num n =>
    rw [div_num n 1 hx]; simp only [Int.tdiv_one]
    rw [if_neg (by decide)]; exact if_pos (show inRange n from hx)
  | nan => rfl
  | ninf => decide
  | pinf => decide

/-! ### closure: results are again `i64` payloads -/

theorem add_valid (x y : I64) (hx : x.Valid) (hy : y.Valid) : (add x y).Valid := by
  cases x <;> cases y <;> try trivial
  rename_i a b
  rw [add_num a b hx hy]; split
  · assumption
  · split <;> trivial

theorem sub_valid (x y : I64) (hx : x.Valid) (hy : y.Valid) : (sub x y).Valid := by
  cases x <;> cases y <;> try trivial
  rename_i a b
  rw [sub_num a b hx hy]; split
  · assumption
  · split <;> trivial

theorem mul_valid (x y : I64) (_hx : x.Valid) (_hy : y.Valid) : (mul x y).Valid := by
  cases x <;> cases y
  case num.num a b =>
    rw [mul_num a b]; split
    · assumption
    · split <;> trivial
  all_goals (simp only [mul, signum]; (repeat' split) <;> trivial)

theorem div_valid (x y : I64) (hx : x.Valid) (_hy : y.Valid) : (div x y).Valid := by
  cases x <;> cases y
  case num.num a b =>
    rw [div_num a b hx]; (repeat' split) <;> first | trivial | assumption
  all_goals (simp only [div]; (repeat' split) <;> first | trivial | exact inRange_zero)

end I64

/-- `I64` satisfies everything `terminal_bin` takes for granted -/
theorem i64_terminalLaws : TerminalLaws i64Ops I64.Valid where
  zero_ne_one := by decide
  zero_add := I64.zero_add
  add_zero := I64.add_zero
  sub_zero := I64.sub_zero
  one_mul := I64.one_mul
  mul_one := I64.mul_one
  div_one := I64.div_one
  nan_add := fun x _ => I64.nan_add x
  add_nan := fun x _ => I64.add_nan x
  nan_sub := fun x _ => I64.nan_sub x
  sub_nan := fun x _ => I64.sub_nan x
  nan_mul := fun x _ => I64.nan_mul x
  mul_nan := fun x _ => I64.mul_nan x
  nan_div := fun x _ => I64.nan_div x
  div_nan := fun x _ => I64.div_nan x
  nan_min := fun x _ => by cases x <;> rfl
  min_nan := fun x _ => by cases x <;> rfl
  nan_max := fun x _ => by cases x <;> rfl
  max_nan := fun x _ => by cases x <;> rfl
  min_self := fun x _ => by
    show TermOps.min i64Ops x x = x
    simp only [TermOps.min, i64Ops, I64.partialCmp_self]
  max_self := fun x _ => by
    show TermOps.max i64Ops x x = x
    simp only [TermOps.max, i64Ops, I64.partialCmp_self]

theorem i64_terminalClosed : TerminalClosed i64Ops I64.Valid where
  ok_zero := I64.inRange_zero
  ok_one := I64.inRange_one
  ok_nan := trivial
  ok_add := I64.add_valid
  ok_sub := I64.sub_valid
  ok_mul := I64.mul_valid
  ok_div := I64.div_valid

end OxiddModel.Mtbdd
