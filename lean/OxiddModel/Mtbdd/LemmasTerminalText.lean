import OxiddModel.Mtbdd.TerminalText
import OxiddModel.Dddmp.LemmasNames

/-!
# Lemmas for the text form of `I64` terminals

`accPos` / `accNeg` (the checked loops of `i64::from_str`) compute the decimal value of a digit
string or fail exactly on a non-digit or when the value leaves the range; `fromStrI64` in closed
form; the decimal text written by `Display` parses back.
-/
namespace OxiddModel.Mtbdd.TermText
open OxiddModel.Dddmp (intBytes decBytes isDigit isBlank valOf IsDigits valOf_decBytes isDigits_decBytes)

/-- decimal value with a start value: the fold of both loops -/
def valFrom (r : Nat) (cs : List Nat) : Nat := cs.foldl (fun a d => a * 10 + (d - 48)) r

theorem valFrom_nil (r : Nat) : valFrom r [] = r := by unfold valFrom; exact List.foldl_nil
theorem valFrom_cons (r c : Nat) (cs : List Nat) : valFrom r (c :: cs) = valFrom (r * 10 + (c - 48)) cs := by
  unfold valFrom; exact List.foldl_cons ..
theorem valFrom_zero (cs : List Nat) : valFrom 0 cs = valOf cs := by unfold valFrom valOf; rfl

theorem valFrom_ge (cs : List Nat) : ∀ r, r ≤ valFrom r cs := by
  induction cs with
  | nil => intro r; exact Nat.le_refl _
  | cons c cs ih =>
    intro r
    rw [valFrom_cons]
    exact Nat.le_trans (by omega) (ih _)

theorem i64_max_eq : I64_MAX = 9223372036854775807 := rfl
theorem i64_min_eq : I64_MIN = -9223372036854775808 := rfl

theorem inRange_iff (x : Int) : inRange x ↔ -9223372036854775808 ≤ x ∧ x ≤ 9223372036854775807 := Iff.rfl

theorem checkedMul_some {a b : Int} (h : inRange (a * b)) : I64.checkedMul a b = some (a * b) := if_pos h
theorem checkedMul_none {a b : Int} (h : ¬ inRange (a * b)) : I64.checkedMul a b = none := if_neg h
theorem checkedAdd_some {a b : Int} (h : inRange (a + b)) : I64.checkedAdd a b = some (a + b) := if_pos h
theorem checkedAdd_none {a b : Int} (h : ¬ inRange (a + b)) : I64.checkedAdd a b = none := if_neg h
theorem checkedSub_some {a b : Int} (h : inRange (a - b)) : I64.checkedSub a b = some (a - b) := if_pos h
theorem checkedSub_none {a b : Int} (h : ¬ inRange (a - b)) : I64.checkedSub a b = none := if_neg h

theorem toDigit_of_digit {c : Nat} (h : isDigit c = true) : toDigit c = some ((c - 48 : Nat) : Int) := by
  simp [toDigit, h]

theorem toDigit_of_not {c : Nat} (h : isDigit c = false) : toDigit c = none := by
  simp [toDigit, h]

theorem isDigit_iff (c : Nat) : isDigit c = true ↔ 48 ≤ c ∧ c ≤ 57 := by
  simp [isDigit]

/-- the positive loop: the value, if all bytes are digits and the value fits -/
theorem accPos_spec (cs : List Nat) : ∀ r : Nat, r ≤ 9223372036854775807 →
    accPos cs (r : Int) =
      if cs.all isDigit = true ∧ valFrom r cs ≤ 9223372036854775807 then some ((valFrom r cs : Nat) : Int)
      else none := by
  induction cs with
  | nil =>
    intro r hr
    simp only [accPos, List.all_nil, valFrom_nil, true_and, if_pos hr]
  | cons c cs ih =>
    intro r hr
    rw [valFrom_cons]
    unfold accPos
    by_cases hd : isDigit c = true
    · have hc := (isDigit_iff c).1 hd
      rw [toDigit_of_digit hd]
      simp only [List.all_cons, hd, Bool.true_and]
      by_cases hm : r * 10 + (c - 48) ≤ 9223372036854775807
      · have h1 : I64.checkedMul (r : Int) 10 = some ((r : Int) * 10) :=
          checkedMul_some ((inRange_iff _).2 (by omega))
        have h2 : I64.checkedAdd ((r : Int) * 10) ((c - 48 : Nat) : Int)
            = some (((r * 10 + (c - 48) : Nat)) : Int) := by
          rw [checkedAdd_some ((inRange_iff _).2 (by omega))]
          congr 1
        simp only [h1, h2]
        exact ih _ hm
      · have hge := valFrom_ge cs (r * 10 + (c - 48))
        rw [if_neg (by omega)]
        by_cases hmul : (r : Int) * 10 ≤ 9223372036854775807
        · have h1 : I64.checkedMul (r : Int) 10 = some ((r : Int) * 10) :=
            checkedMul_some ((inRange_iff _).2 (by omega))
          have h2 : I64.checkedAdd ((r : Int) * 10) ((c - 48 : Nat) : Int) = none :=
            checkedAdd_none (fun h => by have := (inRange_iff _).1 h; omega)
          simp only [h1, h2]
        · have h1 : I64.checkedMul (r : Int) 10 = none :=
            checkedMul_none (fun h => by have := (inRange_iff _).1 h; omega)
          simp only [h1]
    · have hd' : isDigit c = false := by simpa using hd
      rw [toDigit_of_not hd']
      simp only [List.all_cons, hd', Bool.false_and]
      rw [if_neg (by simp)]

/-- the negative loop accumulates downwards and reaches `i64::MIN` -/
theorem accNeg_spec (cs : List Nat) : ∀ r : Nat, r ≤ 9223372036854775808 →
    accNeg cs (-(r : Int)) =
      if cs.all isDigit = true ∧ valFrom r cs ≤ 9223372036854775808 then some (-((valFrom r cs : Nat) : Int))
      else none := by
  induction cs with
  | nil =>
    intro r hr
    simp only [accNeg, List.all_nil, valFrom_nil, true_and, if_pos hr]
  | cons c cs ih =>
    intro r hr
    rw [valFrom_cons]
    unfold accNeg
    by_cases hd : isDigit c = true
    · have hc := (isDigit_iff c).1 hd
      rw [toDigit_of_digit hd]
      simp only [List.all_cons, hd, Bool.true_and]
      by_cases hm : r * 10 + (c - 48) ≤ 9223372036854775808
      · have h1 : I64.checkedMul (-(r : Int)) 10 = some (-(r : Int) * 10) :=
          checkedMul_some ((inRange_iff _).2 (by omega))
        have h2 : I64.checkedSub (-(r : Int) * 10) ((c - 48 : Nat) : Int)
            = some (-(((r * 10 + (c - 48) : Nat)) : Int)) := by
          rw [checkedSub_some ((inRange_iff _).2 (by omega))]
          congr 1
          omega
        simp only [h1, h2]
        exact ih _ hm
      · have hge := valFrom_ge cs (r * 10 + (c - 48))
        rw [if_neg (by omega)]
        by_cases hmul : (r : Int) * 10 ≤ 9223372036854775808
        · have h1 : I64.checkedMul (-(r : Int)) 10 = some (-(r : Int) * 10) :=
            checkedMul_some ((inRange_iff _).2 (by omega))
          have h2 : I64.checkedSub (-(r : Int) * 10) ((c - 48 : Nat) : Int) = none :=
            checkedSub_none (fun h => by have := (inRange_iff _).1 h; omega)
          simp only [h1, h2]
        · have h1 : I64.checkedMul (-(r : Int)) 10 = none :=
            checkedMul_none (fun h => by have := (inRange_iff _).1 h; omega)
          simp only [h1]
    · have hd' : isDigit c = false := by simpa using hd
      rw [toDigit_of_not hd']
      simp only [List.all_cons, hd', Bool.false_and]
      rw [if_neg (by simp)]

/-- `i64::from_str` in closed form: an optional sign, a non-empty digit string, the value in range -/
def fromStrSpec (s : List Nat) : Option Int :=
  let neg := s.head? = some 45
  let body := if s.head? = some 45 ∨ s.head? = some 43 then s.tail else s
  if body = [] ∨ body.all isDigit = false then none
  else if neg then (if valOf body ≤ 9223372036854775808 then some (-(valOf body : Int)) else none)
  else (if valOf body ≤ 9223372036854775807 then some (valOf body : Int) else none)

theorem accPos_zero (cs : List Nat) : accPos cs 0 =
    if cs.all isDigit = true ∧ valOf cs ≤ 9223372036854775807 then some ((valOf cs : Nat) : Int) else none := by
  have := accPos_spec cs 0 (by omega)
  rw [valFrom_zero] at this
  exact this

theorem accNeg_zero (cs : List Nat) : accNeg cs 0 =
    if cs.all isDigit = true ∧ valOf cs ≤ 9223372036854775808 then some (-((valOf cs : Nat) : Int)) else none := by
  have := accNeg_spec cs 0 (by omega)
  rw [valFrom_zero] at this
  have h0 : (-((0 : Nat) : Int)) = 0 := by decide
  rw [h0] at this
  exact this

theorem fromStrI64_eq_spec (s : List Nat) : fromStrI64 s = fromStrSpec s := by
  cases s with
  | nil => simp [fromStrI64, fromStrSpec]
  | cons c rest =>
    unfold fromStrI64 fromStrSpec
    simp only [List.head?_cons, Option.some.injEq, List.tail_cons]
    rw [accPos_zero, accNeg_zero, accPos_zero]
    by_cases h45 : c = 45
    · subst h45
      by_cases hr : rest = [] <;> by_cases ha : rest.all isDigit = true <;> simp [hr, ha]
    · by_cases h43 : c = 43
      · subst h43
        by_cases hr : rest = [] <;> by_cases ha : rest.all isDigit = true <;> simp [hr, ha]
      · by_cases ha : (c :: rest).all isDigit = true <;> simp [h45, h43, ha]

/-! ## the decimal text of an integer -/

theorem all_isDigit_of_IsDigits {l : List Nat} (h : IsDigits l) : l.all isDigit = true := by
  rw [List.all_eq_true]
  intro c hc
  exact (isDigit_iff c).2 (h c hc)

theorem decBytes_ne_nil (n : Nat) : decBytes n ≠ [] := by
  unfold decBytes OxiddModel.Dddmp.decDigitsGo
  split
  · simp
  · rename_i h
    rw [(OxiddModel.Dddmp.decDigitsGo_spec n (n / 10) [48 + n % 10] (by omega)).1]
    simp

theorem decBytes_head_digit (n : Nat) : ∃ c rest, decBytes n = c :: rest ∧ isDigit c = true := by
  cases h : decBytes n with
  | nil => exact absurd h (decBytes_ne_nil n)
  | cons c rest =>
    refine ⟨c, rest, rfl, ?_⟩
    have := isDigits_decBytes n c (by rw [h]; simp)
    exact (isDigit_iff c).2 this

/-- what `Display` writes for an `i64` is read back by `i64::from_str` -/
theorem fromStr_intBytes (n : Int) (hn : inRange n) : fromStrI64 (intBytes n) = some n := by
  rw [fromStrI64_eq_spec]
  obtain ⟨hlo, hhi⟩ := hn
  rw [i64_min_eq] at hlo
  rw [i64_max_eq] at hhi
  obtain ⟨c, rest, hcr, hcd⟩ := decBytes_head_digit n.natAbs
  have hc := (isDigit_iff c).1 hcd
  have hall := all_isDigit_of_IsDigits (isDigits_decBytes n.natAbs)
  have hval := valOf_decBytes n.natAbs
  unfold intBytes fromStrSpec
  by_cases hneg : n < 0
  · rw [if_pos hneg]
    simp only [List.head?_cons, true_or, if_true, List.tail_cons]
    rw [if_neg (by simp [decBytes_ne_nil, hall]), hval, if_pos (by omega)]
    congr 1; omega
  · rw [if_neg hneg, hcr]
    have h45 : ¬ (c = 45) := by omega
    have h43 : ¬ (c = 43) := by omega
    simp only [List.head?_cons, Option.some.injEq, h45, h43, or_self, if_false]
    rw [← hcr, if_neg (by simp [decBytes_ne_nil, hall]), hval, if_pos (by omega)]
    congr 1; omega

end OxiddModel.Mtbdd.TermText
